//go:build verif

package assembly

// Race-free variants: the service objects built by heimdall's own newService
// functions (overlay exports) are served on listeners the harness creates with
// port 0 and keeps, instead of letting heimdall bind a port number that
// testsupport.GetFreePort found free a moment ago (see "ports" in assembly.go).  (Under parallel load that
// port can be gone again, and heimdall's lifecycle manager then logs Fatal,
// i.e. calls os.Exit, which takes the whole driver down.)
//
// Needs, in addition to the entries of handlers.go, the overlay entry
//   internal/handler/envoyextauth/grpcv3/zz_verif_export.go -> assembly/export/envoy_export.go

import (
	"context"
	"errors"
	"fmt"
	"io"
	"net"
	"net/http"
	"os"
	"path/filepath"
	"time"

	envoy_auth "github.com/envoyproxy/go-control-plane/envoy/service/auth/v3"
	"github.com/rs/zerolog"
	"go.uber.org/fx"
	"google.golang.org/grpc"
	"google.golang.org/grpc/credentials/insecure"

	"github.com/dadrus/heimdall/internal"
	"github.com/dadrus/heimdall/internal/cache"
	"github.com/dadrus/heimdall/internal/config"
	"github.com/dadrus/heimdall/internal/handler/decision"
	envoy_extauth "github.com/dadrus/heimdall/internal/handler/envoyextauth/grpcv3"
	"github.com/dadrus/heimdall/internal/handler/proxy"
	"github.com/dadrus/heimdall/internal/rules/rule"
)

// EnvoyApp is the heimdall application of `serve decision --envoy-grpc` whose real gRPC server
// (grpcv3.newService: interceptor chain, error translation, handler) listens on a port the harness holds.
type EnvoyApp struct {
	Addr  string
	Conn  *grpc.ClientConn
	Authz envoy_auth.AuthorizationClient
	Conf  *config.Configuration
	Dir   string

	srv *grpc.Server
	app *fx.App
}

func prepareDir(mode Mode, cfgYAML, rulesYAML string) (dir, cfgPath string, err error) {
	if dir, err = os.MkdirTemp("", "hv-assembly-"); err != nil {
		return "", "", err
	}

	svcPort, err := freePort() // part of the configuration only, never bound
	if err != nil {
		os.RemoveAll(dir)

		return "", "", err
	}

	mgmtPort := 0 // nobody talks to the management service here: heimdall's own Listen picks a free port (no race)

	rulesPath := filepath.Join(dir, "rules.yaml")
	if err = os.WriteFile(rulesPath, []byte(rulesYAML), 0o600); err != nil {
		os.RemoveAll(dir)

		return "", "", err
	}

	full, err := PrepareConfig(mode, cfgYAML, rulesPath, svcPort, mgmtPort)
	if err != nil {
		os.RemoveAll(dir)

		return "", "", err
	}

	cfgPath = filepath.Join(dir, "heimdall.yaml")
	if err = os.WriteFile(cfgPath, []byte(full), 0o600); err != nil {
		os.RemoveAll(dir)

		return "", "", err
	}

	return dir, cfgPath, nil
}

// StartEnvoyHandler builds the application as cmd/serve does for the Envoy mode (configuration,
// mechanisms, rule factory, repository, file_system provider, rule executor), takes the real gRPC
// server of the ext_authz service and serves it on 127.0.0.1:<port chosen by the OS>.
func StartEnvoyHandler(cfgYAML, rulesYAML string) (*EnvoyApp, error) {
	dir, cfgPath, err := prepareDir(Envoy, cfgYAML, rulesYAML)
	if err != nil {
		return nil, err
	}

	ea := &EnvoyApp{Dir: dir}

	ea.app = fx.New(
		fx.NopLogger,
		fx.Supply(config.ConfigurationPath(cfgPath), config.EnvVarPrefix(EnvPrefix), config.DecisionMode),
		internal.Module,
		fx.Invoke(func(conf *config.Configuration, cch cache.Cache, logger zerolog.Logger, exec rule.Executor) {
			ea.Conf = conf
			ea.srv = envoy_extauth.VerifNewService(conf, cch, logger, exec)
		}),
	)
	if err = ea.app.Err(); err != nil {
		os.RemoveAll(dir)

		return nil, fmt.Errorf("assembly: fx.New: %w", err)
	}

	ctx, cancel := context.WithTimeout(context.Background(), 20*time.Second)
	defer cancel()

	if err = ea.app.Start(ctx); err != nil {
		os.RemoveAll(dir)

		return nil, fmt.Errorf("assembly: start: %w", err)
	}

	ln, err := net.Listen("tcp", "127.0.0.1:0")
	if err != nil {
		ea.Stop()

		return nil, err
	}

	ea.Addr = ln.Addr().String()

	go func() { _ = ea.srv.Serve(ln) }()

	ea.Conn, err = grpc.NewClient(ea.Addr, grpc.WithTransportCredentials(insecure.NewCredentials()))
	if err != nil {
		ea.Stop()

		return nil, err
	}

	ea.Authz = envoy_auth.NewAuthorizationClient(ea.Conn)

	return ea, nil
}

// Check sends an Envoy ext_authz CheckRequest.
func (a *EnvoyApp) Check(ctx context.Context, req *envoy_auth.CheckRequest, opts ...grpc.CallOption) (*envoy_auth.CheckResponse, error) {
	ctx, cancel := context.WithTimeout(ctx, 10*time.Second)
	defer cancel()

	return a.Authz.Check(ctx, req, opts...)
}

func (a *EnvoyApp) Stop() {
	if a.Conn != nil {
		a.Conn.Close()
	}

	if a.srv != nil {
		a.srv.Stop()
	}

	ctx, cancel := context.WithTimeout(context.Background(), 3*time.Second)
	defer cancel()

	_ = a.app.Stop(ctx)

	os.RemoveAll(a.Dir)
}

// ListeningApp is a decision or proxy application whose real *http.Server (decision/proxy newService:
// middleware chain, handler, timeouts) serves on a port the harness holds.
type ListeningApp struct {
	*HandlerApp

	Addr string
	srv  *http.Server
	ln   net.Listener
}

// StartListening is StartHandler plus a real TCP listener on 127.0.0.1:<port chosen by the OS>, served
// by heimdall's own http.Server object.
func StartListening(mode Mode, cfgYAML, rulesYAML string) (*ListeningApp, error) {
	if mode != Decision && mode != Proxy {
		return nil, fmt.Errorf("assembly: StartListening supports decision and proxy, not %q", mode)
	}

	dir, cfgPath, err := prepareDir(mode, cfgYAML, rulesYAML)
	if err != nil {
		return nil, err
	}

	opMode := config.DecisionMode
	if mode == Proxy {
		opMode = config.ProxyMode
	}

	la := &ListeningApp{HandlerApp: &HandlerApp{Mode: mode, Dir: dir}}

	la.app = fx.New(
		fx.NopLogger,
		fx.Supply(config.ConfigurationPath(cfgPath), config.EnvVarPrefix(EnvPrefix), opMode),
		internal.Module,
		fx.Invoke(func(conf *config.Configuration, cch cache.Cache, logger zerolog.Logger, exec rule.Executor) {
			la.Conf = conf

			if mode == Proxy {
				la.srv = proxy.VerifNewService(conf, cch, logger, exec)
			} else {
				la.srv = decision.VerifNewService(conf, cch, logger, exec)
			}

			la.Handler = la.srv.Handler
		}),
	)
	if err = la.app.Err(); err != nil {
		os.RemoveAll(dir)

		return nil, fmt.Errorf("assembly: fx.New: %w", err)
	}

	ctx, cancel := context.WithTimeout(context.Background(), 20*time.Second)
	defer cancel()

	if err = la.app.Start(ctx); err != nil {
		os.RemoveAll(dir)

		return nil, fmt.Errorf("assembly: start: %w", err)
	}

	if la.ln, err = net.Listen("tcp", "127.0.0.1:0"); err != nil {
		la.HandlerApp.Stop()

		return nil, err
	}

	la.Addr = la.ln.Addr().String()

	go func() {
		if err := la.srv.Serve(la.ln); err != nil && !errors.Is(err, http.ErrServerClosed) {
			fmt.Fprintf(os.Stderr, "assembly: serve: %v\n", err)
		}
	}()

	return la, nil
}

func (a *ListeningApp) Stop() {
	ctx, cancel := context.WithTimeout(context.Background(), 3*time.Second)
	defer cancel()

	_ = a.srv.Shutdown(ctx)

	a.HandlerApp.Stop()
}

// RawRequestFrom writes raw bytes to the service from the given local (loopback) address ("" = any) and
// returns everything the server answers until it closes the connection.
func (a *ListeningApp) RawRequestFrom(localIP, raw string, timeout time.Duration) (string, error) {
	d := net.Dialer{Timeout: timeout}
	if localIP != "" {
		d.LocalAddr = &net.TCPAddr{IP: net.ParseIP(localIP)}
	}

	c, err := d.Dial("tcp", a.Addr)
	if err != nil {
		return "", err
	}
	defer c.Close()

	_ = c.SetDeadline(time.Now().Add(timeout))

	if _, err = io.WriteString(c, raw); err != nil {
		return "", err
	}

	out, err := io.ReadAll(c)
	if err != nil && len(out) != 0 {
		err = nil
	}

	return string(out), err
}
