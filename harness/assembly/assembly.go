//go:build verif

// Package assembly builds the REAL heimdall applications in-process, exactly as
// cmd/serve does (fx.New(fx.NopLogger, fx.Supply(ConfigurationPath, EnvVarPrefix,
// mode), internal.Module, decision.Module | envoy_extauth.Module | proxy.Module)),
// from a generated configuration and rule file (file_system provider), on
// loopback ports, together with an echoing/recording upstream.
//
// It is injected into the build with `go test -overlay` (mapped to
// /repo/internal/zzverif/assembly/) and is not part of /repo.  `go test` cannot
// chdir into an overlay-only package: compile with `go test -c -o bin.test` and
// run the binary (lib/runner.py does that).
//
// Usage (see harness/c13/c13_test.go):
//
//	up := assembly.NewUpstream()                 // echo upstream, records every request
//	defer up.Close()
//	app, err := assembly.StartProxy(cfgYAML, rulesYAML)   // or StartDecision / StartEnvoy
//	defer app.Stop()
//	resp, err := app.Do(req)                     // plain HTTP/1.1 client, no redirects, no keep-alive
//	seen := up.Take()                            // what arrived at the upstream
//
// cfgYAML is an ordinary heimdall configuration *without* ports, rule providers
// and telemetry: the harness fills in serve.<svc>.host/port, serve.management.port,
// providers.file_system.src and switches metrics/tracing/profiling off (values
// given by the caller win, except for the ports and the rule file).
package assembly

import (
	"context"
	"encoding/json"
	"errors"
	"fmt"
	"io"
	"net"
	"net/http"
	"net/http/httptest"
	"os"
	"path/filepath"
	"sort"
	"strings"
	"sync"
	"sync/atomic"
	"time"

	envoy_auth "github.com/envoyproxy/go-control-plane/envoy/service/auth/v3"
	"go.uber.org/fx"
	"google.golang.org/grpc"
	"google.golang.org/grpc/credentials/insecure"
	"gopkg.in/yaml.v3"

	"github.com/dadrus/heimdall/internal"
	"github.com/dadrus/heimdall/internal/config"
	"github.com/dadrus/heimdall/internal/handler/decision"
	envoy_extauth "github.com/dadrus/heimdall/internal/handler/envoyextauth/grpcv3"
	"github.com/dadrus/heimdall/internal/handler/proxy"
)

// Mode selects the entry point.
type Mode string

const (
	Decision Mode = "decision"
	Envoy    Mode = "envoy"
	Proxy    Mode = "proxy"
)

// EnvPrefix is the environment prefix the apps are started with; nothing in the
// sandbox uses it, so the environment never leaks into a generated configuration.
const EnvPrefix = "HEIMDALLCFG_"

// ---------------------------------------------------------------- upstream

// Recorded is one request as it arrived at the echo upstream.
type Recorded struct {
	Method     string              `json:"method"`
	RequestURI string              `json:"request_uri"`
	Host       string              `json:"host"`
	Proto      string              `json:"proto"`
	Header     map[string][]string `json:"header"`
	Body       string              `json:"body"`
	RemoteAddr string              `json:"remote_addr"`
}

// Get returns the first value of a (canonical) header name, "" if absent.
func (r Recorded) Get(name string) string { return http.Header(r.Header).Get(name) }

// Upstream is an httptest server that records every request (request line,
// host, headers, body) and answers 200 with the record as JSON, plus the
// response headers configured in RespHeader.
type Upstream struct {
	Server *httptest.Server
	URL    string // http://127.0.0.1:port
	Host   string // 127.0.0.1:port

	mu         sync.Mutex
	seen       []Recorded
	RespHeader http.Header
	RespStatus int
}

// NewUpstream starts the recording echo server on 127.0.0.1.
func NewUpstream() *Upstream {
	u := &Upstream{RespStatus: http.StatusOK}
	u.Server = httptest.NewServer(http.HandlerFunc(u.serve))
	u.URL = u.Server.URL
	u.Host = strings.TrimPrefix(u.URL, "http://")

	return u
}

func (u *Upstream) serve(rw http.ResponseWriter, req *http.Request) {
	body, _ := io.ReadAll(req.Body)
	rec := Recorded{
		Method: req.Method, RequestURI: req.RequestURI, Host: req.Host, Proto: req.Proto,
		Header: map[string][]string(req.Header.Clone()), Body: string(body), RemoteAddr: req.RemoteAddr,
	}

	u.mu.Lock()
	u.seen = append(u.seen, rec)
	hdr, status := u.RespHeader, u.RespStatus
	u.mu.Unlock()

	for k, vs := range hdr {
		for _, v := range vs {
			rw.Header().Add(k, v)
		}
	}

	rw.Header().Set("Content-Type", "application/json")
	rw.Header().Set("X-Verif-Upstream", "1")
	rw.WriteHeader(status)
	_ = json.NewEncoder(rw).Encode(rec)
}

// Take returns the requests recorded since the last call and forgets them.
func (u *Upstream) Take() []Recorded {
	u.mu.Lock()
	defer u.mu.Unlock()

	out := u.seen
	u.seen = nil

	return out
}

func (u *Upstream) Close() { u.Server.Close() }

// ---------------------------------------------------------------- applications

// App is one running heimdall application.
type App struct {
	Mode          Mode
	Addr          string // 127.0.0.1:port of the decision / proxy / envoy-grpc service
	BaseURL       string // http://Addr (decision and proxy)
	ManagementURL string
	Dir           string           // temp dir holding heimdall.yaml and rules.yaml
	Conn          *grpc.ClientConn // envoy mode only
	Authz         envoy_auth.AuthorizationClient
	Client        *http.Client
	StartupTime   time.Duration

	app  *fx.App
	once sync.Once
}

// StartDecision starts `heimdall serve decision`.
func StartDecision(cfgYAML, rulesYAML string) (*App, error) { return Start(Decision, cfgYAML, rulesYAML) }

// StartEnvoy starts `heimdall serve decision --envoy-grpc`.
func StartEnvoy(cfgYAML, rulesYAML string) (*App, error) { return Start(Envoy, cfgYAML, rulesYAML) }

// StartProxy starts `heimdall serve proxy`.
func StartProxy(cfgYAML, rulesYAML string) (*App, error) { return Start(Proxy, cfgYAML, rulesYAML) }

func setPath(m map[string]any, value any, force bool, path ...string) {
	for i, k := range path {
		if i == len(path)-1 {
			if _, ok := m[k]; !ok || force {
				m[k] = value
			}

			return
		}

		next, ok := m[k].(map[string]any)
		if !ok {
			next = map[string]any{}
			m[k] = next
		}

		m = next
	}
}

// PrepareConfig merges ports, rule provider and quiet telemetry into cfgYAML.
func PrepareConfig(mode Mode, cfgYAML, rulesPath string, svcPort, mgmtPort int) (string, error) {
	root := map[string]any{}
	if strings.TrimSpace(cfgYAML) != "" {
		if err := yaml.Unmarshal([]byte(cfgYAML), &root); err != nil {
			return "", fmt.Errorf("assembly: cfg yaml: %w", err)
		}
	}

	svc := "decision"
	if mode == Proxy {
		svc = "proxy"
	}

	setPath(root, "127.0.0.1", true, "serve", svc, "host")
	setPath(root, svcPort, true, "serve", svc, "port")
	setPath(root, "127.0.0.1", true, "serve", "management", "host")
	setPath(root, mgmtPort, true, "serve", "management", "port")
	setPath(root, rulesPath, true, "providers", "file_system", "src")
	setPath(root, false, false, "providers", "file_system", "watch")
	setPath(root, false, false, "metrics", "enabled")
	setPath(root, false, false, "tracing", "enabled")
	setPath(root, false, false, "profiling", "enabled")
	setPath(root, "error", false, "log", "level")
	setPath(root, "gelf", false, "log", "format") // JSON lines (the runner drops lines starting with "{")

	out, err := yaml.Marshal(root)

	return string(out), err
}

// ---------------------------------------------------------------- ports
//
// heimdall binds its service and management ports itself and calls Fatal (= os.Exit: the whole driver dies and the
// check reports "driver failed") when a port is taken.  testsupport.GetFreePort asks the OS for an EPHEMERAL port and
// closes it again: until heimdall binds it, any process on the machine may be given the same number - as the local
// port of an outgoing connection or by another GetFreePort call (seen under parallel load: "bind: address already in
// use" on a port handed out a moment ago).  Therefore:
//   - a port that nobody has to know (the management service in every mode, unless ManagementURL is used) is
//     configured as 0: heimdall's own Listen picks a free one atomically, no window at all;
//   - a port the harness must know (Start: the service address) is taken from OUTSIDE the ephemeral range
//     (/proc/sys/net/ipv4/ip_local_port_range is 32768-60999 here), from a slice that depends on the process id, in
//     sequence, and probe-bound right before use: the OS never hands such a port to anybody by itself, so only
//     another harness process that landed on the same slice could take it, and then the probe fails and the next
//     candidate is tried (up to portTries candidates, with a short pause).
// A genuine startup failure (bad configuration, unloadable rules, ...) is not affected: it still comes back as the
// error of fx.New / app.Start.

const (
	portLow   = 20000
	portHigh  = 32000 // exclusive; below the ephemeral range
	portTries = 5
)

var portSeq atomic.Uint32 //nolint:gochecknoglobals

// freePort returns a port on 127.0.0.1 outside the ephemeral range that could be bound a moment ago.
func freePort() (int, error) {
	const slice = 200

	slices := (portHigh - portLow) / slice
	base := portLow + (os.Getpid()%slices)*slice

	var last error

	for try := 0; try < portTries*4; try++ {
		n := int(portSeq.Add(1))
		port := base + n%slice

		if n/slice > 0 { // the own slice is used up once: move on through the whole range
			port = portLow + (base-portLow+n)%(portHigh-portLow)
		}

		ln, err := net.Listen("tcp", fmt.Sprintf("127.0.0.1:%d", port))
		if err != nil {
			last = err

			if try%4 == 3 {
				time.Sleep(20 * time.Millisecond)
			}

			continue
		}

		_ = ln.Close()

		return port, nil
	}

	return 0, fmt.Errorf("assembly: no free port in %d-%d after %d candidates: %w", portLow, portHigh, portTries*4, last)
}

// Start builds and starts the application for the given mode.
func Start(mode Mode, cfgYAML, rulesYAML string) (*App, error) {
	dir, err := os.MkdirTemp("", "hv-assembly-")
	if err != nil {
		return nil, err
	}

	fail := func(err error) (*App, error) {
		os.RemoveAll(dir)

		return nil, err
	}

	svcPort, err := freePort()
	if err != nil {
		return fail(err)
	}

	mgmtPort, err := freePort() // ManagementURL is handed out, so the number must be known
	if err != nil {
		return fail(err)
	}

	rulesPath := filepath.Join(dir, "rules.yaml")
	if err = os.WriteFile(rulesPath, []byte(rulesYAML), 0o600); err != nil {
		return fail(err)
	}

	full, err := PrepareConfig(mode, cfgYAML, rulesPath, svcPort, mgmtPort)
	if err != nil {
		return fail(err)
	}

	cfgPath := filepath.Join(dir, "heimdall.yaml")
	if err = os.WriteFile(cfgPath, []byte(full), 0o600); err != nil {
		return fail(err)
	}

	opMode := config.DecisionMode
	if mode == Proxy {
		opMode = config.ProxyMode
	}

	opts := []fx.Option{
		fx.NopLogger,
		fx.Supply(config.ConfigurationPath(cfgPath), config.EnvVarPrefix(EnvPrefix), opMode),
		internal.Module,
	}

	switch mode {
	case Decision:
		opts = append(opts, decision.Module)
	case Envoy:
		opts = append(opts, envoy_extauth.Module)
	case Proxy:
		opts = append(opts, proxy.Module)
	default:
		return fail(fmt.Errorf("assembly: unknown mode %q", mode))
	}

	t0 := time.Now()

	app := fx.New(opts...)
	if err = app.Err(); err != nil {
		return fail(fmt.Errorf("assembly: fx.New: %w", err))
	}

	ctx, cancel := context.WithTimeout(context.Background(), 20*time.Second)
	defer cancel()

	if err = app.Start(ctx); err != nil {
		return fail(fmt.Errorf("assembly: start: %w", err))
	}

	a := &App{
		Mode:          mode,
		Addr:          fmt.Sprintf("127.0.0.1:%d", svcPort),
		ManagementURL: fmt.Sprintf("http://127.0.0.1:%d", mgmtPort),
		Dir:           dir,
		app:           app,
		Client: &http.Client{
			Timeout:       10 * time.Second,
			Transport:     &http.Transport{DisableKeepAlives: true, DisableCompression: true, Proxy: nil},
			CheckRedirect: func(*http.Request, []*http.Request) error { return http.ErrUseLastResponse },
		},
	}
	a.BaseURL = "http://" + a.Addr

	if err = waitListening(a.Addr, 5*time.Second); err != nil {
		a.Stop()

		return nil, err
	}

	if mode == Envoy {
		a.Conn, err = grpc.NewClient(a.Addr, grpc.WithTransportCredentials(insecure.NewCredentials()))
		if err != nil {
			a.Stop()

			return nil, err
		}

		a.Authz = envoy_auth.NewAuthorizationClient(a.Conn)
	}

	a.StartupTime = time.Since(t0)

	return a, nil
}

func waitListening(addr string, d time.Duration) error {
	deadline := time.Now().Add(d)

	for {
		c, err := net.DialTimeout("tcp", addr, 200*time.Millisecond)
		if err == nil {
			c.Close()

			return nil
		}

		if time.Now().After(deadline) {
			return fmt.Errorf("assembly: %s not listening: %w", addr, err)
		}

		time.Sleep(2 * time.Millisecond)
	}
}

// Stop shuts the application down and removes its temp dir.
func (a *App) Stop() {
	a.once.Do(func() {
		if a.Conn != nil {
			a.Conn.Close()
		}

		if tr, ok := a.Client.Transport.(*http.Transport); ok {
			tr.CloseIdleConnections()
		}

		ctx, cancel := context.WithTimeout(context.Background(), 3*time.Second)
		defer cancel()

		_ = a.app.Stop(ctx)

		os.RemoveAll(a.Dir)
	})
}

// Do sends an HTTP request to the service.  req.URL may be relative
// ("/path?query"); scheme and address are filled in.  Use req.Host for the Host header.
func (a *App) Do(req *http.Request) (*http.Response, error) {
	if a.Mode == Envoy {
		return nil, errors.New("assembly: Do on an envoy app; use Check")
	}

	req.URL.Scheme = "http"
	req.URL.Host = a.Addr

	return a.Client.Do(req)
}

// RawRequest writes raw bytes to the service's port and returns everything
// the server answers until it closes the connection (for requests net/http's
// client refuses to send: odd header casing, duplicate Host, raw targets ...).
// The raw request should carry `Connection: close`.
func (a *App) RawRequest(raw string, timeout time.Duration) (string, error) {
	return a.RawRequestFrom("", raw, timeout)
}

// RawRequestFrom is RawRequest with the connection made from the given local
// (loopback) address, e.g. "127.0.0.7", so that the service sees that peer.
func (a *App) RawRequestFrom(localIP, raw string, timeout time.Duration) (string, error) {
	d := net.Dialer{Timeout: timeout}
	if localIP != "" {
		d.LocalAddr = &net.TCPAddr{IP: net.ParseIP(localIP)}
	}

	c, err := d.Dial("tcp", a.Addr)
	if err != nil {
		return "", err
	}
	defer c.Close()

	_ = c.SetDeadline(time.Now().Add(timeout))

	if _, err = io.WriteString(c, raw); err != nil {
		return "", err
	}

	out, err := io.ReadAll(c)
	if err != nil && len(out) != 0 {
		err = nil
	}

	return string(out), err
}

// Check sends an Envoy ext_authz CheckRequest (envoy mode).
func (a *App) Check(ctx context.Context, req *envoy_auth.CheckRequest, opts ...grpc.CallOption) (*envoy_auth.CheckResponse, error) {
	if a.Authz == nil {
		return nil, errors.New("assembly: Check on a non-envoy app")
	}

	ctx, cancel := context.WithTimeout(ctx, 10*time.Second)
	defer cancel()

	return a.Authz.Check(ctx, req, opts...)
}

// ---------------------------------------------------------------- small helpers for drivers

// EnvoyHTTPRequest builds the AttributeContext_HttpRequest the way heimdall's own
// gRPC tests build it: path and query in separate fields, lower-case header
// names (multiple values joined with ","), body as RawBody (and Body).
func EnvoyHTTPRequest(method, scheme, host, path, query string, header http.Header, body []byte) *envoy_auth.CheckRequest {
	hdrs := make(map[string]string, len(header))

	for k, vs := range header {
		sep := ","
		if strings.EqualFold(k, "cookie") {
			sep = "; "
		}

		hdrs[strings.ToLower(k)] = strings.Join(vs, sep)
	}

	return &envoy_auth.CheckRequest{
		Attributes: &envoy_auth.AttributeContext{
			Request: &envoy_auth.AttributeContext_Request{
				Http: &envoy_auth.AttributeContext_HttpRequest{
					Method: method, Scheme: scheme, Host: host, Path: path, Query: query,
					Headers: hdrs, Body: string(body), RawBody: body,
				},
			},
		},
	}
}

// SortedKeys returns the keys of a string-keyed map in order.
func SortedKeys[V any](m map[string]V) []string {
	keys := make([]string, 0, len(m))
	for k := range m {
		keys = append(keys, k)
	}

	sort.Strings(keys)

	return keys
}
