//go:build verif

package assembly

// Handler-level assembly: the same fx application (configuration, mechanisms,
// rule factory, repository, file_system provider, real rule executor), but the
// service's http.Handler (the real middleware chain of decision/service.go or
// proxy/service.go, obtained through the overlay exports in
// harness/assembly/export/) is handed out instead of being bound to a socket,
// so that a driver can call ServeHTTP with an arbitrary RemoteAddr / TLS state.
//
// Needs the overlay entries
//   internal/handler/decision/zz_verif_export.go -> assembly/export/decision_export.go
//   internal/handler/proxy/zz_verif_export.go    -> assembly/export/proxy_export.go

import (
	"bufio"
	"context"
	"crypto/tls"
	"fmt"
	"net/http"
	"net/http/httptest"
	"os"
	"path/filepath"
	"strings"
	"time"

	"github.com/rs/zerolog"
	"go.uber.org/fx"

	"github.com/dadrus/heimdall/internal"
	"github.com/dadrus/heimdall/internal/cache"
	"github.com/dadrus/heimdall/internal/config"
	"github.com/dadrus/heimdall/internal/handler/decision"
	"github.com/dadrus/heimdall/internal/handler/proxy"
	"github.com/dadrus/heimdall/internal/rules/rule"
)

// HandlerApp is a heimdall application whose decision/proxy handler stack is
// served in-process.
type HandlerApp struct {
	Mode    Mode
	Handler http.Handler
	Conf    *config.Configuration // the configuration as loaded by heimdall
	Dir     string

	app *fx.App
}

// StartHandler builds the application for Decision or Proxy mode and returns
// the real handler stack of that service.
func StartHandler(mode Mode, cfgYAML, rulesYAML string) (*HandlerApp, error) {
	if mode != Decision && mode != Proxy {
		return nil, fmt.Errorf("assembly: StartHandler supports decision and proxy, not %q", mode)
	}

	dir, err := os.MkdirTemp("", "hv-assembly-")
	if err != nil {
		return nil, err
	}

	fail := func(err error) (*HandlerApp, error) {
		os.RemoveAll(dir)

		return nil, err
	}

	svcPort, err := freePort() // never bound; only part of the configuration
	if err != nil {
		return fail(err)
	}

	mgmtPort := 0 // nobody talks to the management service here: heimdall's own Listen picks a free port (no race)

	rulesPath := filepath.Join(dir, "rules.yaml")
	if err = os.WriteFile(rulesPath, []byte(rulesYAML), 0o600); err != nil {
		return fail(err)
	}

	full, err := PrepareConfig(mode, cfgYAML, rulesPath, svcPort, mgmtPort)
	if err != nil {
		return fail(err)
	}

	cfgPath := filepath.Join(dir, "heimdall.yaml")
	if err = os.WriteFile(cfgPath, []byte(full), 0o600); err != nil {
		return fail(err)
	}

	opMode := config.DecisionMode
	if mode == Proxy {
		opMode = config.ProxyMode
	}

	ha := &HandlerApp{Mode: mode, Dir: dir}

	ha.app = fx.New(
		fx.NopLogger,
		fx.Supply(config.ConfigurationPath(cfgPath), config.EnvVarPrefix(EnvPrefix), opMode),
		internal.Module,
		fx.Invoke(func(conf *config.Configuration, cch cache.Cache, logger zerolog.Logger, exec rule.Executor) {
			ha.Conf = conf

			if mode == Proxy {
				ha.Handler = proxy.VerifNewService(conf, cch, logger, exec).Handler
			} else {
				ha.Handler = decision.VerifNewService(conf, cch, logger, exec).Handler
			}
		}),
	)
	if err = ha.app.Err(); err != nil {
		return fail(fmt.Errorf("assembly: fx.New: %w", err))
	}

	ctx, cancel := context.WithTimeout(context.Background(), 20*time.Second)
	defer cancel()

	if err = ha.app.Start(ctx); err != nil {
		return fail(fmt.Errorf("assembly: start: %w", err))
	}

	return ha, nil
}

func (h *HandlerApp) Stop() {
	ctx, cancel := context.WithTimeout(context.Background(), 3*time.Second)
	defer cancel()

	_ = h.app.Stop(ctx)

	os.RemoveAll(h.Dir)
}

// ParseRaw parses raw HTTP/1.x request bytes exactly as net/http's server does
// for a connection (http.ReadRequest: canonical header keys, Host moved to
// req.Host, RequestURI/URL), and sets the peer address and TLS state.
func ParseRaw(raw, remoteAddr string, isTLS bool) (*http.Request, error) {
	req, err := http.ReadRequest(bufio.NewReader(strings.NewReader(raw)))
	if err != nil {
		return nil, err
	}

	req.RemoteAddr = remoteAddr
	if isTLS {
		req.TLS = &tls.ConnectionState{}
	}

	return req, nil
}

// Serve runs one request through the handler stack and returns the recorded response.
func (h *HandlerApp) Serve(req *http.Request) *httptest.ResponseRecorder {
	rec := httptest.NewRecorder()
	h.Handler.ServeHTTP(rec, req)

	return rec
}
