package main

import (
	"crypto/sha256"
	"encoding/hex"
	"fmt"
	"go/ast"
	"go/token"
	"go/types"
	"hash"
	"io"
	"sort"
	"strings"
)

// local marks names of the package under analysis inside signature strings: "·.opts".
const local = "·"

// Fingerprint is the structural description of one identifier of the package, built so that it does not change when
// package-local identifiers (or local variables) are renamed, declarations are moved between files or reordered.
type Fingerprint struct {
	Body    string   `json:"body,omitempty"`    // hash of the declaration, local variables alpha-renamed, package-local names kept
	Shape   string   `json:"shape,omitempty"`   // the same with package-local names masked as well
	Callees []string `json:"callees,omitempty"` // funcs/methods: sorted multiset of callees (external: full name; package-local: ·name)
	Strings []string `json:"strings,omitempty"` // funcs/methods: sorted multiset of string literals
	Stmts   int      `json:"stmts,omitempty"`   // funcs/methods: number of statements
	Members []string `json:"members,omitempty"` // types: F:<field type> / E:<embedded type> / M:<method signature> / I:<interface method signature> / U:<underlying>
	Value   string   `json:"value,omitempty"`   // consts: the constant value
	Tag     string   `json:"tag,omitempty"`     // fields: struct tag
	Index   int      `json:"index,omitempty"`   // fields: position in the struct
	Uses    []string `json:"uses,omitempty"`    // use sites in non-test, non-harness files: <shape of the enclosing declaration>#<ordinal of the identifier in it>
}

// Ident is one identifier of the package the harness refers to.
type Ident struct {
	Name     string      `json:"name"`
	Kind     string      `json:"kind"`            // func | method | field | type | var | const
	Owner    string      `json:"owner,omitempty"` // receiver type / struct type (T, or T.f for a nested anonymous struct)
	Sig      string      `json:"sig"`             // go/types signature or type, parameter names dropped, package-local type names as ·.Name
	Exported bool        `json:"exported,omitempty"`
	Indirect bool        `json:"indirect,omitempty"` // a type the harness does not name itself, but which occurs in a signature / as an owner
	Decl     string      `json:"decl,omitempty"`     // file (base name) of the declaration, informational
	FP       Fingerprint `json:"fp"`
}

func (i Ident) key() string { return i.Kind + "|" + i.Owner + "|" + i.Name }

type useSite struct {
	d   *declInfo
	ord int
}

type declInfo struct {
	node    ast.Node
	body    string
	shape   string
	callees []string
	strs    []string
	stmts   int
	test    bool
}

// analysis of one type-checked package
type an struct {
	fset    *token.FileSet
	pkg     *types.Package
	info    *types.Info
	files   []*ast.File
	harness map[string]bool // file names of harness files (as in the file set)
	owner   map[*types.Var]string
	declOf  map[types.Object]*declInfo
	uses    map[types.Object][]useSite
	done    bool
}

func (a *an) inHarness(pos token.Pos) bool {
	if !pos.IsValid() {
		return false
	}
	return a.harness[a.fset.Position(pos).Filename]
}

func origin(obj types.Object) types.Object {
	switch o := obj.(type) {
	case *types.Func:
		return o.Origin()
	case *types.Var:
		return o.Origin()
	}
	return obj
}

func isMethod(obj types.Object) bool {
	f, ok := obj.(*types.Func)
	if !ok {
		return false
	}
	sig, ok := f.Type().(*types.Signature)
	return ok && sig.Recv() != nil
}

func isField(obj types.Object) bool {
	v, ok := obj.(*types.Var)
	return ok && v.IsField()
}

// interesting: a package-level object, a field or a method of the package under analysis
func (a *an) interesting(obj types.Object) bool {
	if obj == nil || obj.Pkg() != a.pkg {
		return false
	}
	if _, ok := obj.(*types.PkgName); ok {
		return false
	}
	return obj.Parent() == a.pkg.Scope() || isField(obj) || isMethod(obj)
}

func kindOf(obj types.Object) string {
	switch o := obj.(type) {
	case *types.Func:
		if isMethod(o) {
			return "method"
		}
		return "func"
	case *types.TypeName:
		return "type"
	case *types.Const:
		return "const"
	case *types.Var:
		if o.IsField() {
			return "field"
		}
		return "var"
	}
	return ""
}

// ---------------------------------------------------------------------------------------------- type strings

// canon rebuilds a type with every parameter / result name dropped, so that renaming a parameter does not change a signature
func canon(t types.Type) types.Type {
	switch u := t.(type) {
	case *types.Signature:
		return types.NewSignatureType(nil, nil, nil, canonTuple(u.Params()), canonTuple(u.Results()), u.Variadic())
	case *types.Pointer:
		return types.NewPointer(canon(u.Elem()))
	case *types.Slice:
		return types.NewSlice(canon(u.Elem()))
	case *types.Array:
		return types.NewArray(canon(u.Elem()), u.Len())
	case *types.Map:
		return types.NewMap(canon(u.Key()), canon(u.Elem()))
	case *types.Chan:
		return types.NewChan(u.Dir(), canon(u.Elem()))
	}
	return t
}

func canonTuple(t *types.Tuple) *types.Tuple {
	if t == nil {
		return nil
	}
	vs := make([]*types.Var, t.Len())
	for i := 0; i < t.Len(); i++ {
		vs[i] = types.NewParam(token.NoPos, nil, "", canon(t.At(i).Type()))
	}
	return types.NewTuple(vs...)
}

func (a *an) qual(p *types.Package) string {
	if p == a.pkg {
		return local
	}
	return p.Path()
}

func (a *an) typeStr(t types.Type) string { return types.TypeString(canon(t), a.qual) }

// maskLocal replaces every ·.Name by ·
func maskLocal(s string) string {
	var b strings.Builder
	for i := 0; i < len(s); {
		if strings.HasPrefix(s[i:], local+".") {
			b.WriteString(local)
			i += len(local) + 1
			for i < len(s) && isIdentByte(s[i]) {
				i++
			}
			continue
		}
		b.WriteByte(s[i])
		i++
	}
	return b.String()
}

// substLocal renames ·.old into ·.new according to m
func substLocal(s string, m map[string]string) string {
	if len(m) == 0 {
		return s
	}
	var b strings.Builder
	for i := 0; i < len(s); {
		if strings.HasPrefix(s[i:], local+".") {
			j := i + len(local) + 1
			k := j
			for k < len(s) && isIdentByte(s[k]) {
				k++
			}
			name := s[j:k]
			if n, ok := m[name]; ok {
				name = n
			}
			b.WriteString(local + "." + name)
			i = k
			continue
		}
		b.WriteByte(s[i])
		i++
	}
	return b.String()
}

func isIdentByte(c byte) bool {
	return c == '_' || c >= '0' && c <= '9' || c >= 'a' && c <= 'z' || c >= 'A' && c <= 'Z' || c >= 0x80
}

func (a *an) sigOf(obj types.Object) string {
	switch o := obj.(type) {
	case *types.Func:
		sig := o.Type().(*types.Signature)
		s := a.typeStr(sig)
		if r := sig.Recv(); r != nil {
			if _, ptr := r.Type().(*types.Pointer); ptr {
				return "(*) " + s
			}
			return "() " + s
		}
		return s
	case *types.TypeName:
		if o.IsAlias() {
			return "alias " + a.typeStr(types.Unalias(o.Type()))
		}
		switch u := o.Type().Underlying().(type) {
		case *types.Struct:
			return "type struct"
		case *types.Interface:
			return "type interface"
		default:
			return "type " + a.typeStr(u)
		}
	}
	return a.typeStr(obj.Type())
}

// ownerOfMethod: name of the receiver's named type ("" when there is none)
func (a *an) ownerOfMethod(f *types.Func) string {
	sig := f.Type().(*types.Signature)
	t := sig.Recv().Type()
	if p, ok := t.(*types.Pointer); ok {
		t = p.Elem()
	}
	if n, ok := t.(*types.Named); ok && n.Obj().Pkg() == a.pkg {
		return n.Obj().Name()
	}
	// method of an interface: find the named interface of the package which declares it
	for _, name := range a.pkg.Scope().Names() {
		tn, ok := a.pkg.Scope().Lookup(name).(*types.TypeName)
		if !ok {
			continue
		}
		if it, ok := tn.Type().Underlying().(*types.Interface); ok {
			for i := 0; i < it.NumExplicitMethods(); i++ {
				if it.ExplicitMethod(i) == f {
					return name
				}
			}
		}
	}
	return ""
}

func (a *an) ownerOf(obj types.Object) string {
	switch o := obj.(type) {
	case *types.Func:
		if isMethod(o) {
			return a.ownerOfMethod(o)
		}
	case *types.Var:
		if o.IsField() {
			return a.owner[o]
		}
	}
	return ""
}

// ---------------------------------------------------------------------------------------------- preparation

func (a *an) prepare() {
	if a.done {
		return
	}
	a.done = true
	a.owner = map[*types.Var]string{}
	a.declOf = map[types.Object]*declInfo{}
	a.uses = map[types.Object][]useSite{}
	sc := a.pkg.Scope()
	for _, name := range sc.Names() {
		tn, ok := sc.Lookup(name).(*types.TypeName)
		if !ok || tn.IsAlias() {
			continue
		}
		if st, ok := tn.Type().Underlying().(*types.Struct); ok {
			a.walkStruct(st, name, 0)
		}
	}
	for _, f := range a.files {
		fn := a.fset.Position(f.Pos()).Filename
		if a.harness[fn] {
			continue
		}
		test := strings.HasSuffix(fn, "_test.go")
		for _, d := range f.Decls {
			switch d := d.(type) {
			case *ast.FuncDecl:
				di := a.hashDecl(d, map[*ast.Ident]bool{d.Name: true}, test)
				if obj := a.info.Defs[d.Name]; obj != nil {
					a.declOf[obj] = di
				}
			case *ast.GenDecl:
				for _, s := range d.Specs {
					switch s := s.(type) {
					case *ast.TypeSpec:
						di := a.hashDecl(s, map[*ast.Ident]bool{s.Name: true}, test)
						if obj := a.info.Defs[s.Name]; obj != nil {
							a.declOf[obj] = di
						}
					case *ast.ValueSpec:
						self := map[*ast.Ident]bool{}
						for _, n := range s.Names {
							self[n] = true
						}
						di := a.hashDecl(s, self, test)
						for _, n := range s.Names {
							if obj := a.info.Defs[n]; obj != nil {
								a.declOf[obj] = di
							}
						}
					}
				}
			}
		}
	}
}

func (a *an) walkStruct(st *types.Struct, path string, depth int) {
	if depth > 4 {
		return
	}
	for i := 0; i < st.NumFields(); i++ {
		f := st.Field(i)
		if _, seen := a.owner[f]; seen {
			continue
		}
		a.owner[f] = path
		t := f.Type()
		for {
			switch u := t.(type) {
			case *types.Pointer:
				t = u.Elem()
				continue
			case *types.Slice:
				t = u.Elem()
				continue
			case *types.Array:
				t = u.Elem()
				continue
			case *types.Map:
				t = u.Elem()
				continue
			}
			break
		}
		if inner, ok := t.(*types.Struct); ok { // anonymous nested struct
			a.walkStruct(inner, path+"."+f.Name(), depth+1)
		}
	}
}

// hashDecl serialises a declaration twice (package-local names kept / masked) and records the use sites of the
// package's own identifiers inside it.
func (a *an) hashDecl(n ast.Node, self map[*ast.Ident]bool, test bool) *declInfo {
	di := &declInfo{node: n, test: test}
	hb, hs := sha256.New(), sha256.New()
	both := io.MultiWriter(hb, hs)
	locals := map[types.Object]int{}
	ord := 0
	type pend struct {
		obj types.Object
		ord int
	}
	var pending []pend
	ast.Inspect(n, func(x ast.Node) bool {
		if x == nil {
			io.WriteString(both, ")")
			return true
		}
		switch v := x.(type) {
		case *ast.Comment, *ast.CommentGroup:
			return false
		case *ast.Ident:
			ord++
			kept, masked := a.class(v, self, locals)
			fmt.Fprintf(hb, "(I %s", kept)
			fmt.Fprintf(hs, "(I %s", masked)
			if obj, ok := a.info.Uses[v]; ok && !self[v] {
				obj = origin(obj)
				if a.interesting(obj) {
					pending = append(pending, pend{obj, ord})
				}
			}
		case *ast.BasicLit:
			fmt.Fprintf(both, "(L %s %s", v.Kind, v.Value)
			if v.Kind == token.STRING {
				di.strs = append(di.strs, v.Value)
			}
		case *ast.BinaryExpr:
			fmt.Fprintf(both, "(B %s", v.Op)
		case *ast.UnaryExpr:
			fmt.Fprintf(both, "(U %s", v.Op)
		case *ast.AssignStmt:
			fmt.Fprintf(both, "(A %s", v.Tok)
			di.stmts++
		case *ast.IncDecStmt:
			fmt.Fprintf(both, "(ID %s", v.Tok)
			di.stmts++
		case *ast.BranchStmt:
			fmt.Fprintf(both, "(BR %s", v.Tok)
			di.stmts++
		case *ast.RangeStmt:
			fmt.Fprintf(both, "(R %s", v.Tok)
			di.stmts++
		case *ast.GenDecl:
			fmt.Fprintf(both, "(G %s", v.Tok)
		case *ast.ChanType:
			fmt.Fprintf(both, "(CH %d", v.Dir)
		case *ast.CallExpr:
			fmt.Fprintf(both, "(C %v", v.Ellipsis.IsValid())
			if c := a.callee(v); c != "" {
				di.callees = append(di.callees, c)
			}
		default:
			fmt.Fprintf(both, "(%T", x)
			if _, ok := x.(ast.Stmt); ok {
				if _, blk := x.(*ast.BlockStmt); !blk {
					di.stmts++
				}
			}
		}
		return true
	})
	di.body, di.shape = hx(hb), hx(hs)
	sort.Strings(di.callees)
	sort.Strings(di.strs)
	if !test {
		for _, p := range pending {
			a.uses[p.obj] = append(a.uses[p.obj], useSite{di, p.ord})
		}
	}
	return di
}

func hx(h hash.Hash) string { return hex.EncodeToString(h.Sum(nil))[:16] }

func (a *an) class(id *ast.Ident, self map[*ast.Ident]bool, locals map[types.Object]int) (kept, masked string) {
	if self[id] {
		return "SELF", "SELF"
	}
	obj := a.info.ObjectOf(id)
	if obj == nil {
		if id.Name == "_" {
			return "_", "_"
		}
		return "?", "?"
	}
	obj = origin(obj)
	if pn, ok := obj.(*types.PkgName); ok {
		s := "P:" + pn.Imported().Path()
		return s, s
	}
	if obj.Pkg() == nil {
		s := "U:" + obj.Name()
		return s, s
	}
	if obj.Pkg() != a.pkg {
		s := "X:" + obj.Pkg().Path() + "." + obj.Name()
		return s, s
	}
	if a.interesting(obj) {
		return local + obj.Name(), local
	}
	n, ok := locals[obj]
	if !ok {
		n = len(locals)
		locals[obj] = n
	}
	s := fmt.Sprintf("L%d", n)
	return s, s
}

func (a *an) callee(c *ast.CallExpr) string {
	fun := c.Fun
	for {
		if p, ok := fun.(*ast.ParenExpr); ok {
			fun = p.X
			continue
		}
		break
	}
	var id *ast.Ident
	switch f := fun.(type) {
	case *ast.Ident:
		id = f
	case *ast.SelectorExpr:
		id = f.Sel
	case *ast.IndexExpr:
		if i, ok := f.X.(*ast.Ident); ok {
			id = i
		}
	}
	if id == nil {
		return ""
	}
	obj := a.info.Uses[id]
	if obj == nil {
		return ""
	}
	obj = origin(obj)
	switch o := obj.(type) {
	case *types.Func:
		if o.Pkg() == a.pkg {
			return local + o.Name()
		}
		return o.FullName()
	case *types.Builtin:
		return "U:" + o.Name()
	case *types.TypeName: // conversion
		return ""
	case *types.Var:
		if o.Pkg() == a.pkg && a.interesting(o) {
			return local + o.Name()
		}
	}
	return ""
}

// ---------------------------------------------------------------------------------------------- description

const maxUses = 400

func (a *an) fingerprint(obj types.Object) Fingerprint {
	a.prepare()
	var fp Fingerprint
	if di := a.declOf[obj]; di != nil {
		fp.Body, fp.Shape = di.body, di.shape
		if _, ok := obj.(*types.Func); ok {
			fp.Callees, fp.Strings, fp.Stmts = di.callees, di.strs, di.stmts
		}
	}
	switch o := obj.(type) {
	case *types.TypeName:
		fp.Members = a.members(o)
	case *types.Const:
		fp.Value = o.Val().ExactString()
	case *types.Var:
		if o.IsField() {
			fp.Tag, fp.Index = a.fieldTagIndex(o)
		}
	}
	us := a.uses[obj]
	ss := make([]string, 0, len(us))
	for _, u := range us {
		ss = append(ss, fmt.Sprintf("%s#%d", u.d.shape[:10], u.ord))
	}
	sort.Strings(ss)
	if len(ss) > maxUses {
		ss = ss[:maxUses]
	}
	fp.Uses = ss
	return fp
}

func (a *an) members(tn *types.TypeName) []string {
	var out []string
	if tn.IsAlias() {
		return []string{"A:" + maskLocal(a.typeStr(types.Unalias(tn.Type())))}
	}
	switch u := tn.Type().Underlying().(type) {
	case *types.Struct:
		for i := 0; i < u.NumFields(); i++ {
			f := u.Field(i)
			p := "F:"
			if f.Embedded() {
				p = "E:"
			}
			out = append(out, p+maskLocal(a.typeStr(f.Type())))
		}
	case *types.Interface:
		for i := 0; i < u.NumMethods(); i++ {
			out = append(out, "I:"+maskLocal(a.typeStr(u.Method(i).Type())))
		}
	default:
		out = append(out, "U:"+maskLocal(a.typeStr(u)))
	}
	if n, ok := tn.Type().(*types.Named); ok {
		for i := 0; i < n.NumMethods(); i++ {
			out = append(out, "M:"+maskLocal(a.sigOf(n.Method(i))))
		}
	}
	sort.Strings(out)
	return out
}

func (a *an) fieldTagIndex(f *types.Var) (string, int) {
	st := a.structAt(a.owner[f])
	if st == nil {
		return "", 0
	}
	for i := 0; i < st.NumFields(); i++ {
		if st.Field(i) == f {
			return st.Tag(i), i
		}
	}
	return "", 0
}

// structAt resolves an owner path (T or T.f.g) to the struct type it names
func (a *an) structAt(path string) *types.Struct {
	parts := strings.Split(path, ".")
	tn, ok := a.pkg.Scope().Lookup(parts[0]).(*types.TypeName)
	if !ok {
		return nil
	}
	st, ok := tn.Type().Underlying().(*types.Struct)
	if !ok {
		return nil
	}
	for _, p := range parts[1:] {
		var next *types.Struct
		for i := 0; i < st.NumFields(); i++ {
			if st.Field(i).Name() == p {
				t := st.Field(i).Type()
				for {
					switch u := t.(type) {
					case *types.Pointer:
						t = u.Elem()
						continue
					case *types.Slice:
						t = u.Elem()
						continue
					case *types.Array:
						t = u.Elem()
						continue
					case *types.Map:
						t = u.Elem()
						continue
					}
					break
				}
				next, _ = t.(*types.Struct)
			}
		}
		if next == nil {
			return nil
		}
		st = next
	}
	return st
}

func (a *an) describe(obj types.Object) Ident {
	a.prepare()
	id := Ident{Name: obj.Name(), Kind: kindOf(obj), Owner: a.ownerOf(obj), Sig: a.sigOf(obj), Exported: obj.Exported()}
	if obj.Pos().IsValid() {
		f := a.fset.Position(obj.Pos()).Filename
		if i := strings.LastIndexByte(f, '/'); i >= 0 {
			f = f[i+1:]
		}
		id.Decl = f
	}
	id.FP = a.fingerprint(obj)
	return id
}

// localTypesIn collects the package-level named types of the package occurring in t
func (a *an) localTypesIn(t types.Type, out map[*types.TypeName]bool, depth int) {
	if t == nil || depth > 6 {
		return
	}
	switch u := t.(type) {
	case *types.Alias:
		if u.Obj().Pkg() == a.pkg && u.Obj().Parent() == a.pkg.Scope() {
			out[u.Obj()] = true
		}
	case *types.Named:
		if u.Obj().Pkg() == a.pkg && u.Obj().Parent() == a.pkg.Scope() {
			out[u.Obj()] = true
		}
		if ta := u.TypeArgs(); ta != nil {
			for i := 0; i < ta.Len(); i++ {
				a.localTypesIn(ta.At(i), out, depth+1)
			}
		}
	case *types.Pointer:
		a.localTypesIn(u.Elem(), out, depth+1)
	case *types.Slice:
		a.localTypesIn(u.Elem(), out, depth+1)
	case *types.Array:
		a.localTypesIn(u.Elem(), out, depth+1)
	case *types.Chan:
		a.localTypesIn(u.Elem(), out, depth+1)
	case *types.Map:
		a.localTypesIn(u.Key(), out, depth+1)
		a.localTypesIn(u.Elem(), out, depth+1)
	case *types.Signature:
		a.localTypesIn(u.Params(), out, depth+1)
		a.localTypesIn(u.Results(), out, depth+1)
	case *types.Tuple:
		for i := 0; i < u.Len(); i++ {
			a.localTypesIn(u.At(i).Type(), out, depth+1)
		}
	case *types.Struct:
		for i := 0; i < u.NumFields(); i++ {
			a.localTypesIn(u.Field(i).Type(), out, depth+1)
		}
	}
}
