package main

import (
	"fmt"
	"go/ast"
	"go/token"
	"sort"
	"strings"
)

// Pruned: a top-level declaration of a harness file that was taken out because it depends on an identifier of the
// package that no longer exists and could not be rebound (a Test function is replaced by a stub that skips).
type Pruned struct {
	Pkg   string   `json:"pkg"`
	File  string   `json:"file"`
	Decl  string   `json:"decl"`
	Test  bool     `json:"test,omitempty"`
	Needs []string `json:"needs"`
}

// prune removes, round by round, every top-level declaration of the harness files that contains a type error, until the
// files type-check.  Declarations are only removed, never changed, so what stays compiles to what it compiled to before;
// `func init` is never removed (pruning is given up instead).
func (u *unit) prune(files []*ast.File, edits map[string][]edit) []Pruned {
	fset := u.pkg.Fset
	var out []Pruned
	for round := 0; round < 15; round++ {
		_, _, errs := u.check()
		type key struct {
			f *ast.File
			i int // index in f.Decls
			j int // spec index, -1 for the whole declaration
		}
		bad := map[key][]string{}
		var order []key
		progress, hopeless, any := false, false, false
		for _, e := range errs {
			pos := fset.Position(e.Pos)
			if !u.harness[pos.Filename] {
				continue
			}
			any = true
			var file *ast.File
			for _, f := range files {
				if fset.Position(f.Pos()).Filename == pos.Filename {
					file = f
				}
			}
			if file == nil {
				hopeless = true
				continue
			}
			found := false
			for i, d := range file.Decls {
				if e.Pos < d.Pos() || e.Pos >= d.End() {
					continue
				}
				found = true
				k := key{file, i, -1}
				if gd, ok := d.(*ast.GenDecl); ok {
					if gd.Tok == token.IMPORT {
						if strings.Contains(e.Msg, "imported and not used") {
							for _, s := range gd.Specs {
								is := s.(*ast.ImportSpec)
								if e.Pos >= is.Pos() && e.Pos < is.End() {
									p := fset.Position(is.Path.Pos())
									if is.Name != nil {
										p = fset.Position(is.Name.Pos())
										edits[p.Filename] = append(edits[p.Filename], edit{p.Offset, len(is.Name.Name), "_"})
									} else {
										edits[p.Filename] = append(edits[p.Filename], edit{p.Offset, 0, "_ "})
									}
									is.Name = &ast.Ident{Name: "_", NamePos: is.Path.Pos()}
									progress = true
								}
							}
						} else {
							hopeless = true
						}
						break
					}
					if gd.Lparen.IsValid() {
						for j, s := range gd.Specs {
							if e.Pos >= s.Pos() && e.Pos < s.End() {
								k.j = j
							}
						}
					}
				}
				if _, seen := bad[k]; !seen {
					order = append(order, k)
				}
				bad[k] = append(bad[k], e.Msg)
				break
			}
			if !found {
				hopeless = true
			}
		}
		if !any {
			return out
		}
		if hopeless {
			return append(out, Pruned{Pkg: u.dir, Decl: "(pruning given up: an error outside any declaration)"})
		}
		// remove from the back so that indices stay valid
		sort.Slice(order, func(x, y int) bool {
			if order[x].i != order[y].i {
				return order[x].i > order[y].i
			}
			return order[x].j > order[y].j
		})
		for _, k := range order {
			d := k.f.Decls[k.i]
			fname := fset.Position(k.f.Pos()).Filename
			pr := Pruned{Pkg: u.dir, File: u.src[fname], Needs: uniq(bad[k])}
			var start, end token.Pos
			stub := ""
			switch v := d.(type) {
			case *ast.FuncDecl:
				if v.Recv == nil && (v.Name.Name == "init" || v.Name.Name == "TestMain") {
					return append(out, Pruned{Pkg: u.dir, Decl: "(pruning given up: func " + v.Name.Name + " depends on a removed identifier)"})
				}
				pr.Decl = v.Name.Name
				if v.Recv != nil && len(v.Recv.List) > 0 {
					pr.Decl = recvName(v.Recv.List[0].Type) + "." + v.Name.Name
				}
				start, end = v.Pos(), v.End()
				if v.Doc != nil {
					start = v.Doc.Pos()
				}
				if v.Recv == nil && strings.HasPrefix(v.Name.Name, "Test") && isTestSig(v) && v.Body != nil {
					// a driver entry point: keep the (now empty) function, so that the stream is reported as pruned, not as missing
					pr.Test = true
					stub = fmt.Sprintf("{ /* verif-rebind: pruned, the package no longer has what this driver calls: %s */ }",
						strings.ReplaceAll(strings.Join(pr.Needs, "; "), "*/", "* /"))
					start, end = v.Body.Pos(), v.Body.End()
					v.Body = &ast.BlockStmt{Lbrace: v.Body.Lbrace, Rbrace: v.Body.Rbrace}
				}
			case *ast.GenDecl:
				if k.j >= 0 {
					s := v.Specs[k.j]
					pr.Decl = specName(s)
					start, end = s.Pos(), s.End()
					v.Specs = append(v.Specs[:k.j:k.j], v.Specs[k.j+1:]...)
					if len(v.Specs) == 0 {
						start, end = v.Pos(), v.End()
						k.j = -1
					}
				} else {
					var names []string
					for _, s := range v.Specs {
						names = append(names, specName(s))
					}
					pr.Decl = strings.Join(names, ",")
					start, end = v.Pos(), v.End()
					if v.Doc != nil {
						start = v.Doc.Pos()
					}
				}
			}
			ps, pe := fset.Position(start), fset.Position(end)
			text := "// verif-rebind: pruned " + pr.Decl
			if stub != "" {
				text = stub
			}
			edits[ps.Filename] = append(edits[ps.Filename], edit{ps.Offset, pe.Offset - ps.Offset, text})
			if stub == "" && k.j < 0 {
				k.f.Decls = append(k.f.Decls[:k.i:k.i], k.f.Decls[k.i+1:]...)
			}
			out = append(out, pr)
			progress = true
		}
		if !progress {
			return out
		}
	}
	return out
}

func uniq(xs []string) []string {
	seen := map[string]bool{}
	var out []string
	for _, x := range xs {
		if !seen[x] && len(out) < 6 {
			seen[x] = true
			out = append(out, x)
		}
	}
	return out
}

func recvName(e ast.Expr) string {
	switch v := e.(type) {
	case *ast.StarExpr:
		return recvName(v.X)
	case *ast.Ident:
		return v.Name
	case *ast.IndexExpr:
		return recvName(v.X)
	}
	return "?"
}

func specName(s ast.Spec) string {
	switch v := s.(type) {
	case *ast.TypeSpec:
		return v.Name.Name
	case *ast.ValueSpec:
		var ns []string
		for _, n := range v.Names {
			ns = append(ns, n.Name)
		}
		return strings.Join(ns, ",")
	}
	return "?"
}

func isTestSig(f *ast.FuncDecl) bool {
	if f.Type.Params == nil || len(f.Type.Params.List) != 1 || f.Type.Results != nil {
		return false
	}
	st, ok := f.Type.Params.List[0].Type.(*ast.StarExpr)
	if !ok {
		return false
	}
	se, ok := st.X.(*ast.SelectorExpr)
	return ok && se.Sel.Name == "T"
}
