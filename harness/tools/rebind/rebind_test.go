package main

// Self-test of the rebinding tool on the fixture under selftest/ (run: cd harness/tools/rebind && go test .  with
// GOFLAGS=-mod=mod GOPROXY=off GOSUMDB=off GOTOOLCHAIN=local).  base/p is the tree the manifest is generated from; the
// variants are:
//
//	s0   pure renames + regrouping (type, constructor, method, three fields, a constant; one field moves into a newly
//	     embedded struct and keeps its name): everything is rebound, the driver compiles and passes
//	s1   ADVERSARIAL: two functions of one signature renamed at once -> two candidates; the fingerprint must pick the right one
//	s1b  ADVERSARIAL: a function split into two new ones of its signature -> ambiguous, must be refused (stays a build error)
//	s2   ADVERSARIAL: rename combined with a behaviour change -> rebound; the driver compiles and its assertion FAILS at run time
//	s3   ADVERSARIAL: a function deleted while an unrelated new function of the same signature appears -> must stay unresolved;
//	     with -prune only the driver that needs it is taken out

import (
	"os"
	"os/exec"
	"path/filepath"
	"sort"
	"strings"
	"testing"
)

func fixtureOverlay(t *testing.T, variant string) (string, map[string]string) {
	t.Helper()
	root, err := filepath.Abs(filepath.Join("selftest", variant))
	if err != nil {
		t.Fatal(err)
	}
	src, _ := filepath.Abs(filepath.Join("selftest", "harness", "p_test.go"))
	return root, map[string]string{filepath.Join(root, "p", "zz_verif_p_test.go"): src}
}

func names(rs []*Rebound) []string {
	var out []string
	for _, r := range rs {
		out = append(out, r.Kind+" "+ownerDot(r.Owner)+r.From+"->"+r.To)
	}
	sort.Strings(out)
	return out
}

func unres(us []Unresolved) []string {
	var out []string
	for _, u := range us {
		out = append(out, u.Kind+" "+ownerDot(u.Owner)+u.Name)
	}
	sort.Strings(out)
	return out
}

func goTest(t *testing.T, root, overlay string) (bool, string) {
	cmd := exec.Command("go", "test", "-count=1", "-vet=off", "-tags", "verif", "-overlay", overlay, "./p")
	cmd.Dir = root
	cmd.Env = append(os.Environ(), "GOFLAGS=-mod=mod", "GOPROXY=off", "GOSUMDB=off", "GOTOOLCHAIN=local")
	out, err := cmd.CombinedOutput()
	return err == nil, string(out)
}

func TestRebindFixture(t *testing.T) {
	baseRoot, baseOv := fixtureOverlay(t, "base")
	harnessRoot, _ := filepath.Abs(filepath.Join("selftest", "harness"))
	m := buildManifest(baseRoot, baseOv, harnessRoot)
	if len(m.Packages) != 1 || len(m.Packages[0].Idents) < 12 {
		t.Fatalf("manifest: %+v", m)
	}
	cases := []struct {
		variant    string
		rebound    []string
		unresolved []string
		pruned     []string
		passes     bool   // go test of the rebound driver
		output     string // must occur in the go test output
	}{
		{"s0", []string{"const limit->maxEntries", "field store.hits->n", "field store.items->entries", "field store.name->id",
			"func describe->render", "func newStore->newBucket", "method store.put->insert", "type store->bucket"}, nil, nil, true, "ok"},
		{"s1", []string{"func normKey->canonKey"}, nil, nil, true, "ok"},
		{"s1b", nil, []string{"func normKey"}, []string{"TestStore"}, true, "ok"},
		{"s2", []string{"func checksum->digest"}, nil, nil, false, "--- FAIL: TestStore"},
		{"s3", nil, []string{"func describe"}, []string{"TestDescribe"}, true, "ok"},
	}
	for _, c := range cases {
		root, ov := fixtureOverlay(t, c.variant)
		out := t.TempDir()
		rep := apply(root, ov, m, out, true)
		if got := names(rep.Rebound); strings.Join(got, ";") != strings.Join(c.rebound, ";") {
			t.Errorf("%s: rebound %v, expected %v", c.variant, got, c.rebound)
		}
		if got := unres(rep.Unresolved); strings.Join(got, ";") != strings.Join(c.unresolved, ";") {
			t.Errorf("%s: unresolved %v, expected %v (%+v)", c.variant, got, c.unresolved, rep.Unresolved)
		}
		var pr []string
		for _, p := range rep.Pruned {
			pr = append(pr, p.Decl)
		}
		if strings.Join(pr, ";") != strings.Join(c.pruned, ";") {
			t.Errorf("%s: pruned %v, expected %v", c.variant, pr, c.pruned)
		}
		for _, r := range rep.Rebound {
			t.Logf("%s: %s %s%s -> %s  %s %.2f (%d sites)", c.variant, r.Kind, ownerDot(r.Owner), r.From, r.To, r.How, r.Score, r.Sites)
		}
		for _, u := range rep.Unresolved {
			t.Logf("%s: unresolved %s %s: %s %v", c.variant, u.Kind, u.Name, u.Why, u.Candidates)
		}
		if rep.Overlay == "" {
			t.Errorf("%s: no overlay written", c.variant)
			continue
		}
		ok, o := goTest(t, root, rep.Overlay)
		if ok != c.passes || !strings.Contains(o, c.output) {
			t.Errorf("%s: go test of the rebound driver: passes=%v, expected %v with %q in the output:\n%s", c.variant, ok, c.passes, c.output, o)
		}
		// without pruning an unresolved identifier leaves the old behaviour: the driver does not build
		if len(c.unresolved) > 0 {
			rep2 := apply(root, ov, m, t.TempDir(), false)
			if len(rep2.RemainingErrors) == 0 {
				t.Errorf("%s: expected remaining type errors without -prune", c.variant)
			}
		}
	}
}
