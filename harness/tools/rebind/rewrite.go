package main

import (
	"encoding/json"
	"flag"
	"fmt"
	"go/ast"
	"go/token"
	"go/types"
	"os"
	"path/filepath"
	"sort"
	"strings"
)

type Report struct {
	Rebound         []*Rebound        `json:"rebound"`
	Unresolved      []Unresolved      `json:"unresolved"`
	Pruned          []Pruned          `json:"pruned,omitempty"`
	RemainingErrors []string          `json:"remaining_errors,omitempty"` // type errors left in the rewritten harness files
	Files           map[string]string `json:"files"`                      // destination -> rewritten copy
	Overlay         string            `json:"overlay,omitempty"`
	Notes           []string          `json:"notes,omitempty"`
}

type edit struct {
	off, n int
	text   string
}

func cmdApply(args []string) {
	fs := flag.NewFlagSet("apply", flag.ExitOnError)
	repo := fs.String("repo", "", "repository root (the tree under test)")
	ovp := fs.String("overlay", "", "go overlay file")
	mp := fs.String("manifest", "", "manifest (rebind manifest)")
	out := fs.String("out", "", "output directory")
	prune := fs.Bool("prune", false, "remove harness declarations that depend on identifiers which stay unresolved")
	fs.Parse(args)
	var overlay map[string]string
	if *ovp != "" {
		overlay = readOverlay(*ovp)
	} else {
		if fs.NArg() < 4 {
			die("usage: rebind apply <pkgdir> <manifest> <harness files…> <outdir>")
		}
		rest := fs.Args()
		*mp, *out = rest[1], rest[len(rest)-1]
		*repo, overlay = positionalOverlay(rest[0], rest[2:len(rest)-1])
	}
	if *repo == "" || *mp == "" || *out == "" {
		die("-repo, -manifest and -out are required")
	}
	b, err := os.ReadFile(*mp)
	if err != nil {
		die("%v", err)
	}
	var m Manifest
	if err := json.Unmarshal(b, &m); err != nil {
		die("%s: %v", *mp, err)
	}
	rep := apply(*repo, overlay, &m, *out, *prune)
	rb, _ := json.MarshalIndent(rep, "", " ")
	os.MkdirAll(*out, 0o755)
	if err := os.WriteFile(filepath.Join(*out, "report.json"), append(rb, '\n'), 0o644); err != nil {
		die("%v", err)
	}
	for _, r := range rep.Rebound {
		if !r.Indirect || r.Sites > 0 {
			fmt.Printf("rebound %s %s%s -> %s (%s, %.2f, %d sites) in %s\n", r.Kind, ownerDot(r.Owner), r.From, r.To, r.How, r.Score, r.Sites, r.Pkg)
		}
	}
	for _, p := range rep.Pruned {
		fmt.Printf("pruned %s in %s (needs %s)\n", p.Decl, p.File, strings.Join(p.Needs, ", "))
	}
	for _, u := range rep.Unresolved {
		if !u.Indirect {
			fmt.Printf("unresolved %s %s%s in %s: %s\n", u.Kind, ownerDot(u.Owner), u.Name, u.Pkg, u.Why)
		}
	}
}

func ownerDot(o string) string {
	if o == "" {
		return ""
	}
	return o + "."
}

func apply(repo string, overlay map[string]string, m *Manifest, out string, prune bool) *Report {
	repo, _ = filepath.Abs(repo)
	rep := &Report{Rebound: []*Rebound{}, Unresolved: []Unresolved{}, Files: map[string]string{}}
	only := map[string]bool{}
	byDir := map[string]*PkgManifest{}
	for i := range m.Packages {
		only[m.Packages[i].Dir] = true
		byDir[m.Packages[i].Dir] = &m.Packages[i]
	}
	newOverlay := map[string]string{}
	for k, v := range overlay {
		newOverlay[k] = v
	}
	for _, u := range load(repo, overlay, only) {
		pm := byDir[u.dir]
		if pm == nil {
			continue
		}
		res := u.match(pm)
		edits, remaining, pruned := u.rewrite(res, pm, prune)
		rep.Rebound = append(rep.Rebound, res.rebound...)
		rep.Unresolved = append(rep.Unresolved, res.unresolved...)
		rep.Pruned = append(rep.Pruned, pruned...)
		rep.RemainingErrors = append(rep.RemainingErrors, remaining...)
		for dest, es := range edits {
			if len(es) == 0 {
				continue
			}
			srcBytes, err := os.ReadFile(u.src[dest])
			if err != nil {
				die("%v", err)
			}
			sort.Slice(es, func(i, j int) bool { return es[i].off < es[j].off })
			var nb []byte
			last := 0
			for _, e := range es {
				if e.off < last {
					continue // overlapping (an identifier inside a pruned declaration)
				}
				nb = append(nb, srcBytes[last:e.off]...)
				nb = append(nb, e.text...)
				last = e.off + e.n
			}
			nb = append(nb, srcBytes[last:]...)
			p := filepath.Join(out, "files", rel(repo, dest))
			os.MkdirAll(filepath.Dir(p), 0o755)
			if err := os.WriteFile(p, nb, 0o644); err != nil {
				die("%v", err)
			}
			rep.Files[dest] = p
			newOverlay[dest] = p
		}
	}
	if len(rep.Files) > 0 {
		os.MkdirAll(out, 0o755)
		ob, _ := json.MarshalIndent(overlayFile{Replace: newOverlay}, "", " ")
		rep.Overlay = filepath.Join(out, "overlay.json")
		if err := os.WriteFile(rep.Overlay, ob, 0o644); err != nil {
			die("%v", err)
		}
	}
	return rep
}

// ---------------------------------------------------------------------------------------------- re-type-checking

type mapImporter struct{ u *unit }

func (m mapImporter) Import(path string) (*types.Package, error) {
	if path == "unsafe" {
		return types.Unsafe, nil
	}
	if p := m.u.pkg.Imports[path]; p != nil && p.Types != nil {
		return p.Types, nil
	}
	return nil, fmt.Errorf("no export data for %q", path)
}

func (u *unit) check() (*types.Package, *types.Info, []types.Error) {
	info := &types.Info{
		Types:      map[ast.Expr]types.TypeAndValue{},
		Defs:       map[*ast.Ident]types.Object{},
		Uses:       map[*ast.Ident]types.Object{},
		Selections: map[*ast.SelectorExpr]*types.Selection{},
	}
	var errs []types.Error
	conf := types.Config{Importer: mapImporter{u}, Sizes: u.pkg.TypesSizes, Error: func(err error) {
		if te, ok := err.(types.Error); ok {
			errs = append(errs, te)
		}
	}}
	p, _ := conf.Check(u.pkg.PkgPath, u.pkg.Fset, u.pkg.Syntax, info)
	return p, info, errs
}

// ---------------------------------------------------------------------------------------------- rewriting

// rewrite renames, in the harness files of the unit, the references to rebound identifiers.  The syntax trees are
// changed in place (names only) and type-checked again after each round, because a reference may only become
// analysable once the expression in front of it resolves (x.a.b with a and b both renamed).
func (u *unit) rewrite(res *matchResult, pm *PkgManifest, prune bool) (map[string][]edit, []string, []Pruned) {
	fset := u.pkg.Fset
	byName := map[string][]*Rebound{}
	for _, r := range res.rebound {
		byName[r.From] = append(byName[r.From], r)
	}
	edits := map[string][]edit{}
	renamed := map[*ast.Ident]bool{}
	var harnessFiles []*ast.File
	for _, f := range u.pkg.Syntax {
		if u.harness[fset.Position(f.Pos()).Filename] {
			harnessFiles = append(harnessFiles, f)
		}
	}
	// syntactic roles
	selOf := map[*ast.Ident]*ast.SelectorExpr{}
	keyOf := map[*ast.Ident]*ast.CompositeLit{}
	for _, f := range harnessFiles {
		ast.Inspect(f, func(n ast.Node) bool {
			switch v := n.(type) {
			case *ast.SelectorExpr:
				selOf[v.Sel] = v
			case *ast.CompositeLit:
				for _, e := range v.Elts {
					if kv, ok := e.(*ast.KeyValueExpr); ok {
						if id, ok := kv.Key.(*ast.Ident); ok {
							keyOf[id] = v
						}
					}
				}
			}
			return true
		})
	}
	do := func(id *ast.Ident, r *Rebound) {
		pos := fset.Position(id.Pos())
		edits[pos.Filename] = append(edits[pos.Filename], edit{pos.Offset, len(id.Name), r.To})
		id.Name = r.To
		renamed[id] = true
		r.Sites++
	}
	if len(res.rebound) > 0 {
		for round := 0; round < 6; round++ {
			p, info, _ := u.check()
			if p == nil {
				break
			}
			cur := &an{fset: fset, pkg: p, info: info, files: u.pkg.Syntax, harness: u.harness}
			n := 0
			for _, f := range harnessFiles {
				ast.Inspect(f, func(node ast.Node) bool {
					id, ok := node.(*ast.Ident)
					if !ok || renamed[id] || byName[id.Name] == nil {
						return true
					}
					if info.Uses[id] != nil || info.Defs[id] != nil {
						return true // resolves (to a local object, or it still exists)
					}
					if _, isDef := info.Defs[id]; isDef {
						return true
					}
					for _, r := range byName[id.Name] {
						if u.applies(cur, info, id, r, selOf[id], keyOf[id]) {
							do(id, r)
							n++
							break
						}
					}
					return true
				})
			}
			if n == 0 {
				break
			}
		}
	}
	var pruned []Pruned
	if prune {
		pruned = u.prune(harnessFiles, edits)
	}
	var remaining []string
	_, _, errs := u.check()
	if len(pruned) == 0 {
		for _, e := range errs {
			pos := fset.Position(e.Pos)
			if u.harness[pos.Filename] && len(remaining) < 20 {
				remaining = append(remaining, fmt.Sprintf("%s:%d:%d: %s", u.src[pos.Filename], pos.Line, pos.Column, e.Msg))
			}
		}
	}
	return edits, remaining, pruned
}

func deref(t types.Type) types.Type {
	if p, ok := t.Underlying().(*types.Pointer); ok {
		return p.Elem()
	}
	return t
}

// applies: is the unresolved identifier id a reference to the rebound identifier r?
func (u *unit) applies(cur *an, info *types.Info, id *ast.Ident, r *Rebound, sel *ast.SelectorExpr, lit *ast.CompositeLit) bool {
	switch r.Kind {
	case "func", "var", "const", "type":
		if sel != nil {
			return false // x.name: a field, a method or a name of another package
		}
		if lit != nil {
			if t := info.TypeOf(lit); t != nil {
				if _, isStruct := deref(t).Underlying().(*types.Struct); isStruct {
					return false // a field name of a struct literal
				}
			}
		}
		return cur.lookup(r.Kind, "", r.To) != nil
	case "field", "method":
		var t types.Type
		if sel != nil {
			if x, ok := sel.X.(*ast.Ident); ok {
				if _, isPkg := info.Uses[x].(*types.PkgName); isPkg {
					return false
				}
			}
			t = info.TypeOf(sel.X)
		} else if lit != nil && r.Kind == "field" {
			t = info.TypeOf(lit)
			if t == nil && lit.Type != nil {
				t = info.TypeOf(lit.Type)
			}
		} else {
			return false
		}
		if t == nil {
			return false
		}
		if b, ok := t.(*types.Basic); ok && b.Kind() == types.Invalid {
			return false
		}
		want := cur.lookup(r.Kind, r.NewOwner, r.To)
		if want == nil {
			return false
		}
		if sel != nil {
			// the new name must select exactly that object on the expression's type (directly or by promotion)
			got, _, _ := types.LookupFieldOrMethod(t, true, cur.pkg, r.To)
			if got == nil {
				got, _, _ = types.LookupFieldOrMethod(types.NewPointer(t), true, cur.pkg, r.To)
			}
			return got != nil && origin(got) == origin(want)
		}
		st, ok := deref(t).Underlying().(*types.Struct)
		if !ok {
			return false
		}
		for i := 0; i < st.NumFields(); i++ {
			if origin(st.Field(i)) == origin(want) {
				return true
			}
		}
	}
	return false
}

var _ = token.NoPos
