module fixture

go 1.23
