// Package p is the fixture of the rebind self-test: the tree the manifest is generated from.
package p

import (
	"fmt"
	"strings"
)

const limit = 8

const width = 8

type store struct {
	name  string
	label string
	items map[string]int
	hits  int
}

func newStore(name string) *store {
	return &store{name: name, label: "l:" + name, items: map[string]int{}}
}

func (s *store) put(k string, v int) {
	if len(s.items) >= limit {
		return
	}

	s.items[k] = v
	s.hits++
}

func (s *store) get(k string) (int, bool) {
	v, ok := s.items[k]

	return v, ok
}

func (s *store) drop(k string, v int) {
	if s.items[k] == v {
		delete(s.items, k)
	}
}

// normKey and normVal have the same signature
func trimKey(k string) string { return strings.TrimSpace(k) }

func lowerKey(k string) string { return strings.ToLower(k) }

func normVal(v string) string { return strings.ToUpper(strings.TrimSpace(v)) + "!" }

func describe(s *store) string {
	return fmt.Sprintf("%s/%s:%d", s.name, s.label, len(s.items))
}

func checksum(k string) int {
	n := 0
	for _, c := range k {
		n = n*31 + int(c)
	}

	return n
}

// Use is the exported entry point
func Use(k, v string) string {
	s := newStore(lowerKey(trimKey(k)))
	s.put(lowerKey(trimKey(k)), checksum(normVal(v)))
	s.drop("zz", width)

	return describe(s)
}
