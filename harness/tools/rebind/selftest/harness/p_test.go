//go:build verif

// Driver of the rebind self-test (harness/tools/rebind/selftest): an in-package test of the fixture package p that
// names unexported identifiers of base/p.  It is type-checked into base/p for the manifest and into the variants
// s0 … s3 for `rebind apply`.
package p

import "testing"

func TestStore(t *testing.T) {
	s := newStore(normKey(" K "))
	s.put("a", checksum("a"))

	if v, ok := s.get("a"); !ok || v != 97 {
		t.Fatal(v)
	}

	if checksum("ab") != 97*31+98 {
		t.Fatal("checksum changed its behaviour: ", checksum("ab"))
	}

	if s.hits != 1 || len(s.items) != 1 || s.name != "k" || s.label != "l:k" {
		t.Fatal(s.hits, s.items, s.name, s.label)
	}

	lit := store{name: "n", items: map[string]int{}}
	if lit.name != "n" {
		t.Fatal(lit)
	}

	var f func(string, int) = s.put

	f("b", 2)

	if limit != 8 {
		t.Fatal(limit)
	}
}

func TestDescribe(t *testing.T) {
	if got := describe(newStore("x")); got != "x/l:x:0" {
		t.Fatal(got)
	}
}

func helperUsedByBoth(s *store) int { return s.hits }
