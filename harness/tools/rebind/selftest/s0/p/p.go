// Package p, variant s0: pure renames and a regrouping (nothing else changed).
package p

import (
	"fmt"
	"strings"
)

const maxEntries = 8

const width = 8

type meta struct {
	label string
}

type bucket struct {
	meta
	n       int
	entries map[string]int
	id      string
}

func newBucket(name string) *bucket {
	return &bucket{id: name, meta: meta{label: "l:" + name}, entries: map[string]int{}}
}

func (b *bucket) get(k string) (int, bool) {
	v, ok := b.entries[k]

	return v, ok
}

func (b *bucket) insert(key string, val int) {
	if len(b.entries) >= maxEntries {
		return
	}

	b.entries[key] = val
	b.n++
}

func (b *bucket) drop(k string, v int) {
	if b.entries[k] == v {
		delete(b.entries, k)
	}
}

func normVal(v string) string { return strings.ToUpper(strings.TrimSpace(v)) + "!" }

func normKey(k string) string { return strings.ToLower(strings.TrimSpace(k)) }

func render(b *bucket) string {
	return fmt.Sprintf("%s/%s:%d", b.id, b.label, len(b.entries))
}

func checksum(k string) int {
	n := 0
	for _, c := range k {
		n = n*31 + int(c)
	}

	return n
}

// Use is the exported entry point
func Use(k, v string) string {
	b := newBucket(normKey(k))
	b.insert(normKey(k), checksum(normVal(v)))
	b.drop("zz", width)

	return render(b)
}
