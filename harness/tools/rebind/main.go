// Command rebind keeps the in-package drivers of the verification harness bound to the identifiers of the package
// they are compiled into, across pure renames / moves / regroupings of unexported identifiers.
//
//	rebind manifest -repo R -overlay overlay.json [-harness /verif/harness] -o manifest.json
//	rebind manifest <pkgdir-in-repo> <harness files…>                       (manifest on stdout)
//	rebind apply    -repo R -overlay overlay.json -manifest manifest.json -out DIR [-prune]
//	rebind apply    <pkgdir of the repo> <manifest> <harness files…> <outdir>
//
// `manifest` type-checks the harness files inside the package(s) the overlay maps them into and records every identifier
// of those packages they refer to: kind, owner, signature, structural fingerprint (analyze.go).
// `apply` type-checks the same harness files against the CURRENT package; every recorded identifier that no longer
// exists is matched to the unique new identifier of the same kind, owner and signature (match.go), the harness files are
// copied with those references renamed (rewrite.go), a new overlay and a report are written.  See docs/notes/REBIND.md.
package main

import (
	"crypto/sha256"
	"encoding/hex"
	"encoding/json"
	"flag"
	"fmt"
	"go/ast"
	"go/token"
	"go/types"
	"os"
	"path/filepath"
	"sort"
	"strings"

	"golang.org/x/tools/go/packages"
)

type PkgManifest struct {
	Dir       string              `json:"dir"` // relative to the repository root
	Path      string              `json:"path"`
	Files     []string            `json:"files"` // harness files (destination names) type-checked in this package
	Idents    []Ident             `json:"idents"`
	Inventory map[string][]string `json:"inventory"` // names that existed: func|var|const|type, field:<owner>, method:<owner>
}

type Manifest struct {
	Version       int               `json:"version"`
	Tool          string            `json:"tool"`
	Overlay       map[string]string `json:"overlay"`        // repo-relative destination -> harness-relative source
	HarnessHashes map[string]string `json:"harness_hashes"` // harness-relative source -> sha256
	Packages      []PkgManifest     `json:"packages"`
}

type overlayFile struct {
	Replace map[string]string
}

// unit: one package of the repository with harness files mapped into it
type unit struct {
	dir     string // relative
	pkg     *packages.Package
	harness map[string]bool   // destination file names
	src     map[string]string // destination -> source on disk
	a       *an
}

func die(f string, a ...any) {
	fmt.Fprintf(os.Stderr, "rebind: "+f+"\n", a...)
	os.Exit(2)
}

func main() {
	if len(os.Args) < 2 {
		die("usage: rebind manifest|apply …")
	}
	switch os.Args[1] {
	case "manifest":
		cmdManifest(os.Args[2:])
	case "apply":
		cmdApply(os.Args[2:])
	default:
		die("unknown command %s", os.Args[1])
	}
}

func readOverlay(path string) map[string]string {
	b, err := os.ReadFile(path)
	if err != nil {
		die("%v", err)
	}
	var o overlayFile
	if err := json.Unmarshal(b, &o); err != nil {
		die("%s: %v", path, err)
	}
	return o.Replace
}

func findRoot(dir string) string {
	d, _ := filepath.Abs(dir)
	for {
		if _, err := os.Stat(filepath.Join(d, "go.mod")); err == nil {
			return d
		}
		p := filepath.Dir(d)
		if p == d {
			die("no go.mod above %s", dir)
		}
		d = p
	}
}

// positional form: files are `src` (mapped to <pkgdir>/zz_verif_<base>) or `dest=src`
func positionalOverlay(pkgdir string, files []string) (string, map[string]string) {
	abs, _ := filepath.Abs(pkgdir)
	root := findRoot(abs)
	ov := map[string]string{}
	for _, f := range files {
		dest, src := "", f
		if i := strings.IndexByte(f, '='); i >= 0 {
			dest, src = f[:i], f[i+1:]
		}
		src, _ = filepath.Abs(src)
		if dest == "" {
			dest = "zz_verif_" + filepath.Base(src)
		}
		if !filepath.IsAbs(dest) {
			dest = filepath.Join(abs, dest)
		}
		ov[dest] = src
	}
	return root, ov
}

func sha(path string) string {
	b, err := os.ReadFile(path)
	if err != nil {
		return ""
	}
	h := sha256.Sum256(b)
	return hex.EncodeToString(h[:])
}

func rel(base, p string) string {
	if base == "" {
		return p
	}
	r, err := filepath.Rel(base, p)
	if err != nil || strings.HasPrefix(r, "..") {
		return p
	}
	return r
}

// ---------------------------------------------------------------------------------------------- loading

func hasRepoGoFiles(dir string, overlay map[string]string) bool {
	es, err := os.ReadDir(dir)
	if err != nil {
		return false
	}
	for _, e := range es {
		if !e.IsDir() && strings.HasSuffix(e.Name(), ".go") {
			if _, ov := overlay[filepath.Join(dir, e.Name())]; !ov {
				return true
			}
		}
	}
	return false
}

func load(repo string, overlay map[string]string, only map[string]bool) []*unit {
	repo, _ = filepath.Abs(repo)
	content := map[string][]byte{}
	byDir := map[string][]string{}
	for dest, src := range overlay {
		b, err := os.ReadFile(src)
		if err != nil {
			die("%v", err)
		}
		content[dest] = b
		d := filepath.Dir(dest)
		byDir[d] = append(byDir[d], dest)
	}
	var dirs []string
	for d := range byDir {
		r := rel(repo, d)
		if only != nil && !only[r] {
			continue
		}
		if hasRepoGoFiles(d, overlay) {
			dirs = append(dirs, d)
		}
	}
	sort.Strings(dirs)
	if len(dirs) == 0 {
		return nil
	}
	var patterns []string
	for _, d := range dirs {
		patterns = append(patterns, "./"+rel(repo, d))
	}
	cfg := &packages.Config{
		Mode: packages.NeedName | packages.NeedFiles | packages.NeedCompiledGoFiles | packages.NeedImports |
			packages.NeedTypes | packages.NeedSyntax | packages.NeedTypesInfo | packages.NeedTypesSizes,
		Dir:        repo,
		Env:        append(os.Environ(), "GOFLAGS=-mod=mod", "GOPROXY=off", "GOSUMDB=off", "GOTOOLCHAIN=local"),
		BuildFlags: []string{"-tags=verif"},
		Tests:      true,
		Overlay:    content,
	}
	pkgs, err := packages.Load(cfg, patterns...)
	if err != nil {
		die("load: %v", err)
	}
	var units []*unit
	for _, d := range dirs {
		var best *packages.Package
		bestN, bestFiles := 0, 0
		for _, p := range pkgs {
			if strings.HasSuffix(p.ID, ".test") || p.Types == nil {
				continue
			}
			n := 0
			for _, f := range p.CompiledGoFiles {
				if filepath.Dir(f) == d {
					if _, ok := overlay[f]; ok {
						n++
					}
				}
			}
			if n > bestN || n == bestN && n > 0 && len(p.CompiledGoFiles) > bestFiles {
				best, bestN, bestFiles = p, n, len(p.CompiledGoFiles)
			}
		}
		if best == nil {
			continue
		}
		u := &unit{dir: rel(repo, d), pkg: best, harness: map[string]bool{}, src: map[string]string{}}
		for _, f := range best.CompiledGoFiles {
			if filepath.Dir(f) == d {
				if s, ok := overlay[f]; ok {
					u.harness[f] = true
					u.src[f] = s
				}
			}
		}
		u.a = &an{fset: best.Fset, pkg: best.Types, info: best.TypesInfo, files: best.Syntax, harness: u.harness}
		units = append(units, u)
	}
	return units
}

// ---------------------------------------------------------------------------------------------- manifest

func cmdManifest(args []string) {
	fs := flag.NewFlagSet("manifest", flag.ExitOnError)
	repo := fs.String("repo", "", "repository root")
	ovp := fs.String("overlay", "", "go overlay file (Replace: destination -> source)")
	harness := fs.String("harness", "", "root of the harness sources (paths in the manifest are relative to it)")
	out := fs.String("o", "", "output file (default stdout)")
	fs.Parse(args)
	var overlay map[string]string
	if *ovp != "" {
		overlay = readOverlay(*ovp)
	} else {
		if fs.NArg() < 2 {
			die("usage: rebind manifest <pkgdir> <harness files…>")
		}
		*repo, overlay = positionalOverlay(fs.Arg(0), fs.Args()[1:])
	}
	if *repo == "" {
		die("-repo missing")
	}
	m := buildManifest(*repo, overlay, *harness)
	b, _ := json.MarshalIndent(m, "", " ")
	b = append(b, '\n')
	if *out == "" {
		os.Stdout.Write(b)
		return
	}
	if err := os.WriteFile(*out+".tmp", b, 0o644); err != nil {
		die("%v", err)
	}
	if err := os.Rename(*out+".tmp", *out); err != nil {
		die("%v", err)
	}
}

func buildManifest(repo string, overlay map[string]string, harnessRoot string) *Manifest {
	repo, _ = filepath.Abs(repo)
	m := &Manifest{Version: 1, Tool: "harness/tools/rebind", Overlay: map[string]string{}, HarnessHashes: map[string]string{}, Packages: []PkgManifest{}}
	for dest, src := range overlay {
		m.Overlay[rel(repo, dest)] = rel(harnessRoot, src)
		m.HarnessHashes[rel(harnessRoot, src)] = sha(src)
	}
	for _, u := range load(repo, overlay, nil) {
		if errs := harnessErrors(u); len(errs) > 0 {
			die("the harness files do not type-check in %s (a manifest is generated from a tree the harness builds against):\n  %s",
				u.dir, strings.Join(errs, "\n  "))
		}
		m.Packages = append(m.Packages, u.manifest())
	}
	return m
}

func harnessErrors(u *unit) []string {
	var out []string
	for _, e := range u.pkg.Errors {
		// position "file:line:col"
		f := e.Pos
		if i := strings.IndexByte(f, ':'); i >= 0 {
			f = f[:i]
		}
		if u.harness[f] {
			out = append(out, e.Pos+": "+e.Msg)
		}
	}
	return out
}

func (u *unit) manifest() PkgManifest {
	a := u.a
	a.prepare()
	pm := PkgManifest{Dir: u.dir, Path: u.pkg.PkgPath, Idents: []Ident{}, Inventory: map[string][]string{}}
	for f := range u.harness {
		pm.Files = append(pm.Files, filepath.Base(f))
	}
	sort.Strings(pm.Files)
	seen := map[types.Object]bool{}
	var direct []types.Object
	for _, f := range a.files {
		if !a.harness[a.fset.Position(f.Pos()).Filename] {
			continue
		}
		ast.Inspect(f, func(n ast.Node) bool {
			id, ok := n.(*ast.Ident)
			if !ok {
				return true
			}
			obj := a.info.Uses[id]
			if obj == nil {
				return true
			}
			obj = origin(obj)
			if !a.interesting(obj) || a.inHarness(obj.Pos()) || seen[obj] {
				return true
			}
			seen[obj] = true
			direct = append(direct, obj)
			return true
		})
	}
	// types that occur in the signatures of those identifiers or own them
	indirect := map[*types.TypeName]bool{}
	for _, obj := range direct {
		if _, isType := obj.(*types.TypeName); !isType {
			a.localTypesIn(obj.Type(), indirect, 0)
		}
		if o := a.ownerOf(obj); o != "" {
			if tn, ok := a.pkg.Scope().Lookup(strings.Split(o, ".")[0]).(*types.TypeName); ok {
				indirect[tn] = true
			}
		}
		if f, ok := obj.(*types.Func); ok && isMethod(f) {
			a.localTypesIn(f.Type().(*types.Signature).Recv().Type(), indirect, 0)
		}
	}
	for _, obj := range direct {
		pm.Idents = append(pm.Idents, a.describe(obj))
	}
	for tn := range indirect {
		if seen[tn] || a.inHarness(tn.Pos()) {
			continue
		}
		seen[tn] = true
		id := a.describe(tn)
		id.Indirect = true
		pm.Idents = append(pm.Idents, id)
	}
	sort.Slice(pm.Idents, func(i, j int) bool { return pm.Idents[i].key() < pm.Idents[j].key() })
	// inventory
	sc := a.pkg.Scope()
	for _, name := range sc.Names() {
		obj := sc.Lookup(name)
		if a.inHarness(obj.Pos()) {
			continue
		}
		if k := kindOf(obj); k != "" {
			pm.Inventory[k] = append(pm.Inventory[k], name)
		}
	}
	for _, id := range pm.Idents {
		if id.Kind != "type" {
			continue
		}
		tn, ok := sc.Lookup(id.Name).(*types.TypeName)
		if !ok {
			continue
		}
		a.inventoryOfType(tn, pm.Inventory)
	}
	return pm
}

func (a *an) inventoryOfType(tn *types.TypeName, inv map[string][]string) {
	name := tn.Name()
	if n, ok := tn.Type().(*types.Named); ok {
		ms := []string{}
		for i := 0; i < n.NumMethods(); i++ {
			ms = append(ms, n.Method(i).Name())
		}
		if it, ok := n.Underlying().(*types.Interface); ok {
			for i := 0; i < it.NumExplicitMethods(); i++ {
				ms = append(ms, it.ExplicitMethod(i).Name())
			}
		}
		sort.Strings(ms)
		inv["method:"+name] = ms
	}
	for f, o := range a.owner {
		if o == name || strings.HasPrefix(o, name+".") {
			inv["field:"+o] = append(inv["field:"+o], f.Name())
		}
	}
	for k := range inv {
		if strings.HasPrefix(k, "field:"+name) {
			sort.Strings(inv[k])
		}
	}
}

var _ = token.NoPos
