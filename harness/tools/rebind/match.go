package main

import (
	"fmt"
	"go/types"
	"sort"
	"strings"
	"unicode"
)

// Thresholds of the matching (docs/notes/REBIND.md):
const (
	minUnique = 0.30 // a candidate that is the only one of its kind/owner/signature must still resemble the old identifier this much
	minBest   = 0.50 // several candidates: the best one must reach this similarity …
	minMargin = 0.20 // … and be ahead of the second best by this much
)

type Rebound struct {
	Pkg      string  `json:"pkg"`
	From     string  `json:"from"`
	To       string  `json:"to"`
	Kind     string  `json:"kind"`
	Owner    string  `json:"owner,omitempty"`
	NewOwner string  `json:"new_owner,omitempty"`
	How      string  `json:"how"`
	Score    float64 `json:"score"`
	Indirect bool    `json:"indirect,omitempty"`
	Sites    int     `json:"sites"` // references rewritten in the harness files
}

type Cand struct {
	Name  string  `json:"name"`
	Score float64 `json:"score"`
}

type Unresolved struct {
	Pkg        string `json:"pkg"`
	Name       string `json:"name"`
	Kind       string `json:"kind"`
	Owner      string `json:"owner,omitempty"`
	Sig        string `json:"sig,omitempty"`
	Why        string `json:"why"`
	Candidates []Cand `json:"candidates,omitempty"`
	Indirect   bool   `json:"indirect,omitempty"`
}

// ---------------------------------------------------------------------------------------------- lookup in the current package

func (a *an) typeName(name string) *types.TypeName {
	tn, _ := a.pkg.Scope().Lookup(name).(*types.TypeName)
	if tn != nil && a.inHarness(tn.Pos()) {
		return nil
	}
	return tn
}

// lookup: the identifier (kind, owner, name) of the current package, nil when there is none
func (a *an) lookup(kind, owner, name string) types.Object {
	switch kind {
	case "func", "var", "const", "type":
		o := a.pkg.Scope().Lookup(name)
		if o == nil || kindOf(o) != kind || a.inHarness(o.Pos()) {
			return nil
		}
		return o
	case "method":
		tn := a.typeName(owner)
		if tn == nil {
			return nil
		}
		var t types.Type = tn.Type()
		if _, isIface := t.Underlying().(*types.Interface); !isIface {
			t = types.NewPointer(t)
		}
		o, _, _ := types.LookupFieldOrMethod(t, true, a.pkg, name)
		if f, ok := o.(*types.Func); ok && !a.inHarness(f.Pos()) {
			return f
		}
	case "field":
		if !strings.Contains(owner, ".") {
			tn := a.typeName(owner)
			if tn == nil {
				return nil
			}
			o, _, _ := types.LookupFieldOrMethod(tn.Type(), true, a.pkg, name)
			if v, ok := o.(*types.Var); ok && v.IsField() {
				return v
			}
			return nil
		}
		if st := a.structAt(owner); st != nil {
			for i := 0; i < st.NumFields(); i++ {
				if st.Field(i).Name() == name {
					return st.Field(i)
				}
			}
		}
	}
	return nil
}

// candidates: every identifier of the current package of that kind and owner (for fields also those of package-local
// structs embedded in the owner)
func (a *an) candidates(kind, owner string) []types.Object {
	var out []types.Object
	switch kind {
	case "func", "var", "const", "type":
		sc := a.pkg.Scope()
		for _, n := range sc.Names() {
			o := sc.Lookup(n)
			if kindOf(o) == kind && !a.inHarness(o.Pos()) {
				out = append(out, o)
			}
		}
	case "method":
		tn := a.typeName(owner)
		if tn == nil {
			return nil
		}
		if n, ok := tn.Type().(*types.Named); ok {
			for i := 0; i < n.NumMethods(); i++ {
				out = append(out, n.Method(i))
			}
			if it, ok := n.Underlying().(*types.Interface); ok {
				for i := 0; i < it.NumExplicitMethods(); i++ {
					out = append(out, it.ExplicitMethod(i))
				}
			}
		}
	case "field":
		st := a.structAt(owner)
		if st == nil {
			return nil
		}
		for i := 0; i < st.NumFields(); i++ {
			f := st.Field(i)
			out = append(out, f)
			if f.Embedded() {
				t := f.Type()
				if p, ok := t.(*types.Pointer); ok {
					t = p.Elem()
				}
				if n, ok := t.(*types.Named); ok && n.Obj().Pkg() == a.pkg {
					if est, ok := n.Underlying().(*types.Struct); ok {
						for j := 0; j < est.NumFields(); j++ {
							out = append(out, est.Field(j))
						}
					}
				}
			}
		}
	}
	return out
}

// ---------------------------------------------------------------------------------------------- similarity

func jaccard(x, y []string) float64 {
	if len(x) == 0 && len(y) == 0 {
		return 1
	}
	cx := map[string]int{}
	for _, s := range x {
		cx[s]++
	}
	cy := map[string]int{}
	for _, s := range y {
		cy[s]++
	}
	inter, union := 0, 0
	for k, n := range cx {
		m := cy[k]
		if m < n {
			inter += m
			union += n
		} else {
			inter += n
			union += m
		}
	}
	for k, m := range cy {
		if _, ok := cx[k]; !ok {
			union += m
		}
	}
	if union == 0 {
		return 1
	}
	return float64(inter) / float64(union)
}

func maskAll(xs []string) []string {
	out := make([]string, len(xs))
	for i, s := range xs {
		if strings.HasPrefix(s, local) {
			out[i] = local
		} else {
			out[i] = s
		}
	}
	return out
}

func ratio(x, y int) float64 {
	if x == y {
		return 1
	}
	if x > y {
		x, y = y, x
	}
	if y == 0 {
		return 1
	}
	return float64(x) / float64(y)
}

func tokens(name string) []string {
	var out []string
	cur := ""
	for _, r := range name {
		if unicode.IsUpper(r) || r == '_' {
			if cur != "" {
				out = append(out, strings.ToLower(cur))
			}
			cur = ""
			if r == '_' {
				continue
			}
		}
		cur += string(r)
	}
	if cur != "" {
		out = append(out, strings.ToLower(cur))
	}
	return out
}

func eqStrings(x, y []string) bool {
	if len(x) != len(y) {
		return false
	}
	for i := range x {
		if x[i] != y[i] {
			return false
		}
	}
	return true
}

// similarity in [0,1] of the recorded identifier and a candidate of the current package
func similarity(kind string, old Ident, of, nf Fingerprint, newName string) float64 {
	uses := jaccard(of.Uses, nf.Uses)
	switch kind {
	case "func", "method":
		if of.Body == "" && nf.Body == "" { // no body (interface methods): only the use sites tell
			return 0.4 + 0.6*uses
		}
		if of.Body != "" && of.Body == nf.Body {
			return 1
		}
		if of.Shape != "" && of.Shape == nf.Shape {
			return 0.95
		}
		// the body differs: at most 0.9
		return 0.9 * (0.35*jaccard(maskAll(of.Callees), maskAll(nf.Callees)) + 0.15*jaccard(of.Strings, nf.Strings) +
			0.10*ratio(of.Stmts, nf.Stmts) + 0.40*uses)
	case "type":
		if of.Body != "" && of.Body == nf.Body {
			return 1
		}
		if of.Shape != "" && of.Shape == nf.Shape {
			return 0.95
		}
		return 0.6*jaccard(of.Members, nf.Members) + 0.4*uses
	case "var", "const":
		if of.Body != "" && of.Body == nf.Body {
			return 1
		}
		if of.Shape != "" && of.Shape == nf.Shape && of.Value == nf.Value {
			return 0.95
		}
		v := 0.0
		if of.Value == nf.Value {
			v = 0.3
		}
		return v + 0.7*uses
	case "field":
		s := 0.7 * uses
		if of.Tag == nf.Tag {
			s += 0.1
		}
		if of.Index == nf.Index {
			s += 0.1
		}
		s += 0.1 * jaccard(tokens(old.Name), tokens(newName))
		return s
	}
	return 0
}

// ---------------------------------------------------------------------------------------------- matching

type matchResult struct {
	rebound    []*Rebound
	unresolved []Unresolved
	typeMap    map[string]string
}

func inInv(inv map[string][]string, key, name string) bool {
	for _, n := range inv[key] {
		if n == name {
			return true
		}
	}
	return false
}

func mapOwner(owner string, tm map[string]string) string {
	if owner == "" {
		return ""
	}
	parts := strings.Split(owner, ".")
	if n, ok := tm[parts[0]]; ok {
		parts[0] = n
	}
	return strings.Join(parts, ".")
}

func (u *unit) match(pm *PkgManifest) *matchResult {
	a := u.a
	a.prepare()
	res := &matchResult{typeMap: map[string]string{}}
	taken := map[types.Object]*Rebound{}
	conflict := map[types.Object]bool{}

	decide := func(id Ident, newOwner string, pool []types.Object, exact func(types.Object) bool, uniqueHow string) {
		type sc struct {
			o types.Object
			s float64
		}
		var scored []sc
		for _, o := range pool {
			scored = append(scored, sc{o, similarity(id.Kind, id, id.FP, a.fingerprint(o), o.Name())})
		}
		sort.SliceStable(scored, func(i, j int) bool { return scored[i].s > scored[j].s })
		var cands []Cand
		for i, s := range scored {
			if i < 5 {
				cands = append(cands, Cand{s.o.Name(), round3(s.s)})
			}
		}
		un := Unresolved{Pkg: u.dir, Name: id.Name, Kind: id.Kind, Owner: id.Owner, Sig: id.Sig, Candidates: cands, Indirect: id.Indirect}
		if len(scored) == 0 {
			un.Why = "no identifier of the current package has this kind, owner and signature under a new name (deleted, or its signature changed)"
			res.unresolved = append(res.unresolved, un)
			return
		}
		var pick *sc
		how := ""
		if len(scored) == 1 {
			if scored[0].s >= minUnique {
				pick, how = &scored[0], uniqueHow
			} else {
				un.Why = fmt.Sprintf("the only candidate resembles the old identifier too little (%.2f < %.2f)", scored[0].s, minUnique)
			}
		} else {
			// prefer candidates that are structurally exact, when exactly one is
			var ex []sc
			if exact != nil {
				for _, s := range scored {
					if exact(s.o) {
						ex = append(ex, s)
					}
				}
			}
			if len(ex) == 1 && ex[0].s >= minUnique {
				pick, how = &ex[0], uniqueHow
			} else if scored[0].s >= minBest && scored[0].s-scored[1].s >= minMargin {
				pick, how = &scored[0], "fingerprint"
			} else {
				un.Why = fmt.Sprintf("ambiguous: %d candidates, best %.2f, second %.2f (needs best >= %.2f and a margin >= %.2f)",
					len(scored), scored[0].s, scored[1].s, minBest, minMargin)
			}
		}
		if pick == nil {
			res.unresolved = append(res.unresolved, un)
			return
		}
		r := &Rebound{Pkg: u.dir, From: id.Name, To: pick.o.Name(), Kind: id.Kind, Owner: id.Owner, NewOwner: a.ownerOf(pick.o),
			How: how, Score: round3(pick.s), Indirect: id.Indirect}
		if id.Kind != "field" && id.Kind != "method" {
			r.NewOwner = ""
		} else if r.NewOwner == "" {
			r.NewOwner = newOwner
		}
		if prev, dup := taken[pick.o]; dup {
			conflict[pick.o] = true
			_ = prev
		}
		taken[pick.o] = r
		res.rebound = append(res.rebound, r)
		if id.Kind == "type" {
			res.typeMap[id.Name] = pick.o.Name()
		}
	}

	// 1. types
	for _, id := range pm.Idents {
		if id.Kind != "type" || a.lookup("type", "", id.Name) != nil {
			continue
		}
		var pool []types.Object
		for _, o := range a.candidates("type", "") {
			if inInv(pm.Inventory, "type", o.Name()) || a.sigOf(o) != id.Sig {
				continue
			}
			pool = append(pool, o)
		}
		members := id.FP.Members
		decide(id, "", pool, func(o types.Object) bool { return eqStrings(a.members(o.(*types.TypeName)), members) }, "unique-structure")
	}
	// 2. everything else, owners and signatures read modulo the rebound type names
	for _, id := range pm.Idents {
		if id.Kind == "type" {
			continue
		}
		if (id.Kind == "method" || id.Kind == "field") && id.Owner == "" {
			continue // member of an unnamed type: cannot be looked up by owner, left to the compiler
		}
		owner := mapOwner(id.Owner, res.typeMap)
		if a.lookup(id.Kind, owner, id.Name) != nil {
			continue
		}
		if (id.Kind == "method" || id.Kind == "field") && (owner == "" || a.typeName(strings.Split(owner, ".")[0]) == nil) {
			res.unresolved = append(res.unresolved, Unresolved{Pkg: u.dir, Name: id.Name, Kind: id.Kind, Owner: id.Owner, Sig: id.Sig,
				Why: "its owner type does not exist in the current package and could not be rebound"})
			continue
		}
		want := substLocal(id.Sig, res.typeMap)
		invKey := id.Kind
		if id.Kind == "method" || id.Kind == "field" {
			invKey = id.Kind + ":" + id.Owner
		}
		var pool []types.Object
		for _, o := range a.candidates(id.Kind, owner) {
			if a.sigOf(o) != want {
				continue
			}
			// a name that already existed for this kind and owner is another identifier, not a rename of this one
			if inInv(pm.Inventory, invKey, o.Name()) {
				continue
			}
			pool = append(pool, o)
		}
		decide(id, owner, pool, nil, "unique-signature")
	}
	// two old identifiers bound to the same new one: refuse both
	if len(conflict) > 0 {
		var keep []*Rebound
		for _, r := range res.rebound {
			bad := false
			for o := range conflict {
				if o.Name() == r.To && kindOf(o) == r.Kind {
					bad = true
				}
			}
			if bad {
				res.unresolved = append(res.unresolved, Unresolved{Pkg: u.dir, Name: r.From, Kind: r.Kind, Owner: r.Owner,
					Why: "two recorded identifiers matched the same new identifier " + r.To})
				if r.Kind == "type" {
					delete(res.typeMap, r.From)
				}
				continue
			}
			keep = append(keep, r)
		}
		res.rebound = keep
	}
	return res
}

func round3(f float64) float64 { return float64(int(f*1000+0.5)) / 1000 }
