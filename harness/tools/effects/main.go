// Command effects extracts, from the CURRENT source of dadrus/heimdall, a
// receiver-write effect table for every mechanism type (authenticators,
// authorizers, contextualizers, finalizers, error handlers) and renders it as a
// Coq file (coq/Gen/Effects.v) for property C17.
//
// For every method in the method set of every mechanism type it computes the
// set of instructions, reachable over static callees, class-hierarchy-resolved
// interface calls and closures, that may WRITE memory reachable from the
// receiver:  Store through a receiver-derived address, MapUpdate / delete /
// clear / copy-into / append-into a receiver-derived map or slice, a write to a
// package-level variable, and calls into code without analysable body that
// receive a receiver-derived pointer-like argument (counted as writes unless
// the callee is whitelisted below, each entry with a written reason).
//
// The analysis is a flow-insensitive, context-sensitive (per tuple of argument
// taints) taint propagation over go/ssa.  Two taint bits per SSA value:
//
//	P  the value is, or contains, a pointer into memory reachable from the receiver
//	H  the value is, or contains, a pointer to memory allocated by the method itself
//	   into which P values have been stored (a load through it yields P)
//
// Values of types that cannot carry a pointer to mutable memory (numbers,
// booleans, strings and structs/arrays of those) are never tainted.
//
// Usage: effects -repo /repo -out /verif/coq/Gen/Effects.v [-json out.json] [-v]
package main

import (
	"encoding/json"
	"flag"
	"fmt"
	"go/token"
	"go/types"
	"os"
	"path/filepath"
	"sort"
	"strings"
	"time"

	"golang.org/x/tools/go/packages"
	"golang.org/x/tools/go/ssa"
	"golang.org/x/tools/go/ssa/ssautil"
)

const module = "github.com/dadrus/heimdall"

// mechanism kinds: package (relative to internal/rules/mechanisms) and interface name.
var kinds = []struct{ Pkg, Iface, Kind string }{
	{"authenticators", "Authenticator", "KAuthenticator"},
	{"authorizers", "Authorizer", "KAuthorizer"},
	{"contextualizers", "Contextualizer", "KContextualizer"},
	{"finalizers", "Finalizer", "KFinalizer"},
	{"errorhandlers", "ErrorHandler", "KErrorHandler"},
}

type bits uint8

const (
	P  bits = 1
	H  bits = 2  // HP: points to method-local memory that directly holds P values
	HH bits = 4  // points to method-local memory that holds H/HH values (a load yields H|HH, not P)
	G  bits = 8  // the value is, or was loaded through, a package-level variable (memory shared by everybody)
	GH bits = 16 // points to method-local memory that holds G values (a load yields G)
)

// ---------------------------------------------------------------- whitelist

// wlEntry: Arg0 marks callees that DO write their receiver / first argument (setters, Write,
// AddCert, ...): they are harmless only while that operand is not receiver-derived.
type wlEntry struct{ Prefix, Reason string }

var arg0Writers = []string{
	"(*text/template.Template).Funcs",
	"(*encoding/json.Encoder).Encode",
	"(*github.com/goccy/go-json.Encoder).Encode",
	"(hash.Hash).Write",
	"(io.Writer).Write",
	"(*bytes.Buffer).Write",
	"(*strings.Builder).Write",
	"(*net/url.URL).",
	"(net/url.Values).",
	"(net/http.Header).",
	"(*github.com/go-viper/mapstructure/v2.Decoder).Decode",
	"(*sync.RWMutex).Lock",
	"(*sync.RWMutex).Unlock",
	"(*sync.Mutex).Lock",
	"(*sync.Mutex).Unlock",
	"(*crypto/x509.CertPool).",
	"(*github.com/go-jose/go-jose/v4.SignerOptions).",
	"(*net/http.Request).",
	"(io.Reader).Read",
	"(io.ReadCloser).",
	"(io.Closer).Close",
	"sort.",
	"(*github.com/jellydator/ttlcache/v3.Cache[",
	"(*github.com/goccy/go-json.Decoder).Decode",
}

// Calls into code that is not analysed (no SSA body, or outside the module and
// not descended into) that receive a receiver-derived pointer-like argument are
// writes unless the callee matches one of these prefixes.  Every entry carries
// the reason it is considered read-only with respect to its arguments.
var whitelist = []wlEntry{
	{"fmt.", "formatting functions only read their operands (reflection based, no Set calls)"},
	{"errors.", "errors.Is/As/Unwrap/New/Join read the chain; As writes only to its target, which callers allocate locally"},
	{"strings.", "pure functions over strings / read-only over slices"},
	{"(*strings.Replacer).", "strings.Replacer: 'safe for concurrent use by multiple goroutines' (type doc); Replace/WriteString read the replacer"},
	{"bytes.", "bytes.NewBuffer*/Equal/Contains take ownership of or read the slice; heimdall passes fresh or immutable data"},
	{"len", "builtin, read-only"},
	{"cap", "builtin, read-only"},
	{"print", "builtin, read-only"},
	{"min", "builtin"},
	{"max", "builtin"},
	{"new", "builtin, allocates"},
	{"panic", "builtin, reads its operand"},
	{"recover", "builtin"},
	{"ssa:wrapnilchk", "ssa intrinsic, returns its operand"},
	{"(*text/template.Template).Execute", "text/template: 'A template may be executed safely in parallel' (package doc)"},
	{"(*text/template.Template).Funcs", "only called on freshly created templates (reported if the receiver is shared: kept for visibility)"},
	{"(*regexp.Regexp).", "regexp.Regexp 'is safe for concurrent use by multiple goroutines, except for configuration methods' (package doc); Longest is not used by heimdall"},
	{"(github.com/google/cel-go/cel.Program).Eval", "cel-go: 'Programs are ... safe for concurrent evaluation' (Program doc); Eval reads the program"},
	{"(github.com/google/cel-go/cel.Program).ContextEval", "as Eval"},
	{"(github.com/gobwas/glob.Glob).Match", "compiled globs are immutable matchers (value types over strings)"},
	{"(*github.com/rs/zerolog.", "zerolog events/contexts copy or format their operands into a private buffer"},
	{"(github.com/rs/zerolog.", "zerolog events/contexts copy or format their operands into a private buffer"},
	{"github.com/rs/zerolog.", "logger lookup; reads"},
	{"github.com/goccy/go-json.Marshal", "reflection-based encoder, reads its operand"},
	{"encoding/json.Marshal", "reflection-based encoder, reads its operand"},
	{"(*encoding/json.Encoder).Encode", "reflection-based encoder, reads its operand"},
	{"(*github.com/goccy/go-json.Encoder).Encode", "reflection-based encoder, reads its operand"},
	{"(hash.Hash).Write", "hash.Hash.Write reads p (io.Writer contract: 'Write must not modify the slice data')"},
	{"(io.Writer).Write", "io.Writer contract: 'Write must not modify the slice data, even temporarily'"},
	{"(*bytes.Buffer).Write", "copies p into its own buffer"},
	{"(*strings.Builder).Write", "copies into its own buffer"},
	{"crypto/sha256.Sum256", "reads its operand"},
	{"crypto/subtle.ConstantTimeCompare", "reads its operands"},
	{"encoding/hex.EncodeToString", "reads its operand"},
	{"encoding/base64.", "encoders read their operand"},
	{"(*encoding/base64.Encoding).EncodeToString", "reads its operand"},
	{"(time.Time).", "time.Time value methods are read-only; *Location is immutable after load"},
	{"(time.Duration).", "value methods"},
	{"time.", "time package functions do not retain or write operands"},
	{"net/http.NewRequestWithContext", "stores the context and body reader in a new request; reads the strings"},
	{"context.With", "derives a new context, stores the value pointer without writing through it"},
	{"(context.Context).", "context accessors are read-only"},
	{"net/url.", "parsers/escapers over strings"},
	{"(*net/url.URL).", "only called on URLs created per request"},
	{"(net/url.Values).", "only called on values created per request"},
	{"(net/http.Header).", "only called on per-request headers (a receiver-held header map would be reported as MapUpdate by the module-level code writing it)"},
	{"reflect.DeepEqual", "read-only comparison"},
	{"reflect.TypeOf", "read-only"},
	{"reflect.ValueOf", "read-only (no Set is performed by heimdall on the result: checked by grep in the check's notes)"},
	{"github.com/go-viper/mapstructure/v2.", "decoders write only into the result pointer, which WithConfig implementations allocate locally"},
	{"(*github.com/go-viper/mapstructure/v2.Decoder).Decode", "writes only into the configured result pointer (locally allocated); reads its input"},
	{"(*github.com/go-playground/validator/v10.Validate).Struct", "validation reads the struct (reflection, no Set)"},
	{"(*sync.RWMutex).RLock", "synchronisation primitive (read side); writes guarded by it are reported separately"},
	{"(*sync.RWMutex).RUnlock", "synchronisation primitive (read side)"},
	{"(*sync.RWMutex).Lock", "synchronisation primitive"},
	{"(*sync.RWMutex).Unlock", "synchronisation primitive"},
	{"(*sync.Mutex).Lock", "synchronisation primitive"},
	{"(*sync.Mutex).Unlock", "synchronisation primitive"},
	{"(*crypto/x509.CertPool).", "AddCert mutates the pool it is called on (reported if that pool is receiver-derived) and only reads the certificate"},
	{"(*crypto/x509.Certificate).Verify", "reads the certificate and the options"},
	{"(*crypto/x509.Certificate).Equal", "read-only"},
	{"crypto/x509.", "parsers / read-only helpers"},
	{"(github.com/go-jose/go-jose/v4.JSONWebKey).", "value receiver, read-only accessors"},
	{"(*github.com/go-jose/go-jose/v4.JSONWebKey).", "Valid/IsPublic/Public/Thumbprint read the key"},
	{"(*github.com/go-jose/go-jose/v4.JSONWebSignature).", "verification reads key material"},
	{"(*github.com/go-jose/go-jose/v4/jwt.JSONWebToken).Claims", "verifies with the key (read) and writes into the destinations, which are locally allocated"},
	{"github.com/go-jose/go-jose/v4.NewSigner", "reads the key material into a new signer"},
	{"github.com/go-jose/go-jose/v4/jwt.", "builders copy their operands"},
	{"(github.com/go-jose/go-jose/v4/jwt.Builder).", "builders are immutable values (each method returns a copy)"},
	{"(*github.com/go-jose/go-jose/v4.SignerOptions).", "called on locally allocated options"},
	{"github.com/tidwall/gjson.", "parsers over strings/bytes, read-only"},
	{"(github.com/tidwall/gjson.Result).", "value receiver, read-only"},
	{"github.com/dadrus/heimdall/internal/x/stringx.ToBytes", "unsafe string->[]byte view used only as hash/Write input"},
	{"(*go.opentelemetry.io/", "telemetry wrappers do not write through request-scoped operands"},
	{"go.opentelemetry.io/", "telemetry wrappers do not write through request-scoped operands"},
	{"github.com/ybbus/httpretry.", "wraps a freshly created client"},
	{"net/http.", "helpers over per-request objects"},
	{"(*net/http.Client).Do", "sends a per-request request object"},
	{"(*net/http.Request).", "per-request object"},
	{"io.", "readers over per-request bodies"},
	{"(io.Reader).Read", "reads into a caller-provided local buffer"},
	{"(io.ReadCloser).", "per-request body"},
	{"(io.Closer).Close", "per-request body"},
	{"strconv.", "pure"},
	{"unicode/utf8.", "pure"},
	{"sort.", "sorts the slice it is given: only ever a locally built slice (a receiver-held slice would be reported by -strict-sort)"},
	{"(error).Error", "error values are immutable after creation"},
	{"(github.com/dadrus/heimdall/internal/x/errorchain.", "error chain builders allocate new chain links; WithErrorContext stores the mechanism pointer without writing through it"},
	{"(*github.com/dadrus/heimdall/internal/x/errorchain.", "error chain builders allocate new chain links; WithErrorContext stores the mechanism pointer without writing through it"},
	{"github.com/dadrus/heimdall/internal/x/errorchain.", "error chain constructors"},
	{"(*github.com/go-jose/go-jose/v4.JSONWebKeySet).Key", "linear read-only lookup returning copies of the matching keys"},
	{"(*github.com/jellydator/ttlcache/v3.Cache[", "the cache stores the reference it is given and never writes through it (values are []byte snapshots)"},
	{"(github.com/dadrus/httpsig.Signer).Sign", "reads the signer's configuration (key, components, ttl, label: all set by NewSigner) and updates only the per-request message; read from signer.go of the pinned version"},
	{"github.com/dadrus/httpsig.MessageFromRequest", "wraps the per-request *http.Request"},
	{"github.com/goccy/go-json.Unmarshal", "copies its input into a private, NUL-terminated buffer before decoding; writes only into the destination, which callers allocate locally"},
	{"github.com/goccy/go-json.NewDecoder", "wraps a per-request reader"},
	{"(*github.com/goccy/go-json.Decoder).Decode", "writes only into the destination, which callers allocate locally"},
	{"encoding/json.Unmarshal", "reads its input; writes only into the destination, which callers allocate locally"},
	{"gopkg.in/yaml.v3.Unmarshal", "reads its input; writes only into the destination, which callers allocate locally"},
	{"(*github.com/google/cel-go/cel.Env).Compile", "cel.Env is immutable after NewEnv/Extend; Compile/Check/Program build new Ast/Program values (lazily built checker state is guarded by sync.Once inside cel-go)"},
	{"(*github.com/google/cel-go/cel.Env).Check", "as Compile"},
	{"(*github.com/google/cel-go/cel.Env).Program", "as Compile"},
	{"(*github.com/google/cel-go/cel.Ast).", "read-only accessors of a freshly compiled Ast"},
	{"(*github.com/google/cel-go/cel.Issues).", "read-only accessors of a freshly created Issues value"},
	{"(crypto/x509/pkix.Name).String", "value receiver, formats the name"},
	{"(*math/big.Int).String", "formats the number"},
	{"(*github.com/Masterminds/sprig", "template functions"},
	{"(*github.com/youmark/pkcs8", "parsers"},
}

// fresh: unanalysed functions whose result is newly allocated memory holding copies of the
// elements of their arguments (a store into the result does not hit the argument's memory).
var fresh = []string{"bytes.Clone", "strings.", "fmt.Sprint"}

func isFresh(name string) bool {
	if g, ok := stdGeneric(name); ok {
		return g.fresh
	}

	for _, f := range fresh {
		if strings.HasPrefix(name, f) {
			return true
		}
	}

	return false
}

// ---------------------------------------------------------------- std generics: slices, maps, iter
//
// The generic functions of the standard packages slices, maps and iter are matched by their EXACT name
// (the instantiation suffix "[...]" is cut off; "slices.Sort" must not match "slices.Sorted").  Their
// contracts are part of the Go 1 compatibility promise and stated in the package documentation:
//
//	pure     reads its arguments only; the result is a scalar, an iterator over the argument, or
//	         (fresh) newly allocated memory holding copies of the elements
//	writer   writes the slice / map that is its FIRST argument in place (an effect when that argument is
//	         receiver-derived); reads the others
//	callback additionally calls a function argument with elements of the first argument: that function is
//	         analysed with receiver-derived parameters; if it is not statically known the call is not
//	         considered harmless
//
// A function of these packages that is not listed is treated like any other unanalysed callee.
type stdGen struct {
	writer, fresh, callback bool
	reason                  string
}

var stdGenerics = map[string]stdGen{
	"slices.All":              {reason: "iterator over the slice; reads"},
	"slices.Values":           {reason: "iterator over the slice; reads"},
	"slices.Backward":         {reason: "iterator over the slice; reads"},
	"slices.Chunk":            {reason: "iterator of sub-slices (aliases, reads)"},
	"slices.Collect":          {fresh: true, reason: "collects the values of an iterator into a new slice"},
	"slices.Sorted":           {fresh: true, reason: "collects into a NEW slice and sorts that"},
	"slices.SortedFunc":       {fresh: true, callback: true, reason: "collects into a NEW slice and sorts that"},
	"slices.SortedStableFunc": {fresh: true, callback: true, reason: "collects into a NEW slice and sorts that"},
	"slices.Clone":            {fresh: true, reason: "allocates a new backing array, reads the source"},
	"slices.Concat":           {fresh: true, reason: "allocates a new slice, reads the sources"},
	"slices.Repeat":           {fresh: true, reason: "allocates a new slice, reads the source"},
	"slices.Contains":         {reason: "read-only scan"},
	"slices.ContainsFunc":     {callback: true, reason: "read-only scan"},
	"slices.Index":            {reason: "read-only scan"},
	"slices.IndexFunc":        {callback: true, reason: "read-only scan"},
	"slices.Equal":            {reason: "read-only comparison"},
	"slices.EqualFunc":        {callback: true, reason: "read-only comparison"},
	"slices.Compare":          {reason: "read-only comparison"},
	"slices.CompareFunc":      {callback: true, reason: "read-only comparison"},
	"slices.BinarySearch":     {reason: "read-only search"},
	"slices.BinarySearchFunc": {callback: true, reason: "read-only search"},
	"slices.Max":              {reason: "read-only scan"},
	"slices.MaxFunc":          {callback: true, reason: "read-only scan"},
	"slices.Min":              {reason: "read-only scan"},
	"slices.MinFunc":          {callback: true, reason: "read-only scan"},
	"slices.IsSorted":         {reason: "read-only scan"},
	"slices.IsSortedFunc":     {callback: true, reason: "read-only scan"},
	"slices.Sort":             {writer: true, reason: "sorts its argument in place"},
	"slices.SortFunc":         {writer: true, callback: true, reason: "sorts its argument in place"},
	"slices.SortStableFunc":   {writer: true, callback: true, reason: "sorts its argument in place"},
	"slices.Reverse":          {writer: true, reason: "reverses its argument in place"},
	"slices.Insert":           {writer: true, reason: "may shift elements of its argument in place"},
	"slices.Delete":           {writer: true, reason: "shifts and zeroes elements of its argument in place"},
	"slices.DeleteFunc":       {writer: true, callback: true, reason: "shifts and zeroes elements of its argument in place"},
	"slices.Replace":          {writer: true, reason: "overwrites elements of its argument in place"},
	"slices.Compact":          {writer: true, reason: "shifts and zeroes elements of its argument in place"},
	"slices.CompactFunc":      {writer: true, callback: true, reason: "shifts and zeroes elements of its argument in place"},
	"slices.Grow":             {writer: true, reason: "may append to (the spare capacity of) its argument"},
	"slices.Clip":             {writer: true, reason: "only re-slices, but listed with the in-place functions to stay on the safe side"},
	"slices.AppendSeq":        {writer: true, reason: "appends into its first argument"},
	"maps.Keys":               {reason: "iterator over the map; reads"},
	"maps.Values":             {reason: "iterator over the map; reads"},
	"maps.All":                {reason: "iterator over the map; reads"},
	"maps.Clone":              {fresh: true, reason: "allocates a new map, reads the source"},
	"maps.Collect":            {fresh: true, reason: "collects the pairs of an iterator into a new map"},
	"maps.Equal":              {reason: "read-only comparison"},
	"maps.EqualFunc":          {callback: true, reason: "read-only comparison"},
	"maps.Copy":               {writer: true, reason: "writes into its first argument (dst)"},
	"maps.Insert":             {writer: true, reason: "writes into its first argument"},
	"maps.DeleteFunc":         {writer: true, callback: true, reason: "deletes from its first argument"},
	"iter.Pull":               {reason: "runs the iterator on demand; reads"},
	"iter.Pull2":              {reason: "runs the iterator on demand; reads"},
}

func stdGeneric(name string) (stdGen, bool) {
	if !strings.HasPrefix(name, "slices.") && !strings.HasPrefix(name, "maps.") && !strings.HasPrefix(name, "iter.") {
		return stdGen{}, false
	}

	base := name
	if i := strings.Index(base, "["); i >= 0 {
		base = base[:i]
	}

	g, ok := stdGenerics[base]

	return g, ok
}

// isIterSig: func(yield func(...) bool) — the shape of iter.Seq / iter.Seq2 (also of unnamed iterator types).
func isIterSig(t types.Type) bool {
	sig, ok := t.Underlying().(*types.Signature)
	if !ok || sig.Params().Len() != 1 || sig.Results().Len() != 0 {
		return false
	}

	y, ok := sig.Params().At(0).Type().Underlying().(*types.Signature)
	if !ok || y.Results().Len() != 1 {
		return false
	}

	b, ok := y.Results().At(0).Type().Underlying().(*types.Basic)

	return ok && b.Kind() == types.Bool
}

// ---------------------------------------------------------------- destination arguments
//
// Callees on the whitelist above are "read-only with respect to their arguments" EXCEPT for the argument(s)
// that are their documented destination: the value decoded into, the buffer read into / appended to, the writer
// printed to.  These are checked first: a receiver-derived (or package-level) value in a destination position is a
// write, whatever the whitelist says about the callee.  (Audit 2026-10-02: json.Unmarshal(b, &a.m),
// io.ReadFull(r, a.buf), strconv.AppendInt(a.scratch[:0], …), fmt.Fprintf(&a.buf, …), errors.As(err, &a.last) were
// not reported.)  Index 0 is the receiver of a method.
type dstEntry struct {
	Name  string // prefix, or exact name (up to an instantiation suffix) if Exact
	Exact bool
	Idx   []int
	From  int // every argument from this index on is a destination (0 = unused)
}

var dstWriters = []dstEntry{
	{Name: "encoding/json.Unmarshal", Exact: true, Idx: []int{1}},
	{Name: "github.com/goccy/go-json.Unmarshal", Idx: []int{1}},
	{Name: "gopkg.in/yaml.v3.Unmarshal", Exact: true, Idx: []int{1}},
	{Name: "(*encoding/json.Decoder).Decode", Exact: true, Idx: []int{1}},
	{Name: "(*github.com/goccy/go-json.Decoder).Decode", Idx: []int{1}},
	{Name: "(*gopkg.in/yaml.v3.Decoder).Decode", Exact: true, Idx: []int{1}},
	{Name: "(*gopkg.in/yaml.v3.Node).Decode", Exact: true, Idx: []int{1}},
	{Name: "errors.As", Exact: true, Idx: []int{1}},
	{Name: "(*github.com/go-jose/go-jose/v4/jwt.JSONWebToken).Claims", Exact: true, From: 2},
	{Name: "(*github.com/go-jose/go-jose/v4/jwt.JSONWebToken).UnsafeClaimsWithoutVerification", Exact: true, From: 1},
	{Name: "(*github.com/go-jose/go-jose/v4.JSONWebKey).UnmarshalJSON", Exact: true, Idx: []int{0}},
	{Name: "(*github.com/go-jose/go-jose/v4.JSONWebKeySet).UnmarshalJSON", Exact: true, Idx: []int{0}},
	{Name: "github.com/go-viper/mapstructure/v2.Decode", Idx: []int{1}},
	{Name: "github.com/go-viper/mapstructure/v2.WeakDecode", Idx: []int{1}},
	{Name: "github.com/go-viper/mapstructure/v2.NewDecoder", Exact: true, Idx: []int{0}},
	{Name: "io.ReadFull", Exact: true, Idx: []int{1}},
	{Name: "io.ReadAtLeast", Exact: true, Idx: []int{1}},
	{Name: "io.Copy", Idx: []int{0}},
	{Name: "io.WriteString", Exact: true, Idx: []int{0}},
	{Name: "(io.Reader).Read", Exact: true, Idx: []int{1}},
	{Name: "(io.ReadCloser).Read", Exact: true, Idx: []int{1}},
	{Name: "(*bytes.Buffer).Read", Idx: []int{0, 1}},
	{Name: "(*bytes.Reader).Read", Idx: []int{0, 1}},
	{Name: "(*strings.Reader).Read", Idx: []int{0, 1}},
	{Name: "(*bufio.Reader).Read", Idx: []int{0, 1}},
	{Name: "fmt.Fprint", Idx: []int{0}},
	{Name: "fmt.Append", Idx: []int{0}},
	{Name: "fmt.Sscan", From: 1},
	{Name: "fmt.Fscan", From: 1},
	{Name: "strconv.Append", Idx: []int{0}},
	{Name: "encoding/hex.Encode", Exact: true, Idx: []int{0}},
	{Name: "encoding/hex.Decode", Exact: true, Idx: []int{0}},
	{Name: "(*encoding/base64.Encoding).Encode", Exact: true, Idx: []int{1}},
	{Name: "(*encoding/base64.Encoding).Decode", Exact: true, Idx: []int{1}},
	{Name: "(*text/template.Template).Execute", Idx: []int{1}},
	{Name: "(*html/template.Template).Execute", Idx: []int{1}},
	{Name: "encoding/binary.Read", Exact: true, Idx: []int{2}},
	{Name: "encoding/binary.Write", Exact: true, Idx: []int{0}},
	{Name: "encoding/binary.Append", Idx: []int{0}},
}

func dstWrites(name string, argIdx int) bool {
	base := name
	if i := strings.Index(base, "["); i > 0 {
		base = base[:i]
	}

	for _, d := range dstWriters {
		if (d.Exact && base != d.Name) || (!d.Exact && !strings.HasPrefix(name, d.Name)) {
			continue
		}

		if d.From > 0 && argIdx >= d.From {
			return true
		}

		for _, i := range d.Idx {
			if i == argIdx {
				return true
			}
		}
	}

	return false
}

func whitelisted(name string, argIdx int, b bits) (bool, string) {
	for _, w := range whitelist {
		if strings.HasPrefix(name, w.Prefix) {
			if argIdx == 0 && b&(P|G) != 0 {
				for _, a0 := range arg0Writers {
					if strings.HasPrefix(name, a0) {
						return false, ""
					}
				}
			}

			return true, w.Reason
		}
	}

	return false, ""
}

// ---------------------------------------------------------------- effects

type Effect struct {
	Kind   string   `json:"kind"`   // Store | MapUpdate | Delete | Clear | CopyInto | AppendInto | GlobalWrite | UnknownCall
	Fn     string   `json:"fn"`     // function in which the instruction occurs
	Detail string   `json:"detail"` // field / callee
	Pos    string   `json:"pos"`    // file:line relative to the repo
	Path   []string `json:"path"`   // call chain from the root method
	CType  string   `json:"ctype"`  // type of the written object (canonical: underlying type)

	ctype  types.Type // type of the object written (struct / slice / map / pointee) or of the escaping argument
	arg    bool       // ctype is an argument handed to unanalysed code (filter by reachability from the argument)
	cfield string     // for a store through a field address: the name of that field of ctype (used by variants.go)
}

func (e Effect) key() string { return e.Kind + "|" + e.Fn + "|" + e.Detail + "|" + e.Pos }

type Method struct {
	Name    string   `json:"name"`
	Effects []Effect `json:"effects"`
	Reach   int      `json:"reach"` // number of function contexts analysed from this root
	// tainted writes dropped because the written object's type does not occur in the receiver's type structure
	Filtered int `json:"type_filtered"`
	filtered []Effect
	why      map[string]string
}

type Row struct {
	Pkg     string   `json:"pkg"`
	Type    string   `json:"type"`
	Kind    string   `json:"kind"`
	Methods []Method `json:"methods"`
	Embeds  []string `json:"embeds"` // named module types reachable through the fields of the mechanism struct
	Top     bool     `json:"top"`    // the receiver reaches an empty interface: type filter disabled
	TopWhy  string   `json:"top_why,omitempty"`
	NTypes  int      `json:"ntypes"`
	Any     []string `json:"any,omitempty"` // empty-interface locations reachable from the receiver
}

// ---------------------------------------------------------------- analysis

type absval struct {
	b  bits
	fn *ssa.Function // statically known function value (closure or func), if any
	fv []bits        // taints of its free variables
}

type ctxKey string

type summary struct {
	effects map[string]Effect
	result  bits
	paramH  []bits // callee stored derived data into memory reachable from parameter i (H and/or HH)
	done    bool
	fnres   *ssa.Function
	fnfv    []bits
}

type analyzer struct {
	prog       *ssa.Program
	fset       *token.FileSet
	repo       string
	sums       map[ctxKey]*summary
	inprog     map[ctxKey]bool
	changed    bool
	implCache  map[string][]*ssa.Function
	modTypes   []types.Type
	usedWL     map[string]string
	contexts   int
	verbose    bool
	descendAll bool

	anyAsserted   map[string]types.Type // types asserted on receiver-derived empty interfaces
	rt            *rtset                // type structure reachable from the mechanism type under analysis
	hitCache      map[string]bool
	hitGen        map[string]int
	fieldSet      map[string]bool            // variants.go: struct fields some module code sets
	closuresBySig map[string][]*ssa.Function // module closures and functions by signature
	runtimeTypes  []types.Type               // every type of the program that is converted to an interface
}

func pointerLike(t types.Type) bool { return ptrLike(t, map[types.Type]bool{}) }

func ptrLike(t types.Type, seen map[types.Type]bool) bool {
	if seen[t] {
		return false
	}

	seen[t] = true

	switch u := t.Underlying().(type) {
	case *types.Basic:
		return u.Kind() == types.UnsafePointer
	case *types.Pointer, *types.Map, *types.Slice, *types.Chan, *types.Signature, *types.Interface:
		return true
	case *types.Struct:
		for i := 0; i < u.NumFields(); i++ {
			if ptrLike(u.Field(i).Type(), seen) {
				return true
			}
		}

		return false
	case *types.Array:
		return ptrLike(u.Elem(), seen)
	case *types.Tuple:
		for i := 0; i < u.Len(); i++ {
			if ptrLike(u.At(i).Type(), seen) {
				return true
			}
		}

		return false
	default:
		return true
	}
}

// mask removes taints a value of type t cannot carry: no taint at all for pointer-free types; no P
// for types that cannot point into the receiver's type structure (type safety).
func (a *analyzer) mask(b bits, t types.Type) bits {
	if b == 0 || t == nil {
		return b
	}

	if !pointerLike(t) {
		return 0
	}

	if b&P != 0 && a.rt != nil && !a.rt.top {
		k := t.String()

		hit, ok := a.hitCache[k]
		if !ok || a.hitGen[k] != a.rt.gen {
			hit = a.rt.directHit(t, map[string]bool{}, 0)
			a.hitCache[k] = hit
			a.hitGen[k] = a.rt.gen
		}

		if !hit {
			b &^= P
		}
	}

	return b
}

func inModule(fn *ssa.Function) bool {
	if fn == nil {
		return false
	}

	p := fn.Package()
	if p == nil && fn.Origin() != nil {
		p = fn.Origin().Package()
	}

	if p == nil {
		// synthetic wrappers / bound methods / instantiations: look at the object
		if fn.Object() != nil && fn.Object().Pkg() != nil {
			return strings.HasPrefix(fn.Object().Pkg().Path(), module)
		}

		if fn.Parent() != nil {
			return inModule(fn.Parent())
		}

		return false
	}

	return strings.HasPrefix(p.Pkg.Path(), module)
}

func (a *analyzer) pos(p token.Pos) string {
	if !p.IsValid() {
		return "?"
	}

	ps := a.fset.Position(p)
	rel, err := filepath.Rel(a.repo, ps.Filename)

	if err != nil || strings.HasPrefix(rel, "..") {
		rel = filepath.Base(filepath.Dir(ps.Filename)) + "/" + filepath.Base(ps.Filename)
	}

	return fmt.Sprintf("%s:%d", rel, ps.Line)
}

func fnName(fn *ssa.Function) string {
	s := fn.String()
	s = strings.ReplaceAll(s, module+"/internal/rules/mechanisms/", "")
	s = strings.ReplaceAll(s, module+"/internal/rules/", "")
	s = strings.ReplaceAll(s, module+"/internal/", "")

	return s
}

func key(fn *ssa.Function, params []absval, fv []bits) ctxKey {
	var sb strings.Builder

	fmt.Fprintf(&sb, "%p", fn)

	for _, p := range params {
		fmt.Fprintf(&sb, ",%d", p.b)

		if p.fn != nil {
			fmt.Fprintf(&sb, "@%p%v", p.fn, p.fv)
		}
	}

	sb.WriteString("|")

	for _, b := range fv {
		fmt.Fprintf(&sb, ",%d", b)
	}

	return ctxKey(sb.String())
}

// analyse returns the summary of fn in the given context.
func (a *analyzer) analyse(fn *ssa.Function, params []absval, fv []bits, depth int) *summary {
	k := key(fn, params, fv)
	if s, ok := a.sums[k]; ok && (s.done || a.inprog[k]) {
		return s
	}

	s := a.sums[k]
	if s == nil {
		s = &summary{effects: map[string]Effect{}, paramH: make([]bits, len(fn.Params))}
		a.sums[k] = s
		a.contexts++
	}

	if depth > 60 {
		s.done = true

		return s
	}

	a.inprog[k] = true
	defer func() { a.inprog[k] = false }()

	fa := &fnAnalysis{a: a, fn: fn, sum: s, vals: map[ssa.Value]absval{}, depth: depth}

	for i, p := range fn.Params {
		if i < len(params) {
			v := params[i]
			v.b = a.mask(v.b, p.Type())
			fa.vals[p] = v
		}
	}

	for i, f := range fn.FreeVars {
		if i < len(fv) {
			fa.vals[f] = absval{b: fv[i]}
		}
	}

	// fixpoint (flow-insensitive)
	for iter := 0; iter < 50; iter++ {
		fa.changed = false

		for _, b := range fn.Blocks {
			for _, ins := range b.Instrs {
				fa.instr(ins)
			}
		}

		if !fa.changed {
			break
		}
	}

	if tr := os.Getenv("EFFECTS_TRACE"); tr != "" && strings.Contains(fn.String(), tr) {
		fmt.Printf("TRACE %s ctx=%s\n", fn.String(), k)

		for _, b := range fn.Blocks {
			for _, ins := range b.Instrs {
				if v, ok := ins.(ssa.Value); ok && fa.vals[v].b != 0 {
					fmt.Printf("   %d  %s = %s   : %s\n", fa.vals[v].b, v.Name(), ins.String(), v.Type())
				}
			}
		}

		for _, p := range fn.Params {
			fmt.Printf("   param %s %d\n", p.Name(), fa.vals[p].b)
		}
	}

	for i, p := range fn.Params {
		var had bits
		if i < len(params) {
			had = params[i].b
		}

		if gained := fa.vals[p].b & (H | HH) &^ had; gained&^s.paramH[i] != 0 {
			s.paramH[i] |= gained
			a.changed = true
		}
	}

	s.done = true

	return s
}

type fnAnalysis struct {
	a       *analyzer
	fn      *ssa.Function
	sum     *summary
	vals    map[ssa.Value]absval
	changed bool
	depth   int

	curField string // set around the effect() call of a field store
}

func (fa *fnAnalysis) get(v ssa.Value) absval {
	switch x := v.(type) {
	case *ssa.Function:
		return absval{fn: x}
	case *ssa.Const, *ssa.Builtin:
		return absval{}
	case *ssa.Global:
		if gTaintable(x) {
			return absval{b: G}
		}

		return absval{}
	}

	return fa.vals[v]
}

func (fa *fnAnalysis) set(v ssa.Value, nv absval) {
	nv.b = fa.a.mask(nv.b, v.Type())
	old := fa.vals[v]
	merged := absval{b: old.b | nv.b, fn: old.fn, fv: old.fv}

	if nv.fn != nil {
		if old.fn == nil {
			merged.fn, merged.fv = nv.fn, nv.fv
		} else if old.fn == nv.fn {
			merged.fv = orBits(old.fv, nv.fv)
		}
		// two different function values flowing into one SSA value: keep the first, the
		// second was already analysed at its creation
	}

	if merged.b != old.b || merged.fn != old.fn || !eqBits(merged.fv, old.fv) {
		fa.vals[v] = merged
		fa.changed = true
	}
}

func orBits(a, b []bits) []bits {
	if len(a) != len(b) {
		return a
	}

	out := make([]bits, len(a))
	for i := range a {
		out[i] = a[i] | b[i]
	}

	return out
}

func eqBits(a, b []bits) bool {
	if len(a) != len(b) {
		return false
	}

	for i := range a {
		if a[i] != b[i] {
			return false
		}
	}

	return true
}

// addH marks the memory v points into as holding receiver-derived pointers.
func (fa *fnAnalysis) addH(v ssa.Value, lvl bits, seen map[ssa.Value]bool) {
	if v == nil || seen[v] {
		return
	}

	seen[v] = true

	switch v.(type) {
	case *ssa.Const, *ssa.Function, *ssa.Builtin, *ssa.Global:
		return
	}

	old := fa.vals[v]
	if old.b|lvl != old.b {
		old.b |= lvl
		fa.vals[v] = old
		fa.changed = true
	}

	switch x := v.(type) {
	case *ssa.FieldAddr:
		fa.addH(x.X, lvl, seen)
	case *ssa.IndexAddr:
		fa.addH(x.X, lvl, seen)
	case *ssa.Slice:
		fa.addH(x.X, lvl, seen)
	case *ssa.ChangeType:
		fa.addH(x.X, lvl, seen)
	case *ssa.Convert:
		fa.addH(x.X, lvl, seen)
	case *ssa.MakeInterface:
		fa.addH(x.X, lvl, seen)
	case *ssa.ChangeInterface:
		fa.addH(x.X, lvl, seen)
	case *ssa.TypeAssert:
		fa.addH(x.X, lvl, seen)
	case *ssa.Phi:
		for _, e := range x.Edges {
			fa.addH(e, lvl, seen)
		}
	case *ssa.UnOp:
		if x.Op == token.MUL {
			fa.addH(x.X, HH|(lvl&GH), seen)
		}
	case *ssa.Extract:
		fa.addH(x.Tuple, lvl, seen)
	case *ssa.Lookup:
		fa.addH(x.X, HH|(lvl&GH), seen)
	}
}

// holdLevel: the taint a memory cell acquires when a value with taint b is stored into it.
func holdLevel(b bits) bits {
	var l bits
	if b&P != 0 {
		l |= H
	}

	if b&(H|HH) != 0 {
		l |= HH
	}

	if b&(G|GH) != 0 {
		l |= GH
	}

	return l
}

func (fa *fnAnalysis) effect(kind, detail string, pos token.Pos, ctype types.Type, arg bool) {
	e := Effect{Kind: kind, Fn: fnName(fa.fn), Detail: detail, Pos: fa.a.pos(pos), ctype: ctype, arg: arg, cfield: fa.curField}
	if ctype != nil {
		e.CType = canon(ctype)
	}

	if _, ok := fa.sum.effects[e.key()]; !ok {
		fa.sum.effects[e.key()] = e
		fa.a.changed = true
	}
}

func baseGlobal(v ssa.Value) *ssa.Global {
	for i := 0; i < 20; i++ {
		switch x := v.(type) {
		case *ssa.Global:
			return x
		case *ssa.FieldAddr:
			v = x.X
		case *ssa.IndexAddr:
			v = x.X
		default:
			return nil
		}
	}

	return nil
}

func fieldName(v ssa.Value) string {
	switch x := v.(type) {
	case *ssa.FieldAddr:
		st, ok := x.X.Type().Underlying().(*types.Pointer).Elem().Underlying().(*types.Struct)
		if ok {
			return fieldName(x.X) + "." + st.Field(x.Field).Name()
		}
	case *ssa.Field:
		st, ok := x.X.Type().Underlying().(*types.Struct)
		if ok {
			return fieldName(x.X) + "." + st.Field(x.Field).Name()
		}
	case *ssa.IndexAddr:
		return fieldName(x.X) + "[]"
	case *ssa.UnOp:
		if x.Op == token.MUL {
			return fieldName(x.X)
		}
	case *ssa.Parameter:
		return x.Name()
	case *ssa.Lookup:
		return fieldName(x.X) + "[k]"
	case *ssa.Slice:
		return fieldName(x.X)
	case *ssa.Phi:
		if len(x.Edges) > 0 {
			return fieldName(x.Edges[0])
		}
	case *ssa.FreeVar:
		return x.Name()
	}

	return "_"
}

func (fa *fnAnalysis) instr(ins ssa.Instruction) {
	switch x := ins.(type) {
	case *ssa.Alloc, *ssa.MakeMap, *ssa.MakeSlice, *ssa.MakeChan:
		// fresh memory; taint arrives through stores (addH)
	case *ssa.FieldAddr:
		v := fa.get(x.X)
		// address: keep bits regardless of the pointee type
		fa.setAddr(x, v.b)
	case *ssa.IndexAddr:
		fa.setAddr(x, fa.get(x.X).b)
	case *ssa.Field:
		fa.set(x, absval{b: fa.get(x.X).b})
	case *ssa.Index:
		fa.set(x, absval{b: fa.get(x.X).b})
	case *ssa.UnOp:
		switch x.Op {
		case token.MUL:
			if g := baseGlobal(x.X); g != nil {
				// a pointer loaded from a package-level variable leads to memory shared by everybody
				if gTaintable(g) {
					fa.set(x, absval{b: G})
				}

				return
			}

			fa.set(x, fa.loadFrom(fa.get(x.X)))
		case token.ARROW:
			fa.set(x, fa.loadFrom(fa.get(x.X)))
		}
	case *ssa.Lookup:
		fa.set(x, fa.loadFrom(fa.get(x.X)))
	case *ssa.Slice:
		fa.set(x, absval{b: fa.get(x.X).b})
	case *ssa.Phi:
		for _, e := range x.Edges {
			fa.set(x, fa.get(e))
		}
	case *ssa.ChangeType:
		fa.set(x, fa.get(x.X))
	case *ssa.Convert:
		fa.set(x, absval{b: fa.get(x.X).b})
	case *ssa.MultiConvert:
		fa.set(x, absval{b: fa.get(x.X).b})
	case *ssa.ChangeInterface:
		fa.set(x, fa.get(x.X))
	case *ssa.MakeInterface:
		fa.set(x, fa.get(x.X))
	case *ssa.SliceToArrayPointer:
		fa.set(x, absval{b: fa.get(x.X).b})
	case *ssa.TypeAssert:
		v := fa.get(x.X)
		fa.set(x, v)

		if it, ok := x.X.Type().Underlying().(*types.Interface); ok && it.NumMethods() == 0 && v.b != 0 {
			if _, isIface := x.AssertedType.Underlying().(*types.Interface); !isIface {
				if _, known := fa.a.anyAsserted[x.AssertedType.String()]; !known {
					fa.a.anyAsserted[x.AssertedType.String()] = x.AssertedType
				}

				if fa.a.rt != nil && len(fa.a.rt.hasAny) > 0 && !fa.a.rt.seen[types.Unalias(x.AssertedType).String()] {
					fa.a.rt.walk(x.AssertedType, "asserted on a receiver-derived empty interface")
					fa.a.rt.gen++
					fa.a.changed = true
				}
			}
		}
	case *ssa.Extract:
		fa.set(x, absval{b: fa.get(x.Tuple).b})
	case *ssa.Range:
		fa.set(x, absval{b: fa.get(x.X).b})
	case *ssa.Next:
		fa.set(x, fa.loadFrom(fa.get(x.Iter)))
	case *ssa.BinOp:
		// arithmetic / comparison / string concatenation: no pointers
	case *ssa.Select:
		var b bits
		for _, st := range x.States {
			if st.Dir == types.RecvOnly {
				b |= fa.loadFrom(fa.get(st.Chan)).b
			}
		}

		fa.set(x, absval{b: b})
	case *ssa.MakeClosure:
		fn, _ := x.Fn.(*ssa.Function)
		fv := make([]bits, len(x.Bindings))

		var u bits

		for i, bnd := range x.Bindings {
			fv[i] = fa.get(bnd).b
			u |= fv[i]
		}

		fa.set(x, absval{b: u, fn: fn, fv: fv})

		if fn != nil {
			// the closure may be invoked by anybody who receives it: analyse it now with untainted arguments
			s := fa.a.analyse(fn, make([]absval, len(fn.Params)), fv, fa.depth+1)
			fa.merge(s, fn, nil)
		}
	case *ssa.Store:
		addr := fa.get(x.Addr)
		val := fa.get(x.Val)

		if g := baseGlobal(x.Addr); g != nil {
			if !isInit(fa.fn) {
				fa.effect("GlobalWrite", g.Pkg.Pkg.Name()+"."+g.Name(), x.Pos(), nil, false)
			}

			return
		}

		if addr.b&P != 0 {
			if f, ok := x.Addr.(*ssa.FieldAddr); ok {
				if st, ok := f.X.Type().Underlying().(*types.Pointer).Elem().Underlying().(*types.Struct); ok {
					fa.curField = st.Field(f.Field).Name()
				}
			}

			fa.effect("Store", fieldName(x.Addr), x.Pos(), containerOf(x.Addr), false)
			fa.curField = ""
		}

		if addr.b&G != 0 && !isInit(fa.fn) {
			fa.effect("GlobalWrite", "store through a package-level pointer: "+fieldName(x.Addr), x.Pos(), nil, false)
		}

		if addr.b&P == 0 {
			if lvl := holdLevel(val.b); lvl != 0 {
				fa.addH(x.Addr, lvl, map[ssa.Value]bool{})
			}
		}

		if val.fn != nil {
			// a function value stored into memory: remembered nowhere, already analysed at creation
			_ = val
		}
	case *ssa.MapUpdate:
		m := fa.get(x.Map)
		if g := globalMap(x.Map); g != nil && !isInit(fa.fn) {
			fa.effect("GlobalWrite", g.Pkg.Pkg.Name()+"."+g.Name()+"[k]", x.Pos(), nil, false)
		}

		if m.b&P != 0 {
			fa.effect("MapUpdate", fieldName(x.Map), x.Pos(), x.Map.Type(), false)
		}

		if m.b&G != 0 && globalMap(x.Map) == nil && !isInit(fa.fn) {
			fa.effect("GlobalWrite", "map update through a package-level pointer: "+fieldName(x.Map), x.Pos(), nil, false)
		}

		if lvl := holdLevel(fa.get(x.Value).b | fa.get(x.Key).b); lvl != 0 && m.b&P == 0 {
			fa.addH(x.Map, lvl, map[ssa.Value]bool{})
		}
	case *ssa.Send:
		if ch := fa.get(x.Chan); ch.b&(P|G) != 0 && !isInit(fa.fn) {
			// a send on a channel held by the mechanism (or a package-level one) hands work to a goroutine that is not
			// analysed from this root: counted as a write
			fa.effect("UnknownCall", "send on shared channel "+fieldName(x.Chan), x.Pos(), nil, false)
		}

		if lvl := holdLevel(fa.get(x.X).b); lvl != 0 && fa.get(x.Chan).b&P == 0 {
			fa.addH(x.Chan, lvl, map[ssa.Value]bool{})
		}
	case *ssa.Call:
		fa.call(x, &x.Call, x.Pos())
	case *ssa.Go:
		fa.call(nil, &x.Call, x.Pos())
	case *ssa.Defer:
		fa.call(nil, &x.Call, x.Pos())
	case *ssa.Return:
		var b bits

		for _, r := range x.Results {
			v := fa.get(r)
			b |= v.b

			if v.fn != nil && len(x.Results) == 1 {
				if fa.sum.fnres == nil {
					fa.sum.fnres, fa.sum.fnfv = v.fn, v.fv
					fa.a.changed = true
				}
			}
		}

		if fa.sum.result|b != fa.sum.result {
			fa.sum.result |= b
			fa.a.changed = true
		}
	}
}

// gTaintable: package-level variables of the MODULE whose value can lead to mutable memory.  Excluded: variables
// of type error (sentinel errors created once with errors.New and only compared), function values (code), and
// variables of other modules (their state is their business; handing it receiver-derived pointers is judged
// by the whitelist).  The analysis is field-insensitive, so without these exclusions every error chain that
// wraps a sentinel would look like shared memory.
func gTaintable(g *ssa.Global) bool {
	if g.Pkg == nil || g.Pkg.Pkg == nil || !strings.HasPrefix(g.Pkg.Pkg.Path(), module) {
		return false
	}

	pt, ok := g.Type().Underlying().(*types.Pointer)
	if !ok {
		return false
	}

	t := pt.Elem()
	if !pointerLike(t) {
		return false
	}

	if _, isFn := t.Underlying().(*types.Signature); isFn {
		return false
	}

	if it, isIf := t.Underlying().(*types.Interface); isIf && it.NumMethods() == 1 && it.Method(0).Name() == "Error" {
		return false
	}

	return true
}

func globalMap(v ssa.Value) *ssa.Global {
	if u, ok := v.(*ssa.UnOp); ok && u.Op == token.MUL {
		return baseGlobal(u.X)
	}

	return nil
}

func isInit(fn *ssa.Function) bool {
	for f := fn; f != nil; f = f.Parent() {
		if f.Name() == "init" || strings.HasPrefix(f.Name(), "init#") {
			return true
		}
	}

	return false
}

func (fa *fnAnalysis) setAddr(v ssa.Value, b bits) {
	old := fa.vals[v]
	if old.b|b != old.b {
		old.b |= b
		fa.vals[v] = old
		fa.changed = true
	}
}

// loadFrom: the taint of a value loaded through a tainted address / container.
func (fa *fnAnalysis) loadFrom(addr absval) absval {
	var b bits
	if addr.b&P != 0 {
		b |= P
	}

	if addr.b&H != 0 {
		b |= P
	}

	if addr.b&HH != 0 {
		b |= H | HH
	}

	if addr.b&(G|GH) != 0 {
		b |= G
	}

	return absval{b: b}
}

func (fa *fnAnalysis) merge(s *summary, callee *ssa.Function, _ []ssa.Value) {
	for k, e := range s.effects {
		if _, ok := fa.sum.effects[k]; !ok {
			e2 := e
			e2.Path = append([]string{fnName(callee)}, e.Path...)

			if len(e2.Path) > 12 {
				e2.Path = e2.Path[:12]
			}

			fa.sum.effects[k] = e2
			fa.a.changed = true
		}
	}
}

func (fa *fnAnalysis) call(res ssa.Value, c *ssa.CallCommon, pos token.Pos) {
	args := make([]absval, 0, len(c.Args)+1)

	var argVals []ssa.Value

	if c.IsInvoke() {
		args = append(args, fa.get(c.Value))
		argVals = append(argVals, c.Value)
	}

	for _, arg := range c.Args {
		args = append(args, fa.get(arg))
		argVals = append(argVals, arg)
	}

	var anyTaint bits

	for i, av := range args {
		anyTaint |= fa.a.mask(av.b, argVals[i].Type())
	}

	setRes := func(v absval) {
		if res != nil {
			fa.set(res, v)
		}
	}

	// builtins
	if b, ok := c.Value.(*ssa.Builtin); ok && !c.IsInvoke() {
		switch b.Name() {
		case "append":
			if len(args) > 0 && args[0].b&P != 0 {
				fa.effect("AppendInto", fieldName(argVals[0]), pos, argVals[0].Type(), false)
			}

			if len(args) > 0 && args[0].b&G != 0 && !isInit(fa.fn) {
				fa.effect("GlobalWrite", "append into a slice reached through a package-level variable: "+fieldName(argVals[0]), pos, nil, false)
			}

			var r bits
			if len(args) > 0 {
				r = args[0].b
			}

			if len(args) > 1 && args[1].b != 0 {
				// elements are copied into the (possibly new) backing array: loading an element of a P or H
				// slice yields P, of an HH slice H|HH
				lvl := holdLevel(fa.loadFrom(args[1]).b)
				r |= lvl

				if len(args) > 0 && args[0].b&P == 0 {
					fa.addH(argVals[0], lvl, map[ssa.Value]bool{})
				}
			}

			setRes(absval{b: r})
		case "copy":
			if len(args) > 0 && args[0].b&P != 0 {
				fa.effect("CopyInto", fieldName(argVals[0]), pos, argVals[0].Type(), false)
			}

			if len(args) > 0 && args[0].b&G != 0 && !isInit(fa.fn) {
				fa.effect("GlobalWrite", "copyinto on memory reached through a package-level variable: "+fieldName(argVals[0]), pos, nil, false)
			}

			if len(args) > 1 && args[1].b != 0 && args[0].b&P == 0 {
				fa.addH(argVals[0], holdLevel(fa.loadFrom(args[1]).b), map[ssa.Value]bool{})
			}
		case "delete":
			if len(args) > 0 && args[0].b&P != 0 {
				fa.effect("Delete", fieldName(argVals[0]), pos, argVals[0].Type(), false)
			}

			if len(args) > 0 && args[0].b&G != 0 && !isInit(fa.fn) {
				fa.effect("GlobalWrite", "delete on memory reached through a package-level variable: "+fieldName(argVals[0]), pos, nil, false)
			}
		case "clear":
			if len(args) > 0 && args[0].b&P != 0 {
				fa.effect("Clear", fieldName(argVals[0]), pos, argVals[0].Type(), false)
			}

			if len(args) > 0 && args[0].b&G != 0 && !isInit(fa.fn) {
				fa.effect("GlobalWrite", "clear on memory reached through a package-level variable: "+fieldName(argVals[0]), pos, nil, false)
			}
		default:
			setRes(absval{})
		}

		return
	}

	var callees []*ssa.Function

	var fvs [][]bits

	switch {
	case c.IsInvoke():
		callees = fa.a.implementations(c)
		for range callees {
			fvs = append(fvs, nil)
		}
	default:
		if fn := c.StaticCallee(); fn != nil {
			callees = []*ssa.Function{fn}

			var fv []bits
			if mc, ok := c.Value.(*ssa.MakeClosure); ok {
				fv = make([]bits, len(mc.Bindings))
				for i, b := range mc.Bindings {
					fv[i] = fa.get(b).b
				}
			}

			fvs = [][]bits{fv}
		} else if v := fa.get(c.Value); v.fn != nil {
			callees = []*ssa.Function{v.fn}
			fvs = [][]bits{v.fv}
		} else if sig, ok := c.Value.Type().Underlying().(*types.Signature); ok {
			// a function value of unknown identity: any module closure or function of this signature;
			// if the value comes from receiver-reachable memory its captured variables are considered
			// receiver-reachable too
			for _, fn := range fa.a.closuresBySig[sigKey(sig)] {
				fv := make([]bits, len(fn.FreeVars))
				for i := range fv {
					fv[i] = v.b
				}

				callees = append(callees, fn)
				fvs = append(fvs, fv)
			}
		}
	}

	name := calleeName(c)

	if len(callees) == 0 {
		// unknown callee
		fa.unknown(name, c, args, argVals, anyTaint, pos, setRes)

		return
	}

	var rb bits

	var rfn *ssa.Function

	var rfv []bits

	for ci, fn := range callees {
		if fn.Blocks == nil || (!fa.a.descendAll && !inModule(fn)) {
			n := fn.String()
			if c.IsInvoke() {
				n = name
			}

			fa.unknown(n, c, args, argVals, anyTaint, pos, func(v absval) { rb |= v.b })

			continue
		}

		if anyTaint == 0 && !hasFn(args) && allZero(fvs[ci]) {
			// nothing receiver-derived flows in: the callee cannot reach receiver memory
			// (global writes inside are still of interest)
			s := fa.a.analyse(fn, make([]absval, len(fn.Params)), fvs[ci], fa.depth+1)
			fa.mergeGlobalsOnly(s, fn)

			continue
		}

		params := args
		if len(params) > len(fn.Params) {
			params = params[:len(fn.Params)]
		}

		s := fa.a.analyse(fn, params, fvs[ci], fa.depth+1)
		fa.merge(s, fn, argVals)
		rb |= s.result

		if s.fnres != nil {
			rfn, rfv = s.fnres, s.fnfv
		}

		for i, h := range s.paramH {
			if h != 0 && i < len(argVals) {
				fa.addH(argVals[i], h, map[ssa.Value]bool{})
			}
		}
	}

	setRes(absval{b: rb, fn: rfn, fv: rfv})
}

func hasFn(args []absval) bool {
	for _, a := range args {
		if a.fn != nil && len(a.fv) > 0 && !allZero(a.fv) {
			return true
		}
	}

	return false
}

func allZero(b []bits) bool {
	for _, x := range b {
		if x != 0 {
			return false
		}
	}

	return true
}

func (fa *fnAnalysis) mergeGlobalsOnly(s *summary, callee *ssa.Function) {
	for k, e := range s.effects {
		if e.Kind != "GlobalWrite" {
			continue
		}

		if _, ok := fa.sum.effects[k]; !ok {
			e2 := e
			e2.Path = append([]string{fnName(callee)}, e.Path...)

			if len(e2.Path) > 12 {
				e2.Path = e2.Path[:12]
			}

			fa.sum.effects[k] = e2
			fa.a.changed = true
		}
	}
}

// sigKey: a signature without receiver and WITHOUT parameter names (types.Signature.String prints the
// names, so `func(_ context.Context, _ map[string]any)` and `func(ctx context.Context, args map[string]any)`
// would otherwise count as different signatures and a closure stored in a named func type would not be
// found as a possible callee).
func sigKey(sig *types.Signature) string {
	var sb strings.Builder

	sb.WriteString("func(")

	for i := 0; i < sig.Params().Len(); i++ {
		if i > 0 {
			sb.WriteString(",")
		}

		if sig.Variadic() && i == sig.Params().Len()-1 {
			sb.WriteString("...")
		}

		sb.WriteString(types.Unalias(sig.Params().At(i).Type()).String())
	}

	sb.WriteString(")(")

	for i := 0; i < sig.Results().Len(); i++ {
		if i > 0 {
			sb.WriteString(",")
		}

		sb.WriteString(types.Unalias(sig.Results().At(i).Type()).String())
	}

	sb.WriteString(")")

	return sb.String()
}

func calleeName(c *ssa.CallCommon) string {
	if c.IsInvoke() {
		return "(" + c.Value.Type().String() + ")." + c.Method.Name()
	}

	if fn := c.StaticCallee(); fn != nil {
		return fn.String()
	}

	if b, ok := c.Value.(*ssa.Builtin); ok {
		return b.Name()
	}

	return "dynamic:" + c.Value.Type().String()
}

func (fa *fnAnalysis) unknown(name string, c *ssa.CallCommon, args []absval, argVals []ssa.Value, anyTaint bits,
	pos token.Pos, setRes func(absval),
) {
	// result conservatively derived from every argument
	var rb bits
	for _, av := range args {
		rb |= av.b
	}

	if isFresh(name) && rb != 0 {
		// a copy: same contents in fresh memory
		nb := rb & (H | HH)
		if rb&P != 0 {
			nb |= H
		}

		rb = nb
	}

	setRes(absval{b: rb})

	iterCall := strings.HasPrefix(name, "dynamic:") && !c.IsInvoke() && isIterSig(c.Value.Type())

	if anyTaint == 0 && !(iterCall && fa.get(c.Value).b != 0) {
		return
	}

	// a function argument handed to code without analysed body is called by it with values derived from the
	// other arguments (callbacks of slices.XxxFunc, the yield function of a range-over-func loop): analyse it with
	// every parameter as tainted as a value loaded from those arguments
	g, isStd := stdGeneric(name)

	if (isStd && g.callback) || iterCall {
		var el bits
		for _, av := range args {
			el |= fa.loadFrom(av).b | av.b
		}

		if iterCall {
			v := fa.get(c.Value)
			el |= fa.loadFrom(v).b | v.b
		}

		for i, av := range args {
			if _, isFn := argVals[i].Type().Underlying().(*types.Signature); !isFn {
				continue
			}

			if av.fn == nil {
				if el != 0 {
					fa.effect("UnknownCall", name+" <- callback of unknown identity "+fieldName(argVals[i]), pos, argVals[i].Type(), true)
				}

				continue
			}

			params := make([]absval, len(av.fn.Params))
			for k := range params {
				params[k] = absval{b: el}
			}

			s := fa.a.analyse(av.fn, params, av.fv, fa.depth+1)
			fa.merge(s, av.fn, nil)
		}
	}

	if iterCall {
		// calling an iterator of unknown identity: if it were module code it would have been found by its
		// signature; an iterator built by code outside the module can reach receiver memory only through the
		// arguments it was built from (judged where it was built) and through yield (analysed above)
		return
	}

	if isStd {
		for i, av := range args {
			m := fa.a.mask(av.b, argVals[i].Type())
			if m == 0 {
				continue
			}

			if _, isFn := argVals[i].Type().Underlying().(*types.Signature); isFn && av.fn != nil {
				continue // analysed above
			}

			if g.writer && i == 0 && m&P != 0 {
				fa.effect("UnknownCall", name+" (writes its first argument in place) <- "+fieldName(argVals[i]), pos, argVals[i].Type(), true)

				continue
			}

			fa.a.usedWL[name] = g.reason
		}

		return
	}

	// only P arguments can be written through to receiver memory
	for i, av := range args {
		if fa.a.mask(av.b, argVals[i].Type()) == 0 {
			continue
		}

		m := fa.a.mask(av.b, argVals[i].Type())

		if dstWrites(name, i) {
			if m&(P|H|HH) != 0 {
				fa.effect("UnknownCall", name+" (writes this argument) <- "+fieldName(argVals[i]), pos, argVals[i].Type(), true)
			}

			if m&(G|GH) != 0 && !isInit(fa.fn) {
				fa.effect("GlobalWrite", name+" (writes this argument) <- package-level "+fieldName(argVals[i]), pos, nil, false)
			}

			continue
		}

		if wl, reason := whitelisted(name, i, m); wl {
			fa.a.usedWL[name] = reason

			continue
		}

		if m&^(G|GH) != 0 {
			fa.effect("UnknownCall", name+" <- "+fieldName(argVals[i]), pos, argVals[i].Type(), true)
		}

		if m&G != 0 && !isInit(fa.fn) {
			fa.effect("GlobalWrite", name+" <- package-level "+fieldName(argVals[i]), pos, nil, false)
		}
	}
}

// implementations: class-hierarchy resolution of an interface method call over the named
// types of the module (and, for interfaces declared outside, whatever module types implement them).
func (a *analyzer) implementations(c *ssa.CallCommon) []*ssa.Function {
	it, ok := c.Value.Type().Underlying().(*types.Interface)
	if !ok {
		return nil
	}

	k := c.Value.Type().String() + "." + c.Method.Name()
	if r, ok := a.implCache[k]; ok {
		return r
	}

	var out []*ssa.Function

	for _, t := range a.modTypes {
		for _, cand := range []types.Type{t, types.NewPointer(t)} {
			if _, isIface := cand.Underlying().(*types.Interface); isIface {
				continue
			}

			if !types.Implements(cand, it) {
				continue
			}

			sel := a.prog.MethodSets.MethodSet(cand).Lookup(c.Method.Pkg(), c.Method.Name())
			if sel == nil {
				continue
			}

			if fn := a.prog.MethodValue(sel); fn != nil {
				out = append(out, fn)
			}

			break
		}
	}

	a.implCache[k] = out

	return out
}

// ---------------------------------------------------------------- type-based filter
//
// A write can only hit memory reachable from the receiver if the written object has a type
// that occurs in the type structure reachable from the receiver type (Go is type safe apart
// from package unsafe, which the module uses only for string<->[]byte views).  The set is
// closed under fields, elements, pointees; an interface contributes every type of the
// program that is ever converted to an interface and implements it; a function type
// contributes the captured variables of every module closure of that signature.  The empty
// interface makes the set universal ("top") and disables the filter for that root.

func canon(t types.Type) string {
	t = types.Unalias(t)
	if _, ok := t.Underlying().(*types.Interface); ok {
		return t.String()
	}

	return t.Underlying().String()
}

func containerOf(addr ssa.Value) types.Type {
	switch x := addr.(type) {
	case *ssa.FieldAddr:
		if p, ok := x.X.Type().Underlying().(*types.Pointer); ok {
			return p.Elem()
		}
	case *ssa.IndexAddr:
		if p, ok := x.X.Type().Underlying().(*types.Pointer); ok {
			return p.Elem() // array
		}

		return x.X.Type() // slice
	}

	if p, ok := addr.Type().Underlying().(*types.Pointer); ok {
		return p.Elem()
	}

	return addr.Type()
}

type rtset struct {
	top    bool
	why    string
	hasAny []string // empty-interface locations reachable from the receiver
	canon  map[string]bool
	conc   []types.Type // concrete types that may sit behind interfaces
	seen   map[string]bool
	a      *analyzer
	whyIn  map[string]string
	leaves map[string]string
	gen    int             // bumped whenever the set grows after construction
	all    []types.Type    // every type walked (an interface VALUE may hold a pointer to any of them that implements it)
	implC  map[string]bool // cache: interface -> some walked type implements it
	implG  int
}

func (a *analyzer) reachTypes(root types.Type) *rtset {
	rt := &rtset{canon: map[string]bool{}, seen: map[string]bool{}, a: a, leaves: map[string]string{}}
	if a.verbose {
		rt.whyIn = map[string]string{}
	}

	rt.walk(root, root.String())

	return rt
}

func (rt *rtset) walk(t types.Type, from string) {
	if rt.top {
		return
	}

	t = types.Unalias(t)
	k := t.String()

	if rt.seen[k] {
		return
	}

	rt.seen[k] = true
	rt.all = append(rt.all, t)

	if !rt.canon[canon(t)] {
		rt.canon[canon(t)] = true
		if rt.whyIn != nil {
			rt.whyIn[canon(t)] = from
		}
	}

	switch u := t.Underlying().(type) {
	case *types.Basic:
	case *types.Pointer:
		rt.walk(u.Elem(), from)
	case *types.Slice:
		rt.walk(u.Elem(), from)
	case *types.Array:
		rt.walk(u.Elem(), from)
	case *types.Chan:
		rt.walk(u.Elem(), from)
	case *types.Map:
		rt.walk(u.Key(), from)
		rt.walk(u.Elem(), from)
	case *types.Struct:
		ext := isExternal(t)

		if reason, leaf := immutableLeaf[t.String()]; leaf {
			rt.leaves[t.String()] = reason

			return
		}

		for i := 0; i < u.NumFields(); i++ {
			if ext && !u.Field(i).Exported() {
				// module code cannot navigate into unexported fields of other modules' types; code of
				// that module can, and calls into it with receiver-derived arguments are UnknownCall effects
				continue
			}

			rt.walk(u.Field(i).Type(), from+"."+u.Field(i).Name())
		}
	case *types.Signature:
		for _, fn := range rt.a.closuresBySig[sigKey(u)] {
			for _, fv := range fn.FreeVars {
				rt.walk(fv.Type(), from+"(closure "+fn.Name()+")")
			}
		}
	case *types.Interface:
		if u.NumMethods() == 0 {
			// the dynamic type is unknown.  Module code can only write such an object after a type
			// assertion; every type asserted on a receiver-derived empty interface is added to the
			// set after the analysis (analyzer.anyAsserted).  Unanalysed code receiving it is an
			// UnknownCall effect.
			rt.hasAny = append(rt.hasAny, from)

			return
		}

		for _, c := range rt.a.runtimeTypes {
			if types.Implements(c, u) {
				rt.conc = append(rt.conc, c)
				rt.walk(c, from+"{"+c.String()+"}")
			}
		}
	case *types.TypeParam:
		rt.top = true
		rt.why = from + " type parameter"
	}
}

// immutableLeaf: types of other modules whose values are immutable by contract once constructed.
// The type itself stays in the set (a field store by module code is still reported) but its
// fields are not followed, so that e.g. []byte or url.URL do not count as receiver-reachable
// merely because a parsed certificate contains them.
var immutableLeaf = map[string]string{
	"crypto/x509.Certificate": "parsed certificates are never mutated by crypto/x509 and are shared read-only " +
		"(heimdall obtains them from x509.ParseCertificate / the PEM key store and only reads them)",
	"github.com/go-jose/go-jose/v4.JSONWebKey": "JWK values are built once from key-store entries (keystore.Entry.JWK) or decoded from a " +
		"JWKS response and afterwards only read, marshalled or handed to go-jose for verification/signing",
}

func isExternal(t types.Type) bool {
	n, ok := t.(*types.Named)

	return ok && n.Obj().Pkg() != nil && !strings.HasPrefix(n.Obj().Pkg().Path(), module)
}

// mayHit: can an object of type t (written directly), or an argument of type t handed to
// unanalysed code, be or reach memory of the receiver's type structure?
func (rt *rtset) mayHit(e Effect) bool {
	if rt.top || e.ctype == nil {
		return true
	}

	if !e.arg {
		return rt.canon[canon(e.ctype)]
	}

	return rt.argMayHit(e.ctype, map[string]bool{}, 0)
}

// directHit: can a value of type t itself be (or, for structs and arrays, directly contain) a
// pointer to an object of the receiver's type structure?
func (rt *rtset) directHit(t types.Type, seen map[string]bool, depth int) bool {
	t = types.Unalias(t)
	if seen[t.String()] || depth > 8 {
		return false
	}

	seen[t.String()] = true

	switch u := t.Underlying().(type) {
	case *types.Basic:
		return u.Kind() == types.UnsafePointer
	case *types.Pointer:
		return rt.canon[canon(u.Elem())]
	case *types.Slice, *types.Map, *types.Chan:
		return rt.canon[canon(t)]
	case *types.Array:
		return rt.directHit(u.Elem(), seen, depth+1)
	case *types.Struct:
		for i := 0; i < u.NumFields(); i++ {
			if pointerLike(u.Field(i).Type()) && rt.directHit(u.Field(i).Type(), seen, depth+1) {
				return true
			}
		}

		return false
	case *types.Interface:
		if u.NumMethods() == 0 {
			return true
		}

		for _, c := range rt.conc {
			if types.Implements(c, u) {
				return true
			}
		}

		return rt.walkedImplements(t, u)
	default:
		return true
	}
}

// walkedImplements: does (a pointer to) some type of the receiver's type structure implement interface u?  A
// concrete field such as `out bytes.Buffer` is converted to io.Writer at the call site (&a.out), which no
// interface-typed field of the structure announces.
func (rt *rtset) walkedImplements(t types.Type, u *types.Interface) bool {
	if rt.implC == nil || rt.implG != len(rt.all) {
		rt.implC, rt.implG = map[string]bool{}, len(rt.all)
	}

	k := t.String()
	if r, ok := rt.implC[k]; ok {
		return r
	}

	r := false

	for _, c := range rt.all {
		if _, isIf := c.Underlying().(*types.Interface); isIf {
			continue
		}

		if types.Implements(c, u) || types.Implements(types.NewPointer(c), u) {
			r = true

			break
		}
	}

	rt.implC[k] = r

	return r
}

func (rt *rtset) argMayHit(t types.Type, seen map[string]bool, depth int) bool {
	t = types.Unalias(t)
	if seen[t.String()] || depth > 8 {
		return false
	}

	seen[t.String()] = true

	switch u := t.Underlying().(type) {
	case *types.Basic:
		return u.Kind() == types.UnsafePointer
	case *types.Pointer:
		return rt.canon[canon(u.Elem())] || rt.argMayHit(u.Elem(), seen, depth+1)
	case *types.Slice:
		return rt.canon[canon(t)] || rt.argMayHit(u.Elem(), seen, depth+1)
	case *types.Map:
		return rt.canon[canon(t)] || rt.argMayHit(u.Elem(), seen, depth+1) || rt.argMayHit(u.Key(), seen, depth+1)
	case *types.Array:
		return rt.argMayHit(u.Elem(), seen, depth+1)
	case *types.Struct:
		for i := 0; i < u.NumFields(); i++ {
			if pointerLike(u.Field(i).Type()) && rt.argMayHit(u.Field(i).Type(), seen, depth+1) {
				return true
			}
		}

		return false
	case *types.Interface:
		if u.NumMethods() == 0 {
			return true
		}

		for _, c := range rt.conc {
			if types.Implements(c, u) {
				return true
			}
		}

		return rt.walkedImplements(t, u)
	default:
		return true
	}
}

// ---------------------------------------------------------------- driver

func main() {
	repo := flag.String("repo", "/repo", "repository root")
	out := flag.String("out", "", "directory for Effects.v (the table) and EffectsOk.v (the Example)")
	jsonOut := flag.String("json", "", "JSON output file")
	verbose := flag.Bool("v", false, "verbose")
	full := flag.Bool("full", false, "type-check and build SSA for every dependency from source (slow; see the comment at packages.Load)")
	whyType := flag.String("why", "", "print how this canonical type gets into each receiver's type structure")
	vtrace := flag.String("vtrace", "", "trace the abstract interpretation of WithConfig of the mechanism types whose name contains this")
	flag.Parse()

	cfg := &packages.Config{
		// The analysis never descends into functions outside the module (they are "unanalysed callees"), so the
		// bodies of dependencies are not needed: by default only the module is loaded from source and the
		// dependencies come from export data (5x less CPU).  What is lost are the types that only dependency
		// code converts to interfaces (ssa.Program.RuntimeTypes); this is compensated below, conservatively, by
		// counting EVERY package-level named type of every loaded package as a possible dynamic type of an
		// interface.  -full restores the old behaviour.
		Mode: func() packages.LoadMode {
			if *full {
				return packages.LoadAllSyntax
			}

			return packages.LoadSyntax
		}(),
		Dir: *repo,
		Env: append(os.Environ(), "GOFLAGS=-mod=mod", "GOPROXY=off", "GOSUMDB=off", "GOTOOLCHAIN=local",
			"GOWORK=off"),
	}

	t0 := time.Now()
	phase := func(n string) {
		if os.Getenv("EFFECTS_TIMING") != "" {
			fmt.Fprintf(os.Stderr, "timing %-10s %6.1fs\n", n, time.Since(t0).Seconds())
		}
	}

	pkgs, err := packages.Load(cfg, "./...")
	if err != nil {
		fmt.Fprintln(os.Stderr, "load:", err)
		os.Exit(2)
	}

	nerr := 0

	packages.Visit(pkgs, nil, func(p *packages.Package) {
		if strings.HasPrefix(p.PkgPath, module) {
			for _, e := range p.Errors {
				fmt.Fprintln(os.Stderr, "package error:", e)
				nerr++
			}
		}
	})

	if nerr > 0 {
		os.Exit(2)
	}

	phase("load")

	var prog *ssa.Program
	if *full {
		prog, _ = ssautil.AllPackages(pkgs, ssa.InstantiateGenerics)
	} else {
		prog, _ = ssautil.Packages(pkgs, ssa.InstantiateGenerics)
	}

	prog.Build()
	phase("ssa")

	a := &analyzer{
		prog: prog, fset: prog.Fset, repo: *repo, sums: map[ctxKey]*summary{}, inprog: map[ctxKey]bool{},
		implCache: map[string][]*ssa.Function{}, usedWL: map[string]string{}, verbose: *verbose,
		anyAsserted: map[string]types.Type{}, hitCache: map[string]bool{}, hitGen: map[string]int{},
	}

	// named types of the module (non-test, non-mock) for class-hierarchy resolution
	for _, p := range prog.AllPackages() {
		if !strings.HasPrefix(p.Pkg.Path(), module) || strings.HasSuffix(p.Pkg.Path(), "/mocks") {
			continue
		}

		for _, m := range p.Members {
			if t, ok := m.(*ssa.Type); ok {
				if _, generic := t.Type().(*types.Named); generic && t.Type().(*types.Named).TypeParams().Len() > 0 {
					continue
				}

				a.modTypes = append(a.modTypes, t.Type())
			}
		}
	}

	sort.Slice(a.modTypes, func(i, j int) bool { return a.modTypes[i].String() < a.modTypes[j].String() })

	// closures and functions of the module by signature (targets of calls through function values)
	a.closuresBySig = map[string][]*ssa.Function{}

	for fn := range ssautil.AllFunctions(prog) {
		if fn.Blocks == nil || !inModule(fn) || fn.Synthetic != "" && fn.Parent() == nil && fn.Object() == nil {
			continue
		}

		if p := fn.Package(); p != nil && strings.HasSuffix(p.Pkg.Path(), "/mocks") {
			continue
		}

		if fn.Parent() == nil && fn.Signature.Recv() != nil {
			continue // methods are reached through method values / interfaces only (bound closures are synthetic)
		}

		k := sigKey(fn.Signature)
		a.closuresBySig[k] = append(a.closuresBySig[k], fn)
	}

	for _, l := range a.closuresBySig {
		sort.Slice(l, func(i, j int) bool { return l[i].String() < l[j].String() })
	}

	seenRT := map[string]bool{}
	addRT := func(t types.Type) {
		if _, isIface := t.Underlying().(*types.Interface); isIface || seenRT[t.String()] {
			return
		}

		seenRT[t.String()] = true
		a.runtimeTypes = append(a.runtimeTypes, t)
	}

	for _, t := range prog.RuntimeTypes() {
		addRT(t)
	}

	// every package-level named, non-generic type (and its pointer) of every loaded package may sit behind an interface
	packages.Visit(pkgs, nil, func(p *packages.Package) {
		if p.Types == nil || strings.HasSuffix(p.PkgPath, "/mocks") {
			return
		}

		sc := p.Types.Scope()
		for _, n := range sc.Names() {
			tn, ok := sc.Lookup(n).(*types.TypeName)
			if !ok || tn.IsAlias() {
				continue
			}

			nt, ok := tn.Type().(*types.Named)
			if !ok || nt.TypeParams().Len() > 0 {
				continue
			}

			addRT(nt)
			addRT(types.NewPointer(nt))
		}
	})

	sort.Slice(a.runtimeTypes, func(i, j int) bool { return a.runtimeTypes[i].String() < a.runtimeTypes[j].String() })

	var rows []Row

	var rowTypes []types.Type

	for _, kd := range kinds {
		path := module + "/internal/rules/mechanisms/" + kd.Pkg
		sp := prog.ImportedPackage(path)

		if sp == nil {
			fmt.Fprintln(os.Stderr, "package not found:", path)
			os.Exit(2)
		}

		im, ok := sp.Members[kd.Iface].(*ssa.Type)
		if !ok {
			fmt.Fprintln(os.Stderr, "interface not found:", kd.Iface)
			os.Exit(2)
		}

		iface := im.Type().Underlying().(*types.Interface)

		var names []string
		for n := range sp.Members {
			names = append(names, n)
		}

		sort.Strings(names)

		for _, n := range names {
			t, ok := sp.Members[n].(*ssa.Type)
			if !ok {
				continue
			}

			if _, isIface := t.Type().Underlying().(*types.Interface); isIface {
				continue
			}

			var recv types.Type

			switch {
			case types.Implements(types.NewPointer(t.Type()), iface):
				recv = types.NewPointer(t.Type())
			default:
				continue
			}

			if types.Implements(t.Type(), iface) {
				recv = t.Type()
			}

			row := Row{Pkg: kd.Pkg, Type: n, Kind: kd.Kind, Embeds: embedded(t.Type())}
			rt := a.reachTypes(types.NewPointer(t.Type()))
			if *whyType != "" {
				if rt.whyIn == nil {
					fmt.Fprintln(os.Stderr, "-why needs -v")
				}

				fmt.Printf("WHY %s.%s: %q in set=%v via %s\n", kd.Pkg, n, *whyType, rt.canon[*whyType], rt.whyIn[*whyType])
			}

			if os.Getenv("EFFECTS_TYPES") == n {
				var ks []string
				for k := range rt.canon {
					ks = append(ks, k)
				}

				sort.Strings(ks)

				for _, k := range ks {
					fmt.Println("TYPE", k)
				}
			}

			a.rt = rt
			a.sums = map[ctxKey]*summary{}
			a.implCache = map[string][]*ssa.Function{}
			row.Top = rt.top
			row.TopWhy = rt.why
			row.Any = rt.hasAny
			row.NTypes = len(rt.canon)
			ms := prog.MethodSets.MethodSet(types.NewPointer(t.Type()))
			_ = recv

			for i := 0; i < ms.Len(); i++ {
				sel := ms.At(i)
				fn := prog.MethodValue(sel)

				if fn == nil {
					continue
				}

				// iterate the whole-program fixpoint for this root
				var s *summary

				before := a.contexts

				for round := 0; round < 20; round++ {
					a.changed = false
					for k, sm := range a.sums {
						_ = k
						sm.done = false
					}

					params := make([]absval, len(fn.Params))
					params[0] = absval{b: P}
					s = a.analyse(fn, params, nil, 0)

					if !a.changed {
						break
					}
				}

				m := Method{Name: sel.Obj().Name(), Reach: a.contexts - before}
				for _, e := range s.effects {
					if !rt.mayHit(e) {
						m.Filtered++

						if *verbose {
							m.filtered = append(m.filtered, e)
						}

						continue
					}

					m.Effects = append(m.Effects, e)

					if rt.whyIn != nil && e.ctype != nil {
						if m.why == nil {
							m.why = map[string]string{}
						}

						m.why[e.key()] = rt.whyIn[canon(e.ctype)]
					}
				}

				sort.Slice(m.Effects, func(i, j int) bool { return m.Effects[i].key() < m.Effects[j].key() })
				row.Methods = append(row.Methods, m)
			}

			rows = append(rows, row)
			rowTypes = append(rowTypes, t.Type())
		}
	}

	phase("analysis")

	// second half: how WithConfig builds the instance it returns (variants.go)
	var vrows []VRow

	for i, r := range rows {
		a.rt = nil
		vrows = append(vrows, a.variantRow(rowTypes[i], r, *vtrace != "" && strings.Contains(r.Type, *vtrace)))
	}

	phase("variants")

	if *jsonOut != "" {
		b, _ := json.MarshalIndent(map[string]any{"rows": rows, "variants": vrows, "whitelist_used": a.usedWL}, "", " ")
		if err := os.WriteFile(*jsonOut, b, 0o644); err != nil {
			fmt.Fprintln(os.Stderr, err)
			os.Exit(2)
		}
	}

	if *verbose {
		for _, r := range rows {
			for _, m := range r.Methods {
				fmt.Printf("%s.%s.%s reach=%d effects=%d filtered=%d top=%v %s\n", r.Pkg, r.Type, m.Name, m.Reach, len(m.Effects),
					m.Filtered, r.Top, r.TopWhy)

				for _, e := range m.filtered {
					fmt.Printf("    (filtered) %-11s %s  %s  @%s  [%s]\n", e.Kind, e.Fn, e.Detail, e.Pos, e.CType)
				}

				for _, e := range m.Effects {
					fmt.Printf("    %-11s %s  %s  @%s  via %s\n        [%s in receiver type structure via %s]\n", e.Kind, e.Fn, e.Detail, e.Pos,
						strings.Join(e.Path, " > "), e.CType, m.why[e.key()])
				}
			}
		}

		var wl []string
		for k := range a.usedWL {
			wl = append(wl, k)
		}

		sort.Strings(wl)

		for _, k := range wl {
			fmt.Printf("whitelisted: %s  -- %s\n", k, a.usedWL[k])
		}
	}

	if *out != "" {
		if err := os.WriteFile(filepath.Join(*out, "Effects.v"), []byte(renderCoq(rows, a.usedWL)), 0o644); err != nil {
			fmt.Fprintln(os.Stderr, err)
			os.Exit(2)
		}

		ok := "(* GENERATED by harness/tools/effects — do not edit. *)\n" +
			"From HV Require Import Base.Prelude C17.Model Gen.Effects.\n\n" +
			"(** no method of any mechanism type has a receiver-write effect in the table extracted from the current source *)\n" +
			"Example effects_read_only : forallb row_ok generated_table = true.\nProof. vm_compute. reflexivity. Qed.\n\n" +
			"(** the table has rows for at least ten mechanism types, each with an Execute and a WithConfig method *)\n" +
			"Example table_covers_mechanisms :\n  List.length generated_table >= 10 /\\\n" +
			"  forallb (fun r => match may_write r \"Execute\", may_write r \"WithConfig\" with\n" +
			"                    | Some _, Some _ => true | _, _ => false end) generated_table = true.\n" +
			"Proof. split; [vm_compute; lia|vm_compute; reflexivity]. Qed.\n"
		if err := os.WriteFile(filepath.Join(*out, "EffectsOk.v"), []byte(ok), 0o644); err != nil {
			fmt.Fprintln(os.Stderr, err)
			os.Exit(2)
		}

		if err := os.WriteFile(filepath.Join(*out, "Variants.v"), []byte(renderVariants(vrows)), 0o644); err != nil {
			fmt.Fprintln(os.Stderr, err)
			os.Exit(2)
		}
	}
}

// embedded lists the named module types reachable through the fields of t.
func embedded(t types.Type) []string {
	seen := map[string]bool{}

	var walk func(t types.Type, depth int)

	walk = func(t types.Type, depth int) {
		if depth > 6 {
			return
		}

		if n, ok := t.(*types.Named); ok && n.Obj().Pkg() != nil && strings.HasPrefix(n.Obj().Pkg().Path(), module) {
			s := n.Obj().Pkg().Name() + "." + n.Obj().Name()
			if seen[s] {
				return
			}

			if depth > 0 {
				seen[s] = true
			}
		}

		switch u := t.Underlying().(type) {
		case *types.Struct:
			for i := 0; i < u.NumFields(); i++ {
				walk(u.Field(i).Type(), depth+1)
			}
		case *types.Pointer:
			walk(u.Elem(), depth)
		case *types.Slice:
			walk(u.Elem(), depth)
		case *types.Array:
			walk(u.Elem(), depth)
		case *types.Map:
			walk(u.Key(), depth)
			walk(u.Elem(), depth)
		}
	}

	walk(t, 0)

	var out []string
	for s := range seen {
		out = append(out, s)
	}

	sort.Strings(out)

	return out
}

func coqStr(s string) string { return `"` + strings.ReplaceAll(s, `"`, `""`) + `"` }

func renderCoq(rows []Row, wl map[string]string) string {
	var sb strings.Builder

	sb.WriteString("(* GENERATED by harness/tools/effects from the current source of /repo — do not edit. *)\n")
	sb.WriteString("From HV Require Import Base.Prelude C17.Model.\nOpen Scope string_scope.\nOpen Scope list_scope.\n\n")
	sb.WriteString("Definition generated_table : list mech_row := [\n")

	for i, r := range rows {
		fmt.Fprintf(&sb, "  mk_row %s %s %s [", coqStr(r.Pkg), coqStr(r.Type), r.Kind)

		for j, e := range r.Embeds {
			if j > 0 {
				sb.WriteString("; ")
			}

			sb.WriteString(coqStr(e))
		}

		sb.WriteString("] [\n")

		for j, m := range r.Methods {
			fmt.Fprintf(&sb, "    mk_meth %s [", coqStr(m.Name))

			for k, e := range m.Effects {
				if k > 0 {
					sb.WriteString(";")
				}

				fmt.Fprintf(&sb, "\n      mk_eff %s %s %s %s", "E"+e.Kind, coqStr(e.Fn), coqStr(e.Detail), coqStr(e.Pos))
			}

			sb.WriteString("]")

			if j < len(r.Methods)-1 {
				sb.WriteString(";")
			}

			sb.WriteString("\n")
		}

		sb.WriteString("  ]")

		if i < len(rows)-1 {
			sb.WriteString(";")
		}

		sb.WriteString("\n")
	}

	sb.WriteString("].\n\n")

	var keys []string
	for k := range wl {
		keys = append(keys, k)
	}

	sort.Strings(keys)
	sb.WriteString("(* callees without analysed body that received receiver-derived pointers and are trusted read-only:\n")

	for _, k := range keys {
		fmt.Fprintf(&sb, "   %s -- %s\n", strings.ReplaceAll(k, "(*", "( *"), strings.ReplaceAll(strings.ReplaceAll(wl[k], "*)", "* )"), "(*", "( *"))
	}

	sb.WriteString("*)\n")

	return sb.String()
}
