// Command effects extracts, from the CURRENT source of dadrus/heimdall, a
// receiver-write effect table for every mechanism type (authenticators,
// authorizers, contextualizers, finalizers, error handlers) and renders it as a
// Coq file (coq/Gen/Effects.v) for property C17.
//
// For every method in the method set of every mechanism type it computes the
// set of instructions, reachable over static callees, class-hierarchy-resolved
// interface calls and closures, that may WRITE memory reachable from the
// receiver:  Store through a receiver-derived address, MapUpdate / delete /
// clear / copy-into / append-into a receiver-derived map or slice, a write to a
// package-level variable, and calls into code without analysable body that
// receive a receiver-derived pointer-like argument (counted as writes unless
// the callee is whitelisted below, each entry with a written reason).
//
// The analysis is a flow-insensitive, context-sensitive (per tuple of argument
// taints) taint propagation over go/ssa.  Two taint bits per SSA value:
//
//	P  the value is, or contains, a pointer into memory reachable from the receiver
//	H  the value is, or contains, a pointer to memory allocated by the method itself
//	   into which P values have been stored (a load through it yields P)
//
// Values of types that cannot carry a pointer to mutable memory (numbers,
// booleans, strings and structs/arrays of those) are never tainted.
//
// Usage: effects -repo /repo -out /verif/coq/Gen/Effects.v [-json out.json] [-v]
package main

import (
	"encoding/json"
	"flag"
	"fmt"
	"go/token"
	"go/types"
	"os"
	"path/filepath"
	"sort"
	"strings"

	"golang.org/x/tools/go/packages"
	"golang.org/x/tools/go/ssa"
	"golang.org/x/tools/go/ssa/ssautil"
)

const module = "github.com/dadrus/heimdall"

// mechanism kinds: package (relative to internal/rules/mechanisms) and interface name.
var kinds = []struct{ Pkg, Iface, Kind string }{
	{"authenticators", "Authenticator", "KAuthenticator"},
	{"authorizers", "Authorizer", "KAuthorizer"},
	{"contextualizers", "Contextualizer", "KContextualizer"},
	{"finalizers", "Finalizer", "KFinalizer"},
	{"errorhandlers", "ErrorHandler", "KErrorHandler"},
}

type bits uint8

const (
	P bits = 1
	H bits = 2
)

// ---------------------------------------------------------------- whitelist

// Calls into code that is not analysed (no SSA body, or outside the module and
// not descended into) that receive a receiver-derived pointer-like argument are
// writes unless the callee matches one of these prefixes.  Every entry carries
// the reason it is considered read-only with respect to its arguments.
var whitelist = []struct{ Prefix, Reason string }{
	{"fmt.", "formatting functions only read their operands (reflection based, no Set calls)"},
	{"errors.", "errors.Is/As/Unwrap/New/Join read the chain; As writes only to its target, which callers allocate locally"},
	{"strings.", "pure functions over strings / read-only over slices"},
	{"bytes.", "bytes.NewBuffer*/Equal/Contains take ownership of or read the slice; heimdall passes fresh or immutable data"},
	{"slices.Contains", "read-only scan"},
	{"slices.Index", "read-only scan"},
	{"slices.Equal", "read-only scan"},
	{"slices.Clone", "allocates a new backing array, reads the source"},
	{"maps.Clone", "allocates a new map, reads the source"},
	{"maps.Keys", "read-only iteration"},
	{"maps.Values", "read-only iteration"},
	{"len", "builtin, read-only"},
	{"cap", "builtin, read-only"},
	{"print", "builtin, read-only"},
	{"min", "builtin"},
	{"max", "builtin"},
	{"new", "builtin, allocates"},
	{"panic", "builtin, reads its operand"},
	{"recover", "builtin"},
	{"ssa:wrapnilchk", "ssa intrinsic, returns its operand"},
	{"(*text/template.Template).Execute", "text/template: 'A template may be executed safely in parallel' (package doc)"},
	{"(*text/template.Template).Funcs", "only called on freshly created templates (reported if the receiver is shared: kept for visibility)"},
	{"(*regexp.Regexp).", "regexp.Regexp 'is safe for concurrent use by multiple goroutines, except for configuration methods' (package doc); Longest is not used by heimdall"},
	{"(github.com/google/cel-go/cel.Program).Eval", "cel-go: 'Programs are ... safe for concurrent evaluation' (Program doc); Eval reads the program"},
	{"(github.com/google/cel-go/cel.Program).ContextEval", "as Eval"},
	{"(github.com/gobwas/glob.Glob).Match", "compiled globs are immutable matchers (value types over strings)"},
	{"(*github.com/rs/zerolog.", "zerolog events/contexts copy or format their operands into a private buffer"},
	{"(github.com/rs/zerolog.", "zerolog events/contexts copy or format their operands into a private buffer"},
	{"github.com/rs/zerolog.", "logger lookup; reads"},
	{"github.com/goccy/go-json.Marshal", "reflection-based encoder, reads its operand"},
	{"encoding/json.Marshal", "reflection-based encoder, reads its operand"},
	{"(*encoding/json.Encoder).Encode", "reflection-based encoder, reads its operand"},
	{"(*github.com/goccy/go-json.Encoder).Encode", "reflection-based encoder, reads its operand"},
	{"(hash.Hash).Write", "hash.Hash.Write reads p (io.Writer contract: 'Write must not modify the slice data')"},
	{"(io.Writer).Write", "io.Writer contract: 'Write must not modify the slice data, even temporarily'"},
	{"(*bytes.Buffer).Write", "copies p into its own buffer"},
	{"(*strings.Builder).Write", "copies into its own buffer"},
	{"crypto/sha256.Sum256", "reads its operand"},
	{"crypto/subtle.ConstantTimeCompare", "reads its operands"},
	{"encoding/hex.EncodeToString", "reads its operand"},
	{"encoding/base64.", "encoders read their operand"},
	{"(*encoding/base64.Encoding).EncodeToString", "reads its operand"},
	{"(time.Time).", "time.Time value methods are read-only; *Location is immutable after load"},
	{"(time.Duration).", "value methods"},
	{"time.", "time package functions do not retain or write operands"},
	{"net/http.NewRequestWithContext", "stores the context and body reader in a new request; reads the strings"},
	{"context.With", "derives a new context, stores the value pointer without writing through it"},
	{"(context.Context).", "context accessors are read-only"},
	{"net/url.", "parsers/escapers over strings"},
	{"(*net/url.URL).", "only called on URLs created per request"},
	{"(net/url.Values).", "only called on values created per request"},
	{"(net/http.Header).", "only called on per-request headers (a receiver-held header map would be reported as MapUpdate by the module-level code writing it)"},
	{"reflect.DeepEqual", "read-only comparison"},
	{"reflect.TypeOf", "read-only"},
	{"reflect.ValueOf", "read-only (no Set is performed by heimdall on the result: checked by grep in the check's notes)"},
	{"github.com/go-viper/mapstructure/v2.", "decoders write only into the result pointer, which WithConfig implementations allocate locally"},
	{"(*github.com/go-viper/mapstructure/v2.Decoder).Decode", "writes only into the configured result pointer (locally allocated); reads its input"},
	{"(*github.com/go-playground/validator/v10.Validate).Struct", "validation reads the struct (reflection, no Set)"},
	{"(*sync.RWMutex).RLock", "synchronisation primitive (read side); writes guarded by it are reported separately"},
	{"(*sync.RWMutex).RUnlock", "synchronisation primitive (read side)"},
	{"(*sync.RWMutex).Lock", "synchronisation primitive"},
	{"(*sync.RWMutex).Unlock", "synchronisation primitive"},
	{"(*sync.Mutex).Lock", "synchronisation primitive"},
	{"(*sync.Mutex).Unlock", "synchronisation primitive"},
	{"(*crypto/x509.CertPool).", "CertPool is only read after construction (AddCert is not reachable: would be reported through module code)"},
	{"(*crypto/x509.Certificate).Verify", "reads the certificate and the options"},
	{"(*crypto/x509.Certificate).Equal", "read-only"},
	{"crypto/x509.", "parsers / read-only helpers"},
	{"(github.com/go-jose/go-jose/v4.JSONWebKey).", "value receiver, read-only accessors"},
	{"(*github.com/go-jose/go-jose/v4.JSONWebKey).", "Valid/IsPublic/Public/Thumbprint read the key"},
	{"(*github.com/go-jose/go-jose/v4.JSONWebSignature).", "verification reads key material"},
	{"(*github.com/go-jose/go-jose/v4/jwt.JSONWebToken).Claims", "verifies with the key (read) and writes into the destinations, which are locally allocated"},
	{"github.com/go-jose/go-jose/v4.NewSigner", "reads the key material into a new signer"},
	{"github.com/go-jose/go-jose/v4/jwt.", "builders copy their operands"},
	{"(github.com/go-jose/go-jose/v4/jwt.Builder).", "builders are immutable values (each method returns a copy)"},
	{"(*github.com/go-jose/go-jose/v4.SignerOptions).", "called on locally allocated options"},
	{"github.com/tidwall/gjson.", "parsers over strings/bytes, read-only"},
	{"(github.com/tidwall/gjson.Result).", "value receiver, read-only"},
	{"github.com/dadrus/heimdall/internal/x/stringx.ToBytes", "unsafe string->[]byte view used only as hash/Write input"},
	{"(*go.opentelemetry.io/", "telemetry wrappers do not write through request-scoped operands"},
	{"go.opentelemetry.io/", "telemetry wrappers do not write through request-scoped operands"},
	{"github.com/ybbus/httpretry.", "wraps a freshly created client"},
	{"net/http.", "helpers over per-request objects"},
	{"(*net/http.Client).Do", "sends a per-request request object"},
	{"(*net/http.Request).", "per-request object"},
	{"io.", "readers over per-request bodies"},
	{"(io.Reader).Read", "reads into a caller-provided local buffer"},
	{"(io.ReadCloser).", "per-request body"},
	{"(io.Closer).Close", "per-request body"},
	{"strconv.", "pure"},
	{"unicode/utf8.", "pure"},
	{"sort.", "sorts the slice it is given: only ever a locally built slice (a receiver-held slice would be reported by -strict-sort)"},
	{"(error).Error", "error values are immutable after creation"},
	{"(github.com/dadrus/heimdall/internal/x/errorchain.", "error chain builders allocate new chain links; WithErrorContext stores the mechanism pointer without writing through it"},
	{"(*github.com/dadrus/heimdall/internal/x/errorchain.", "error chain builders allocate new chain links; WithErrorContext stores the mechanism pointer without writing through it"},
	{"github.com/dadrus/heimdall/internal/x/errorchain.", "error chain constructors"},
	{"(*github.com/Masterminds/sprig", "template functions"},
	{"(*github.com/youmark/pkcs8", "parsers"},
}

func whitelisted(name string) (bool, string) {
	for _, w := range whitelist {
		if strings.HasPrefix(name, w.Prefix) {
			return true, w.Reason
		}
	}

	return false, ""
}

// ---------------------------------------------------------------- effects

type Effect struct {
	Kind   string   `json:"kind"`   // Store | MapUpdate | Delete | Clear | CopyInto | AppendInto | GlobalWrite | UnknownCall
	Fn     string   `json:"fn"`     // function in which the instruction occurs
	Detail string   `json:"detail"` // field / callee
	Pos    string   `json:"pos"`    // file:line relative to the repo
	Path   []string `json:"path"`   // call chain from the root method
}

func (e Effect) key() string { return e.Kind + "|" + e.Fn + "|" + e.Detail + "|" + e.Pos }

type Method struct {
	Name    string   `json:"name"`
	Effects []Effect `json:"effects"`
	Reach   int      `json:"reach"` // number of function contexts analysed from this root
}

type Row struct {
	Pkg     string   `json:"pkg"`
	Type    string   `json:"type"`
	Kind    string   `json:"kind"`
	Methods []Method `json:"methods"`
	Embeds  []string `json:"embeds"` // named module types reachable through the fields of the mechanism struct
}

// ---------------------------------------------------------------- analysis

type absval struct {
	b  bits
	fn *ssa.Function // statically known function value (closure or func), if any
	fv []bits        // taints of its free variables
}

type ctxKey string

type summary struct {
	effects map[string]Effect
	result  bits
	paramH  []bool // callee stored derived data into memory reachable from parameter i
	done    bool
	fnres   *ssa.Function
	fnfv    []bits
}

type analyzer struct {
	prog       *ssa.Program
	fset       *token.FileSet
	repo       string
	sums       map[ctxKey]*summary
	inprog     map[ctxKey]bool
	changed    bool
	implCache  map[string][]*ssa.Function
	modTypes   []types.Type
	usedWL     map[string]string
	contexts   int
	verbose    bool
	descendAll bool
}

func pointerLike(t types.Type) bool { return ptrLike(t, map[types.Type]bool{}) }

func ptrLike(t types.Type, seen map[types.Type]bool) bool {
	if seen[t] {
		return false
	}

	seen[t] = true

	switch u := t.Underlying().(type) {
	case *types.Basic:
		return u.Kind() == types.UnsafePointer
	case *types.Pointer, *types.Map, *types.Slice, *types.Chan, *types.Signature, *types.Interface:
		return true
	case *types.Struct:
		for i := 0; i < u.NumFields(); i++ {
			if ptrLike(u.Field(i).Type(), seen) {
				return true
			}
		}

		return false
	case *types.Array:
		return ptrLike(u.Elem(), seen)
	case *types.Tuple:
		for i := 0; i < u.Len(); i++ {
			if ptrLike(u.At(i).Type(), seen) {
				return true
			}
		}

		return false
	default:
		return true
	}
}

func mask(b bits, t types.Type) bits {
	if b == 0 || t == nil {
		return b
	}

	if !pointerLike(t) {
		return 0
	}

	return b
}

func inModule(fn *ssa.Function) bool {
	if fn == nil {
		return false
	}

	p := fn.Package()
	if p == nil && fn.Origin() != nil {
		p = fn.Origin().Package()
	}

	if p == nil {
		// synthetic wrappers / bound methods / instantiations: look at the object
		if fn.Object() != nil && fn.Object().Pkg() != nil {
			return strings.HasPrefix(fn.Object().Pkg().Path(), module)
		}

		if fn.Parent() != nil {
			return inModule(fn.Parent())
		}

		return false
	}

	return strings.HasPrefix(p.Pkg.Path(), module)
}

func (a *analyzer) pos(p token.Pos) string {
	if !p.IsValid() {
		return "?"
	}

	ps := a.fset.Position(p)
	rel, err := filepath.Rel(a.repo, ps.Filename)

	if err != nil || strings.HasPrefix(rel, "..") {
		rel = filepath.Base(filepath.Dir(ps.Filename)) + "/" + filepath.Base(ps.Filename)
	}

	return fmt.Sprintf("%s:%d", rel, ps.Line)
}

func fnName(fn *ssa.Function) string {
	s := fn.String()
	s = strings.ReplaceAll(s, module+"/internal/rules/mechanisms/", "")
	s = strings.ReplaceAll(s, module+"/internal/rules/", "")
	s = strings.ReplaceAll(s, module+"/internal/", "")

	return s
}

func key(fn *ssa.Function, params []absval, fv []bits) ctxKey {
	var sb strings.Builder

	fmt.Fprintf(&sb, "%p", fn)

	for _, p := range params {
		fmt.Fprintf(&sb, ",%d", p.b)

		if p.fn != nil {
			fmt.Fprintf(&sb, "@%p%v", p.fn, p.fv)
		}
	}

	sb.WriteString("|")

	for _, b := range fv {
		fmt.Fprintf(&sb, ",%d", b)
	}

	return ctxKey(sb.String())
}

// analyse returns the summary of fn in the given context.
func (a *analyzer) analyse(fn *ssa.Function, params []absval, fv []bits, depth int) *summary {
	k := key(fn, params, fv)
	if s, ok := a.sums[k]; ok && (s.done || a.inprog[k]) {
		return s
	}

	s := a.sums[k]
	if s == nil {
		s = &summary{effects: map[string]Effect{}, paramH: make([]bool, len(fn.Params))}
		a.sums[k] = s
		a.contexts++
	}

	if depth > 60 {
		s.done = true

		return s
	}

	a.inprog[k] = true
	defer func() { a.inprog[k] = false }()

	fa := &fnAnalysis{a: a, fn: fn, sum: s, vals: map[ssa.Value]absval{}, depth: depth}

	for i, p := range fn.Params {
		if i < len(params) {
			v := params[i]
			v.b = mask(v.b, p.Type())
			fa.vals[p] = v
		}
	}

	for i, f := range fn.FreeVars {
		if i < len(fv) {
			fa.vals[f] = absval{b: fv[i]}
		}
	}

	// fixpoint (flow-insensitive)
	for iter := 0; iter < 50; iter++ {
		fa.changed = false

		for _, b := range fn.Blocks {
			for _, ins := range b.Instrs {
				fa.instr(ins)
			}
		}

		if !fa.changed {
			break
		}
	}

	for i, p := range fn.Params {
		if fa.vals[p].b&H != 0 && (i >= len(params) || params[i].b&H == 0) {
			if !s.paramH[i] {
				s.paramH[i] = true
				a.changed = true
			}
		}
	}

	s.done = true

	return s
}

type fnAnalysis struct {
	a       *analyzer
	fn      *ssa.Function
	sum     *summary
	vals    map[ssa.Value]absval
	changed bool
	depth   int
}

func (fa *fnAnalysis) get(v ssa.Value) absval {
	switch x := v.(type) {
	case *ssa.Function:
		return absval{fn: x}
	case *ssa.Const, *ssa.Builtin:
		return absval{}
	case *ssa.Global:
		return absval{}
	}

	return fa.vals[v]
}

func (fa *fnAnalysis) set(v ssa.Value, nv absval) {
	nv.b = mask(nv.b, v.Type())
	old := fa.vals[v]
	merged := absval{b: old.b | nv.b, fn: old.fn, fv: old.fv}

	if nv.fn != nil {
		if old.fn == nil {
			merged.fn, merged.fv = nv.fn, nv.fv
		} else if old.fn == nv.fn {
			merged.fv = orBits(old.fv, nv.fv)
		}
		// two different function values flowing into one SSA value: keep the first, the
		// second was already analysed at its creation
	}

	if merged.b != old.b || merged.fn != old.fn || !eqBits(merged.fv, old.fv) {
		fa.vals[v] = merged
		fa.changed = true
	}
}

func orBits(a, b []bits) []bits {
	if len(a) != len(b) {
		return a
	}

	out := make([]bits, len(a))
	for i := range a {
		out[i] = a[i] | b[i]
	}

	return out
}

func eqBits(a, b []bits) bool {
	if len(a) != len(b) {
		return false
	}

	for i := range a {
		if a[i] != b[i] {
			return false
		}
	}

	return true
}

// addH marks the memory v points into as holding receiver-derived pointers.
func (fa *fnAnalysis) addH(v ssa.Value, seen map[ssa.Value]bool) {
	if v == nil || seen[v] {
		return
	}

	seen[v] = true

	switch v.(type) {
	case *ssa.Const, *ssa.Function, *ssa.Builtin, *ssa.Global:
		return
	}

	old := fa.vals[v]
	if old.b&H == 0 {
		old.b |= H
		fa.vals[v] = old
		fa.changed = true
	}

	switch x := v.(type) {
	case *ssa.FieldAddr:
		fa.addH(x.X, seen)
	case *ssa.IndexAddr:
		fa.addH(x.X, seen)
	case *ssa.Slice:
		fa.addH(x.X, seen)
	case *ssa.ChangeType:
		fa.addH(x.X, seen)
	case *ssa.Convert:
		fa.addH(x.X, seen)
	case *ssa.MakeInterface:
		fa.addH(x.X, seen)
	case *ssa.ChangeInterface:
		fa.addH(x.X, seen)
	case *ssa.TypeAssert:
		fa.addH(x.X, seen)
	case *ssa.Phi:
		for _, e := range x.Edges {
			fa.addH(e, seen)
		}
	case *ssa.UnOp:
		if x.Op == token.MUL {
			fa.addH(x.X, seen)
		}
	case *ssa.Extract:
		fa.addH(x.Tuple, seen)
	case *ssa.Lookup:
		fa.addH(x.X, seen)
	}
}

func (fa *fnAnalysis) effect(kind, detail string, pos token.Pos) {
	e := Effect{Kind: kind, Fn: fnName(fa.fn), Detail: detail, Pos: fa.a.pos(pos)}
	if _, ok := fa.sum.effects[e.key()]; !ok {
		fa.sum.effects[e.key()] = e
		fa.a.changed = true
	}
}

func baseGlobal(v ssa.Value) *ssa.Global {
	for i := 0; i < 20; i++ {
		switch x := v.(type) {
		case *ssa.Global:
			return x
		case *ssa.FieldAddr:
			v = x.X
		case *ssa.IndexAddr:
			v = x.X
		default:
			return nil
		}
	}

	return nil
}

func fieldName(v ssa.Value) string {
	switch x := v.(type) {
	case *ssa.FieldAddr:
		st, ok := x.X.Type().Underlying().(*types.Pointer).Elem().Underlying().(*types.Struct)
		if ok {
			return fieldName(x.X) + "." + st.Field(x.Field).Name()
		}
	case *ssa.Field:
		st, ok := x.X.Type().Underlying().(*types.Struct)
		if ok {
			return fieldName(x.X) + "." + st.Field(x.Field).Name()
		}
	case *ssa.IndexAddr:
		return fieldName(x.X) + "[]"
	case *ssa.UnOp:
		if x.Op == token.MUL {
			return fieldName(x.X)
		}
	case *ssa.Parameter:
		return x.Name()
	case *ssa.Lookup:
		return fieldName(x.X) + "[k]"
	case *ssa.Slice:
		return fieldName(x.X)
	case *ssa.Phi:
		if len(x.Edges) > 0 {
			return fieldName(x.Edges[0])
		}
	case *ssa.FreeVar:
		return x.Name()
	}

	return "_"
}

func (fa *fnAnalysis) instr(ins ssa.Instruction) {
	switch x := ins.(type) {
	case *ssa.Alloc, *ssa.MakeMap, *ssa.MakeSlice, *ssa.MakeChan:
		// fresh memory; taint arrives through stores (addH)
	case *ssa.FieldAddr:
		v := fa.get(x.X)
		// address: keep bits regardless of the pointee type
		fa.setAddr(x, v.b)
	case *ssa.IndexAddr:
		fa.setAddr(x, fa.get(x.X).b)
	case *ssa.Field:
		fa.set(x, absval{b: fa.get(x.X).b})
	case *ssa.Index:
		fa.set(x, absval{b: fa.get(x.X).b})
	case *ssa.UnOp:
		switch x.Op {
		case token.MUL:
			if g := baseGlobal(x.X); g != nil {
				return
			}

			fa.set(x, fa.loadFrom(fa.get(x.X)))
		case token.ARROW:
			fa.set(x, fa.loadFrom(fa.get(x.X)))
		}
	case *ssa.Lookup:
		fa.set(x, fa.loadFrom(fa.get(x.X)))
	case *ssa.Slice:
		fa.set(x, absval{b: fa.get(x.X).b})
	case *ssa.Phi:
		for _, e := range x.Edges {
			fa.set(x, fa.get(e))
		}
	case *ssa.ChangeType:
		fa.set(x, fa.get(x.X))
	case *ssa.Convert:
		fa.set(x, absval{b: fa.get(x.X).b})
	case *ssa.MultiConvert:
		fa.set(x, absval{b: fa.get(x.X).b})
	case *ssa.ChangeInterface:
		fa.set(x, fa.get(x.X))
	case *ssa.MakeInterface:
		fa.set(x, fa.get(x.X))
	case *ssa.SliceToArrayPointer:
		fa.set(x, absval{b: fa.get(x.X).b})
	case *ssa.TypeAssert:
		fa.set(x, fa.get(x.X))
	case *ssa.Extract:
		fa.set(x, absval{b: fa.get(x.Tuple).b})
	case *ssa.Range:
		fa.set(x, absval{b: fa.get(x.X).b})
	case *ssa.Next:
		fa.set(x, fa.loadFrom(fa.get(x.Iter)))
	case *ssa.BinOp:
		// arithmetic / comparison / string concatenation: no pointers
	case *ssa.Select:
		var b bits
		for _, st := range x.States {
			if st.Dir == types.RecvOnly {
				b |= fa.loadFrom(fa.get(st.Chan)).b
			}
		}

		fa.set(x, absval{b: b})
	case *ssa.MakeClosure:
		fn, _ := x.Fn.(*ssa.Function)
		fv := make([]bits, len(x.Bindings))

		var u bits

		for i, bnd := range x.Bindings {
			fv[i] = fa.get(bnd).b
			u |= fv[i]
		}

		fa.set(x, absval{b: u, fn: fn, fv: fv})

		if fn != nil {
			// the closure may be invoked by anybody who receives it: analyse it now with untainted arguments
			s := fa.a.analyse(fn, make([]absval, len(fn.Params)), fv, fa.depth+1)
			fa.merge(s, fn, nil)
		}
	case *ssa.Store:
		addr := fa.get(x.Addr)
		val := fa.get(x.Val)

		if g := baseGlobal(x.Addr); g != nil {
			if !isInit(fa.fn) {
				fa.effect("GlobalWrite", g.Pkg.Pkg.Name()+"."+g.Name(), x.Pos())
			}

			return
		}

		if addr.b&P != 0 {
			fa.effect("Store", fieldName(x.Addr), x.Pos())
		}

		if val.b != 0 && addr.b&P == 0 {
			fa.addH(x.Addr, map[ssa.Value]bool{})
		}

		if val.fn != nil {
			// a function value stored into memory: remembered nowhere, already analysed at creation
			_ = val
		}
	case *ssa.MapUpdate:
		m := fa.get(x.Map)
		if g := globalMap(x.Map); g != nil && !isInit(fa.fn) {
			fa.effect("GlobalWrite", g.Pkg.Pkg.Name()+"."+g.Name()+"[k]", x.Pos())
		}

		if m.b&P != 0 {
			fa.effect("MapUpdate", fieldName(x.Map), x.Pos())
		}

		if (fa.get(x.Value).b|fa.get(x.Key).b) != 0 && m.b&P == 0 {
			fa.addH(x.Map, map[ssa.Value]bool{})
		}
	case *ssa.Send:
		if fa.get(x.X).b != 0 && fa.get(x.Chan).b&P == 0 {
			fa.addH(x.Chan, map[ssa.Value]bool{})
		}
	case *ssa.Call:
		fa.call(x, &x.Call, x.Pos())
	case *ssa.Go:
		fa.call(nil, &x.Call, x.Pos())
	case *ssa.Defer:
		fa.call(nil, &x.Call, x.Pos())
	case *ssa.Return:
		var b bits

		for _, r := range x.Results {
			v := fa.get(r)
			b |= v.b

			if v.fn != nil && len(x.Results) == 1 {
				if fa.sum.fnres == nil {
					fa.sum.fnres, fa.sum.fnfv = v.fn, v.fv
					fa.a.changed = true
				}
			}
		}

		if fa.sum.result|b != fa.sum.result {
			fa.sum.result |= b
			fa.a.changed = true
		}
	}
}

func globalMap(v ssa.Value) *ssa.Global {
	if u, ok := v.(*ssa.UnOp); ok && u.Op == token.MUL {
		return baseGlobal(u.X)
	}

	return nil
}

func isInit(fn *ssa.Function) bool {
	for f := fn; f != nil; f = f.Parent() {
		if f.Name() == "init" || strings.HasPrefix(f.Name(), "init#") {
			return true
		}
	}

	return false
}

func (fa *fnAnalysis) setAddr(v ssa.Value, b bits) {
	old := fa.vals[v]
	if old.b|b != old.b {
		old.b |= b
		fa.vals[v] = old
		fa.changed = true
	}
}

// loadFrom: the taint of a value loaded through a tainted address / container.
func (fa *fnAnalysis) loadFrom(addr absval) absval {
	var b bits
	if addr.b&P != 0 {
		b |= P
	}

	if addr.b&H != 0 {
		b |= P | H
	}

	return absval{b: b}
}

func (fa *fnAnalysis) merge(s *summary, callee *ssa.Function, _ []ssa.Value) {
	for k, e := range s.effects {
		if _, ok := fa.sum.effects[k]; !ok {
			e2 := e
			e2.Path = append([]string{fnName(callee)}, e.Path...)

			if len(e2.Path) > 12 {
				e2.Path = e2.Path[:12]
			}

			fa.sum.effects[k] = e2
			fa.a.changed = true
		}
	}
}

func (fa *fnAnalysis) call(res ssa.Value, c *ssa.CallCommon, pos token.Pos) {
	args := make([]absval, 0, len(c.Args)+1)

	var argVals []ssa.Value

	if c.IsInvoke() {
		args = append(args, fa.get(c.Value))
		argVals = append(argVals, c.Value)
	}

	for _, arg := range c.Args {
		args = append(args, fa.get(arg))
		argVals = append(argVals, arg)
	}

	var anyTaint bits

	for i, av := range args {
		anyTaint |= mask(av.b, argVals[i].Type())
	}

	setRes := func(v absval) {
		if res != nil {
			fa.set(res, v)
		}
	}

	// builtins
	if b, ok := c.Value.(*ssa.Builtin); ok && !c.IsInvoke() {
		switch b.Name() {
		case "append":
			if len(args) > 0 && args[0].b&P != 0 {
				fa.effect("AppendInto", fieldName(argVals[0]), pos)
			}

			var r bits
			if len(args) > 0 {
				r = args[0].b
			}

			if len(args) > 1 && args[1].b != 0 {
				r |= H | (args[1].b & P) // elements copied into the (possibly new) backing array
				if len(args) > 0 && args[0].b&P == 0 {
					fa.addH(argVals[0], map[ssa.Value]bool{})
				}
			}

			setRes(absval{b: r})
		case "copy":
			if len(args) > 0 && args[0].b&P != 0 {
				fa.effect("CopyInto", fieldName(argVals[0]), pos)
			}

			if len(args) > 1 && args[1].b != 0 && args[0].b&P == 0 {
				fa.addH(argVals[0], map[ssa.Value]bool{})
			}
		case "delete":
			if len(args) > 0 && args[0].b&P != 0 {
				fa.effect("Delete", fieldName(argVals[0]), pos)
			}
		case "clear":
			if len(args) > 0 && args[0].b&P != 0 {
				fa.effect("Clear", fieldName(argVals[0]), pos)
			}
		default:
			setRes(absval{})
		}

		return
	}

	var callees []*ssa.Function

	var fvs [][]bits

	switch {
	case c.IsInvoke():
		callees = fa.a.implementations(c)
		for range callees {
			fvs = append(fvs, nil)
		}
	default:
		if fn := c.StaticCallee(); fn != nil {
			callees = []*ssa.Function{fn}

			var fv []bits
			if mc, ok := c.Value.(*ssa.MakeClosure); ok {
				fv = make([]bits, len(mc.Bindings))
				for i, b := range mc.Bindings {
					fv[i] = fa.get(b).b
				}
			}

			fvs = [][]bits{fv}
		} else if v := fa.get(c.Value); v.fn != nil {
			callees = []*ssa.Function{v.fn}
			fvs = [][]bits{v.fv}
		}
	}

	name := calleeName(c)

	if len(callees) == 0 {
		// unknown callee
		fa.unknown(name, c, args, argVals, anyTaint, pos, setRes)

		return
	}

	var rb bits

	var rfn *ssa.Function

	var rfv []bits

	for ci, fn := range callees {
		if fn.Blocks == nil || (!fa.a.descendAll && !inModule(fn)) {
			n := fn.String()
			if c.IsInvoke() {
				n = name
			}

			fa.unknown(n, c, args, argVals, anyTaint, pos, func(v absval) { rb |= v.b })

			continue
		}

		if anyTaint == 0 && !hasFn(args) && allZero(fvs[ci]) {
			// nothing receiver-derived flows in: the callee cannot reach receiver memory
			// (global writes inside are still of interest)
			s := fa.a.analyse(fn, make([]absval, len(fn.Params)), fvs[ci], fa.depth+1)
			fa.mergeGlobalsOnly(s, fn)

			continue
		}

		params := args
		if len(params) > len(fn.Params) {
			params = params[:len(fn.Params)]
		}

		s := fa.a.analyse(fn, params, fvs[ci], fa.depth+1)
		fa.merge(s, fn, argVals)
		rb |= s.result

		if s.fnres != nil {
			rfn, rfv = s.fnres, s.fnfv
		}

		for i, h := range s.paramH {
			if h && i < len(argVals) {
				fa.addH(argVals[i], map[ssa.Value]bool{})
			}
		}
	}

	setRes(absval{b: rb, fn: rfn, fv: rfv})
}

func hasFn(args []absval) bool {
	for _, a := range args {
		if a.fn != nil && len(a.fv) > 0 && !allZero(a.fv) {
			return true
		}
	}

	return false
}

func allZero(b []bits) bool {
	for _, x := range b {
		if x != 0 {
			return false
		}
	}

	return true
}

func (fa *fnAnalysis) mergeGlobalsOnly(s *summary, callee *ssa.Function) {
	for k, e := range s.effects {
		if e.Kind != "GlobalWrite" {
			continue
		}

		if _, ok := fa.sum.effects[k]; !ok {
			e2 := e
			e2.Path = append([]string{fnName(callee)}, e.Path...)

			if len(e2.Path) > 12 {
				e2.Path = e2.Path[:12]
			}

			fa.sum.effects[k] = e2
			fa.a.changed = true
		}
	}
}

func calleeName(c *ssa.CallCommon) string {
	if c.IsInvoke() {
		return "(" + c.Value.Type().String() + ")." + c.Method.Name()
	}

	if fn := c.StaticCallee(); fn != nil {
		return fn.String()
	}

	if b, ok := c.Value.(*ssa.Builtin); ok {
		return b.Name()
	}

	return "dynamic:" + c.Value.Type().String()
}

func (fa *fnAnalysis) unknown(name string, c *ssa.CallCommon, args []absval, argVals []ssa.Value, anyTaint bits,
	pos token.Pos, setRes func(absval),
) {
	// result conservatively derived from every argument
	var rb bits
	for _, av := range args {
		rb |= av.b
	}

	setRes(absval{b: rb})

	if anyTaint&(P|H) == 0 {
		return
	}

	// only P arguments can be written through to receiver memory
	var hot []string

	for i, av := range args {
		if mask(av.b, argVals[i].Type())&P != 0 {
			hot = append(hot, fieldName(argVals[i]))
		}
	}

	if len(hot) == 0 {
		return
	}

	if ok, reason := whitelisted(name); ok {
		fa.a.usedWL[name] = reason

		return
	}

	fa.effect("UnknownCall", name+" <- "+strings.Join(hot, ","), pos)
}

// implementations: class-hierarchy resolution of an interface method call over the named
// types of the module (and, for interfaces declared outside, whatever module types implement them).
func (a *analyzer) implementations(c *ssa.CallCommon) []*ssa.Function {
	it, ok := c.Value.Type().Underlying().(*types.Interface)
	if !ok {
		return nil
	}

	k := c.Value.Type().String() + "." + c.Method.Name()
	if r, ok := a.implCache[k]; ok {
		return r
	}

	var out []*ssa.Function

	for _, t := range a.modTypes {
		for _, cand := range []types.Type{t, types.NewPointer(t)} {
			if _, isIface := cand.Underlying().(*types.Interface); isIface {
				continue
			}

			if !types.Implements(cand, it) {
				continue
			}

			sel := a.prog.MethodSets.MethodSet(cand).Lookup(c.Method.Pkg(), c.Method.Name())
			if sel == nil {
				continue
			}

			if fn := a.prog.MethodValue(sel); fn != nil {
				out = append(out, fn)
			}

			break
		}
	}

	a.implCache[k] = out

	return out
}

// ---------------------------------------------------------------- driver

func main() {
	repo := flag.String("repo", "/repo", "repository root")
	out := flag.String("out", "", "Coq output file")
	jsonOut := flag.String("json", "", "JSON output file")
	verbose := flag.Bool("v", false, "verbose")
	flag.Parse()

	cfg := &packages.Config{
		Mode: packages.LoadAllSyntax,
		Dir:  *repo,
		Env: append(os.Environ(), "GOFLAGS=-mod=mod", "GOPROXY=off", "GOSUMDB=off", "GOTOOLCHAIN=local",
			"GOWORK=off"),
	}

	pkgs, err := packages.Load(cfg, "./internal/rules/mechanisms/...", "./internal/rules/endpoint/...",
		"./internal/handler/...", "./internal/heimdall/...", "./internal/cache/...", "./internal/keyholder/...",
		"./internal/truststore/...", "./internal/keystore/...")
	if err != nil {
		fmt.Fprintln(os.Stderr, "load:", err)
		os.Exit(2)
	}

	nerr := 0

	packages.Visit(pkgs, nil, func(p *packages.Package) {
		if strings.HasPrefix(p.PkgPath, module) {
			for _, e := range p.Errors {
				fmt.Fprintln(os.Stderr, "package error:", e)
				nerr++
			}
		}
	})

	if nerr > 0 {
		os.Exit(2)
	}

	prog, _ := ssautil.AllPackages(pkgs, ssa.InstantiateGenerics)
	prog.Build()

	a := &analyzer{
		prog: prog, fset: prog.Fset, repo: *repo, sums: map[ctxKey]*summary{}, inprog: map[ctxKey]bool{},
		implCache: map[string][]*ssa.Function{}, usedWL: map[string]string{}, verbose: *verbose,
	}

	// named types of the module (non-test, non-mock) for class-hierarchy resolution
	for _, p := range prog.AllPackages() {
		if !strings.HasPrefix(p.Pkg.Path(), module) || strings.HasSuffix(p.Pkg.Path(), "/mocks") {
			continue
		}

		for _, m := range p.Members {
			if t, ok := m.(*ssa.Type); ok {
				if _, generic := t.Type().(*types.Named); generic && t.Type().(*types.Named).TypeParams().Len() > 0 {
					continue
				}

				a.modTypes = append(a.modTypes, t.Type())
			}
		}
	}

	sort.Slice(a.modTypes, func(i, j int) bool { return a.modTypes[i].String() < a.modTypes[j].String() })

	var rows []Row

	for _, kd := range kinds {
		path := module + "/internal/rules/mechanisms/" + kd.Pkg
		sp := prog.ImportedPackage(path)

		if sp == nil {
			fmt.Fprintln(os.Stderr, "package not found:", path)
			os.Exit(2)
		}

		im, ok := sp.Members[kd.Iface].(*ssa.Type)
		if !ok {
			fmt.Fprintln(os.Stderr, "interface not found:", kd.Iface)
			os.Exit(2)
		}

		iface := im.Type().Underlying().(*types.Interface)

		var names []string
		for n := range sp.Members {
			names = append(names, n)
		}

		sort.Strings(names)

		for _, n := range names {
			t, ok := sp.Members[n].(*ssa.Type)
			if !ok {
				continue
			}

			if _, isIface := t.Type().Underlying().(*types.Interface); isIface {
				continue
			}

			var recv types.Type

			switch {
			case types.Implements(types.NewPointer(t.Type()), iface):
				recv = types.NewPointer(t.Type())
			default:
				continue
			}

			if types.Implements(t.Type(), iface) {
				recv = t.Type()
			}

			row := Row{Pkg: kd.Pkg, Type: n, Kind: kd.Kind, Embeds: embedded(t.Type())}
			ms := prog.MethodSets.MethodSet(types.NewPointer(t.Type()))
			_ = recv

			for i := 0; i < ms.Len(); i++ {
				sel := ms.At(i)
				fn := prog.MethodValue(sel)

				if fn == nil {
					continue
				}

				// iterate the whole-program fixpoint for this root
				var s *summary

				before := a.contexts

				for round := 0; round < 20; round++ {
					a.changed = false
					for k, sm := range a.sums {
						_ = k
						sm.done = false
					}

					params := make([]absval, len(fn.Params))
					params[0] = absval{b: P}
					s = a.analyse(fn, params, nil, 0)

					if !a.changed {
						break
					}
				}

				m := Method{Name: sel.Obj().Name(), Reach: a.contexts - before}
				for _, e := range s.effects {
					m.Effects = append(m.Effects, e)
				}

				sort.Slice(m.Effects, func(i, j int) bool { return m.Effects[i].key() < m.Effects[j].key() })
				row.Methods = append(row.Methods, m)
			}

			rows = append(rows, row)
		}
	}

	if *jsonOut != "" {
		b, _ := json.MarshalIndent(map[string]any{"rows": rows, "whitelist_used": a.usedWL}, "", " ")
		if err := os.WriteFile(*jsonOut, b, 0o644); err != nil {
			fmt.Fprintln(os.Stderr, err)
			os.Exit(2)
		}
	}

	if *verbose {
		for _, r := range rows {
			for _, m := range r.Methods {
				fmt.Printf("%s.%s.%s reach=%d effects=%d\n", r.Pkg, r.Type, m.Name, m.Reach, len(m.Effects))

				for _, e := range m.Effects {
					fmt.Printf("    %-11s %s  %s  @%s  via %s\n", e.Kind, e.Fn, e.Detail, e.Pos, strings.Join(e.Path, " > "))
				}
			}
		}

		var wl []string
		for k := range a.usedWL {
			wl = append(wl, k)
		}

		sort.Strings(wl)

		for _, k := range wl {
			fmt.Printf("whitelisted: %s  -- %s\n", k, a.usedWL[k])
		}
	}

	if *out != "" {
		if err := os.WriteFile(*out, []byte(renderCoq(rows, a.usedWL)), 0o644); err != nil {
			fmt.Fprintln(os.Stderr, err)
			os.Exit(2)
		}
	}
}

// embedded lists the named module types reachable through the fields of t.
func embedded(t types.Type) []string {
	seen := map[string]bool{}

	var walk func(t types.Type, depth int)

	walk = func(t types.Type, depth int) {
		if depth > 6 {
			return
		}

		if n, ok := t.(*types.Named); ok && n.Obj().Pkg() != nil && strings.HasPrefix(n.Obj().Pkg().Path(), module) {
			s := n.Obj().Pkg().Name() + "." + n.Obj().Name()
			if seen[s] {
				return
			}

			if depth > 0 {
				seen[s] = true
			}
		}

		switch u := t.Underlying().(type) {
		case *types.Struct:
			for i := 0; i < u.NumFields(); i++ {
				walk(u.Field(i).Type(), depth+1)
			}
		case *types.Pointer:
			walk(u.Elem(), depth)
		case *types.Slice:
			walk(u.Elem(), depth)
		case *types.Array:
			walk(u.Elem(), depth)
		case *types.Map:
			walk(u.Key(), depth)
			walk(u.Elem(), depth)
		}
	}

	walk(t, 0)

	var out []string
	for s := range seen {
		out = append(out, s)
	}

	sort.Strings(out)

	return out
}

func coqStr(s string) string { return `"` + strings.ReplaceAll(s, `"`, `""`) + `"` }

func renderCoq(rows []Row, wl map[string]string) string {
	var sb strings.Builder

	sb.WriteString("(* GENERATED by harness/tools/effects from the current source of /repo — do not edit. *)\n")
	sb.WriteString("From HV Require Import Base.Prelude C17.Model.\nOpen Scope string_scope.\n\n")
	sb.WriteString("Definition generated_table : list mech_row := [\n")

	for i, r := range rows {
		fmt.Fprintf(&sb, "  mk_row %s %s %s [", coqStr(r.Pkg), coqStr(r.Type), r.Kind)

		for j, e := range r.Embeds {
			if j > 0 {
				sb.WriteString("; ")
			}

			sb.WriteString(coqStr(e))
		}

		sb.WriteString("] [\n")

		for j, m := range r.Methods {
			fmt.Fprintf(&sb, "    mk_meth %s [", coqStr(m.Name))

			for k, e := range m.Effects {
				if k > 0 {
					sb.WriteString(";")
				}

				fmt.Fprintf(&sb, "\n      mk_eff %s %s %s %s", "E"+e.Kind, coqStr(e.Fn), coqStr(e.Detail), coqStr(e.Pos))
			}

			sb.WriteString("]")

			if j < len(r.Methods)-1 {
				sb.WriteString(";")
			}

			sb.WriteString("\n")
		}

		sb.WriteString("  ]")

		if i < len(rows)-1 {
			sb.WriteString(";")
		}

		sb.WriteString("\n")
	}

	sb.WriteString("].\n\n")

	var keys []string
	for k := range wl {
		keys = append(keys, k)
	}

	sort.Strings(keys)
	sb.WriteString("(* callees without analysed body that received receiver-derived pointers and are trusted read-only:\n")

	for _, k := range keys {
		fmt.Fprintf(&sb, "   %s -- %s\n", k, strings.ReplaceAll(wl[k], "*)", "* )"))
	}

	sb.WriteString("*)\n\n")
	sb.WriteString("Example effects_read_only : forallb row_ok generated_table = true.\nProof. vm_compute. reflexivity. Qed.\n")

	return sb.String()
}
