// Package authorizers: self-test fixture of harness/tools/effects (not heimdall code).
package authorizers

type Authorizer interface {
	Execute() error
	WithConfig(conf map[string]any) (Authorizer, error)
}

type cleanAuthorizer struct {
	id   string
	opts map[string]string
}

func (c *cleanAuthorizer) Execute() error {
	if c.opts["x"] == "" {
		return nil
	}

	return nil
}

func (c *cleanAuthorizer) WithConfig(conf map[string]any) (Authorizer, error) {
	opts := make(map[string]string, len(c.opts))
	for k, v := range c.opts {
		opts[k] = v
	}

	for k := range conf {
		opts[k] = "set"
	}

	return &cleanAuthorizer{id: c.id, opts: opts}, nil
}
