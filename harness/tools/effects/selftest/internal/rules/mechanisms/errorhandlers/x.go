// Package errorhandlers: self-test fixture of harness/tools/effects (not heimdall code).
package errorhandlers

type ErrorHandler interface {
	Execute() error
	WithConfig(conf map[string]any) (ErrorHandler, error)
}

type cleanErrorHandler struct {
	id   string
	opts map[string]string
}

func (c *cleanErrorHandler) Execute() error {
	if c.opts["x"] == "" {
		return nil
	}

	return nil
}

func (c *cleanErrorHandler) WithConfig(conf map[string]any) (ErrorHandler, error) {
	opts := make(map[string]string, len(c.opts))
	for k, v := range c.opts {
		opts[k] = v
	}

	for k := range conf {
		opts[k] = "set"
	}

	return &cleanErrorHandler{id: c.id, opts: opts}, nil
}
