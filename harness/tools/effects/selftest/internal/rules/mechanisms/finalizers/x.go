// Package finalizers: self-test fixture of harness/tools/effects (not heimdall code).
package finalizers

type Finalizer interface {
	Execute() error
	WithConfig(conf map[string]any) (Finalizer, error)
}

type cleanFinalizer struct {
	id   string
	opts map[string]string
}

func (c *cleanFinalizer) Execute() error {
	if c.opts["x"] == "" {
		return nil
	}

	return nil
}

func (c *cleanFinalizer) WithConfig(conf map[string]any) (Finalizer, error) {
	opts := make(map[string]string, len(c.opts))
	for k, v := range c.opts {
		opts[k] = v
	}

	for k := range conf {
		opts[k] = "set"
	}

	return &cleanFinalizer{id: c.id, opts: opts}, nil
}
