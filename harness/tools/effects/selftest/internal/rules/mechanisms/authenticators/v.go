// Self-test fixture of the VARIANT table (harness/tools/effects/variants.go; not heimdall code).  Every type
// below seeds one way in which the instance returned by WithConfig is built from the receiver; what the
// translator must say about each field is in selftest/expected_variants.json.
package authenticators

import (
	"maps"
	"slices"
)

func ifThenElse[T any](c bool, a, b T) T {
	if c {
		return a
	}

	return b
}

func ifThenElseExec[T any](c bool, a, b func() T) T {
	if c {
		return a()
	}

	return b()
}

// ---- clean: own fields shared or copied, overridden ones fresh, merged ones in fresh memory
type vCleanAuth struct {
	id   string
	ttl  *int
	m    map[string]string
	s    []string
	opts map[string]string
	n    int
}

func newVCleanAuth(id string, ttl *int) *vCleanAuth { return &vCleanAuth{id: id, ttl: ttl} }

func (a *vCleanAuth) Execute() error { return nil }
func (a *vCleanAuth) WithConfig(conf map[string]any) (Authenticator, error) {
	if len(conf) == 0 {
		return a, nil
	}

	m := maps.Clone(a.m)
	for k := range conf {
		m[k] = "x"
	}

	v := newVCleanAuth(a.id, ifThenElse(len(conf) > 1, new(int), a.ttl))
	v.m = m
	v.s = append([]string(nil), a.s...)
	v.opts = a.opts
	v.n = ifThenElseExec(len(conf) > 2, func() int { return len(conf) }, func() int { return a.n })

	return v, nil
}

// ---- aliasing through slices.Clip: the variant's slice shares the receiver's backing array
type vClipAuth struct{ s []string }

func (a *vClipAuth) Execute() error { return nil }
func (a *vClipAuth) WithConfig(conf map[string]any) (Authenticator, error) {
	s := slices.Clip(a.s)
	for k := range conf {
		s = append(s, k)
	}

	return &vClipAuth{s: s}, nil
}

// ---- a map shared with the receiver and then mutated for the variant
type vSharedMapAuth struct{ m map[string]string }

func (a *vSharedMapAuth) Execute() error { return nil }
func (a *vSharedMapAuth) WithConfig(conf map[string]any) (Authenticator, error) {
	m := a.m
	for k := range conf {
		m[k] = "override"
	}

	return &vSharedMapAuth{m: m}, nil
}

// ---- a map shared by WithConfig (harmless by itself) and filled lazily by Execute
type vLazyMapAuth struct {
	id string
	m  map[string]string
}

func (a *vLazyMapAuth) Execute() error { a.m["seen"] = a.id; return nil }
func (a *vLazyMapAuth) WithConfig(conf map[string]any) (Authenticator, error) {
	return &vLazyMapAuth{id: ifThenElse(len(conf) > 0, "v", a.id), m: a.m}, nil
}

// ---- struct copy with an embedded pointer: the copy is a new struct, what it points to is shared and written
type vCfg struct {
	counter *int
	tags    []string
	name    string
}

type vStructCopyAuth struct {
	id  string
	cfg vCfg
}

func (a *vStructCopyAuth) Execute() error { *a.cfg.counter++; return nil }
func (a *vStructCopyAuth) WithConfig(conf map[string]any) (Authenticator, error) {
	cfg := a.cfg
	if len(conf) > 0 {
		cfg.name = "variant"
	}

	return &vStructCopyAuth{id: a.id, cfg: cfg}, nil
}

// ---- a memo copied by value: the variant starts from whatever the receiver has computed so far
type vMemoAuth struct {
	scopes []string
	key    string
}

func (a *vMemoAuth) Execute() error {
	if a.key == "" {
		a.key = "k:" + a.scopes[0]
	}

	return nil
}

func (a *vMemoAuth) WithConfig(conf map[string]any) (Authenticator, error) {
	n := *a
	for k := range conf {
		n.scopes = []string{k}
	}

	return &n, nil
}

// ---- a field forgotten in the literal, and a field taken from another field
type vForgetAuth struct {
	id    string
	realm string
	a, b  []string
}

func newVForgetAuth(id string) *vForgetAuth { return &vForgetAuth{id: id, realm: "r"} }

var _ = newVForgetAuth

func (a *vForgetAuth) Execute() error { return nil }
func (a *vForgetAuth) WithConfig(conf map[string]any) (Authenticator, error) {
	return &vForgetAuth{realm: "x", a: a.b, b: a.b}, nil
}

// ---- a sub-slice of the receiver's slice, and an element pointer taken from inside a receiver field
type vInner struct{ n int }

type vSubSliceAuth struct {
	s     []string
	first *vInner
	all   []*vInner
}

func (a *vSubSliceAuth) Execute() error { return nil }
func (a *vSubSliceAuth) WithConfig(conf map[string]any) (Authenticator, error) {
	return &vSubSliceAuth{s: a.s[:len(conf)], first: a.all[0], all: a.all}, nil
}

// ---- a field that NO code of the module ever sets is zero in the receiver too: not setting it is harmless
type vNeverSetAuth struct {
	id   string
	note *int
}

func newVNeverSetAuth(id string) *vNeverSetAuth { return &vNeverSetAuth{id: id} }

var _ = newVNeverSetAuth

func (a *vNeverSetAuth) Execute() error { return nil }
func (a *vNeverSetAuth) WithConfig(conf map[string]any) (Authenticator, error) {
	return &vNeverSetAuth{id: a.id}, nil
}

// ---- element-wise copies into a FRESH container, in every spelling: all are "fresh container, elements shared at
// depth 1" — what maps.Clone makes.  vMergeCloneAuth and vMergeCopyAuth must produce identical rows (false alarm of
// 2026-10-02: maps.Copy into a fresh map was reported as possibly sharing memory with the receiver's map).
type vTpl interface{ Render() string }

type vMergeCloneAuth struct {
	id string
	v  map[string]vTpl
}

func (a *vMergeCloneAuth) Execute() error { return nil }
func (a *vMergeCloneAuth) WithConfig(conf map[string]any) (Authenticator, error) {
	other := map[string]vTpl{}
	for k := range conf {
		other[k] = nil
	}

	res := maps.Clone(a.v)
	for key, value := range other {
		res[key] = value
	}

	return &vMergeCloneAuth{id: a.id, v: res}, nil
}

type vMergeCopyAuth struct {
	id string
	v  map[string]vTpl
}

func (a *vMergeCopyAuth) Execute() error { return nil }
func (a *vMergeCopyAuth) WithConfig(conf map[string]any) (Authenticator, error) {
	other := map[string]vTpl{}
	for k := range conf {
		other[k] = nil
	}

	res := make(map[string]vTpl, len(a.v)+len(other))
	maps.Copy(res, a.v)
	maps.Copy(res, other)

	return &vMergeCopyAuth{id: a.id, v: res}, nil
}

// the same WITHOUT any copy: the receiver's map is written and shared
type vMergeNoCopyAuth struct {
	id string
	v  map[string]vTpl
}

func (a *vMergeNoCopyAuth) Execute() error { return nil }
func (a *vMergeNoCopyAuth) WithConfig(conf map[string]any) (Authenticator, error) {
	other := map[string]vTpl{}
	for k := range conf {
		other[k] = nil
	}

	res := a.v
	maps.Copy(res, other)

	return &vMergeNoCopyAuth{id: a.id, v: res}, nil
}

// further spellings of the shallow copy, one per field
type vElemCopyAuth struct {
	viaCopy   []*vInner          // make + copy()
	viaAppend []*vInner          // append(fresh, src...)
	viaInsert []*vInner          // slices.Insert on a fresh slice
	viaConcat []*vInner          // slices.Concat
	viaLoop   map[string]*vInner // make + assignment loop
	viaSeq    map[string]*vInner // maps.Insert(fresh, maps.All(src))
	viaSorted []string           // slices.Sorted(maps.Keys(src))
}

func (a *vElemCopyAuth) Execute() error { return nil }
func (a *vElemCopyAuth) WithConfig(conf map[string]any) (Authenticator, error) {
	c1 := make([]*vInner, len(a.viaCopy))
	copy(c1, a.viaCopy)

	c2 := append(make([]*vInner, 0, len(a.viaAppend)+len(conf)), a.viaAppend...)

	c3 := slices.Insert([]*vInner(nil), 0, a.viaInsert...)

	c4 := slices.Concat(a.viaConcat, []*vInner{{n: len(conf)}})

	c5 := make(map[string]*vInner, len(a.viaLoop))
	for k, p := range a.viaLoop {
		c5[k] = p
	}

	c6 := map[string]*vInner{}
	maps.Insert(c6, maps.All(a.viaSeq))

	c7 := slices.Sorted(maps.Keys(a.viaSeq))

	return &vElemCopyAuth{viaCopy: c1, viaAppend: c2, viaInsert: c3, viaConcat: c4, viaLoop: c5, viaSeq: c6, viaSorted: c7}, nil
}
