// Package authenticators: self-test fixture of harness/tools/effects (not heimdall code).  Every type
// below seeds exactly the receiver write named in selftest/expected.json; cleanAuth seeds none.
package authenticators

import (
	"bytes"
	"encoding/json"
	"errors"
	"fmt"
	"io"
	"maps"
	"slices"
	"sort"
	"strconv"
	"strings"
	"sync"
)

type Authenticator interface {
	Execute() error
	WithConfig(conf map[string]any) (Authenticator, error)
}

type endpoint struct {
	url     string
	method  string
	headers map[string]string
}

// ---- no effect: reads, local copies, fresh allocations
type cleanAuth struct {
	id string
	e  endpoint
	s  []string
}

func (a *cleanAuth) Execute() error {
	e := a.e // struct copy: a store into the copy is not a receiver write
	e.method = "GET"

	hs := make(map[string]string, len(a.e.headers))
	for k, v := range a.e.headers {
		hs[k] = v
	}

	hs["Accept"] = "x"
	e.headers = hs

	local := append([]string{}, a.s...)
	sort.Strings(local)

	return nil
}

func (a *cleanAuth) WithConfig(map[string]any) (Authenticator, error) {
	return &cleanAuth{id: a.id, e: a.e, s: a.s}, nil
}

// ---- Store to a field
type storeAuth struct{ n int }

func (a *storeAuth) Execute() error                                   { a.n++; return nil }
func (a *storeAuth) WithConfig(map[string]any) (Authenticator, error) { return a, nil }

// ---- MapUpdate through a helper that receives the map
type mapAuth struct{ e endpoint }

func setDefault(m map[string]string) {
	if _, ok := m["Accept"]; !ok {
		m["Accept"] = "application/json"
	}
}

func (a *mapAuth) Execute() error                                   { setDefault(a.e.headers); return nil }
func (a *mapAuth) WithConfig(map[string]any) (Authenticator, error) { return a, nil }

// ---- append into the shared backing array in WithConfig
type appendAuth struct{ s []string }

func (a *appendAuth) Execute() error { return nil }
func (a *appendAuth) WithConfig(conf map[string]any) (Authenticator, error) {
	s := a.s
	for k := range conf {
		s = append(s[:0], k)
	}

	return &appendAuth{s: s}, nil
}

// ---- write through a variable captured by a closure that is stored in a NAMED func type whose
// declaration names its parameters while the function literal uses blanks (regression: signatures
// were compared with their parameter names)
type resolver interface {
	Get(ctx string, args map[string]any) (*endpoint, error)
}

type resolverFunc func(ctx string, args map[string]any) (*endpoint, error)

func (f resolverFunc) Get(ctx string, args map[string]any) (*endpoint, error) { return f(ctx, args) }

type closureAuth struct{ r resolver }

func newClosureAuth(ep *endpoint) *closureAuth {
	return &closureAuth{r: resolverFunc(func(_ string, _ map[string]any) (*endpoint, error) {
		if ep.headers == nil {
			ep.headers = map[string]string{}
		}

		ep.headers["Accept"] = "application/json"

		return ep, nil
	})}
}

func (a *closureAuth) Execute() error {
	_, err := a.r.Get("", nil)

	return err
}

func (a *closureAuth) WithConfig(map[string]any) (Authenticator, error) { return a, nil }

// ---- package-level variable
var lastSeen string

type globalAuth struct{ id string }

func (a *globalAuth) Execute() error                                   { lastSeen = a.id; return nil }
func (a *globalAuth) WithConfig(map[string]any) (Authenticator, error) { return a, nil }

// ---- store in a method of an embedded pointer
type inner struct{ hits int }

func (i *inner) touch() { i.hits++ }

type embedAuth struct{ *inner }

func (a *embedAuth) Execute() error                                   { a.touch(); return nil }
func (a *embedAuth) WithConfig(map[string]any) (Authenticator, error) { return a, nil }

// ---- delete / copy / clear
type deleteAuth struct {
	m map[string]string
	s []string
}

func (a *deleteAuth) Execute() error { delete(a.m, "x"); return nil }
func (a *deleteAuth) WithConfig(conf map[string]any) (Authenticator, error) {
	copy(a.s, []string{"x"})

	return a, nil
}

// ---- interface call resolved over the module's types
type dep interface{ Do() }

type counter struct{ c int }

func (c *counter) Do() { c.c++ }

type ifaceAuth struct{ d dep }

func (a *ifaceAuth) Execute() error                                   { a.d.Do(); return nil }
func (a *ifaceAuth) WithConfig(map[string]any) (Authenticator, error) { return a, nil }

// ---- receiver-held slice handed to code outside the module that writes its argument
type sortAuth struct{ s []string }

func (a *sortAuth) Execute() error                                   { sort.Strings(a.s); return nil }
func (a *sortAuth) WithConfig(map[string]any) (Authenticator, error) { return a, nil }

// keep the constructors referenced
var _ = []any{newClosureAuth, &ifaceAuth{d: &counter{}}}

// ---- generic functions of std slices / maps / iter
type item struct{ n int }

// pure ones on receiver-held maps and slices: no effect
type pureGenAuth struct {
	m     map[string]string
	s     []string
	items []*item
	ptrs  map[string]*item
}

func (a *pureGenAuth) Execute() error {
	n := 0

	for _, k := range slices.Sorted(maps.Keys(a.m)) {
		n += len(a.m[k])
	}

	for k, v := range maps.All(a.m) {
		n += len(k) + len(v)
	}

	for v := range slices.Values(a.s) {
		n += len(v)
	}

	for k := range maps.Keys(a.ptrs) {
		n += len(k)
	}

	vals := slices.Collect(maps.Values(a.m))
	slices.Sort(vals) // a fresh slice: sorting it is no receiver write

	c := slices.Clone(a.items)
	slices.SortFunc(c, func(x, y *item) int { return x.n - y.n })

	_ = slices.Contains(a.s, "x")
	_ = slices.Index(a.s, "x")
	_ = slices.Equal(a.s, vals)
	_ = slices.Compare(a.s, vals)
	_, _ = slices.BinarySearch(a.s, "x")
	_ = slices.IndexFunc(a.items, func(p *item) bool { return p.n > 0 })
	_ = slices.ContainsFunc(a.items, func(p *item) bool { return p.n > n })

	if len(a.s) > 0 {
		_ = slices.Max(a.s)
		_ = slices.Min(a.s)
	}

	return nil
}

func (a *pureGenAuth) WithConfig(map[string]any) (Authenticator, error) {
	return &pureGenAuth{m: maps.Clone(a.m), s: slices.Clone(a.s), items: a.items, ptrs: a.ptrs}, nil
}

// in-place ones on receiver-held maps and slices: each is a write of its first argument
type inplaceGenAuth struct {
	m map[string]string
	s []string
}

func (a *inplaceGenAuth) Execute() error { slices.Sort(a.s); return nil }
func (a *inplaceGenAuth) WithConfig(c map[string]any) (Authenticator, error) {
	maps.Copy(a.m, map[string]string{"k": "v"})
	return a, nil
}
func (a *inplaceGenAuth) reverse() { slices.Reverse(a.s) }
func (a *inplaceGenAuth) insert()  { _ = slices.Insert(a.s, 0, "x") }
func (a *inplaceGenAuth) del()     { _ = slices.Delete(a.s, 0, 1) }
func (a *inplaceGenAuth) compact() { _ = slices.Compact(a.s) }
func (a *inplaceGenAuth) grow()    { _ = slices.Grow(a.s, 4) }
func (a *inplaceGenAuth) clip()    { _ = slices.Clip(a.s) }
func (a *inplaceGenAuth) sortFunc() {
	slices.SortFunc(a.s, func(x, y string) int { return len(x) - len(y) })
}
func (a *inplaceGenAuth) deleteFunc() {
	_ = slices.DeleteFunc(a.s, func(x string) bool { return x == "" })
}

// callbacks and loop bodies that write through the elements they are handed
type callbackGenAuth struct {
	items []*item
	ptrs  map[string]*item
}

func (a *callbackGenAuth) Execute() error {
	_ = slices.ContainsFunc(a.items, func(p *item) bool { p.n++; return false })

	return nil
}

func (a *callbackGenAuth) WithConfig(map[string]any) (Authenticator, error) {
	for _, p := range maps.All(a.ptrs) {
		p.n = 0
	}

	return a, nil
}

func (a *callbackGenAuth) viaClone() {
	c := slices.Clone(a.items)
	slices.SortFunc(c, func(x, y *item) int { x.n++; return x.n - y.n })
}

var _ = []any{(*inplaceGenAuth).reverse, (*inplaceGenAuth).insert, (*inplaceGenAuth).del, (*inplaceGenAuth).compact, (*inplaceGenAuth).grow,
	(*inplaceGenAuth).clip, (*inplaceGenAuth).sortFunc, (*inplaceGenAuth).deleteFunc, (*callbackGenAuth).viaClone}

// ---- destination arguments of otherwise harmless library functions (audit 2026-10-02)
type dstAuth struct {
	m       map[string]string
	buf     []byte
	scratch []byte
	out     bytes.Buffer
	last    *myErr
}

type myErr struct{ code int }

func (e *myErr) Error() string { return "my" }

func (a *dstAuth) Execute() error { return json.Unmarshal([]byte(`{}`), &a.m) }
func (a *dstAuth) WithConfig(map[string]any) (Authenticator, error) {
	_, err := io.ReadFull(strings.NewReader("x"), a.buf)
	return a, err
}
func (a *dstAuth) appendInt()              { _ = strconv.AppendInt(a.scratch[:0], 42, 10) }
func (a *dstAuth) fprintf()                { fmt.Fprintf(&a.out, "%d", 1) }
func (a *dstAuth) errorsAs(err error) bool { return errors.As(err, &a.last) }

// the same functions with local destinations: no effect
type dstLocalAuth struct {
	raw []byte
	s   []string
}

func (a *dstLocalAuth) Execute() error {
	var m map[string]string
	if err := json.Unmarshal(a.raw, &m); err != nil {
		var me *myErr
		if errors.As(err, &me) {
			return me
		}

		return err
	}

	var out bytes.Buffer
	fmt.Fprintf(&out, "%v", a.s)

	buf := make([]byte, 4)
	_, _ = io.ReadFull(bytes.NewReader(a.raw), buf)
	_ = strconv.AppendInt(nil, int64(len(a.s)), 10)

	return nil
}

func (a *dstLocalAuth) WithConfig(map[string]any) (Authenticator, error) { return a, nil }

// ---- state behind a package-level pointer, a package-level sync.Map, a sync.Pool, a channel
type memo struct {
	m map[string]string
	n int
}

var (
	shared     = &memo{m: map[string]string{}}
	sharedMap  sync.Map
	sharedPool = sync.Pool{New: func() any { return map[string]string{} }}
	settings   = &memo{m: map[string]string{"mode": "x"}}
)

type globalPtrAuth struct{ id string }

func (a *globalPtrAuth) Execute() error                                   { shared.m[a.id] = "seen"; return nil }
func (a *globalPtrAuth) WithConfig(map[string]any) (Authenticator, error) { shared.n++; return a, nil }
func (a *globalPtrAuth) viaSyncMap()                                      { sharedMap.Store(a.id, 1) }
func (a *globalPtrAuth) viaPool() {
	m := sharedPool.Get().(map[string]string)
	m[a.id] = "x"
	sharedPool.Put(m)
}
func (a *globalPtrAuth) readOnly() string { return settings.m["mode"] + a.id }

type chanAuth struct{ jobs chan string }

func (a *chanAuth) Execute() error                                   { a.jobs <- "refresh"; return nil }
func (a *chanAuth) WithConfig(map[string]any) (Authenticator, error) { return a, nil }

var _ = []any{(*dstAuth).appendInt, (*dstAuth).fprintf, (*dstAuth).errorsAs, (*globalPtrAuth).viaSyncMap, (*globalPtrAuth).viaPool,
	(*globalPtrAuth).readOnly}
