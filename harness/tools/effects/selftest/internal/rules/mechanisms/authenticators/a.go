// Package authenticators: self-test fixture of harness/tools/effects (not heimdall code).  Every type
// below seeds exactly the receiver write named in selftest/expected.json; cleanAuth seeds none.
package authenticators

import "sort"

type Authenticator interface {
	Execute() error
	WithConfig(conf map[string]any) (Authenticator, error)
}

type endpoint struct {
	url     string
	method  string
	headers map[string]string
}

// ---- no effect: reads, local copies, fresh allocations
type cleanAuth struct {
	id string
	e  endpoint
	s  []string
}

func (a *cleanAuth) Execute() error {
	e := a.e // struct copy: a store into the copy is not a receiver write
	e.method = "GET"

	hs := make(map[string]string, len(a.e.headers))
	for k, v := range a.e.headers {
		hs[k] = v
	}

	hs["Accept"] = "x"
	e.headers = hs

	local := append([]string{}, a.s...)
	sort.Strings(local)

	return nil
}

func (a *cleanAuth) WithConfig(map[string]any) (Authenticator, error) {
	return &cleanAuth{id: a.id, e: a.e, s: a.s}, nil
}

// ---- Store to a field
type storeAuth struct{ n int }

func (a *storeAuth) Execute() error                                    { a.n++; return nil }
func (a *storeAuth) WithConfig(map[string]any) (Authenticator, error) { return a, nil }

// ---- MapUpdate through a helper that receives the map
type mapAuth struct{ e endpoint }

func setDefault(m map[string]string) {
	if _, ok := m["Accept"]; !ok {
		m["Accept"] = "application/json"
	}
}

func (a *mapAuth) Execute() error                                    { setDefault(a.e.headers); return nil }
func (a *mapAuth) WithConfig(map[string]any) (Authenticator, error) { return a, nil }

// ---- append into the shared backing array in WithConfig
type appendAuth struct{ s []string }

func (a *appendAuth) Execute() error { return nil }
func (a *appendAuth) WithConfig(conf map[string]any) (Authenticator, error) {
	s := a.s
	for k := range conf {
		s = append(s[:0], k)
	}

	return &appendAuth{s: s}, nil
}

// ---- write through a variable captured by a closure that is stored in a NAMED func type whose
// declaration names its parameters while the function literal uses blanks (regression: signatures
// were compared with their parameter names)
type resolver interface {
	Get(ctx string, args map[string]any) (*endpoint, error)
}

type resolverFunc func(ctx string, args map[string]any) (*endpoint, error)

func (f resolverFunc) Get(ctx string, args map[string]any) (*endpoint, error) { return f(ctx, args) }

type closureAuth struct{ r resolver }

func newClosureAuth(ep *endpoint) *closureAuth {
	return &closureAuth{r: resolverFunc(func(_ string, _ map[string]any) (*endpoint, error) {
		if ep.headers == nil {
			ep.headers = map[string]string{}
		}

		ep.headers["Accept"] = "application/json"

		return ep, nil
	})}
}

func (a *closureAuth) Execute() error {
	_, err := a.r.Get("", nil)

	return err
}

func (a *closureAuth) WithConfig(map[string]any) (Authenticator, error) { return a, nil }

// ---- package-level variable
var lastSeen string

type globalAuth struct{ id string }

func (a *globalAuth) Execute() error                                    { lastSeen = a.id; return nil }
func (a *globalAuth) WithConfig(map[string]any) (Authenticator, error) { return a, nil }

// ---- store in a method of an embedded pointer
type inner struct{ hits int }

func (i *inner) touch() { i.hits++ }

type embedAuth struct{ *inner }

func (a *embedAuth) Execute() error                                    { a.touch(); return nil }
func (a *embedAuth) WithConfig(map[string]any) (Authenticator, error) { return a, nil }

// ---- delete / copy / clear
type deleteAuth struct {
	m map[string]string
	s []string
}

func (a *deleteAuth) Execute() error { delete(a.m, "x"); return nil }
func (a *deleteAuth) WithConfig(conf map[string]any) (Authenticator, error) {
	copy(a.s, []string{"x"})

	return a, nil
}

// ---- interface call resolved over the module's types
type dep interface{ Do() }

type counter struct{ c int }

func (c *counter) Do() { c.c++ }

type ifaceAuth struct{ d dep }

func (a *ifaceAuth) Execute() error                                    { a.d.Do(); return nil }
func (a *ifaceAuth) WithConfig(map[string]any) (Authenticator, error) { return a, nil }

// ---- receiver-held slice handed to code outside the module that writes its argument
type sortAuth struct{ s []string }

func (a *sortAuth) Execute() error                                    { sort.Strings(a.s); return nil }
func (a *sortAuth) WithConfig(map[string]any) (Authenticator, error) { return a, nil }

// keep the constructors referenced
var _ = []any{newClosureAuth, &ifaceAuth{d: &counter{}}}
