// Package contextualizers: self-test fixture of harness/tools/effects (not heimdall code).
package contextualizers

type Contextualizer interface {
	Execute() error
	WithConfig(conf map[string]any) (Contextualizer, error)
}

type cleanContextualizer struct {
	id   string
	opts map[string]string
}

func (c *cleanContextualizer) Execute() error {
	if c.opts["x"] == "" {
		return nil
	}

	return nil
}

func (c *cleanContextualizer) WithConfig(conf map[string]any) (Contextualizer, error) {
	opts := make(map[string]string, len(c.opts))
	for k, v := range c.opts {
		opts[k] = v
	}

	for k := range conf {
		opts[k] = "set"
	}

	return &cleanContextualizer{id: c.id, opts: opts}, nil
}
