module github.com/dadrus/heimdall

go 1.23
