// variants.go — the VARIANT TABLE of property C17 (coq/Gen/Variants.v).
//
// For every mechanism type the second half of the translator answers, from the current source of
// WithConfig and of the module functions it calls (constructors, Merge helpers, the generic
// x.IfThenElse / x.IfThenElseExec and the closures handed to them):
//
//	for every FIELD of the instance WithConfig returns (a leaf of the mechanism struct; value structs of the
//	module are flattened, so cfg.Scopes is a field of oauth2ClientCredentialsFinalizer) the set of SOURCES
//	the field may be built from
//	    RecvShared p   the receiver's field p as it is, a reference: the result aliases receiver memory
//	    RecvCopy p     the receiver's field p copied by value (nothing shared)
//	    Fresh          built without reading receiver memory (override, constants, fresh allocations)
//	    MixFresh p     fresh memory whose contents were computed from the override AND the receiver's field p
//	                   (maps.Clone + inserts; expressions compiled in the shared cel environment)
//	    MixAlias p     computed from both and MAY SHARE MEMORY with the receiver's field p
//	                   (append(a.x[:0], …), slices.Clip(a.x), a sub-slice, an unanalysed callee)
//	    Zero           no store into the field at all (forgotten in the literal)
//	the writes to receiver-reachable memory performed during WithConfig (with the field they hit), and
//	for every field the methods whose write effects (first half of the translator) may hit it.
//
// Technique: an abstract interpreter over go/ssa, flow-insensitive inside a function, calls evaluated with the
// caller's abstract arguments (so IfThenElse[T] returns exactly its two operands and a closure is evaluated with
// the bindings it was created with).  An abstract value is a set of ORIGINS — (root, access path, mode) with
// root = receiver memory | override map, mode = same / alias / copy / ref — plus pointers to abstract local
// objects (one per allocation site, contents = tree of abstract values per field), closures, and "fresh".
// Struct values are trees, so `cfg := f.cfg; cfg.TTL = …; &T{cfg: cfg}` yields per-leaf answers.
// Code without analysed body: std generics by their documented contract (table stdGenerics), whitelisted
// read-only callees return fresh memory that may REFER to their arguments (mode ref), anything else that
// receives receiver-derived memory is a receiver write and its result may alias (mode alias).
package main

import (
	"fmt"
	"go/token"
	"go/types"
	"sort"
	"strings"

	"golang.org/x/tools/go/ssa"
	"golang.org/x/tools/go/ssa/ssautil"
)

func ssautilAllFunctions(p *ssa.Program) map[*ssa.Function]bool { return ssautil.AllFunctions(p) }

const (
	mSame  uint8 = iota // the value stored at that location itself
	mAlias              // shares memory with that value but is not it (sub-slice, append result, clip, unknown callee)
	mCopy               // fresh container holding copies of its elements (Clone); elements are the receiver's
	mRef                // fresh memory computed from / possibly referring to that value (read-only callee)
	mIter               // an iterator / view over that value (maps.All, slices.Values, …): yields its elements, owns no memory
)

type vorigin struct {
	root int    // 0 receiver memory, 1 the override map handed to WithConfig
	path string // from the root pointer: "^" deref, ".f" field, "[]" element
	addr bool   // the ADDRESS of that location (a pointer into root memory), not the value stored there
	mode uint8
}

type vobj struct {
	key     string
	typ     types.Type
	content *aval
	ext     bool             // handed to code without analysed body: may hold anything that code could build
	extFrom map[vorigin]bool // … in particular values derived from these
}

type vloc struct {
	obj  *vobj
	path string
}

type vclosure struct {
	fn   *ssa.Function
	bind []*aval
}

type aval struct {
	orig  map[vorigin]bool
	locs  map[vloc]bool
	fns   map[*vclosure]bool
	fresh bool
	sub   map[string]*aval
}

func newAval() *aval { return &aval{} }

func freshAval() *aval { return &aval{fresh: true} }

func (a *aval) empty() bool {
	return a == nil || (len(a.orig) == 0 && len(a.locs) == 0 && len(a.fns) == 0 && !a.fresh && len(a.sub) == 0)
}

// join: a := a ⊔ b (deep); reports whether a grew.
func (a *aval) join(b *aval) bool {
	if b == nil || a == b {
		return false
	}

	ch := false

	for o := range b.orig {
		if !a.orig[o] {
			if a.orig == nil {
				a.orig = map[vorigin]bool{}
			}

			a.orig[o] = true
			ch = true
		}
	}

	for l := range b.locs {
		if !a.locs[l] {
			if a.locs == nil {
				a.locs = map[vloc]bool{}
			}

			a.locs[l] = true
			ch = true
		}
	}

	for f := range b.fns {
		if !a.fns[f] {
			if a.fns == nil {
				a.fns = map[*vclosure]bool{}
			}

			a.fns[f] = true
			ch = true
		}
	}

	if b.fresh && !a.fresh {
		a.fresh = true
		ch = true
	}

	for k, s := range b.sub {
		if a.sub == nil {
			a.sub = map[string]*aval{}
		}

		if a.sub[k] == nil {
			a.sub[k] = newAval()
			ch = true
		}

		if a.sub[k].join(s) {
			ch = true
		}
	}

	return ch
}

func extMode(m uint8) uint8 {
	if m == mCopy || m == mIter {
		return mSame // an element of a cloned container / yielded by an iterator is the receiver's element
	}

	return m
}

// member: the abstract value of component comp (".f" or "[]") of the VALUE a.
func (a *aval) member(comp string) *aval {
	r := newAval()

	for o := range a.orig {
		if o.addr {
			continue
		}

		r.join(&aval{orig: map[vorigin]bool{{o.root, o.path + comp, false, extMode(o.mode)}: true}})
	}

	r.fresh = a.fresh
	if s := a.sub[comp]; s != nil {
		r.join(s)
	}

	return r
}

// at: the node of the content tree at path (components ".f" / "[]"), created on demand.
func (a *aval) at(path string) *aval {
	n := a
	for _, c := range splitPath(path) {
		if n.sub == nil {
			n.sub = map[string]*aval{}
		}

		if n.sub[c] == nil {
			n.sub[c] = newAval()
		}

		n = n.sub[c]
	}

	return n
}

// lookup: the value stored at path inside the content tree a.
func (a *aval) lookup(path string) *aval {
	cur := a
	for _, c := range splitPath(path) {
		cur = cur.member(c)
	}

	return cur
}

func splitPath(p string) []string {
	var out []string

	for len(p) > 0 {
		switch {
		case strings.HasPrefix(p, "[]"):
			out = append(out, "[]")
			p = p[2:]
		case p[0] == '^':
			out = append(out, "^")
			p = p[1:]
		case p[0] == '.':
			j := 1
			for j < len(p) && p[j] != '.' && p[j] != '[' && p[j] != '^' {
				j++
			}

			out = append(out, p[:j])
			p = p[j:]
		default:
			return append(out, p)
		}
	}

	return out
}

// ---------------------------------------------------------------- interpreter

type recvWrite struct {
	Kind string `json:"kind"`
	Path string `json:"path"` // access path from the receiver, e.g. cfg.Scopes[]
	Fn   string `json:"fn"`
	Pos  string `json:"pos"`
	What string `json:"what"`
}

type vinterp struct {
	a      *analyzer
	objs   map[string]*vobj
	clos   map[ssa.Value]*vclosure
	ver    int // bumped whenever the heap or a closure grows
	stack  map[*ssa.Function]bool
	fnres  map[*ssa.Function]*aval
	writes map[string]recvWrite
	memo   map[string]*aval
	evals  int
	trace  bool
}

func (vi *vinterp) obj(site ssa.Value, tag string, t types.Type) *vobj {
	k := fmt.Sprintf("%p%s", site, tag)
	if o := vi.objs[k]; o != nil {
		return o
	}

	o := &vobj{key: k, typ: t, content: newAval(), extFrom: map[vorigin]bool{}}
	vi.objs[k] = o

	return o
}

func (vi *vinterp) write(kind string, o vorigin, fn *ssa.Function, pos token.Pos, what string) {
	if o.root != 0 || (o.mode != mSame && o.mode != mAlias) {
		return
	}

	w := recvWrite{Kind: kind, Path: prettyPath(o.path), Fn: fnName(fn), Pos: vi.a.pos(pos), What: what}
	k := w.Kind + "|" + w.Path + "|" + w.Pos

	if _, ok := vi.writes[k]; !ok {
		vi.writes[k] = w
		vi.ver++
	}
}

func prettyPath(p string) string {
	p = strings.TrimPrefix(p, "^")
	p = strings.TrimPrefix(p, ".")

	return p
}

type vframe struct {
	vi   *vinterp
	fn   *ssa.Function
	vals map[ssa.Value]*aval
	res  *aval
	ch   bool
	d    int
}

func (fr *vframe) get(v ssa.Value) *aval {
	switch x := v.(type) {
	case *ssa.Const, *ssa.Global, *ssa.Builtin:
		return freshAval()
	case *ssa.Function:
		c := fr.vi.clos[x]
		if c == nil {
			c = &vclosure{fn: x}
			fr.vi.clos[x] = c
		}

		return &aval{fns: map[*vclosure]bool{c: true}}
	}

	if r := fr.vals[v]; r != nil {
		return r
	}

	return newAval()
}

func (fr *vframe) set(v ssa.Value, nv *aval) {
	cur := fr.vals[v]
	if cur == nil {
		cur = newAval()
		fr.vals[v] = cur
	}

	if cur.join(nv) {
		fr.ch = true
	}
}

// load: the value stored where the pointer p points.
func (fr *vframe) load(p *aval) *aval {
	r := newAval()

	for l := range p.locs {
		r.join(l.obj.content.lookup(l.path))

		if l.obj.ext {
			r.fresh = true
			for o := range l.obj.extFrom {
				r.join(&aval{orig: map[vorigin]bool{o: true}})
			}
		}
	}

	for o := range p.orig {
		if o.addr {
			r.join(&aval{orig: map[vorigin]bool{{o.root, o.path, false, o.mode}: true}})
		} else {
			r.join(&aval{orig: map[vorigin]bool{{o.root, o.path + "^", false, extMode(o.mode)}: true}})
		}
	}

	if p.fresh {
		r.fresh = true
	}

	return r
}

// addrOf: the address of component comp of what pointer p points to (p a pointer to a struct / array, or a slice value).
func (fr *vframe) addrOf(p *aval, comp string) *aval {
	r := newAval()

	for l := range p.locs {
		r.join(&aval{locs: map[vloc]bool{{l.obj, l.path + comp}: true}})
	}

	for o := range p.orig {
		if o.addr {
			r.join(&aval{orig: map[vorigin]bool{{o.root, o.path + comp, true, o.mode}: true}})
		} else {
			deref := "^"
			if comp == "[]" {
				deref = "" // a slice value: its elements are path[]
			}

			r.join(&aval{orig: map[vorigin]bool{{o.root, o.path + deref + comp, true, extMode(o.mode)}: true}})
		}
	}

	if p.fresh {
		r.fresh = true
	}

	return r
}

// store: *p = v
func (fr *vframe) store(p, v *aval, pos token.Pos, kind string) {
	for l := range p.locs {
		if l.obj.content.at(l.path).join(v) {
			fr.vi.ver++
		}
	}

	for o := range p.orig {
		if o.addr {
			fr.vi.write(kind, o, fr.fn, pos, "")
		} else {
			fr.vi.write(kind, vorigin{o.root, o.path + "^", false, o.mode}, fr.fn, pos, "")
		}
	}
}

// elemsOf: the elements of the container value c (slice, map, array value).
func (fr *vframe) elemsOf(c *aval) *aval {
	r := newAval()

	for l := range c.locs {
		r.join(l.obj.content.lookup(l.path + "[]"))

		if l.obj.ext {
			r.fresh = true
			for o := range l.obj.extFrom {
				r.join(&aval{orig: map[vorigin]bool{o: true}})
			}
		}
	}

	for o := range c.orig {
		if o.addr {
			r.join(&aval{orig: map[vorigin]bool{{o.root, o.path + "[]", false, o.mode}: true}})
		} else {
			r.join(&aval{orig: map[vorigin]bool{{o.root, o.path + "[]", false, extMode(o.mode)}: true}})
		}
	}

	if s := c.sub["[]"]; s != nil {
		r.join(s)
	}

	if c.fresh {
		r.fresh = true
	}

	return r
}

func withMode(a *aval, m uint8) *aval {
	r := newAval()
	for o := range a.orig {
		nm := m
		if o.mode == mRef || (o.mode == mCopy && m == mAlias) {
			nm = o.mode // memory that is already fresh stays fresh
		}

		if o.mode == mAlias && m != mAlias {
			nm = mAlias
		}

		r.join(&aval{orig: map[vorigin]bool{{o.root, o.path, false, nm}: true}})
	}

	return r
}

func (fr *vframe) instr(ins ssa.Instruction) {
	switch x := ins.(type) {
	case *ssa.Alloc:
		fr.set(x, &aval{locs: map[vloc]bool{{fr.vi.obj(x, "", x.Type().Underlying().(*types.Pointer).Elem()), ""}: true}})
	case *ssa.MakeMap, *ssa.MakeSlice, *ssa.MakeChan:
		v := x.(ssa.Value)
		fr.set(v, &aval{locs: map[vloc]bool{{fr.vi.obj(v, "", v.Type()), ""}: true}})
	case *ssa.FieldAddr:
		st := x.X.Type().Underlying().(*types.Pointer).Elem().Underlying().(*types.Struct)
		fr.set(x, fr.addrOf(fr.get(x.X), "."+st.Field(x.Field).Name()))
	case *ssa.IndexAddr:
		fr.set(x, fr.addrOf(fr.get(x.X), "[]"))
	case *ssa.Field:
		st := x.X.Type().Underlying().(*types.Struct)
		fr.set(x, fr.get(x.X).member("."+st.Field(x.Field).Name()))
	case *ssa.Index:
		fr.set(x, fr.elemsOf(fr.get(x.X)))
	case *ssa.Lookup:
		fr.set(x, fr.elemsOf(fr.get(x.X)))
	case *ssa.UnOp:
		switch x.Op {
		case token.MUL:
			fr.set(x, fr.load(fr.get(x.X)))
		default:
			fr.set(x, freshAval())
		}
	case *ssa.BinOp:
		fr.set(x, freshAval())
	case *ssa.Slice:
		v := fr.get(x.X)
		r := withMode(v, mAlias)

		for o := range v.orig {
			if o.addr { // pointer to an array in root memory
				r.join(&aval{orig: map[vorigin]bool{{o.root, o.path, false, mAlias}: true}})
			}
		}

		r.join(&aval{locs: v.locs, fresh: v.fresh})
		fr.set(x, r)
	case *ssa.Phi:
		for _, e := range x.Edges {
			fr.set(x, fr.get(e))
		}
	case *ssa.ChangeType:
		fr.set(x, fr.get(x.X))
	case *ssa.ChangeInterface:
		fr.set(x, fr.get(x.X))
	case *ssa.MakeInterface:
		fr.set(x, fr.get(x.X))
	case *ssa.SliceToArrayPointer:
		fr.set(x, fr.get(x.X))
	case *ssa.TypeAssert:
		fr.set(x, fr.get(x.X))
	case *ssa.Convert:
		if pointerLike(x.Type()) && pointerLike(x.X.Type()) {
			if _, isStr := x.X.Type().Underlying().(*types.Basic); !isStr {
				fr.set(x, fr.get(x.X))

				return
			}
		}

		fr.set(x, freshAval())
	case *ssa.MultiConvert:
		fr.set(x, fr.get(x.X))
	case *ssa.Extract:
		t := fr.get(x.Tuple)
		if s := t.sub[fmt.Sprintf("#%d", x.Index)]; s != nil {
			fr.set(x, s)
		} else {
			fr.set(x, &aval{orig: t.orig, locs: t.locs, fns: t.fns, fresh: t.fresh})
		}
	case *ssa.Range:
		fr.set(x, fr.get(x.X))
	case *ssa.Next:
		e := fr.elemsOf(fr.get(x.Iter))
		e.fresh = true
		fr.set(x, e)
	case *ssa.Select:
		fr.set(x, freshAval())
	case *ssa.MakeClosure:
		c := fr.vi.clos[x]
		if c == nil {
			c = &vclosure{fn: x.Fn.(*ssa.Function), bind: make([]*aval, len(x.Bindings))}
			for i := range c.bind {
				c.bind[i] = newAval()
			}

			fr.vi.clos[x] = c
		}

		for i, b := range x.Bindings {
			if c.bind[i].join(fr.get(b)) {
				fr.vi.ver++
			}
		}

		fr.set(x, &aval{fns: map[*vclosure]bool{c: true}})
	case *ssa.Store:
		fr.store(fr.get(x.Addr), fr.get(x.Val), x.Pos(), "Store")
	case *ssa.MapUpdate:
		m := fr.get(x.Map)
		v := fr.get(x.Value)

		for l := range m.locs {
			if l.obj.content.at(l.path + "[]").join(v) {
				fr.vi.ver++
			}
		}

		for o := range m.orig {
			fr.vi.write("MapUpdate", vorigin{o.root, o.path, false, o.mode}, fr.fn, x.Pos(), "")
		}
	case *ssa.Call:
		fr.set(x, fr.call(&x.Call, x, x.Pos()))
	case *ssa.Go:
		fr.call(&x.Call, nil, x.Pos())
	case *ssa.Defer:
		fr.call(&x.Call, nil, x.Pos())
	case *ssa.Return:
		if len(x.Results) == 1 {
			if fr.res.join(fr.get(x.Results[0])) {
				fr.ch = true
			}
		} else {
			for i, r := range x.Results {
				if fr.res.at(fmt.Sprintf("#%d", i)).join(fr.get(r)) {
					fr.ch = true
				}
			}
		}
	}
}

// rootOrigins: every receiver / override origin reachable from v (through local objects and closures).
func (fr *vframe) rootOrigins(v *aval, out map[vorigin]bool, seen map[*vobj]bool, depth int) {
	if v == nil || depth > 6 {
		return
	}

	for o := range v.orig {
		out[o] = true
	}

	for l := range v.locs {
		if seen[l.obj] {
			continue
		}

		seen[l.obj] = true
		fr.rootOrigins(l.obj.content, out, seen, depth+1)

		for o := range l.obj.extFrom {
			out[o] = true
		}
	}

	for c := range v.fns {
		for _, b := range c.bind {
			fr.rootOrigins(b, out, seen, depth+1)
		}
	}

	for _, s := range v.sub {
		fr.rootOrigins(s, out, seen, depth)
	}
}

func (fr *vframe) localObjs(v *aval, out map[*vobj]bool, depth int) {
	if v == nil || depth > 6 {
		return
	}

	for l := range v.locs {
		if out[l.obj] {
			continue
		}

		out[l.obj] = true
		fr.localObjs(l.obj.content, out, depth+1)
	}

	for c := range v.fns {
		for _, b := range c.bind {
			fr.localObjs(b, out, depth+1)
		}
	}

	for _, s := range v.sub {
		fr.localObjs(s, out, depth)
	}
}

func (fr *vframe) call(c *ssa.CallCommon, res ssa.Value, pos token.Pos) *aval {
	var args []*aval

	var argVals []ssa.Value

	if c.IsInvoke() {
		args = append(args, fr.get(c.Value))
		argVals = append(argVals, c.Value)
	}

	for _, a := range c.Args {
		args = append(args, fr.get(a))
		argVals = append(argVals, a)
	}

	if b, ok := c.Value.(*ssa.Builtin); ok && !c.IsInvoke() {
		return fr.builtin(b.Name(), args, res, pos)
	}

	type target struct {
		fn   *ssa.Function
		bind []*aval
	}

	var targets []target

	name := calleeName(c)

	switch {
	case c.IsInvoke():
		impls := fr.vi.a.implementations(c)
		if len(impls) > 0 && len(impls) <= 8 {
			for _, fn := range impls {
				targets = append(targets, target{fn: fn})
			}
		}
	default:
		if fn := c.StaticCallee(); fn != nil {
			t := target{fn: fn}
			if mc, ok := c.Value.(*ssa.MakeClosure); ok {
				if cl := fr.vi.clos[mc]; cl != nil {
					t.bind = cl.bind
				}
			}

			targets = append(targets, t)
		} else {
			for cl := range fr.get(c.Value).fns {
				targets = append(targets, target{fn: cl.fn, bind: cl.bind})
			}

			sort.Slice(targets, func(i, j int) bool { return targets[i].fn.String() < targets[j].fn.String() })
		}
	}

	r := newAval()
	analysed := false

	for _, t := range targets {
		if t.fn.Blocks == nil || !inModule(t.fn) {
			n := t.fn.String()
			if c.IsInvoke() {
				n = name
			}

			r.join(fr.external(n, args, argVals, pos, res))
			analysed = true

			continue
		}

		params := args
		if len(params) > len(t.fn.Params) {
			params = params[:len(t.fn.Params)]
		}

		r.join(fr.vi.eval(t.fn, params, t.bind, fr.d+1))
		analysed = true
	}

	if !analysed {
		r.join(fr.external(name, args, argVals, pos, res))
	}

	return r
}

func (fr *vframe) builtin(name string, args []*aval, res ssa.Value, pos token.Pos) *aval {
	switch name {
	case "append":
		r := newAval()
		if len(args) == 0 {
			return freshAval()
		}

		// the result is either the first argument's backing array (written in place when there is room) or a new one
		for o := range args[0].orig {
			fr.vi.write("AppendInto", vorigin{o.root, o.path, false, o.mode}, fr.fn, pos, "append writes into the spare capacity of its first argument")
		}

		r.join(withMode(args[0], mAlias))
		r.join(&aval{locs: args[0].locs})

		if res != nil {
			o := fr.vi.obj(res, "append", res.Type())
			el := fr.elemsOf(args[0])

			if len(args) > 1 {
				el.join(fr.elemsOf(args[1]))
			}

			el.fresh = false
			if o.content.at("[]").join(el) {
				fr.vi.ver++
			}

			r.join(&aval{locs: map[vloc]bool{{o, ""}: true}})

			// appending to a local slice may write into that local object
			for l := range args[0].locs {
				if len(args) > 1 && l.obj.content.at(l.path+"[]").join(fr.elemsOf(args[1])) {
					fr.vi.ver++
				}
			}
		}

		return r
	case "copy":
		if len(args) > 1 {
			for o := range args[0].orig {
				fr.vi.write("CopyInto", vorigin{o.root, o.path, false, o.mode}, fr.fn, pos, "")
			}

			for l := range args[0].locs {
				if l.obj.content.at(l.path + "[]").join(fr.elemsOf(args[1])) {
					fr.vi.ver++
				}
			}
		}

		return freshAval()
	case "delete", "clear":
		if len(args) > 0 {
			for o := range args[0].orig {
				fr.vi.write(strings.ToUpper(name[:1])+name[1:], vorigin{o.root, o.path, false, o.mode}, fr.fn, pos, "")
			}
		}

		return freshAval()
	}

	return freshAval()
}

// external: a callee without analysed body.
// stdSources: for the in-place functions of std slices / maps, the arguments whose ELEMENTS are copied into the first
// argument (the destination).  The copy is element-wise and shallow, exactly as in maps.Clone / slices.Clone: the
// destination container is not the source container; what the elements refer to is shared.
var stdSources = map[string][]int{
	"maps.Copy":        {1},
	"maps.Insert":      {1},
	"slices.Insert":    {2},
	"slices.Replace":   {3},
	"slices.AppendSeq": {1},
}

// stdMayRealloc: in-place functions whose result may be a NEW backing array holding the same elements
var stdMayRealloc = map[string]bool{
	"slices.Insert": true, "slices.Replace": true, "slices.AppendSeq": true, "slices.Grow": true, "slices.Clip": true,
	"slices.Delete": true, "slices.DeleteFunc": true, "slices.Compact": true, "slices.CompactFunc": true,
}

// stdCall: the generic functions of std slices / maps / iter by their documented contract.
//
//	fresh    (Clone, Collect, Sorted*, Concat, Repeat, maps.Clone/Collect): a NEW container (abstract object of this call
//	         site) holding the elements of the arguments
//	writer   (maps.Copy/Insert, slices.Insert/Replace/AppendSeq/Sort/…): the first argument is worked on in place — a
//	         receiver write if it is receiver memory; if it is a local container, it receives the ELEMENTS of the source
//	         arguments (stdSources) and stays a local container
//	pure     iterators and views: yield the elements of their argument (mode iter)
//
// In all three cases the container level is decided here and the ELEMENTS keep their identity: an element that is a
// reference is shared with the receiver at that depth, exactly as after maps.Clone.
func (fr *vframe) stdCall(name string, g stdGen, args []*aval, argVals []ssa.Value, pos token.Pos, site ssa.Value) *aval {
	base := name
	if i := strings.Index(base, "["); i >= 0 {
		base = base[:i]
	}

	r := newAval()
	isFn := func(i int) bool {
		_, ok := argVals[i].Type().Underlying().(*types.Signature)

		return ok && !isIterSig(argVals[i].Type())
	}
	siteObj := func(tag string) *vobj {
		if site == nil {
			return nil
		}

		return fr.vi.obj(site, tag, site.Type())
	}
	fill := func(o *vobj, el *aval) {
		if o == nil || el.empty() {
			return
		}

		e2 := newAval()
		e2.join(el)
		e2.fresh = false

		if o.content.at("[]").join(e2) {
			fr.vi.ver++
		}
	}

	switch {
	case g.fresh:
		o := siteObj("std")
		for i, a := range args {
			if isFn(i) {
				continue
			}

			el := fr.elemsOf(a)
			if base == "slices.Concat" {
				el = fr.elemsOf(el) // the argument is the variadic slice OF slices: the result holds their elements
			}

			fill(o, el)
		}

		if o != nil {
			r.join(&aval{locs: map[vloc]bool{{o, ""}: true}})
		} else {
			r.fresh = true
		}
	case g.writer:
		if len(args) == 0 {
			return freshAval()
		}

		for o := range args[0].orig {
			fr.vi.write("InPlace", vorigin{o.root, o.path, false, o.mode}, fr.fn, pos, name+" works on its first argument in place")
		}

		src := newAval()
		for _, i := range stdSources[base] {
			if i < len(args) {
				src.join(fr.elemsOf(args[i]))
			}
		}

		for l := range args[0].locs {
			if !src.empty() {
				e2 := newAval()
				e2.join(src)
				e2.fresh = false

				if l.obj.content.at(l.path + "[]").join(e2) {
					fr.vi.ver++
				}
			}
		}

		r.join(withMode(args[0], mAlias))
		r.join(&aval{locs: args[0].locs})

		if stdMayRealloc[base] {
			o := siteObj("std")
			fill(o, fr.elemsOf(args[0]))
			fill(o, src)

			if o != nil {
				r.join(&aval{locs: map[vloc]bool{{o, ""}: true}})
			}
		}
	default:
		// iterators, views, scans
		r.fresh = true

		for i, a := range args {
			if isFn(i) {
				continue
			}

			for o := range a.orig {
				m := uint8(mIter)
				if o.mode == mRef || o.mode == mCopy {
					m = o.mode
				}

				r.join(&aval{orig: map[vorigin]bool{{o.root, o.path, o.addr, m}: true}})
			}

			r.join(&aval{locs: a.locs})
		}
	}

	// callbacks (…Func) are called with elements of the arguments
	el := freshAval()
	for i, a := range args {
		if !isFn(i) {
			el.join(fr.elemsOf(a))
		}
	}

	for _, a := range args {
		for cl := range a.fns {
			if cl.fn.Blocks != nil && inModule(cl.fn) {
				ps := make([]*aval, len(cl.fn.Params))
				for i := range ps {
					ps[i] = el
				}

				fr.vi.eval(cl.fn, ps, cl.bind, fr.d+1)
			}
		}
	}

	return r
}

func (fr *vframe) external(name string, args []*aval, argVals []ssa.Value, pos token.Pos, site ssa.Value) *aval {
	if g, isStd := stdGeneric(name); isStd {
		return fr.stdCall(name, g, args, argVals, pos, site)
	}

	all := map[vorigin]bool{}
	per := make([]map[vorigin]bool, len(args))

	for i, a := range args {
		per[i] = map[vorigin]bool{}
		fr.rootOrigins(a, per[i], map[*vobj]bool{}, 0)

		for o := range per[i] {
			all[o] = true
		}
	}

	r := freshAval()
	resMode := mRef

	switch {
	case isFresh(name):
		resMode = mCopy
	default:
		for i := range args {
			recv := false

			for o := range per[i] {
				if o.root == 0 && (o.mode == mSame || o.mode == mAlias || o.mode == mIter) {
					recv = true
				}
			}

			if !recv || !pointerLike(argVals[i].Type()) {
				continue
			}

			if dstWrites(name, i) {
				for o := range args[i].orig {
					fr.vi.write("UnknownCall", vorigin{o.root, o.path, false, o.mode}, fr.fn, pos, name+" writes this argument")
				}

				continue
			}

			if wl, _ := whitelisted(name, i, P); !wl {
				resMode = mAlias

				for o := range per[i] {
					fr.vi.write("UnknownCall", vorigin{o.root, o.path, false, o.mode}, fr.fn, pos, name+" receives receiver memory and is not known to be read-only")
				}
			}
		}
	}

	for o := range all {
		if o.root != 0 {
			continue
		}

		m := resMode
		if o.mode == mRef || o.mode == mCopy {
			if m == mAlias {
				m = o.mode
			}
		}

		if m == mCopy && o.mode == mAlias {
			m = mCopy
		}

		r.join(&aval{orig: map[vorigin]bool{{o.root, o.path, false, m}: true}})
	}

	// local objects handed to this code may afterwards hold whatever it could build from its arguments
	objs := map[*vobj]bool{}
	for _, a := range args {
		fr.localObjs(a, objs, 0)
	}

	for ob := range objs {
		if !ob.ext {
			ob.ext = true
			fr.vi.ver++
		}

		for o := range all {
			if o.root != 0 {
				continue
			}

			m := resMode
			if m == mCopy {
				m = mRef
			}

			no := vorigin{o.root, o.path, false, m}
			if !ob.extFrom[no] {
				ob.extFrom[no] = true
				fr.vi.ver++
			}
		}
	}

	// function arguments are called by that code: evaluate them (their writes count), results are dropped
	for _, a := range args {
		for cl := range a.fns {
			if cl.fn.Blocks != nil && inModule(cl.fn) {
				ps := make([]*aval, len(cl.fn.Params))
				for i := range ps {
					ps[i] = freshAval()

					for o := range all {
						ps[i].join(&aval{orig: map[vorigin]bool{{o.root, o.path + "[]", false, extMode(o.mode)}: true}})
					}
				}

				fr.vi.eval(cl.fn, ps, cl.bind, fr.d+1)
			}
		}
	}

	return r
}

func fingerprint(a *aval, sb *strings.Builder, depth int) {
	if a == nil || depth > 5 {
		return
	}

	var ks []string
	for o := range a.orig {
		ks = append(ks, fmt.Sprintf("o%d%s%v%d", o.root, o.path, o.addr, o.mode))
	}

	for l := range a.locs {
		ks = append(ks, "l"+l.obj.key+l.path)
	}

	for c := range a.fns {
		ks = append(ks, fmt.Sprintf("f%p", c))
	}

	sort.Strings(ks)
	sb.WriteString(strings.Join(ks, ","))

	if a.fresh {
		sb.WriteString("!")
	}

	var ss []string
	for k := range a.sub {
		ss = append(ss, k)
	}

	sort.Strings(ss)

	for _, k := range ss {
		sb.WriteString("{" + k + ":")
		fingerprint(a.sub[k], sb, depth+1)
		sb.WriteString("}")
	}
}

func (vi *vinterp) eval(fn *ssa.Function, args []*aval, bind []*aval, depth int) *aval {
	if vi.fnres[fn] == nil {
		vi.fnres[fn] = newAval()
	}

	if vi.stack[fn] {
		return vi.fnres[fn] // recursion: the result accumulated so far (the outer rounds iterate to a fixpoint)
	}

	if depth > 14 {
		// too deep to follow: like an unknown callee, the result may be anything built from the arguments
		r := freshAval()
		fr := &vframe{vi: vi, fn: fn}
		all := map[vorigin]bool{}

		for _, a := range append(append([]*aval{}, args...), bind...) {
			fr.rootOrigins(a, all, map[*vobj]bool{}, 0)
		}

		for o := range all {
			if o.root == 0 {
				r.join(&aval{orig: map[vorigin]bool{{o.root, o.path, false, mAlias}: true}})
			}
		}

		return r
	}

	var sb strings.Builder

	fmt.Fprintf(&sb, "%p@%d|", fn, vi.ver)

	for _, a := range args {
		fingerprint(a, &sb, 0)
		sb.WriteString(";")
	}

	sb.WriteString("|")

	for _, b := range bind {
		fingerprint(b, &sb, 0)
		sb.WriteString(";")
	}

	key := sb.String()
	if r, ok := vi.memo[key]; ok {
		return r
	}

	vi.stack[fn] = true
	defer func() { vi.stack[fn] = false }()

	vi.evals++
	fr := &vframe{vi: vi, fn: fn, vals: map[ssa.Value]*aval{}, res: newAval(), d: depth}

	for i, p := range fn.Params {
		if i < len(args) && args[i] != nil {
			fr.vals[p] = newAval()
			fr.vals[p].join(args[i])
		}
	}

	for i, f := range fn.FreeVars {
		if i < len(bind) && bind[i] != nil {
			fr.vals[f] = newAval()
			fr.vals[f].join(bind[i])
		}
	}

	for iter := 0; iter < 30; iter++ {
		fr.ch = false
		v0 := vi.ver

		for _, b := range fn.Blocks {
			for _, ins := range b.Instrs {
				fr.instr(ins)
			}
		}

		if !fr.ch && vi.ver == v0 {
			break
		}
	}

	if vi.trace {
		fmt.Printf("VTRACE %s depth=%d\n", fn.String(), depth)

		for _, b := range fn.Blocks {
			for _, ins := range b.Instrs {
				if v, ok := ins.(ssa.Value); ok && !fr.vals[v].empty() {
					fmt.Printf("    %-6s = %-60.60s : %s\n", v.Name(), ins.String(), showAval(fr.vals[v]))
				}
			}
		}
	}

	vi.fnres[fn].join(fr.res)
	vi.memo[key] = fr.res

	return fr.res
}

func showAval(a *aval) string {
	if a == nil {
		return "-"
	}

	var ks []string

	for o := range a.orig {
		s := fmt.Sprintf("r%d:%s", o.root, o.path)
		if o.addr {
			s = "&" + s
		}

		s += []string{"", "~alias", "~copy", "~ref", "~iter"}[o.mode]
		ks = append(ks, s)
	}

	for l := range a.locs {
		ks = append(ks, "loc("+l.obj.typ.String()+l.path+")")
	}

	for c := range a.fns {
		ks = append(ks, "fn:"+c.fn.Name())
	}

	if a.fresh {
		ks = append(ks, "fresh")
	}

	sort.Strings(ks)

	var ss []string
	for k := range a.sub {
		ss = append(ss, k)
	}

	sort.Strings(ss)

	for _, k := range ss {
		ks = append(ks, k+"={"+showAval(a.sub[k])+"}")
	}

	return strings.Join(ks, " ")
}

// ---------------------------------------------------------------- leaves of the mechanism struct

type vleaf struct {
	name   string     // cfg.Scopes
	typ    types.Type // []string
	holder types.Type // the struct type that declares the field
	field  string
}

func flattenable(t types.Type) bool {
	if _, ok := t.Underlying().(*types.Struct); !ok {
		return false
	}

	if n, ok := types.Unalias(t).(*types.Named); ok {
		return n.Obj().Pkg() != nil && strings.HasPrefix(n.Obj().Pkg().Path(), module)
	}

	return true // unnamed struct
}

func leavesOf(t types.Type, prefix string, depth int) []vleaf {
	st, ok := t.Underlying().(*types.Struct)
	if !ok {
		return nil
	}

	var out []vleaf

	for i := 0; i < st.NumFields(); i++ {
		f := st.Field(i)
		n := prefix + f.Name()

		if depth < 4 && flattenable(f.Type()) && f.Type().Underlying().(*types.Struct).NumFields() > 0 {
			out = append(out, leavesOf(f.Type(), n+".", depth+1)...)

			continue
		}

		out = append(out, vleaf{name: n, typ: f.Type(), holder: t, field: f.Name()})
	}

	return out
}

// leafIndex: the leaf that contains the location path (relative to the receiver), or len(leaves).
func leafIndex(leaves []vleaf, path string) int {
	p := prettyPath(path)
	best, bestLen := len(leaves), -1

	for i, l := range leaves {
		if p == l.name || (strings.HasPrefix(p, l.name) && strings.ContainsRune(".^[", rune(p[len(l.name)]))) {
			if len(l.name) > bestLen {
				best, bestLen = i, len(l.name)
			}
		}
	}

	if bestLen < 0 {
		// the path names a whole flattened struct (cfg): the first leaf inside it
		for i, l := range leaves {
			if strings.HasPrefix(l.name, p+".") || p == "" {
				return i
			}
		}
	}

	return best
}

// ---------------------------------------------------------------- the table

type VSrc struct {
	Kind string `json:"kind"` // RecvShared | RecvCopy | Fresh | MixFresh | MixAlias | Zero
	P    int    `json:"p"`
	From string `json:"from,omitempty"` // the receiver location, as found
	How  string `json:"how,omitempty"`
	// Depth: how far below the receiver's field p the shared / consulted memory sits: 0 = the field's own value,
	// 1 = its elements / pointee (what maps.Clone, maps.Copy, copy(), append(fresh, src...) and an assignment loop share),
	// 2 = elements of elements, …  Sharing is tolerated at EVERY depth under one condition, checked by variant_row_ok
	// through vf_writers of p: no method has a write effect that can hit memory reachable from the receiver's field p
	// (type reachability from the field's type, which includes its elements and everything they refer to).
	Depth int `json:"depth"`
}

func pathDepth(leaf, from string) int {
	rest := strings.TrimPrefix(from, leaf)

	return strings.Count(rest, "[]") + strings.Count(rest, "^")
}

type VField struct {
	Name     string   `json:"name"`
	Type     string   `json:"type"`
	Srcs     []VSrc   `json:"srcs"`
	Writers  []string `json:"writers"`
	WritesBy []string `json:"written_by,omitempty"` // method: effect (position), for the report
}

type VWrite struct {
	Kind   string `json:"kind"`
	Fn     string `json:"fn"`
	Field  string `json:"field"`
	Detail string `json:"detail"`
	Pos    string `json:"pos"`
}

type VRow struct {
	Pkg        string   `json:"pkg"`
	Type       string   `json:"type"`
	Self       bool     `json:"self"`
	Results    int      `json:"results"` // allocation sites of returned instances
	Fields     []VField `json:"fields"`
	RecvWrites []VWrite `json:"recv_writes"`
	Ok         bool     `json:"ok"`
	Bad        []string `json:"bad"`
	Evals      int      `json:"evals"`
}

func (s VSrc) key() string { return fmt.Sprintf("%s|%d", s.Kind, s.P) }

func srcRank(k string) int {
	return map[string]int{"RecvShared": 0, "RecvCopy": 1, "Fresh": 2, "MixFresh": 3, "MixAlias": 4, "Zero": 5}[k]
}

// classify: the sources of the leaf whose abstract value is v.
func (vi *vinterp) classify(fr *vframe, leaves []vleaf, k int, v *aval) []VSrc {
	out := map[string]VSrc{}
	add := func(s VSrc) {
		if s.P < len(leaves) && s.From != "" {
			s.Depth = pathDepth(leaves[s.P].name, strings.TrimPrefix(s.From, "&"))
		}

		if old, ok := out[s.key()]; !ok || s.Depth < old.Depth {
			out[s.key()] = s
		}
	}
	leaf := leaves[k]
	own := leaf.name
	shared := pointerLike(leaf.typ)

	for o := range v.orig {
		if o.root != 0 {
			add(VSrc{Kind: "Fresh", How: "from the override"})

			continue
		}

		p := leafIndex(leaves, o.path)
		from := prettyPath(o.path)

		switch {
		case o.addr:
			add(VSrc{Kind: "MixAlias", P: p, From: "&" + from, How: "a pointer into the receiver"})
		case o.mode == mAlias || o.mode == mIter:
			add(VSrc{Kind: "MixAlias", P: p, From: from, How: "may share memory with the receiver's " + from})
		case o.mode == mCopy || o.mode == mRef:
			add(VSrc{Kind: "MixFresh", P: p, From: from, How: "fresh memory computed from the receiver's " + from})
		case from == own || (p < len(leaves) && from == leaves[p].name):
			if shared {
				how := "the receiver's reference"
				if _, isStruct := leaf.typ.Underlying().(*types.Struct); isStruct {
					how = "struct copied by value, the references inside it are shared"
				}

				add(VSrc{Kind: "RecvShared", P: p, From: from, How: how})
			} else {
				add(VSrc{Kind: "RecvCopy", P: p, From: from, How: "copied by value"})
			}
		default:
			// a value found INSIDE a receiver field (a.e^.URL, a.m[]): not the field itself
			if shared {
				add(VSrc{Kind: "MixAlias", P: p, From: from, How: "a reference found inside the receiver's " + from})
			} else {
				add(VSrc{Kind: "MixFresh", P: p, From: from, How: "a value read from inside the receiver's " + from})
			}
		}
	}

	if v.fresh {
		add(VSrc{Kind: "Fresh"})
	}

	// containers, closures, struct values: each one separately — a fresh container is Fresh if nothing of the receiver
	// is inside it, MixFresh if it holds the receiver's ELEMENTS (shared at their depth, like after maps.Clone), MixAlias
	// if it holds memory that may overlap the receiver's own containers
	var parts []*aval
	for l := range v.locs {
		parts = append(parts, &aval{locs: map[vloc]bool{l: true}})
	}

	for c := range v.fns {
		parts = append(parts, &aval{fns: map[*vclosure]bool{c: true}})
	}

	if len(v.sub) > 0 {
		parts = append(parts, &aval{sub: v.sub})
	}

	for _, part := range parts {
		inner := map[vorigin]bool{}
		fr.rootOrigins(part, inner, map[*vobj]bool{}, 0)

		any := false

		for o := range inner {
			if o.root != 0 {
				continue
			}

			any = true
			p := leafIndex(leaves, o.path)
			from := prettyPath(o.path)

			if o.addr || o.mode == mAlias || o.mode == mIter {
				add(VSrc{Kind: "MixAlias", P: p, From: from, How: "fresh container holding memory that may be shared with the receiver's " + from})
			} else {
				add(VSrc{Kind: "MixFresh", P: p, From: from, How: "fresh container filled from the receiver's " + from})
			}
		}

		if !any {
			add(VSrc{Kind: "Fresh", How: "fresh allocation"})
		}
	}

	if len(out) == 0 {
		add(VSrc{Kind: "Zero", How: "no store into this field on any path"})
	}

	var l []VSrc
	for _, s := range out {
		l = append(l, s)
	}

	sort.Slice(l, func(i, j int) bool {
		if srcRank(l[i].Kind) != srcRank(l[j].Kind) {
			return srcRank(l[i].Kind) < srcRank(l[j].Kind)
		}

		return l[i].P < l[j].P
	})

	return l
}

// leafMayHit: may effect e (found by the taint analysis) write memory that belongs to leaf l of mechanism type mt?
func (a *analyzer) leafMayHit(mt types.Type, l vleaf, rt *rtset, e Effect) bool {
	if e.Kind == "GlobalWrite" {
		return false // package-level state is nobody's field
	}

	if e.ctype == nil || rt.top {
		return true
	}

	if !e.arg {
		c := canon(e.ctype)
		if c == canon(l.holder) && e.cfield != "" {
			// a store into a field of the struct that declares the leaf: the leaf itself, or deeper inside it
			return e.cfield == l.field || rt.canon[c]
		}

		return rt.canon[c]
	}

	return rt.argMayHitNoExt(e.ctype, map[string]bool{}, 0)
}

// argMayHitNoExt: as argMayHit, but unexported fields of other modules' structs are not followed (the unanalysed
// callee is that module's own code: sync/atomic.Value.Store writes the Value, not what its `v any` refers to).
func (rt *rtset) argMayHitNoExt(t types.Type, seen map[string]bool, depth int) bool {
	t = types.Unalias(t)
	if seen[t.String()] || depth > 8 {
		return false
	}

	seen[t.String()] = true

	switch u := t.Underlying().(type) {
	case *types.Basic:
		return u.Kind() == types.UnsafePointer
	case *types.Pointer:
		return rt.canon[canon(u.Elem())] || rt.argMayHitNoExt(u.Elem(), seen, depth+1)
	case *types.Slice:
		return rt.canon[canon(t)] || rt.argMayHitNoExt(u.Elem(), seen, depth+1)
	case *types.Map:
		return rt.canon[canon(t)] || rt.argMayHitNoExt(u.Elem(), seen, depth+1) || rt.argMayHitNoExt(u.Key(), seen, depth+1)
	case *types.Array:
		return rt.argMayHitNoExt(u.Elem(), seen, depth+1)
	case *types.Struct:
		ext := isExternal(t)

		for i := 0; i < u.NumFields(); i++ {
			if ext && !u.Field(i).Exported() {
				continue
			}

			if pointerLike(u.Field(i).Type()) && rt.argMayHitNoExt(u.Field(i).Type(), seen, depth+1) {
				return true
			}
		}

		return false
	case *types.Interface:
		if u.NumMethods() == 0 {
			return true
		}

		for _, c := range rt.conc {
			if types.Implements(c, u) {
				return true
			}
		}

		return rt.walkedImplements(t, u)
	default:
		return true
	}
}

// everSet: the fields of module structs that some module code may set: a FieldAddr that is used for anything but a
// load (a store, a call argument, …).  Exported or tagged fields may also be set through reflection (mapstructure).
func (a *analyzer) everSet() map[string]bool {
	if a.fieldSet != nil {
		return a.fieldSet
	}

	a.fieldSet = map[string]bool{}

	for fn := range ssautilAllFunctions(a.prog) {
		if fn.Blocks == nil || !inModule(fn) {
			continue
		}

		for _, b := range fn.Blocks {
			for _, ins := range b.Instrs {
				fa, ok := ins.(*ssa.FieldAddr)
				if !ok {
					continue
				}

				pt, ok := fa.X.Type().Underlying().(*types.Pointer)
				if !ok {
					continue
				}

				st, ok := pt.Elem().Underlying().(*types.Struct)
				if !ok {
					continue
				}

				onlyLoads := true

				for _, r := range *fa.Referrers() {
					if u, isLoad := r.(*ssa.UnOp); isLoad && u.Op == token.MUL {
						continue
					}

					if _, isDbg := r.(*ssa.DebugRef); isDbg {
						continue
					}

					onlyLoads = false
				}

				if !onlyLoads {
					a.fieldSet[canon(pt.Elem())+"#"+st.Field(fa.Field).Name()] = true
				}
			}
		}
	}

	return a.fieldSet
}

// neverSet: field f of struct type holder is zero in every instance (unexported, untagged, no module code sets it).
func (a *analyzer) neverSet(l vleaf) bool {
	st, ok := l.holder.Underlying().(*types.Struct)
	if !ok {
		return false
	}

	for i := 0; i < st.NumFields(); i++ {
		if st.Field(i).Name() == l.field {
			if st.Field(i).Exported() || st.Tag(i) != "" || st.Field(i).Embedded() {
				return false
			}
		}
	}

	return !a.everSet()[canon(l.holder)+"#"+l.field]
}

// variantRow: analyse WithConfig of mechanism type t (row is the effect row of the same type).
func (a *analyzer) variantRow(t types.Type, row Row, trace bool) VRow {
	vr := VRow{Pkg: row.Pkg, Type: row.Type, Fields: []VField{}, RecvWrites: []VWrite{}, Bad: []string{}}
	leaves := leavesOf(t, "", 0)
	ptr := types.NewPointer(t)
	ms := a.prog.MethodSets.MethodSet(ptr)

	var wc *ssa.Function

	for i := 0; i < ms.Len(); i++ {
		if ms.At(i).Obj().Name() == "WithConfig" {
			wc = a.prog.MethodValue(ms.At(i))
		}
	}

	vi := &vinterp{
		a: a, objs: map[string]*vobj{}, clos: map[ssa.Value]*vclosure{}, stack: map[*ssa.Function]bool{},
		fnres: map[*ssa.Function]*aval{}, writes: map[string]recvWrite{}, memo: map[string]*aval{}, trace: trace,
	}
	fr := &vframe{vi: vi}
	res := newAval()

	if wc != nil && wc.Blocks != nil {
		args := make([]*aval, len(wc.Params))
		args[0] = &aval{orig: map[vorigin]bool{{0, "", false, mSame}: true}}

		for i := 1; i < len(args); i++ {
			args[i] = &aval{orig: map[vorigin]bool{{1, "", false, mSame}: true}}
		}

		for round := 0; round < 12; round++ {
			v0 := vi.ver
			vi.memo = map[string]*aval{}
			res = vi.eval(wc, args, nil, 0)

			if vi.ver == v0 && round > 0 {
				break
			}
		}
	}

	vr.Evals = vi.evals

	// the returned instance(s): component #0 of the result tuple
	inst := res
	if s := res.sub["#0"]; s != nil {
		inst = s
	}

	var objs []*vobj

	for o := range inst.orig {
		if o.root == 0 && o.path == "" && !o.addr && o.mode == mSame {
			vr.Self = true
		} else if o.root == 0 {
			vr.Bad = append(vr.Bad, fmt.Sprintf("WithConfig may return a pointer into receiver memory (%s)", prettyPath(o.path)))
		}
	}

	for l := range inst.locs {
		if l.path == "" && types.Identical(l.obj.typ, t) {
			objs = append(objs, l.obj)
		}
	}

	sort.Slice(objs, func(i, j int) bool { return objs[i].key < objs[j].key })
	vr.Results = len(objs)

	for k, lf := range leaves {
		f := VField{Name: lf.name, Type: types.TypeString(lf.typ, func(p *types.Package) string { return p.Name() }), Srcs: []VSrc{}, Writers: []string{}}

		if len(objs) > 0 {
			v := newAval()
			for _, ob := range objs {
				v.join(ob.content.lookup("." + strings.ReplaceAll(lf.name, ".", ".")))

				if ob.ext {
					v.fresh = true
					for o := range ob.extFrom {
						v.join(&aval{orig: map[vorigin]bool{o: true}})
					}
				}
			}

			f.Srcs = vi.classify(fr, leaves, k, v)

			if len(f.Srcs) == 1 && f.Srcs[0].Kind == "Zero" && a.neverSet(lf) {
				// no code of the module ever sets this field: it is the zero value in the receiver too, so leaving it
				// zero is copying it
				f.Srcs[0] = VSrc{Kind: "RecvCopy", P: k, From: lf.name, How: "never set by any code of the module: zero in every instance, in the receiver too"}
			}
		}

		vr.Fields = append(vr.Fields, f)
	}

	// writes of receiver memory during WithConfig: those the interpreter saw, and the effects of the taint analysis
	seenPos := map[string]bool{}

	var ws []recvWrite
	for _, w := range vi.writes {
		ws = append(ws, w)
	}

	sort.Slice(ws, func(i, j int) bool { return ws[i].Pos+ws[i].Path < ws[j].Pos+ws[j].Path })

	for _, w := range ws {
		fld := "?"
		if p := leafIndex(leaves, w.Path); p < len(leaves) {
			fld = leaves[p].name
		}

		d := w.Path
		if w.What != "" {
			d += " (" + w.What + ")"
		}

		vr.RecvWrites = append(vr.RecvWrites, VWrite{Kind: w.Kind, Fn: w.Fn, Field: fld, Detail: d, Pos: w.Pos})
		seenPos[w.Pos] = true
	}

	// writers per field, from the effect table (computed only when there are effects at all)
	var rts []*rtset

	anyEffects := false
	for _, m := range row.Methods {
		if len(m.Effects) > 0 {
			anyEffects = true
		}
	}

	if anyEffects {
		for _, lf := range leaves {
			rts = append(rts, a.reachTypes(types.NewPointer(lf.typ)))
		}
	}

	for _, m := range row.Methods {
		for _, e := range m.Effects {
			hit := false

			for k, lf := range leaves {
				if !a.leafMayHit(t, lf, rts[k], e) {
					continue
				}

				hit = true
				f := &vr.Fields[k]

				if !containsStr(f.Writers, m.Name) {
					f.Writers = append(f.Writers, m.Name)
				}

				if len(f.WritesBy) < 3 {
					f.WritesBy = append(f.WritesBy, fmt.Sprintf("%s: %s %s @%s", m.Name, e.Kind, e.Detail, e.Pos))
				}
			}

			if m.Name == "WithConfig" && !seenPos[e.Pos] {
				fld := "?"

				for k, lf := range leaves {
					if a.leafMayHit(t, lf, rts[k], e) {
						fld = lf.name

						break
					}
				}

				vr.RecvWrites = append(vr.RecvWrites, VWrite{Kind: e.Kind, Fn: e.Fn, Field: fld, Detail: e.Detail, Pos: e.Pos})
				seenPos[e.Pos] = true
			}

			_ = hit
		}
	}

	for i := range vr.Fields {
		sort.Strings(vr.Fields[i].Writers)
	}

	// the verdict, mirroring variant_row_ok (C17/VModel.v)
	for _, w := range vr.RecvWrites {
		vr.Bad = append(vr.Bad, fmt.Sprintf("field %s: receiver memory written during WithConfig: %s %s in %s at %s", w.Field, w.Kind, w.Detail, w.Fn, w.Pos))
	}

	immutable := func(p int) bool { return p < len(vr.Fields) && len(vr.Fields[p].Writers) == 0 }

	for k, f := range vr.Fields {
		for _, s := range f.Srcs {
			switch s.Kind {
			case "RecvShared", "RecvCopy":
				if s.P != k {
					vr.Bad = append(vr.Bad, fmt.Sprintf("field %s: taken from ANOTHER field of the receiver (%s)", f.Name, s.From))
				} else if !immutable(k) {
					verb := "shares memory with"
					if s.Kind == "RecvCopy" {
						verb = "is copied from"
					}

					vr.Bad = append(vr.Bad, fmt.Sprintf("field %s (%s): the variant's field %s the receiver's (%s) and is written later by %s [%s]",
						f.Name, f.Type, verb, s.How, strings.Join(f.Writers, ", "), strings.Join(f.WritesBy, "; ")))
				}
			case "MixFresh":
				if !immutable(s.P) {
					vr.Bad = append(vr.Bad, fmt.Sprintf("field %s: computed from the receiver's %s, which is written later", f.Name, s.From))
				}
			case "MixAlias":
				vr.Bad = append(vr.Bad, fmt.Sprintf("field %s (%s): built from the override AND the receiver's %s and may share memory with it (%s)", f.Name, f.Type, s.From, s.How))
			case "Zero":
				vr.Bad = append(vr.Bad, fmt.Sprintf("field %s: never set in the instance WithConfig returns (zero value)", f.Name))
			}
		}
	}

	vr.Ok = len(vr.Bad) == 0

	return vr
}

func containsStr(l []string, s string) bool {
	for _, x := range l {
		if x == s {
			return true
		}
	}

	return false
}

// ---------------------------------------------------------------- rendering

func renderVariants(rows []VRow) string {
	var sb strings.Builder

	sb.WriteString("(* GENERATED by harness/tools/effects (variants.go) from the current source of /repo — do not edit.\n")
	sb.WriteString("   Per mechanism type: how WithConfig builds every field of the instance it returns.\n")
	sb.WriteString("   Depth in the comments: how far below the receiver's field the shared / consulted memory sits (0 the field's own\n")
	sb.WriteString("   value, 1 its elements — what maps.Clone, maps.Copy, copy, append(fresh, src...) or an assignment loop share).\n")
	sb.WriteString("   Sharing is tolerated at every depth iff no method writes memory reachable from that receiver field: that is\n")
	sb.WriteString("   [vf_writers = []] of field p, which [variant_row_ok] demands for every VRecvShared / VRecvCopy / VMixFresh p. *)\n")
	sb.WriteString("From HV Require Import Base.Prelude C17.Model C17.VModel Gen.Effects.\nOpen Scope string_scope.\nOpen Scope list_scope.\n\n")
	sb.WriteString("Definition generated_variants : list vrow := [\n")

	for i, r := range rows {
		fmt.Fprintf(&sb, "  mk_vrow %s %s %v [", coqStr(r.Pkg), coqStr(r.Type), r.Self)

		for j, f := range r.Fields {
			if j > 0 {
				sb.WriteString(";")
			}

			fmt.Fprintf(&sb, "\n    (* %d *) mk_vf %s %s [", j, coqStr(f.Name), coqStr(f.Type))

			for k, s := range f.Srcs {
				if k > 0 {
					sb.WriteString("; ")
				}

				switch s.Kind {
				case "Fresh", "Zero":
					sb.WriteString("V" + s.Kind)
				default:
					fmt.Fprintf(&sb, "V%s %d", s.Kind, s.P)
				}
			}

			sb.WriteString("] [")

			for k, w := range f.Writers {
				if k > 0 {
					sb.WriteString("; ")
				}

				sb.WriteString(coqStr(w))
			}

			sb.WriteString("]")

			for _, sr := range f.Srcs {
				if sr.Kind == "MixFresh" || sr.Kind == "MixAlias" {
					fmt.Fprintf(&sb, " (* %s %d: %s, depth %d *)", sr.Kind, sr.P, strings.ReplaceAll(sr.From, "*", ""), sr.Depth)
				}
			}
		}

		sb.WriteString("] [")

		for j, w := range r.RecvWrites {
			if j > 0 {
				sb.WriteString(";")
			}

			k := w.Kind
			if k == "InPlace" {
				k = "UnknownCall"
			}

			fmt.Fprintf(&sb, "\n    mk_eff E%s %s %s %s", k, coqStr(w.Fn), coqStr(w.Field+": "+w.Detail), coqStr(w.Pos))
		}

		sb.WriteString("]")

		if i < len(rows)-1 {
			sb.WriteString(";")
		}

		sb.WriteString("\n")
	}

	sb.WriteString("].\n\n")
	sb.WriteString("(** both tables speak about the same mechanism types, in the same order *)\n")
	sb.WriteString("Example variants_aligned : tables_aligned generated_table generated_variants = true.\nProof. vm_compute. reflexivity. Qed.\n\n")
	sb.WriteString("(** at least ten mechanism types have a WithConfig that constructs an instance (some field has a source) *)\n")
	sb.WriteString("Example variants_cover :\n  List.length (filter (fun vr => existsb (fun f => negb (is_nil (vf_srcs f))) (v_fields vr)) generated_variants) >= 10.\n")
	sb.WriteString("Proof. vm_compute. lia. Qed.\n\n")
	sb.WriteString("(** no WithConfig writes receiver memory; every field of every returned instance is the receiver's own field\n")
	sb.WriteString("    (which no method writes), or fresh memory, or fresh memory computed from a field no method writes *)\n")
	sb.WriteString("Example variants_ok : forallb variant_row_ok generated_variants = true.\nProof. vm_compute. reflexivity. Qed.\n")

	return sb.String()
}
