module verif/tools/skel

go 1.23
