package main

// Self-tests of the extractor on small synthetic types: every construct the translation does not
// understand must become EUnsupported (the Coq check then rejects the skeleton), and the constructs of
// the repository pattern must be translated to the expected events.

import (
	"os"
	"os/exec"
	"path/filepath"
	"strings"
	"testing"
)

const header = `package p

import "sync"

type tree struct{ vals []int; kids []*tree }

func (t *tree) Find(k int) bool { for _, v := range t.vals { if v == k { return true } }; return false }
func (t *tree) Add(k int)       { t.vals = append(t.vals, k) }
func (t *tree) Clone() *tree    { out := &tree{}; out.vals = append([]int(nil), t.vals...); return out }
func (t *tree) Touch()          { for _, c := range t.kids { c.vals[0]++ } }

type box struct {
	known []int
	mu    sync.Mutex
	index *tree
	tmu   sync.RWMutex
}
`

const headerAtomic = `package p

import (
	"sync"
	"sync/atomic"
)

type tree struct{ vals []int }

func (t *tree) Find(k int) bool { return len(t.vals) > k }
func (t *tree) Add(k int)       { t.vals = append(t.vals, k) }
func (t *tree) Clone() *tree    { out := &tree{}; out.vals = append([]int(nil), t.vals...); return out }

type box struct {
	known []int
	mu    sync.Mutex
	index atomic.Pointer[tree]
	cache sync.Map
}
`

func runWith(t *testing.T, hdr, body string) string {
	t.Helper()

	saved := headerText
	headerText = hdr

	defer func() { headerText = saved }()

	return run(t, body)
}

var headerText = header

func run(t *testing.T, body string) string {
	t.Helper()

	dir := t.TempDir()
	if err := os.MkdirAll(filepath.Join(dir, "p"), 0o755); err != nil {
		t.Fatal(err)
	}

	if err := os.WriteFile(filepath.Join(dir, "p", "box.go"), []byte(headerText+body), 0o644); err != nil {
		t.Fatal(err)
	}

	bin := filepath.Join(t.TempDir(), "skel")
	if out, err := exec.Command("go", "build", "-o", bin, ".").CombinedOutput(); err != nil {
		t.Fatalf("build: %v\n%s", err, out)
	}

	out, err := exec.Command(bin, "-repo", dir, "-file", "p/box.go", "-type", "box", "-module", "example.com/m", "-ctor", "newBox").CombinedOutput()
	if err != nil {
		t.Fatalf("skel: %v\n%s", err, out)
	}

	return string(out)
}

func TestPattern(t *testing.T) {
	out := run(t, `
func (b *box) Get(k int) bool {
	b.tmu.RLock()
	defer b.tmu.RUnlock()
	return b.index.Find(k)
}

func (b *box) Put(k int) {
	b.mu.Lock()
	defer b.mu.Unlock()
	tmp := b.index.Clone()
	tmp.Add(k)
	b.known = append(b.known, k)
	b.tmu.Lock()
	b.index = tmp
	b.tmu.Unlock()
}
`)
	for _, want := range []string{
		"SEv (ERLock 1)", "SDefer (ERUnlock 1)", "SEv (ELoad 0 1)", "SEv (EObjRead 0)",
		"SEv (ELock 0)", "SDefer (EUnlock 0)", "SEv (EClone 1 0)", "SEv (EObjWrite 1)",
		"SEv (ERead 0)", "SEv (EWrite 0)", "SEv (EStore 1 1)",
	} {
		if !strings.Contains(out, want) {
			t.Errorf("missing %q in\n%s", want, out)
		}
	}

	if strings.Contains(out, "EUnsupported") {
		t.Errorf("pattern must translate completely:\n%s", out)
	}
}

func TestUnsupported(t *testing.T) {
	cases := map[string]string{
		"goroutine":        `func (b *box) M() { go func() { b.mu.Lock() }() }`,
		"address of field": `func (b *box) M() { p := &b.known; _ = p }`,
		"mutex alias":      `func (b *box) M() { m := &b.mu; m.Lock() }`,
		"receiver escapes": `func helper(b *box) {}
func (b *box) M() { helper(b) }`,
		"receiver copied":  `func (b *box) M() { o := b; o.known = nil }`,
		"struct overwrite": `func (b *box) M() { *b = box{} }`,
		"alias of tracked": `func (b *box) M() { x := b.index; y := x; y.Add(1) }`,
		"tracked escapes": `func sink(t *tree) {}
func (b *box) M() { x := b.index.Clone(); sink(x) }`,
		"trylock":        `func (b *box) M() { if b.mu.TryLock() { b.mu.Unlock() } }`,
		"value receiver": `func (b box) M() int { return len(b.known) }`,
		"select":         `func (b *box) M(c chan int) { select { case <-c: b.mu.Lock() } }`,
		"untracked tree": `func (b *box) mk() *tree { return b.index.Clone() }
func (b *box) M() { x := b.mk(); x.Add(1) }`,
		"ptr from unknown": `func (b *box) M() { b.index = &tree{} }`,
		"rlock on mutex":   `func (b *box) M() { b.mu.RLock() }`,
	}

	for name, body := range cases {
		out := run(t, body)
		if !strings.Contains(out, "EUnsupported") {
			t.Errorf("%s: expected EUnsupported in\n%s", name, out)
		}
	}
}

func TestTranslations(t *testing.T) {
	cases := []struct {
		name, body string
		want, not  []string
	}{
		{"shadowed receiver in closure", `
func each(f func(b int) bool) {}
func (b *box) M() { each(func(b int) bool { return b == 1 }) }`, nil, []string{"SEv", "EUnsupported"}},
		{"deferred closure unlock", `
func (b *box) M() { b.mu.Lock(); defer func() { b.mu.Unlock() }(); b.known = nil }`,
			[]string{"SDefer (EUnlock 0)", "SEv (EWrite 0)"}, []string{"EUnsupported"}},
		{"in-place library write", `
func (b *box) M() { b.mu.Lock(); copy(b.known, []int{1}); b.mu.Unlock() }`,
			[]string{"SEv (EWrite 0)"}, []string{"EUnsupported"}},
		{"mutating method through children", `
func (b *box) M() { b.tmu.RLock(); b.index.Touch(); b.tmu.RUnlock() }`,
			[]string{"SEv (EObjWrite 0)"}, nil},
		{"field mutation through pointer field", `
func (b *box) M() { b.index.vals = nil }`, []string{"SEv (EObjWrite 0)"}, nil},
		{"early return keeps defer", `
func (b *box) M(k int) int { b.mu.Lock(); defer b.mu.Unlock(); if k > 0 { return len(b.known) }; b.known = nil; return 0 }`,
			[]string{"SIf [SEv (ERead 0);", "SReturn]"}, []string{"EUnsupported"}},
		{"inlined helper binds its parameter", `
func (b *box) fill(t *tree, k int) { t.Add(k) }
func (b *box) M(k int) { b.mu.Lock(); defer b.mu.Unlock(); tmp := b.index.Clone(); b.fill(tmp, k); b.tmu.Lock(); b.index = tmp; b.tmu.Unlock() }`,
			[]string{"SCall [SEv (EObjWrite 1)]", "SEv (EStore 1 1)"}, []string{"EUnsupported"}},
	}

	for _, c := range cases {
		out := run(t, c.body)
		// only look at the method definitions
		if i := strings.Index(out, "Definition repo_m_"); i >= 0 {
			out = out[i:]
		}

		if j := strings.Index(out, "Definition repo_method_names"); j >= 0 {
			out = out[:j]
		}

		for _, w := range c.want {
			if !strings.Contains(out, w) {
				t.Errorf("%s: missing %q in\n%s", c.name, w, out)
			}
		}

		for _, w := range c.not {
			if strings.Contains(out, w) {
				t.Errorf("%s: unexpected %q in\n%s", c.name, w, out)
			}
		}
	}
}

// the holes the audit found: method calls on plain guarded fields must not become reads
func TestAuditHoles(t *testing.T) {
	// (a) atomic.Pointer index: Load / Store are the loads / stores of the pointer field
	out := runWith(t, headerAtomic, `
func (b *box) Get(k int) bool { return b.index.Load().Find(k) }

func (b *box) Put(k int) {
	b.mu.Lock()
	defer b.mu.Unlock()
	tmp := b.index.Load().Clone()
	tmp.Add(k)
	b.known = append(b.known, k)
	b.index.Store(tmp)
}
`)
	for _, want := range []string{"SEv (ELoad 0 1)", "SEv (EObjRead 0)", "SEv (EClone 1 0)", "SEv (EObjWrite 1)", "SEv (EStore 1 1)", "SEv (ELock 1)", "SEv (ERLock 1)"} {
		if !strings.Contains(out, want) {
			t.Errorf("atomic pointer: missing %q in\n%s", want, out)
		}
	}

	if strings.Contains(out, "EUnsupported") {
		t.Errorf("atomic pointer pattern must translate completely:\n%s", out)
	}

	// (b) clone taken before the writer lock: the load must show up BEFORE the acquisition of lock 0
	out = runWith(t, headerAtomic, `
func (b *box) Put(k int) {
	tmp := b.index.Load().Clone()
	tmp.Add(k)
	b.mu.Lock()
	defer b.mu.Unlock()
	b.index.Store(tmp)
}
`)
	if i, j := strings.Index(out, "ELoad"), strings.Index(out, "SEv (ELock 0)"); i < 0 || j < 0 || i > j {
		t.Errorf("atomic pointer, clone before lock: load must precede the writer lock in\n%s", out)
	}

	// (c) sync.Map cache, Clear(), Swap: unknown effect on a guarded field
	for name, body := range map[string]string{
		"cache load":  `func (b *box) Get(k int) bool { _, ok := b.cache.Load(k); return ok }`,
		"cache store": `func (b *box) Put(k int) { b.cache.Store(k, k) }`,
		"cache clear": `func (b *box) Put(k int) { b.mu.Lock(); b.cache.Clear(); b.mu.Unlock() }`,
		"swap":        `func (b *box) Put(t *tree) { b.index.Swap(t) }`,
		"atomic copy": `func (b *box) Put() { x := b.index; _ = x }`,
		"store fresh": `func (b *box) Put() { b.index.Store(&tree{}) }`,
	} {
		out := runWith(t, headerAtomic, body)
		if !strings.Contains(out, "EUnsupported") {
			t.Errorf("%s: expected EUnsupported in\n%s", name, out)
		}
	}
}

// the constructor must not be wrapped on its way into the application
func TestCtorWiring(t *testing.T) {
	ok := run(t, `
func newBox() *box { return &box{} }
func (b *box) M() { b.mu.Lock(); b.known = nil; b.mu.Unlock() }
`)
	if strings.Contains(ok, "EUnsupported") {
		t.Errorf("plain constructor must be accepted:\n%s", ok)
	}

	bad := run(t, `
func newBox() *box { return &box{} }
type cached struct{ inner *box }
func newCached() *cached { return &cached{inner: newBox()} }
func (b *box) M() { b.mu.Lock(); b.known = nil; b.mu.Unlock() }
`)
	if !strings.Contains(bad, "EUnsupported") {
		t.Errorf("decorated constructor must be refused:\n%s", bad)
	}
}

// the guarded state is identified structurally: renamed / reordered fields, state regrouped into embedded or
// named nested structs, lock operations inside a method of the nested struct
const headerNested = `package p

import "sync"

type tree struct{ vals []int }

func (t *tree) Find(k int) bool { return len(t.vals) > k }
func (t *tree) Add(k int)       { t.vals = append(t.vals, k) }
func (t *tree) Clone() *tree    { return &tree{vals: append([]int(nil), t.vals...)} }

type inventory struct {
	known []int
	guard sync.Mutex
}

type lookup struct {
	cur  *tree
	lock sync.RWMutex
}

func (l *lookup) replace(t *tree) {
	l.lock.Lock()
	l.cur = t
	l.lock.Unlock()
}

type box struct {
	dflt int
	inventory
	idx lookup
}
`

func TestNestedStructs(t *testing.T) {
	out := runWith(t, headerNested, `
func (b *box) Get(k int) bool {
	b.idx.lock.RLock()
	defer b.idx.lock.RUnlock()
	return b.idx.cur.Find(k)
}

func (b *box) Put(k int) {
	b.guard.Lock()
	defer b.guard.Unlock()
	tmp := b.idx.cur.Clone()
	tmp.Add(k)
	b.known = append(b.known, k)
	b.idx.replace(tmp)
}
`)
	for _, want := range []string{
		"0 = inventory.guard (sync.Mutex)", "1 = idx.lock (sync.RWMutex)",
		"0 = dflt (plain)", "1 = inventory.known (plain)", "2 = idx.cur (pointer)",
		"SEv (ERLock 1)", "SDefer (ERUnlock 1)", "SEv (ELoad 0 2)", "SEv (EObjRead 0)",
		"SEv (ELock 0)", "SDefer (EUnlock 0)", "SEv (EClone 1 0)", "SEv (EObjWrite 1)", "SEv (ERead 1)", "SEv (EWrite 1)",
		"SCall [SEv (ELock 1);\n     SEv (EStore 2 1);\n     SEv (EUnlock 1)]", // the nested struct's method, inlined
	} {
		if !strings.Contains(out, want) {
			t.Errorf("missing %q in\n%s", want, out)
		}
	}

	if strings.Contains(out, "EUnsupported") {
		t.Errorf("nested pattern must translate completely:\n%s", out)
	}

	// a nested struct used as a value copies mutexes and guarded fields: refused
	out = runWith(t, headerNested, `func (b *box) M() { x := b.idx; _ = x }`)
	if !strings.Contains(out, "EUnsupported") {
		t.Errorf("nested struct used as a value must be refused:\n%s", out)
	}
}
