// Command skel extracts, from the CURRENT source of a Go type that guards its
// fields with sync.Mutex / sync.RWMutex, the per-method skeleton of
// synchronisation events and guarded-field accesses, and renders it as a Coq
// file (coq/Gen/RepoSkel.v for heimdall's rule repository, property C07).
//
// What is extracted (go/ast + the parser's identifier resolution, no type
// checker):
//
//   - the struct: every field of type sync.Mutex / sync.RWMutex is a lock, every
//     field of pointer type is a guarded POINTER field (copy-on-write object
//     behind it), every other field is a plain guarded field;
//   - per exported method (and per unexported method that is referenced from
//     another file of the package) the statement structure restricted to:
//     Lock/Unlock/RLock/RUnlock calls (also deferred), reads/writes of plain
//     guarded fields, loads/stores of pointer fields, and method calls on the
//     objects behind them (Clone -> EClone, receiver-mutating methods ->
//     EObjWrite, other methods -> EObjRead), if/switch branches, loops,
//     returns; calls of other methods of the same receiver are inlined;
//   - for the type behind a pointer field (radixtree.Tree): which of its
//     methods mutate memory reachable from the receiver (syntactic taint
//     analysis over the package's source, fixed point over method calls).
//
// Everything the translation does not understand (goroutines, address-of a
// guarded field, aliasing of tracked objects, escaping receivers, select,
// goto, ...) becomes the event EUnsupported, which the Coq check rejects.
//
// The enumeration of paths (defers at returns, loop summaries) is NOT done
// here but by Base/Locks.v (method_paths), inside Coq.
//
// Usage: skel -repo /repo -file internal/rules/repository_impl.go -type repository
//
//	-out /verif/coq/Gen/RepoSkel.v -name repo [-json out.json]
package main

import (
	"encoding/json"
	"flag"
	"fmt"
	"go/ast"
	"go/parser"
	"go/token"
	"os"
	"path/filepath"
	"sort"
	"strings"
)

// ---------------------------------------------------------------- statement tree

type stmt struct {
	Kind string // ev defer return if loop call
	Ev   string
	A, B []stmt
}

func ev(e string) stmt { return stmt{Kind: "ev", Ev: e} }
func unsupported(why string) stmt {
	return stmt{Kind: "ev", Ev: "EUnsupported", A: nil, B: nil}.note(why)
}

var notes []string

func (s stmt) note(why string) stmt {
	notes = append(notes, why)

	return s
}

// empty: no event, no deferred event and no return that leaves the enclosing function
// (a return inside an inlined call / closure only leaves that call)
func empty(ss []stmt) bool {
	for _, s := range ss {
		switch s.Kind {
		case "ev", "defer", "return":
			return false
		case "call":
			if hasEvents(s.A) {
				return false
			}
		default:
			if !empty(s.A) || !empty(s.B) {
				return false
			}
		}
	}

	return true
}

func hasEvents(ss []stmt) bool {
	for _, s := range ss {
		switch s.Kind {
		case "ev", "defer":
			return true
		default:
			if hasEvents(s.A) || hasEvents(s.B) {
				return true
			}
		}
	}

	return false
}

func prune(ss []stmt) []stmt {
	var out []stmt

	for _, s := range ss {
		switch s.Kind {
		case "if":
			s.A, s.B = prune(s.A), prune(s.B)
			if empty(s.A) && empty(s.B) {
				continue
			}
		case "loop", "call":
			s.A = prune(s.A)
			if empty(s.A) {
				continue
			}
		}

		out = append(out, s)
	}

	return out
}

func render(ss []stmt, ind string) string {
	if len(ss) == 0 {
		return "[]"
	}

	parts := make([]string, 0, len(ss))

	for _, s := range ss {
		switch s.Kind {
		case "ev":
			parts = append(parts, "SEv ("+s.Ev+")")
		case "defer":
			parts = append(parts, "SDefer ("+s.Ev+")")
		case "return":
			parts = append(parts, "SReturn")
		case "if":
			parts = append(parts, "SIf "+render(s.A, ind+"  ")+"\n"+ind+"    "+render(s.B, ind+"  "))
		case "loop":
			parts = append(parts, "SLoop "+render(s.A, ind+"  "))
		case "call":
			parts = append(parts, "SCall "+render(s.A, ind+"  "))
		}
	}

	return "[" + strings.Join(parts, ";\n"+ind+" ") + "]"
}

// ---------------------------------------------------------------- extraction context

type extractor struct {
	fset     *token.FileSet
	file     *ast.File
	typeName string

	lockNames []string
	lockKind  map[string]string // field -> Mutex | RWMutex
	lockID    map[string]int
	varNames  []string
	varID     map[string]int
	isPtr     map[string]bool
	isAtomic  map[string]bool   // sync/atomic.Pointer[T] field: Load()/Store() are its loads/stores
	atomLock  map[string]int    // pseudo lock that stands for the atomicity of one Load / Store
	ptrPkg    map[string]string // ptr field -> import path of its element type's package ("" if unknown)

	methods     map[string]*ast.FuncDecl            // methods of the guarded type itself
	typeMethods map[string]map[string]*ast.FuncDecl // per struct type of the tree (guarded type and nested structs)
	root        *snode

	objMethods map[string]bool // method of the pointed-to type -> mutates its receiver
	objKnown   map[string]bool

	// per entry method
	localNames []string
	jumpInLoop []bool
}

type scope struct {
	recv  *ast.Object
	node  *snode              // the (sub-)struct the receiver denotes: the guarded type itself or a struct nested in it
	env   map[*ast.Object]int // tracked object-valued locals
	depth int
}

// snode: the guarded struct type, or a struct type nested in it BY VALUE (embedded or as a named field).  The
// guarded state is identified structurally: a leaf is a field that is not such a nested struct; leaves are keyed by
// their path from the guarded type ("index", "routeIndex.index") and numbered depth first in declaration order,
// mutexes (by their type sync.Mutex / sync.RWMutex) and data fields separately.
type snode struct {
	typeName string
	prefix   string
	fields   []sfield
}

type sfield struct {
	name     string
	embedded bool
	leaf     string // key of the leaf ("" for a nested struct)
	sub      *snode
}

// resolve follows the selector names from node n: direct fields first, then fields promoted through embedded
// structs.  Returns the leaf key (if the names end at a leaf), or the nested struct reached, and the number of names used.
func (n *snode) resolve(names []string) (string, *snode, int) {
	cur := n
	used := 0

	for used < len(names) {
		f, ok := cur.field(names[used])
		if !ok {
			return "", nil, used
		}

		used++

		if f.sub == nil {
			return f.leaf, nil, used
		}

		cur = f.sub
	}

	if used == 0 {
		return "", nil, 0
	}

	return "", cur, used
}

func (n *snode) field(name string) (sfield, bool) {
	for _, f := range n.fields {
		if f.name == name {
			return f, true
		}
	}

	for _, f := range n.fields {
		if f.embedded && f.sub != nil {
			if g, ok := f.sub.field(name); ok {
				return g, true
			}
		}
	}

	return sfield{}, false
}

// selChain: e = base.n1.n2...  (parentheses ignored)
func selChain(e ast.Expr) (*ast.Ident, []string) {
	var names []string

	for {
		switch v := e.(type) {
		case *ast.ParenExpr:
			e = v.X
		case *ast.SelectorExpr:
			names = append([]string{v.Sel.Name}, names...)
			e = v.X
		case *ast.Ident:
			return v, names
		default:
			return nil, nil
		}
	}
}

func (x *extractor) newLocal(name string) int {
	x.localNames = append(x.localNames, name)

	return len(x.localNames) - 1
}

func lockMethod(name string) string {
	switch name {
	case "Lock":
		return "ELock"
	case "Unlock":
		return "EUnlock"
	case "RLock":
		return "ERLock"
	case "RUnlock":
		return "ERUnlock"
	}

	return ""
}

// recvField returns the key of the leaf field if e is `recv.f` / `recv.sub.f` (a path from the receiver to a leaf,
// promoted fields included).
func (x *extractor) recvField(sc *scope, e ast.Expr) (string, bool) {
	if _, ok := e.(*ast.SelectorExpr); !ok {
		return "", false
	}

	id, names := selChain(e)
	if id == nil || id.Obj == nil || id.Obj != sc.recv || len(names) == 0 {
		return "", false
	}

	if sc.node == nil {
		return names[0], len(names) == 1
	}

	leaf, _, used := sc.node.resolve(names)
	if leaf == "" || used != len(names) {
		if used == 0 && len(names) == 1 {
			return names[0], true // not a field: a method value or an unknown name (handled by the callers)
		}

		return "", false
	}

	return leaf, true
}

// recvNode: e is the receiver or a path from it to a struct nested in the guarded type
func (x *extractor) recvNode(sc *scope, e ast.Expr) (*snode, bool) {
	id, names := selChain(e)
	if id == nil || id.Obj == nil || id.Obj != sc.recv || sc.node == nil {
		return nil, false
	}

	if len(names) == 0 {
		return sc.node, true
	}

	_, sub, used := sc.node.resolve(names)
	if sub == nil || used != len(names) {
		return nil, false
	}

	return sub, true
}

// lookupMethod: method `name` of the struct n, or promoted from a struct embedded in it
func (x *extractor) lookupMethod(n *snode, name string) (*ast.FuncDecl, *snode) {
	if d, ok := x.typeMethods[n.typeName][name]; ok {
		return d, n
	}

	for _, f := range n.fields {
		if f.embedded && f.sub != nil {
			if d, m := x.lookupMethod(f.sub, name); d != nil {
				return d, m
			}
		}
	}

	return nil, nil
}

// embeddedLock: the mutex embedded in n (or in a struct embedded in n), for `recv.Lock()`
func (x *extractor) embeddedLock(n *snode) (int, bool) {
	for _, f := range n.fields {
		if f.embedded && f.sub == nil {
			if id, ok := x.lockID[f.leaf]; ok {
				return id, true
			}
		}
	}

	for _, f := range n.fields {
		if f.embedded && f.sub != nil {
			if id, ok := x.embeddedLock(f.sub); ok {
				return id, true
			}
		}
	}

	return 0, false
}

func (x *extractor) isRecv(sc *scope, e ast.Expr) bool {
	id, ok := e.(*ast.Ident)

	return ok && id.Obj != nil && id.Obj == sc.recv
}

func (x *extractor) trackedLocal(sc *scope, e ast.Expr) (int, bool) {
	id, ok := e.(*ast.Ident)
	if !ok || id.Obj == nil {
		return 0, false
	}

	l, ok := sc.env[id.Obj]

	return l, ok
}

// rootIdent strips selectors, indexes, stars, parens, slices.
func rootExpr(e ast.Expr) ast.Expr {
	for {
		switch v := e.(type) {
		case *ast.SelectorExpr:
			e = v.X
		case *ast.IndexExpr:
			e = v.X
		case *ast.IndexListExpr:
			e = v.X
		case *ast.SliceExpr:
			e = v.X
		case *ast.StarExpr:
			e = v.X
		case *ast.ParenExpr:
			e = v.X
		default:
			return e
		}
	}
}

// guardedRoot: e is rooted at recv.f (possibly deeper: recv.f[i], recv.f.g); returns f and whether e is exactly recv.f
func (x *extractor) guardedRoot(sc *scope, e ast.Expr) (string, bool, bool) {
	exact := true

	for {
		if f, ok := x.recvField(sc, e); ok {
			return f, exact, true
		}

		switch v := e.(type) {
		case *ast.SelectorExpr:
			e = v.X
		case *ast.IndexExpr:
			e = v.X
		case *ast.SliceExpr:
			e = v.X
		case *ast.StarExpr:
			e = v.X
		case *ast.ParenExpr:
			e = v.X

			continue
		default:
			return "", false, false
		}

		exact = false
	}
}

func (x *extractor) pos(n ast.Node) string {
	p := x.fset.Position(n.Pos())

	return fmt.Sprintf("%s:%d", filepath.Base(p.Filename), p.Line)
}

// ---------------------------------------------------------------- expressions

func (x *extractor) loadPtr(p string) (int, stmt) {
	l := x.newLocal("&" + p)
	ld := ev(fmt.Sprintf("ELoad %d %d", l, x.varID[p]))

	if x.isAtomic[p] {
		a := x.atomLock[p]

		return l, stmt{Kind: "call", A: []stmt{ev(fmt.Sprintf("ERLock %d", a)), ld, ev(fmt.Sprintf("ERUnlock %d", a))}}
	}

	return l, ld
}

// loadInto: like loadPtr, but into the given local
func (x *extractor) loadInto(l int, p string) stmt {
	ld := ev(fmt.Sprintf("ELoad %d %d", l, x.varID[p]))

	if x.isAtomic[p] {
		a := x.atomLock[p]

		return stmt{Kind: "call", A: []stmt{ev(fmt.Sprintf("ERLock %d", a)), ld, ev(fmt.Sprintf("ERUnlock %d", a))}}
	}

	return ld
}

func (x *extractor) storePtr(p string, l int) stmt {
	st := ev(fmt.Sprintf("EStore %d %d", x.varID[p], l))

	if x.isAtomic[p] {
		a := x.atomLock[p]

		return stmt{Kind: "call", A: []stmt{ev(fmt.Sprintf("ELock %d", a)), st, ev(fmt.Sprintf("EUnlock %d", a))}}
	}

	return st
}

// ptrField: e denotes the current value of a guarded pointer field: `recv.p`, or `recv.p.Load()` for an atomic one
func (x *extractor) ptrField(sc *scope, e ast.Expr) (string, bool) {
	if f, ok := x.recvField(sc, e); ok && x.isPtr[f] && !x.isAtomic[f] {
		return f, true
	}

	if call, ok := e.(*ast.CallExpr); ok && len(call.Args) == 0 {
		if sel, ok := call.Fun.(*ast.SelectorExpr); ok && sel.Sel.Name == "Load" {
			if f, ok := x.recvField(sc, sel.X); ok && x.isAtomic[f] {
				return f, true
			}
		}
	}

	return "", false
}

// objCall: method `name` called on tracked local l.  resultUsed: the call's value is consumed by an unknown context.
func (x *extractor) objCall(sc *scope, l int, name string, call *ast.CallExpr, resultUsed bool) []stmt {
	var out []stmt

	out = append(out, x.args(sc, call.Args)...)

	switch {
	case name == "Clone" && resultUsed:
		out = append(out, unsupported(x.pos(call)+": clone of a tracked object escapes into an untracked value"))
	case x.objKnown[name] && !x.objMethods[name]:
		out = append(out, ev(fmt.Sprintf("EObjRead %d", l)))
	default:
		out = append(out, ev(fmt.Sprintf("EObjWrite %d", l)))
	}

	return out
}

func (x *extractor) args(sc *scope, args []ast.Expr) []stmt {
	var out []stmt

	for _, a := range args {
		if fl, ok := a.(*ast.FuncLit); ok {
			// a closure handed to a callee: run zero or more times, synchronously (go statements are rejected elsewhere)
			body := x.block(sc, fl.Body.List)
			out = append(out, stmt{Kind: "loop", A: []stmt{{Kind: "call", A: body}}})

			continue
		}

		if _, ok := x.trackedLocal(sc, a); ok {
			out = append(out, unsupported(x.pos(a)+": tracked object passed to a function that is not analysed"))

			continue
		}

		if _, ok := x.ptrField(sc, a); ok {
			out = append(out, unsupported(x.pos(a)+": guarded pointer passed to a function that is not analysed"))

			continue
		}

		out = append(out, x.expr(sc, a)...)
	}

	return out
}

func (x *extractor) inline(sc *scope, decl *ast.FuncDecl, node *snode, call *ast.CallExpr) []stmt {
	if sc.depth > 6 {
		return []stmt{unsupported(x.pos(call) + ": inlining too deep (recursion?)")}
	}

	var (
		out    []stmt
		params []*ast.Ident
	)

	for _, f := range decl.Type.Params.List {
		params = append(params, f.Names...)
	}

	inner := &scope{env: map[*ast.Object]int{}, depth: sc.depth + 1, node: node}
	if decl.Recv != nil && len(decl.Recv.List) == 1 && len(decl.Recv.List[0].Names) == 1 {
		inner.recv = decl.Recv.List[0].Names[0].Obj
	}

	for i, a := range call.Args {
		if l, ok := x.trackedLocal(sc, a); ok {
			if i < len(params) && params[i].Obj != nil {
				inner.env[params[i].Obj] = l
			} else {
				out = append(out, unsupported(x.pos(a)+": tracked object passed to an unnamed/variadic parameter"))
			}

			continue
		}

		if f, ok := x.ptrField(sc, a); ok {
			l, ld := x.loadPtr(f)
			out = append(out, ld)

			if i < len(params) && params[i].Obj != nil {
				inner.env[params[i].Obj] = l
			}

			continue
		}

		out = append(out, x.args(sc, []ast.Expr{a})...)
	}

	body := x.block(inner, decl.Body.List)
	out = append(out, stmt{Kind: "call", A: body})

	return out
}

// calleeName: "copy", "slices.Sort", ... for plain and package-qualified callees, "" otherwise.
func calleeName(call *ast.CallExpr) string {
	switch f := call.Fun.(type) {
	case *ast.Ident:
		if f.Obj == nil {
			return f.Name
		}
	case *ast.SelectorExpr:
		if id, ok := f.X.(*ast.Ident); ok && id.Obj == nil {
			return id.Name + "." + f.Sel.Name
		}
	}

	return ""
}

func (x *extractor) call(sc *scope, call *ast.CallExpr, resultUsed bool) []stmt {
	// library functions that write through their first argument: a write of the guarded field / tracked object
	if n := calleeName(call); (inPlace[n] || inPlaceMore[n]) && len(call.Args) > 0 {
		if f, _, ok := x.guardedRoot(sc, call.Args[0]); ok {
			out := x.args(sc, call.Args[1:])

			if x.isPtr[f] {
				l, ld := x.loadPtr(f)

				return append(out, ld, ev(fmt.Sprintf("EObjWrite %d", l)))
			}

			if id, known := x.varID[f]; known {
				return append(out, ev(fmt.Sprintf("ERead %d", id)), ev(fmt.Sprintf("EWrite %d", id)))
			}

			return append(out, unsupported(x.pos(call)+": in-place write through a mutex / unknown field"))
		}

		if l, ok := x.trackedLocal(sc, rootExpr(call.Args[0])); ok {
			return append(x.args(sc, call.Args[1:]), ev(fmt.Sprintf("EObjWrite %d", l)))
		}
	}

	switch fun := call.Fun.(type) {
	case *ast.SelectorExpr:
		name := fun.Sel.Name

		// recv.mu.Lock()
		if f, ok := x.recvField(sc, fun.X); ok {
			if _, isLock := x.lockID[f]; isLock {
				if e := lockMethod(name); e != "" {
					if (e == "ERLock" || e == "ERUnlock") && x.lockKind[f] != "RWMutex" {
						return []stmt{unsupported(x.pos(call) + ": RLock on a plain Mutex")}
					}

					return []stmt{ev(fmt.Sprintf("%s %d", e, x.lockID[f]))}
				}

				return []stmt{unsupported(x.pos(call) + ": lock method " + name + " is not modelled")}
			}

			if x.isAtomic[f] {
				switch {
				case name == "Load" && len(call.Args) == 0:
					_, ld := x.loadPtr(f)

					return []stmt{ld}
				case name == "Store" && len(call.Args) == 1:
					if l, ok := x.trackedLocal(sc, call.Args[0]); ok {
						return []stmt{x.storePtr(f, l)}
					}

					if src, ok := x.cloneSource(sc, call.Args[0]); ok {
						l := x.newLocal("clone")
						out := append(src.pre, ev(fmt.Sprintf("EClone %d %d", l, src.local)))

						return append(out, x.storePtr(f, l))
					}

					return append(x.args(sc, call.Args), unsupported(x.pos(call)+": atomic pointer stored from an untracked value"))
				default:
					return []stmt{unsupported(x.pos(call) + ": atomic pointer method " + name + " is not modelled")}
				}
			}

			if x.isPtr[f] {
				l, ld := x.loadPtr(f)

				return append([]stmt{ld}, x.objCall(sc, l, name, call, resultUsed)...)
			}

			// any other method call on a guarded field (sync.Map cache, counters, ...): its effect on the field is unknown
			return append(x.args(sc, call.Args), unsupported(x.pos(call)+": method "+name+" called on guarded field "+f))
		}

		// recv.p.Load().M(...)
		if f, ok := x.ptrField(sc, fun.X); ok {
			l, ld := x.loadPtr(f)

			return append([]stmt{ld}, x.objCall(sc, l, name, call, resultUsed)...)
		}

		// deeper: recv.f.g.M(...), recv.f[i].M(...)
		if f, _, ok := x.guardedRoot(sc, fun.X); ok {
			out := x.expr(sc, fun.X)
			out = append(out, x.args(sc, call.Args)...)

			return append(out, unsupported(x.pos(call)+": method "+name+" called on a value reached through guarded field "+f))
		}

		// recv.Lock() (embedded mutex), recv.m(..), recv.sub.m(..): methods of the guarded type or of a struct nested
		// in it are inlined with the callee's receiver standing for that (sub-)struct
		if node, ok := x.recvNode(sc, fun.X); ok {
			if e := lockMethod(name); e != "" {
				if id, ok := x.embeddedLock(node); ok {
					return []stmt{ev(fmt.Sprintf("%s %d", e, id))}
				}
			}

			if decl, at := x.lookupMethod(node, name); decl != nil {
				return x.inline(sc, decl, at, call)
			}

			return []stmt{unsupported(x.pos(call) + ": call of unknown receiver method " + name)}
		}

		if l, ok := x.trackedLocal(sc, fun.X); ok {
			return x.objCall(sc, l, name, call, resultUsed)
		}

		// a method of the tracked object type called on something we do not track
		if x.objKnown[name] {
			if id, ok := fun.X.(*ast.Ident); !ok || id.Obj != nil {
				if _, _, guarded := x.guardedRoot(sc, fun.X); guarded || ok {
					out := x.expr(sc, fun.X)
					out = append(out, x.args(sc, call.Args)...)

					return append(out, unsupported(x.pos(call)+": method "+name+" on an untracked value"))
				}
			}
		}

		out := x.expr(sc, fun.X)

		return append(out, x.args(sc, call.Args)...)

	case *ast.FuncLit:
		out := x.args(sc, call.Args)

		return append(out, stmt{Kind: "call", A: x.block(sc, fun.Body.List)})

	case *ast.Ident:
		if fun.Name == "panic" && fun.Obj == nil {
			out := x.args(sc, call.Args)

			return append(out, stmt{Kind: "return"})
		}

		return x.args(sc, call.Args)

	default:
		out := x.expr(sc, call.Fun)

		return append(out, x.args(sc, call.Args)...)
	}
}

func (x *extractor) expr(sc *scope, e ast.Expr) []stmt {
	switch v := e.(type) {
	case nil:
		return nil
	case *ast.CallExpr:
		return x.call(sc, v, true)
	case *ast.SelectorExpr:
		if f, ok := x.recvField(sc, v); ok {
			if _, isLock := x.lockID[f]; isLock {
				return []stmt{unsupported(x.pos(v) + ": mutex used as a value")}
			}

			if x.isAtomic[f] {
				return []stmt{unsupported(x.pos(v) + ": atomic pointer used as a value")}
			}

			if x.isPtr[f] {
				_, ld := x.loadPtr(f)

				return []stmt{ld}
			}

			if id, ok := x.varID[f]; ok {
				return []stmt{ev(fmt.Sprintf("ERead %d", id))}
			}

			return []stmt{unsupported(x.pos(v) + ": method value or unknown field " + f)}
		}

		if _, ok := x.recvNode(sc, v); ok {
			return []stmt{unsupported(x.pos(v) + ": a struct nested in the guarded type is used as a value")}
		}

		if l, ok := x.trackedLocal(sc, v.X); ok {
			return []stmt{ev(fmt.Sprintf("EObjRead %d", l))}
		}

		return x.expr(sc, v.X)
	case *ast.Ident:
		if x.isRecv(sc, v) {
			return []stmt{unsupported(x.pos(v) + ": receiver escapes")}
		}

		if _, ok := x.trackedLocal(sc, v); ok {
			return []stmt{unsupported(x.pos(v) + ": tracked object used as a value (alias / escape)")}
		}

		return nil
	case *ast.FuncLit:
		body := x.block(sc, v.Body.List)
		if !empty(prune(body)) {
			return []stmt{unsupported(x.pos(v) + ": closure touching guarded state is stored")}
		}

		return nil
	case *ast.UnaryExpr:
		if v.Op == token.AND {
			if _, _, ok := x.guardedRoot(sc, v.X); ok {
				return []stmt{unsupported(x.pos(v) + ": address of a guarded field")}
			}
		}

		if v.Op == token.ARROW {
			return append(x.expr(sc, v.X), unsupported(x.pos(v)+": channel receive"))
		}

		return x.expr(sc, v.X)
	case *ast.BinaryExpr:
		var out []stmt

		for _, side := range []ast.Expr{v.X, v.Y} {
			if _, ok := x.trackedLocal(sc, side); ok && (v.Op == token.EQL || v.Op == token.NEQ) {
				continue // comparison of a tracked pointer (e.g. with nil)
			}

			out = append(out, x.expr(sc, side)...)
		}

		return out
	case *ast.ParenExpr:
		return x.expr(sc, v.X)
	case *ast.StarExpr:
		return x.expr(sc, v.X)
	case *ast.IndexExpr:
		return append(x.expr(sc, v.X), x.expr(sc, v.Index)...)
	case *ast.IndexListExpr:
		return x.expr(sc, v.X)
	case *ast.SliceExpr:
		out := x.expr(sc, v.X)
		out = append(out, x.expr(sc, v.Low)...)
		out = append(out, x.expr(sc, v.High)...)

		return append(out, x.expr(sc, v.Max)...)
	case *ast.TypeAssertExpr:
		return x.expr(sc, v.X)
	case *ast.CompositeLit:
		var out []stmt
		for _, el := range v.Elts {
			out = append(out, x.args(sc, []ast.Expr{el})...)
		}

		return out
	case *ast.KeyValueExpr:
		return append(x.expr(sc, v.Key), x.args(sc, []ast.Expr{v.Value})...)
	default:
		return nil
	}
}

// ---------------------------------------------------------------- statements

func (x *extractor) assign(sc *scope, lhs, rhs ast.Expr, tok token.Token) []stmt {
	// --- writes to guarded fields
	if f, exact, ok := x.guardedRoot(sc, lhs); ok {
		if _, isLock := x.lockID[f]; isLock {
			return []stmt{unsupported(x.pos(lhs) + ": assignment to a mutex")}
		}

		if x.isAtomic[f] {
			return []stmt{unsupported(x.pos(lhs) + ": assignment to / through an atomic pointer field")}
		}

		if x.isPtr[f] {
			if !exact {
				l, ld := x.loadPtr(f)
				out := x.expr(sc, rhs)

				return append(out, ld, ev(fmt.Sprintf("EObjWrite %d", l)))
			}

			if l, ok := x.trackedLocal(sc, rhs); ok && tok == token.ASSIGN {
				return []stmt{ev(fmt.Sprintf("EStore %d %d", x.varID[f], l))}
			}

			if src, ok := x.cloneSource(sc, rhs); ok && tok == token.ASSIGN {
				l := x.newLocal("clone")
				out := append(src.pre, ev(fmt.Sprintf("EClone %d %d", l, src.local)))

				return append(out, ev(fmt.Sprintf("EStore %d %d", x.varID[f], l)))
			}

			return append(x.expr(sc, rhs), unsupported(x.pos(lhs)+": pointer field assigned from an untracked value"))
		}

		id, known := x.varID[f]
		if !known {
			return []stmt{unsupported(x.pos(lhs) + ": unknown field " + f)}
		}

		out := x.expr(sc, rhs)
		// index expressions on the left are evaluated too
		if ix, ok := lhs.(*ast.IndexExpr); ok {
			out = append(out, x.expr(sc, ix.Index)...)
		}

		if tok != token.ASSIGN && tok != token.DEFINE || !exact {
			out = append(out, ev(fmt.Sprintf("ERead %d", id)))
		}

		return append(out, ev(fmt.Sprintf("EWrite %d", id)))
	}

	// --- writes through a tracked object: tmp.f = ...
	if root := rootExpr(lhs); root != lhs {
		if l, ok := x.trackedLocal(sc, root); ok {
			return append(x.expr(sc, rhs), ev(fmt.Sprintf("EObjWrite %d", l)))
		}
	}

	// --- definitions / assignments of locals
	if id, ok := lhs.(*ast.Ident); ok && id.Obj != nil {
		if f, ok := x.ptrField(sc, rhs); ok {
			l := x.newLocal(id.Name)
			sc.env[id.Obj] = l

			return []stmt{x.loadInto(l, f)}
		}

		if src, ok := x.cloneSource(sc, rhs); ok {
			l := x.newLocal(id.Name)
			sc.env[id.Obj] = l

			return append(src.pre, ev(fmt.Sprintf("EClone %d %d", l, src.local)))
		}

		if _, ok := x.trackedLocal(sc, rhs); ok {
			return []stmt{unsupported(x.pos(rhs) + ": alias of a tracked object")}
		}

		if _, ok := sc.env[id.Obj]; ok {
			delete(sc.env, id.Obj)

			return append(x.expr(sc, rhs), unsupported(x.pos(lhs)+": tracked local reassigned from an untracked value"))
		}

		return x.expr(sc, rhs)
	}

	out := x.expr(sc, rhs)
	if ix, ok := lhs.(*ast.IndexExpr); ok {
		out = append(out, x.expr(sc, ix.X)...)
		out = append(out, x.expr(sc, ix.Index)...)
	} else if id, ok := lhs.(*ast.Ident); !ok || id.Name != "_" {
		if _, ok := lhs.(*ast.Ident); !ok {
			out = append(out, x.expr(sc, rootExpr(lhs))...)
		}
	}

	return out
}

type cloneSrc struct {
	pre   []stmt
	local int
}

// cloneSource recognises `X.Clone()` with X = recv.p or a tracked local.
func (x *extractor) cloneSource(sc *scope, e ast.Expr) (cloneSrc, bool) {
	call, ok := e.(*ast.CallExpr)
	if !ok {
		return cloneSrc{}, false
	}

	sel, ok := call.Fun.(*ast.SelectorExpr)
	if !ok || sel.Sel.Name != "Clone" || len(call.Args) != 0 {
		return cloneSrc{}, false
	}

	if f, ok := x.ptrField(sc, sel.X); ok {
		l, ld := x.loadPtr(f)

		return cloneSrc{pre: []stmt{ld}, local: l}, true
	}

	if l, ok := x.trackedLocal(sc, sel.X); ok {
		return cloneSrc{local: l}, true
	}

	return cloneSrc{}, false
}

func (x *extractor) block(sc *scope, list []ast.Stmt) []stmt {
	var out []stmt
	for _, s := range list {
		out = append(out, x.stmt(sc, s)...)
	}

	return out
}

func (x *extractor) loop(sc *scope, body func() []stmt) []stmt {
	x.jumpInLoop = append(x.jumpInLoop, false)
	b := body()
	jump := x.jumpInLoop[len(x.jumpInLoop)-1]
	x.jumpInLoop = x.jumpInLoop[:len(x.jumpInLoop)-1]

	if jump && hasEvents(b) {
		b = append([]stmt{unsupported("break/continue in a loop that contains events")}, b...)
	}

	return []stmt{{Kind: "loop", A: b}}
}

func (x *extractor) clauses(sc *scope, list []ast.Stmt) []stmt {
	// switch clauses as a chain of alternatives; without default the last alternative is empty
	if len(list) == 0 {
		return nil
	}

	cc, ok := list[0].(*ast.CaseClause)
	if !ok {
		return []stmt{unsupported("select / unknown clause")}
	}

	var body []stmt

	for _, e := range cc.List {
		body = append(body, x.expr(sc, e)...)
	}

	body = append(body, x.block(sc, cc.Body)...)

	return []stmt{{Kind: "if", A: body, B: x.clauses(sc, list[1:])}}
}

func (x *extractor) stmt(sc *scope, s ast.Stmt) []stmt {
	switch v := s.(type) {
	case nil:
		return nil
	case *ast.ExprStmt:
		if call, ok := v.X.(*ast.CallExpr); ok {
			return x.call(sc, call, false)
		}

		return x.expr(sc, v.X)
	case *ast.AssignStmt:
		var out []stmt

		if len(v.Lhs) == len(v.Rhs) {
			for i := range v.Lhs {
				out = append(out, x.assign(sc, v.Lhs[i], v.Rhs[i], v.Tok)...)
			}

			return out
		}

		for _, r := range v.Rhs {
			out = append(out, x.expr(sc, r)...)
		}

		for _, l := range v.Lhs {
			if f, _, ok := x.guardedRoot(sc, l); ok {
				if id, known := x.varID[f]; known && !x.isPtr[f] {
					out = append(out, ev(fmt.Sprintf("EWrite %d", id)))
				} else {
					out = append(out, unsupported(x.pos(l)+": multi-value assignment to a guarded pointer / mutex"))
				}
			} else if id, ok := l.(*ast.Ident); ok && id.Obj != nil {
				if _, tracked := sc.env[id.Obj]; tracked {
					out = append(out, unsupported(x.pos(l)+": tracked local reassigned"))
				}
			}
		}

		return out
	case *ast.DeclStmt:
		var out []stmt

		if gd, ok := v.Decl.(*ast.GenDecl); ok {
			for _, sp := range gd.Specs {
				if vs, ok := sp.(*ast.ValueSpec); ok {
					for i, val := range vs.Values {
						if i < len(vs.Names) && len(vs.Names) == len(vs.Values) {
							out = append(out, x.assign(sc, vs.Names[i], val, token.DEFINE)...)
						} else {
							out = append(out, x.expr(sc, val)...)
						}
					}
				}
			}
		}

		return out
	case *ast.IncDecStmt:
		return x.assign(sc, v.X, nil, token.ADD_ASSIGN)
	case *ast.DeferStmt:
		body := x.call(sc, v.Call, false)
		body = prune(body)

		var out []stmt

		flat := body
		if len(body) == 1 && body[0].Kind == "call" {
			flat = body[0].A
		}

		for _, b := range flat {
			if b.Kind != "ev" || !strings.HasPrefix(b.Ev, "EUnlock") && !strings.HasPrefix(b.Ev, "ERUnlock") &&
				!strings.HasPrefix(b.Ev, "ELock") && !strings.HasPrefix(b.Ev, "ERLock") {
				return []stmt{unsupported(x.pos(v) + ": deferred call with effects other than lock operations")}
			}
		}
		// a deferred closure runs its events in order; defers are popped LIFO
		for i := len(flat) - 1; i >= 0; i-- {
			out = append(out, stmt{Kind: "defer", Ev: flat[i].Ev})
		}

		return out
	case *ast.GoStmt:
		return []stmt{unsupported(x.pos(v) + ": go statement")}
	case *ast.ReturnStmt:
		var out []stmt

		for _, r := range v.Results {
			out = append(out, x.args(sc, []ast.Expr{r})...)
		}

		return append(out, stmt{Kind: "return"})
	case *ast.BlockStmt:
		return x.block(sc, v.List)
	case *ast.IfStmt:
		out := x.stmt(sc, v.Init)
		out = append(out, x.expr(sc, v.Cond)...)

		var els []stmt
		if v.Else != nil {
			els = x.stmt(sc, v.Else)
		}

		return append(out, stmt{Kind: "if", A: x.block(sc, v.Body.List), B: els})
	case *ast.ForStmt:
		out := x.stmt(sc, v.Init)
		out = append(out, x.expr(sc, v.Cond)...)

		return append(out, x.loop(sc, func() []stmt {
			b := x.block(sc, v.Body.List)
			b = append(b, x.stmt(sc, v.Post)...)

			return append(b, x.expr(sc, v.Cond)...)
		})...)
	case *ast.RangeStmt:
		out := x.args(sc, []ast.Expr{v.X})

		return append(out, x.loop(sc, func() []stmt { return x.block(sc, v.Body.List) })...)
	case *ast.SwitchStmt:
		out := x.stmt(sc, v.Init)
		out = append(out, x.expr(sc, v.Tag)...)
		// `break` inside a switch leaves the switch: treat the switch like a loop frame for the jump flag
		x.jumpInLoop = append(x.jumpInLoop, false)
		cl := x.clauses(sc, v.Body.List)
		jump := x.jumpInLoop[len(x.jumpInLoop)-1]
		x.jumpInLoop = x.jumpInLoop[:len(x.jumpInLoop)-1]

		if jump && hasEvents(cl) {
			cl = append([]stmt{unsupported(x.pos(v) + ": break inside a switch that contains events")}, cl...)
		}

		return append(out, cl...)
	case *ast.TypeSwitchStmt:
		out := x.stmt(sc, v.Init)
		out = append(out, x.stmt(sc, v.Assign)...)

		return append(out, x.clauses(sc, v.Body.List)...)
	case *ast.SelectStmt:
		return []stmt{unsupported(x.pos(v) + ": select")}
	case *ast.LabeledStmt:
		return x.stmt(sc, v.Stmt)
	case *ast.BranchStmt:
		if v.Tok == token.GOTO || v.Tok == token.FALLTHROUGH || v.Label != nil || len(x.jumpInLoop) == 0 {
			return []stmt{unsupported(x.pos(v) + ": " + v.Tok.String())}
		}

		x.jumpInLoop[len(x.jumpInLoop)-1] = true

		return nil
	case *ast.SendStmt:
		return append(x.expr(sc, v.Value), unsupported(x.pos(v)+": channel send"))
	default:
		return nil
	}
}

// ---------------------------------------------------------------- mutating methods of the pointed-to type

func parseDir(fset *token.FileSet, dir string) []*ast.File {
	ents, err := os.ReadDir(dir)
	if err != nil {
		return nil
	}

	var out []*ast.File

	for _, e := range ents {
		n := e.Name()
		if e.IsDir() || !strings.HasSuffix(n, ".go") || strings.HasSuffix(n, "_test.go") {
			continue
		}

		f, err := parser.ParseFile(fset, filepath.Join(dir, n), nil, parser.ParseComments)
		if err != nil {
			continue
		}

		out = append(out, f)
	}

	return out
}

func recvTypeName(fd *ast.FuncDecl) string {
	if fd.Recv == nil || len(fd.Recv.List) != 1 {
		return ""
	}

	t := fd.Recv.List[0].Type
	if st, ok := t.(*ast.StarExpr); ok {
		t = st.X
	}

	switch v := t.(type) {
	case *ast.Ident:
		return v.Name
	case *ast.IndexExpr:
		if id, ok := v.X.(*ast.Ident); ok {
			return id.Name
		}
	case *ast.IndexListExpr:
		if id, ok := v.X.(*ast.Ident); ok {
			return id.Name
		}
	}

	return ""
}

var inPlace = map[string]bool{ // stdlib functions that write through their first argument
	"copy": true, "clear": true, "delete": true,
	"slices.Sort": true, "slices.SortFunc": true, "slices.SortStableFunc": true, "slices.Reverse": true,
	"sort.Slice": true, "sort.SliceStable": true, "sort.Sort": true, "sort.Stable": true, "sort.Strings": true,
	"sort.Ints": true,
}

// further library functions that may write into the backing array of their first argument
var inPlaceMore = map[string]bool{
	"slices.DeleteFunc": true, "slices.Delete": true, "slices.Insert": true, "slices.Compact": true,
	"slices.CompactFunc": true, "slices.Replace": true,
}

// mutators computes, for every method of type typ in files, whether it may write memory reachable from its receiver.
func mutators(files []*ast.File, typ string) map[string]bool {
	decls := map[string]*ast.FuncDecl{}

	for _, f := range files {
		for _, d := range f.Decls {
			if fd, ok := d.(*ast.FuncDecl); ok && fd.Body != nil && recvTypeName(fd) == typ {
				decls[fd.Name.Name] = fd
			}
		}
	}

	mut := map[string]bool{}
	mutParam := map[string]bool{} // writes through a non-receiver parameter

	for name := range decls {
		mut[name] = false
	}

	for changed := true; changed; {
		changed = false

		for name, fd := range decls {
			m, mp := analyse(fd, mut, mutParam, decls)
			if m && !mut[name] {
				mut[name] = true
				changed = true
			}

			if mp && !mutParam[name] {
				mutParam[name] = true
				changed = true
			}
		}
	}

	return mut
}

func analyse(fd *ast.FuncDecl, mut, mutParam map[string]bool, decls map[string]*ast.FuncDecl) (bool, bool) {
	tainted := map[*ast.Object]bool{}
	params := map[*ast.Object]bool{}

	if len(fd.Recv.List[0].Names) == 1 {
		tainted[fd.Recv.List[0].Names[0].Obj] = true
	}

	for _, f := range fd.Type.Params.List {
		for _, n := range f.Names {
			if n.Obj != nil {
				params[n.Obj] = true
			}
		}
	}

	isT := func(e ast.Expr, set map[*ast.Object]bool) bool {
		r := rootExpr(e)
		// result of a method call on a tainted receiver is tainted
		if c, ok := r.(*ast.CallExpr); ok {
			if s, ok := c.Fun.(*ast.SelectorExpr); ok {
				if _, known := decls[s.Sel.Name]; known {
					r = rootExpr(s.X)
				}
			}
		}

		id, ok := r.(*ast.Ident)

		return ok && id.Obj != nil && set[id.Obj]
	}

	// taint propagation to locals (flow-insensitive, to a fixed point)
	for changed := true; changed; {
		changed = false

		mark := func(l ast.Expr, src ast.Expr) {
			id, ok := l.(*ast.Ident)
			if !ok || id.Obj == nil {
				return
			}

			if isT(src, tainted) && !tainted[id.Obj] {
				tainted[id.Obj] = true
				changed = true
			}

			if isT(src, params) && !params[id.Obj] {
				params[id.Obj] = true
				changed = true
			}
		}

		ast.Inspect(fd.Body, func(n ast.Node) bool {
			switch v := n.(type) {
			case *ast.AssignStmt:
				if len(v.Lhs) == len(v.Rhs) {
					for i := range v.Lhs {
						mark(v.Lhs[i], v.Rhs[i])
					}
				} else if len(v.Rhs) == 1 {
					for _, l := range v.Lhs {
						mark(l, v.Rhs[0])
					}
				}
			case *ast.RangeStmt:
				if v.Key != nil {
					mark(v.Key, v.X)
				}

				if v.Value != nil {
					mark(v.Value, v.X)
				}
			case *ast.ValueSpec:
				for i, val := range v.Values {
					if i < len(v.Names) {
						mark(v.Names[i], val)
					}
				}
			}

			return true
		})
	}

	var m, mp bool

	write := func(lhs ast.Expr) {
		if _, plain := lhs.(*ast.Ident); plain {
			return // assignment to a local variable itself
		}

		if isT(lhs, tainted) {
			m = true
		}

		if isT(lhs, params) {
			mp = true
		}
	}

	ast.Inspect(fd.Body, func(n ast.Node) bool {
		switch v := n.(type) {
		case *ast.AssignStmt:
			for _, l := range v.Lhs {
				write(l)
			}
		case *ast.IncDecStmt:
			write(v.X)
		case *ast.CallExpr:
			name := ""

			switch f := v.Fun.(type) {
			case *ast.Ident:
				name = f.Name
			case *ast.SelectorExpr:
				if id, ok := f.X.(*ast.Ident); ok && id.Obj == nil {
					name = id.Name + "." + f.Sel.Name
				} else if _, known := decls[f.Sel.Name]; known {
					// sibling method
					if mut[f.Sel.Name] {
						if isT(f.X, tainted) {
							m = true
						}

						if isT(f.X, params) {
							mp = true
						}
					}

					if mutParam[f.Sel.Name] {
						for _, a := range v.Args {
							if isT(a, tainted) {
								m = true
							}

							if isT(a, params) {
								mp = true
							}
						}
					}
				}
			}

			if inPlace[name] && len(v.Args) > 0 {
				if isT(v.Args[0], tainted) {
					m = true
				}

				if isT(v.Args[0], params) {
					mp = true
				}
			}
		}

		return true
	})

	return m, mp
}

// ---------------------------------------------------------------- main

type jsonOut struct {
	File    string              `json:"file"`
	Type    string              `json:"type"`
	Locks   []string            `json:"locks"`
	Vars    []string            `json:"vars"`
	PtrVars []string            `json:"ptr_vars"`
	Methods []string            `json:"methods"`
	Locals  map[string][]string `json:"locals"`
	ObjMut  map[string]bool     `json:"object_methods_mutating"`
	Rank    []int               `json:"rank"`
	WLock   int                 `json:"writer_lock"`
	Notes   []string            `json:"notes"`
}

func fail(format string, a ...any) {
	fmt.Fprintf(os.Stderr, "skel: "+format+"\n", a...)
	os.Exit(2)
}

func main() {
	repo := flag.String("repo", "/repo", "checkout to read")
	file := flag.String("file", "internal/rules/repository_impl.go", "file (relative to -repo) declaring the type")
	typ := flag.String("type", "repository", "struct type")
	out := flag.String("out", "", "Coq file to write")
	name := flag.String("name", "repo", "prefix of the generated Coq identifiers")
	jsonPath := flag.String("json", "", "side file with names (for diagnostics)")
	module := flag.String("module", "github.com/dadrus/heimdall", "module path of -repo")
	ctor := flag.String("ctor", "", "constructor of the type: may only be declared and handed to fx.Provide (no decorator)")
	flag.Parse()

	fset := token.NewFileSet()
	path := filepath.Join(*repo, *file)

	f, err := parser.ParseFile(fset, path, nil, parser.ParseComments)
	if err != nil {
		fail("parse %s: %v", path, err)
	}

	x := &extractor{
		fset: fset, file: f, typeName: *typ,
		lockKind: map[string]string{}, lockID: map[string]int{}, varID: map[string]int{},
		isPtr: map[string]bool{}, isAtomic: map[string]bool{}, atomLock: map[string]int{},
		ptrPkg: map[string]string{}, methods: map[string]*ast.FuncDecl{},
		objMethods: map[string]bool{}, objKnown: map[string]bool{},
	}

	imports := map[string]string{}

	for _, im := range f.Imports {
		p := strings.Trim(im.Path.Value, `"`)
		n := filepath.Base(p)

		if im.Name != nil {
			n = im.Name.Name
		}

		imports[n] = p
	}

	// --- the struct
	var st *ast.StructType

	ast.Inspect(f, func(n ast.Node) bool {
		if ts, ok := n.(*ast.TypeSpec); ok && ts.Name.Name == *typ {
			if s, ok := ts.Type.(*ast.StructType); ok {
				st = s
			}
		}

		return true
	})

	if st == nil {
		fail("type %s not found in %s", *typ, path)
	}

	ptrElem := map[string][2]string{} // field -> (pkg import path, type name)

	// struct types declared in the package (a field of such a type, embedded or named, is a nested part of the guarded state)
	pkgStructs := map[string]*ast.StructType{}

	for _, of := range append([]*ast.File{f}, parseDir(fset, filepath.Dir(path))...) {
		for _, d := range of.Decls {
			gd, ok := d.(*ast.GenDecl)
			if !ok || gd.Tok != token.TYPE {
				continue
			}

			for _, sp := range gd.Specs {
				if ts, ok := sp.(*ast.TypeSpec); ok && ts.TypeParams == nil {
					if stt, ok := ts.Type.(*ast.StructType); ok {
						if _, dup := pkgStructs[ts.Name.Name]; !dup {
							pkgStructs[ts.Name.Name] = stt
						}
					}
				}
			}
		}
	}

	var build func(typeName string, stt *ast.StructType, prefix string, depth int) *snode

	build = func(typeName string, stt *ast.StructType, prefix string, depth int) *snode {
		node := &snode{typeName: typeName, prefix: prefix}

		for _, fld := range stt.Fields.List {
			names := []string{}
			for _, n := range fld.Names {
				names = append(names, n.Name)
			}

			embedded := len(names) == 0
			kind := ""

			if sel, ok := fld.Type.(*ast.SelectorExpr); ok {
				if id, ok := sel.X.(*ast.Ident); ok && imports[id.Name] == "sync" &&
					(sel.Sel.Name == "Mutex" || sel.Sel.Name == "RWMutex") {
					kind = sel.Sel.Name

					if embedded {
						names = []string{sel.Sel.Name}
					}
				}
			}

			// a struct of the package nested by value
			if id, ok := fld.Type.(*ast.Ident); ok && kind == "" && depth < 8 {
				if sub, ok := pkgStructs[id.Name]; ok {
					if embedded {
						names = []string{id.Name}
					}

					for _, n := range names {
						node.fields = append(node.fields, sfield{name: n, embedded: embedded,
							sub: build(id.Name, sub, prefix+n+".", depth+1)})
					}

					continue
				}
			}

			if embedded && kind == "" {
				// an embedded type that is not analysed (pointer to a struct, foreign type): a plain leaf under its type name
				t := fld.Type
				if st, ok := t.(*ast.StarExpr); ok {
					t = st.X
				}

				switch v := t.(type) {
				case *ast.Ident:
					names = []string{v.Name}
				case *ast.SelectorExpr:
					names = []string{v.Sel.Name}
				default:
					continue
				}
			}

			for _, short := range names {
				n := prefix + short
				node.fields = append(node.fields, sfield{name: short, embedded: embedded, leaf: n})

				if kind != "" {
					x.lockID[n] = len(x.lockNames)
					x.lockNames = append(x.lockNames, n)
					x.lockKind[n] = kind

					continue
				}

				x.varID[n] = len(x.varNames)
				x.varNames = append(x.varNames, n)

				var el ast.Expr

				if star, ok := fld.Type.(*ast.StarExpr); ok {
					el = star.X
				}

				// sync/atomic.Pointer[T]
				if ix, ok := fld.Type.(*ast.IndexExpr); ok {
					if sel, ok := ix.X.(*ast.SelectorExpr); ok && sel.Sel.Name == "Pointer" {
						if id, ok := sel.X.(*ast.Ident); ok && imports[id.Name] == "sync/atomic" {
							el = ix.Index
							x.isAtomic[n] = true
						}
					}
				}

				if el != nil {
					x.isPtr[n] = true

					if ix, ok := el.(*ast.IndexExpr); ok {
						el = ix.X
					}

					if ix, ok := el.(*ast.IndexListExpr); ok {
						el = ix.X
					}

					if sel, ok := el.(*ast.SelectorExpr); ok {
						if id, ok := sel.X.(*ast.Ident); ok {
							ptrElem[n] = [2]string{imports[id.Name], sel.Sel.Name}
						}
					}

					if id, ok := el.(*ast.Ident); ok {
						ptrElem[n] = [2]string{"", id.Name} // a type of the same package
					}
				}
			}
		}

		return node
	}

	x.root = build(*typ, st, "", 0)

	// one pseudo lock per atomic pointer field: a Load holds it shared, a Store exclusively, for that access only
	for _, n := range x.varNames {
		if x.isAtomic[n] {
			name := "atomic(" + n + ")"
			x.atomLock[n] = len(x.lockNames)
			x.lockID[name] = len(x.lockNames)
			x.lockNames = append(x.lockNames, name)
			x.lockKind[name] = "RWMutex"
		}
	}

	// --- mutating methods of the types behind the pointer fields
	for _, pe := range ptrElem {
		dir := filepath.Dir(path)

		switch {
		case pe[0] == "":
		case strings.HasPrefix(pe[0], *module+"/"):
			dir = filepath.Join(*repo, strings.TrimPrefix(pe[0], *module+"/"))
		default:
			continue
		}

		for m, isMut := range mutators(parseDir(fset, dir), pe[1]) {
			x.objKnown[m] = true
			x.objMethods[m] = x.objMethods[m] || isMut
		}
	}

	// --- methods
	var order []string

	treeTypes := map[string]bool{}

	var collect func(n *snode)

	collect = func(n *snode) {
		treeTypes[n.typeName] = true

		for _, fl := range n.fields {
			if fl.sub != nil {
				collect(fl.sub)
			}
		}
	}

	collect(x.root)

	x.typeMethods = map[string]map[string]*ast.FuncDecl{}

	for _, of := range append([]*ast.File{f}, parseDir(fset, filepath.Dir(path))...) {
		for _, d := range of.Decls {
			fd, ok := d.(*ast.FuncDecl)
			if !ok || fd.Body == nil {
				continue
			}

			tn := recvTypeName(fd)
			if !treeTypes[tn] {
				continue
			}

			if x.typeMethods[tn] == nil {
				x.typeMethods[tn] = map[string]*ast.FuncDecl{}
			}

			if _, dup := x.typeMethods[tn][fd.Name.Name]; dup {
				continue // the file itself is parsed twice (f and parseDir)
			}

			x.typeMethods[tn][fd.Name.Name] = fd

			if tn == *typ {
				x.methods[fd.Name.Name] = fd
				order = append(order, fd.Name.Name)
			}
		}
	}

	// entry points: exported methods, plus unexported ones referenced from other files of the package
	guardedNames := map[string]bool{}
	for _, n := range append(append([]string{}, x.lockNames...), x.varNames...) {
		guardedNames[n[strings.LastIndex(n, ".")+1:]] = true // the field's own name (paths: nested structs)
	}

	external := map[string]bool{}

	var externalAccess []string

	for _, of := range parseDir(fset, filepath.Dir(path)) {
		if fset.Position(of.Pos()).Filename == path {
			continue
		}

		mentions := false

		ast.Inspect(of, func(n ast.Node) bool {
			if id, ok := n.(*ast.Ident); ok && id.Name == *typ {
				if id.Obj == nil || id.Obj.Kind == ast.Typ {
					mentions = true
				}
			}

			return true
		})

		ast.Inspect(of, func(n ast.Node) bool {
			sel, ok := n.(*ast.SelectorExpr)
			if !ok {
				return true
			}

			if fd, ok := x.methods[sel.Sel.Name]; ok && !fd.Name.IsExported() && mentions {
				external[sel.Sel.Name] = true
			}

			if guardedNames[sel.Sel.Name] && mentions {
				externalAccess = append(externalAccess, x.pos(sel)+": ."+sel.Sel.Name)
			}

			return true
		})
	}

	// the constructor must reach the application undecorated: besides its declaration it may only appear as a
	// direct argument of fx.Provide(...) (a caching / metrics wrapper around the repository would not be analysed)
	if *ctor != "" {
		for _, of := range parseDir(fset, filepath.Dir(path)) {
			allowed := map[*ast.Ident]bool{}

			ast.Inspect(of, func(n ast.Node) bool {
				switch v := n.(type) {
				case *ast.FuncDecl:
					if v.Name.Name == *ctor && v.Recv == nil {
						allowed[v.Name] = true
					}
				case *ast.CallExpr:
					if sel, ok := v.Fun.(*ast.SelectorExpr); ok && sel.Sel.Name == "Provide" {
						if id, ok := sel.X.(*ast.Ident); ok && id.Name == "fx" {
							for _, a := range v.Args {
								if aid, ok := a.(*ast.Ident); ok && aid.Name == *ctor {
									allowed[aid] = true
								}
							}
						}
					}
				}

				return true
			})

			ast.Inspect(of, func(n ast.Node) bool {
				if id, ok := n.(*ast.Ident); ok && id.Name == *ctor && !allowed[id] {
					externalAccess = append(externalAccess, x.pos(id)+": "+*ctor+" used other than in fx.Provide")
				}

				return true
			})
		}
	}

	var (
		entries []string
		progs   []string
		locals  = map[string][]string{}
		allSt   = map[string][]stmt{}
	)

	for _, m := range order {
		fd := x.methods[m]
		if !fd.Name.IsExported() && !external[m] {
			continue
		}

		x.localNames = nil
		sc := &scope{env: map[*ast.Object]int{}, node: x.root}
		_, ptrRecv := fd.Recv.List[0].Type.(*ast.StarExpr)

		if len(fd.Recv.List[0].Names) == 1 {
			sc.recv = fd.Recv.List[0].Names[0].Obj
		}

		body := prune(x.block(sc, fd.Body.List))
		if !ptrRecv {
			body = append([]stmt{unsupported(x.pos(fd) + ": value receiver (the call copies the guarded struct)")}, body...)
		}

		entries = append(entries, m)
		locals[m] = x.localNames
		allSt[m] = body
		progs = append(progs, fmt.Sprintf("(* %s; locals: %s *)\nDefinition %s_m_%s : list stmt :=\n  %s.\n",
			m, localList(x.localNames), *name, m, render(body, "  ")))
	}

	if len(externalAccess) > 0 {
		m := "external_access"
		entries = append(entries, m)
		body := []stmt{unsupported("guarded fields accessed outside " + *file + ": " + strings.Join(externalAccess, ", "))}
		allSt[m] = body
		progs = append(progs, fmt.Sprintf("(* guarded fields are accessed from other files: %s *)\nDefinition %s_m_%s : list stmt :=\n  %s.\n",
			strings.Join(externalAccess, ", "), *name, m, render(body, "  ")))
	}

	// --- lock order certificate: edges held -> acquired in textual order, then a topological order
	rank, wlock := lockOrder(x, entries, allSt)

	// --- output
	var sb strings.Builder

	sb.WriteString("(* GENERATED on every check run by harness/tools/skel from " + *file + " (type " + *typ + ") - do not edit.\n")
	sb.WriteString("   locks: ")

	for i, n := range x.lockNames {
		fmt.Fprintf(&sb, "%d = %s (sync.%s)  ", i, n, x.lockKind[n])
	}

	sb.WriteString("\n   fields: ")

	for i, n := range x.varNames {
		k := "plain"
		if x.isPtr[n] {
			k = "pointer"
		}

		fmt.Fprintf(&sb, "%d = %s (%s)  ", i, n, k)
	}

	sb.WriteString("\n   methods of the pointed-to type, mutating their receiver: ")

	var ms []string
	for m := range x.objKnown {
		ms = append(ms, m)
	}

	sort.Strings(ms)

	for _, m := range ms {
		fmt.Fprintf(&sb, "%s=%v ", m, x.objMethods[m])
	}

	sb.WriteString("*)\n")
	sb.WriteString("From HV Require Import Base.Prelude Base.Locks C07.Model.\n\n")

	for _, p := range progs {
		sb.WriteString(p)
		sb.WriteString("\n")
	}

	fmt.Fprintf(&sb, "Definition %s_method_names : list string := [%s].\n\n", *name, quoteList(entries))
	fmt.Fprintf(&sb, "Definition %s_prog : list (list stmt) := [%s].\n\n", *name, prefixList(*name+"_m_", entries))
	fmt.Fprintf(&sb, "Definition %s_rank (m : lock) : nat :=\n  match m with\n", *name)

	for i := range x.lockNames {
		fmt.Fprintf(&sb, "  | %d => %d\n", i, rank[i])
	}

	sb.WriteString("  | _ => 0\n  end.\n\n")
	fmt.Fprintf(&sb, "Definition %s_skel : skel :=\n  {| sk_meths := map method_paths %s_prog; sk_rank := %s_rank; sk_bound := %d |}.\n\n",
		*name, *name, *name, len(x.lockNames))
	fmt.Fprintf(&sb, "(* the lock that serialises the writers *)\nDefinition %s_wlock : lock := %d.\n\n", *name, wlock)
	fmt.Fprintf(&sb, "Example %s_skel_wf : wf_skel %s_wlock %s_skel = true.\nProof. vm_compute. reflexivity. Qed.\n", *name, *name, *name)

	if *out != "" {
		old, _ := os.ReadFile(*out)
		if string(old) != sb.String() {
			if err := os.WriteFile(*out, []byte(sb.String()), 0o644); err != nil {
				fail("write %s: %v", *out, err)
			}
		}
	} else {
		fmt.Print(sb.String())
	}

	if *jsonPath != "" {
		var ptrs []string

		for _, n := range x.varNames {
			if x.isPtr[n] {
				ptrs = append(ptrs, n)
			}
		}

		b, _ := json.MarshalIndent(jsonOut{
			File: *file, Type: *typ, Locks: x.lockNames, Vars: x.varNames, PtrVars: ptrs, Methods: entries,
			Locals: locals, ObjMut: x.objMethods, Rank: rank, WLock: wlock, Notes: notes,
		}, "", " ")
		_ = os.WriteFile(*jsonPath, b, 0o644)
	}
}

func localList(ns []string) string {
	parts := make([]string, len(ns))
	for i, n := range ns {
		parts[i] = fmt.Sprintf("%d=%s", i, n)
	}

	return strings.Join(parts, " ")
}

func quoteList(ns []string) string {
	parts := make([]string, len(ns))
	for i, n := range ns {
		parts[i] = `"` + n + `"%string`
	}

	return strings.Join(parts, "; ")
}

func prefixList(p string, ns []string) string {
	parts := make([]string, len(ns))
	for i, n := range ns {
		parts[i] = p + n
	}

	return strings.Join(parts, "; ")
}

// lockOrder: linear scan of every method (branches flattened in textual order, defers held to the end):
// edge a -> b when b is acquired while a is held.  Returns a rank per lock (topological, 1-based) and the
// writer lock (the exclusive lock held at most stores / writes).
func lockOrder(x *extractor, entries []string, all map[string][]stmt) ([]int, int) {
	n := len(x.lockNames)
	edge := make([][]bool, n)

	for i := range edge {
		edge[i] = make([]bool, n)
	}

	votes := make([]int, n)

	var scan func(ss []stmt, held map[int]bool, excl map[int]bool)

	scan = func(ss []stmt, held map[int]bool, excl map[int]bool) {
		for _, s := range ss {
			switch s.Kind {
			case "ev":
				var a, b int

				switch {
				case strings.HasPrefix(s.Ev, "ELock "), strings.HasPrefix(s.Ev, "ERLock "):
					fmt.Sscanf(s.Ev[strings.Index(s.Ev, " ")+1:], "%d", &a)

					for h := range held {
						if h != a {
							edge[h][a] = true
						}
					}

					held[a] = true
					excl[a] = strings.HasPrefix(s.Ev, "ELock ")
				case strings.HasPrefix(s.Ev, "EUnlock "), strings.HasPrefix(s.Ev, "ERUnlock "):
					fmt.Sscanf(s.Ev[strings.Index(s.Ev, " ")+1:], "%d", &a)
					delete(held, a)
					delete(excl, a)
				case strings.HasPrefix(s.Ev, "EStore "), strings.HasPrefix(s.Ev, "EWrite "):
					_ = b

					for h := range held {
						if excl[h] {
							votes[h]++
						}
					}
				}
			default:
				scan(s.A, held, excl)
				scan(s.B, held, excl)
			}
		}
	}

	for _, m := range entries {
		scan(all[m], map[int]bool{}, map[int]bool{})
	}

	// Kahn
	rank := make([]int, n)
	done := make([]bool, n)

	for r := 1; r <= n; r++ {
		pick := -1

		for i := 0; i < n && pick < 0; i++ {
			if done[i] {
				continue
			}

			free := true

			for j := 0; j < n; j++ {
				if !done[j] && j != i && edge[j][i] {
					free = false
				}
			}

			if free {
				pick = i
			}
		}

		if pick < 0 { // cycle: keep field order for the rest (the Coq check will reject)
			for i := 0; i < n; i++ {
				if !done[i] {
					pick = i

					break
				}
			}
		}

		done[pick] = true
		rank[pick] = r
	}

	// writer lock: most votes; ties -> lowest rank
	w := 0

	for i := 1; i < n; i++ {
		if votes[i] > votes[w] || votes[i] == votes[w] && rank[i] < rank[w] {
			w = i
		}
	}

	return rank, w
}
