// Command instr produces the INSTRUMENTED copy of a Go file that declares a struct
// type guarding its fields with sync.Mutex / sync.RWMutex (heimdall's rule repository,
// internal/rules/repository_impl.go, property C07).  The copy is compiled INSTEAD of the
// original through `go test -overlay`; /repo is not touched.
//
// What it does (go/ast, identifier resolution of the parser, no type checker; written
// independently of harness/tools/skel, whose skeleton the logged events are compared with):
//
//   - in the struct, sync.Mutex / sync.RWMutex become sched.Mutex / sched.RWMutex (same API;
//     under a controller every Lock/RLock/Unlock/RUnlock is a scheduling point and an event);
//   - in every method of the type (closures included), with r the receiver:
//     r.f                  (f a data field, read)      ->  sched.Get(id(f), r.f)
//     r.f = e                                          ->  r.f = sched.Put(id(f), e')
//     r.f op= e, r.f++                                 ->  r.f = sched.Put(id(f), sched.Get(id(f), r.f) op e')
//     r.f, x = g()                                     ->  ...; sched.Put(id(f), r.f)
//     &r.f                                             ->  sched.Addr(&r.f)        (logged as untranslated)
//     X.M(args)  with X an object behind a pointer field
//     ->  sched.Obj(X', "M").M(args')
//     X.Clone()                                        ->  sched.Res(sched.Obj(X', "Clone").Clone())
//     X.g = e   (X such an object)                     ->  sched.Obj(X', "=").g = e'
//     r.f.g, r.f.M(..), r.f[i]  with f neither pointer, slice, map, chan, func nor interface literal type
//     ->  sched.GetP(id(f), &r.f).g ...   (no copy of the field)
//     r.a.Load() / r.a.Store(e)  with a of type sync/atomic.Pointer[T]
//     ->  sched.ALoad(id(a), lock(a), r.a.Load()) / r.a.Store(sched.AStore(id(a), lock(a), e'))
//     (lock(a): the pseudo lock "atomic(a)" the skeleton uses for the atomicity of one access)
//     "an object behind a pointer field": r.p for a pointer field p, a parameter whose declared type
//     is textually the type of such a field, a local defined from such an expression or from its Clone().
//     Fields are numbered in declaration order, locks and data fields separately (as the skeleton does).
//
// The guarded state is identified STRUCTURALLY, not by names: mutexes by their type, anywhere in the struct including
// structs of the package nested in it by value (embedded or as named fields; their methods are instrumented too, with
// the receiver standing for that part of the state); leaves are keyed by their path ("routeIndex.index") and numbered
// depth first in declaration order, mutexes and data fields separately - the same numbering as harness/tools/skel.
// Every file of the package that declares such a struct or one of their methods gets an instrumented copy.
// With -access FILE a Go file with accessors for the drivers is written (c07GetIndex / c07SetIndex: the field of a
// pointer type; c07GetKnown / c07SetKnown: the field of a slice type whose element is an interface type name; c07GetDefault /
// c07SetDefault: the field whose type is that element type; c07LockAddrs: the addresses of the mutexes in id order),
// so that no driver mentions a field name.
//
// Usage: instr -repo /repo -file internal/rules/repository_impl.go -type repository -outdir DIR -json FILE [-access FILE]
package main

import (
	"bytes"
	"encoding/json"
	"flag"
	"fmt"
	"go/ast"
	"go/format"
	"go/parser"
	"go/token"
	"go/types"
	"os"
	"path/filepath"
	"strconv"
	"strings"
)

type instr struct {
	typeName string
	syncName string // local name of the "sync" import
	lockID   map[string]int
	varID    map[string]int
	ptrType  map[string]string // pointer data field -> printed type
	treeTy   map[string]bool   // printed types of the pointer fields
	copyable map[string]bool   // data field whose value may be copied freely (pointer, slice, map, chan, func, interface literal)
	atomLock map[string]int    // sync/atomic.Pointer[T] field -> its pseudo lock

	recv  *ast.Object
	node  *snode // the part of the guarded state the receiver of the current method stands for
	env   map[*ast.Object]bool
	notes []string
}

// snode: the guarded struct type or a struct of the package nested in it by value
type snode struct {
	typeName string
	prefix   string
	fields   []sfield
}

type sfield struct {
	name     string
	embedded bool
	leaf     string
	sub      *snode
}

func (n *snode) field(name string) (sfield, bool) {
	for _, f := range n.fields {
		if f.name == name {
			return f, true
		}
	}

	for _, f := range n.fields {
		if f.embedded && f.sub != nil {
			if g, ok := f.sub.field(name); ok {
				return g, true
			}
		}
	}

	return sfield{}, false
}

// fullPath: the explicit selector path (embedded type names included) of the field `name` below n
func (n *snode) fullPath(name string) (string, bool) {
	for _, f := range n.fields {
		if f.name == name {
			return name, true
		}
	}

	for _, f := range n.fields {
		if f.embedded && f.sub != nil {
			if p, ok := f.sub.fullPath(name); ok {
				return f.name + "." + p, true
			}
		}
	}

	return "", false
}

func (n *snode) find(typeName string) []*snode {
	var out []*snode

	if n.typeName == typeName {
		out = append(out, n)
	}

	for _, f := range n.fields {
		if f.sub != nil {
			out = append(out, f.sub.find(typeName)...)
		}
	}

	return out
}

func selChain(e ast.Expr) (*ast.Ident, []string) {
	var names []string

	for {
		switch v := e.(type) {
		case *ast.ParenExpr:
			e = v.X
		case *ast.SelectorExpr:
			names = append([]string{v.Sel.Name}, names...)
			e = v.X
		case *ast.Ident:
			return v, names
		default:
			return nil, nil
		}
	}
}

func fail(format string, a ...any) {
	fmt.Fprintf(os.Stderr, "instr: "+format+"\n", a...)
	os.Exit(2)
}

func schedCall(fn string, args ...ast.Expr) *ast.CallExpr {
	return &ast.CallExpr{Fun: &ast.SelectorExpr{X: ast.NewIdent("sched"), Sel: ast.NewIdent(fn)}, Args: args}
}

func intLit(i int) ast.Expr { return &ast.BasicLit{Kind: token.INT, Value: strconv.Itoa(i)} }
func strLit(s string) ast.Expr {
	return &ast.BasicLit{Kind: token.STRING, Value: strconv.Quote(s)}
}

// recvField: e is a path from the receiver to a leaf field (`recv.f`, `recv.sub.f`, promoted fields included);
// returns the key of the leaf
func (x *instr) recvField(e ast.Expr) (string, bool) {
	if _, ok := e.(*ast.SelectorExpr); !ok {
		return "", false
	}

	id, names := selChain(e)
	if id == nil || id.Obj == nil || id.Obj != x.recv || len(names) == 0 || x.node == nil {
		return "", false
	}

	cur := x.node

	for i, n := range names {
		f, ok := cur.field(n)
		if !ok {
			return "", false
		}

		if f.sub == nil {
			return f.leaf, i == len(names)-1
		}

		cur = f.sub
	}

	return "", false
}

// rootLeaf: e is, or is reached through, a leaf field of the receiver
func (x *instr) rootLeaf(e ast.Expr) (string, bool) {
	for {
		if f, ok := x.recvField(e); ok {
			return f, true
		}

		switch v := e.(type) {
		case *ast.SelectorExpr:
			e = v.X
		case *ast.IndexExpr:
			e = v.X
		case *ast.SliceExpr:
			e = v.X
		case *ast.StarExpr:
			e = v.X
		case *ast.ParenExpr:
			e = v.X
		default:
			return "", false
		}
	}
}

func (x *instr) dataField(e ast.Expr) (int, bool) {
	if f, ok := x.recvField(e); ok {
		if id, ok := x.varID[f]; ok {
			return id, true
		}
	}

	return 0, false
}

func (x *instr) lockField(e ast.Expr) bool {
	if f, ok := x.recvField(e); ok {
		_, isLock := x.lockID[f]

		return isLock
	}

	return false
}

// isTree: e (NOT yet rewritten) denotes an object behind a guarded pointer field
func (x *instr) isTree(e ast.Expr) bool {
	switch v := e.(type) {
	case *ast.ParenExpr:
		return x.isTree(v.X)
	case *ast.Ident:
		return v.Obj != nil && x.env[v.Obj]
	case *ast.SelectorExpr:
		if f, ok := x.recvField(v); ok {
			_, isPtr := x.ptrType[f]

			return isPtr
		}
	case *ast.CallExpr:
		if sel, ok := v.Fun.(*ast.SelectorExpr); ok && sel.Sel.Name == "Clone" && len(v.Args) == 0 {
			return x.isTree(sel.X)
		}

		if _, ok := x.atomicCall(v, "Load", 0); ok {
			return true
		}
	}

	return false
}

// atomicCall: call is `recv.a.<meth>(..)` with a an atomic pointer field and the given number of arguments
func (x *instr) atomicCall(call *ast.CallExpr, meth string, nargs int) (string, bool) {
	sel, ok := call.Fun.(*ast.SelectorExpr)
	if !ok || sel.Sel.Name != meth || len(call.Args) != nargs {
		return "", false
	}

	f, ok := x.recvField(sel.X)
	if !ok {
		return "", false
	}

	_, isAtomic := x.atomLock[f]

	return f, isAtomic
}

// deep: recv.f used as the operand of a selector / index / method call.  A field that may be copied is read as a
// value; any other field (struct, array, named type, sync.Map, ...) is reached through its address, so that the
// instrumented program does not operate on a copy.
func (x *instr) deep(e ast.Expr) (ast.Expr, bool) {
	f, ok := x.recvField(e)
	if !ok {
		return nil, false
	}

	id, isData := x.varID[f]
	if !isData {
		return nil, false
	}

	if x.copyable[f] {
		return schedCall("Get", intLit(id), e), true
	}

	return schedCall("GetP", intLit(id), &ast.UnaryExpr{Op: token.AND, X: e}), true
}

func (x *instr) exprs(es []ast.Expr) {
	for i := range es {
		es[i] = x.expr(es[i])
	}
}

func (x *instr) expr(e ast.Expr) ast.Expr {
	switch v := e.(type) {
	case nil:
		return nil
	case *ast.ParenExpr:
		v.X = x.expr(v.X)
	case *ast.SelectorExpr:
		if x.lockField(v) {
			return v
		}

		if id, ok := x.dataField(v); ok {
			return schedCall("Get", intLit(id), v)
		}

		if _, ok := x.recvField(v); ok {
			return v // method value / unknown field
		}

		if d, ok := x.deep(v.X); ok {
			v.X = d
		} else {
			v.X = x.expr(v.X)
		}
	case *ast.CallExpr:
		if f, ok := x.atomicCall(v, "Load", 0); ok {
			return schedCall("ALoad", intLit(x.varID[f]), intLit(x.atomLock[f]), v)
		}

		if f, ok := x.atomicCall(v, "Store", 1); ok {
			v.Args[0] = schedCall("AStore", intLit(x.varID[f]), intLit(x.atomLock[f]), x.expr(v.Args[0]))

			return v
		}

		if sel, ok := v.Fun.(*ast.SelectorExpr); ok {
			if x.lockField(sel.X) {
				x.exprs(v.Args)

				return v
			}

			tree := x.isTree(sel.X)

			if d, ok := x.deep(sel.X); ok {
				sel.X = d
			} else {
				sel.X = x.expr(sel.X)
			}

			if tree {
				sel.X = schedCall("Obj", sel.X, strLit(sel.Sel.Name))
			}

			x.exprs(v.Args)

			if tree && sel.Sel.Name == "Clone" && len(v.Args) == 0 {
				return schedCall("Res", v)
			}

			return v
		}

		v.Fun = x.expr(v.Fun)
		x.exprs(v.Args)
	case *ast.UnaryExpr:
		if v.Op == token.AND {
			if f, ok := x.rootLeaf(v.X); ok {
				if _, isLock := x.lockID[f]; !isLock {
					x.notes = append(x.notes, "address of a guarded field is taken")

					return schedCall("Addr", v)
				}
			}
		}

		v.X = x.expr(v.X)
	case *ast.BinaryExpr:
		v.X = x.expr(v.X)
		v.Y = x.expr(v.Y)
	case *ast.StarExpr:
		v.X = x.expr(v.X)
	case *ast.IndexExpr:
		if d, ok := x.deep(v.X); ok {
			v.X = d
		} else {
			v.X = x.expr(v.X)
		}

		v.Index = x.expr(v.Index)
	case *ast.IndexListExpr:
		v.X = x.expr(v.X)
	case *ast.SliceExpr:
		if d, ok := x.deep(v.X); ok {
			v.X = d
		} else {
			v.X = x.expr(v.X)
		}

		v.Low = x.expr(v.Low)
		v.High = x.expr(v.High)
		v.Max = x.expr(v.Max)
	case *ast.TypeAssertExpr:
		v.X = x.expr(v.X)
	case *ast.CompositeLit:
		for i, el := range v.Elts {
			if kv, ok := el.(*ast.KeyValueExpr); ok {
				if _, isIdent := kv.Key.(*ast.Ident); !isIdent {
					kv.Key = x.expr(kv.Key)
				}

				kv.Value = x.expr(kv.Value)
			} else {
				v.Elts[i] = x.expr(el)
			}
		}
	case *ast.KeyValueExpr:
		v.Value = x.expr(v.Value)
	case *ast.FuncLit:
		x.block(v.Body)
	}

	return e
}

// deepRootVar: the assignment target e is reached THROUGH the plain (non-pointer) data field recv.f (recv.f.g,
// recv.f[i], ...): the statement writes the field's value
func (x *instr) deepRootVar(e ast.Expr) (int, bool) {
	if _, exact := x.recvField(e); exact {
		return 0, false
	}

	f, ok := x.rootLeaf(e)
	if !ok {
		return 0, false
	}

	id, isData := x.varID[f]
	_, isPtr := x.ptrType[f]
	_, isAtomic := x.atomLock[f]

	return id, isData && !isPtr && !isAtomic
}

// lhs: an assignment target that is NOT exactly a guarded data field
func (x *instr) lhs(e ast.Expr) ast.Expr {
	switch v := e.(type) {
	case *ast.IndexExpr:
		if d, ok := x.deep(v.X); ok {
			v.X = d
		} else {
			v.X = x.expr(v.X)
		}

		v.Index = x.expr(v.Index)
	case *ast.SelectorExpr:
		if x.lockField(v) {
			return v
		}

		tree := x.isTree(v.X)

		if d, ok := x.deep(v.X); ok {
			v.X = d
		} else {
			v.X = x.expr(v.X)
		}

		if tree {
			v.X = schedCall("Obj", v.X, strLit("="))
		}
	case *ast.StarExpr:
		tree := x.isTree(v.X)
		v.X = x.expr(v.X)

		if tree {
			v.X = schedCall("Obj", v.X, strLit("="))
		}
	case *ast.ParenExpr:
		v.X = x.lhs(v.X)
	}

	return e
}

func copyRecvField(e ast.Expr) ast.Expr {
	switch v := e.(type) {
	case *ast.ParenExpr:
		return copyRecvField(v.X)
	case *ast.SelectorExpr:
		return &ast.SelectorExpr{X: copyRecvField(v.X), Sel: ast.NewIdent(v.Sel.Name)}
	case *ast.Ident:
		return &ast.Ident{Name: v.Name, Obj: v.Obj}
	}

	return e
}

func (x *instr) bind(lhs, rhs ast.Expr, tok token.Token) {
	id, ok := lhs.(*ast.Ident)
	if !ok || id.Obj == nil {
		return
	}

	if x.isTree(rhs) {
		x.env[id.Obj] = true
	} else if tok == token.ASSIGN {
		delete(x.env, id.Obj)
	}
}

func opOf(tok token.Token) token.Token {
	switch tok { //nolint:exhaustive
	case token.ADD_ASSIGN:
		return token.ADD
	case token.SUB_ASSIGN:
		return token.SUB
	case token.MUL_ASSIGN:
		return token.MUL
	case token.QUO_ASSIGN:
		return token.QUO
	case token.REM_ASSIGN:
		return token.REM
	case token.AND_ASSIGN:
		return token.AND
	case token.OR_ASSIGN:
		return token.OR
	case token.XOR_ASSIGN:
		return token.XOR
	case token.SHL_ASSIGN:
		return token.SHL
	case token.SHR_ASSIGN:
		return token.SHR
	case token.AND_NOT_ASSIGN:
		return token.AND_NOT
	}

	return token.ILLEGAL
}

func (x *instr) block(b *ast.BlockStmt) {
	if b == nil {
		return
	}

	b.List = x.stmts(b.List)
}

func (x *instr) stmts(list []ast.Stmt) []ast.Stmt {
	var out []ast.Stmt

	for _, s := range list {
		out = append(out, x.stmt(s)...)
	}

	return out
}

func (x *instr) one(s ast.Stmt) ast.Stmt {
	if s == nil {
		return nil
	}

	r := x.stmt(s)
	if len(r) == 1 {
		return r[0]
	}

	return &ast.BlockStmt{List: r}
}

func (x *instr) stmt(s ast.Stmt) []ast.Stmt {
	switch v := s.(type) {
	case *ast.ExprStmt:
		v.X = x.expr(v.X)
	case *ast.AssignStmt:
		var after []ast.Stmt

		same := len(v.Lhs) == len(v.Rhs)
		if same {
			for i := range v.Lhs {
				x.bind(v.Lhs[i], v.Rhs[i], v.Tok)
			}
		}

		x.exprs(v.Rhs)

		for i, l := range v.Lhs {
			id, isData := x.dataField(l)

			switch {
			case !isData:
				if vid, ok := x.deepRootVar(l); ok {
					after = append(after, &ast.ExprStmt{X: schedCall("PutP", intLit(vid))})
				}

				v.Lhs[i] = x.lhs(l)
			case same && v.Tok == token.ASSIGN:
				v.Rhs[i] = schedCall("Put", intLit(id), v.Rhs[i])
			case same && opOf(v.Tok) != token.ILLEGAL && len(v.Lhs) == 1:
				v.Rhs[0] = schedCall("Put", intLit(id), &ast.BinaryExpr{
					X: schedCall("Get", intLit(id), copyRecvField(l)), Op: opOf(v.Tok), Y: &ast.ParenExpr{X: v.Rhs[0]},
				})
				v.Tok = token.ASSIGN
			default:
				after = append(after, &ast.ExprStmt{X: schedCall("Put", intLit(id), copyRecvField(l))})
			}
		}

		return append([]ast.Stmt{v}, after...)
	case *ast.IncDecStmt:
		if id, ok := x.dataField(v.X); ok {
			op := token.ADD
			if v.Tok == token.DEC {
				op = token.SUB
			}

			return []ast.Stmt{&ast.AssignStmt{
				Lhs: []ast.Expr{v.X}, Tok: token.ASSIGN,
				Rhs: []ast.Expr{schedCall("Put", intLit(id), &ast.BinaryExpr{
					X: schedCall("Get", intLit(id), copyRecvField(v.X)), Op: op, Y: intLit(1),
				})},
			}}
		}

		vid, through := x.deepRootVar(v.X)
		v.X = x.lhs(v.X)

		if through {
			return []ast.Stmt{v, &ast.ExprStmt{X: schedCall("PutP", intLit(vid))}}
		}
	case *ast.DeclStmt:
		if gd, ok := v.Decl.(*ast.GenDecl); ok {
			for _, sp := range gd.Specs {
				if vs, ok := sp.(*ast.ValueSpec); ok {
					if len(vs.Names) == len(vs.Values) {
						for i := range vs.Names {
							x.bind(vs.Names[i], vs.Values[i], token.DEFINE)
						}
					}

					x.exprs(vs.Values)
				}
			}
		}
	case *ast.ReturnStmt:
		x.exprs(v.Results)
	case *ast.BlockStmt:
		x.block(v)
	case *ast.IfStmt:
		v.Init = x.one(v.Init)
		v.Cond = x.expr(v.Cond)
		x.block(v.Body)
		v.Else = x.one(v.Else)
	case *ast.ForStmt:
		v.Init = x.one(v.Init)
		v.Cond = x.expr(v.Cond)
		v.Post = x.one(v.Post)
		x.block(v.Body)
	case *ast.RangeStmt:
		v.X = x.expr(v.X)
		x.block(v.Body)
	case *ast.SwitchStmt:
		v.Init = x.one(v.Init)
		v.Tag = x.expr(v.Tag)
		x.block(v.Body)
	case *ast.TypeSwitchStmt:
		v.Init = x.one(v.Init)
		v.Assign = x.one(v.Assign)
		x.block(v.Body)
	case *ast.CaseClause:
		x.exprs(v.List)
		v.Body = x.stmts(v.Body)
	case *ast.SelectStmt:
		x.block(v.Body)
	case *ast.CommClause:
		v.Comm = x.one(v.Comm)
		v.Body = x.stmts(v.Body)
	case *ast.LabeledStmt:
		v.Stmt = x.one(v.Stmt)
	case *ast.GoStmt:
		if c, ok := x.expr(v.Call).(*ast.CallExpr); ok {
			v.Call = c
		}
	case *ast.DeferStmt:
		if c, ok := x.expr(v.Call).(*ast.CallExpr); ok {
			v.Call = c
		}
	case *ast.SendStmt:
		v.Chan = x.expr(v.Chan)
		v.Value = x.expr(v.Value)
	}

	return []ast.Stmt{s}
}

func recvTypeName(fd *ast.FuncDecl) string {
	if fd.Recv == nil || len(fd.Recv.List) != 1 {
		return ""
	}

	t := fd.Recv.List[0].Type
	if st, ok := t.(*ast.StarExpr); ok {
		t = st.X
	}

	switch v := t.(type) {
	case *ast.Ident:
		return v.Name
	case *ast.IndexExpr:
		if id, ok := v.X.(*ast.Ident); ok {
			return id.Name
		}
	case *ast.IndexListExpr:
		if id, ok := v.X.(*ast.Ident); ok {
			return id.Name
		}
	}

	return ""
}

type jsonOut struct {
	Locks    []string          `json:"locks"`
	LockKind []string          `json:"lock_kinds"`
	Vars     []string          `json:"vars"`
	PtrVars  []string          `json:"ptr_vars"`
	Methods  []string          `json:"methods"`
	Files    map[string]string `json:"files"` // file of the checkout (relative) -> instrumented copy
	Access   map[string]string `json:"access"`
	Notes    []string          `json:"notes"`
}

type srcFile struct {
	path    string
	rel     string
	src     []byte
	ast     *ast.File
	changed bool
}

func importName(f *ast.File, path string) (string, *ast.ImportSpec) {
	for _, im := range f.Imports {
		if strings.Trim(im.Path.Value, `"`) == path {
			if im.Name != nil {
				return im.Name.Name, im
			}

			return filepath.Base(path), im
		}
	}

	return "", nil
}

func main() {
	repo := flag.String("repo", "/repo", "checkout to read")
	file := flag.String("file", "internal/rules/repository_impl.go", "file (relative to -repo) declaring the type")
	typ := flag.String("type", "repository", "struct type")
	outdir := flag.String("outdir", "", "directory for the instrumented copies")
	jsonPath := flag.String("json", "", "side file with the numbering of locks / fields and the list of copies")
	access := flag.String("access", "", "Go file with field accessors for the drivers (package of -file, build tag verif)")
	schedPkg := flag.String("sched", "github.com/dadrus/heimdall/internal/zzverif/sched", "import path of the shim package")
	flag.Parse()

	main0 := filepath.Join(*repo, *file)
	dir := filepath.Dir(main0)
	fset := token.NewFileSet()

	// --- all non-test files of the package, the declaring file first
	var files []*srcFile

	ents, err := os.ReadDir(dir)
	if err != nil {
		fail("%v", err)
	}

	names := []string{filepath.Base(main0)}

	for _, e := range ents {
		n := e.Name()
		if !e.IsDir() && strings.HasSuffix(n, ".go") && !strings.HasSuffix(n, "_test.go") && n != filepath.Base(main0) {
			names = append(names, n)
		}
	}

	for i, n := range names {
		p := filepath.Join(dir, n)

		src, err := os.ReadFile(p)
		if err != nil {
			fail("%v", err)
		}

		f, err := parser.ParseFile(fset, p, src, 0) // comments are dropped (they would be misplaced by the rewriting)
		if err != nil {
			if i == 0 {
				fail("parse %s: %v", p, err)
			}

			continue
		}

		files = append(files, &srcFile{path: p, rel: filepath.Join(filepath.Dir(*file), n), src: src, ast: f})
	}

	x := &instr{
		typeName: *typ, lockID: map[string]int{}, varID: map[string]int{}, ptrType: map[string]string{}, treeTy: map[string]bool{},
		copyable: map[string]bool{}, atomLock: map[string]int{},
	}

	// --- struct types of the package
	type structDecl struct {
		st   *ast.StructType
		file *srcFile
	}

	structs := map[string]structDecl{}

	for _, sf := range files {
		for _, d := range sf.ast.Decls {
			gd, ok := d.(*ast.GenDecl)
			if !ok || gd.Tok != token.TYPE {
				continue
			}

			for _, sp := range gd.Specs {
				if ts, ok := sp.(*ast.TypeSpec); ok && ts.TypeParams == nil {
					if st, ok := ts.Type.(*ast.StructType); ok {
						if _, dup := structs[ts.Name.Name]; !dup {
							structs[ts.Name.Name] = structDecl{st, sf}
						}
					}
				}
			}
		}
	}

	top, ok := structs[*typ]
	if !ok || top.file != files[0] {
		fail("struct type %s not found in %s", *typ, main0)
	}

	var (
		jo       jsonOut
		atomics  []string
		leafType = map[string]ast.Expr{} // data leaf -> declared type
		leafFile = map[string]*srcFile{}
		leafPath = map[string]string{} // leaf -> explicit selector path
		visited  = map[string]bool{}
	)

	var build func(typeName string, sd structDecl, prefix string, depth int) *snode

	build = func(typeName string, sd structDecl, prefix string, depth int) *snode {
		node := &snode{typeName: typeName, prefix: prefix}
		syncName, _ := importName(sd.file.ast, "sync")
		atomicName, _ := importName(sd.file.ast, "sync/atomic")
		first := !visited[typeName]
		visited[typeName] = true

		for _, fld := range sd.st.Fields.List {
			names := []string{}
			for _, n := range fld.Names {
				names = append(names, n.Name)
			}

			embedded := len(names) == 0
			kind := ""

			if sel, ok := fld.Type.(*ast.SelectorExpr); ok {
				if id, ok := sel.X.(*ast.Ident); ok && (sel.Sel.Name == "Mutex" || sel.Sel.Name == "RWMutex") &&
					(syncName != "" && id.Name == syncName || !first && id.Name == "sched") {
					kind = sel.Sel.Name

					if first {
						id.Name = "sched" // the replacement
						sd.file.changed = true
					}

					if embedded {
						names = []string{kind}
					}
				}
			}

			if id, ok := fld.Type.(*ast.Ident); ok && kind == "" && depth < 8 {
				if sub, ok := structs[id.Name]; ok {
					if embedded {
						names = []string{id.Name}
					}

					for _, n := range names {
						node.fields = append(node.fields, sfield{name: n, embedded: embedded, sub: build(id.Name, sub, prefix+n+".", depth+1)})
					}

					continue
				}
			}

			if embedded && kind == "" {
				t := fld.Type
				if st, ok := t.(*ast.StarExpr); ok {
					t = st.X
				}

				switch v := t.(type) {
				case *ast.Ident:
					names = []string{v.Name}
				case *ast.SelectorExpr:
					names = []string{v.Sel.Name}
				default:
					continue
				}
			}

			for _, short := range names {
				n := prefix + short
				node.fields = append(node.fields, sfield{name: short, embedded: embedded, leaf: n})
				leafPath[n] = n

				if kind != "" {
					x.lockID[n] = len(jo.Locks)
					jo.Locks = append(jo.Locks, n)
					jo.LockKind = append(jo.LockKind, kind)

					continue
				}

				x.varID[n] = len(jo.Vars)
				jo.Vars = append(jo.Vars, n)
				leafType[n] = fld.Type
				leafFile[n] = sd.file

				switch ft := fld.Type.(type) {
				case *ast.StarExpr:
					ts := types.ExprString(fld.Type)
					x.ptrType[n] = ts
					x.treeTy[ts] = true
					x.copyable[n] = true
					jo.PtrVars = append(jo.PtrVars, n)
				case *ast.ArrayType:
					x.copyable[n] = ft.Len == nil // a slice
				case *ast.MapType, *ast.ChanType, *ast.FuncType, *ast.InterfaceType:
					x.copyable[n] = true
				case *ast.IndexExpr: // sync/atomic.Pointer[T]
					if sel, ok := ft.X.(*ast.SelectorExpr); ok && sel.Sel.Name == "Pointer" {
						if id, ok := sel.X.(*ast.Ident); ok && atomicName != "" && id.Name == atomicName {
							atomics = append(atomics, n)
							x.treeTy["*"+types.ExprString(ft.Index)] = true
							jo.PtrVars = append(jo.PtrVars, n)
						}
					}
				}
			}
		}

		return node
	}

	root := build(*typ, top, "", 0)

	// one pseudo lock per atomic pointer field, numbered after the mutexes (as the skeleton does)
	for _, n := range atomics {
		x.atomLock[n] = len(jo.Locks)
		jo.Locks = append(jo.Locks, "atomic("+n+")")
		jo.LockKind = append(jo.LockKind, "RWMutex")
	}

	// --- the methods of the guarded type and of the structs nested in it
	for _, sf := range files {
		for _, d := range sf.ast.Decls {
			fd, ok := d.(*ast.FuncDecl)
			if !ok || fd.Body == nil {
				continue
			}

			nodes := root.find(recvTypeName(fd))
			if len(nodes) == 0 {
				continue
			}

			if nodes[0] == root {
				jo.Methods = append(jo.Methods, fd.Name.Name)
			}

			if len(nodes) > 1 {
				x.notes = append(x.notes, "struct type "+nodes[0].typeName+" occurs more than once in the guarded type: its methods are attributed to the first occurrence")
			}

			if len(fd.Recv.List[0].Names) != 1 {
				continue // receiver not named: it cannot touch the fields
			}

			x.recv = fd.Recv.List[0].Names[0].Obj
			x.node = nodes[0]
			x.env = map[*ast.Object]bool{}
			x.syncName, _ = importName(sf.ast, "sync")

			for _, p := range fd.Type.Params.List {
				if x.treeTy[types.ExprString(p.Type)] {
					for _, n := range p.Names {
						if n.Obj != nil {
							x.env[n.Obj] = true
						}
					}
				}
			}

			before := fmt.Sprint(countSched(fd.Body))
			x.block(fd.Body)

			if fmt.Sprint(countSched(fd.Body)) != before {
				sf.changed = true
			}
		}
	}

	// --- write the instrumented copies
	jo.Files = map[string]string{}

	if *outdir != "" {
		if err := os.MkdirAll(*outdir, 0o755); err != nil {
			fail("%v", err)
		}
	}

	for _, sf := range files {
		if !sf.changed {
			continue
		}

		res := render(fset, sf, *schedPkg, *file)

		if *outdir == "" {
			os.Stdout.Write(res)

			continue
		}

		out := filepath.Join(*outdir, strings.TrimSuffix(filepath.Base(sf.path), ".go")+"_instrumented.go")
		old, _ := os.ReadFile(out)

		if !bytes.Equal(old, res) {
			if err := os.WriteFile(out, res, 0o644); err != nil {
				fail("%v", err)
			}
		}

		jo.Files[sf.rel] = out
	}

	// --- accessors for the drivers, bound by TYPE
	if *access != "" {
		explicit := func(leaf string) string {
			parts := strings.Split(leaf, ".")
			cur := root
			out := []string{}

			for _, p := range parts {
				full, ok := cur.fullPath(p)
				if !ok {
					return leaf
				}

				out = append(out, full)

				if f, ok := cur.field(p); ok && f.sub != nil {
					cur = f.sub
				}
			}

			return strings.Join(out, ".")
		}

		var index, known, def string

		for _, n := range jo.Vars {
			if _, isPtr := x.ptrType[n]; isPtr && (index == "" || strings.Contains(x.ptrType[n], "Tree")) {
				index = n
			}
		}

		for _, n := range jo.Vars {
			if at, ok := leafType[n].(*ast.ArrayType); ok && at.Len == nil && known == "" {
				known = n

				for _, m := range jo.Vars {
					if types.ExprString(leafType[m]) == types.ExprString(at.Elt) {
						def = m
					}
				}
			}
		}

		if index == "" || known == "" || def == "" {
			fail("cannot bind the drivers: pointer field %q, slice field %q, field of the slice's element type %q", index, known, def)
		}

		jo.Access = map[string]string{"index": index, "known": known, "default": def}

		var sb strings.Builder

		sb.WriteString("//go:build verif\n\n// Code generated by /verif/harness/tools/instr (field accessors for the C07 drivers, bound by type). DO NOT EDIT.\n\n")
		sb.WriteString("package " + files[0].ast.Name.Name + "\n\n")

		// imports used by the three types
		used := map[string]*ast.ImportSpec{}

		for _, leaf := range []string{index, known, def} {
			ast.Inspect(leafType[leaf], func(n ast.Node) bool {
				if sel, ok := n.(*ast.SelectorExpr); ok {
					if id, ok := sel.X.(*ast.Ident); ok && id.Obj == nil {
						for _, im := range leafFile[leaf].ast.Imports {
							local := filepath.Base(strings.Trim(im.Path.Value, `"`))
							if im.Name != nil {
								local = im.Name.Name
							}

							if local == id.Name {
								used[id.Name] = im
							}
						}
					}
				}

				return true
			})
		}

		if len(used) > 0 {
			sb.WriteString("import (\n")

			for local, im := range used {
				sb.WriteString("\t" + local + " " + im.Path.Value + "\n")
			}

			sb.WriteString(")\n\n")
		}

		for _, a := range []struct{ name, leaf string }{{"Index", index}, {"Known", known}, {"Default", def}} {
			ts := types.ExprString(leafType[a.leaf])
			fmt.Fprintf(&sb, "func c07Get%s(r *%s) %s { return r.%s }\n\n", a.name, *typ, ts, explicit(a.leaf))
			fmt.Fprintf(&sb, "func c07Set%s(r *%s, v %s) { r.%s = v }\n\n", a.name, *typ, ts, explicit(a.leaf))
		}

		fmt.Fprintf(&sb, "// the mutexes of the guarded state, in the order of their ids\nfunc c07LockAddrs(r *%s) []any {\n\treturn []any{", *typ)

		for i, n := range jo.Locks {
			if strings.HasPrefix(n, "atomic(") {
				continue
			}

			if i > 0 {
				sb.WriteString(", ")
			}

			sb.WriteString("&r." + explicit(n))
		}

		sb.WriteString("}\n}\n")

		res, err := format.Source([]byte(sb.String()))
		if err != nil {
			fail("gofmt of the accessor file: %v\n%s", err, sb.String())
		}

		old, _ := os.ReadFile(*access)
		if !bytes.Equal(old, res) {
			if err := os.WriteFile(*access, res, 0o644); err != nil {
				fail("%v", err)
			}
		}
	}

	jo.Notes = x.notes

	if *jsonPath != "" {
		b, _ := json.MarshalIndent(jo, "", " ")
		_ = os.WriteFile(*jsonPath, b, 0o644)
	}
}

// countSched: number of calls into the shim package below n (to see whether a method body was changed)
func countSched(n ast.Node) int {
	c := 0

	ast.Inspect(n, func(m ast.Node) bool {
		if sel, ok := m.(*ast.SelectorExpr); ok {
			if id, ok := sel.X.(*ast.Ident); ok && id.Name == "sched" && id.Obj == nil {
				c++
			}
		}

		return true
	})

	return c
}

// render prints the rewritten file: sched import added, sync import dropped if it is no longer used
func render(fset *token.FileSet, sf *srcFile, schedPkg, declFile string) []byte {
	f := sf.ast
	syncName, syncSpec := importName(f, "sync")
	syncUsed := false

	ast.Inspect(f, func(n ast.Node) bool {
		if sel, ok := n.(*ast.SelectorExpr); ok {
			if id, ok := sel.X.(*ast.Ident); ok && syncName != "" && id.Name == syncName && id.Obj == nil {
				syncUsed = true
			}
		}

		return true
	})

	done := false

	for _, d := range f.Decls {
		gd, ok := d.(*ast.GenDecl)
		if !ok || gd.Tok != token.IMPORT {
			continue
		}

		var specs []ast.Spec

		for _, sp := range gd.Specs {
			if syncSpec != nil && sp == ast.Spec(syncSpec) && !syncUsed {
				continue
			}

			specs = append(specs, sp)
		}

		if !done {
			specs = append(specs, &ast.ImportSpec{Name: ast.NewIdent("sched"), Path: &ast.BasicLit{Kind: token.STRING, Value: strconv.Quote(schedPkg)}})
			done = true

			if gd.Lparen == token.NoPos {
				gd.Lparen = gd.Pos()
				gd.Rparen = gd.End()
			}
		}

		gd.Specs = specs
	}

	if !done {
		imp := &ast.GenDecl{Tok: token.IMPORT, Specs: []ast.Spec{
			&ast.ImportSpec{Name: ast.NewIdent("sched"), Path: &ast.BasicLit{Kind: token.STRING, Value: strconv.Quote(schedPkg)}},
		}}
		f.Decls = append([]ast.Decl{imp}, f.Decls...)
	}

	var buf bytes.Buffer

	// build constraints of the original file are kept
	for _, line := range strings.Split(string(sf.src), "\n") {
		if strings.HasPrefix(line, "package ") {
			break
		}

		if strings.HasPrefix(line, "//go:build") {
			buf.WriteString(line + "\n\n")
		}
	}

	buf.WriteString("// Code generated by /verif/harness/tools/instr from " + sf.rel + " (instrumented copy for property C07). DO NOT EDIT.\n\n")

	if err := format.Node(&buf, fset, f); err != nil {
		fail("print: %v", err)
	}

	res, err := format.Source(buf.Bytes())
	if err != nil {
		fail("gofmt of the instrumented file: %v", err)
	}

	_ = declFile

	return res
}
