package main

// Self-test of the instrumenter: a synthetic guarded type that uses every construct the rewriting knows
// (and some it must leave alone) is instrumented, compiled against the real shim package (harness/sched) and
// RUN: without a controller the instrumented program must behave exactly like the original one, and the
// rewriting must have put the probes where the comments in main.go say.

import (
	"os"
	"os/exec"
	"path/filepath"
	"strings"
	"testing"
)

const fixture = `package p

import (
	"errors"
	"sync"
	"sync/atomic"
)

type tree struct{ vals []int }

func (t *tree) Find(k int) bool {
	for _, v := range t.vals {
		if v == k {
			return true
		}
	}
	return false
}
func (t *tree) Add(k int)    { t.vals = append(t.vals, k) }
func (t *tree) Clone() *tree { return &tree{vals: append([]int(nil), t.vals...)} }

type Box struct {
	sync.Mutex
	n     int
	known []int
	st    struct{ c, d int }
	arr   [3]int
	m     map[string]int
	cache sync.Map
	index *tree
	tmu   sync.RWMutex
	head  atomic.Pointer[tree]
	dr    error
	inner
}

// a part of the guarded state grouped into an embedded struct with its own method
type inner struct {
	imu sync.Mutex
	cnt int
	tr  *tree
}

func (i *inner) bump(t *tree) {
	i.imu.Lock()
	i.cnt++
	i.tr = t
	i.imu.Unlock()
}

func New() *Box {
	b := &Box{m: map[string]int{}, index: &tree{}, dr: errors.New("default")}
	b.head.Store(&tree{})
	return b
}

func two() ([]int, error) { return []int{7, 8}, nil }

func (b *Box) Work(k int) (int, error) {
	b.Lock()
	defer b.Unlock()

	b.n += 2
	b.n++
	b.st.c++
	b.st.d = b.st.c + 1
	b.arr[1] = k
	b.m["k"] = b.m["k"] + k
	delete(b.m, "zz")
	b.known = append(b.known, k)
	b.known[0] = 1

	var err error
	b.known, err = two()
	if err != nil {
		return 0, err
	}

	p := &b.n
	*p += 1

	f := func() int { return b.n + len(b.known) }

	b.cache.Store(k, f())
	if v, ok := b.cache.Load(k); ok {
		b.n += v.(int)
	}

	cur := b.index
	tmp := cur.Clone()
	b.grow(tmp, k)
	tmp.vals = append(tmp.vals, 100)

	b.tmu.Lock()
	b.index = tmp
	b.tmu.Unlock()
	b.bump(tmp)
	b.inner.cnt++
	b.n += b.cnt + len(b.tr.vals)

	h := b.head.Load().Clone()
	h.Add(k)
	b.head.Store(h)

	if b.dr != nil && k < 0 {
		return 0, b.dr
	}

	return b.n + b.st.d + b.arr[1] + b.m["k"] + len(b.head.Load().vals), nil
}

func (b *Box) grow(t *tree, k int) {
	for i := 0; i < 2; i++ {
		t.Add(k + i)
	}
}

func (b *Box) Has(k int) bool {
	b.tmu.RLock()
	defer b.tmu.RUnlock()

	return b.index.Find(k)
}
`

const mainSrc = `package main

import (
	"fmt"

	"example.com/m/p"
)

func main() {
	b := p.New()
	for k := 1; k < 5; k++ {
		v, err := b.Work(k)
		fmt.Println(v, err, b.Has(k), b.Has(k+1), b.Has(100), b.Has(999))
	}
	_, err := b.Work(-1)
	fmt.Println(err)
}
`

func TestInstrumentedProgramBehavesLikeTheOriginal(t *testing.T) {
	dir := t.TempDir()
	write := func(rel, content string) {
		p := filepath.Join(dir, rel)
		if err := os.MkdirAll(filepath.Dir(p), 0o755); err != nil {
			t.Fatal(err)
		}

		if err := os.WriteFile(p, []byte(content), 0o644); err != nil {
			t.Fatal(err)
		}
	}

	write("go.mod", "module example.com/m\n\ngo 1.23\n")
	write("p/box.go", fixture)
	write("main.go", mainSrc)

	shim, err := os.ReadFile(filepath.Join("..", "..", "sched", "sched.go"))
	if err != nil {
		t.Fatal(err)
	}

	write("sched/sched.go", string(shim))

	bin := filepath.Join(t.TempDir(), "instr")
	if out, err := exec.Command("go", "build", "-o", bin, ".").CombinedOutput(); err != nil {
		t.Fatalf("build: %v\n%s", err, out)
	}

	run := func(args ...string) string {
		cmd := exec.Command("go", args...)
		cmd.Dir = dir

		out, err := cmd.CombinedOutput()
		if err != nil {
			t.Fatalf("go %v: %v\n%s", args, err, out)
		}

		return string(out)
	}

	want := run("run", "-tags", "verif", ".")

	outdir := t.TempDir()
	inst := filepath.Join(outdir, "box_instrumented.go")

	if out, err := exec.Command(bin, "-repo", dir, "-file", "p/box.go", "-type", "Box", "-outdir", outdir,
		"-sched", "example.com/m/sched").CombinedOutput(); err != nil {
		t.Fatalf("instr: %v\n%s", err, out)
	}

	write("overlay.json", `{"Replace": {"`+filepath.Join(dir, "p/box.go")+`": "`+inst+`"}}`)

	got := run("run", "-tags", "verif", "-overlay", filepath.Join(dir, "overlay.json"), ".")
	if got != want {
		t.Fatalf("the instrumented program behaves differently:\n--- original\n%s--- instrumented\n%s", want, got)
	}

	src, _ := os.ReadFile(inst)

	for _, frag := range []string{
		"sched.Mutex", "tmu   sched.RWMutex",
		"b.n = sched.Put(0, sched.Get(0, b.n)+(2))", // op-assignment
		"b.n = sched.Put(0, sched.Get(0, b.n)+1)",   // ++
		"sched.GetP(2, &b.st).c++", "sched.PutP(2)", // write through a struct field: no copy, read + write logged
		"sched.GetP(3, &b.arr)[1] = k", "sched.PutP(3)",
		`sched.Get(4, b.m)["k"] = `, // a map may be copied
		"b.known = sched.Put(1, append(sched.Get(1, b.known), k))",
		"sched.Put(1, b.known)",                 // multi-value assignment: logged after the statement
		"sched.Addr(&b.n)",                      // address taken: logged as untranslated
		"sched.GetP(5, &b.cache).Store(k, f())", // sync.Map is not copied
		"cur := sched.Get(6, b.index)",          // load of the pointer field
		`tmp := sched.Res(sched.Obj(cur, "Clone").Clone())`,
		`sched.Obj(tmp, "=").vals = `, // write through a tracked object
		"b.index = sched.Put(6, tmp)",
		`sched.Obj(t, "Add").Add(k + i)`,                               // parameter of the pointer field's type
		`sched.Obj(sched.ALoad(7, 3, b.head.Load()), "Clone").Clone()`, // atomic pointer: pseudo lock 3 = after Mutex, tmu, inner.imu
		"b.head.Store(sched.AStore(7, 3, h))",
		"sched.Get(8, b.dr) != nil",
		"imu sched.Mutex",                             // mutex of the embedded struct
		"i.cnt = sched.Put(9, sched.Get(9, i.cnt)+1)", // method of the embedded struct: same numbering
		"i.tr = sched.Put(10, t)",
		"b.inner.cnt = sched.Put(9, sched.Get(9, b.inner.cnt)+1)", // explicit path
		"sched.Get(9, b.cnt)",                                     // promoted field
		`sched.Get(10, b.tr).vals`,
		`sched.Obj(sched.Get(6, b.index), "Find").Find(k)`,
	} {
		if !strings.Contains(string(src), frag) {
			t.Errorf("instrumented source lacks %q", frag)
		}
	}

	if t.Failed() {
		t.Logf("instrumented source:\n%s", src)
	}
}
