module verif/tools/instr

go 1.23
