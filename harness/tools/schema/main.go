// schema extracts, from heimdall's source tree, what the *loader* accepts for the
// pipeline mechanisms: per mechanism kind the registered type names (the type
// registries: init() { registerTypeFactory(func(...){ if typ != X ... newY(...) }) })
// and per type the option names, required flags and value constraints of the
// config struct that the constructor decodes the raw configuration into
// (`type Config struct { ... mapstructure:"name" validate:"..." }`, decoded with
// ErrorUnused, i.e. unknown options are rejected).  Output: JSON on stdout.
// go/ast + go/parser only.
package main

import (
	"encoding/json"
	"flag"
	"fmt"
	"go/ast"
	"go/parser"
	"go/token"
	"os"
	"path/filepath"
	"reflect"
	"sort"
	"strconv"
	"strings"
)

type Opt struct {
	Name     string   `json:"name"`
	GoType   string   `json:"go_type"`
	Validate string   `json:"validate,omitempty"`
	Required string   `json:"required"` // yes | no | cond
	OneOf    []string `json:"oneof,omitempty"`
	Range    []*int   `json:"range,omitempty"` // [gte, lte]
	Sub      []Opt    `json:"sub,omitempty"`   // options of a nested struct (or of the elements of a slice of structs)
	SubElem  bool     `json:"sub_elem,omitempty"`
}

type Mech struct {
	Kind      string `json:"kind"`
	Type      string `json:"type"`
	Ctor      string `json:"ctor"`
	File      string `json:"file"`
	HasConfig bool   `json:"has_config"`
	Opts      []Opt  `json:"opts"`
}

// tagName: the struct tag that names an option ("mapstructure" for the mechanism config structs,
// "koanf" for the Configuration struct)
var tagName = "mapstructure"

var kinds = [][2]string{
	{"authenticators", "authenticators"},
	{"authorizers", "authorizers"},
	{"contextualizers", "contextualizers"},
	{"finalizers", "finalizers"},
	{"errorhandlers", "error_handlers"},
}

type pkgInfo struct {
	fset   *token.FileSet
	files  map[string]*ast.File
	consts map[string]string
	funcs  map[string]*ast.FuncDecl
	types  map[string]*ast.StructType
	timps  map[string]map[string]string // imports of the file that declares a type
}

func parseDir(dir string) (*pkgInfo, error) {
	p := &pkgInfo{fset: token.NewFileSet(), files: map[string]*ast.File{}, consts: map[string]string{},
		funcs: map[string]*ast.FuncDecl{}, types: map[string]*ast.StructType{}, timps: map[string]map[string]string{}}

	ents, err := os.ReadDir(dir)
	if err != nil {
		return nil, err
	}

	for _, e := range ents {
		n := e.Name()
		if e.IsDir() || !strings.HasSuffix(n, ".go") || strings.HasSuffix(n, "_test.go") {
			continue
		}

		f, err := parser.ParseFile(p.fset, filepath.Join(dir, n), nil, parser.SkipObjectResolution)
		if err != nil {
			return nil, err
		}

		p.files[n] = f

		for _, d := range f.Decls {
			switch t := d.(type) {
			case *ast.FuncDecl:
				if t.Recv == nil {
					p.funcs[t.Name.Name] = t
				}
			case *ast.GenDecl:
				for _, s := range t.Specs {
					switch sp := s.(type) {
					case *ast.ValueSpec:
						if t.Tok != token.CONST {
							continue
						}

						for i, nm := range sp.Names {
							if i < len(sp.Values) {
								if bl, ok := sp.Values[i].(*ast.BasicLit); ok && bl.Kind == token.STRING {
									if v, err := strconv.Unquote(bl.Value); err == nil {
										p.consts[nm.Name] = v
									}
								}
							}
						}
					case *ast.TypeSpec:
						if st, ok := sp.Type.(*ast.StructType); ok {
							p.types[sp.Name.Name] = st
							p.timps[sp.Name.Name] = importsOf(f)
						}
					}
				}
			}
		}
	}

	return p, nil
}

func exprString(e ast.Expr) string {
	switch t := e.(type) {
	case *ast.Ident:
		return t.Name
	case *ast.SelectorExpr:
		return exprString(t.X) + "." + t.Sel.Name
	case *ast.StarExpr:
		return "*" + exprString(t.X)
	case *ast.ArrayType:
		return "[]" + exprString(t.Elt)
	case *ast.MapType:
		return "map[" + exprString(t.Key) + "]" + exprString(t.Value)
	case *ast.InterfaceType:
		return "any"
	}

	return fmt.Sprintf("%T", e)
}

// structOpts lists the options a struct type accepts (squashed embedded structs of the
// same package are inlined; foreign squashed ones are resolved through the index of all
// packages parsed so far).
func structOpts(st *ast.StructType, self *pkgInfo, all map[string]*pkgInfo, imports map[string]string, depth int) []Opt {
	var out []Opt

	for _, f := range st.Fields.List {
		tag := ""
		if f.Tag != nil {
			if v, err := strconv.Unquote(f.Tag.Value); err == nil {
				tag = v
			}
		}

		if len(f.Names) > 0 && !ast.IsExported(f.Names[0].Name) {
			continue
		}

		ms := reflect.StructTag(tag).Get(tagName)
		val := reflect.StructTag(tag).Get("validate")
		name, rest, _ := strings.Cut(ms, ",")

		if strings.Contains(rest, "squash") && depth < 4 {
			// inline the embedded struct
			var inner *ast.StructType

			switch t := f.Type.(type) {
			case *ast.Ident:
				inner = self.types[t.Name]
			case *ast.SelectorExpr:
				if x, ok := t.X.(*ast.Ident); ok {
					if pi := all[imports[x.Name]]; pi != nil {
						inner = pi.types[t.Sel.Name]
						if inner != nil {
							out = append(out, structOpts(inner, pi, all, pi.timps[t.Sel.Name], depth+1)...)
							inner = nil
						}
					}
				}
			}

			if inner != nil {
				out = append(out, structOpts(inner, self, all, imports, depth+1)...)
			}

			continue
		}

		if name == "" || name == "-" {
			if len(f.Names) == 0 || ms == "-" {
				continue
			}
			// mapstructure's default: the field name, matched case-insensitively
			name = strings.ToLower(f.Names[0].Name)
		}

		o := Opt{Name: name, GoType: exprString(f.Type), Validate: val, Required: "no"}

		for _, part := range strings.Split(val, ",") {
			switch {
			case part == "required":
				o.Required = "yes"
			case strings.HasPrefix(part, "required_") || strings.HasPrefix(part, "excluded_"):
				if o.Required == "no" {
					o.Required = "cond"
				}
			case strings.HasPrefix(part, "oneof="):
				o.OneOf = strings.Fields(strings.TrimPrefix(part, "oneof="))
			case strings.HasPrefix(part, "gte="), strings.HasPrefix(part, "lte="):
				if n, err := strconv.Atoi(part[4:]); err == nil {
					if o.Range == nil {
						o.Range = []*int{nil, nil}
					}

					if part[0] == 'g' {
						o.Range[0] = &n
					} else {
						o.Range[1] = &n
					}
				}
			}
		}

		if depth < 3 {
			o.Sub, o.SubElem = nestedOpts(f.Type, self, all, imports, depth)

			// validate:"-" switches the validation of the nested struct off
			if val == "-" {
				o.Sub = unrequire(o.Sub)
			}
		}

		out = append(out, o)
	}

	return out
}

func unrequire(os []Opt) []Opt {
	out := make([]Opt, len(os))

	for i, o := range os {
		o.Required, o.OneOf, o.Range = "no", nil, nil
		o.Sub = unrequire(o.Sub)
		out[i] = o
	}

	return out
}

// nestedOpts resolves a field type to a struct of the repository (through pointers, and
// through one slice level) and lists its options.
func nestedOpts(t ast.Expr, self *pkgInfo, all map[string]*pkgInfo, imports map[string]string, depth int) ([]Opt, bool) {
	elem := false

	for {
		switch tt := t.(type) {
		case *ast.StarExpr:
			t = tt.X

			continue
		case *ast.ArrayType:
			if elem {
				return nil, false
			}

			elem = true
			t = tt.Elt

			continue
		}

		break
	}

	var (
		st  *ast.StructType
		pi  *pkgInfo
		imp map[string]string
	)

	switch tt := t.(type) {
	case *ast.Ident:
		if self != nil {
			st, pi, imp = self.types[tt.Name], self, self.timps[tt.Name]
		}
	case *ast.SelectorExpr:
		if x, ok := tt.X.(*ast.Ident); ok {
			if p := all[imports[x.Name]]; p != nil {
				st, pi, imp = p.types[tt.Sel.Name], p, p.timps[tt.Sel.Name]
			}
		}
	}

	if st == nil {
		return nil, false
	}

	sub := structOpts(st, pi, all, imp, depth+1)
	if len(sub) == 0 {
		return nil, false
	}

	sort.Slice(sub, func(i, j int) bool { return sub[i].Name < sub[j].Name })

	return sub, elem
}

func importsOf(f *ast.File) map[string]string {
	m := map[string]string{}

	for _, im := range f.Imports {
		p, _ := strconv.Unquote(im.Path.Value)
		name := filepath.Base(p)

		if im.Name != nil {
			name = im.Name.Name
		}

		m[name] = p
	}

	return m
}

func main() {
	repo := flag.String("repo", "/repo", "heimdall checkout")
	flag.Parse()

	const module = "github.com/dadrus/heimdall/"

	all := map[string]*pkgInfo{}

	// index of every package under internal/ (for squashed foreign structs)
	filepath.Walk(filepath.Join(*repo, "internal"), func(path string, info os.FileInfo, err error) error { //nolint:errcheck
		if err != nil || !info.IsDir() {
			return nil
		}

		if pi, err := parseDir(path); err == nil && len(pi.files) > 0 {
			rel, _ := filepath.Rel(*repo, path)
			all[module+filepath.ToSlash(rel)] = pi
		}

		return nil
	})

	var mechs []Mech

	for _, k := range kinds {
		pi := all[module+"internal/rules/mechanisms/"+k[0]]
		if pi == nil {
			fmt.Fprintln(os.Stderr, "package not found:", k[0])
			os.Exit(2)
		}

		names := make([]string, 0, len(pi.files))
		for n := range pi.files {
			names = append(names, n)
		}

		sort.Strings(names)

		for _, fname := range names {
			f := pi.files[fname]
			imps := importsOf(f)

			for _, d := range f.Decls {
				fd, ok := d.(*ast.FuncDecl)
				if !ok || fd.Name.Name != "init" || fd.Recv != nil || fd.Body == nil {
					continue
				}

				ast.Inspect(fd.Body, func(n ast.Node) bool {
					call, ok := n.(*ast.CallExpr)
					if !ok {
						return true
					}

					id, ok := call.Fun.(*ast.Ident)
					if !ok || id.Name != "registerTypeFactory" || len(call.Args) != 1 {
						return true
					}

					lit, ok := call.Args[0].(*ast.FuncLit)
					if !ok {
						return true
					}

					m := Mech{Kind: k[1], File: "internal/rules/mechanisms/" + k[0] + "/" + fname}

					ast.Inspect(lit.Body, func(n ast.Node) bool {
						switch t := n.(type) {
						case *ast.BinaryExpr:
							if t.Op == token.NEQ || t.Op == token.EQL {
								if x, ok := t.X.(*ast.Ident); ok && x.Name == "typ" {
									switch y := t.Y.(type) {
									case *ast.Ident:
										m.Type = pi.consts[y.Name]
									case *ast.BasicLit:
										m.Type, _ = strconv.Unquote(y.Value)
									}
								}
							}
						case *ast.CallExpr:
							if c, ok := t.Fun.(*ast.Ident); ok && strings.HasPrefix(c.Name, "new") && m.Ctor == "" {
								m.Ctor = c.Name
							}
						}

						return true
					})

					if ctor := pi.funcs[m.Ctor]; ctor != nil && ctor.Body != nil {
						// does the constructor take the raw configuration at all?
						for _, prm := range ctor.Type.Params.List {
							if exprString(prm.Type) == "map[string]any" {
								m.HasConfig = true
							}
						}

						// the value the raw configuration is decoded into: decodeConfig(..., &x), var x T
						target := ""
						local := map[string]*ast.StructType{}
						varType := map[string]string{}

						ast.Inspect(ctor.Body, func(n ast.Node) bool {
							switch t := n.(type) {
							case *ast.CallExpr:
								if c, ok := t.Fun.(*ast.Ident); ok && c.Name == "decodeConfig" && len(t.Args) > 0 {
									if u, ok := t.Args[len(t.Args)-1].(*ast.UnaryExpr); ok && u.Op == token.AND {
										if x, ok := u.X.(*ast.Ident); ok && target == "" {
											target = x.Name
										}
									}
								}
							case *ast.GenDecl:
								for _, s := range t.Specs {
									switch sp := s.(type) {
									case *ast.TypeSpec:
										if st, ok := sp.Type.(*ast.StructType); ok {
											local[sp.Name.Name] = st
										}
									case *ast.ValueSpec:
										if id, ok := sp.Type.(*ast.Ident); ok {
											for _, nm := range sp.Names {
												varType[nm.Name] = id.Name
											}
										}
									}
								}
							}

							return true
						})

						if tn := varType[target]; tn != "" {
							st := local[tn]
							if st == nil {
								st = pi.types[tn]
							}

							if st != nil {
								m.Opts = structOpts(st, pi, all, imps, 0)
							}
						}
					}

					if m.Opts == nil {
						m.Opts = []Opt{}
					}

					sort.Slice(m.Opts, func(i, j int) bool { return m.Opts[i].Name < m.Opts[j].Name })
					mechs = append(mechs, m)

					return false
				})
			}
		}
	}

	sort.Slice(mechs, func(i, j int) bool {
		if mechs[i].Kind != mechs[j].Kind {
			return mechs[i].Kind < mechs[j].Kind
		}

		return mechs[i].Type < mechs[j].Type
	})

	// the sections of the Configuration struct (koanf tags), for the non-mechanism part of the schema
	var sections []Mech

	if cp := all[module+"internal/config"]; cp != nil {
		if st := cp.types["Configuration"]; st != nil {
			tagName = "koanf"

			for _, o := range structOpts(st, cp, all, cp.timps["Configuration"], 0) {
				sub := o.Sub
				if sub == nil {
					sub = []Opt{}
				}

				sections = append(sections, Mech{Kind: "section", Type: o.Name, Ctor: o.GoType, File: "internal/config/configuration.go",
					HasConfig: len(sub) > 0, Opts: sub})
			}

			tagName = "mapstructure"
		}
	}

	enc := json.NewEncoder(os.Stdout)
	enc.SetIndent("", " ")
	enc.Encode(map[string]any{"mechs": mechs, "sections": sections}) //nolint:errcheck
}
