#!/usr/bin/env python3
"""Regenerates coq/Gen/SchemaTables.v and the probe list of the C20 "schema" replay stream.

  schema side : <repo>/schema/config.schema.json  (definitions/mechanismDefinitions: per mechanism kind the
                admitted `type` constants, per type the properties of `config` with required / enum / const)
  loader side : JSON printed by the Go extractor in this directory (type registries + config structs)

usage: gen.py <repo> <loader.json> <out dir for SchemaTables.v / SchemaTablesOk.v> <out probes.json>
"""
import json
import sys


def coq_str(s):
    return '"' + str(s).replace('"', '""') + '"'


def render(v):
    """a JSON value as the text the tables and probes use"""
    if isinstance(v, bool):
        return "true" if v else "false"
    return str(v)


def schema_table(repo):
    S = json.load(open(repo + "/schema/config.schema.json"))
    D = S.get("definitions", {})

    def deref(n):
        seen = 0
        while isinstance(n, dict) and "$ref" in n and seen < 20:
            n = D[n["$ref"].split("/")[-1]]
            seen += 1
        return n

    md = deref(S["properties"]["mechanisms"])
    out = []
    for kind, arr in md.get("properties", {}).items():
        items = deref(arr.get("items", {}))
        alts = items.get("anyOf") or items.get("oneOf") or [items]
        for a in alts:
            d = deref(a)
            props = d.get("properties", {})
            t = deref(props.get("type", {}))
            types = [t["const"]] if "const" in t else list(t.get("enum", []))
            cfg = deref(props["config"]) if "config" in props else None
            opts = []
            if cfg is not None:
                req = set(cfg.get("required", []))
                cond = set()
                for key in ("oneOf", "anyOf", "allOf"):
                    for alt in cfg.get(key, []):
                        cond |= set(deref(alt).get("required", []))
                for on, o in cfg.get("properties", {}).items():
                    o = deref(o)
                    enum = None
                    if "enum" in o:
                        enum = [render(x) for x in o["enum"]]
                    elif "const" in o:
                        enum = [render(o["const"])]
                    r = "yes" if on in req else ("cond" if on in cond else "no")
                    rng = None
                    if enum is None and ("minimum" in o or "maximum" in o):
                        rng = [o.get("minimum"), o.get("maximum")]
                    opts.append({"name": on, "required": r, "enum": enum, "range": rng,
                                 "int": o.get("type") in ("integer", "number")})
            for ty in types:
                out.append({"kind": kind, "type": ty, "has_config": cfg is not None,
                            "cfg_req": "config" in d.get("required", []),
                            "opts": sorted(opts, key=lambda o: o["name"])})
    return sorted(out, key=lambda m: (m["kind"], m["type"]))


def loader_table(path):
    L = json.load(open(path))["mechs"]
    out = []
    for m in L:
        opts = [{"name": o["name"], "required": o["required"], "enum": o.get("oneof"), "range": o.get("range"), "int": o["go_type"].lstrip("*") in
                 ("int", "int64", "uint", "uint64", "int32", "uint32", "float64")} for o in m["opts"]]
        out.append({"kind": m["kind"], "type": m["type"], "has_config": m["has_config"],
                    # a conditional requirement (required_without=...) also bites when there is no config at all
                    "cfg_req": any(o["required"] in ("yes", "cond") for o in opts),
                    "opts": sorted(opts, key=lambda o: o["name"])})
    return sorted(out, key=lambda m: (m["kind"], m["type"]))


def coq_table(name, tbl):
    lines = []
    for m in tbl:
        opts = []
        for o in m["opts"]:
            if o["enum"] is not None:
                c = "(CEnum [" + "; ".join(coq_str(v) for v in o["enum"]) + "])"
            elif o.get("range") and o["range"][0] is not None and o["range"][1] is not None:
                c = "(CRange (%d)%%Z (%d)%%Z)" % (int(o["range"][0]), int(o["range"][1]))
            else:
                c = "CAny"
            r = {"yes": "RYes", "no": "RNo", "cond": "RCond"}[o["required"]]
            opts.append("mk_opt %s %s %s" % (coq_str(o["name"]), r, c))
        lines.append("  mk_mech %s %s %s %s [%s]" % (coq_str(m["kind"]), coq_str(m["type"]),
                                                      "true" if m["has_config"] else "false",
                                                      "true" if m["cfg_req"] else "false", "; ".join(opts)))
    return "Definition %s : table := [\n%s\n].\n" % (name, ";\n".join(lines))


# minimal configurations that both sides accept, per mechanism type known when this was written; a type without an
# entry here is probed "uncontrolled" (only the property, not the prediction of the tables, is checked)
URL = {"url": "http://127.0.0.1:1/x"}
BASE = {
    ("authenticators", "anonymous"): None,
    ("authenticators", "unauthorized"): None,
    ("authenticators", "basic_auth"): {"user_id": "u", "password": "p"},
    ("authenticators", "generic"): {"identity_info_endpoint": URL, "authentication_data_source": [{"header": "X-Tok"}],
                                    "subject": {"id": "sub"}},
    ("authenticators", "jwt"): {"jwks_endpoint": URL, "assertions": {"issuers": ["iss"]}},
    ("authenticators", "oauth2_introspection"): {"introspection_endpoint": URL, "assertions": {"issuers": ["iss"]}},
    ("authorizers", "allow"): None,
    ("authorizers", "deny"): None,
    ("authorizers", "cel"): {"expressions": [{"expression": "true == true"}]},
    ("authorizers", "remote"): {"endpoint": URL, "payload": "x"},
    ("contextualizers", "generic"): {"endpoint": URL},
    ("error_handlers", "default"): None,
    ("error_handlers", "redirect"): {"to": "http://127.0.0.1:1/login"},
    ("error_handlers", "www_authenticate"): None,
    ("error_handlers", "www-authenticate"): {"realm": "r"},
    ("finalizers", "noop"): None,
    ("finalizers", "header"): {"headers": {"X-A": "b"}},
    ("finalizers", "cookie"): {"cookies": {"a": "b"}},
    ("finalizers", "oauth2_client_credentials"): {"token_url": "http://127.0.0.1:1/t", "client_id": "c", "client_secret": "s"},
}


def probes(stbl, ltbl):
    by = {}
    for side, tbl in (("s", stbl), ("l", ltbl)):
        for m in tbl:
            by.setdefault((m["kind"], m["type"]), {})[side] = m
    out = []
    kinds = sorted({k for k, _ in by})
    for (kind, ty), sides in sorted(by.items()):
        known = (kind, ty) in BASE
        base = BASE.get((kind, ty))
        has_cfg = any(m["has_config"] for m in sides.values())
        out.append({"kind": kind, "type": ty, "opts": [], "config": base, "controlled": known, "what": "control"})
        if base is not None or not known:
            out.append({"kind": kind, "type": ty, "opts": [], "config": None, "controlled": True, "what": "no-config"})
        names = {}
        for side, m in sides.items():
            for o in m["opts"]:
                names.setdefault(o["name"], {})[side] = o
        for n, os_ in sorted(names.items()):
            enums = [o["enum"] for o in os_.values() if o["enum"] is not None]
            for o in os_.values():
                rg = o.get("range")
                if rg and rg[0] is not None and rg[1] is not None:
                    enums.append([str(int(rg[0]) - 1), str(int(rg[0])), str(int(rg[1])), str(int(rg[1]) + 1)])
            if enums:
                vals = []
                for e in enums:
                    for v in e:
                        if v not in vals:
                            vals.append(v)
                is_int = all(v.lstrip("-").isdigit() for v in vals)
                outside = "200" if is_int else "zz_outside"
                for v in vals + [outside]:
                    cfg = dict(base or {})
                    cfg[n] = int(v) if is_int else v
                    out.append({"kind": kind, "type": ty, "opts": [[n, v]], "config": cfg, "controlled": known,
                                "what": "enum-outside" if v == outside else "enum-value"})
            if len(os_) == 1:
                cfg = dict(base or {})
                cfg[n] = "x"
                out.append({"kind": kind, "type": ty, "opts": [[n, "x"]], "config": cfg, "controlled": False,
                            "what": "one-sided-option"})
        if has_cfg:
            cfg = dict(base or {})
            cfg["zz_unknown"] = 1
            out.append({"kind": kind, "type": ty, "opts": [["zz_unknown", "1"]], "config": cfg, "controlled": known,
                        "what": "unknown-option"})
    for kind in kinds:
        out.append({"kind": kind, "type": "zz_bogus", "opts": [], "config": None, "controlled": True, "what": "bogus-type"})
    return out


def write_if_changed(path, text):
    """keep the time stamp when nothing changed, so that make does not rebuild what depends on it"""
    try:
        if open(path).read() == text:
            return
    except OSError:
        pass
    with open(path, "w") as f:
        f.write(text)


def main():
    repo, loader_json, out_dir, out_probes = sys.argv[1:5]
    out_v = out_dir + "/SchemaTables.v"
    stbl = schema_table(repo)
    ltbl = loader_table(loader_json)
    write_if_changed(out_v,
                     "(** GENERATED on every run by harness/tools/schema (gen.py + the Go extractor) from\n"
                     "    schema/config.schema.json and internal/rules/mechanisms/*: do not edit. *)\n"
                     "From HV Require Import Base.Prelude C20.SchemaModel.\nOpen Scope string_scope.\n\n" +
                     coq_table("schema_tbl", stbl) + "\n" + coq_table("loader_tbl", ltbl))
    write_if_changed(out_dir + "/SchemaTablesOk.v",
                     "(** GENERATED on every run by harness/tools/schema: the finite statement over the regenerated tables. *)\n"
                     "From HV Require Import Base.Prelude C20.SchemaModel Gen.SchemaTables.\n\n"
                     "(** the tables agree row by row except on the recorded disagreements (C20-F1) of the groups not repaired yet *)\n"
                     "Example tables_agree : tables_ok fixed_F1a fixed_F1b schema_tbl loader_tbl = true.\nProof. vm_compute. reflexivity. Qed.\n")
    with open(out_probes, "w") as f:
        json.dump({"probes": probes(stbl, ltbl), "schema": stbl, "loader": ltbl}, f, indent=1)


if __name__ == "__main__":
    main()
