#!/usr/bin/env python3
"""Regenerates coq/Gen/SchemaTables.v and the probe list of the C20 "schema" replay stream.

  schema side : <repo>/schema/config.schema.json  (definitions/mechanismDefinitions: per mechanism kind the
                admitted `type` constants, per type the properties of `config` with required / enum / const)
  loader side : JSON printed by the Go extractor in this directory (type registries + config structs)

usage: gen.py <repo> <loader.json> <out dir for SchemaTables.v / SchemaTablesOk.v> <out probes.json>
"""
import json
import re
import sys


ANY = "<any>"   # pseudo option: "an option that is not listed" (present on a side iff that side accepts such options)


# sample universe for value classes, and the two grammars the translator knows
DUR_SAMPLES = ["1h", "30m", "10s", "500ms", "100us", "5ns", "1h30m", "1.5s", "10", "abc"]
GO_DURATION = re.compile(r"^[+-]?(0|((\d+(\.\d*)?|\.\d+)(ns|us|µs|ms|s|m|h))+)$")
SINGLE_UNIT = "^[0-9]+(ns|us|ms|s|m|h)$"


def schema_class(pattern):
    name = "duration_single_unit" if pattern == SINGLE_UNIT else "pattern:" + pattern
    try:
        rx = re.compile(pattern)
    except re.error:
        return {"name": name, "acc": [], "rej": []}
    return {"name": name, "acc": [v for v in DUR_SAMPLES if rx.search(v)], "rej": [v for v in DUR_SAMPLES if not rx.search(v)]}


LIST_MIN1 = {"name": "nonempty", "acc": [], "rej": ["[]", "{}"]}


def loader_class(go_type, validate=""):
    if ("gt=0" in validate.split(",") or "min=1" in validate.split(",")) and (go_type.startswith("[]") or go_type.startswith("map[")):
        return dict(LIST_MIN1)
    if go_type.lstrip("*") == "time.Duration":
        return {"name": "go_duration", "acc": [v for v in DUR_SAMPLES if GO_DURATION.match(v)],
                "rej": [v for v in DUR_SAMPLES if not GO_DURATION.match(v)]}
    return None


def coq_str(s):
    return '"' + str(s).replace('"', '""') + '"'


def render(v):
    """a JSON value as the text the tables and probes use"""
    if isinstance(v, bool):
        return "true" if v else "false"
    return str(v)


def schema_table(repo):
    S = json.load(open(repo + "/schema/config.schema.json"))
    D = S.get("definitions", {})

    def deref(n):
        seen = 0
        while isinstance(n, dict) and "$ref" in n and seen < 20:
            n = D[n["$ref"].split("/")[-1]]
            seen += 1
        return n

    def merge_all_of(o):
        """allOf: the conjunction of its parts (properties and required are united, closed if one part is)"""
        o = deref(o)
        if not (isinstance(o, dict) and "allOf" in o):
            return o
        res = {k: v for k, v in o.items() if k != "allOf"}
        for part in o["allOf"]:
            part = merge_all_of(part)
            if not isinstance(part, dict):
                continue
            for k, v in part.items():
                if k == "properties":
                    res.setdefault("properties", {}).update(v)
                elif k == "required":
                    res["required"] = sorted(set(res.get("required", [])) | set(v))
                elif k == "additionalProperties":
                    if v is False or "additionalProperties" not in res:
                        res[k] = v
                else:
                    res.setdefault(k, v)
        return res

    def obj_alt(o):
        """the object-with-properties reading of a schema node (directly, or the first such alternative of anyOf/oneOf)"""
        o = merge_all_of(o)
        if isinstance(o, dict) and "properties" in o:
            return o
        if isinstance(o, dict):
            for key in ("anyOf", "oneOf"):
                for alt in o.get(key, []):
                    alt = deref(alt)
                    if isinstance(alt, dict) and "properties" in alt:
                        return alt
        return None

    union_mode = [False]

    def obj_union(o):
        """names only: the union of the properties of all object alternatives"""
        o = merge_all_of(o)
        if not isinstance(o, dict):
            return None
        props = dict(o.get("properties", {}))
        found = "properties" in o
        for key in ("anyOf", "oneOf"):
            for alt in o.get(key, []):
                alt = merge_all_of(alt)
                if isinstance(alt, dict) and "properties" in alt:
                    found = True
                    for k, v in alt["properties"].items():
                        props.setdefault(k, v)
        if not found:
            return None
        return {"properties": props, "additionalProperties": False}

    def opts_of(cfg, depth):
        req = set(cfg.get("required", []))
        cond = set()
        for key in ("oneOf", "anyOf", "allOf"):
            for alt in cfg.get(key, []):
                cond |= set(deref(alt).get("required", []))
        opts = []
        for on, o in cfg.get("properties", {}).items():
            o = merge_all_of(o)
            enum = None
            if "enum" in o:
                enum = [render(x) for x in o["enum"]]
            elif "const" in o:
                enum = [render(o["const"])]
            r = "yes" if on in req else ("cond" if on in cond else "no")
            rng = None
            if enum is None and ("minimum" in o or "maximum" in o):
                rng = [o.get("minimum"), o.get("maximum")]
            sub, sub_elem = None, False
            if depth < 3:
                pick = obj_union if union_mode[0] else obj_alt
                n = pick(o)
                if n is None and o.get("type") == "array" and isinstance(o.get("items"), dict):
                    n = pick(o["items"])
                    sub_elem = n is not None
                if n is not None:
                    sub = opts_of(n, depth + 1)
            cls = schema_class(o["pattern"]) if enum is None and rng is None and isinstance(o.get("pattern"), str) else None
            if cls is None and ((o.get("type") == "array" and o.get("minItems", 0) >= 1) or
                                (o.get("type") == "object" and o.get("minProperties", 0) >= 1)):
                cls = dict(LIST_MIN1)
            opts.append({"name": on, "required": r, "enum": enum, "range": rng, "cls": cls, "sub": sub, "sub_elem": sub_elem,
                         "int": o.get("type") in ("integer", "number")})
        if cfg.get("additionalProperties", True) is not False:
            # an open object: options not listed are accepted too
            opts.append({"name": ANY, "required": "no", "enum": None, "range": None, "cls": None, "sub": None, "sub_elem": False,
                         "int": False})
        return sorted(opts, key=lambda o: o["name"])

    md = deref(S["properties"]["mechanisms"])
    out = []
    for kind, arr in md.get("properties", {}).items():
        items = deref(arr.get("items", {}))
        alts = items.get("anyOf") or items.get("oneOf") or [items]
        for a in alts:
            d = deref(a)
            props = d.get("properties", {})
            t = deref(props.get("type", {}))
            types = [t["const"]] if "const" in t else list(t.get("enum", []))
            cfg = deref(props["config"]) if "config" in props else None
            opts = opts_of(cfg, 0) if cfg is not None else []
            for ty in types:
                out.append({"kind": kind, "type": ty, "has_config": cfg is not None,
                            "cfg_req": "config" in d.get("required", []),
                            "opts": opts})
    # the other sections of the configuration (rows are compared by name/requiredness/value class; whether unknown
    # keys are accepted is NOT compared there: the Configuration struct is decoded without ErrorUnused)
    union_mode[0] = True
    for name, node in S.get("properties", {}).items():
        n = obj_union(node)
        opts = [o for o in opts_of(n, 0) if o["name"] != ANY] if n is not None else []

        def strip_any(os_):
            for o in os_:
                if o.get("sub"):
                    o["sub"] = strip_any([x for x in o["sub"] if x["name"] != ANY])
            return os_

        out.append({"kind": "section", "type": name, "has_config": n is not None, "cfg_req": False, "opts": strip_any(opts)})
    union_mode[0] = False
    return sorted(out, key=lambda m: (m["kind"], m["type"]))


def loader_table(path):
    J = json.load(open(path))
    L = J["mechs"] + J.get("sections", [])
    out = []
    for m in L:
        def conv(os_):
            return sorted([{"name": o["name"], "required": o["required"], "enum": o.get("oneof"), "range": o.get("range"),
                            "cls": loader_class(o["go_type"], o.get("validate", "")) if not o.get("oneof") and not o.get("range") else None,
                            "sub": conv(o["sub"]) if o.get("sub") else None, "sub_elem": bool(o.get("sub_elem")),
                            "is_map": o["go_type"].startswith("map["),
                            "int": o["go_type"].lstrip("*") in ("int", "int64", "uint", "uint64", "int32", "uint32", "float64")}
                           for o in os_], key=lambda o: o["name"])
        opts = conv(m["opts"])
        out.append({"kind": m["kind"], "type": m["type"], "has_config": m["has_config"],
                    # a conditional requirement (required_without=...) also bites when there is no config at all
                    "cfg_req": m["kind"] != "section" and any(o["required"] in ("yes", "cond") for o in opts),
                    "opts": sorted(opts, key=lambda o: o["name"])})
    return sorted(out, key=lambda m: (m["kind"], m["type"]))


def flatten_pair(sopts, lopts, prefix=""):
    """dotted option lists for both sides; below an option only when both sides describe a structure there
    (one side alone — a decode hook, a free-form object — stays a leaf)"""
    so = {o["name"]: o for o in (sopts or [])}
    lo = {o["name"]: o for o in (lopts or [])}
    fs, fl = [], []
    for n in sorted(set(so) | set(lo)):
        a, b = so.get(n), lo.get(n)
        for side, o, acc in (("s", a, fs), ("l", b, fl)):
            if o is not None:
                acc.append({"name": prefix + n, "required": o["required"], "enum": o["enum"], "range": o.get("range"),
                            "cls": o.get("cls"), "int": o.get("int", False), "is_map": o.get("is_map", False)})
        if a and b and a.get("sub") and b.get("sub") and bool(a.get("sub_elem")) == bool(b.get("sub_elem")):
            sep = "[]." if a.get("sub_elem") else "."
            s2, l2 = flatten_pair(a["sub"], b["sub"], prefix + n + sep)
            fs += s2
            fl += l2
    return fs, fl


def flatten_tables(stbl, ltbl):
    lby = {(m["kind"], m["type"]): m for m in ltbl}
    sby = {(m["kind"], m["type"]): m for m in stbl}
    for k in set(lby) | set(sby):
        a, b = sby.get(k), lby.get(k)
        fs, fl = flatten_pair(a["opts"] if a else [], b["opts"] if b else [])
        if k[0] == "section":
            # names only: value constraints of these sections live in decode hooks, not in tags
            for o in fs + fl:
                o["required"], o["enum"], o["range"], o["cls"] = "no", None, None, None
        if a:
            a["opts"] = sorted(fs, key=lambda o: o["name"])
        if b:
            b["opts"] = sorted(fl, key=lambda o: o["name"])


def coq_table(name, tbl):
    lines = []
    for m in tbl:
        opts = []
        for o in m["opts"]:
            if o["enum"] is not None:
                c = "(CEnum [" + "; ".join(coq_str(v) for v in o["enum"]) + "])"
            elif o.get("range") and o["range"][0] is not None and o["range"][1] is not None:
                c = "(CRange (%d)%%Z (%d)%%Z)" % (int(o["range"][0]), int(o["range"][1]))
            elif o.get("cls"):
                c = "(CClass %s [%s] [%s])" % (coq_str(o["cls"]["name"]), "; ".join(coq_str(v) for v in o["cls"]["acc"]),
                                               "; ".join(coq_str(v) for v in o["cls"]["rej"]))
            else:
                c = "CAny"
            r = {"yes": "RYes", "no": "RNo", "cond": "RCond"}[o["required"]]
            opts.append("mk_opt %s %s %s" % (coq_str(o["name"]), r, c))
        lines.append("  mk_mech %s %s %s %s [%s]" % (coq_str(m["kind"]), coq_str(m["type"]),
                                                      "true" if m["has_config"] else "false",
                                                      "true" if m["cfg_req"] else "false", "; ".join(opts)))
    return "Definition %s : table := [\n%s\n].\n" % (name, ";\n".join(lines))


# minimal configurations that both sides accept, per mechanism type known when this was written; a type without an
# entry here is probed "uncontrolled" (only the property, not the prediction of the tables, is checked)
URL = {"url": "http://127.0.0.1:1/x"}
BASE = {
    ("authenticators", "anonymous"): None,
    ("authenticators", "unauthorized"): None,
    ("authenticators", "basic_auth"): {"user_id": "u", "password": "p"},
    ("authenticators", "generic"): {"identity_info_endpoint": URL, "authentication_data_source": [{"header": "X-Tok"}],
                                    "subject": {"id": "sub"}},
    ("authenticators", "jwt"): {"jwks_endpoint": URL, "assertions": {"issuers": ["iss"]}},
    ("authenticators", "oauth2_introspection"): {"introspection_endpoint": URL, "assertions": {"issuers": ["iss"]}},
    ("authorizers", "allow"): None,
    ("authorizers", "deny"): None,
    ("authorizers", "cel"): {"expressions": [{"expression": "true == true"}]},
    ("authorizers", "remote"): {"endpoint": URL, "payload": "x"},
    ("contextualizers", "generic"): {"endpoint": URL},
    ("error_handlers", "default"): None,
    ("error_handlers", "redirect"): {"to": "http://127.0.0.1:1/login"},
    ("error_handlers", "www_authenticate"): None,
    ("error_handlers", "www-authenticate"): {"realm": "r"},
    ("finalizers", "noop"): None,
    ("finalizers", "header"): {"headers": {"X-A": "b"}},
    ("finalizers", "cookie"): {"cookies": {"a": "b"}},
    ("finalizers", "oauth2_client_credentials"): {"token_url": "http://127.0.0.1:1/t", "client_id": "c", "client_secret": "s"},
}


import copy


def _walk(cfg, name, create=False):
    """(container, last key) for a dotted option name inside a config object ("a.b", "a[].b": first element)"""
    parts = name.split(".")
    cur = cfg
    for part in parts[:-1]:
        elem = part.endswith("[]")
        key = part[:-2] if elem else part
        if not isinstance(cur, dict) or key not in cur:
            return None, None
        cur = cur[key]
        if elem:
            if not isinstance(cur, list) or not cur:
                return None, None
            cur = cur[0]
    if not isinstance(cur, dict):
        return None, None
    return cur, parts[-1]


def with_value(base, name, value):
    cfg = copy.deepcopy(base or {})
    cur, key = _walk(cfg, name)
    if cur is None:
        return None
    cur[key] = value
    return cfg


def without(base, name):
    cfg = copy.deepcopy(base or {})
    cur, key = _walk(cfg, name)
    if cur is None or key not in cur:
        return None
    del cur[key]
    return cfg


def probes(stbl, ltbl):
    by = {}
    for side, tbl in (("s", stbl), ("l", ltbl)):
        for m in tbl:
            by.setdefault((m["kind"], m["type"]), {})[side] = m
    out = []
    kinds = sorted({k for k, _ in by if k != "section"})
    for (kind, ty), sides in sorted(by.items()):
        if kind == "section":
            continue   # static rows only; the meta stream exercises these sections through NewConfiguration
        known = (kind, ty) in BASE
        base = BASE.get((kind, ty))
        has_cfg = any(m["has_config"] for m in sides.values())

        def add(what, opts, cfg, controlled, missing=()):
            out.append({"kind": kind, "type": ty, "opts": opts, "missing": list(missing), "config": cfg,
                        "controlled": controlled, "what": what})

        add("control", [], base, known)
        if base is not None or not known:
            add("no-config", [], None, True)
        # an `if` on the definition itself (the Mechanism struct has the key, the documentation shows it)
        out.append({"kind": kind, "type": ty, "opts": [], "missing": [], "config": base, "cond": "true == true",
                    "controlled": False, "what": "if-condition"})
        names = {}
        for side, m in sides.items():
            for o in m["opts"]:
                names.setdefault(o["name"], {})[side] = o
        nested_parents = set()
        for n, os_ in sorted(names.items()):
            if n.endswith(ANY):
                if "." in n:
                    nested_parents.add(n.rsplit(".", 1)[0])
                continue
            nested = "." in n
            if nested:
                nested_parents.add(n.rsplit(".", 1)[0])
            enums = [o["enum"] for o in os_.values() if o["enum"] is not None]
            for o in os_.values():
                rg = o.get("range")
                if rg and rg[0] is not None and rg[1] is not None:
                    enums.append([str(int(rg[0]) - 1), str(int(rg[0])), str(int(rg[1])), str(int(rg[1]) + 1)])
            if any(o.get("cls") for o in os_.values()):
                if any(o.get("cls") and o["cls"]["name"] == "nonempty" for o in os_.values()):
                    is_map = any(o.get("is_map") for o in os_.values())
                    cfg = with_value(base, n, {} if is_map else [])
                    if cfg is not None:
                        add("empty-list", [[n, "{}" if is_map else "[]"]], cfg, known)
                else:
                    for v in DUR_SAMPLES:
                        cfg = with_value(base, n, v)
                        if cfg is not None:
                            add("class-value", [[n, v]], cfg, known)
            if enums:
                vals = []
                for e in enums:
                    for v in e:
                        if v not in vals:
                            vals.append(v)
                is_int = all(v.lstrip("-").isdigit() for v in vals)
                outside = "200" if is_int else "zz_outside"
                for v in vals + [outside]:
                    cfg = with_value(base, n, int(v) if is_int else v)
                    if cfg is not None:
                        add("enum-outside" if v == outside else "enum-value", [[n, v]], cfg, known)
            if len(os_) == 1:
                cfg = with_value(base, n, "x")
                if cfg is not None:
                    add("one-sided-option", [[n, "x"]], cfg, False)
            # a required option left out (only where the base holds it)
            if known and any(o["required"] == "yes" for o in os_.values()):
                cfg = without(base, n)
                if cfg is not None:
                    add("required-missing", [], cfg, True, missing=[n])
        if has_cfg:
            cfg = dict(base or {})
            cfg["zz_unknown"] = 1
            add("unknown-option", [[ANY, "1"]], cfg, known)
        # an unknown option inside every nested object the base holds
        for parent in sorted(nested_parents):
            cfg = with_value(base, parent + ".zz_unknown", 1)
            if cfg is not None:
                add("unknown-nested-option", [[parent + "." + ANY, "1"]], cfg, known)
    for kind in kinds:
        out.append({"kind": kind, "type": "zz_bogus", "opts": [], "missing": [], "config": None, "controlled": True,
                    "what": "bogus-type"})
    return out


def write_if_changed(path, text):
    """keep the time stamp when nothing changed, so that make does not rebuild what depends on it"""
    try:
        if open(path).read() == text:
            return
    except OSError:
        pass
    with open(path, "w") as f:
        f.write(text)


def main():
    repo, loader_json, out_dir, out_probes = sys.argv[1:5]
    out_v = out_dir + "/SchemaTables.v"
    stbl = schema_table(repo)
    ltbl = loader_table(loader_json)
    flatten_tables(stbl, ltbl)
    write_if_changed(out_v,
                     "(** GENERATED on every run by harness/tools/schema (gen.py + the Go extractor) from\n"
                     "    schema/config.schema.json and internal/rules/mechanisms/*: do not edit. *)\n"
                     "From HV Require Import Base.Prelude C20.SchemaModel.\nOpen Scope string_scope.\n\n" +
                     coq_table("schema_tbl", stbl) + "\n" + coq_table("loader_tbl", ltbl))
    write_if_changed(out_dir + "/SchemaTablesOk.v",
                     "(** GENERATED on every run by harness/tools/schema: the finite statement over the regenerated tables. *)\n"
                     "From HV Require Import Base.Prelude C20.SchemaModel Gen.SchemaTables.\n\n"
                     "(** the tables agree row by row except on the recorded disagreements (C20-F1) of the groups not repaired yet *)\n"
                     "Example tables_agree : tables_ok fixed_F1a fixed_F1b schema_tbl loader_tbl = true.\nProof. vm_compute. reflexivity. Qed.\n\n"
                     "(** ... and, the syntax of duration values (C20-F6) apart, without any wildcard or excused row *)\n"
                     "Example tables_strict : strict_ok (erase_classes (mech_only schema_tbl)) (erase_classes (mech_only loader_tbl)) = true.\n"
                     "Proof. vm_compute. reflexivity. Qed.\n")
    with open(out_probes, "w") as f:
        json.dump({"probes": probes(stbl, ltbl), "schema": stbl, "loader": ltbl}, f, indent=1)


if __name__ == "__main__":
    main()
