module verif/tools/schema

go 1.23
