//go:build verif

package rules

// C03 driver: generated rule sets are created through the real
// ruleFactory.CreateRule (stub mechanism factory), loaded into the real
// repository and looked up with real request contexts (HTTP: http.ReadRequest +
// requestcontext.New, with and without X-Forwarded-*; Envoy: grpcv3.NewRequestContext).
// A pass-through recorder between the tree and routeImpl.Matches notes, for every
// matcher call, the keys and values the tree handed over and the real matcher's
// answer.  Observation per request: the calls, the selected rule (or none /
// panic) and URL.Captures as the PIPELINE sees them (snapshot taken by the stub
// authenticator inside the real ruleImpl.Execute; after Execute if the pipeline was
// not reached).  The answers of the glob / regex LIBRARIES (gobwas/glob, regexp, called
// directly - not through heimdall's typed matchers - with the documented separators) on
// the (pattern, value) pairs of the case are recorded as oracle data; the candidate values are
// produced by the driver's own percent-decoder, not by heimdall's unescape.

import (
	"bufio"
	"context"
	"encoding/json"
	"errors"
	"fmt"
	"net/http"
	"net/url"
	"regexp"
	"sort"
	"strings"
	"testing"

	envoy_auth "github.com/envoyproxy/go-control-plane/envoy/service/auth/v3"
	"github.com/gobwas/glob"
	"github.com/rs/zerolog"

	"github.com/dadrus/heimdall/internal/config"
	"github.com/dadrus/heimdall/internal/handler/envoyextauth/grpcv3"
	"github.com/dadrus/heimdall/internal/handler/requestcontext"
	"github.com/dadrus/heimdall/internal/heimdall"
	config2 "github.com/dadrus/heimdall/internal/rules/config"
	"github.com/dadrus/heimdall/internal/rules/mechanisms/authenticators"
	"github.com/dadrus/heimdall/internal/rules/mechanisms/authorizers"
	"github.com/dadrus/heimdall/internal/rules/mechanisms/contextualizers"
	"github.com/dadrus/heimdall/internal/rules/mechanisms/errorhandlers"
	"github.com/dadrus/heimdall/internal/rules/mechanisms/finalizers"
	"github.com/dadrus/heimdall/internal/rules/mechanisms/subject"
	"github.com/dadrus/heimdall/internal/rules/rule"
	"github.com/dadrus/heimdall/internal/zzverif/vf"
)

// ---- stub mechanisms ---------------------------------------------------------

type c03Authn struct{}

// what the pipeline saw of the request currently being served (set by the authenticator)
var c03Seen *[][2]string //nolint:gochecknoglobals

func (m *c03Authn) ID() string                     { return "a" }
func (m *c03Authn) IsFallbackOnErrorAllowed() bool { return false }
func (m *c03Authn) ContinueOnError() bool          { return false }
func (m *c03Authn) Execute(ctx heimdall.Context) (*subject.Subject, error) {
	seen := [][2]string{}
	for k, v := range ctx.Request().URL.Captures {
		seen = append(seen, [2]string{k, v})
	}

	c03Seen = &seen

	return &subject.Subject{ID: "x"}, nil
}
func (m *c03Authn) WithConfig(map[string]any) (authenticators.Authenticator, error) { return m, nil }

type c03Factory struct{}

var errC03No = errors.New("no such mechanism")

func (c03Factory) CreateAuthenticator(_, _ string, _ config.MechanismConfig) (authenticators.Authenticator, error) {
	return &c03Authn{}, nil
}

func (c03Factory) CreateAuthorizer(_, _ string, _ config.MechanismConfig) (authorizers.Authorizer, error) {
	return nil, errC03No
}

func (c03Factory) CreateContextualizer(_, _ string, _ config.MechanismConfig) (contextualizers.Contextualizer, error) {
	return nil, errC03No
}

func (c03Factory) CreateFinalizer(_, _ string, _ config.MechanismConfig) (finalizers.Finalizer, error) {
	return nil, errC03No
}

func (c03Factory) CreateErrorHandler(_, _ string, _ config.MechanismConfig) (errorhandlers.ErrorHandler, error) {
	return nil, errC03No
}

// ---- inputs ------------------------------------------------------------------

type c03TM struct {
	Type  string `json:"type"`
	Value string `json:"value"`
}

type c03Param struct {
	Name string `json:"name"`
	c03TM
}

type c03Route struct {
	Path   string     `json:"path"`
	Params []c03Param `json:"params,omitempty"`
}

type c03Rule struct {
	Scheme  string     `json:"scheme,omitempty"`
	Methods []string   `json:"methods,omitempty"`
	Hosts   []c03TM    `json:"hosts,omitempty"`
	Routes  []c03Route `json:"routes"`
	Slash   string     `json:"slash"` // "" (= off), off, on, no_decode
	Bt      bool       `json:"bt"`
	// only for cases with a history: the rule id ("" = r<index>; versions of one rule share it) and the rule set
	ID  string `json:"id,omitempty"`
	Src int    `json:"src,omitempty"`
}

// one rule-set operation of a history: add = AddRuleSet, update = UpdateRuleSet(s<Src>), delete = DeleteRuleSet(s<Src>);
// Rules = indices into the case's rule table (which holds every version of every rule)
type c03HOp struct {
	Kind  string `json:"kind"`
	Src   int    `json:"src"`
	Rules []int  `json:"rules,omitempty"`
}

// Style: http (request line), fwd (X-Forwarded-Uri/-Method/-Host/-Proto), envoy (CheckRequest),
// direct (heimdall.Request built with url.Parse, no entry point: the only way to a view without RawPath)
type c03Req struct {
	Style  string `json:"style"`
	Method string `json:"method"`
	Scheme string `json:"scheme"`
	Host   string `json:"host"`
	Target string `json:"target"` // raw (percent-encoded) path
}

type c03Case struct {
	Rules []c03Rule `json:"rules"`
	Reqs  []c03Req  `json:"reqs"`
	// "json": the rule set goes as text through the real config.ParseRules (decoder + validator) and every rule
	// through DeepCopy before CreateRule sees it; "" / "struct": config structs built by the driver
	Via string `json:"via,omitempty"`
	// > 0: the first Split rules are one rule set (source src), the others a second one (source src2) added by a
	// second AddRuleSet - on a clone of the non-empty tree, under the one-source-per-node constraint; the second
	// may be refused, the first then stays loaded
	Split int `json:"split,omitempty"`
	// non-empty: the repository is brought into its state by this history of AddRuleSet / UpdateRuleSet /
	// DeleteRuleSet calls (each on a clone of the tree, all-or-nothing) before the requests are served: the tree has
	// then gone through Tree.Delete (deleteChild merges) as well as Tree.Add (prefix splits)
	Hist []c03HOp `json:"hist,omitempty"`
}

// what the rule set validator accepts, as far as the conditions of C03 are concerned (internal/rules/config:
// scheme oneof http https; methods, host and parameter values required; types oneof exact glob regex;
// parameter name required and not "*"; allow_encoded_slashes oneof off on no_decode)
func c03ParserAccepts(c c03Case) bool {
	okType := func(t string) bool { return t == "exact" || t == "glob" || t == "regex" }

	for _, r := range c.Rules {
		if r.Scheme != "" && r.Scheme != "http" && r.Scheme != "https" {
			return false
		}

		for _, m := range r.Methods {
			if m == "" {
				return false
			}
		}

		for _, h := range r.Hosts {
			if !okType(h.Type) || h.Value == "" {
				return false
			}
		}

		for _, rt := range r.Routes {
			if rt.Path == "" {
				return false
			}

			for _, p := range rt.Params {
				if !okType(p.Type) || p.Value == "" || p.Name == "" || p.Name == "*" {
					return false
				}
			}
		}
	}

	return len(c.Rules) > 0
}

// the rule set as a document a provider would load
func c03RuleSetText(c c03Case) []byte {
	type m = map[string]any

	var rules []m

	for i, r := range c.Rules {
		match := m{"backtracking_enabled": r.Bt}
		if r.Scheme != "" {
			match["scheme"] = r.Scheme
		}

		if len(r.Methods) > 0 {
			match["methods"] = r.Methods
		}

		var hosts []m
		for _, h := range r.Hosts {
			hosts = append(hosts, m{"type": h.Type, "value": h.Value})
		}

		if hosts != nil {
			match["hosts"] = hosts
		}

		var routes []m

		for _, rt := range r.Routes {
			route := m{"path": rt.Path}

			var ps []m
			for _, p := range rt.Params {
				ps = append(ps, m{"name": p.Name, "type": p.Type, "value": p.Value})
			}

			if ps != nil {
				route["path_params"] = ps
			}

			routes = append(routes, route)
		}

		match["routes"] = routes

		rule := m{"id": fmt.Sprintf("r%d", i), "match": match, "execute": []m{{"authenticator": "a"}}}
		if r.Slash != "" {
			rule["allow_encoded_slashes"] = r.Slash
		}

		rules = append(rules, rule)
	}

	text, err := json.Marshal(m{"version": "1alpha4", "rules": rules})
	if err != nil {
		panic(err)
	}

	return text
}

// ---- observation ---------------------------------------------------------------

type c03Call struct {
	Vid  int      `json:"vid"`
	Keys []string `json:"keys"`
	Vals []string `json:"vals"`
	Res  string   `json:"res"` // yes no panic
}

type c03View struct {
	Method  string `json:"method"`
	Scheme  string `json:"scheme"`
	Host    string `json:"host"`
	Path    string `json:"path"`
	RawPath string `json:"raw_path"`
}

type c03ReqObs struct {
	View     c03View     `json:"view"`
	Calls    []c03Call   `json:"calls"`
	Result   string      `json:"result"` // rule none panic
	Rule     int         `json:"rule"`
	Caps     [][2]string `json:"caps,omitempty"`
	Rejected bool        `json:"rejected"` // Execute refused the request for an encoded slash
	Err      string      `json:"err,omitempty"`
	// the same request served by an instance of the rule set that has seen no request before
	Fresh *c03FreshObs `json:"fresh,omitempty"`
}

type c03FreshObs struct {
	Calls    []c03Call   `json:"calls"`
	Result   string      `json:"result"`
	Rule     int         `json:"rule"`
	Caps     [][2]string `json:"caps,omitempty"`
	Rejected bool        `json:"rejected"`
}

type c03Oracle struct {
	Host bool   `json:"host"`
	Type string `json:"type"`
	Pat  string `json:"pat"`
	Val  string `json:"val"`
	Ans  bool   `json:"ans"`
}

type c03Obs struct {
	Load     string            `json:"load"` // create_failed add_failed loaded
	Err      string            `json:"err,omitempty"`
	Compiles map[string]bool   `json:"compiles,omitempty"`
	Oracle   []c03Oracle       `json:"oracle,omitempty"`
	Reqs     []c03ReqObs       `json:"reqs,omitempty"`
	Skipped  int               `json:"skipped,omitempty"` // requests the HTTP server itself refuses
	OpOK     []bool            `json:"op_ok,omitempty"`   // history: which operations the repository accepted
	Hash     []int             `json:"hash,omitempty"`    // history: equality classes of the created rules' hashes
	Extra    map[string]string `json:"-"`
}

// ---- recorder between the tree and the real route ----------------------------------

type c03RecRule struct {
	*ruleImpl
	wrapped []rule.Route
}

func (r *c03RecRule) Routes() []rule.Route { return r.wrapped }

// ruleImpl.EqualTo asserts that the other rule is a *ruleImpl; UpdateRuleSet hands it the wrappers
func (r *c03RecRule) EqualTo(other rule.Rule) bool {
	if o, ok := other.(*c03RecRule); ok {
		other = o.ruleImpl
	}

	return r.ruleImpl.EqualTo(other)
}

type c03RecRoute struct {
	inner rule.Route
	vid   int
	log   *[]c03Call
}

func (r *c03RecRoute) Path() string    { return r.inner.Path() }
func (r *c03RecRoute) Rule() rule.Rule { return r.inner.Rule() }

func (r *c03RecRoute) Matches(ctx heimdall.Context, keys, values []string) (res bool) {
	c := c03Call{Vid: r.vid, Keys: append([]string{}, keys...), Vals: append([]string{}, values...), Res: "panic"}

	defer func() { *r.log = append(*r.log, c) }()

	res = r.inner.Matches(ctx, keys, values)
	c.Res = map[bool]string{true: "yes", false: "no"}[res]

	return res
}

// ---- request contexts ----------------------------------------------------------------

// the real request contexts, used as they are: FindRule, Execute and the pipeline each call
// ctx.Request() themselves, so a context that hands out a fresh view per call loses the captures
// a request view handed to the rules directly, as the repository's own tests and any other caller of
// rule.Repository do: url.Parse sets RawPath only if the text is not the default encoding of the path, so
// "/x/%41" gives RawPath "/x/%41" while "/x/%2541" gives Path "/x/%41" and NO RawPath
type c03DirectCtx struct {
	heimdall.Context
	req *heimdall.Request
}

func (c *c03DirectCtx) Request() *heimdall.Request  { return c.req }
func (c *c03DirectCtx) AppContext() context.Context { return context.Background() }

func c03Context(q c03Req) (heimdall.Context, bool) {
	switch q.Style {
	case "direct":
		uri, err := url.Parse(q.Scheme + "://" + q.Host + q.Target)
		if err != nil || uri.Host != q.Host {
			return nil, false
		}

		return &c03DirectCtx{req: &heimdall.Request{Method: q.Method, URL: &heimdall.URL{URL: *uri}}}, true
	case "envoy":
		hr := &envoy_auth.AttributeContext_HttpRequest{Method: q.Method, Scheme: q.Scheme, Host: q.Host, Path: q.Target}
		rc := grpcv3.NewRequestContext(context.Background(), &envoy_auth.CheckRequest{
			Attributes: &envoy_auth.AttributeContext{Request: &envoy_auth.AttributeContext_Request{Http: hr}},
		})

		return rc, true
	case "fwd":
		raw := "GET /decision HTTP/1.1\r\nHost: heimdall.local\r\nX-Forwarded-Method: " + q.Method +
			"\r\nX-Forwarded-Proto: " + q.Scheme + "\r\nX-Forwarded-Host: " + q.Host +
			"\r\nX-Forwarded-Uri: " + q.Target + "\r\n\r\n"

		hr, err := http.ReadRequest(bufio.NewReader(strings.NewReader(raw)))
		if err != nil {
			return nil, false
		}

		if _, err = url.Parse(q.Target); err != nil { // extractURL would silently fall back to /decision
			return nil, false
		}

		return requestcontext.New(hr), true
	default:
		raw := q.Method + " " + q.Target + " HTTP/1.1\r\nHost: " + q.Host + "\r\nX-Forwarded-Proto: " + q.Scheme + "\r\n\r\n"

		hr, err := http.ReadRequest(bufio.NewReader(strings.NewReader(raw)))
		if err != nil {
			return nil, false
		}

		return requestcontext.New(hr), true
	}
}

// ---- running a case ---------------------------------------------------------------------

func c03Slash(s string) config2.EncodedSlashesHandling {
	switch s {
	case "on":
		return config2.EncodedSlashesOn
	case "no_decode":
		return config2.EncodedSlashesOnNoDecode
	case "off":
		return config2.EncodedSlashesOff
	}

	return ""
}

// the engines themselves, not heimdall's wrappers around them: gobwas/glob with the documented
// separator ('.' for hosts, '/' for path parameters) and Go's regexp (unanchored MatchString)
func c03Compile(host bool, tm c03TM) (func(string) bool, bool) {
	switch tm.Type {
	case "glob":
		g, err := glob.Compile(tm.Value, map[bool]rune{true: '.', false: '/'}[host])
		if err != nil {
			return nil, false
		}

		return g.Match, true
	case "regex":
		re, err := regexp.Compile(tm.Value)
		if err != nil {
			return nil, false
		}

		return re.MatchString, true
	default:
		return nil, false
	}
}

// the driver's own percent-decoder: every valid %XX is decoded, except that an encoded slash is kept
// in the canonical spelling %2F when keep is set; ok=false if the text is not validly encoded
func c03Decode(s string, keep bool) (string, bool) {
	var sb strings.Builder

	hex := func(c byte) int {
		switch {
		case c >= '0' && c <= '9':
			return int(c - '0')
		case c >= 'A' && c <= 'F':
			return int(c-'A') + 10
		case c >= 'a' && c <= 'f':
			return int(c-'a') + 10
		}

		return -1
	}

	for i := 0; i < len(s); i++ {
		if s[i] != '%' {
			sb.WriteByte(s[i])

			continue
		}

		if i+2 >= len(s) || hex(s[i+1]) < 0 || hex(s[i+2]) < 0 {
			return "", false
		}

		b := byte(hex(s[i+1])<<4 | hex(s[i+2]))
		if b == '/' && keep {
			sb.WriteString("%2F")
		} else {
			sb.WriteByte(b)
		}

		i += 2
	}

	return sb.String(), true
}

// candidate values a path-parameter expression can be asked about: every segment
// and every rest of the lookup path, raw and in both decoded forms
func c03Candidates(lp string) []string {
	var out []string

	add := func(s string) {
		out = append(out, s, "")

		if d, ok := c03Decode(s, false); ok {
			out = append(out, d)
		}

		if d, ok := c03Decode(s, true); ok {
			out = append(out, d)
		}
	}

	segs := strings.Split(lp, "/")
	for i, s := range segs {
		add(s)
		add(strings.Join(segs[i:], "/"))
	}

	return out
}

// one instance of the rule set: the real factory, the real rules (wrapped by the recorder), the real repository
type c03Instance struct {
	repo    rule.Repository
	log     *[]c03Call
	ruleIdx map[rule.Rule]int // created rule -> index in the case's rule table
	opOK    []bool
	hash    []int
}

// c03Build creates the rules of the case anew (new matcher instances) and loads them into a new repository
func c03Build(c c03Case) (inst *c03Instance, load, errText string) {
	f, err := NewRuleFactory(c03Factory{}, &config.Configuration{}, config.DecisionMode, zerolog.Nop())
	if err != nil {
		panic(err)
	}

	repo := newRepository(f)
	log := &[]c03Call{}

	var (
		rules []rule.Rule
		vid   int
	)

	var parsed *config2.RuleSet

	ruleIdx := map[rule.Rule]int{}

	var (
		hashes  [][]byte
		hashCls []int
	)

	if c.Via == "json" && len(c.Hist) == 0 {
		if parsed, err = config2.ParseRules("application/json", strings.NewReader(string(c03RuleSetText(c))), false); err != nil {
			return nil, "create_failed", "parse: " + err.Error()
		}

		if len(parsed.Rules) != len(c.Rules) {
			return nil, "create_failed", "parse: rules lost"
		}
	}

	for i, r := range c.Rules {
		bt := r.Bt
		id := r.ID
		if id == "" {
			id = fmt.Sprintf("r%d", i)
		}

		rc := config2.Rule{
			ID:                     id,
			EncodedSlashesHandling: c03Slash(r.Slash),
			Matcher: config2.Matcher{
				Scheme: r.Scheme, Methods: append([]string(nil), r.Methods...), BacktrackingEnabled: &bt,
			},
			Execute: []config.MechanismConfig{{"authenticator": "a"}},
		}

		for _, h := range r.Hosts {
			rc.Matcher.Hosts = append(rc.Matcher.Hosts, config2.HostMatcher{Type: h.Type, Value: h.Value})
		}

		for _, rt := range r.Routes {
			cr := config2.Route{Path: rt.Path}
			for _, p := range rt.Params {
				cr.PathParams = append(cr.PathParams, config2.ParameterMatcher{Name: p.Name, Type: p.Type, Value: p.Value})
			}

			rc.Matcher.Routes = append(rc.Matcher.Routes, cr)
		}

		if parsed != nil { // what the decoder made of the document, copied as the kubernetes provider copies it
			rc = *parsed.Rules[i].DeepCopy()
		}

		src := "src"
		if c.Split > 0 && i >= c.Split {
			src = "src2"
		}

		if len(c.Hist) > 0 {
			src = fmt.Sprintf("s%d", r.Src)
		}

		created, err := f.CreateRule("1alpha4", src, rc)
		if err != nil {
			return nil, "create_failed", err.Error()
		}

		ri := created.(*ruleImpl) //nolint:forcetypeassert
		wr := &c03RecRule{ruleImpl: ri}
		ruleIdx[ri] = i

		cls := -1

		for j, h := range hashes {
			if string(h) == string(ri.hash) {
				cls = j
			}
		}

		if cls < 0 {
			cls = len(hashes)
			hashes = append(hashes, ri.hash)
		}

		hashCls = append(hashCls, cls)

		for _, rt := range ri.Routes() {
			wr.wrapped = append(wr.wrapped, &c03RecRoute{inner: rt, vid: vid, log: log})
			vid++
		}

		rules = append(rules, wr)
	}

	if len(c.Hist) > 0 {
		inst = &c03Instance{repo: repo, log: log, ruleIdx: ruleIdx, hash: hashCls}

		for _, op := range c.Hist {
			var set []rule.Rule
			for _, i := range op.Rules {
				set = append(set, rules[i])
			}

			var err error

			switch op.Kind {
			case "add":
				err = repo.AddRuleSet(fmt.Sprintf("s%d", op.Src), set)
			case "update":
				err = repo.UpdateRuleSet(fmt.Sprintf("s%d", op.Src), set)
			default:
				err = repo.DeleteRuleSet(fmt.Sprintf("s%d", op.Src))
			}

			inst.opOK = append(inst.opOK, err == nil)
		}

		return inst, "loaded", ""
	}

	first := rules
	if c.Split > 0 && c.Split < len(rules) {
		first = rules[:c.Split]
	}

	if err := repo.AddRuleSet("src", first); err != nil {
		return nil, "add_failed", err.Error()
	}

	if len(first) < len(rules) {
		if err := repo.AddRuleSet("src2", rules[len(first):]); err != nil {
			errText = "second rule set refused: " + err.Error()
		}
	}

	return &c03Instance{repo: repo, log: log, ruleIdx: ruleIdx, hash: hashCls}, "loaded", errText
}

// c03Serve looks the request up in the instance and executes the rule found
func c03Serve(inst *c03Instance, q c03Req) (ro c03ReqObs, ok bool) {
	ctx, ok := c03Context(q)
	if !ok {
		return ro, false
	}

	req := ctx.Request()
	ro = c03ReqObs{View: c03View{req.Method, req.URL.Scheme, req.URL.Host, req.URL.Path, req.URL.RawPath}}
	*inst.log = nil

	func() {
		defer func() {
			if p := recover(); p != nil {
				ro.Result, ro.Err = "panic", fmt.Sprint(p)
			}
		}()

		found, err := inst.repo.FindRule(ctx)
		if err != nil {
			ro.Result = "none"

			return
		}

		ro.Result = "rule"
		if i, ok := inst.ruleIdx[found]; ok {
			ro.Rule = i
		} else {
			fmt.Sscanf(found.ID(), "r%d", &ro.Rule)
		}

		c03Seen = nil

		if _, err = found.Execute(ctx); err != nil {
			if !errors.Is(err, heimdall.ErrArgument) {
				panic(err)
			}

			ro.Rejected = true
		}

		if c03Seen != nil { // what the pipeline saw
			ro.Caps = *c03Seen
		} else { // the pipeline was not reached (request refused for an encoded slash)
			for k, v := range ctx.Request().URL.Captures {
				ro.Caps = append(ro.Caps, [2]string{k, v})
			}
		}

		sort.Slice(ro.Caps, func(i, j int) bool { return ro.Caps[i][0] < ro.Caps[j][0] })
	}()

	ro.Calls = *inst.log

	return ro, true
}

func c03Run(c c03Case) (obs c03Obs) {
	obs.Compiles = map[string]bool{}

	inst, load, errText := c03Build(c)
	obs.Load, obs.Err = load, errText

	if inst == nil {
		return obs
	}

	obs.OpOK, obs.Hash = inst.opOK, inst.hash

	seen := map[string]bool{}
	ask := func(host bool, tm c03TM, vals []string) {
		m, ok := c03Compile(host, tm)
		if !ok {
			return
		}

		for _, v := range vals {
			k := fmt.Sprint(host, tm.Type, "\x00", tm.Value, "\x00", v)
			if seen[k] {
				continue
			}

			seen[k] = true
			obs.Oracle = append(obs.Oracle, c03Oracle{host, tm.Type, tm.Value, v, m(v)})
		}
	}

	// ALL requests of the case go, one after the other, through the SAME instance (same matcher objects, same
	// repository); each is additionally served by an instance built anew, which has seen no request before
	for _, q := range c.Reqs {
		ro, ok := c03Serve(inst, q)
		if !ok {
			obs.Skipped++

			continue
		}

		fresh, _, _ := c03Build(c)
		if fresh == nil {
			panic("the rule set of the case could not be built a second time")
		}

		fo, _ := c03Serve(fresh, q)
		ro.Fresh = &c03FreshObs{Calls: fo.Calls, Result: fo.Result, Rule: fo.Rule, Caps: fo.Caps, Rejected: fo.Rejected}

		lp := ro.View.Path
		if ro.View.RawPath != "" {
			lp = ro.View.RawPath
		}

		cand := c03Candidates(lp)

		for _, r := range c.Rules {
			for _, h := range r.Hosts {
				ask(true, h, []string{ro.View.Host})
			}

			for _, rt := range r.Routes {
				for _, p := range rt.Params {
					ask(false, p.c03TM, cand)
				}
			}
		}

		obs.Reqs = append(obs.Reqs, ro)
	}

	for _, r := range c.Rules {
		for _, h := range r.Hosts {
			_, ok := c03Compile(true, h)
			obs.Compiles["h:"+h.Type+":"+h.Value] = ok
		}

		for _, rt := range r.Routes {
			for _, p := range rt.Params {
				_, ok := c03Compile(false, p.c03TM)
				obs.Compiles["p:"+p.Type+":"+p.Value] = ok
			}
		}
	}

	return obs
}

// ---- rendering for Coq ------------------------------------------------------------------

func c03CoqType(t string) string {
	switch t {
	case "exact":
		return "TExact"
	case "glob":
		return "TGlob"
	case "regex":
		return "TRegex"
	}

	return "TOther"
}

func c03CoqTM(host bool, tm c03TM) string {
	_, ok := c03Compile(host, tm)

	return vf.CoqApp("tmd", c03CoqType(tm.Type), vf.CoqStr(tm.Value), vf.CoqBool(ok))
}

func c03CoqSlash(s string) string {
	switch s {
	case "on":
		return "SOn"
	case "no_decode":
		return "SNoDecode"
	}

	return "SOff"
}

func c03CoqRule(r c03Rule) string {
	return vf.CoqApp("rul", vf.CoqStr(r.Scheme), vf.CoqStrs(r.Methods),
		vf.CoqListOf(r.Hosts, func(h c03TM) string { return c03CoqTM(true, h) }),
		vf.CoqListOf(r.Routes, func(rt c03Route) string {
			return vf.CoqApp("rte", vf.CoqStr(rt.Path), vf.CoqListOf(rt.Params, func(p c03Param) string {
				return vf.CoqApp("pm", vf.CoqStr(p.Name), c03CoqTM(false, p.c03TM))
			}))
		}),
		c03CoqSlash(r.Slash), vf.CoqBool(r.Bt))
}

func c03CoqCallsOut(o c03ReqObs) (calls, out string) {
	calls = vf.CoqListOf(o.Calls, func(c c03Call) string {
		return vf.CoqApp("cl", vf.CoqNat(c.Vid), vf.CoqStrs(c.Keys), vf.CoqStrs(c.Vals),
			map[string]string{"yes": "MYes", "no": "MNo", "panic": "MPanic"}[c.Res])
	})

	switch o.Result {
	case "panic":
		out = "OPanic"
	case "none":
		out = "ONone"
	default:
		out = vf.CoqApp("ORule", vf.CoqNat(o.Rule), vf.CoqListOf(o.Caps, func(kv [2]string) string {
			return vf.CoqPair(vf.CoqStr(kv[0]), vf.CoqStr(kv[1]))
		}), vf.CoqBool(o.Rejected))
	}

	return calls, out
}

func c03CoqReq(o c03ReqObs) string {
	q := vf.CoqApp("rq", vf.CoqStr(o.View.Method), vf.CoqStr(o.View.Scheme), vf.CoqStr(o.View.Host),
		vf.CoqStr(o.View.Path), vf.CoqStr(o.View.RawPath))
	calls, out := c03CoqCallsOut(o)

	fresh := "None"
	if o.Fresh != nil {
		fcalls, fout := c03CoqCallsOut(c03ReqObs{Calls: o.Fresh.Calls, Result: o.Fresh.Result, Rule: o.Fresh.Rule,
			Caps: o.Fresh.Caps, Rejected: o.Fresh.Rejected})
		fresh = "(Some " + vf.CoqPair(fcalls, fout) + ")"
	}

	return vf.CoqApp("ro", q, calls, out, fresh)
}

func c03Coq(c c03Case, o c03Obs) string {
	load := map[string]string{"create_failed": "OCreateFailed", "add_failed": "OAddFailed", "loaded": "OLoaded"}[o.Load]

	split := len(c.Rules)
	if c.Split > 0 && c.Split < split {
		split = c.Split
	}

	if len(c.Hist) > 0 {
		ids := map[string]int{}
		metas := make([]string, 0, len(c.Rules))

		for i, r := range c.Rules {
			id := r.ID
			if id == "" {
				id = fmt.Sprintf("r%d", i)
			}

			if _, ok := ids[id]; !ok {
				ids[id] = len(ids)
			}

			h := i
			if i < len(o.Hash) {
				h = o.Hash[i]
			}

			metas = append(metas, vf.CoqApp("rmt", vf.CoqNat(r.Src), vf.CoqNat(ids[id]), vf.CoqNat(h)))
		}

		hops := make([]string, 0, len(c.Hist))

		for k, op := range c.Hist {
			var h string

			switch op.Kind {
			case "add":
				h = vf.CoqApp("HAdd", vf.CoqListOf(op.Rules, vf.CoqNat))
			case "update":
				h = vf.CoqApp("HUpd", vf.CoqNat(op.Src), vf.CoqListOf(op.Rules, vf.CoqNat))
			default:
				h = vf.CoqApp("HDel", vf.CoqNat(op.Src))
			}

			hops = append(hops, vf.CoqPair(h, vf.CoqBool(k < len(o.OpOK) && o.OpOK[k])))
		}

		return vf.CoqApp("csh", vf.CoqListOf(c.Rules, c03CoqRule),
			"["+strings.Join(metas, "; ")+"]", "["+strings.Join(hops, "; ")+"]",
			vf.CoqListOf(o.Oracle, func(e c03Oracle) string {
				return vf.CoqApp("oe", vf.CoqBool(e.Host), c03CoqType(e.Type), vf.CoqStr(e.Pat), vf.CoqStr(e.Val), vf.CoqBool(e.Ans))
			}),
			load, vf.CoqListOf(o.Reqs, c03CoqReq))
	}

	return vf.CoqApp("cs", vf.CoqListOf(c.Rules, c03CoqRule), vf.CoqNat(split),
		vf.CoqListOf(o.Oracle, func(e c03Oracle) string {
			return vf.CoqApp("oe", vf.CoqBool(e.Host), c03CoqType(e.Type), vf.CoqStr(e.Pat), vf.CoqStr(e.Val), vf.CoqBool(e.Ans))
		}),
		load, vf.CoqListOf(o.Reqs, c03CoqReq))
}

// ---- generator ---------------------------------------------------------------------------------

var (
	c03Lits      = []string{"a", "b", "ab", "ac", "x", "f", "a:b", `\:y`, `\*z`, `\\w`, "a*"}
	c03WildNames = []string{"a", "b", "x", "id", "*", "ID", "A"} // incl. names differing only by case
	c03FreeNames = []string{"*", "c", "rest", "x"}
	c03Vals      = []string{
		"a", "b", "ab", "ac", "x", "1", "f", "c", "A", "a%2Fb", "a%2fb", "%41", "%61", "a%20b", "%5Bid%5D", "[id]",
		"a%2F%2fb", "%2F", "a%2F", "%24x", "a%252Fb", "%C3%A9", ":y", "*z", "a:b", "a$b", "$$$escaped-slash$$$",
		"%24$$escaped-slash$$$", "x%2f%41",
		// bytes that only a query decoder would touch, a semicolon, raw and encoded non-ASCII
		"a+b", "%2B", "a%2Bb", "+", "a;b", "\xc3\xa9", "%c3%a9x", "%7E~",
	}
	c03BadVals   = []string{"%zz", "%4", "a%", "%2"}
	c03RuleMeths = []string{
		"GET", "POST", "PUT", "HEAD", "TRACE", "ALL", "!GET", "!POST", "!TRACE", "!OPTIONS", "FOO", "!FOO", "!!GET",
		"!ALL", "get", "DELETE", "!", "",
	}
	c03ReqMeths = []string{"GET", "POST", "PUT", "HEAD", "TRACE", "OPTIONS", "DELETE", "PATCH", "FOO", "!GET", "ALL", "get"}
	c03HostTMs  = []c03TM{
		{"exact", "a.com"}, {"exact", "b.com"}, {"exact", "a.com:8080"}, {"glob", "*.com"}, {"glob", "a.*"}, {"glob", "**"},
		{"glob", "{a,b}.com"}, {"regex", `^a\.`}, {"regex", "com$"}, {"regex", ".*"}, {"regex", "^b"}, {"exact", "c.org"},
		// globs whose answer depends on '.' being the separator for hosts
		{"glob", "*"}, {"glob", "a*"}, {"glob", "*com"},
	}
	c03BadTMs   = []c03TM{{"glob", "[a"}, {"glob", ""}, {"regex", "("}, {"regex", ""}, {"prefix", "a"}, {"", "a"}}
	c03ReqHosts = []string{"a.com", "b.com", "c.org", "a.com:8080", "A.com"}
	c03ParamTMs = []c03TM{
		{"exact", "a"}, {"exact", "b"}, {"exact", "1"}, {"exact", "a/b"}, {"exact", "A"}, {"exact", "a b"}, {"exact", "[id]"},
		{"exact", "a%2Fb"}, {"exact", "%41"}, {"exact", "x/A"}, {"exact", "b/c"}, {"exact", "a+b"}, {"exact", "a b"}, {"exact", "+"},
		{"glob", "*"}, {"glob", "**"}, {"glob", "a*"}, {"glob", "[a-z]"}, {"glob", "{a,b,1}"}, {"glob", "?"}, {"glob", "*/*"},
		{"regex", "^[a-z]+$"}, {"regex", "^a"}, {"regex", "/"}, {"regex", "^[^/]+$"}, {"regex", ".*"}, {"regex", "^A$"},
		{"regex", "%"}, {"regex", "^(a|b|1)$"}, {"regex", `\+`}, {"regex", "^a$"}, {"glob", "a?b"},
	}
)

type c03Tok struct {
	kind int // 0 literal 1 single wildcard 2 free wildcard
	text string
}

func c03GenExpr(r *vf.Rand) []c03Tok {
	var ts []c03Tok

	n := r.Range(1, 3)
	if r.Chance(8) { // long expressions: more captures than the tree's initial capacity of 3
		n = r.Range(4, 5)
	}

	for i := 0; i < n; i++ {
		if r.Chance(55) {
			ts = append(ts, c03Tok{0, vf.Pick(r, c03Lits[:6+r.Intn(len(c03Lits)-5)])})
		} else {
			ts = append(ts, c03Tok{1, vf.Pick(r, c03WildNames)})
		}
	}

	if r.Chance(35) {
		ts = append(ts, c03Tok{2, vf.Pick(r, c03FreeNames)})
	}

	return ts
}

func c03Mutate(r *vf.Rand, ts []c03Tok) []c03Tok {
	out := append([]c03Tok(nil), ts...)

	switch r.Intn(5) {
	case 0: // rename a wildcard
		for i := range out {
			if out[i].kind != 0 && r.Bool() {
				if out[i].kind == 1 {
					out[i].text = vf.Pick(r, c03WildNames)
				} else {
					out[i].text = vf.Pick(r, c03FreeNames)
				}
			}
		}
	case 1: // replace the last token
		last := len(out) - 1
		switch r.Intn(3) {
		case 0:
			out[last] = c03Tok{0, vf.Pick(r, c03Lits)}
		case 1:
			out[last] = c03Tok{1, vf.Pick(r, c03WildNames)}
		default:
			out[last] = c03Tok{2, vf.Pick(r, c03FreeNames)}
		}
	case 2: // extend below
		if out[len(out)-1].kind != 2 {
			if r.Bool() {
				out = append(out, c03Tok{0, vf.Pick(r, c03Lits)})
			} else {
				out = append(out, c03Tok{1 + r.Intn(2), vf.Pick(r, c03FreeNames)})
			}
		}
	case 3: // literal <-> wildcard somewhere
		i := r.Intn(len(out))
		if out[i].kind == 0 {
			out[i] = c03Tok{1, vf.Pick(r, c03WildNames)}
		} else if out[i].kind == 1 {
			out[i] = c03Tok{0, vf.Pick(r, c03Lits)}
		}
	default: // shorten
		if len(out) > 1 {
			out = out[:len(out)-1]
		}
	}

	return out
}

func c03ExprString(r *vf.Rand, ts []c03Tok) string {
	var sb strings.Builder

	for _, t := range ts {
		sb.WriteByte('/')

		switch t.kind {
		case 1:
			sb.WriteString(":" + t.text)
		case 2:
			sb.WriteString("*" + t.text)
		default:
			sb.WriteString(t.text)
		}
	}

	s := sb.String()

	switch x := r.Intn(100); {
	case x < 3:
		s += "/"
	case x < 5:
		s += "/" + vf.Pick(r, c03Lits) // possibly after a free wildcard: invalid
	case x < 6:
		s = strings.Replace(s, "/", "//", 1)
	}

	return s
}

func c03Names(ts []c03Tok) []string {
	var out []string

	for _, t := range ts {
		if t.kind != 0 {
			out = append(out, t.text)
		}
	}

	return out
}

func c03GenMethods(r *vf.Rand) []string {
	switch x := r.Intn(100); {
	case x < 35:
		return nil
	case x < 50:
		return []string{vf.Pick(r, []string{"GET", "POST", "PUT"})}
	case x < 62: // the documented form: ALL plus exclusions
		ms := []string{"ALL"}
		for i, n := 0, r.Intn(3); i < n; i++ {
			ms = append(ms, "!"+vf.Pick(r, []string{"GET", "POST", "TRACE", "OPTIONS", "PUT"}))
		}

		return ms
	case x < 63: // exclusions only: a configuration error since the repair of C03-F4
		ms := []string{"!" + vf.Pick(r, []string{"GET", "POST", "PUT"})}
		if r.Bool() {
			ms = append(ms, "!"+vf.Pick(r, []string{"GET", "POST", "TRACE"}))
		}

		return ms
	}

	var ms []string

	pool := c03RuleMeths
	if r.Chance(92) {
		pool = pool[:len(pool)-1] // without the empty string
	}

	for i, n := 0, r.Range(1, 5); i < n; i++ {
		ms = append(ms, vf.Pick(r, pool))
	}

	if r.Chance(93) { // mostly with something the exclusions can be taken from
		at := r.Intn(len(ms) + 1)
		ms = append(ms[:at], append([]string{vf.Pick(r, []string{"ALL", "GET", "POST", "PUT", "HEAD"})}, ms[at:]...)...)
	}

	return ms
}

func c03GenRule(r *vf.Rand, exprs *[][]c03Tok, bad int) c03Rule {
	rl := c03Rule{Bt: r.Chance(70), Slash: vf.Pick(r, []string{"", "off", "on", "no_decode", "on", "no_decode"})}

	switch x := r.Intn(100); {
	case x < 60:
	case x < 78:
		rl.Scheme = "http"
	case x < 96:
		rl.Scheme = "https"
	default:
		rl.Scheme = "ftp"
	}

	rl.Methods = c03GenMethods(r)

	if r.Chance(45) {
		for i, n := 0, vf.Pick(r, []int{1, 1, 1, 2, 2, 3}); i < n; i++ {
			if r.Intn(100) < bad {
				rl.Hosts = append(rl.Hosts, vf.Pick(r, c03BadTMs))
			} else {
				rl.Hosts = append(rl.Hosts, vf.Pick(r, c03HostTMs))
			}
		}
	}

	for i, n := 0, vf.Pick(r, []int{1, 1, 1, 2}); i < n; i++ {
		var ts []c03Tok
		if len(*exprs) > 0 && r.Chance(60) {
			ts = c03Mutate(r, vf.Pick(r, *exprs))
		} else {
			ts = c03GenExpr(r)
		}

		*exprs = append(*exprs, ts)
		rt := c03Route{Path: c03ExprString(r, ts)}

		names := c03Names(ts)
		if len(names) > 0 && r.Chance(50) || r.Chance(4) {
			for j, m := 0, vf.Pick(r, []int{1, 1, 2}); j < m; j++ {
				p := c03Param{}

				if len(names) > 0 && r.Chance(93) {
					p.Name = names[r.Intn(len(names))]
					if ts[len(ts)-1].kind == 2 && r.Chance(50) {
						p.Name = names[len(names)-1] // the free wildcard
					}
				} else {
					p.Name = vf.Pick(r, []string{"nope", "a", "x"})
				}

				if r.Intn(100) < bad {
					p.c03TM = vf.Pick(r, c03BadTMs)
				} else {
					p.c03TM = vf.Pick(r, c03ParamTMs)
				}

				rt.Params = append(rt.Params, p)
			}
		}

		rl.Routes = append(rl.Routes, rt)
	}

	return rl
}

func c03Unesc(lit string) string {
	if len(lit) >= 2 && lit[0] == '\\' && (lit[1] == '*' || lit[1] == ':' || lit[1] == '\\') {
		return lit[1:]
	}

	return lit
}

const c03Hex = "0123456789ABCDEF0123456789abcdef"

// percent-encode some bytes that need no encoding (either hex case)
func c03Reencode(r *vf.Rand, s string, pct int) string {
	var sb strings.Builder

	for i := 0; i < len(s); i++ {
		c := s[i]
		if c == '%' { // keep existing triples intact
			end := i + 3
			if end > len(s) {
				end = len(s)
			}

			sb.WriteString(s[i:end])
			i = end - 1

			continue
		}

		if c != '/' && r.Intn(100) < pct {
			off := 0
			if r.Bool() {
				off = 16
			}

			sb.WriteByte('%')
			sb.WriteByte(c03Hex[off+int(c>>4)])
			sb.WriteByte(c03Hex[off+int(c&15)])
		} else {
			sb.WriteByte(c)
		}
	}

	return sb.String()
}

// mostly the plain values at the front of the pool
func c03PickVal(r *vf.Rand, vals []string) string {
	if len(vals) <= 10 {
		return vf.Pick(r, vals)
	}

	return vf.Pick(r, vals[:10+r.Intn(len(vals)-9)])
}

func c03GenTarget(r *vf.Rand, exprs [][]c03Tok, style string) string {
	var segs []string

	vals := c03Vals
	if style == "envoy" && r.Chance(15) {
		vals = c03BadVals
	}

	if len(exprs) > 0 && r.Chance(88) {
		for _, t := range vf.Pick(r, exprs) {
			switch t.kind {
			case 0:
				segs = append(segs, c03Unesc(t.text))
			case 1:
				segs = append(segs, c03PickVal(r, vals))
			default:
				for i, n := 0, vf.Pick(r, []int{1, 1, 2, 3}); i < n; i++ {
					segs = append(segs, c03PickVal(r, vals))
				}
			}
		}
	} else {
		for i, n := 0, r.Range(1, 4); i < n; i++ {
			segs = append(segs, vf.Pick(r, c03Vals[:12]))
		}
	}

	if r.Chance(25) {
		switch r.Intn(5) {
		case 0:
			if len(segs) > 1 {
				segs = segs[:len(segs)-1]
			}
		case 1:
			segs = append(segs, vf.Pick(r, c03Vals[:12]))
		case 2:
			segs[r.Intn(len(segs))] = vf.Pick(r, c03Vals[:12])
		case 3:
			segs = append(segs, "")
		default:
			segs[r.Intn(len(segs))] = ""
		}
	}

	t := "/" + strings.Join(segs, "/")
	if r.Chance(20) {
		t = c03Reencode(r, t, vf.Pick(r, []int{10, 30}))
	}

	return t
}

func c03Gen(r *vf.Rand) c03Case {
	var (
		c     c03Case
		exprs [][]c03Tok
	)

	bad := vf.Pick(r, []int{0, 0, 0, 0, 4, 12})

	if r.Chance(6) { // method probe: one rule, every method
		rl := c03Rule{Bt: true, Routes: []c03Route{{Path: "/m"}}, Methods: c03GenMethods(r)}
		c.Rules = []c03Rule{rl}

		for _, m := range c03ReqMeths {
			c.Reqs = append(c.Reqs, c03Req{Style: "http", Method: m, Scheme: "http", Host: "a.com", Target: "/m"})
		}

		c.Reqs = append(c.Reqs, c03Req{Style: "fwd", Method: "CONNECT", Scheme: "http", Host: "a.com", Target: "/m"})

		return c
	}

	for i, n := 0, vf.Pick(r, []int{1, 2, 2, 3, 3, 4}); i < n; i++ {
		c.Rules = append(c.Rules, c03GenRule(r, &exprs, bad))
	}

	for i, n := 0, r.Range(3, 8); i < n; i++ {
		q := c03Req{Style: "http"}

		switch x := r.Intn(100); {
		case x < 12:
			q.Style = "envoy"
		case x < 30:
			q.Style = "fwd"
		case x < 42:
			q.Style = "direct"
		}

		q.Method = vf.Pick(r, c03ReqMeths[:3+r.Intn(len(c03ReqMeths)-2)])
		q.Scheme = vf.Pick(r, []string{"http", "https"})
		q.Host = vf.Pick(r, c03ReqHosts[:2+r.Intn(len(c03ReqHosts)-1)])
		q.Target = c03GenTarget(r, exprs, q.Style)
		c.Reqs = append(c.Reqs, q)
	}

	// history: the requests of a case go one after the other through the same matcher instances.  Make the same
	// captured TEXT arrive once from a view with RawPath (still encoded) and once from a view without (already
	// decoded, the client had sent %25..), in both orders and interleaved - a verdict must not outlive its request
	if len(c.Reqs) > 0 && r.Chance(45) {
		base := vf.Pick(r, c.Reqs)

		t := base.Target
		if !strings.Contains(t, "%") {
			t = c03Reencode(r, t, 60)
		}

		a := c03Req{Style: vf.Pick(r, []string{"direct", "direct", "http", "fwd"}), Method: base.Method, Scheme: base.Scheme,
			Host: base.Host, Target: t}
		b := c03Req{Style: "direct", Method: base.Method, Scheme: base.Scheme, Host: base.Host,
			Target: strings.ReplaceAll(t, "%", "%25")}

		seq := vf.Pick(r, [][]c03Req{{a, b}, {b, a}, {a, b, a}, {b, a, b}, {a, a, b, b, a}})
		at := r.Intn(len(c.Reqs) + 1)
		c.Reqs = append(c.Reqs[:at], append(append([]c03Req{}, seq...), c.Reqs[at:]...)...)
	}

	if c03ParserAccepts(c) && r.Chance(50) {
		c.Via = "json"
	}

	if len(c.Rules) >= 2 && r.Chance(40) {
		c.Split = r.Range(1, len(c.Rules)-1)
	}

	if r.Chance(35) {
		c03GenHist(r, &c, &exprs)
	}

	return c
}

// c03GenHist turns the case into one with a history: the rule sets of the case are added, then 1-3 further
// operations follow - UpdateRuleSet (per loaded rule: unchanged / a changed version with the same id / gone; sometimes
// a new rule), DeleteRuleSet, AddRuleSet of a further rule set.  New rules and versions are appended to the rule
// table (their expressions are mostly mutations of the ones present, so prefixes are shared, split and merged again);
// two more requests aim at the expressions added.
func c03GenHist(r *vf.Rand, c *c03Case, exprs *[][]c03Tok) {
	c.Via = ""
	nsrc := 1
	loaded := map[int][]int{}

	for i := range c.Rules {
		c.Rules[i].ID = fmt.Sprintf("r%d", i)
		if c.Split > 0 && i >= c.Split {
			c.Rules[i].Src = 1
			nsrc = 2
		}

		loaded[c.Rules[i].Src] = append(loaded[c.Rules[i].Src], i)
	}

	c.Split = 0

	for s := 0; s < nsrc; s++ {
		c.Hist = append(c.Hist, c03HOp{Kind: "add", Src: s, Rules: loaded[s]})
	}

	fresh := func(id string, src int) int {
		nr := c03GenRule(r, exprs, 0)
		nr.ID, nr.Src = id, src
		c.Rules = append(c.Rules, nr)

		return len(c.Rules) - 1
	}

	for k, n := 0, r.Range(1, 3); k < n; k++ {
		switch x := r.Intn(100); {
		case x < 55:
			s := r.Intn(nsrc)

			var list []int

			for _, i := range loaded[s] {
				switch y := r.Intn(100); {
				case y < 45:
					list = append(list, i)
				case y < 78:
					list = append(list, fresh(c.Rules[i].ID, s))
				}
			}

			if r.Chance(35) {
				list = append(list, fresh(fmt.Sprintf("r%d", len(c.Rules)), s))
			}

			c.Hist = append(c.Hist, c03HOp{Kind: "update", Src: s, Rules: list})
			loaded[s] = list
		case x < 80:
			s := r.Intn(nsrc)
			c.Hist = append(c.Hist, c03HOp{Kind: "delete", Src: s})
			loaded[s] = nil
		default:
			s := nsrc
			nsrc++
			list := []int{fresh(fmt.Sprintf("r%d", len(c.Rules)), s)}
			c.Hist = append(c.Hist, c03HOp{Kind: "add", Src: s, Rules: list})
			loaded[s] = list
		}
	}

	for i := 0; i < 2; i++ {
		c.Reqs = append(c.Reqs, c03Req{Style: "http", Method: vf.Pick(r, c03ReqMeths[:3]), Scheme: "http",
			Host: vf.Pick(r, c03ReqHosts[:2]), Target: c03GenTarget(r, *exprs, "http")})
	}

	// a pair of siblings INSIDE a literal segment below wildcards (<pre>b in rule set 0, <pre>c in a rule set of its
	// own): the second Add splits the edge, the DeleteRuleSet of either one makes deleteChild merge the remaining
	// node - which holds a value and wildcard key names - with its value-less parent
	if r.Chance(45) {
		pre := vf.Pick(r, []string{"/:a/a", "/:id/x/a", "/a/:x/a", "/f/a", "/:a/:b/a", "/:*/:x/a", "/x/:id/b/a"})

		var names []string

		target := ""

		for i, seg := range strings.Split(pre, "/") {
			if i > 0 {
				target += "/"
			}

			if strings.HasPrefix(seg, ":") {
				names = append(names, seg[1:])
				target += vf.Pick(r, []string{"1", "a", "%41", "b"})
			} else {
				target += seg
			}
		}

		mk := func(tail string, src int) int {
			rt := c03Route{Path: pre + tail}
			if len(names) > 0 && r.Chance(60) {
				if n := vf.Pick(r, names); n != "*" {
					rt.Params = []c03Param{{n, vf.Pick(r, []c03TM{{"exact", "1"}, {"exact", "a"}, {"glob", "*"}, {"regex", "^[a-zA-Z0-9]+$"}, {"exact", "A"}})}}
				}
			}

			c.Rules = append(c.Rules, c03Rule{ID: fmt.Sprintf("r%d", len(c.Rules)), Src: src, Bt: r.Chance(70), Routes: []c03Route{rt},
				Slash: vf.Pick(r, []string{"", "on", "no_decode"})})

			return len(c.Rules) - 1
		}

		sA, sB := nsrc, nsrc+1
		a, b := mk("b", sA), mk("c", sB)
		c.Hist = append(c.Hist, c03HOp{Kind: "add", Src: sA, Rules: []int{a}}, c03HOp{Kind: "add", Src: sB, Rules: []int{b}})

		gone := vf.Pick(r, []int{sA, sB})
		if r.Chance(50) {
			c.Hist = append(c.Hist, c03HOp{Kind: "delete", Src: gone})
		} else {
			c.Hist = append(c.Hist, c03HOp{Kind: "update", Src: gone})
		}

		for _, tail := range []string{"b", "c", "b"} {
			c.Reqs = append(c.Reqs, c03Req{Style: vf.Pick(r, []string{"http", "http", "fwd", "direct"}), Method: "GET", Scheme: "http",
				Host: "a.com", Target: target + tail})
		}
	}
}

// ---- corpus: the witnesses of the findings and the documentation's examples --------------------------

func c03Corpus() []c03Case {
	rq := func(m, h, t string) c03Req { return c03Req{Style: "http", Method: m, Scheme: "http", Host: h, Target: t} }
	ex := func(n, v string) c03Param { return c03Param{n, c03TM{"exact", v}} }

	return []c03Case{
		// a history (C03_history_nonvacuous): /foo/bar from rule set 0, /foo/baz/:x (x = 1) and /files/*rest (rest = a/b)
		// from rule set 1 - the edge "bar" is split into "ba" + "r" / "z" - then rule set 0 is deleted: the leaf "r"
		// goes and deleteChild merges "ba" + "z"
		{
			Rules: []c03Rule{
				{ID: "r0", Src: 0, Routes: []c03Route{{Path: "/foo/bar"}}},
				{ID: "r1", Src: 1, Methods: []string{"GET"}, Routes: []c03Route{
					{Path: "/foo/baz/:x", Params: []c03Param{ex("x", "1")}},
					{Path: "/files/*rest", Params: []c03Param{ex("rest", "a/b")}},
				}},
			},
			Hist: []c03HOp{{Kind: "add", Src: 0, Rules: []int{0}}, {Kind: "add", Src: 1, Rules: []int{1}}, {Kind: "delete", Src: 0}},
			Reqs: []c03Req{rq("GET", "h", "/foo/baz/1"), rq("GET", "h", "/foo/baz/2"), rq("GET", "h", "/files/a/b"),
				rq("GET", "h", "/foo/bar"), rq("POST", "h", "/foo/baz/1")},
		},
		// deleteChild merges a node that holds a value and wildcard key names with its value-less parent:
		// /:a/ab and /:a/ac, the latter deleted again; /:x/:y/zb and /:x/:y/zc likewise through an update
		{
			Rules: []c03Rule{
				{ID: "r0", Src: 0, Routes: []c03Route{{Path: "/:a/ab", Params: []c03Param{ex("a", "1")}}}},
				{ID: "r1", Src: 1, Routes: []c03Route{{Path: "/:a/ac"}}},
				{ID: "r2", Src: 0, Slash: "on", Routes: []c03Route{{Path: "/:x/:y/zb", Params: []c03Param{ex("y", "A")}}}},
				{ID: "r3", Src: 2, Routes: []c03Route{{Path: "/:x/:y/zc"}}},
			},
			Hist: []c03HOp{{Kind: "add", Src: 0, Rules: []int{0, 2}}, {Kind: "add", Src: 1, Rules: []int{1}},
				{Kind: "add", Src: 2, Rules: []int{3}}, {Kind: "delete", Src: 1}, {Kind: "update", Src: 2}},
			Reqs: []c03Req{rq("GET", "h", "/1/ab"), rq("GET", "h", "/2/ab"), rq("GET", "h", "/1/ac"), rq("GET", "h", "/p/%41/zb"),
				rq("GET", "h", "/p/q/zc")},
		},
		// an update that replaces a rule by a version with other wildcard names at the same expression shape, keeps
		// one rule and drops one; then the other rule set is replaced entirely
		{
			Rules: []c03Rule{
				{ID: "r0", Src: 0, Routes: []c03Route{{Path: "/a/:x/c", Params: []c03Param{ex("x", "b")}}}},
				{ID: "r1", Src: 0, Routes: []c03Route{{Path: "/a/b"}}},
				{ID: "r2", Src: 1, Bt: true, Routes: []c03Route{{Path: "/ab/*rest"}}},
				{ID: "r0", Src: 0, Routes: []c03Route{{Path: "/a/:y/c", Params: []c03Param{ex("y", "1")}}}},
				{ID: "r2", Src: 1, Routes: []c03Route{{Path: "/abc/:z"}}},
			},
			Hist: []c03HOp{{Kind: "add", Src: 0, Rules: []int{0, 1}}, {Kind: "add", Src: 1, Rules: []int{2}},
				{Kind: "update", Src: 0, Rules: []int{3}}, {Kind: "update", Src: 1, Rules: []int{4}}},
			Reqs: []c03Req{rq("GET", "h", "/a/b/c"), rq("GET", "h", "/a/1/c"), rq("GET", "h", "/a/b"), rq("GET", "h", "/ab/x/y"),
				rq("GET", "h", "/abc/7")},
		},
		// C03-F1: two hosts are AND-ed
		{
			Rules: []c03Rule{{Routes: []c03Route{{Path: "/a"}}, Hosts: []c03TM{{"exact", "a.com"}, {"exact", "b.com"}}}},
			Reqs:  []c03Req{rq("GET", "a.com", "/a"), rq("GET", "b.com", "/a"), rq("GET", "c.org", "/a")},
		},
		// C03-F2: path_params on a route ending in a free wildcard
		{
			Rules: []c03Rule{
				{Routes: []c03Route{{Path: "/f/*rest", Params: []c03Param{{"rest", c03TM{"glob", "**"}}}}}},
				{Routes: []c03Route{{Path: "/g/:a/*rest", Params: []c03Param{ex("a", "x")}}}},
			},
			Reqs: []c03Req{rq("GET", "a.com", "/f/x/y"), rq("GET", "a.com", "/g/x/y")},
		},
		// C03-F3: the second route renames the first route's capture
		{
			Rules: []c03Rule{
				{Routes: []c03Route{{Path: "/:a/*c"}}, Methods: []string{"GET"}, Bt: true},
				{Routes: []c03Route{{Path: "/:b/*c"}}, Methods: []string{"POST"}},
			},
			Reqs: []c03Req{rq("GET", "a.com", "/1/2/3"), rq("POST", "a.com", "/1/2/3")},
		},
		// C03-F3, since the repair of C03-F2 (the catch-all child's own keys reach the matcher): the renamed
		// keys make the path_params of the first route fail ("path parameter 'a' is not expected")
		{
			Rules: []c03Rule{
				{Routes: []c03Route{{Path: "/:a/*c", Params: []c03Param{ex("a", "1")}}}, Bt: true},
				{Routes: []c03Route{{Path: "/:b/*c"}}, Methods: []string{"POST"}},
			},
			Reqs: []c03Req{rq("GET", "a.com", "/1/2/3")},
		},
		// history independence: the same captured text %41 from a view with RawPath (segment A) and from one
		// without (the client sent %2541, the segment is the three bytes %41), through the same matcher instance
		{
			Rules: []c03Rule{
				{Routes: []c03Route{{Path: "/files/:name", Params: []c03Param{ex("name", "A")}}}},
				{Routes: []c03Route{{Path: "/nd/:name", Params: []c03Param{ex("name", "a/b")}}}, Slash: "on"},
			},
			Reqs: []c03Req{
				{Style: "direct", Method: "GET", Scheme: "http", Host: "a.com", Target: "/files/%41"},
				{Style: "direct", Method: "GET", Scheme: "http", Host: "a.com", Target: "/files/%2541"},
				{Style: "direct", Method: "GET", Scheme: "http", Host: "a.com", Target: "/files/%41"},
				{Style: "direct", Method: "GET", Scheme: "http", Host: "a.com", Target: "/nd/a%252Fb"},
				{Style: "http", Method: "GET", Scheme: "http", Host: "a.com", Target: "/nd/a%2Fb"},
				{Style: "direct", Method: "GET", Scheme: "http", Host: "a.com", Target: "/nd/a%252Fb"},
			},
		},
		// C03-F4: exclusion without ALL
		{
			Rules: []c03Rule{{Routes: []c03Route{{Path: "/a"}}, Methods: []string{"!GET"}}},
			Reqs:  []c03Req{rq("GET", "a.com", "/a"), rq("POST", "a.com", "/a")},
		},
		// C03-F5: captures lost after a dead end below a static child; index panic in the path-param matcher
		{
			Rules: []c03Rule{{Routes: []c03Route{{Path: "/:a/b/c"}}}, {Routes: []c03Route{{Path: "/:a/:x"}}}},
			Reqs:  []c03Req{rq("GET", "a.com", "/1/b"), rq("GET", "a.com", "/1/z")},
		},
		{
			Rules: []c03Rule{
				{Routes: []c03Route{{Path: "/:a/b/c"}}},
				{Routes: []c03Route{{Path: "/:a/:x", Params: []c03Param{ex("x", "b")}}}},
			},
			Reqs: []c03Req{rq("GET", "a.com", "/1/b")},
		},
		{
			Rules: []c03Rule{
				{Routes: []c03Route{{Path: "/:a/b"}}, Methods: []string{"POST"}, Bt: true},
				{Routes: []c03Route{{Path: "/:a/*x"}}},
			},
			Reqs: []c03Req{rq("GET", "a.com", "/1/b"), rq("POST", "a.com", "/1/b")},
		},
		// C03-F6: under `off` the condition sees the undecoded segment
		{
			Rules: []c03Rule{
				{Routes: []c03Route{{Path: "/file/:name", Params: []c03Param{ex("name", "A")}}}, Bt: true},
				{Routes: []c03Route{{Path: "/on/:name", Params: []c03Param{ex("name", "A")}}}, Slash: "on"},
				{Routes: []c03Route{{Path: "/nd/:name", Params: []c03Param{ex("name", "A")}}}, Slash: "no_decode"},
			},
			Reqs: []c03Req{
				rq("GET", "a.com", "/file/%41"), rq("GET", "a.com", "/on/%41"), rq("GET", "a.com", "/nd/%41"),
				rq("GET", "a.com", "/file/A"), {Style: "envoy", Method: "GET", Scheme: "http", Host: "a.com", Target: "/on/%41"},
			},
		},
		// C03-F7 (= C08-F2): lower-case %2f
		{
			Rules: []c03Rule{
				{Routes: []c03Route{{Path: "/file/:name"}}},
				{Routes: []c03Route{{Path: "/nd/:name"}}, Slash: "no_decode"},
				{Routes: []c03Route{{Path: "/on/:name"}}, Slash: "on"},
			},
			Reqs: []c03Req{
				rq("GET", "a.com", "/file/a%2fb"), rq("GET", "a.com", "/file/a%2Fb"), rq("GET", "a.com", "/nd/a%2fb%5B"),
				rq("GET", "a.com", "/nd/a%2Fb%5B"), rq("GET", "a.com", "/on/a%2fb"), rq("GET", "a.com", "/on/a%2Fb"),
			},
		},
		// C03-F8: the place-holder of the slash-preserving decoder is taken from the request
		{
			Rules: []c03Rule{{Routes: []c03Route{{Path: "/file/:name"}}}, {Routes: []c03Route{{Path: "/on/:name"}}, Slash: "on"}},
			Reqs:  []c03Req{rq("GET", "a.com", "/file/$$$escaped-slash$$$"), rq("GET", "a.com", "/on/$$$escaped-slash$$$")},
		},
		// documentation: /file/%5Bid%5D gives [id]; unnamed wildcards are not exposed
		{
			Rules: []c03Rule{{Routes: []c03Route{{Path: "/file/:name"}, {Path: "/f/:*/:n/**"}}}},
			Reqs:  []c03Req{rq("GET", "a.com", "/file/%5Bid%5D"), rq("GET", "a.com", "/f/1/2/3/4")},
		},
		// documentation: specificity and backtracking example
		{
			Rules: []c03Rule{
				{Routes: []c03Route{{Path: "/files/**"}}},
				{Routes: []c03Route{{Path: "/files/:team/:name", Params: []c03Param{{"team", c03TM{"regex", "(team1|team2)"}}}}}, Bt: true},
				{Routes: []c03Route{{Path: "/files/team3/:name"}}},
			},
			Reqs: []c03Req{
				rq("GET", "a.com", "/files/team1/document.pdf"), rq("GET", "a.com", "/files/team3/document.pdf"),
				rq("GET", "a.com", "/files/team4/document.pdf"),
			},
		},
		// documentation: the example rule
		{
			Rules: []c03Rule{{
				Scheme: "http", Methods: []string{"GET", "POST"}, Hosts: []c03TM{{"exact", "my-service.local"}},
				Routes: []c03Route{{Path: "/some/:identifier/followed/by/**", Params: []c03Param{{"identifier", c03TM{"glob", "[a-z]"}}}}},
			}},
			Reqs: []c03Req{
				rq("GET", "my-service.local", "/some/x/followed/by/y"), rq("PUT", "my-service.local", "/some/x/followed/by/y"),
				rq("GET", "my-service.local", "/some/xx/followed/by/y"),
				{Style: "http", Method: "GET", Scheme: "https", Host: "my-service.local", Target: "/some/x/followed/by/y"},
			},
		},
		// ALL with exclusions, as documented
		{
			Rules: []c03Rule{{Routes: []c03Route{{Path: "/m"}}, Methods: []string{"ALL", "!TRACE", "!OPTIONS"}}},
			Reqs:  []c03Req{rq("GET", "a.com", "/m"), rq("TRACE", "a.com", "/m"), rq("OPTIONS", "a.com", "/m"), rq("FOO", "a.com", "/m")},
		},
	}
}

// ---- classification ---------------------------------------------------------------------------

func c03Tags(c c03Case, o c03Obs) ([]string, bool) {
	tags := map[string]bool{"load:" + o.Load: true}
	if c.Via == "json" {
		tags["via:parser+deepcopy"] = true
	}

	if c.Split > 0 {
		tags["two-rule-sets"] = true
		if strings.HasPrefix(o.Err, "second rule set refused") {
			tags["two-rule-sets:second-refused"] = true
		}
	}
	if len(c.Hist) > 0 {
		tags["history:rule-set-operations"] = true
		tags[fmt.Sprintf("history:ops=%d", len(c.Hist))] = true

		for k, op := range c.Hist {
			if k >= 1 && op.Kind != "add" {
				tags["history:"+op.Kind] = true
			}

			if k < len(o.OpOK) && !o.OpOK[k] {
				tags["history:"+op.Kind+"-refused"] = true
			}
		}
	}

	nontrivial := false

	type rinfo struct {
		rule  c03Rule
		route c03Route
	}

	var tbl []rinfo

	for _, r := range c.Rules {
		switch {
		case len(r.Methods) == 0:
		case len(r.Methods) > 0:
			tags["site:createMethodMatcher"] = true

			all, neg := false, false

			for _, m := range r.Methods {
				all = all || m == "ALL"
				neg = neg || strings.HasPrefix(m, "!")
			}

			tags[fmt.Sprintf("methods:all=%v,neg=%v", all, neg)] = true
		}

		if len(r.Hosts) > 0 {
			tags["site:createHostMatcher"] = true
			tags[fmt.Sprintf("hosts:%d", len(r.Hosts))] = true
		}

		for _, rt := range r.Routes {
			tbl = append(tbl, rinfo{r, rt})

			if len(rt.Params) > 0 {
				tags["site:createPathParamsMatcher"] = true

				if strings.Contains(rt.Path, "/*") && !strings.Contains(rt.Path, `/\*`) {
					tags["params-on-free-wildcard-route"] = true
				}
			}
		}
	}

	if o.Load != "loaded" {
		return keys(tags), len(c.Rules) > 1
	}

	rawOf := map[string]map[bool]bool{} // lookup path text -> seen with RawPath / without

	for _, q := range o.Reqs {
		lpt := q.View.RawPath
		if lpt == "" {
			lpt = q.View.Path
		}

		if rawOf[lpt] == nil {
			rawOf[lpt] = map[bool]bool{}
		}

		rawOf[lpt][q.View.RawPath != ""] = true
		if len(rawOf[lpt]) == 2 && strings.Contains(lpt, "%") {
			tags["history:same-text-with-and-without-rawpath"] = true
		}
	}

	for _, q := range o.Reqs {
		tags["out:"+q.Result] = true

		if len(q.Calls) > 0 {
			tags["site:matcher.Match"] = true
		}

		if len(q.Calls) >= 2 {
			tags["calls>=2"] = true
			nontrivial = true
		}

		for _, cl := range q.Calls {
			if cl.Res != "yes" {
				nontrivial = true
			}

			if cl.Vid < len(tbl) {
				ri := tbl[cl.Vid]
				if len(ri.route.Params) > 0 {
					tags["call:with-path-params"] = true
					tags["call:params,slash="+ri.rule.Slash+",raw="+fmt.Sprint(q.View.RawPath != "")] = true
				}

				if len(ri.rule.Hosts) >= 2 {
					tags["call:hosts>=2"] = true
				}
			}

			tags["call:"+cl.Res] = true
		}

		if q.Result == "rule" {
			tags["site:Find.Parameters"] = true

			if len(q.Caps) > 0 {
				nontrivial = true
				tags["site:unescape"] = true
				tags["caps:nonempty"] = true
			}

			if q.Rejected {
				tags["exec:rejected-encoded-slash"] = true
			}
		}

		lp := q.View.RawPath
		if lp == "" {
			lp = q.View.Path
			tags["view:rawpath-empty"] = true
		}

		switch {
		case strings.Contains(lp, "%2F"):
			tags["path:%2F"] = true
		case strings.Contains(lp, "%2f"):
			tags["path:%2f"] = true
		case strings.Contains(lp, "%"):
			tags["path:pct"] = true
		}
	}

	return keys(tags), nontrivial
}

func keys(m map[string]bool) []string {
	out := make([]string, 0, len(m))
	for k := range m {
		out = append(out, k)
	}

	sort.Strings(out)

	return out
}

func TestVerifC03(t *testing.T) {
	w := vf.NewWriter()
	defer w.Close()

	root := vf.NewRand(vf.Seed())
	n := vf.N(600)
	idx := 0

	emit := func(stream string, c c03Case) {
		if vf.Want(idx) {
			o := c03Run(c)
			tags, nt := c03Tags(c, o)
			w.Put(vf.Obs{I: idx, Stream: stream, In: c, Out: o, Coq: c03Coq(c, o), Nontrivial: nt, Tags: tags})
		}

		idx++
	}

	for _, c := range c03Corpus() {
		emit("corpus", c)
	}

	for i := 0; i < n; i++ {
		emit("generated", c03Gen(root.Fork(uint64(i))))
	}
}
