//go:build verif

// Package vf holds the helpers shared by all verification drivers: one
// splitmix64 PRNG, Gallina literal rendering and the observation writer.
// It is injected into the build with `go test -overlay`; it is not part of /repo.
package vf

import (
	"bufio"
	"crypto/sha256"
	"encoding/hex"
	"encoding/json"
	"fmt"
	"os"
	"sort"
	"strconv"
	"strings"
)

// ---------------------------------------------------------------- PRNG

type Rand struct{ s uint64 }

func NewRand(seed uint64) *Rand { return &Rand{s: seed*0x9E3779B97F4A7C15 + 0x1234567} }

func (r *Rand) U64() uint64 {
	r.s += 0x9E3779B97F4A7C15
	z := r.s
	z = (z ^ (z >> 30)) * 0xBF58476D1CE4E5B9
	z = (z ^ (z >> 27)) * 0x94D049BB133111EB

	return z ^ (z >> 31)
}

// Intn returns a value in [0,n).
func (r *Rand) Intn(n int) int {
	if n <= 0 {
		return 0
	}

	return int(r.U64() % uint64(n))
}

func (r *Rand) Bool() bool          { return r.U64()&1 == 1 }
func (r *Rand) Chance(p int) bool   { return r.Intn(100) < p }
func (r *Rand) Range(lo, hi int) int { return lo + r.Intn(hi-lo+1) }
func Pick[T any](r *Rand, xs []T) T  { return xs[r.Intn(len(xs))] }

// Fork derives an independent generator (so that a case is reproducible by index).
func (r *Rand) Fork(i uint64) *Rand { return NewRand(r.s ^ (i+1)*0xD6E8FEB86659FD93) }

// ---------------------------------------------------------------- env

func EnvInt(name string, def int) int {
	if v, ok := os.LookupEnv(name); ok {
		if n, err := strconv.Atoi(v); err == nil {
			return n
		}
	}

	return def
}

func Seed() uint64 { return uint64(EnvInt("VERIF_SEED", 1)) }
func N(def int) int { return EnvInt("VERIF_N", def) }

// Only returns the case index to replay, or -1.
func Only() int { return EnvInt("VERIF_ONLY", -1) }

// ---------------------------------------------------------------- Gallina literals

func CoqBool(b bool) string {
	if b {
		return "true"
	}

	return "false"
}

func CoqZ(n int64) string {
	if n < 0 {
		return fmt.Sprintf("(%d)%%Z", n)
	}

	return fmt.Sprintf("%d%%Z", n)
}

func CoqNat(n int) string { return fmt.Sprintf("%d%%nat", n) }

// CoqStr renders a Go string (arbitrary bytes) as a Coq `string` term.
func CoqStr(s string) string {
	plain := true

	for i := 0; i < len(s); i++ {
		if s[i] < 0x20 || s[i] > 0x7e {
			plain = false

			break
		}
	}

	if plain {
		return `"` + strings.ReplaceAll(s, `"`, `""`) + `"%string`
	}

	var sb strings.Builder

	sb.WriteString("(bs [")

	for i := 0; i < len(s); i++ {
		if i > 0 {
			sb.WriteString(";")
		}

		sb.WriteString(strconv.Itoa(int(s[i])))
	}

	sb.WriteString("]%N)")

	return sb.String()
}

func CoqList(items []string) string { return "[" + strings.Join(items, "; ") + "]" }

func CoqListOf[T any](xs []T, f func(T) string) string {
	items := make([]string, len(xs))
	for i, x := range xs {
		items[i] = f(x)
	}

	return CoqList(items)
}

func CoqStrs(xs []string) string { return CoqListOf(xs, CoqStr) }

func CoqOpt(present bool, v string) string {
	if present {
		return "(Some " + v + ")"
	}

	return "None"
}

func CoqPair(a, b string) string { return "(" + a + ", " + b + ")" }

func CoqApp(f string, args ...string) string {
	return "(" + f + " " + strings.Join(args, " ") + ")"
}

// ---------------------------------------------------------------- observations

type Obs struct {
	I          int            `json:"i"`
	Stream     string         `json:"stream"`
	In         any            `json:"in"`
	Out        any            `json:"obs"`
	Coq        string         `json:"coq"`
	Nontrivial bool           `json:"nontrivial"`
	Key        string         `json:"key"`
	Tags       []string       `json:"tags,omitempty"`
	Extra      map[string]any `json:"extra,omitempty"`
}

type Writer struct {
	f *os.File
	w *bufio.Writer
	n int
}

func NewWriter() *Writer {
	path := os.Getenv("VERIF_OUT")
	if path == "" {
		path = "/dev/null"
	}

	f, err := os.Create(path)
	if err != nil {
		panic(err)
	}

	return &Writer{f: f, w: bufio.NewWriterSize(f, 1<<20)}
}

func KeyOf(v any) string {
	b, _ := json.Marshal(v)
	h := sha256.Sum256(b)

	return hex.EncodeToString(h[:8])
}

func (w *Writer) Put(o Obs) {
	if o.Key == "" {
		o.Key = KeyOf(o.In)
	}

	sort.Strings(o.Tags)

	b, err := json.Marshal(o)
	if err != nil {
		panic(err)
	}

	w.w.Write(b)
	w.w.WriteByte('\n')
	w.n++
}

func (w *Writer) Close() {
	w.w.Flush()
	w.f.Close()
}

// Want tells a driver whether case i is to be run (replay support).
func Want(i int) bool { o := Only(); return o < 0 || o == i }
