//go:build verif

package stacks

// Requests with a method, headers and a body; served in-process on a recorder or over
// a real loopback connection; an upstream whose behaviour is chosen per request.
// Added for the C01 driver.  Not part of /repo.

import (
	"context"
	"fmt"
	"io"
	"net"
	"net/http"
	"net/http/httptest"
	"strings"

	envoy_auth "github.com/envoyproxy/go-control-plane/envoy/service/auth/v3"
	"google.golang.org/grpc/status"
)

// Req is one client request.
type Req struct {
	Method  string            `json:"method"`
	Path    string            `json:"path"` // raw, as on the wire
	Headers map[string]string `json:"headers,omitempty"`
	Body    string            `json:"body,omitempty"`
}

func (r Req) method() string {
	if r.Method == "" {
		return http.MethodGet
	}

	return r.Method
}

func resultOf(code int, h http.Header, body []byte) Result {
	return Result{
		Kind:     "http",
		Status:   code,
		Location: hdr(h, "Location"),
		WWW:      hdr(h, "Www-Authenticate"),
		CType:    mime(h.Get("Content-Type")),
		Body:     len(body) != 0,
		BodyWF:   WellFormed(mime(h.Get("Content-Type")), body),
		Marker:   h.Get("X-Verif-Upstream") != "",
	}
}

// DoReq serves the request in-process on an httptest.ResponseRecorder.
func (s *HTTPStack) DoReq(r Req) (res Result) {
	rec := httptest.NewRecorder()

	var body io.Reader
	if r.Body != "" {
		body = strings.NewReader(r.Body)
	}

	req := httptest.NewRequest(r.method(), "http://heimdall.local"+r.Path, body)
	for k, v := range r.Headers {
		req.Header[http.CanonicalHeaderKey(k)] = []string{v}
	}

	defer func() {
		if p := recover(); p != nil {
			res = Result{Kind: "abort", Panic: fmt.Sprint(p)}
		}
	}()

	s.h.ServeHTTP(rec, req)

	return resultOf(rec.Code, rec.Header(), rec.Body.Bytes())
}

// DoSocket sends the request over a real loopback connection to an http.Server running the
// chain (so the handler sees net/http's own ResponseWriter).  A dropped connection is "abort".
func (s *HTTPStack) DoSocket(r Req) Result {
	if s.srv == nil {
		s.srv = httptest.NewUnstartedServer(s.h)
		s.srv.Config.SetKeepAlivesEnabled(false)
		s.srv.Config.ErrorLog = nil
		s.srv.Start()
	}

	var body io.Reader
	if r.Body != "" {
		body = strings.NewReader(r.Body)
	}

	req, err := http.NewRequest(r.method(), s.srv.URL, body) //nolint:noctx
	if err != nil {
		panic(err)
	}

	// keep the raw path as given
	req.URL.Opaque = "//" + strings.TrimPrefix(s.srv.URL, "http://") + r.Path
	req.Host = "heimdall.local"

	for k, v := range r.Headers {
		req.Header[http.CanonicalHeaderKey(k)] = []string{v}
	}

	client := &http.Client{
		Transport:     &http.Transport{DisableKeepAlives: true, DisableCompression: true, Proxy: nil},
		CheckRedirect: func(*http.Request, []*http.Request) error { return http.ErrUseLastResponse },
	}

	resp, err := client.Do(req)
	if err != nil {
		return Result{Kind: "abort", Panic: "connection: " + err.Error()}
	}

	defer resp.Body.Close()

	b, _ := io.ReadAll(resp.Body)

	return resultOf(resp.StatusCode, resp.Header, b)
}

// Close stops the socket server, if one was started.
func (s *HTTPStack) Close() {
	if s.srv != nil {
		s.srv.Close()
		s.srv = nil
	}
}

// DoReq sends the CheckRequest Envoy would send for the request.
func (s *EnvoyStack) DoReq(r Req) Result {
	headers := map[string]string{}
	for k, v := range r.Headers {
		headers[strings.ToLower(k)] = v
	}

	resp, err := s.client.Check(context.Background(), &envoy_auth.CheckRequest{
		Attributes: &envoy_auth.AttributeContext{
			Request: &envoy_auth.AttributeContext_Request{
				Http: &envoy_auth.AttributeContext_HttpRequest{
					Method: r.method(), Scheme: "http", Host: "heimdall.local", Path: r.Path, Headers: headers,
					Body: r.Body, RawBody: []byte(r.Body),
				},
			},
		},
	})
	if err != nil {
		return Result{Kind: "status", GCode: status.Code(err).String()}
	}

	return EnvoyResult(resp)
}

// NewModalUpstream is a counting upstream whose behaviour is chosen by the forwarded request's
// X-Verif-Upstream header: "" / "ok" -> 200, "s<code>" -> that status, "abort" -> the request is
// taken (and counted) and the connection dropped without an answer.
func NewModalUpstream() *Upstream {
	u := &Upstream{}
	u.srv = httptest.NewUnstartedServer(http.HandlerFunc(func(rw http.ResponseWriter, req *http.Request) {
		u.hits.Add(1)

		mode := req.Header.Get("X-Verif-Upstream")

		switch {
		case mode == "abort":
			if hj, ok := rw.(http.Hijacker); ok {
				if conn, _, err := hj.Hijack(); err == nil {
					if tc, ok := conn.(*net.TCPConn); ok {
						tc.SetLinger(0) //nolint:errcheck
					}

					conn.Close()

					return
				}
			}

			panic(http.ErrAbortHandler)
		case strings.HasPrefix(mode, "s"):
			code := 0
			fmt.Sscanf(mode[1:], "%d", &code) //nolint:errcheck

			rw.Header().Set("X-Verif-Upstream", "1")
			rw.WriteHeader(code)
		default:
			rw.Header().Set("X-Verif-Upstream", "1")
			rw.WriteHeader(http.StatusOK)
		}
	}))
	u.srv.Config.SetKeepAlivesEnabled(false)
	u.srv.Config.ErrorLog = nil
	u.srv.Start()

	return u
}
