//go:build verif

// Package stacks assembles the real decision, proxy and Envoy ext-auth service
// stacks of heimdall (exactly the constructors cmd/serve wires with fx:
// decision.newService, proxy.newService, grpcv3.newService — reached through
// the `verif` export shims) around a given rule.Executor, and runs one request
// through them.  Shared by the C12 and C01 drivers.  Not part of /repo.
package stacks

import (
	"bytes"
	"context"
	"encoding/json"
	"encoding/xml"
	"fmt"
	"io"
	"net"
	"net/http"
	"net/http/httptest"
	"strings"
	"sync/atomic"

	envoy_auth "github.com/envoyproxy/go-control-plane/envoy/service/auth/v3"
	"github.com/rs/zerolog"
	"google.golang.org/grpc"
	"google.golang.org/grpc/codes"
	"google.golang.org/grpc/credentials/insecure"
	"google.golang.org/grpc/status"
	"google.golang.org/grpc/test/bufconn"

	"github.com/dadrus/heimdall/internal/cache"
	"github.com/dadrus/heimdall/internal/cache/memory"
	"github.com/dadrus/heimdall/internal/config"
	"github.com/dadrus/heimdall/internal/handler/decision"
	"github.com/dadrus/heimdall/internal/handler/envoyextauth/grpcv3"
	"github.com/dadrus/heimdall/internal/handler/proxy"
	"github.com/dadrus/heimdall/internal/heimdall"
	"github.com/dadrus/heimdall/internal/rules/rule"
)

// Respond mirrors `serve.<service>.respond` of heimdall's configuration.
type Respond struct {
	Verbose  bool `json:"verbose"`
	Authn    int  `json:"authn"`
	Authz    int  `json:"authz"`
	Comm     int  `json:"comm"`
	Precond  int  `json:"precond"`
	NoRule   int  `json:"norule"`
	Internal int  `json:"internal"`
	Accepted int  `json:"accepted"`
}

func (r Respond) serviceConfig() config.ServiceConfig {
	sc := config.ServiceConfig{Host: "127.0.0.1", Port: 1}
	sc.Respond.Verbose = r.Verbose
	sc.Respond.With.AuthenticationError.Code = r.Authn
	sc.Respond.With.AuthorizationError.Code = r.Authz
	sc.Respond.With.CommunicationError.Code = r.Comm
	sc.Respond.With.ArgumentError.Code = r.Precond
	sc.Respond.With.NoRuleError.Code = r.NoRule
	sc.Respond.With.InternalError.Code = r.Internal
	sc.Respond.With.Accepted.Code = r.Accepted

	return sc
}

// ExecFunc adapts a function to rule.Executor.
type ExecFunc func(ctx heimdall.Context) (rule.Backend, error)

func (f ExecFunc) Execute(ctx heimdall.Context) (rule.Backend, error) { return f(ctx) }

var sharedCache cache.Cache //nolint:gochecknoglobals

func theCache() cache.Cache {
	if sharedCache == nil {
		cch, err := memory.NewCache(nil, nil, nil)
		if err != nil {
			panic(err)
		}

		sharedCache = cch
	}

	return sharedCache
}

// Result is the canonical observation of one request through one stack.
type Result struct {
	// http | abort (panic escaped the recovery middleware) | denied | ok | status (gRPC status error)
	Kind     string  `json:"kind"`
	Status   int     `json:"status"`           // HTTP status / DeniedHttpResponse status
	GCode    string  `json:"gcode,omitempty"`  // gRPC code of CheckResponse.Status or of the status error
	Location *string `json:"location"`         // Location header
	WWW      *string `json:"www"`              // WWW-Authenticate header
	CType    string  `json:"ctype,omitempty"`  // Content-Type without parameters
	Body     bool    `json:"body"`             // body non-empty
	BodyWF   bool    `json:"body_wf"`          // the body (if any) is well-formed for the Content-Type it is sent with
	Marker   bool    `json:"marker,omitempty"` // the upstream's marker header/body was relayed (proxy)
	Panic    string  `json:"panic,omitempty"`
}

// WellFormed tells whether a response body is what its Content-Type says: valid JSON,
// parseable XML with a root element, "<p>...</p>" for text/html, anything for text/plain.
// An empty body is well-formed; a non-empty body without one of these types is not.
func WellFormed(ctype string, body []byte) bool {
	if len(body) == 0 {
		return true
	}

	switch ctype {
	case "application/json":
		return json.Valid(body)
	case "application/xml":
		dec := xml.NewDecoder(bytes.NewReader(body))
		elems := 0

		for {
			tok, err := dec.Token()
			if err == io.EOF {
				return elems > 0
			}

			if err != nil {
				return false
			}

			if _, ok := tok.(xml.StartElement); ok {
				elems++
			}
		}
	case "text/html":
		return bytes.HasPrefix(body, []byte("<p>")) && bytes.HasSuffix(body, []byte("</p>"))
	case "text/plain":
		return true
	}

	return false
}

func hdr(h http.Header, name string) *string {
	if vs, ok := h[name]; ok && len(vs) > 0 {
		v := vs[0]

		return &v
	}

	return nil
}

func mime(v string) string {
	if i := strings.IndexByte(v, ';'); i >= 0 {
		v = v[:i]
	}

	return strings.TrimSpace(v)
}

// HTTPStack is a decision or proxy service handler chain.
type HTTPStack struct {
	h   http.Handler
	srv *httptest.Server // started on demand by DoSocket (request.go)
}

func NewDecision(r Respond, exec rule.Executor) *HTTPStack {
	conf := &config.Configuration{}
	conf.Serve.Decision = r.serviceConfig()

	return &HTTPStack{h: decision.VerifNewService(conf, theCache(), zerolog.Nop(), exec).Handler}
}

// NewDecisionWith / NewProxyWith / NewEnvoyWith build the stacks from an already
// loaded heimdall configuration (used by streams that run the real configuration loader).
func NewDecisionWith(conf *config.Configuration, exec rule.Executor) *HTTPStack {
	return &HTTPStack{h: decision.VerifNewService(conf, theCache(), zerolog.Nop(), exec).Handler}
}

func NewProxyWith(conf *config.Configuration, exec rule.Executor) *HTTPStack {
	return &HTTPStack{h: proxy.VerifNewService(conf, theCache(), zerolog.Nop(), exec).Handler}
}

func NewProxy(r Respond, exec rule.Executor) *HTTPStack {
	conf := &config.Configuration{}
	conf.Serve.Proxy = r.serviceConfig()

	return &HTTPStack{h: proxy.VerifNewService(conf, theCache(), zerolog.Nop(), exec).Handler}
}

// Do sends GET /verif with the given Accept header (nil = none) through the chain.
func (s *HTTPStack) Do(accept *string) Result { return s.DoPath("/verif", accept) }

// DoPath sends GET <path> (raw, as on the wire) with the given Accept header through the chain.
func (s *HTTPStack) DoPath(path string, accept *string) Result {
	hdrs := map[string]string{}
	if accept != nil {
		hdrs["Accept"] = *accept
	}

	return s.DoHeaders(path, hdrs)
}

// DoHeaders sends GET <path> with the given request headers through the chain.
func (s *HTTPStack) DoHeaders(path string, hdrs map[string]string) (res Result) {
	rec := httptest.NewRecorder()
	req := httptest.NewRequest(http.MethodGet, "http://heimdall.local"+path, nil)

	for k, v := range hdrs {
		req.Header[http.CanonicalHeaderKey(k)] = []string{v}
	}

	defer func() {
		if p := recover(); p != nil {
			res = Result{Kind: "abort", Panic: fmt.Sprint(p)}
		}
	}()

	s.h.ServeHTTP(rec, req)

	return Result{
		Kind:     "http",
		Status:   rec.Code,
		Location: hdr(rec.Header(), "Location"),
		WWW:      hdr(rec.Header(), "Www-Authenticate"),
		CType:    mime(rec.Header().Get("Content-Type")),
		Body:     rec.Body.Len() != 0,
		BodyWF:   WellFormed(mime(rec.Header().Get("Content-Type")), rec.Body.Bytes()),
		Marker:   rec.Header().Get("X-Verif-Upstream") != "",
	}
}

// EnvoyStack is the gRPC ext-auth server on an in-memory listener plus a client.
type EnvoyStack struct {
	srv    *grpc.Server
	conn   *grpc.ClientConn
	client envoy_auth.AuthorizationClient
}

func NewEnvoy(r Respond, exec rule.Executor) *EnvoyStack {
	conf := &config.Configuration{}
	conf.Serve.Decision = r.serviceConfig()

	return NewEnvoyWith(conf, exec)
}

func NewEnvoyWith(conf *config.Configuration, exec rule.Executor) *EnvoyStack {
	lis := bufconn.Listen(1 << 20)
	srv := grpcv3.VerifNewService(conf, theCache(), zerolog.Nop(), exec)

	go srv.Serve(lis) //nolint:errcheck

	conn, err := grpc.NewClient("passthrough://bufnet",
		grpc.WithContextDialer(func(context.Context, string) (net.Conn, error) { return lis.Dial() }),
		grpc.WithTransportCredentials(insecure.NewCredentials()))
	if err != nil {
		panic(err)
	}

	return &EnvoyStack{srv: srv, conn: conn, client: envoy_auth.NewAuthorizationClient(conn)}
}

func (s *EnvoyStack) Close() {
	s.conn.Close()
	s.srv.Stop()
}

func (s *EnvoyStack) Do(accept *string) Result { return s.DoPath("/verif", accept) }

// DoPath sends a CheckRequest for GET <path> (Envoy hands over the raw :path).
func (s *EnvoyStack) DoPath(path string, accept *string) Result {
	hdrs := map[string]string{}
	if accept != nil {
		hdrs["accept"] = *accept
	}

	return s.DoHeaders(path, hdrs)
}

// DoHeaders sends a CheckRequest for GET <path> with the given request headers (lower-cased, as Envoy does).
func (s *EnvoyStack) DoHeaders(path string, hdrs map[string]string) Result {
	headers := map[string]string{}
	for k, v := range hdrs {
		headers[strings.ToLower(k)] = v
	}

	resp, err := s.client.Check(context.Background(), &envoy_auth.CheckRequest{
		Attributes: &envoy_auth.AttributeContext{
			Request: &envoy_auth.AttributeContext_Request{
				Http: &envoy_auth.AttributeContext_HttpRequest{
					Method: http.MethodGet, Scheme: "http", Host: "heimdall.local", Path: path, Headers: headers,
				},
			},
		},
	})
	if err != nil {
		return Result{Kind: "status", GCode: status.Code(err).String()}
	}

	return EnvoyResult(resp)
}

// EnvoyResult canonicalises a CheckResponse.
func EnvoyResult(resp *envoy_auth.CheckResponse) Result {
	gc := codes.Code(resp.GetStatus().GetCode()).String() //nolint:gosec

	if d := resp.GetDeniedResponse(); d != nil {
		res := Result{Kind: "denied", GCode: gc, Status: int(d.GetStatus().GetCode()), Body: len(d.GetBody()) != 0}

		for _, h := range d.GetHeaders() {
			v := h.GetHeader().GetValue()

			switch http.CanonicalHeaderKey(h.GetHeader().GetKey()) {
			case "Location":
				res.Location = &v
			case "Www-Authenticate":
				res.WWW = &v
			case "Content-Type":
				res.CType = mime(v)
			}
		}

		res.BodyWF = WellFormed(res.CType, []byte(d.GetBody()))

		return res
	}

	res := Result{Kind: "ok", GCode: gc}

	for _, h := range resp.GetOkResponse().GetHeaders() {
		if h.GetHeader().GetKey() == "X-Verif-Upstream" {
			res.Marker = true
		}
	}

	return res
}

// Upstream is a counting test server used as the proxy target.
type Upstream struct {
	srv  *httptest.Server
	hits atomic.Int64
}

func NewUpstream() *Upstream {
	u := &Upstream{}
	u.srv = httptest.NewUnstartedServer(http.HandlerFunc(func(rw http.ResponseWriter, _ *http.Request) {
		u.hits.Add(1)
		rw.Header().Set("X-Verif-Upstream", "1")
		rw.WriteHeader(http.StatusOK)
	}))
	// every proxy stack has its own transport: without keep-alives no idle connection outlives its case
	u.srv.Config.SetKeepAlivesEnabled(false)
	u.srv.Start()

	return u
}

func (u *Upstream) URL() string  { return u.srv.URL }
func (u *Upstream) Host() string { return strings.TrimPrefix(u.srv.URL, "http://") }
func (u *Upstream) Hits() int64  { return u.hits.Load() }
func (u *Upstream) Reset()       { u.hits.Store(0) }
func (u *Upstream) Close()       { u.srv.Close() }
