//go:build verif

package stacks

// Error trees: generated descriptions of Go error values (Base/ErrChain.v `err`),
// turned into REAL error values (real errorchain.ErrorChain, fmt.Errorf %w,
// errors.Join, *heimdall.RedirectError, a real *cellib.EvalError, foreign types)
// and rendered as Gallina terms.  Same shapes as the C12 driver's generator;
// shared by the C01 driver.  Not part of /repo.

import (
	"context"
	"errors"
	"fmt"
	"io"
	"net"
	"os"

	"github.com/google/cel-go/cel"

	"github.com/dadrus/heimdall/internal/heimdall"
	"github.com/dadrus/heimdall/internal/rules/mechanisms/cellib"
	"github.com/dadrus/heimdall/internal/x/errorchain"
	"github.com/dadrus/heimdall/internal/zzverif/vf"
)

type Node struct {
	K    string `json:"k"`              // s r e f w j c x (x = a standard library error value, N selects it)
	Kind string `json:"kind,omitempty"` // sentinel kind
	N    int    `json:"n,omitempty"`    // foreign flavour+id / other sentinel id / wrap+join flavour
	Code int    `json:"code,omitempty"`
	To   string `json:"to,omitempty"`
	Ctx  bool   `json:"ctx,omitempty"`
	Sub  []Node `json:"sub,omitempty"`
}

var Sentinels = map[string]error{ //nolint:gochecknoglobals
	"authn": heimdall.ErrAuthentication, "authz": heimdall.ErrAuthorization, "comm": heimdall.ErrCommunication,
	"timeout": heimdall.ErrCommunicationTimeout, "arg": heimdall.ErrArgument, "conf": heimdall.ErrConfiguration,
	"int": heimdall.ErrInternal, "norule": heimdall.ErrNoRuleFound,
}

var SentinelNames = []string{"authn", "authz", "comm", "timeout", "arg", "conf", "int", "norule"} //nolint:gochecknoglobals

// OtherSentinels are the values of `Sentinel (KOther n)`.  A driver may replace
// entry 0 (the C01 driver puts internal/rules' errErrorHandlerNotApplicable there).
var OtherSentinels = []error{errors.New("other 0"), errors.New("other 1"), errors.New("")} //nolint:gochecknoglobals

type foreignVal struct{ N int }

func (f foreignVal) Error() string { return fmt.Sprintf("foreign value %d", f.N) }

type foreignMap struct{ M map[string]int }

func (f *foreignMap) Error() string { return "foreign map" }

type foreignSilent struct{}

func (*foreignSilent) Error() string { return "" }

type customWrap struct{ inner error }

func (w *customWrap) Error() string { return "custom: " + w.inner.Error() }
func (w *customWrap) Unwrap() error { return w.inner }

type customMulti struct{ inner []error }

func (w *customMulti) Error() string   { return fmt.Sprintf("multi(%d)", len(w.inner)) }
func (w *customMulti) Unwrap() []error { return w.inner }

var evalErr error //nolint:gochecknoglobals

// RealEvalError is the *cellib.EvalError the real CompiledExpression.Eval returns for a false expression.
func RealEvalError() error {
	if evalErr == nil {
		env, err := cel.NewEnv(cellib.Library())
		if err != nil {
			panic(err)
		}

		expr, err := cellib.CompileExpression(env, "1 == 2", "expression is false")
		if err != nil {
			panic(err)
		}

		evalErr = expr.Eval(map[string]any{})
		if evalErr == nil {
			panic("no EvalError")
		}
	}

	return evalErr
}

type netTimeout struct{}

func (netTimeout) Error() string   { return "i/o timeout" }
func (netTimeout) Timeout() bool   { return true }
func (netTimeout) Temporary() bool { return true }

// StdErrors are error values of the standard library that real mechanisms meet (a client that went
// away, deadlines, broken connections).  The model sees them as foreign leaves `Foreign (100+i)`.
var StdErrors = []error{ //nolint:gochecknoglobals
	context.Canceled, context.DeadlineExceeded, io.EOF, io.ErrUnexpectedEOF, os.ErrDeadlineExceeded,
	&net.OpError{Op: "dial", Net: "tcp", Err: netTimeout{}}, net.ErrClosed, os.ErrNotExist,
}

// Build turns a description into a real error value.
func Build(n Node) error {
	switch n.K {
	case "x":
		return StdErrors[n.N%len(StdErrors)]
	case "s":
		if n.Kind == "other" {
			return OtherSentinels[n.N%len(OtherSentinels)]
		}

		return Sentinels[n.Kind]
	case "r":
		return &heimdall.RedirectError{Message: "redirect", Code: n.Code, RedirectTo: n.To}
	case "e":
		return RealEvalError()
	case "f":
		switch n.N % 4 {
		case 0:
			return fmt.Errorf("foreign %d", n.N) //nolint:goerr113
		case 1:
			return foreignVal{n.N}
		case 2:
			return &foreignMap{M: map[string]int{"a": 1}}
		default:
			return &foreignSilent{}
		}
	case "w":
		inner := Build(n.Sub[0])
		if n.N%2 == 0 {
			return fmt.Errorf("wrapped: %w", inner)
		}

		return &customWrap{inner}
	case "j":
		subs := make([]error, len(n.Sub))
		for i, s := range n.Sub {
			subs[i] = Build(s)
		}

		switch {
		case len(subs) == 0 || n.N%3 == 2:
			return &customMulti{subs}
		case len(subs) == 2 && n.N%3 == 1:
			return fmt.Errorf("both: %w and %w", subs[0], subs[1])
		default:
			return errors.Join(subs...)
		}
	case "c":
		if len(n.Sub) == 0 {
			return &errorchain.ErrorChain{}
		}

		var ec *errorchain.ErrorChain

		for i, s := range n.Sub {
			switch {
			case i == 0 && n.N%2 == 0:
				ec = errorchain.NewWithMessage(Build(s), "something failed")
			case i == 0:
				ec = errorchain.New(Build(s))
			default:
				ec = ec.CausedBy(Build(s))
			}
		}

		if n.Ctx {
			if n.N%2 == 0 {
				ec = ec.WithErrorContext(&heimdall.RedirectError{Message: "ctx", Code: 204, RedirectTo: "http://context"})
			} else {
				ec = ec.WithErrorContext("some context")
			}
		}

		return ec
	}

	panic("bad node " + n.K)
}

// CoqErr renders a description as a Base.ErrChain.err term.
func CoqErr(n Node) string {
	switch n.K {
	case "s":
		if n.Kind == "other" {
			return vf.CoqApp("sOther", vf.CoqNat(n.N%len(OtherSentinels)))
		}

		return map[string]string{
			"authn": "sAuthn", "authz": "sAuthz", "comm": "sComm", "timeout": "sTimeout", "arg": "sArg",
			"conf": "sConf", "int": "sInt", "norule": "sNoRule",
		}[n.Kind]
	case "r":
		return vf.CoqApp("Redirect", vf.CoqZ(int64(n.Code)), vf.CoqStr(n.To))
	case "e":
		return "EvalErr"
	case "f":
		return vf.CoqApp("Foreign", vf.CoqNat(n.N))
	case "x":
		return vf.CoqApp("Foreign", vf.CoqNat(100+n.N%len(StdErrors)))
	case "w":
		return vf.CoqApp("WrapW", CoqErr(n.Sub[0]))
	case "j":
		return vf.CoqApp("JoinW", vf.CoqListOf(n.Sub, CoqErr))
	case "c":
		return vf.CoqApp("Chain", vf.CoqListOf(n.Sub, CoqErr), vf.CoqBool(n.Ctx))
	}

	panic("bad node")
}

// Kinds collects the leaf kinds of a tree.
func Kinds(n Node, acc map[string]bool) {
	switch n.K {
	case "s":
		if n.Kind == "other" {
			acc[fmt.Sprintf("other%d", n.N%len(OtherSentinels))] = true
		} else {
			acc[n.Kind] = true
		}
	case "r":
		acc["redirect"] = true
	case "e":
		acc["eval"] = true
	case "f":
		acc["foreign"] = true
	case "x":
		acc["stdlib"] = true
	}

	for _, s := range n.Sub {
		Kinds(s, acc)
	}
}

var RedirectCodes = []int{301, 302, 302, 303, 307, 308, 302, 301} //nolint:gochecknoglobals

var OddCodes = []int{200, 204, 299, 100, 103, 0, 5, 99, -1, 1000, 1200} //nolint:gochecknoglobals

// GenOpts biases the leaf generator.
type GenOpts struct {
	Odd      bool // redirect codes outside 3xx now and then
	Other0   int  // percentage of leaves that are `sOther 0`
	ArgBoost int  // percentage of leaves that are the argument sentinel
	EvalPct  int  // percentage of leaves that are EvalError
	StdPct   int  // percentage of leaves that are standard library errors (context.Canceled, io.EOF, ...)
}

func GenLeaf(r *vf.Rand, o GenOpts) Node {
	if r.Chance(o.Other0) {
		return Node{K: "s", Kind: "other", N: 0}
	}

	if r.Chance(o.ArgBoost) {
		return Node{K: "s", Kind: "arg"}
	}

	if r.Chance(o.EvalPct) {
		return Node{K: "e"}
	}

	if r.Chance(o.StdPct) {
		return Node{K: "x", N: r.Intn(len(StdErrors))}
	}

	switch x := r.Intn(100); {
	case x < 58:
		return Node{K: "s", Kind: vf.Pick(r, SentinelNames)}
	case x < 63:
		return Node{K: "s", Kind: "other", N: r.Intn(3)}
	case x < 75:
		code := vf.Pick(r, RedirectCodes)
		if o.Odd && r.Chance(50) {
			code = vf.Pick(r, OddCodes)
		}

		return Node{K: "r", Code: code, To: vf.Pick(r, []string{"http://a.example/login", "/relative?x=1", "", "https://b.example/\"q\""})}
	case x < 79:
		return Node{K: "e"}
	default:
		return Node{K: "f", N: r.Intn(8)}
	}
}

// GenTree generates a tree of depth <= d (no empty chains: they have no Error()).
func GenTree(r *vf.Rand, d int, o GenOpts) Node {
	if d <= 1 || r.Chance(25) {
		return GenLeaf(r, o)
	}

	switch x := r.Intn(100); {
	case x < 25:
		return Node{K: "w", N: r.Intn(2), Sub: []Node{GenTree(r, d-1, o)}}
	case x < 50:
		n := r.Range(1, 3)
		if r.Chance(4) {
			n = 0
		}

		subs := make([]Node, n)
		for i := range subs {
			subs[i] = GenTree(r, d-1, o)
		}

		return Node{K: "j", N: r.Intn(3), Sub: subs}
	default:
		subs := make([]Node, r.Range(1, 3))
		for i := range subs {
			subs[i] = GenTree(r, d-1, o)
		}

		return Node{K: "c", N: r.Intn(2), Ctx: r.Chance(25), Sub: subs}
	}
}
