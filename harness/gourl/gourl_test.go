//go:build verif

package config

// GoUrl driver: random/edge byte strings through the real net/url (and the few
// `strings` helpers heimdall uses next to it).  The observations are compared
// with coq/Base/GoUrl.v by Run/Eval_GoUrl.v.

import (
	"net/url"
	"sort"
	"strings"
	"testing"

	"github.com/dadrus/heimdall/internal/zzverif/vf"
)

type guCase struct {
	S string `json:"s"`
	T string `json:"t"`
}

type guKV struct {
	K  string   `json:"k"`
	Vs []string `json:"vs"`
}

type guObs struct {
	Unesc     *string    `json:"unesc"`
	QUnesc    *string    `json:"qunesc"`
	EscPath   string     `json:"esc_path"`
	EscSeg    string     `json:"esc_seg"`
	EscQ      string     `json:"esc_q"`
	SetPathNA bool       `json:"setpath_na"`
	SetPath   *[2]string `json:"setpath"`
	Escaped1  string     `json:"escaped1"`
	Escaped2  string     `json:"escaped2"`
	ReqURI    string     `json:"requri"`
	PQ        []guKV     `json:"pq"`
	PQErr     bool       `json:"pq_err"`
	Enc       string     `json:"enc"`
	DelEnc    string     `json:"del_enc"`
	Contains  bool       `json:"contains"`
	Replace   string     `json:"replace"`
	ReplaceBk string     `json:"replace_back"`
	CutPrefix *string    `json:"cut_prefix"`
}

var guPieces = []string{
	"/", "/", "/", "a", "b", "admin", "api", "x", "Z", "0", "9", "-", ".", "_", "~",
	"%2F", "%2f", "%2F", "%41", "%61", "%7e", "%7E", "%2d", "%5F", "%zz", "%", "%4", "%g1", "%1g", "%25", "%252F", "%00", "%20", "%3F", "%3f", "%3B", "%26", "%3D", "%2B",
	"+", " ", "?", ";", "&", "=", "*", "\"", "<", ">", "[", "]", "!", "$", "'", "(", ")", ",", ":", "@", "#", "\\", "^", "`", "{", "|", "}",
	"\x00", "\x1f", "\x7f", "\x80", "\xc3\xa4", "\xff", "$$$escaped-slash$$$", "$$$", "%2", "2F",
}

func guStr(r *vf.Rand, maxPieces int) string {
	var sb strings.Builder

	n := r.Intn(maxPieces + 1)
	for i := 0; i < n; i++ {
		switch {
		case r.Chance(8):
			sb.WriteByte(byte(r.Intn(256)))
		case r.Chance(10):
			// a random well-formed triplet in random hex case
			const hx = "0123456789abcdefABCDEF"
			sb.WriteByte('%')
			sb.WriteByte(hx[r.Intn(len(hx))])
			sb.WriteByte(hx[r.Intn(len(hx))])
		default:
			sb.WriteString(vf.Pick(r, guPieces))
		}
	}

	return sb.String()
}

func guQuery(r *vf.Rand) string {
	keys := []string{"a", "b", "foo", "bar", "a%20b", "a+b", "%61", "", "k;", "%zz", "x=y", "ä"}
	vals := []string{"1", "", "x%2Fy", "a+b", "%41", "%", "v;w", "a=b", "%26", "ü", " "}
	n := r.Intn(6)
	parts := make([]string, 0, n)

	for i := 0; i < n; i++ {
		switch r.Intn(10) {
		case 0:
			parts = append(parts, "")
		case 1:
			parts = append(parts, vf.Pick(r, keys))
		case 2:
			parts = append(parts, guStr(r, 3))
		default:
			parts = append(parts, vf.Pick(r, keys)+"="+vf.Pick(r, vals))
		}
	}

	return strings.Join(parts, "&")
}

func guGen(r *vf.Rand) guCase {
	var c guCase

	switch r.Intn(10) {
	case 0, 1, 2:
		c.S = guQuery(r)
		c.T = vf.Pick(r, []string{"a", "b", "foo", "a b", "", "ä"})
	case 3:
		c.S = guStr(r, 10)
		c.T = guStr(r, 4)
	default:
		c.S = "/" + guStr(r, 9)
		switch r.Intn(4) {
		case 0:
			c.T, _ = url.PathUnescape(c.S)
		case 1:
			// a prefix of S (cut prefix hits)
			c.T = c.S[:r.Intn(len(c.S)+1)]
		case 2:
			c.T = guStr(r, 4)
		default:
			c.T = "/" + guStr(r, 3)
		}
	}

	return c
}

func guPtr(s string, err error) *string {
	if err != nil {
		return nil
	}

	return &s
}

func guHasCTL(s string) bool {
	for i := 0; i < len(s); i++ {
		if s[i] < ' ' || s[i] == 0x7f {
			return true
		}
	}

	return false
}

func guRun(c guCase) guObs {
	var o guObs

	o.Unesc = guPtr(url.PathUnescape(c.S))
	o.QUnesc = guPtr(url.QueryUnescape(c.S))
	// escape(s, encodePath) is reachable through EscapedPath with an empty RawPath
	if c.S == "*" {
		o.EscPath = "%2A"
	} else {
		o.EscPath = (&url.URL{Path: c.S}).EscapedPath()
	}

	o.EscSeg = url.PathEscape(c.S)
	o.EscQ = url.QueryEscape(c.S)

	// setPath through ParseRequestURI (what the HTTP server calls); only for
	// origin-form targets without '?' and control bytes, which the parser
	// handles before setPath
	if strings.HasPrefix(c.S, "/") && !strings.Contains(c.S, "?") && !guHasCTL(c.S) {
		if u, err := url.ParseRequestURI(c.S); err == nil {
			o.SetPath = &[2]string{u.Path, u.RawPath}
		}
	} else {
		o.SetPathNA = true
	}

	p1, _ := url.PathUnescape(c.S)
	o.Escaped1 = (&url.URL{Path: p1, RawPath: c.S}).EscapedPath()
	o.Escaped2 = (&url.URL{Path: c.T, RawPath: c.S}).EscapedPath()
	o.ReqURI = (&url.URL{Path: c.T, RawPath: c.S, RawQuery: c.T}).RequestURI()

	vals, err := url.ParseQuery(c.S)
	o.PQErr = err != nil

	keys := make([]string, 0, len(vals))
	for k := range vals {
		keys = append(keys, k)
	}

	sort.Strings(keys)

	o.PQ = []guKV{}
	for _, k := range keys {
		o.PQ = append(o.PQ, guKV{K: k, Vs: vals[k]})
	}

	o.Enc = vals.Encode()
	vals.Del(c.T)
	o.DelEnc = vals.Encode()

	o.Contains = strings.Contains(c.S, "%2F")
	o.Replace = strings.ReplaceAll(c.S, "%2F", "$$$escaped-slash$$$")
	o.ReplaceBk = strings.ReplaceAll(c.S, "$$$escaped-slash$$$", "%2F")
	if rest, ok := strings.CutPrefix(c.S, c.T); ok {
		o.CutPrefix = &rest
	}

	return o
}

func guOptStr(p *string) string {
	if p == nil {
		return "None"
	}

	return "(Some " + vf.CoqStr(*p) + ")"
}

func guCoq(c guCase, o guObs) string {
	sp := "None"
	if !o.SetPathNA {
		if o.SetPath == nil {
			sp = "(Some None)"
		} else {
			sp = "(Some (Some " + vf.CoqPair(vf.CoqStr(o.SetPath[0]), vf.CoqStr(o.SetPath[1])) + "))"
		}
	}

	pq := vf.CoqListOf(o.PQ, func(kv guKV) string { return vf.CoqPair(vf.CoqStr(kv.K), vf.CoqStrs(kv.Vs)) })

	return vf.CoqApp("gu", vf.CoqStr(c.S), vf.CoqStr(c.T), guOptStr(o.Unesc), guOptStr(o.QUnesc),
		vf.CoqStr(o.EscPath), vf.CoqStr(o.EscSeg), vf.CoqStr(o.EscQ), sp,
		vf.CoqStr(o.Escaped1), vf.CoqStr(o.Escaped2), vf.CoqStr(o.ReqURI),
		pq, vf.CoqBool(o.PQErr), vf.CoqStr(o.Enc), vf.CoqStr(o.DelEnc),
		vf.CoqBool(o.Contains), vf.CoqStr(o.Replace), vf.CoqStr(o.ReplaceBk), guOptStr(o.CutPrefix))
}

func guTags(c guCase, o guObs) []string {
	tags := []string{}
	if o.Unesc == nil {
		tags = append(tags, "gourl:unescape-error")
	} else if *o.Unesc != c.S {
		tags = append(tags, "gourl:has-escapes")
	}

	if !o.SetPathNA && o.SetPath != nil {
		if o.SetPath[1] != "" {
			tags = append(tags, "gourl:rawpath-set")
		} else {
			tags = append(tags, "gourl:rawpath-empty")
		}
	}

	if o.Unesc != nil && o.Escaped1 != c.S {
		tags = append(tags, "gourl:rawpath-not-valid-encoded")
	}

	if o.PQErr {
		tags = append(tags, "gourl:query-error")
	}

	if len(o.PQ) > 1 {
		tags = append(tags, "gourl:query-multikey")
	}

	if o.Contains {
		tags = append(tags, "gourl:contains-%2F")
	}

	if o.CutPrefix != nil && c.T != "" {
		tags = append(tags, "gourl:prefix-cut")
	}

	return tags
}

func guCorpus() []guCase {
	return []guCase{
		{S: "", T: ""},
		{S: "*", T: "*"},
		{S: "/", T: "/"},
		{S: "/api/%61dmin", T: "/api/admin"},
		{S: "/a%2Fb", T: "/a/b"},
		{S: "/a%2fb", T: "/a/b"},
		{S: "/a%2", T: "/a"},
		{S: "/a%", T: "/a"},
		{S: "/a%zz", T: "/a"},
		{S: "/a b", T: "/a b"},
		{S: "/a\"b", T: "/a\"b"},
		{S: "/[a]:@!$&'()*+,;=", T: "/[a]:@!$&'()*+,;="},
		{S: "/%2F%2F%2F", T: "/%2F"},
		{S: "/%2%2F2F", T: "/"},
		{S: "/$$$escaped-slash$$$", T: "/"},
		{S: "a=1&b=2&a=3", T: "a"},
		{S: "b=2&a=1&&c", T: "c"},
		{S: "a=%zz&b=1", T: "b"},
		{S: "a=1;b=2&c=3", T: "c"},
		{S: "a+b=c+d&a%20b=e", T: "a b"},
		{S: "=v&k=", T: ""},
		{S: "\xff=\x00", T: "\xff"},
	}
}

func TestVerifGoUrl(t *testing.T) {
	w := vf.NewWriter()
	defer w.Close()

	root := vf.NewRand(vf.Seed() + 0x60)
	n := vf.N(3000)
	idx := 0

	emit := func(stream string, c guCase) {
		if vf.Want(idx) {
			o := guRun(c)
			w.Put(vf.Obs{
				I: idx, Stream: stream, In: c, Out: o, Coq: guCoq(c, o),
				Nontrivial: (o.Unesc != nil && *o.Unesc != c.S) || o.Unesc == nil || len(o.PQ) > 0,
				Tags:       guTags(c, o),
			})
		}

		idx++
	}

	for _, c := range guCorpus() {
		emit("corpus", c)
	}

	for i := 0; i < n; i++ {
		emit("generated", guGen(root.Fork(uint64(i))))
	}
}
