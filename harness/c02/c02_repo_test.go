//go:build verif

package rules

// C02 driver, stream "repo": generated rule sets (real ruleImpl / routeImpl
// values with the real method matcher plus a table-driven stub condition) loaded
// with AddRuleSet into a fresh repository, followed by FindRule calls.
// Observation: whether each rule set was accepted, and for every request the id
// of the rule returned, "default" or "norule" (heimdall.ErrNoRuleFound).

import (
	"context"
	"errors"
	"fmt"
	"testing"

	"github.com/dadrus/heimdall/internal/heimdall"
	"github.com/dadrus/heimdall/internal/rules/rule"
	"github.com/dadrus/heimdall/internal/zzverif/c02gen"
	"github.com/dadrus/heimdall/internal/zzverif/vf"
)

type c02Ctx struct {
	req *heimdall.Request
}

func (c *c02Ctx) Request() *heimdall.Request       { return c.req }
func (c *c02Ctx) AddHeaderForUpstream(_, _ string) {}
func (c *c02Ctx) AddCookieForUpstream(_, _ string) {}
func (c *c02Ctx) AppContext() context.Context      { return context.Background() }
func (c *c02Ctx) SetPipelineError(_ error)         {}
func (c *c02Ctx) Outputs() map[string]any          { return map[string]any{} }

// the stub condition: the rule's id is in the table of the current request
type c02TableMatcher struct {
	id  int
	cur **c02gen.RepoLookup
}

var errC02NotInTable = errors.New("not in table")

func (m *c02TableMatcher) Matches(_ *heimdall.Request, keys, vals []string) error {
	l := *m.cur
	if c02gen.Accept(l.Table, l.Modes, l.Needle, m.id, keys, vals) {
		return nil
	}

	return errC02NotInTable
}

func c02RunRepo(c c02gen.RepoCase) (o c02gen.RepoObs) {
	defer func() {
		if p := recover(); p != nil {
			o.Panic = fmt.Sprint(p)
		}
	}()

	factory := &ruleFactory{}
	if c.Default {
		factory.hasDefaultRule = true
		factory.defaultRule = &ruleImpl{id: "default", srcID: "config", isDefault: true}
	}

	repo := newRepository(factory)
	var cur *c02gen.RepoLookup

	for _, s := range c.Sets {
		src := fmt.Sprintf("src%d", s.Src)
		rules := make([]rule.Rule, 0, len(s.Rules))

		for _, ru := range s.Rules {
			ri := &ruleImpl{id: c.Name(ru.ID), srcID: src, allowsBacktracking: ru.Bt}

			mm, err := createMethodMatcher(append([]string(nil), ru.Methods...))
			if err != nil {
				panic(err)
			}

			for _, p := range ru.Routes {
				ri.routes = append(ri.routes, &routeImpl{
					rule: ri, path: p,
					matcher: compositeMatcher{mm, &c02TableMatcher{id: ru.ID, cur: &cur}},
				})
			}

			rules = append(rules, ri)
		}

		o.Sets = append(o.Sets, repo.AddRuleSet(src, rules) == nil)
	}

	for i := range c.Lookups {
		l := c.Lookups[i]
		cur = &c.Lookups[i]

		u := &heimdall.URL{}
		u.Scheme = "http"
		u.Host = "example.com"

		if l.UseRaw && l.Path != "" { // an empty RawPath means "use Path"
			u.Path = "/decoy"
			u.RawPath = l.Path
		} else {
			u.Path = l.Path
		}

		ctx := &c02Ctx{req: &heimdall.Request{Method: l.Method, URL: u}}
		found, err := repo.FindRule(ctx)

		switch {
		case err == nil && found == factory.DefaultRule() && c.Default:
			o.Lookups = append(o.Lookups, "default")
		case err == nil:
			o.Lookups = append(o.Lookups, "rule:"+found.ID())
		case errors.Is(err, heimdall.ErrNoRuleFound):
			o.Lookups = append(o.Lookups, "norule")
		default:
			o.Lookups = append(o.Lookups, "other:"+err.Error())
		}
	}

	return o
}

func TestVerifC02Repo(t *testing.T) {
	w := vf.NewWriter()
	defer w.Close()

	root := vf.NewRand(vf.Seed() + 7000003)
	n := vf.N(200)
	idx := 0

	emit := func(stream string, c c02gen.RepoCase) {
		if vf.Want(idx) {
			o := c02RunRepo(c)
			nt, tags := c02gen.RepoClassify(c, o)
			w.Put(vf.Obs{I: idx, Stream: stream, In: c, Out: o, Coq: c02gen.RepoCoq(c, o), Nontrivial: nt, Tags: tags})
		}

		idx++
	}

	for _, c := range c02gen.RepoCorpus() {
		emit("corpus", c)
	}

	for i := 0; i < n; i++ {
		emit("generated", c02gen.GenRepo(root.Fork(uint64(i))))
	}
}
