//go:build verif

package rules

// C02 driver, stream "repo": generated rule sets (real ruleImpl / routeImpl
// values with the real method matcher plus a table-driven stub condition) loaded
// with AddRuleSet into a fresh repository, followed by FindRule calls.
// Observation: whether each rule set was accepted, and for every request the id
// of the rule returned, "default" or "norule" (heimdall.ErrNoRuleFound).

import (
	"context"
	"errors"
	"fmt"
	"testing"

	"github.com/rs/zerolog"

	"github.com/dadrus/heimdall/internal/config"
	"github.com/dadrus/heimdall/internal/heimdall"
	config2 "github.com/dadrus/heimdall/internal/rules/config"
	"github.com/dadrus/heimdall/internal/rules/mechanisms/authenticators"
	"github.com/dadrus/heimdall/internal/rules/mechanisms/authorizers"
	"github.com/dadrus/heimdall/internal/rules/mechanisms/contextualizers"
	"github.com/dadrus/heimdall/internal/rules/mechanisms/errorhandlers"
	"github.com/dadrus/heimdall/internal/rules/mechanisms/finalizers"
	"github.com/dadrus/heimdall/internal/rules/mechanisms/subject"
	"github.com/dadrus/heimdall/internal/rules/rule"
	"github.com/dadrus/heimdall/internal/zzverif/c02gen"
	"github.com/dadrus/heimdall/internal/zzverif/vf"
)

type c02Ctx struct {
	req *heimdall.Request
}

func (c *c02Ctx) Request() *heimdall.Request       { return c.req }
func (c *c02Ctx) AddHeaderForUpstream(_, _ string) {}
func (c *c02Ctx) AddCookieForUpstream(_, _ string) {}
func (c *c02Ctx) AppContext() context.Context      { return context.Background() }
func (c *c02Ctx) SetPipelineError(_ error)         {}
func (c *c02Ctx) Outputs() map[string]any          { return map[string]any{} }

// the stub condition: the rule's id is in the table of the current request
type c02TableMatcher struct {
	id  int
	cur **c02gen.RepoLookup
}

var errC02NotInTable = errors.New("not in table")

func (m *c02TableMatcher) Matches(_ *heimdall.Request, keys, vals []string) error {
	l := *m.cur
	if c02gen.Accept(l.Table, l.Modes, l.Needle, m.id, keys, vals) {
		return nil
	}

	return errC02NotInTable
}

func c02RunRepoOrder(c c02gen.RepoCase, order []int) (o c02gen.RepoObs) {
	defer func() {
		if p := recover(); p != nil {
			o.Panic = fmt.Sprint(p)
		}
	}()

	factory := &ruleFactory{}
	if c.Default {
		factory.hasDefaultRule = true
		factory.defaultRule = &ruleImpl{id: "default", srcID: "config", isDefault: true}
	}

	repo := newRepository(factory)
	var cur *c02gen.RepoLookup

	for _, si := range order {
		s := c.Sets[si]
		src := fmt.Sprintf("src%d", s.Src)
		rules := make([]rule.Rule, 0, len(s.Rules))

		for _, ru := range s.Rules {
			ri := &ruleImpl{id: c.Name(ru.ID), srcID: src, allowsBacktracking: ru.Bt}

			mm, err := createMethodMatcher(append([]string(nil), ru.Methods...))
			if err != nil {
				panic(err)
			}

			for _, p := range ru.Routes {
				ri.routes = append(ri.routes, &routeImpl{
					rule: ri, path: p,
					matcher: compositeMatcher{mm, &c02TableMatcher{id: ru.ID, cur: &cur}},
				})
			}

			rules = append(rules, ri)
		}

		o.Sets = append(o.Sets, repo.AddRuleSet(src, rules) == nil)
	}

	for i := range c.Lookups {
		l := c.Lookups[i]
		cur = &c.Lookups[i]

		u := &heimdall.URL{}
		u.Scheme = "http"
		u.Host = "example.com"

		if l.UseRaw && l.Path != "" { // an empty RawPath means "use Path"
			u.Path = "/decoy"
			u.RawPath = l.Path
		} else {
			u.Path = l.Path
		}

		ctx := &c02Ctx{req: &heimdall.Request{Method: l.Method, URL: u}}
		found, err := repo.FindRule(ctx)

		switch {
		case err == nil && found == factory.DefaultRule() && c.Default:
			o.Lookups = append(o.Lookups, "default")
		case err == nil:
			o.Lookups = append(o.Lookups, "rule:"+found.ID())
		case errors.Is(err, heimdall.ErrNoRuleFound):
			o.Lookups = append(o.Lookups, "norule")
		default:
			o.Lookups = append(o.Lookups, "other:"+err.Error())
		}
	}

	return o
}

// ---- stream "processor": configuration -> real rule-set processor -> real factory -> real repository ----

type c02Authn struct{}

func (c02Authn) Execute(heimdall.Context) (*subject.Subject, error) {
	return &subject.Subject{ID: "x"}, nil
}
func (c02Authn) WithConfig(map[string]any) (authenticators.Authenticator, error) {
	return c02Authn{}, nil
}
func (c02Authn) IsFallbackOnErrorAllowed() bool { return false }
func (c02Authn) ID() string                     { return "a" }
func (c02Authn) ContinueOnError() bool          { return false }

type c02MechFactory struct{}

var errC02NoMech = errors.New("no such mechanism")

func (c02MechFactory) CreateAuthenticator(_, _ string, _ config.MechanismConfig) (authenticators.Authenticator, error) {
	return c02Authn{}, nil
}

func (c02MechFactory) CreateAuthorizer(_, _ string, _ config.MechanismConfig) (authorizers.Authorizer, error) {
	return nil, errC02NoMech
}

func (c02MechFactory) CreateContextualizer(_, _ string, _ config.MechanismConfig) (contextualizers.Contextualizer, error) {
	return nil, errC02NoMech
}

func (c02MechFactory) CreateFinalizer(_, _ string, _ config.MechanismConfig) (finalizers.Finalizer, error) {
	return nil, errC02NoMech
}

func (c02MechFactory) CreateErrorHandler(_, _ string, _ config.MechanismConfig) (errorhandlers.ErrorHandler, error) {
	return nil, errC02NoMech
}

func c02RuleConfig(c c02gen.RepoCase, ru c02gen.Rule) config2.Rule {
	rc := config2.Rule{
		ID:      c.Name(ru.ID),
		Matcher: config2.Matcher{Scheme: ru.Scheme, Methods: append([]string(nil), ru.Methods...)},
		Execute: []config.MechanismConfig{{"authenticator": "a"}},
	}

	if !ru.BtUnset {
		bt := ru.Bt
		rc.Matcher.BacktrackingEnabled = &bt
	}

	if ru.Host != "" {
		rc.Matcher.Hosts = []config2.HostMatcher{{Type: "exact", Value: ru.Host}}
	}

	for _, p := range ru.Routes {
		rc.Matcher.Routes = append(rc.Matcher.Routes, config2.Route{Path: p})
	}

	return rc
}

// c02RunRepo loads the rule sets in the order of the case and, as a twin, in reverse order: if
// both orders accept every set, every request must be answered alike (order independence).
func c02RunRepo(c c02gen.RepoCase) c02gen.RepoObs {
	order := make([]int, len(c.Sets))
	rev := make([]int, len(c.Sets))

	for i := range order {
		order[i] = i
		rev[i] = len(c.Sets) - 1 - i
	}

	o := c02RunRepoOrder(c, order)
	if len(c.Sets) < 2 || o.Panic != "" {
		return o
	}

	all := func(bs []bool) bool {
		for _, b := range bs {
			if !b {
				return false
			}
		}

		return true
	}

	t := c02RunRepoOrder(c, rev)
	if all(o.Sets) && all(t.Sets) && t.Panic == "" {
		o.TwinChecked = true

		for i := range o.Lookups {
			if i >= len(t.Lookups) || o.Lookups[i] != t.Lookups[i] {
				o.TwinMismatch = append(o.TwinMismatch, i)
			}
		}
	}

	return o
}

// ---- stream "history" ----------------------------------------------------------------------

func c02RunHist(c c02gen.HistCase) (o c02gen.HistObs) {
	defer func() {
		if p := recover(); p != nil {
			o.Panic = fmt.Sprint(p)
		}
	}()

	conf := &config.Configuration{}
	if c.Default {
		conf.Default = &config.DefaultRule{Execute: []config.MechanismConfig{{"authenticator": "a"}}}
	}

	factory, err := NewRuleFactory(c02MechFactory{}, conf, config.DecisionMode, zerolog.Nop())
	if err != nil {
		panic(err)
	}

	repo := newRepository(factory)
	proc := NewRuleSetProcessor(repo, factory)
	rcase := c02gen.RepoCase{Names: c.Names}
	known := map[int]map[string][]byte{} // rule-set id -> rule id -> definition hash of what is loaded

	for _, op := range c.Ops {
		rs := &config2.RuleSet{Version: config2.CurrentRuleSetVersion, Name: fmt.Sprintf("set%d", op.Src)}
		rs.Source = fmt.Sprintf("src%d", op.Src)

		hashes := map[string][]byte{}

		var same, equal []bool

		for _, ru := range op.Rules {
			rc := c02RuleConfig(rcase, ru)
			rc.EncodedSlashesHandling = []config2.EncodedSlashesHandling{
				config2.EncodedSlashesOff, config2.EncodedSlashesOn, config2.EncodedSlashesOnNoDecode,
			}[ru.Ver%3]

			h, err := rc.Hash()
			if err != nil {
				panic(err)
			}

			hashes[rc.ID] = h
			old, ok := known[op.Src][rc.ID]
			same = append(same, ok)
			equal = append(equal, ok && string(old) == string(h))

			rs.Rules = append(rs.Rules, rc)
		}

		o.Same = append(o.Same, same)
		o.Equal = append(o.Equal, equal)

		var opErr error

		switch op.Kind {
		case "create":
			opErr = proc.OnCreated(rs)
		case "update":
			opErr = proc.OnUpdated(rs)
		default:
			opErr = proc.OnDeleted(rs)
		}

		o.Ops = append(o.Ops, opErr == nil)

		if opErr == nil {
			if op.Kind == "delete" {
				delete(known, op.Src)
			} else {
				known[op.Src] = hashes
			}
		}
	}

	for _, l := range c.Lookups {
		u := &heimdall.URL{}
		u.Scheme, u.Host, u.Path = "http", "a.example", l.Path

		found, err := repo.FindRule(&c02Ctx{req: &heimdall.Request{Method: l.Method, URL: u}})

		switch {
		case err == nil && c.Default && found == factory.DefaultRule():
			o.Lookups = append(o.Lookups, "default")
		case err == nil:
			o.Lookups = append(o.Lookups, "rule:"+found.ID())
		case errors.Is(err, heimdall.ErrNoRuleFound):
			o.Lookups = append(o.Lookups, "norule")
		default:
			o.Lookups = append(o.Lookups, "other:"+err.Error())
		}
	}

	return o
}

func TestVerifC02History(t *testing.T) {
	w := vf.NewWriter()
	defer w.Close()

	root := vf.NewRand(vf.Seed() + 11000027)
	n := vf.N(200)
	idx := 0

	emit := func(stream string, c c02gen.HistCase) {
		if vf.Want(idx) {
			o := c02RunHist(c)
			nt, tags := c02gen.HistClassify(c, o)
			w.Put(vf.Obs{I: idx, Stream: stream, In: c, Out: o, Coq: c02gen.HistCoq(c, o), Nontrivial: nt, Tags: tags})
		}

		idx++
	}

	for _, c := range c02gen.HistCorpus() {
		emit("corpus", c)
	}

	for i := 0; i < n; i++ {
		emit("generated", c02gen.GenHist(root.Fork(uint64(i))))
	}
}

func c02RunProc(c c02gen.RepoCase) (o c02gen.RepoObs) {
	defer func() {
		if p := recover(); p != nil {
			o.Panic = fmt.Sprint(p)
		}
	}()

	conf := &config.Configuration{}
	if c.Default {
		conf.Default = &config.DefaultRule{
			BacktrackingEnabled: c.DefaultBt,
			Execute:             []config.MechanismConfig{{"authenticator": "a"}},
		}
	}

	factory, err := NewRuleFactory(c02MechFactory{}, conf, config.DecisionMode, zerolog.Nop())
	if err != nil {
		panic(err)
	}

	repo := newRepository(factory)
	proc := NewRuleSetProcessor(repo, factory)

	for _, s := range c.Sets {
		rs := &config2.RuleSet{Version: config2.CurrentRuleSetVersion, Name: fmt.Sprintf("set%d", s.Src)}
		rs.Source = fmt.Sprintf("src%d", s.Src)

		for _, ru := range s.Rules {
			rs.Rules = append(rs.Rules, c02RuleConfig(c, ru))
		}

		o.Sets = append(o.Sets, proc.OnCreated(rs) == nil)
	}

	for _, l := range c.Lookups {
		u := &heimdall.URL{}
		u.Scheme, u.Host, u.Path = l.Scheme, l.Host, l.Path

		found, err := repo.FindRule(&c02Ctx{req: &heimdall.Request{Method: l.Method, URL: u}})

		switch {
		case err == nil && c.Default && found == factory.DefaultRule():
			o.Lookups = append(o.Lookups, "default")
		case err == nil:
			o.Lookups = append(o.Lookups, "rule:"+found.ID())
		case errors.Is(err, heimdall.ErrNoRuleFound):
			o.Lookups = append(o.Lookups, "norule")
		default:
			o.Lookups = append(o.Lookups, "other:"+err.Error())
		}
	}

	return o
}

func TestVerifC02Processor(t *testing.T) {
	w := vf.NewWriter()
	defer w.Close()

	root := vf.NewRand(vf.Seed() + 9000011)
	n := vf.N(200)
	idx := 0

	emit := func(stream string, c c02gen.RepoCase) {
		if vf.Want(idx) {
			o := c02RunProc(c)
			nt, tags := c02gen.RepoClassify(c, o)
			w.Put(vf.Obs{I: idx, Stream: stream, In: c, Out: o, Coq: c02gen.RepoCoq(c, o), Nontrivial: nt, Tags: tags})
		}

		idx++
	}

	for _, c := range c02gen.ProcCorpus() {
		emit("corpus", c)
	}

	for i := 0; i < n; i++ {
		emit("generated", c02gen.GenProc(root.Fork(uint64(i))))
	}
}

func TestVerifC02Repo(t *testing.T) {
	w := vf.NewWriter()
	defer w.Close()

	root := vf.NewRand(vf.Seed() + 7000003)
	n := vf.N(200)
	idx := 0

	emit := func(stream string, c c02gen.RepoCase) {
		if vf.Want(idx) {
			o := c02RunRepo(c)
			nt, tags := c02gen.RepoClassify(c, o)
			w.Put(vf.Obs{I: idx, Stream: stream, In: c, Out: o, Coq: c02gen.RepoCoq(c, o), Nontrivial: nt, Tags: tags})
		}

		idx++
	}

	for _, c := range c02gen.RepoCorpus() {
		emit("corpus", c)
	}

	for i := 0; i < n; i++ {
		emit("generated", c02gen.GenRepo(root.Fork(uint64(i))))
	}
}
