//go:build verif

package radixtree

// C02 driver, stream "tree": generated sequences of Add (with the repository's
// values constraint and a WithBacktracking option per Add) on a fresh Tree,
// followed by lookups with "conditions as data" (the set of value ids whose
// additional conditions hold).  Observation: the result kind of every Add and
// the id of the value every Find returns (or none).

import (
	"errors"
	"fmt"
	"testing"

	"github.com/dadrus/heimdall/internal/zzverif/c02gen"
	"github.com/dadrus/heimdall/internal/zzverif/vf"
)

type c02Val struct {
	ID  int
	Src int
}

// ---- running the real tree ----------------------------------------------------

func c02Run(c c02gen.Case) (o c02gen.Obs) {
	defer func() {
		if p := recover(); p != nil {
			o.Panic = fmt.Sprint(p)
		}
	}()

	tree := New[c02Val](WithValuesConstraints(func(old []c02Val, nv c02Val) bool {
		return len(old) == 0 || old[0].Src == nv.Src
	}))

	for _, a := range c.Adds {
		err := tree.Add(a.Expr, c02Val{ID: a.ID, Src: a.Src}, WithBacktracking[c02Val](a.Bt))

		switch {
		case err == nil:
			o.Adds = append(o.Adds, "added")
		case errors.Is(err, ErrInvalidPath):
			o.Adds = append(o.Adds, "invalid")
		case errors.Is(err, ErrConstraintsViolation):
			o.Adds = append(o.Adds, "constraint")
		default:
			o.Adds = append(o.Adds, "other:"+err.Error())
		}
	}

	for _, l := range c.Lookups {
		entry, err := tree.Find(l.Path, LookupMatcherFunc[c02Val](func(v c02Val, keys, vals []string) bool {
			return c02gen.Accept(l.OK, l.Modes, l.Needle, v.ID, keys, vals)
		}))

		switch {
		case err == nil:
			o.Lookups = append(o.Lookups, c02gen.LkObs{ID: entry.Value.ID, Params: entry.Parameters})
		case errors.Is(err, ErrNotFound):
			o.Lookups = append(o.Lookups, c02gen.LkObs{})
		default:
			o.Lookups = append(o.Lookups, c02gen.LkObs{ID: -1})
		}
	}

	return o
}

// ---- the test ---------------------------------------------------------------------

func TestVerifC02Tree(t *testing.T) {
	w := vf.NewWriter()
	defer w.Close()

	root := vf.NewRand(vf.Seed())
	n := vf.N(300)
	idx := 0

	emit := func(stream string, c c02gen.Case) {
		if vf.Want(idx) {
			o := c02Run(c)
			nt, tags := c02gen.Classify(c, o)
			w.Put(vf.Obs{I: idx, Stream: stream, In: c, Out: o, Coq: c02gen.Coq(c, o), Nontrivial: nt, Tags: tags})
		}

		idx++
	}

	for _, c := range c02gen.Corpus() {
		emit("corpus", c)
	}

	for i := 0; i < n; i++ {
		emit("generated", c02gen.Gen(root.Fork(uint64(i))))
	}
}
