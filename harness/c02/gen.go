//go:build verif

// Package c02gen holds what the two C02 drivers (internal/x/radixtree and
// internal/rules) share: structured path expressions, the generators of
// expression sets with forced shared prefixes, of request paths (instances and
// near misses) and of condition outcomes, the classification of a case for the
// input histogram, and the rendering of the tree-level case as a Gallina term.
// Injected with `go test -overlay`; not part of /repo.
package c02gen

import (
	"fmt"
	"strings"

	"github.com/dadrus/heimdall/internal/zzverif/vf"
)

// ---- structured path expressions ------------------------------------------

const (
	Static = iota
	Wild
	Catch
)

type Seg struct {
	Kind int    `json:"k"`
	Lit  string `json:"lit,omitempty"` // the bytes a static segment matches
	Raw  string `json:"raw"`           // how the segment is written
}

type Expr struct {
	Lead  bool  `json:"lead"`  // leading '/'
	Segs  []Seg `json:"segs"`  // separated by '/'
	Trail bool  `json:"trail"` // trailing '/'
}

func (e Expr) String() string {
	var sb strings.Builder

	if e.Lead {
		sb.WriteByte('/')
	}

	for i, s := range e.Segs {
		if i > 0 {
			sb.WriteByte('/')
		}

		sb.WriteString(s.Raw)
	}

	if e.Trail {
		sb.WriteByte('/')
	}

	return sb.String()
}

// valid: a free wildcard is the last thing of the expression.
func (e Expr) Valid() bool {
	for i, s := range e.Segs {
		if s.Kind == Catch && (i != len(e.Segs)-1 || e.Trail) {
			return false
		}
	}

	return true
}

type Tok struct {
	Kind int
	Lit  string
}

func (e Expr) Toks() []Tok {
	var out []Tok

	if e.Lead {
		out = append(out, Tok{Static, "/"})
	}

	for i, s := range e.Segs {
		if i > 0 {
			out = append(out, Tok{Static, "/"})
		}

		out = append(out, Tok{s.Kind, s.Lit})
	}

	if e.Trail {
		out = append(out, Tok{Static, "/"})
	}

	return out
}

// reference matcher on the structure (used for tags / the non-triviality rule only)
func Match(toks []Tok, path string) bool {
	if len(toks) == 0 {
		return path == ""
	}

	t := toks[0]

	switch t.Kind {
	case Static:
		return strings.HasPrefix(path, t.Lit) && Match(toks[1:], path[len(t.Lit):])
	case Wild:
		end := strings.IndexByte(path, '/')
		if end == -1 {
			end = len(path)
		}

		return end > 0 && Match(toks[1:], path[end:])
	default:
		return len(toks) == 1 && path != ""
	}
}

func IsSpecial(b byte) bool { return b == ':' || b == '*' || b == '\\' }

// how a static segment with the given bytes is written
func RenderStatic(r *vf.Rand, lit string) string {
	if lit == "" {
		return ""
	}

	switch {
	case lit[0] == ':' || lit[0] == '*':
		return "\\" + lit
	case lit[0] == '\\':
		if len(lit) == 1 || !IsSpecial(lit[1]) {
			if r.Bool() {
				return lit // a backslash that escapes nothing is a literal
			}
		}

		return "\\" + lit
	}

	return lit
}

func GenLit(r *vf.Rand) string {
	n := vf.Pick(r, []int{1, 1, 1, 1, 2, 2, 2, 3, 3, 5, 9, 16})
	alpha := "aaaabbbb%:*\\"

	switch k := r.Intn(100); {
	case k < 55:
		alpha = "aaabbb"
	case k < 80:
		// an upper/lower pair, digits, punctuation that some routers treat specially, a non-ASCII byte
		alpha = "aaabbAB12.-;~\xc3\xa9"
	}

	b := make([]byte, n)
	for i := range b {
		b[i] = alpha[r.Intn(len(alpha))]
	}

	return string(b)
}

func GenSeg(r *vf.Rand, last bool) Seg {
	k := r.Intn(100)

	switch {
	case k < 55:
		lit := GenLit(r)

		return Seg{Kind: Static, Lit: lit, Raw: RenderStatic(r, lit)}
	case k < 60:
		return Seg{Kind: Static, Lit: "", Raw: ""} // empty segment: "//"
	case k < 82 || !last && k < 97:
		return Seg{Kind: Wild, Raw: ":" + vf.Pick(r, []string{"x", "x", "y", "id", "", "*"})}
	default:
		return Seg{Kind: Catch, Raw: "*" + vf.Pick(r, []string{"*", "*", "rest", "x", ""})}
	}
}

func CloneExpr(e Expr) Expr {
	return Expr{Lead: e.Lead, Segs: append([]Seg(nil), e.Segs...), Trail: e.Trail}
}

func GenFresh(r *vf.Rand) Expr {
	e := Expr{Lead: r.Chance(92)}
	n := vf.Pick(r, []int{0, 1, 1, 2, 2, 2, 3, 3, 4, 4, 5, 7})

	for i := 0; i < n; i++ {
		e.Segs = append(e.Segs, GenSeg(r, i == n-1))
	}

	e.Trail = n > 0 && r.Chance(12)

	if n == 0 {
		e.Lead = r.Chance(85)
	}

	return e
}

// a new expression that shares a prefix with an earlier one
func GenRelated(r *vf.Rand, pool []Expr) Expr {
	base := CloneExpr(vf.Pick(r, pool))

	switch vf.Pick(r, []int{0, 0, 1, 2, 2, 3, 3, 3, 4, 5, 5, 5, 5, 5, 6, 7, 7, 8, 8, 9, 10, 10, 10}) {
	case 8, 9: // the "directory" form of it, or a child below it
		if len(base.Segs) == 0 || base.Segs[len(base.Segs)-1].Kind == Catch {
			return base
		}

		if !base.Trail && r.Chance(40) {
			base.Trail = true

			return base
		}

		base.Trail = false
		base.Segs = append(base.Segs, GenSeg(r, true))

		return base
	case 0: // the same expression again
		return base
	case 1: // same expression, other key names
		for i := range base.Segs {
			if base.Segs[i].Kind == Wild && r.Bool() {
				base.Segs[i].Raw = ":" + vf.Pick(r, []string{"x", "y", "z"})
			} else if base.Segs[i].Kind == Catch && r.Bool() {
				base.Segs[i].Raw = "*" + vf.Pick(r, []string{"*", "rest", "x"})
			}
		}

		return base
	case 2: // a prefix of it
		if len(base.Segs) > 0 {
			base.Segs = base.Segs[:r.Intn(len(base.Segs))]
		}

		base.Trail = len(base.Segs) > 0 && r.Chance(30)

		return base
	case 3, 4: // change the last static segment: split inside a token
		for i := len(base.Segs) - 1; i >= 0; i-- {
			s := &base.Segs[i]
			if s.Kind != Static || s.Lit == "" {
				continue
			}

			switch r.Intn(4) {
			case 0:
				s.Lit += GenLit(r)
			case 1:
				s.Lit = s.Lit[:len(s.Lit)-1]
			case 2:
				s.Lit = s.Lit[:r.Intn(len(s.Lit))] + vf.Pick(r, []string{"a", "b", ":", "*", "\\", "%"}) + GenLit(r)
			default:
				s.Lit = s.Lit[:r.Intn(len(s.Lit))] + vf.Pick(r, []string{":x", "*", "\\:", "b"})
			}

			s.Raw = RenderStatic(r, s.Lit)

			break
		}

		return base
	case 5: // generalise / specialise one segment: static <-> single wildcard <-> free wildcard
		if len(base.Segs) > 0 {
			i := r.Intn(len(base.Segs))
			last := i == len(base.Segs)-1 && !base.Trail

			switch {
			case base.Segs[i].Kind == Static && (!last || r.Chance(65)):
				base.Segs[i] = Seg{Kind: Wild, Raw: ":" + vf.Pick(r, []string{"x", "y", ""})}
			case base.Segs[i].Kind == Static || base.Segs[i].Kind == Wild && last && r.Bool():
				base.Segs[i] = Seg{Kind: Catch, Raw: "*" + vf.Pick(r, []string{"*", "rest"})}
			default:
				lit := GenLit(r)
				base.Segs[i] = Seg{Kind: Static, Lit: lit, Raw: RenderStatic(r, lit)}
			}
		}

		return base
	case 10: // a free wildcard below a prefix of it
		if len(base.Segs) > 0 {
			base.Segs = base.Segs[:r.Intn(len(base.Segs))]
		}

		base.Trail = false
		base.Segs = append(base.Segs, Seg{Kind: Catch, Raw: "*" + vf.Pick(r, []string{"*", "*", "rest"})})

		if len(base.Segs) == 1 {
			base.Lead = true
		}

		return base
	default: // keep a prefix, continue differently
		if len(base.Segs) > 0 {
			base.Segs = base.Segs[:r.Range(0, len(base.Segs))]
		}

		base.Trail = false
		n := r.Range(0, 2)

		for i := 0; i < n; i++ {
			base.Segs = append(base.Segs, GenSeg(r, i == n-1))
		}

		if len(base.Segs) > 0 && base.Segs[len(base.Segs)-1].Kind != Catch {
			base.Trail = r.Chance(12)
		}

		return base
	}
}

// ---- paths ------------------------------------------------------------------

// Lits: the static segments used by a set of expressions (what a wildcard should
// be filled with so that sibling expressions match the same path)
func Lits(pool []Expr) []string {
	out := []string{"a", "b"}

	for _, e := range pool {
		for _, s := range e.Segs {
			if s.Kind == Static && s.Lit != "" {
				out = append(out, s.Lit)
			}
		}
	}

	return out
}

func Instantiate(r *vf.Rand, e Expr, lits []string) string {
	var sb strings.Builder

	for _, t := range e.Toks() {
		switch t.Kind {
		case Static:
			sb.WriteString(t.Lit)
		case Wild:
			if len(lits) > 0 && r.Chance(65) {
				sb.WriteString(vf.Pick(r, lits))
			} else {
				sb.WriteString(vf.Pick(r, []string{"a", "b", "ab", "ba", "aa", "x", "%2F", ":", "*", "a:b", "\\:a", "a%", "A", "Ab", "1", "a;v=1", "a.b", "\xc3\xa9"}))
			}
		default:
			n := r.Range(1, 3)
			for i := 0; i < n; i++ {
				if i > 0 {
					sb.WriteByte('/')
				}

				if len(lits) > 0 && r.Chance(65) {
					sb.WriteString(vf.Pick(r, lits))
				} else {
					sb.WriteString(vf.Pick(r, []string{"a", "b", "ab", "x", "", ":x", "**", "A", "a;b", "1"}))
				}
			}

			if sb.Len() == 0 || r.Chance(10) {
				sb.WriteString("/")
			}
		}
	}

	return sb.String()
}

func flipCase(p string) string {
	b := []byte(p)
	for i, c := range b {
		if c >= 'a' && c <= 'z' {
			b[i] = c - 32

			return string(b)
		} else if c >= 'A' && c <= 'Z' {
			b[i] = c + 32

			return string(b)
		}
	}

	return p + "A"
}

func NearMiss(r *vf.Rand, p string) string {
	switch r.Intn(9) {
	case 7:
		return flipCase(p)
	case 8:
		if i := strings.IndexByte(p, '/'); i >= 0 && r.Bool() {
			return p[:i] + ";" + p[i+1:]
		}

		return p + ";a"
	case 0:
		if len(p) > 0 {
			return p[:len(p)-1]
		}
	case 1:
		return p + "/"
	case 2:
		return p + "/" + vf.Pick(r, []string{"a", "b", "ab"})
	case 3:
		if len(p) > 0 {
			i := r.Intn(len(p))

			return p[:i] + "/" + p[i:]
		}
	case 4:
		if len(p) > 0 {
			i := r.Intn(len(p))

			return p[:i] + vf.Pick(r, []string{"a", "b", ":", "*", "\\", "%", "A", ";", "1"}) + p[i+1:]
		}
	case 5:
		if i := strings.LastIndexByte(p, '/'); i > 0 {
			return p[:i]
		}
	default:
		if len(p) > 0 {
			i := r.Intn(len(p))

			return p[:i] + p[i+1:]
		}
	}

	return p + "a"
}

func RandomPath(r *vf.Rand) string {
	n := r.Range(0, 8)
	alpha := "aabb//%:*\\A;1."
	b := make([]byte, n)

	for i := range b {
		b[i] = alpha[r.Intn(len(alpha))]
	}

	return string(b)
}

// ---- cases --------------------------------------------------------------------

type Val struct {
	ID  int
	Src int
}

type Add struct {
	Expr string `json:"expr"`
	ID   int    `json:"id"`
	Src  int    `json:"src"`
	Bt   bool   `json:"bt"`
	E    *Expr  `json:"-"`
}

// A Lookup: the path and the additional conditions as data.  The condition of value id holds iff
// id is in OK and, if Modes lists (id, mode), the captures / key names the tree hands to the matcher
// satisfy: 1 Needle is one of the captured values; 2 it is none of them; 3 as many key names as
// captured values; 4 Needle is one of the key names.
type Lookup struct {
	Path   string   `json:"path"`
	OK     []int    `json:"ok"`
	Modes  [][2]int `json:"modes,omitempty"`
	Needle string   `json:"needle,omitempty"`
}

func contains(xs []string, x string) bool {
	for _, y := range xs {
		if y == x {
			return true
		}
	}

	return false
}

// Accept is the lookup matcher both drivers install (Run/Eval_C02.v: m_cap is the same function).
func Accept(ok []int, modes [][2]int, needle string, id int, keys, vals []string) bool {
	in := false

	for _, x := range ok {
		if x == id {
			in = true
		}
	}

	if !in {
		return false
	}

	for _, m := range modes {
		if m[0] != id {
			continue
		}

		switch m[1] {
		case 1:
			return contains(vals, needle)
		case 2:
			return !contains(vals, needle)
		case 3:
			return len(keys) == len(vals)
		case 4:
			return contains(keys, needle)
		}

		return true
	}

	return true
}

func GenModes(r *vf.Rand, n int, lits []string) ([][2]int, string) {
	if r.Chance(30) {
		return nil, ""
	}

	var modes [][2]int

	if r.Chance(35) { // every value insists on as many key names as captured values: any lost or leaked capture shows
		for i := 1; i <= n; i++ {
			modes = append(modes, [2]int{i, 3})
		}

		return modes, ""
	}

	p := vf.Pick(r, []int{15, 30, 60})
	for i := 1; i <= n; i++ {
		if r.Chance(p) {
			modes = append(modes, [2]int{i, r.Range(1, 4)})
		}
	}

	needle := vf.Pick(r, []string{"a", "b", "ab", "x", "y", "id", "*", "rest", ""})
	if len(lits) > 0 && r.Chance(60) {
		needle = vf.Pick(r, lits)
	}

	return modes, needle
}

func CoqModes(ms [][2]int) string {
	return vf.CoqListOf(ms, func(m [2]int) string { return vf.CoqPair(vf.CoqNat(m[0]), vf.CoqNat(m[1])) })
}

type Case struct {
	Adds    []Add    `json:"adds"`
	Lookups []Lookup `json:"lookups"`
}

type LkObs struct {
	ID     int               `json:"id"` // 0 = not found
	Params map[string]string `json:"params,omitempty"`
}

type Obs struct {
	Adds    []string `json:"adds"`
	Lookups []LkObs  `json:"lookups"`
	Panic   string   `json:"panic,omitempty"`
}

func GenOK(r *vf.Rand, n int) []int {
	ok := []int{}

	switch k := r.Intn(100); {
	case k < 15:
		for i := 1; i <= n; i++ {
			ok = append(ok, i)
		}
	case k < 25:
	case k < 45: // one or two acceptable values only: long chains of failed candidates
		ok = append(ok, r.Range(1, n))
		if r.Bool() {
			if j := r.Range(1, n); j != ok[0] {
				ok = append(ok, j)
			}
		}
	default:
		p := vf.Pick(r, []int{25, 50, 75, 90})
		for i := 1; i <= n; i++ {
			if r.Chance(p) {
				ok = append(ok, i)
			}
		}
	}

	return ok
}

func GenLookups(r *vf.Rand, exprs []Expr, nIDs int, n int) []Lookup {
	out := make([]Lookup, 0, n)
	lits := Lits(exprs)

	for i := 0; i < n; i++ {
		var p string

		switch k := r.Intn(100); {
		case k < 58 && len(exprs) > 0:
			p = Instantiate(r, vf.Pick(r, exprs), lits)
		case k < 88 && len(exprs) > 0:
			p = NearMiss(r, Instantiate(r, vf.Pick(r, exprs), lits))
		default:
			p = RandomPath(r)
		}

		modes, needle := GenModes(r, nIDs, lits)
		out = append(out, Lookup{Path: p, OK: GenOK(r, nIDs), Modes: modes, Needle: needle})
	}

	return out
}

func Gen(r *vf.Rand) Case {
	var (
		c    Case
		pool []Expr
	)

	n := vf.Pick(r, []int{1, 2, 3, 4, 5, 6, 7, 8, 9, 10, 11, 12})
	pBt := vf.Pick(r, []int{20, 50, 50, 80})
	srcOf := map[string]int{}

	for i := 0; i < n; i++ {
		var e Expr

		if len(pool) > 0 && r.Chance(68) {
			e = GenRelated(r, pool)
		} else {
			e = GenFresh(r)
		}

		pool = append(pool, e)
		s := e.String()
		src := i + 1

		if prev, ok := srcOf[s]; ok && r.Chance(70) {
			src = prev
		} else if r.Chance(25) && i > 0 {
			src = r.Range(1, i)
		}

		if _, ok := srcOf[s]; !ok {
			srcOf[s] = src
		}

		ec := e
		c.Adds = append(c.Adds, Add{Expr: s, ID: i + 1, Src: src, Bt: r.Chance(pBt), E: &ec})
	}

	valid := make([]Expr, 0, len(pool))
	for _, e := range pool {
		if e.Valid() {
			valid = append(valid, e)
		}
	}

	c.Lookups = GenLookups(r, valid, n, r.Range(8, 24))

	return c
}

// ---- rendering ------------------------------------------------------------------

func CoqNats(xs []int) string {
	return vf.CoqListOf(xs, func(i int) string { return vf.CoqNat(i) })
}

func CoqAddObs(s string) string {
	switch s {
	case "added":
		return "OAdded"
	case "invalid":
		return "OInvalid"
	case "constraint":
		return "OConstraint"
	default:
		return "OOther" // a result class the model does not know
	}
}

func Coq(c Case, o Obs) string {
	adds := make([]string, len(c.Adds))

	for i, a := range c.Adds {
		res := "OOther"
		if i < len(o.Adds) {
			res = CoqAddObs(o.Adds[i])
		}

		adds[i] = vf.CoqApp("ad", vf.CoqStr(a.Expr), vf.CoqNat(a.ID), vf.CoqNat(a.Src), vf.CoqBool(a.Bt), res)
	}

	lks := make([]string, len(c.Lookups))

	for i, l := range c.Lookups {
		res := "(Some 0%nat)" // a missing answer (panic) never equals a model answer: ids start at 1

		if i < len(o.Lookups) && o.Lookups[i].ID >= 0 {
			res = vf.CoqOpt(o.Lookups[i].ID > 0, vf.CoqNat(o.Lookups[i].ID))
		}

		lks[i] = vf.CoqApp("lu", vf.CoqStr(l.Path), CoqNats(l.OK), CoqModes(l.Modes), vf.CoqStr(l.Needle), res)
	}

	return vf.CoqApp("tc", vf.CoqList(adds), vf.CoqList(lks))
}

// ---- classification (tags, non-triviality) ----------------------------------------

func Bucket(n int) string {
	switch {
	case n <= 2:
		return fmt.Sprint(n)
	case n <= 4:
		return "3-4"
	default:
		return "5+"
	}
}

func Classify(c Case, o Obs) (bool, []string) {
	tags := map[string]bool{}
	tags["adds:"+Bucket(len(c.Adds))] = true

	var loaded [][]Tok

	byID := map[int][]Tok{}

	for i, a := range c.Adds {
		if i >= len(o.Adds) {
			break
		}

		tags["add:"+strings.SplitN(o.Adds[i], ":", 2)[0]] = true

		if o.Adds[i] != "added" || a.E == nil {
			continue
		}

		t := a.E.Toks()
		loaded = append(loaded, t)
		byID[a.ID] = t

		for _, s := range a.E.Segs {
			switch {
			case s.Kind == Wild:
				tags["expr:wildcard"] = true
			case s.Kind == Catch:
				tags["expr:free-wildcard"] = true
			case strings.HasPrefix(s.Raw, "\\") && len(s.Raw) >= 2 && IsSpecial(s.Raw[1]):
				tags["expr:escape"] = true
			case s.Lit == "":
				tags["expr:empty-segment"] = true
			}
		}
	}

	nontrivial := false

	for i, l := range c.Lookups {
		if i >= len(o.Lookups) {
			break
		}

		seen := map[string]bool{}
		cands := 0

		for _, t := range loaded {
			if Match(t, l.Path) {
				key := fmt.Sprint(t)
				if !seen[key] {
					seen[key] = true
					cands++
				}
			}
		}

		tags["lookup:candidates="+Bucket(cands)] = true

		if len(l.Modes) > 0 {
			tags["lookup:capture-aware-conditions"] = true
		}

		if cands >= 2 {
			nontrivial = true
		}

		switch {
		case o.Lookups[i].ID > 0 && cands >= 2:
			tags["lookup:found-among-several"] = true
		case o.Lookups[i].ID > 0:
			tags["lookup:found"] = true
		case cands > 0:
			tags["lookup:none-despite-candidates"] = true
		default:
			tags["lookup:none"] = true
		}
	}

	if o.Panic != "" {
		tags["panic"] = true
	}

	out := make([]string, 0, len(tags))
	for t := range tags {
		out = append(out, t)
	}

	return nontrivial, out
}

// ---- corpus -----------------------------------------------------------------------

func Parse(s string) *Expr {
	// enough for the hand-written corpus: no escapes inside
	e := Expr{}
	if strings.HasPrefix(s, "/") {
		e.Lead = true
		s = s[1:]
	}

	if strings.HasSuffix(s, "/") && len(s) > 0 {
		e.Trail = true
		s = s[:len(s)-1]
	}

	if s == "" {
		return &e
	}

	for _, p := range strings.Split(s, "/") {
		switch {
		case strings.HasPrefix(p, ":"):
			e.Segs = append(e.Segs, Seg{Kind: Wild, Raw: p})
		case strings.HasPrefix(p, "*"):
			e.Segs = append(e.Segs, Seg{Kind: Catch, Raw: p})
		case len(p) >= 2 && p[0] == '\\' && IsSpecial(p[1]):
			e.Segs = append(e.Segs, Seg{Kind: Static, Raw: p, Lit: p[1:]})
		default:
			e.Segs = append(e.Segs, Seg{Kind: Static, Raw: p, Lit: p})
		}
	}

	return &e
}

func A(expr string, id, src int, bt bool) Add {
	return Add{Expr: expr, ID: id, Src: src, Bt: bt, E: Parse(expr)}
}

func Corpus() []Case {
	return []Case{
		{ // C02-F1 (DESIGN appendix A): /foo/** without backtracking fell back to /** (fixed by e897fef; kept as regression case)
			Adds: []Add{A("/foo/**", 1, 1, false), A("/**", 2, 2, false), A("/foo/:x", 3, 3, true)},
			Lookups: []Lookup{
				{Path: "/foo/bar/baz", OK: []int{2}},
				{Path: "/foo/bar", OK: []int{1, 2}},
				{Path: "/foo/bar", OK: []int{2}},
				{Path: "/foo/bar/baz", OK: []int{1, 2, 3}},
			},
		},
		{ // the other direction of C02-F1: the parent expression /foo/ holds values without backtracking
			Adds: []Add{A("/foo/", 1, 1, false), A("/foo/**", 2, 2, true), A("/**", 3, 3, true)},
			Lookups: []Lookup{
				{Path: "/foo/bar", OK: []int{3}},
				{Path: "/foo/", OK: []int{3}},
				{Path: "/foo/bar", OK: []int{1, 3}},
			},
		},
		{ // specificity: literal > single wildcard > free wildcard, with backtracking on and off
			Adds: []Add{
				A("/a/b", 1, 1, true), A("/a/:x", 2, 2, true), A("/a/*r", 3, 3, true),
				A("/:y/b", 4, 4, false), A("/**", 5, 5, true),
			},
			Lookups: []Lookup{
				{Path: "/a/b", OK: []int{1, 2, 3, 4, 5}},
				{Path: "/a/b", OK: []int{2, 3, 4, 5}},
				{Path: "/a/b", OK: []int{3, 4, 5}},
				{Path: "/a/b", OK: []int{4, 5}},
				{Path: "/a/b", OK: []int{5}},
				{Path: "/c/b", OK: []int{5}},
				{Path: "/a/b/c", OK: []int{5}},
				{Path: "/a/", OK: []int{1, 2, 3, 4, 5}},
				{Path: "/a", OK: []int{1, 2, 3, 4, 5}},
				{Path: "/", OK: []int{1, 2, 3, 4, 5}},
				{Path: "", OK: []int{1, 2, 3, 4, 5}},
			},
		},
		{ // several values of one rule set on one expression: insertion order; other rule set refused
			Adds: []Add{
				A("/a/:x", 1, 1, true), A("/a/:x", 2, 1, false), A("/a/:x", 3, 2, true),
				A("/a/:y", 4, 1, true), A("/a/**", 5, 1, true),
			},
			Lookups: []Lookup{
				{Path: "/a/b", OK: []int{1, 2, 5}},
				{Path: "/a/b", OK: []int{2, 5}},
				{Path: "/a/b", OK: []int{5}},
				{Path: "/a/b", OK: []int{3, 4}},
			},
		},
		{ // escapes are literals; ':' and '*' inside a segment are literals
			Adds: []Add{
				A("/\\:a", 1, 1, true), A("/\\*", 2, 2, true), A("/:a", 3, 3, true),
				A("/a:b", 4, 4, true), A("/\\\\a", 5, 5, true), A("/a*", 6, 6, true),
			},
			Lookups: []Lookup{
				{Path: "/:a", OK: []int{1, 2, 3, 4, 5, 6}},
				{Path: "/:a", OK: []int{3}},
				{Path: "/*", OK: []int{2}},
				{Path: "/x", OK: []int{1, 2, 4, 5, 6}},
				{Path: "/a:b", OK: []int{4}},
				{Path: "/\\a", OK: []int{5}},
				{Path: "/\\:a", OK: []int{1, 2, 4, 5, 6}},
				{Path: "/a*", OK: []int{6}},
				{Path: "/ab", OK: []int{6}},
			},
		},
		{ // wildcards never match an empty segment; free wildcard needs a non-empty rest
			Adds: []Add{A("/a/:x/b", 1, 1, true), A("/a/*r", 2, 2, true), A("/:z", 3, 3, true)},
			Lookups: []Lookup{
				{Path: "/a//b", OK: []int{1}},
				{Path: "/a//b", OK: []int{1, 2}},
				{Path: "/a/", OK: []int{1, 2, 3}},
				{Path: "/", OK: []int{1, 2, 3}},
				{Path: "/a/x/b", OK: []int{1, 2, 3}},
			},
		},
		{ // C02-F2: rules of one rule set on one expression with different backtracking flags; the last Add's flag is in force
			Adds: []Add{
				A("/a/:x", 1, 1, false), A("/a/:x", 2, 1, true), A("/:y/:z", 3, 3, true),
				A("/b/:x", 4, 4, true), A("/b/:x", 5, 4, false),
			},
			Lookups: []Lookup{
				{Path: "/a/b", OK: []int{3}},    // spec: rule 1 forbids backtracking -> none; code: rule 3
				{Path: "/a/b", OK: []int{2, 3}}, // rule 2
				{Path: "/b/b", OK: []int{3}},    // both say none (last flag off, conjunction off)
				{Path: "/a/b", OK: []int{1, 2, 3}, Modes: [][2]int{{1, 1}, {2, 3}}, Needle: "zz"}, // capture-aware: 1 needs "zz" captured, 2 needs aligned keys
			},
		},
		{ // one free-wildcard node, other key names (fix 20f92b3 / C03-F3): rejected like at a leaf
			Adds: []Add{
				A("/:a/*c", 1, 1, true), A("/:b/*c", 2, 1, true), A("/:a/*d", 3, 1, true), A("/:a/*c", 4, 1, false),
				A("/x/*r", 5, 5, true), A("/x/*r", 6, 5, true), A("/x/*s", 7, 5, true),
			},
			Lookups: []Lookup{
				{Path: "/1/2/3", OK: []int{1, 2, 3, 4}},
				{Path: "/1/2/3", OK: []int{2, 3, 4}},
				{Path: "/1/2", OK: []int{2, 3}},
				{Path: "/x/y", OK: []int{6, 7}},
				{Path: "/x/y", OK: []int{7}},
			},
		},
		{ // malformed expressions and splits inside tokens
			Adds: []Add{
				A("/a/*x/b", 1, 1, true), A("/abc", 2, 2, true), A("/abd", 3, 3, false),
				A("/ab", 4, 4, true), A("/a/*x", 5, 5, true), A("/a/*y", 6, 6, true),
				A("/ab:c", 7, 7, true), A("/ab*", 8, 8, true),
			},
			Lookups: []Lookup{
				{Path: "/abc", OK: []int{2, 3, 4}},
				{Path: "/abd", OK: []int{2, 4}},
				{Path: "/ab", OK: []int{2, 3, 4}},
				{Path: "/a/q/b", OK: []int{1, 5, 6}},
				{Path: "/ab:c", OK: []int{7, 8}},
				{Path: "/ab*", OK: []int{7, 8}},
				{Path: "/abx", OK: []int{7, 8}},
			},
		},
	}
}

// ---- repository-level cases (stream "repo") -----------------------------------------

type Rule struct {
	ID      int      `json:"id"`
	Bt      bool     `json:"bt"` // the flag in force for the rule (own setting, else the default rule's, else off)
	Routes  []string `json:"routes"`
	Methods []string `json:"methods"` // empty = any method
	E       []*Expr  `json:"-"`
	// stream "processor" only: how the rule is written
	Ver     int    `json:"ver,omitempty"`      // stream "history": a change of the definition that no lookup can see
	BtUnset bool   `json:"bt_unset,omitempty"` // backtracking_enabled absent: inherited
	Scheme  string `json:"scheme,omitempty"`   // "" = any
	Host    string `json:"host,omitempty"`     // "" = any, else one exact host
}

type RuleSet struct {
	Src   int    `json:"src"`
	Rules []Rule `json:"rules"`
}

type RepoLookup struct {
	Path   string   `json:"path"`
	Method string   `json:"method"`
	Scheme string   `json:"scheme,omitempty"`
	Host   string   `json:"host,omitempty"`
	Table  []int    `json:"table"`   // rule ids the stub condition accepts
	UseRaw bool     `json:"use_raw"` // the path is handed over in URL.RawPath (URL.Path holds a decoy)
	OK     []int    `json:"ok"`      // rule ids whose conditions hold: method admitted and in the table
	Modes  [][2]int `json:"modes,omitempty"`
	Needle string   `json:"needle,omitempty"`
}

type RepoCase struct {
	Default   bool         `json:"default"`
	DefaultBt bool         `json:"default_bt,omitempty"` // stream "processor": the default rule's backtracking_enabled
	Names     []string     `json:"names"`                // Names[id-1]: the rule's id string (NOT monotone in load order)
	Sets      []RuleSet    `json:"sets"`
	Lookups   []RepoLookup `json:"lookups"`
}

// Name of rule id: ids as real deployments have them, arbitrary strings.
func (c RepoCase) Name(id int) string {
	if id >= 1 && id <= len(c.Names) {
		return c.Names[id-1]
	}

	return fmt.Sprintf("%d", id)
}

func (c RepoCase) IDOf(name string) int {
	for i, n := range c.Names {
		if n == name {
			return i + 1
		}
	}

	if len(c.Names) == 0 {
		var id int

		fmt.Sscanf(name, "%d", &id)

		return id
	}

	return 0
}

func GenNames(r *vf.Rand, n int) []string {
	perm := make([]int, n)
	for i := range perm {
		perm[i] = i + 1
	}

	for i := n - 1; i > 0; i-- {
		j := r.Intn(i + 1)
		perm[i], perm[j] = perm[j], perm[i]
	}

	out := make([]string, n)
	style := r.Intn(3)

	for i, p := range perm {
		switch style {
		case 0:
			out[i] = fmt.Sprintf("%d", p) // "10" < "9"
		case 1:
			out[i] = fmt.Sprintf("rule-%c%d", "zyxwvutsrqponmlkjihgfedcba"[p%26], p)
		default:
			out[i] = fmt.Sprintf("%c:%d", "BaDcFeHgJi"[p%10], 100-p)
		}
	}

	return out
}

type RepoObs struct {
	Sets    []bool   `json:"sets"`    // AddRuleSet accepted?
	Lookups []string `json:"lookups"` // "rule:<id>", "default", "norule", "other:<text>"
	Panic   string   `json:"panic,omitempty"`
	// the same rule sets loaded in reverse order into a second repository (only if both orders accept all)
	TwinChecked  bool  `json:"twin_checked,omitempty"`
	TwinMismatch []int `json:"twin_mismatch,omitempty"` // lookups answered differently by the twin
}

var repoMethods = []string{"GET", "POST", "PUT", "DELETE"}

func methodOK(methods []string, m string) bool {
	if len(methods) == 0 {
		return true
	}

	for _, x := range methods {
		if x == m {
			return true
		}
	}

	return false
}

func GenRepo(r *vf.Rand) RepoCase {
	var (
		c    RepoCase
		pool []Expr
	)

	c.Default = r.Bool()
	usedBy := map[string]int{}
	nSets := vf.Pick(r, []int{1, 1, 2, 2, 3, 3, 4, 5})
	pBt := vf.Pick(r, []int{20, 50, 50, 80})
	id := 0

	for s := 1; s <= nSets; s++ {
		rs := RuleSet{Src: s}
		nRules := vf.Pick(r, []int{1, 1, 2, 2, 3, 4})

		for k := 0; k < nRules; k++ {
			id++
			rule := Rule{ID: id, Bt: r.Chance(pBt)}
			nRoutes := vf.Pick(r, []int{1, 1, 1, 2, 2, 3})

			for j := 0; j < nRoutes; j++ {
				var e Expr

				if len(pool) > 0 && r.Chance(70) {
					e = GenRelated(r, pool)
					// inside one rule set the same expression is fine; across rule sets it is a
					// constraint violation that rejects the whole set: keep those rarer
					if r.Chance(60) && !e.Valid() {
						e = GenFresh(r)
					}
				} else {
					e = GenFresh(r)
				}

				if !e.Valid() && r.Chance(80) {
					e = GenFresh(r)
				}

				// an expression of another rule set rejects this whole set: keep that at a few per cent
				if other, ok := usedBy[e.String()]; ok && other != s && r.Chance(85) {
					e = GenFresh(r)
				}

				if _, ok := usedBy[e.String()]; !ok {
					usedBy[e.String()] = s
				}

				pool = append(pool, e)
				ec := e
				rule.Routes = append(rule.Routes, e.String())
				rule.E = append(rule.E, &ec)
			}

			switch r.Intn(4) {
			case 0:
			case 1:
				rule.Methods = []string{vf.Pick(r, repoMethods)}
			default:
				for _, m := range repoMethods {
					if r.Bool() {
						rule.Methods = append(rule.Methods, m)
					}
				}
			}

			rs.Rules = append(rs.Rules, rule)
		}

		c.Sets = append(c.Sets, rs)
	}

	valid := make([]Expr, 0, len(pool))
	for _, e := range pool {
		if e.Valid() {
			valid = append(valid, e)
		}
	}

	c.Names = GenNames(r, id)

	for _, l := range GenLookups(r, valid, id, r.Range(8, 20)) {
		rl := RepoLookup{Path: l.Path, Method: vf.Pick(r, repoMethods), Table: l.OK, UseRaw: r.Chance(30),
			Modes: l.Modes, Needle: l.Needle}
		if r.Chance(35) { // let the methods alone decide
			rl.Table = rl.Table[:0]
			for i := 1; i <= id; i++ {
				rl.Table = append(rl.Table, i)
			}
		}

		in := map[int]bool{}
		for _, i := range rl.Table {
			in[i] = true
		}

		rl.OK = []int{}

		for _, rs := range c.Sets {
			for _, ru := range rs.Rules {
				if in[ru.ID] && methodOK(ru.Methods, rl.Method) {
					rl.OK = append(rl.OK, ru.ID)
				}
			}
		}

		c.Lookups = append(c.Lookups, rl)
	}

	return c
}

func RepoCoq(c RepoCase, o RepoObs) string {
	sets := make([]string, len(c.Sets))

	for i, s := range c.Sets {
		rules := make([]string, len(s.Rules))
		for j, ru := range s.Rules {
			rules[j] = vf.CoqApp("rd", vf.CoqNat(ru.ID), vf.CoqBool(ru.Bt), vf.CoqStrs(ru.Routes))
		}

		ok := i < len(o.Sets) && o.Sets[i]
		sets[i] = vf.CoqApp("rs", vf.CoqNat(s.Src), vf.CoqList(rules), vf.CoqBool(ok))
	}

	lks := make([]string, len(c.Lookups))

	for i, l := range c.Lookups {
		res := "(ORule 0%nat)" // a missing / unexpected answer never equals a model answer: ids start at 1

		twinBad := false
		for _, j := range o.TwinMismatch {
			twinBad = twinBad || j == i
		}

		if i < len(o.Lookups) && !twinBad { // an order-dependent answer is rendered as the impossible one
			switch {
			case o.Lookups[i] == "default":
				res = "ODefault"
			case o.Lookups[i] == "norule":
				res = "ONoRule"
			case strings.HasPrefix(o.Lookups[i], "rule:"):
				res = "(ORule " + vf.CoqNat(c.IDOf(strings.TrimPrefix(o.Lookups[i], "rule:"))) + ")"
			}
		}

		lks[i] = vf.CoqApp("rl", vf.CoqStr(l.Path), CoqNats(l.OK), CoqModes(l.Modes), vf.CoqStr(l.Needle), res)
	}

	return vf.CoqApp("rc", vf.CoqBool(c.Default), vf.CoqList(sets), vf.CoqList(lks))
}

func RepoClassify(c RepoCase, o RepoObs) (bool, []string) {
	var (
		tc Case
		to Obs
	)

	for i, s := range c.Sets {
		ok := i < len(o.Sets) && o.Sets[i]

		for _, ru := range s.Rules {
			for j, e := range ru.Routes {
				tc.Adds = append(tc.Adds, Add{Expr: e, ID: ru.ID, Src: s.Src, Bt: ru.Bt, E: ru.E[j]})

				if ok {
					to.Adds = append(to.Adds, "added")
				} else {
					to.Adds = append(to.Adds, "set-rejected")
				}
			}
		}
	}

	outcomes := map[string]bool{}

	for i, l := range c.Lookups {
		tc.Lookups = append(tc.Lookups, Lookup{Path: l.Path, OK: l.OK, Modes: l.Modes, Needle: l.Needle})

		lo := LkObs{}

		if i < len(o.Lookups) {
			if strings.HasPrefix(o.Lookups[i], "rule:") {
				lo.ID = c.IDOf(strings.TrimPrefix(o.Lookups[i], "rule:"))
			}

			outcomes["outcome:"+strings.SplitN(o.Lookups[i], ":", 2)[0]] = true
		}

		if l.UseRaw {
			outcomes["lookup:via-rawpath"] = true
		}

		to.Lookups = append(to.Lookups, lo)
	}

	to.Panic = o.Panic
	nt, tags := Classify(tc, to)

	for t := range outcomes {
		tags = append(tags, t)
	}

	tags = append(tags, "sets:"+Bucket(len(c.Sets)), fmt.Sprintf("default:%v", c.Default))

	if o.TwinChecked {
		tags = append(tags, "twin:reverse-order-load-compared")
	}

	for i := range c.Sets {
		if i < len(o.Sets) && !o.Sets[i] {
			tags = append(tags, "set:rejected")

			break
		}
	}

	return nt, tags
}

func mkRule(id int, bt bool, methods []string, routes ...string) Rule {
	ru := Rule{ID: id, Bt: bt, Routes: routes, Methods: methods}
	for _, p := range routes {
		ru.E = append(ru.E, Parse(p))
	}

	return ru
}

func allIDs(n int) []int {
	out := make([]int, n)
	for i := range out {
		out[i] = i + 1
	}

	return out
}

func rlk(path, method string, n int, table ...int) RepoLookup {
	if table == nil {
		table = allIDs(n)
	}

	return RepoLookup{Path: path, Method: method, Table: table}
}

// RepoCorpus: hand-written cases; OK is filled in by FillOK.
func RepoCorpus() []RepoCase {
	cs := []RepoCase{
		{ // C02-F1 at repository level, without and with a default rule
			Default: false,
			Sets: []RuleSet{
				{Src: 1, Rules: []Rule{mkRule(1, false, []string{"GET"}, "/foo/**")}},
				{Src: 2, Rules: []Rule{mkRule(2, false, nil, "/**")}},
			},
			Lookups: []RepoLookup{rlk("/foo/bar/baz", "POST", 2), rlk("/foo/bar/baz", "GET", 2), rlk("/foo", "GET", 2, 1)},
		},
		{
			Default: true,
			Sets: []RuleSet{
				{Src: 1, Rules: []Rule{mkRule(1, false, []string{"GET"}, "/foo/**")}},
				{Src: 2, Rules: []Rule{mkRule(2, false, nil, "/**")}},
			},
			Lookups: []RepoLookup{rlk("/foo/bar/baz", "POST", 2), rlk("/foo/bar/baz", "GET", 2), rlk("/foo", "GET", 2, 1), rlk("", "GET", 2)},
		},
		{ // a rule set touching an expression of another rule set is rejected as a whole
			Default: true,
			Sets: []RuleSet{
				{Src: 1, Rules: []Rule{mkRule(1, true, []string{"GET"}, "/a/:x", "/b"), mkRule(2, false, []string{"POST"}, "/a/:x")}},
				{Src: 2, Rules: []Rule{mkRule(3, true, nil, "/c"), mkRule(4, true, nil, "/a/:y")}},
				{Src: 3, Rules: []Rule{mkRule(5, true, nil, "/c", "/a/**")}},
			},
			Lookups: []RepoLookup{
				rlk("/a/1", "GET", 5), rlk("/a/1", "POST", 5), rlk("/a/1", "PUT", 5), rlk("/c", "GET", 5),
				rlk("/a/1/2", "PUT", 5), rlk("/b", "POST", 5), rlk("/d", "GET", 5),
			},
		},
	}

	cs = append(cs, RepoCase{ // C02-F2 at repository level
		Default: true,
		Sets: []RuleSet{
			{Src: 1, Rules: []Rule{mkRule(1, false, []string{"GET"}, "/a/:x"), mkRule(2, true, []string{"POST"}, "/a/:x")}},
			{Src: 2, Rules: []Rule{mkRule(3, true, nil, "/:y/:z")}},
		},
		Lookups: []RepoLookup{rlk("/a/b", "PUT", 3), rlk("/a/b", "POST", 3), rlk("/a/b", "GET", 3)},
	})

	for i := range cs {
		FillOK(&cs[i])
	}

	return cs
}

func FillOK(c *RepoCase) {
	for i := range c.Lookups {
		l := &c.Lookups[i]
		in := map[int]bool{}

		for _, x := range l.Table {
			in[x] = true
		}

		l.OK = []int{}

		for _, rs := range c.Sets {
			for _, ru := range rs.Rules {
				if in[ru.ID] && methodOK(ru.Methods, l.Method) {
					l.OK = append(l.OK, ru.ID)
				}
			}
		}
	}
}

// ---- stream "processor": rule sets as configuration through the real rule-set processor and factory ----

func condOK(ru Rule, l RepoLookup) bool {
	return methodOK(ru.Methods, l.Method) && (ru.Scheme == "" || ru.Scheme == l.Scheme) && (ru.Host == "" || ru.Host == l.Host)
}

// GenProc: a repo case whose rules are written as configuration: backtracking_enabled
// present or inherited from the default rule, scheme / host / method conditions.
func GenProc(r *vf.Rand) RepoCase {
	c := GenRepo(r)
	c.DefaultBt = c.Default && r.Bool()

	for i := range c.Sets {
		for j := range c.Sets[i].Rules {
			ru := &c.Sets[i].Rules[j]

			if r.Chance(40) {
				ru.BtUnset = true
				ru.Bt = c.DefaultBt // no default rule: off
			}

			if r.Chance(25) {
				ru.Scheme = vf.Pick(r, []string{"http", "https"})
			}

			if r.Chance(25) {
				ru.Host = vf.Pick(r, []string{"a.example", "b.example"})
			}
		}
	}

	for i := range c.Lookups {
		l := &c.Lookups[i]
		l.Scheme = vf.Pick(r, []string{"http", "https"})
		l.Host = vf.Pick(r, []string{"a.example", "b.example"})
		l.UseRaw = false
		l.Modes, l.Needle, l.Table = nil, "", nil
		l.OK = []int{}

		for _, rs := range c.Sets {
			for _, ru := range rs.Rules {
				if condOK(ru, *l) {
					l.OK = append(l.OK, ru.ID)
				}
			}
		}
	}

	return c
}

func ProcCorpus() []RepoCase {
	f := false
	_ = f
	cs := []RepoCase{
		{ // the rule's own backtracking_enabled: false wins over a default rule that allows it; an unset one inherits
			Default: true, DefaultBt: true,
			Sets: []RuleSet{{Src: 1, Rules: []Rule{
				{ID: 1, Bt: false, Routes: []string{"/a/:x"}, Methods: []string{"GET"}, E: []*Expr{Parse("/a/:x")}},
				{ID: 2, Bt: true, BtUnset: true, Routes: []string{"/b/:x"}, Methods: []string{"GET"}, E: []*Expr{Parse("/b/:x")}},
				{ID: 3, Bt: true, Routes: []string{"/:y/:z", "/c/"}, E: []*Expr{Parse("/:y/:z"), Parse("/c/")}},
			}}},
			Lookups: []RepoLookup{
				{Path: "/a/1", Method: "POST", Scheme: "http", Host: "a.example"},
				{Path: "/b/1", Method: "POST", Scheme: "http", Host: "a.example"},
				{Path: "/c/", Method: "POST", Scheme: "http", Host: "a.example"},
				{Path: "/c", Method: "POST", Scheme: "http", Host: "a.example"},
			},
		},
		{ // no default rule: an unset flag is off
			Default: false,
			Sets: []RuleSet{{Src: 1, Rules: []Rule{
				{ID: 1, Bt: false, BtUnset: true, Routes: []string{"/a/:x"}, Scheme: "https", E: []*Expr{Parse("/a/:x")}},
				{ID: 2, Bt: true, Routes: []string{"/:y/:z"}, Host: "b.example", E: []*Expr{Parse("/:y/:z")}},
			}}},
			Lookups: []RepoLookup{
				{Path: "/a/1", Method: "GET", Scheme: "http", Host: "b.example"},
				{Path: "/a/1", Method: "GET", Scheme: "https", Host: "a.example"},
				{Path: "/q/1", Method: "GET", Scheme: "http", Host: "b.example"},
				{Path: "/q/1", Method: "GET", Scheme: "http", Host: "a.example"},
			},
		},
	}

	for i := range cs {
		for j := range cs[i].Lookups {
			l := &cs[i].Lookups[j]
			l.OK = []int{}

			for _, rs := range cs[i].Sets {
				for _, ru := range rs.Rules {
					if condOK(ru, *l) {
						l.OK = append(l.OK, ru.ID)
					}
				}
			}
		}
	}

	return cs
}

// ---- stream "history": create / update / delete of rule sets, then lookups -------------------

type HistOp struct {
	Kind  string `json:"kind"` // create | update | delete
	Src   int    `json:"src"`
	Rules []Rule `json:"rules,omitempty"`
	Edits string `json:"edits,omitempty"` // how an update was derived (for the histogram)
}

type HistCase struct {
	Default bool         `json:"default"`
	Names   []string     `json:"names"`
	Ops     []HistOp     `json:"ops"`
	Lookups []RepoLookup `json:"lookups"`
}

type HistObs struct {
	Ops     []bool   `json:"ops"`   // accepted?
	Same    [][]bool `json:"same"`  // per update, per rule: a loaded rule of that set has this id (SameAs)
	Equal   [][]bool `json:"equal"` // ... and the same definition hash (EqualTo)
	Lookups []string `json:"lookups"`
	Panic   string   `json:"panic,omitempty"`
}

func (c HistCase) Name(id int) string { return RepoCase{Names: c.Names}.Name(id) }
func (c HistCase) IDOf(n string) int  { return RepoCase{Names: c.Names}.IDOf(n) }

func cloneRules(rs []Rule) []Rule {
	out := make([]Rule, len(rs))
	for i, r := range rs {
		out[i] = r
		out[i].Routes = append([]string(nil), r.Routes...)
		out[i].E = append([]*Expr(nil), r.E...)
		out[i].Methods = append([]string(nil), r.Methods...)
	}

	return out
}

func GenHist(r *vf.Rand) HistCase {
	var (
		c    HistCase
		pool []Expr
		id   int
	)

	c.Default = r.Bool()
	cur := map[int][]Rule{}
	pBt := vf.Pick(r, []int{20, 50, 50, 80})

	newExpr := func(local []Expr) Expr {
		var e Expr

		switch {
		case len(local) > 0 && r.Chance(45): // siblings on one expression inside the set
			e = CloneExpr(vf.Pick(r, local))
		case len(pool) > 0 && r.Chance(60):
			e = GenRelated(r, pool)
		default:
			e = GenFresh(r)
		}

		if !e.Valid() {
			e = GenFresh(r)
		}

		if !e.Valid() {
			e = Expr{Lead: true, Segs: []Seg{{Kind: Static, Lit: "a", Raw: "a"}}}
		}

		pool = append(pool, e)

		return e
	}

	newRule := func(local *[]Expr) Rule {
		id++
		ru := Rule{ID: id, Bt: r.Chance(pBt)}

		for j, n := 0, vf.Pick(r, []int{1, 1, 1, 2, 2, 3}); j < n; j++ {
			e := newExpr(*local)
			*local = append(*local, e)
			ec := e
			ru.Routes = append(ru.Routes, e.String())
			ru.E = append(ru.E, &ec)
		}

		switch r.Intn(3) {
		case 0:
		case 1:
			ru.Methods = []string{vf.Pick(r, repoMethods)}
		default:
			for _, m := range repoMethods {
				if r.Bool() {
					ru.Methods = append(ru.Methods, m)
				}
			}
		}

		return ru
	}

	localOf := func(rs []Rule) []Expr {
		var out []Expr

		for _, ru := range rs {
			for _, e := range ru.E {
				out = append(out, *e)
			}
		}

		return out
	}

	nextSrc := 0
	nOps := r.Range(2, 7)

	for len(c.Ops) < nOps {
		loaded := []int{}
		for s := 1; s <= nextSrc; s++ {
			if _, ok := cur[s]; ok {
				loaded = append(loaded, s)
			}
		}

		k := r.Intn(100)

		switch {
		case len(loaded) == 0 || (k < 22 && nextSrc < 4):
			nextSrc++

			var (
				rs    []Rule
				local []Expr
			)

			for j, n := 0, vf.Pick(r, []int{1, 2, 2, 3, 3, 4}); j < n; j++ {
				rs = append(rs, newRule(&local))
			}

			cur[nextSrc] = rs
			c.Ops = append(c.Ops, HistOp{Kind: "create", Src: nextSrc, Rules: cloneRules(rs)})
		case k < 88:
			s := vf.Pick(r, loaded)
			rs := cloneRules(cur[s])
			local := localOf(rs)
			edits := ""

			for e, n := 0, r.Range(1, 3); e < n; e++ {
				switch r.Intn(8) {
				case 0, 1: // only the definition changes (what C06-F1 needs)
					if len(rs) > 0 {
						rs[r.Intn(len(rs))].Ver++
						edits += "V"
					}
				case 2:
					if len(rs) > 0 {
						i := r.Intn(len(rs))
						rs[i].Bt = !rs[i].Bt
						edits += "B"
					}
				case 3:
					if len(rs) > 1 {
						i, j := r.Intn(len(rs)), r.Intn(len(rs))
						rs[i], rs[j] = rs[j], rs[i]
						edits += "S"
					}
				case 4:
					if len(rs) > 1 {
						i := r.Intn(len(rs))
						rs = append(rs[:i], rs[i+1:]...)
						edits += "D"
					}
				case 5:
					rs = append(rs, newRule(&local))
					edits += "N"
				case 6:
					if len(rs) > 0 {
						i := r.Intn(len(rs))
						e := newExpr(local)
						local = append(local, e)
						ec := e
						rs[i].Routes = append([]string(nil), e.String())
						rs[i].E = []*Expr{&ec}
						edits += "R"
					}
				default:
					edits += "-"
				}
			}

			cur[s] = rs
			c.Ops = append(c.Ops, HistOp{Kind: "update", Src: s, Rules: cloneRules(rs), Edits: edits})
		default:
			s := vf.Pick(r, loaded)
			delete(cur, s)
			c.Ops = append(c.Ops, HistOp{Kind: "delete", Src: s})
		}
	}

	c.Names = GenNames(r, id)

	valid := make([]Expr, 0, len(pool))
	for _, e := range pool {
		if e.Valid() {
			valid = append(valid, e)
		}
	}

	methods := map[int][]string{}

	for _, op := range c.Ops {
		for _, ru := range op.Rules {
			methods[ru.ID] = ru.Methods // fixed for the life of an id
		}
	}

	for _, l := range GenLookups(r, valid, id, r.Range(8, 18)) {
		rl := RepoLookup{Path: l.Path, Method: vf.Pick(r, repoMethods), OK: []int{}}

		for i := 1; i <= id; i++ {
			if methodOK(methods[i], rl.Method) {
				rl.OK = append(rl.OK, i)
			}
		}

		c.Lookups = append(c.Lookups, rl)
	}

	return c
}

func coqRule(ru Rule) string {
	return vf.CoqApp("rd", vf.CoqNat(ru.ID), vf.CoqBool(ru.Bt), vf.CoqStrs(ru.Routes))
}

func HistCoq(c HistCase, o HistObs) string {
	ops := make([]string, len(c.Ops))

	for i, op := range c.Ops {
		acc := vf.CoqBool(i < len(o.Ops) && o.Ops[i])

		switch op.Kind {
		case "create":
			ops[i] = vf.CoqApp("HCreate", vf.CoqNat(op.Src), vf.CoqListOf(op.Rules, coqRule), acc)
		case "update":
			rs := make([]string, len(op.Rules))
			for j, ru := range op.Rules {
				same, equal := false, false
				if i < len(o.Same) && j < len(o.Same[i]) {
					same, equal = o.Same[i][j], o.Equal[i][j]
				}

				rs[j] = vf.CoqApp("hr", coqRule(ru), vf.CoqBool(same), vf.CoqBool(equal))
			}

			ops[i] = vf.CoqApp("HUpdate", vf.CoqNat(op.Src), vf.CoqList(rs), acc)
		default:
			ops[i] = vf.CoqApp("HDelete", vf.CoqNat(op.Src), acc)
		}
	}

	rc := RepoCase{Names: c.Names, Lookups: c.Lookups}
	lks := make([]string, len(c.Lookups))

	for i, l := range c.Lookups {
		res := "(ORule 0%nat)"

		if i < len(o.Lookups) {
			switch {
			case o.Lookups[i] == "default":
				res = "ODefault"
			case o.Lookups[i] == "norule":
				res = "ONoRule"
			case strings.HasPrefix(o.Lookups[i], "rule:"):
				res = "(ORule " + vf.CoqNat(rc.IDOf(strings.TrimPrefix(o.Lookups[i], "rule:"))) + ")"
			}
		}

		lks[i] = vf.CoqApp("rl", vf.CoqStr(l.Path), CoqNats(l.OK), CoqModes(l.Modes), vf.CoqStr(l.Needle), res)
	}

	return vf.CoqApp("hc", vf.CoqBool(c.Default), vf.CoqList(ops), vf.CoqList(lks))
}

func HistClassify(c HistCase, o HistObs) (bool, []string) {
	tags := map[string]bool{fmt.Sprintf("default:%v", c.Default): true, "ops:" + Bucket(len(c.Ops)): true}
	nontrivial := false

	for i, op := range c.Ops {
		acc := i < len(o.Ops) && o.Ops[i]
		tags[fmt.Sprintf("op:%s:%v", op.Kind, acc)] = true

		if op.Kind == "update" && acc {
			for _, e := range op.Edits {
				tags["update-edit:"+string(e)] = true
			}

			if i < len(o.Same) {
				for j := range o.Same[i] {
					if o.Same[i][j] && !o.Equal[i][j] {
						nontrivial = true // an accepted update that changes an existing rule
						tags["update:changes-existing-rule"] = true
					}
				}
			}
		}
	}

	for _, l := range o.Lookups {
		tags["outcome:"+strings.SplitN(l, ":", 2)[0]] = true
	}

	if o.Panic != "" {
		tags["panic"] = true
	}

	out := make([]string, 0, len(tags))
	for t := range tags {
		out = append(out, t)
	}

	return nontrivial, out
}

func HistCorpus() []HistCase {
	a := func(id int, bt bool, ver int, methods []string, routes ...string) Rule {
		ru := mkRule(id, bt, methods, routes...)
		ru.Ver = ver

		return ru
	}
	lk := func(path, method string, ok ...int) RepoLookup {
		return RepoLookup{Path: path, Method: method, OK: ok}
	}

	fill := func(cs []HistCase) []HistCase {
		for i := range cs {
			methods := map[int][]string{}
			maxID := 0

			for _, op := range cs[i].Ops {
				for _, ru := range op.Rules {
					methods[ru.ID] = ru.Methods
					if ru.ID > maxID {
						maxID = ru.ID
					}
				}
			}

			for j := range cs[i].Lookups {
				l := &cs[i].Lookups[j]
				l.OK = []int{}

				for id := 1; id <= maxID; id++ {
					if methodOK(methods[id], l.Method) {
						l.OK = append(l.OK, id)
					}
				}
			}
		}

		return cs
	}

	return fill([]HistCase{
		{ // C02-F3 (= C06-F1): only A's definition changes; A is re-appended behind its sibling B
			Default: false,
			Ops: []HistOp{
				{Kind: "create", Src: 1, Rules: []Rule{a(1, true, 0, nil, "/x"), a(2, true, 0, nil, "/x")}},
				{Kind: "update", Src: 1, Rules: []Rule{a(1, true, 1, nil, "/x"), a(2, true, 0, nil, "/x")}, Edits: "V"},
			},
			Lookups: []RepoLookup{lk("/x", "GET", 1, 2), lk("/x", "GET", 2), lk("/y", "GET", 1, 2)},
		},
		{ // a pure reordering is ignored by the update
			Default: true,
			Ops: []HistOp{
				{Kind: "create", Src: 1, Rules: []Rule{a(1, true, 0, nil, "/x"), a(2, true, 0, nil, "/x"), a(3, true, 0, nil, "/z")}},
				{Kind: "update", Src: 1, Rules: []Rule{a(2, true, 0, nil, "/x"), a(1, true, 0, nil, "/x"), a(3, true, 0, nil, "/z")}, Edits: "S"},
			},
			Lookups: []RepoLookup{lk("/x", "GET", 1, 2, 3), lk("/z", "GET", 1, 2, 3), lk("/q", "GET", 1, 2, 3)},
		},
		{ // history-dependent flag (C06-F2 / C02-F2) and delete + re-create
			Default: false,
			Ops: []HistOp{
				{Kind: "create", Src: 1, Rules: []Rule{a(1, true, 0, []string{"POST"}, "/y"), a(2, false, 0, []string{"PUT"}, "/y"), a(3, true, 0, nil, "/:z")}},
				{Kind: "update", Src: 1, Rules: []Rule{a(1, true, 1, []string{"POST"}, "/y"), a(2, false, 0, []string{"PUT"}, "/y"), a(3, true, 0, nil, "/:z")}, Edits: "V"},
				{Kind: "create", Src: 2, Rules: []Rule{a(4, true, 0, nil, "/w/:a", "/w/b")}},
				{Kind: "delete", Src: 2},
				{Kind: "create", Src: 3, Rules: []Rule{a(5, false, 0, nil, "/w/:a")}},
			},
			Lookups: []RepoLookup{lk("/y", "GET"), lk("/y", "PUT"), lk("/w/b", "GET"), lk("/w/c", "GET")},
		},
	})
}
