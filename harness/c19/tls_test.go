//go:build verif

package tlsx

// C19 driver, stream "tls": the real tlsx.keyStore behind ToTLSConfig (which
// registers it with the secrets watcher) is reloaded through its real OnChanged.

import (
	"crypto"
	"testing"

	"github.com/rs/zerolog"

	"github.com/dadrus/heimdall/internal/config"
	"github.com/dadrus/heimdall/internal/otel/metrics/certificate"
	"github.com/dadrus/heimdall/internal/watcher"
	"github.com/dadrus/heimdall/internal/zzverif/c19gen"
)

type c19Watcher struct{ l watcher.ChangeListener }

func (w *c19Watcher) Add(_ string, l watcher.ChangeListener) error { w.l = l; return nil }

type c19Observer struct{}

func (c19Observer) Add(certificate.Supplier) {}
func (c19Observer) Start() error             { return nil }

type c19TLS struct{ ks *keyStore }

func (c c19TLS) OnChanged(l zerolog.Logger) { c.ks.OnChanged(l) }
func (c c19TLS) Load() error                { return c.ks.load() }
func (c c19TLS) ClearPath()                 { c.ks.path = "" }

func (c c19TLS) State() c19gen.State {
	c.ks.mut.RLock()
	defer c.ks.mut.RUnlock()

	st := c19gen.State{Chain: c.ks.certChain}
	if c.ks.tlsCert != nil {
		if s, ok := c.ks.tlsCert.PrivateKey.(crypto.Signer); ok {
			st.Pub = s.Public()
		}
	}

	return st
}

func TestVerifC19TLS(t *testing.T) {
	c19gen.RunReload(t, "tls", func(path, keyID, password string) (c19gen.Component, error) {
		w := &c19Watcher{}

		_, err := ToTLSConfig(&config.TLS{KeyStore: config.KeyStore{Path: path, Password: password}, KeyID: keyID},
			WithServerAuthentication(true), WithSecretsWatcher(w), WithCertificateObserver("c19", c19Observer{}))
		if err != nil {
			return nil, err
		}

		return c19TLS{ks: w.l.(*keyStore)}, nil
	})
}
