//go:build verif

package finalizers

// C19 driver, stream "signer": the real jwtSigner (constructed by
// newJWTSigner, which registers it as ChangeListener with the watcher) is
// reloaded on generated key-store contents through its real OnChanged.

import (
	"testing"

	"github.com/rs/zerolog"

	"github.com/dadrus/heimdall/internal/watcher"
	"github.com/dadrus/heimdall/internal/zzverif/c19gen"
)

type c19Watcher struct{ l watcher.ChangeListener }

func (w *c19Watcher) Add(_ string, l watcher.ChangeListener) error { w.l = l; return nil }

type c19Signer struct {
	s *jwtSigner
	l watcher.ChangeListener
}

func (c c19Signer) OnChanged(l zerolog.Logger) { c.l.OnChanged(l) }
func (c c19Signer) Load() error                { return c.s.load() }

func (c c19Signer) State() c19gen.State {
	c.s.mut.RLock()
	defer c.s.mut.RUnlock()

	st := c19gen.State{Kid: c.s.jwk.KeyID, Alg: c.s.jwk.Algorithm, Chain: c.s.jwk.Certificates}
	if c.s.key != nil {
		st.Pub = c.s.key.Public()
	}

	for _, k := range c.s.pubKeys {
		st.Keys = append(st.Keys, [2]string{k.KeyID, k.Algorithm})
	}

	return st
}

func TestVerifC19Signer(t *testing.T) {
	c19gen.RunReload(t, "signer", func(path, keyID, password string) (c19gen.Component, error) {
		w := &c19Watcher{}

		s, err := newJWTSigner(&SignerConfig{Name: "c19", KeyStore: KeyStore{Path: path, Password: password}, KeyID: keyID}, w)
		if err != nil {
			return nil, err
		}

		return c19Signer{s: s, l: w.l}, nil
	})
}
