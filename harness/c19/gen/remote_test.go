//go:build verif

package c19gen

// C19 driver, stream "remote" (part of TestVerifC19Misc, indices 300000..): the
// real jwt and oauth2_introspection authenticators and the remote authorizer
// against an httptest server whose answer (JWKS, introspection response,
// authorization response) is a valid document truncated at EVERY offset or with
// one JSON node replaced by a value of another type; and a valid JWT truncated
// at every offset.  These run on request goroutines: a panic is caught by the
// recovery middleware; what must never happen is that a cut or type-confused
// document ends in success where the complete one is needed.

import (
	"context"
	"crypto/ecdsa"
	"crypto/x509"
	"encoding/json"
	"fmt"
	"net/http"
	"net/http/httptest"
	"net/url"
	"os"
	"sort"
	"strings"
	"sync"
	"time"

	"github.com/go-jose/go-jose/v4"
	"github.com/go-jose/go-jose/v4/jwt"
	"github.com/rs/zerolog"

	"github.com/dadrus/heimdall/internal/heimdall"
	"github.com/dadrus/heimdall/internal/keyholder"
	"github.com/dadrus/heimdall/internal/otel/metrics/certificate"
	"github.com/dadrus/heimdall/internal/rules/mechanisms/authenticators"
	"github.com/dadrus/heimdall/internal/rules/mechanisms/authorizers"
	"github.com/dadrus/heimdall/internal/rules/mechanisms/subject"
	"github.com/dadrus/heimdall/internal/watcher"
	"github.com/dadrus/heimdall/internal/zzverif/vf"
)

type fakeCC struct{}

func (fakeCC) Watcher() watcher.Watcher                  { return fakeWatcher{} }
func (fakeCC) KeyHolderRegistry() keyholder.Registry     { return fakeKHR{} }
func (fakeCC) CertificateObserver() certificate.Observer { return fakeCO{} }

type fakeWatcher struct{}

func (fakeWatcher) Add(string, watcher.ChangeListener) error { return nil }

type fakeKHR struct{}

func (fakeKHR) AddKeyHolder(keyholder.KeyHolder) {}
func (fakeKHR) Keys() []jose.JSONWebKey          { return nil }

type fakeCO struct{}

func (fakeCO) Add(certificate.Supplier) {}
func (fakeCO) Start() error             { return nil }

// request context stub
type reqFuncs struct{ hdr map[string]string }

func (r reqFuncs) Header(name string) string  { return r.hdr[name] }
func (r reqFuncs) Cookie(string) string       { return "" }
func (r reqFuncs) Headers() map[string]string { return r.hdr }
func (r reqFuncs) Body() any                  { return nil }

type reqCtx struct {
	req *heimdall.Request
	ctx context.Context
}

func (c *reqCtx) Request() *heimdall.Request          { return c.req }
func (c *reqCtx) AddHeaderForUpstream(string, string) {}
func (c *reqCtx) AddCookieForUpstream(string, string) {}
func (c *reqCtx) AppContext() context.Context         { return c.ctx }
func (c *reqCtx) SetPipelineError(error)              {}
func (c *reqCtx) Outputs() map[string]any             { return map[string]any{} }

func newReqCtx(token string) *reqCtx {
	u, _ := url.Parse("http://heimdall.test/x")
	logger := zerolog.Nop()

	return &reqCtx{
		req: &heimdall.Request{
			RequestFunctions: reqFuncs{hdr: map[string]string{"Authorization": "Bearer " + token}},
			Method:           http.MethodGet, URL: &heimdall.URL{URL: *u},
		},
		ctx: logger.WithContext(context.Background()),
	}
}

type remoteCase struct {
	Mech   string `json:"mech"` // jwt introspection authorizer
	What   string `json:"what"` // token-trunc doc-trunc doc-confusion full status
	Off    int    `json:"off,omitempty"`
	Path   string `json:"path,omitempty"`
	Kind   int    `json:"kind,omitempty"`
	Status int    `json:"status,omitempty"`
	Doc    string `json:"doc,omitempty"`
	Token  string `json:"token,omitempty"`
}

// generic JSON tree helpers
func jsonPaths(v any, pre []any, out *[][]any) {
	*out = append(*out, append([]any{}, pre...))

	switch t := v.(type) {
	case map[string]any:
		keys := make([]string, 0, len(t))
		for k := range t {
			keys = append(keys, k)
		}

		sort.Strings(keys)

		for _, k := range keys {
			jsonPaths(t[k], append(pre, k), out)
		}
	case []any:
		for i := range t {
			jsonPaths(t[i], append(pre, i), out)
		}
	}
}

func jsonSet(root any, p []any, nv any) any {
	if len(p) == 0 {
		return nv
	}

	switch t := root.(type) {
	case map[string]any:
		t[p[0].(string)] = jsonSet(t[p[0].(string)], p[1:], nv)
	case []any:
		t[p[0].(int)] = jsonSet(t[p[0].(int)], p[1:], nv)
	}

	return root
}

func jsonRepl(kind int) any {
	return []any{nil, 42, "str", true, []any{"a", 1}, map[string]any{"k": "v"}, []any{}, map[string]any{}, -1.5e300, ""}[kind]
}

const jsonKinds = 10

func runRemote(w *vf.Writer, nrand int) {
	quick := os.Getenv("VERIF_TIER") == "quick"
	root := vf.NewRand(vf.Seed() + 41)

	// key material: the ec256 fixture
	key, err := x509.ParseECPrivateKey(Fixtures()["ec256"].Bytes)
	if err != nil {
		panic(err)
	}

	jwks, _ := json.Marshal(jose.JSONWebKeySet{Keys: []jose.JSONWebKey{
		{Key: &key.PublicKey, KeyID: "k1", Algorithm: "ES256", Use: "sig"},
	}})

	signer, err := jose.NewSigner(jose.SigningKey{Algorithm: jose.ES256, Key: (*ecdsa.PrivateKey)(key)},
		new(jose.SignerOptions).WithType("JWT").WithHeader("kid", "k1"))
	if err != nil {
		panic(err)
	}

	now := time.Now()
	token, err := jwt.Signed(signer).Claims(map[string]any{
		"sub": "user", "iss": "iss", "exp": now.Add(time.Hour).Unix(), "iat": now.Unix(), "nbf": now.Unix(), "jti": "1",
	}).Serialize()
	if err != nil {
		panic(err)
	}

	introspection, _ := json.Marshal(map[string]any{
		"active": true, "sub": "user", "iss": "iss", "exp": now.Add(time.Hour).Unix(), "iat": now.Unix(), "nbf": now.Unix(),
		"scope": "a b", "aud": []string{"x"}, "client_id": "c", "token_type": "Bearer", "username": "u",
	})
	authz, _ := json.Marshal(map[string]any{"allowed": true, "reason": map[string]any{"rule": "r1", "ids": []int{1, 2}}})

	var (
		curMu sync.Mutex
		cur   struct {
			body   []byte
			status int
		}
	)

	srv := httptest.NewServer(http.HandlerFunc(func(rw http.ResponseWriter, _ *http.Request) {
		curMu.Lock()
		body, status := cur.body, cur.status
		curMu.Unlock()

		rw.Header().Set("Content-Type", "application/json")
		rw.WriteHeader(status)
		rw.Write(body) //nolint:errcheck
	}))
	defer srv.Close()

	cc := fakeCC{}

	jwtAuth, err := authenticators.CreatePrototype(cc, "jwt", "jwt", map[string]any{
		"jwks_endpoint": map[string]any{"url": srv.URL + "/jwks"},
		"assertions":    map[string]any{"issuers": []any{"iss"}},
		"cache_ttl":     "0s", "validate_jwk": false,
	})
	if err != nil {
		panic(err)
	}

	jwtAuth2, err := authenticators.CreatePrototype(cc, "jwt2", "jwt", map[string]any{
		"jwks_endpoint": map[string]any{"url": srv.URL + "/jwks"},
		"assertions":    map[string]any{"issuers": []any{"iss"}},
		"cache_ttl":     "10s", // the key cache is on; the stub context has no cache, so it is the no-op cache path
	})
	if err != nil {
		panic(err)
	}

	introAuth, err := authenticators.CreatePrototype(cc, "intro", "oauth2_introspection", map[string]any{
		"introspection_endpoint": map[string]any{"url": srv.URL + "/introspect"},
		"assertions":             map[string]any{"issuers": []any{"iss"}},
		"cache_ttl":              "0s",
	})
	if err != nil {
		panic(err)
	}

	authorizer, err := authorizers.CreatePrototype(cc, "ra", "remote", map[string]any{
		"endpoint":    map[string]any{"url": srv.URL + "/authz"},
		"payload":     "x",
		"expressions": []any{map[string]any{"expression": "Payload.allowed == true"}},
	})
	if err != nil {
		panic(err)
	}

	docs := map[string][]byte{"jwt": jwks, "jwt2": jwks, "introspection": introspection, "authorizer": authz}

	var cases []remoteCase

	for _, m := range []string{"jwt", "jwt2", "introspection", "authorizer"} {
		cases = append(cases, remoteCase{Mech: m, What: "full", Status: 200})

		for _, st := range []int{204, 401, 404, 500} {
			cases = append(cases, remoteCase{Mech: m, What: "status", Status: st})
		}

		step := 1
		if quick {
			step = 3
		}

		doc := docs[m]
		for off := 0; off < len(doc); off += step {
			cases = append(cases, remoteCase{Mech: m, What: "doc-trunc", Off: off, Status: 200})
		}

		var tree any

		json.Unmarshal(doc, &tree) //nolint:errcheck

		var ps [][]any

		jsonPaths(tree, nil, &ps)

		for pi, p := range ps {
			for k := 0; k < jsonKinds; k++ {
				if quick && (pi+k)%2 != 0 {
					continue
				}

				cases = append(cases, remoteCase{Mech: m, What: "doc-confusion", Path: fmt.Sprint(p), Kind: k, Status: 200})
			}
		}
	}

	step := 1
	if quick {
		step = 2
	}

	for off := 0; off < len(token); off += step {
		cases = append(cases, remoteCase{Mech: "jwt", What: "token-trunc", Off: off, Status: 200})
	}

	for i := 0; i < nrand; i++ { // random byte flips in the document or the token
		r := root.Fork(uint64(i))
		m := vf.Pick(r, []string{"jwt", "introspection", "authorizer"})
		c := remoteCase{Mech: m, What: "doc-flip", Off: r.Intn(len(docs[m])), Status: 200}

		if m == "jwt" && r.Bool() {
			c.What, c.Off = "token-flip", r.Intn(len(token))
		}

		cases = append(cases, c)
	}

	for k, c := range cases {
		i := 300000 + k
		if !vf.Want(i) {
			continue
		}

		doc := append([]byte{}, docs[c.Mech]...)
		tok := token
		expect := "None" // Some true: must succeed; Some false: must not succeed

		switch c.What {
		case "full":
			expect = "(Some true)"
		case "status":
			expect = "(Some false)"
		case "doc-trunc":
			doc = doc[:c.Off]
			expect = "(Some false)"
		case "doc-flip":
			doc[c.Off] ^= 0x11
		case "token-trunc":
			tok = tok[:c.Off]
			expect = "(Some false)"
		case "token-flip":
			b := []byte(tok)
			b[c.Off] ^= 0x01
			tok = string(b)

			if c.Off < strings.LastIndex(token, ".") && b[c.Off] != '.' && token[c.Off] != '.' {
				expect = "(Some false)" // header or payload changed: the signature cannot match
			}
		case "doc-confusion":
			var tree any

			json.Unmarshal(doc, &tree) //nolint:errcheck

			var ps [][]any

			jsonPaths(tree, nil, &ps)

			for _, p := range ps {
				if fmt.Sprint(p) == c.Path {
					tree = jsonSet(tree, p, jsonRepl(c.Kind))
				}
			}

			doc, _ = json.Marshal(tree)

			// replacements after which the document certainly does not say what is needed for success
			must := map[string][]string{
				"jwt":           {"[]", "[keys]", "[keys 0]", "[keys 0 crv]", "[keys 0 kty]", "[keys 0 x]", "[keys 0 y]"},
				"jwt2":          {"[]", "[keys]", "[keys 0]", "[keys 0 crv]", "[keys 0 kty]", "[keys 0 x]", "[keys 0 y]"},
				"introspection": {"[]", "[active]", "[iss]"},
				"authorizer":    {"[]", "[allowed]"},
			}[c.Mech]
			for _, p := range must {
				if p == c.Path && !(c.Kind == 3 && (p == "[active]" || p == "[allowed]")) {
					expect = "(Some false)"
				}
			}
		}

		c.Doc, c.Token = string(doc), ""
		if strings.HasPrefix(c.What, "token") {
			c.Token = tok
		}

		curMu.Lock()
		cur.body, cur.status = doc, c.Status
		curMu.Unlock()

		var execErr error

		site, msg := Catch(func() {
			ctx := newReqCtx(tok)

			switch c.Mech {
			case "jwt":
				_, execErr = jwtAuth.Execute(ctx)
			case "jwt2":
				_, execErr = jwtAuth2.Execute(ctx)
			case "introspection":
				_, execErr = introAuth.Execute(ctx)
			default:
				execErr = authorizer.Execute(ctx, &subject.Subject{ID: "user", Attributes: map[string]any{}})
			}
		})

		obs, out := "ROk", "ok"

		switch {
		case site != "":
			obs, out = "RPanics", "panic: "+msg
		case execErr != nil:
			obs, out = "RErr", "err"
		}

		w.Put(vf.Obs{
			I: i, Stream: "remote", In: c, Out: out,
			Coq:        "(MR " + vf.CoqApp("rmc", expect, obs) + ")",
			Nontrivial: c.What != "full",
			Tags:       []string{"mech=" + c.Mech, "what=" + c.What, "remote=" + strings.SplitN(out, ":", 2)[0]},
		})
	}
}
