//go:build verif

package c19gen

// C19 driver, stream "watch" (part of TestVerifC19Misc, indices 400000..): the
// whole hot-reload path end to end in a CHILD PROCESS — the real fsnotify
// watcher (watcher.Module started by fx), a real http_message_signatures
// strategy registered as its listener, the key store file REWRITTEN IN PLACE
// several times in a row (bad, bad, good, …: truncate + write, so half-written
// files are observed), OnChanged on the watcher's bare goroutines.  After every
// rewrite the child waits until the watcher has delivered the event (a log line
// of the watcher's logger: the "watcher alive" observable), lets it settle and
// reports the state served.  The parent checks every step against the model and
// that the run reaches its last step.

import (
	"bytes"
	"context"
	"crypto/x509"
	"encoding/base64"
	"encoding/json"
	"fmt"
	"os"
	"path/filepath"
	"strings"
	"sync"
	"testing"
	"time"

	"github.com/rs/zerolog"
	"go.uber.org/fx"

	"github.com/dadrus/heimdall/internal/config"
	"github.com/dadrus/heimdall/internal/rules/endpoint/authstrategy"
	"github.com/dadrus/heimdall/internal/watcher"
	"github.com/dadrus/heimdall/internal/zzverif/vf"
)

type syncBuf struct {
	mu sync.Mutex
	b  bytes.Buffer
}

func (s *syncBuf) Write(p []byte) (int, error) {
	s.mu.Lock()
	defer s.mu.Unlock()

	return s.b.Write(p)
}

func (s *syncBuf) Len() int {
	s.mu.Lock()
	defer s.mu.Unlock()

	return s.b.Len()
}

func (s *syncBuf) String() string {
	s.mu.Lock()
	defer s.mu.Unlock()

	return s.b.String()
}

type watchChildIn struct {
	Initial []Part     `json:"initial"`
	Steps   []*Content `json:"steps"`
}

type watchState struct {
	Keys  [][2]string `json:"keys"`
	Chain []string    `json:"chain"`
}

type watchStep struct {
	Delivered bool       `json:"delivered"` // the watcher's goroutine logged something for this rewrite
	Loaded    bool       `json:"loaded"`    // a synchronous OnChanged on the settled file logs "reloaded"
	State     watchState `json:"state"`     // what the strategy served before that probe
	After     watchState `json:"after"`     // … and after it
}

type watchChildOut struct {
	Pre   watchState  `json:"pre"`
	Steps []watchStep `json:"steps"`
}

func sigState(s *authstrategy.HTTPMessageSignatures) watchState {
	var st watchState

	for _, k := range s.Keys() {
		st.Keys = append(st.Keys, [2]string{k.KeyID, k.Algorithm})
	}

	for _, c := range s.Certificates() {
		st.Chain = append(st.Chain, base64.StdEncoding.EncodeToString(c.Raw))
	}

	return st
}

func TestVerifC19WatchChild(t *testing.T) {
	raw := os.Getenv("C19_WATCH_CASE")
	if raw == "" {
		t.Skip()
	}

	var in watchChildIn
	if err := json.Unmarshal([]byte(raw), &in); err != nil {
		t.Fatal(err)
	}

	path := filepath.Join(t.TempDir(), "ks.pem")
	if err := os.WriteFile(path, Compose(in.Initial), 0o600); err != nil {
		t.Fatal(err)
	}

	sig := &authstrategy.HTTPMessageSignatures{
		Signer:     authstrategy.SignerConfig{Name: "c19", KeyStore: authstrategy.KeyStore{Path: path, Password: Password}},
		Components: []string{"@method"},
	}
	sig.OnChanged(zerolog.Nop()) // initial load (init is not exported)

	out := watchChildOut{Pre: sigState(sig)}
	if len(out.Pre.Keys) == 0 {
		t.Fatal("initial load failed")
	}

	logs := &syncBuf{}
	app := fx.New(fx.NopLogger,
		fx.Supply(&config.Configuration{SecretsReloadEnabled: true}, zerolog.New(logs)),
		watcher.Module,
		fx.Invoke(func(w watcher.Watcher) error { return w.Add(path, sig) }),
	)

	if err := app.Start(context.Background()); err != nil {
		t.Fatal(err)
	}

	report := func() {
		b, _ := json.Marshal(out)
		fmt.Println("C19-WATCH-RESULT " + string(b))
	}

	for _, c := range in.Steps {
		mark := logs.Len()

		// rewrite in place: O_TRUNC, then the new bytes — the watcher sees the intermediate empty file too
		if err := os.WriteFile(path, c.Bytes(), 0o600); err != nil {
			t.Fatal(err)
		}

		step := watchStep{}

		for deadline := time.Now().Add(20 * time.Second); time.Now().Before(deadline); time.Sleep(2 * time.Millisecond) {
			if logs.Len() > mark {
				step.Delivered = true

				break
			}
		}

		// let the goroutines of both write events finish: no new log output for 100 ms
		for last, quiet := logs.Len(), 0; quiet < 50; time.Sleep(2 * time.Millisecond) {
			if n := logs.Len(); n != last {
				last, quiet = n, 0
			} else {
				quiet++
			}
		}

		step.State = sigState(sig)

		probe := &syncBuf{}
		sig.OnChanged(zerolog.New(probe))
		step.Loaded = strings.Contains(probe.String(), "key store reloaded")
		step.After = sigState(sig)

		out.Steps = append(out.Steps, step)
		report() // progress line: the parent uses the last one

		if !step.Delivered {
			break // the watcher has stopped: nothing more to observe
		}
	}

	report()
}

func runWatch(t *testing.T, w *vf.Writer) {
	t.Helper()

	root := vf.NewRand(vf.Seed() + 67)

	good := [][]Part{
		{{Fix: "ec384", Kid: "new"}, {Fix: "rsa2048"}},
		{{Fix: "ec256"}, {Fix: "cert_ec256"}, {Fix: "cert_inter"}, {Fix: "cert_root"}},
		{{Fix: "rsa3072", Kid: "r"}},
	}
	bad := []*Content{
		{Mut: "none"},
		{Parts: []Part{{Fix: "ec256"}}, Mut: "trunc", Off: 20},
		{Parts: []Part{{Fix: "rsa2560"}}, Mut: "none"},
		{Parts: []Part{{Fix: "ed25519"}}, Mut: "none"},
		{Parts: []Part{{Fix: "cert_root"}}, Mut: "none"},
		{Parts: []Part{{Fix: "ec256"}, {Fix: "ec256pub"}}, Mut: "none"},
		{Parts: []Part{{Fix: "ec384"}, {Fix: "cert_ec384_nods"}, {Fix: "cert_root"}}, Mut: "none"},
	}

	// two runs: bad, bad, good, bad, good — the fixed one and a seeded one
	runs := [][]*Content{
		{bad[0], bad[1], {Parts: good[0], Mut: "none"}, bad[2], {Parts: good[2], Mut: "none"}},
	}

	var seeded []*Content

	for k := 0; k < 5; k++ {
		if k == 2 || k == 4 {
			seeded = append(seeded, &Content{Parts: vf.Pick(root, good), Mut: "none"})
		} else if root.Chance(70) {
			seeded = append(seeded, vf.Pick(root, bad))
		} else {
			b := vf.Pick(root, good)
			seeded = append(seeded, &Content{Parts: b, Mut: "trunc", Off: root.Intn(len(Compose(b)))})
		}
	}

	runs = append(runs, seeded)
	idx := 400000

	for ri, steps := range runs {
		first := idx
		idx += len(steps)

		wanted := false
		for k := range steps {
			wanted = wanted || vf.Want(first+k)
		}

		if !wanted {
			continue
		}

		initial := []Part{{Fix: "ec256"}, {Fix: "cert_ec256"}, {Fix: "cert_inter"}, {Fix: "cert_root"}}
		in := NewInterner()
		Analyse(in, Compose(initial), Password)

		raw, _ := json.Marshal(watchChildIn{Initial: initial, Steps: steps})
		// 5 steps, each waits at most 20 s for the delivery and stops the run when it does not come
		text, err := RunChild(t, "TestVerifC19WatchChild", 45*time.Second, "C19_WATCH_CASE="+string(raw))

		var res watchChildOut

		for _, line := range strings.Split(text, "\n") {
			if strings.HasPrefix(line, "C19-WATCH-RESULT ") {
				var r watchChildOut
				if json.Unmarshal([]byte(strings.TrimPrefix(line, "C19-WATCH-RESULT ")), &r) == nil {
					res = r
				}
			}
		}

		conv := func(s watchState) stateJSON {
			j := stateJSON{Keys: s.Keys}

			for _, b := range s.Chain {
				der, _ := base64.StdEncoding.DecodeString(b)
				if crt, err := x509.ParseCertificate(der); err == nil {
					j.Chain = append(j.Chain, in.Cert(crt))
				}
			}

			return j
		}

		pre := conv(res.Pre)

		for k, c := range steps {
			i := first + k
			rc := ReloadCase{Comp: "httpsig", Initial: initial, New: c, Oracle: Analyse(in, c.Bytes(), Password)}
			o := reloadObs{Pre: pre}

			var outCoq string

			switch {
			case k < len(res.Steps) && res.Steps[k].Delivered && res.Steps[k].Loaded &&
				fmt.Sprint(res.Steps[k].State) == fmt.Sprint(res.Steps[k].After):
				o.Outcome, o.Post = "reloaded", conv(res.Steps[k].State)
				outCoq = "(Reloaded " + o.Post.Coq() + ")"
			case k < len(res.Steps) && res.Steps[k].Delivered:
				o.Outcome, o.Post = "kept", conv(res.Steps[k].State)
				outCoq = "(Kept " + o.Post.Coq() + ")"
			case k < len(res.Steps):
				// the child lives but the watcher did not deliver the rewrite: the background watcher has stopped
				o.Outcome = "exit:SOther"
				o.Msg = "watcher did not deliver the event within 20 s (stopped?)"
				outCoq = "(ProcessExit SOther)"
			default:
				// the child died during this step (or an earlier one): which panic, from its output
				site := "SOther"

				switch {
				case strings.Contains(text, "index out of range [0] with length 0"):
					site = "SEntries0"
				case strings.Contains(text, "unsupported") && strings.Contains(text, "key size") && strings.Contains(text, "authstrategy.get"):
					site = "SSigKeySize"
				case strings.Contains(text, "unsupported") && strings.Contains(text, "key size"):
					site = "SKeySize"
				case strings.Contains(text, "stack overflow"):
					site = "SChainLoop"
				}

				o.Outcome = "exit:" + site
				o.Msg = fmt.Sprint("child: ", err, " ", text[:min(len(text), 400)])
				outCoq = "(ProcessExit " + site + ")"
			}

			if vf.Want(i) {
				w.Put(vf.Obs{
					I: i, Stream: "watch", In: rc, Out: o,
					Coq: "(ME " + vf.CoqApp("rc", "HttpSig", "false", vf.CoqStr(""), "(Some "+rc.Oracle.CoqBlocks()+")",
						vf.CoqBool(rc.Oracle.Trailing), rc.Oracle.CoqChainOK(), rc.Oracle.CoqUsable(), pre.Coq(), outCoq) + ")",
					Nontrivial: true,
					Tags:       []string{"watch-e2e", fmt.Sprintf("watch-run=%d", ri), fmt.Sprintf("watch-step=%d", k), "out=" + strings.SplitN(o.Outcome, ":", 2)[0]},
				})
			}

			if strings.HasPrefix(o.Outcome, "exit") {
				break // nothing is observed after the process / watcher is gone
			}

			// the next step starts from the state after the probe
			pre = conv(res.Steps[k].After)
		}
	}
}
