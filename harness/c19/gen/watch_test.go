//go:build verif

package c19gen

// C19 driver, stream "watch" (part of TestVerifC19Misc, indices 400000..): the
// whole hot-reload path end to end in a CHILD PROCESS — the real fsnotify
// watcher (watcher.Module started by fx), a real http_message_signatures
// strategy registered as its listener, the key store file rewritten in place
// (truncate + write, so a half-written file is observed), OnChanged on the
// watcher's bare goroutine.  The parent sees whether the process survived and
// which state it serves afterwards.

import (
	"bytes"
	"context"
	"crypto/x509"
	"encoding/base64"
	"encoding/json"
	"fmt"
	"os"
	"os/exec"
	"path/filepath"
	"strings"
	"sync"
	"testing"
	"time"

	"github.com/rs/zerolog"
	"go.uber.org/fx"

	"github.com/dadrus/heimdall/internal/config"
	"github.com/dadrus/heimdall/internal/rules/endpoint/authstrategy"
	"github.com/dadrus/heimdall/internal/watcher"
	"github.com/dadrus/heimdall/internal/zzverif/vf"
)

type syncBuf struct {
	mu sync.Mutex
	b  bytes.Buffer
}

func (s *syncBuf) Write(p []byte) (int, error) {
	s.mu.Lock()
	defer s.mu.Unlock()

	return s.b.Write(p)
}

func (s *syncBuf) String() string {
	s.mu.Lock()
	defer s.mu.Unlock()

	return s.b.String()
}

type watchChildIn struct {
	Initial []Part   `json:"initial"`
	New     *Content `json:"new"`
	Want    string   `json:"want"` // the log line that ends the wait: "reloaded" or "reload failed"
}

type watchState struct {
	Keys  [][2]string `json:"keys"`
	Chain []string    `json:"chain"`
}

type watchChildOut struct {
	Outcome string     `json:"outcome"` // reloaded kept timeout
	Pre     watchState `json:"pre"`
	Post    watchState `json:"post"`
}

func sigState(s *authstrategy.HTTPMessageSignatures) watchState {
	var st watchState

	for _, k := range s.Keys() {
		st.Keys = append(st.Keys, [2]string{k.KeyID, k.Algorithm})
	}

	for _, c := range s.Certificates() {
		st.Chain = append(st.Chain, base64.StdEncoding.EncodeToString(c.Raw))
	}

	return st
}

func TestVerifC19WatchChild(t *testing.T) {
	raw := os.Getenv("C19_WATCH_CASE")
	if raw == "" {
		t.Skip()
	}

	var in watchChildIn
	if err := json.Unmarshal([]byte(raw), &in); err != nil {
		t.Fatal(err)
	}

	path := filepath.Join(t.TempDir(), "ks.pem")
	if err := os.WriteFile(path, Compose(in.Initial), 0o600); err != nil {
		t.Fatal(err)
	}

	sig := &authstrategy.HTTPMessageSignatures{
		Signer:     authstrategy.SignerConfig{Name: "c19", KeyStore: authstrategy.KeyStore{Path: path, Password: Password}},
		Components: []string{"@method"},
	}
	sig.OnChanged(zerolog.Nop()) // initial load (init is not exported)

	out := watchChildOut{Pre: sigState(sig)}
	if len(out.Pre.Keys) == 0 {
		t.Fatal("initial load failed")
	}

	logs := &syncBuf{}
	app := fx.New(fx.NopLogger,
		fx.Supply(&config.Configuration{SecretsReloadEnabled: true}, zerolog.New(logs)),
		watcher.Module,
		fx.Invoke(func(w watcher.Watcher) error { return w.Add(path, sig) }),
	)

	if err := app.Start(context.Background()); err != nil {
		t.Fatal(err)
	}

	// rewrite in place: O_TRUNC, then the new bytes — the watcher sees the intermediate empty file too
	if err := os.WriteFile(path, in.New.Bytes(), 0o600); err != nil {
		t.Fatal(err)
	}

	out.Outcome = "timeout"

	for deadline := time.Now().Add(60 * time.Second); time.Now().Before(deadline); time.Sleep(5 * time.Millisecond) {
		if strings.Contains(logs.String(), "key store "+in.Want) {
			out.Outcome = map[string]string{"reloaded": "reloaded", "reload failed": "kept"}[in.Want]

			break
		}
	}

	time.Sleep(50 * time.Millisecond) // let a second OnChanged goroutine (second write event) finish
	out.Post = sigState(sig)

	b, _ := json.Marshal(out)
	fmt.Println("C19-WATCH-RESULT " + string(b))
}

func runWatch(w *vf.Writer) {
	cases := []ReloadCase{
		{New: &Content{Mut: "none"}}, // rewritten to nothing
		{New: &Content{Parts: []Part{{Fix: "ec256"}}, Mut: "trunc", Off: 20}},
		{New: &Content{Parts: []Part{{Fix: "ec384", Kid: "new"}, {Fix: "rsa2048"}}, Mut: "none"}}, // a good rotation
		{New: &Content{Parts: []Part{{Fix: "rsa2560"}}, Mut: "none"}},
	}

	for k, c := range cases {
		i := 400000 + k
		if !vf.Want(i) {
			continue
		}

		c.Comp = "httpsig"
		c.Initial = []Part{{Fix: "ec256"}, {Fix: "cert_ec256"}, {Fix: "cert_inter"}, {Fix: "cert_root"}}

		in := NewInterner()
		Analyse(in, Compose(c.Initial), Password)
		c.Oracle = Analyse(in, c.New.Bytes(), Password)

		want := "reload failed"
		if k == 2 {
			want = "reloaded"
		}

		raw, _ := json.Marshal(watchChildIn{Initial: c.Initial, New: c.New, Want: want})
		cmd := exec.Command(os.Args[0], "-test.run", "^TestVerifC19WatchChild$", "-test.v")
		cmd.Env = append(os.Environ(), "C19_WATCH_CASE="+string(raw), "VERIF_OUT=/dev/null")
		outb, err := cmd.CombinedOutput()

		var res watchChildOut

		got := false

		for _, line := range strings.Split(string(outb), "\n") {
			if strings.HasPrefix(line, "C19-WATCH-RESULT ") {
				got = json.Unmarshal([]byte(strings.TrimPrefix(line, "C19-WATCH-RESULT ")), &res) == nil
			}
		}

		conv := func(s watchState) stateJSON {
			j := stateJSON{Keys: s.Keys}

			for _, b := range s.Chain {
				der, _ := base64.StdEncoding.DecodeString(b)
				if crt, err := x509.ParseCertificate(der); err == nil {
					j.Chain = append(j.Chain, in.Cert(crt))
				}
			}

			return j
		}

		o := reloadObs{}

		var outCoq string

		switch {
		case got && res.Outcome == "reloaded":
			o.Outcome, o.Pre, o.Post = "reloaded", conv(res.Pre), conv(res.Post)
			outCoq = "(Reloaded " + o.Post.Coq() + ")"
		case got && res.Outcome == "kept":
			o.Outcome, o.Pre, o.Post = "kept", conv(res.Pre), conv(res.Post)
			outCoq = "(Kept " + o.Post.Coq() + ")"
		default:
			// the child died (or never logged): which panic, from its output
			site := "SOther"
			text := string(outb)

			switch {
			case strings.Contains(text, "index out of range [0] with length 0"):
				site = "SEntries0"
			case strings.Contains(text, "unsupported") && strings.Contains(text, "key size") && strings.Contains(text, "authstrategy.get"):
				site = "SSigKeySize"
			case strings.Contains(text, "unsupported") && strings.Contains(text, "key size"):
				site = "SKeySize"
			case strings.Contains(text, "stack overflow"):
				site = "SChainLoop"
			}

			o.Outcome = "exit:" + site
			o.Msg = fmt.Sprint("child: ", err, " ", text[:min(len(text), 400)])
			o.Pre = conv(res.Pre)
			outCoq = "(ProcessExit " + site + ")"

			if got { // alive but the expected log line never came
				o.Outcome = "timeout"
			}
		}

		// the pre-state is what the child reported after its initial load; if it died, what the model predicts for it
		pre := o.Pre
		if !got {
			pre = stateJSON{}
		}

		w.Put(vf.Obs{
			I: i, Stream: "watch", In: c, Out: o,
			Coq: "(ME " + vf.CoqApp("rc", "HttpSig", "false", vf.CoqStr(""), "(Some "+c.Oracle.CoqBlocks()+")",
				c.Oracle.CoqChainOK(), c.Oracle.CoqUsable(), pre.Coq(), outCoq) + ")",
			Nontrivial: true,
			Tags:       []string{"watch-e2e", "out=" + strings.SplitN(o.Outcome, ":", 2)[0]},
		})
	}
}
