//go:build verif

// Package c19gen is shared by the C19 drivers (overlay-only package
// internal/zzverif/c19gen): PEM fixtures, key-store content generator
// (compositions of fixture blocks + byte-level mutations, truncation at every
// offset), the block oracle (what encoding/pem and the x509/pkcs8 parsers
// return on the very bytes of a case), Gallina rendering, panic attribution.
package c19gen

import (
	"bytes"
	"crypto"
	"crypto/ecdsa"
	"crypto/rsa"
	"crypto/x509"
	"encoding/hex"
	"encoding/pem"
	"fmt"
	"os"
	"path/filepath"
	"runtime/debug"
	"sort"
	"strings"
	"time"

	"github.com/youmark/pkcs8"

	"github.com/dadrus/heimdall/internal/keystore"
	"github.com/dadrus/heimdall/internal/x/pkix"
	"github.com/dadrus/heimdall/internal/zzverif/vf"
)

// ------------------------------------------------------------------ fixtures

const Password = "secret"

var fixtures map[string]*pem.Block

func Fixtures() map[string]*pem.Block {
	if fixtures != nil {
		return fixtures
	}

	data, err := os.ReadFile(filepath.Join(os.Getenv("VERIF_DIR"), "corpus", "C19", "fixtures.pem"))
	if err != nil {
		panic(err)
	}

	fixtures = map[string]*pem.Block{}

	for {
		var b *pem.Block

		b, data = pem.Decode(data)
		if b == nil {
			break
		}

		n := b.Headers["Name"]
		delete(b.Headers, "Name")
		fixtures[n] = b
	}

	return fixtures
}

var (
	GoodKeys = []string{"rsa2048", "rsa3072", "rsa4096", "ec256", "ec256b", "ec384", "ec521", "ec256enc"}
	// sizes below, between, just beside and above the supported ones
	BadKeys    = []string{"rsa1024", "ec224", "ed25519", "rsa1536", "rsa2056", "rsa2560", "rsa3584", "rsa4088", "rsa5120"}
	OtherBlock = []string{"ec256pub"}
	Certs      = []string{"cert_root", "cert_inter", "cert_ec256", "cert_rsa2048", "cert_ec384_nods", "cert_ec521_expired",
		"cert_ec256b_self", "cert_rsa1024", "cert_ec224"}
)

// ------------------------------------------------------------------ contents

type Part struct {
	Fix string `json:"fix"`
	Kid string `json:"kid,omitempty"`
}

// Content is the description of one file content: a composition of fixture
// blocks, then one byte-level mutation.
type Content struct {
	Parts   []Part `json:"parts"`
	Mut     string `json:"mut"` // none trunc flip delline label garbage blank missing
	Off     int    `json:"off,omitempty"`
	Missing bool   `json:"missing,omitempty"`
	bytes   []byte
}

func Compose(parts []Part) []byte {
	var out []byte

	for _, p := range parts {
		src := Fixtures()[p.Fix]
		b := &pem.Block{Type: src.Type, Bytes: src.Bytes}

		if p.Kid != "" {
			b.Headers = map[string]string{"X-Key-ID": p.Kid}
		}

		out = append(out, pem.EncodeToMemory(b)...)
	}

	return out
}

func (c *Content) Bytes() []byte {
	if c.bytes != nil || c.Missing {
		return c.bytes
	}

	base := Compose(c.Parts)
	off := c.Off

	if off > len(base) {
		off = len(base)
	}

	switch c.Mut {
	case "trunc":
		base = base[:off]
	case "flip":
		if len(base) > 0 {
			if off >= len(base) {
				off = len(base) - 1
			}

			base = append([]byte{}, base...)
			base[off] ^= 0x15
		}
	case "delline":
		lines := bytes.SplitAfter(base, []byte("\n"))
		if len(lines) > 0 {
			k := off % len(lines)
			lines = append(append([][]byte{}, lines[:k]...), lines[k+1:]...)
			base = bytes.Join(lines, nil)
		}
	case "label":
		// rename the type of the first block (BEGIN and END lines)
		labels := []string{"PRIVATE KEY", "EC PRIVATE KEY", "RSA PRIVATE KEY", "CERTIFICATE", "PUBLIC KEY", "ENCRYPTED PRIVATE KEY"}
		if len(c.Parts) > 0 {
			old := Fixtures()[c.Parts[0].Fix].Type
			nl := labels[off%len(labels)]
			base = bytes.Replace(base, []byte("-----BEGIN "+old+"-----"), []byte("-----BEGIN "+nl+"-----"), 1)
			base = bytes.Replace(base, []byte("-----END "+old+"-----"), []byte("-----END "+nl+"-----"), 1)
		}
	case "garbage":
		base = append(append([]byte{}, base...), []byte("-----BEGIN PRIVATE")...)
	case "blank":
		base = append(append([]byte{}, base...), '\n')
	}

	if base == nil {
		base = []byte{}
	}

	c.bytes = base

	return base
}

// WriteTo puts the content at path (or removes the file).
func (c *Content) WriteTo(path string) {
	if c.Missing {
		os.Remove(path)

		return
	}

	if err := os.WriteFile(path, c.Bytes(), 0o600); err != nil {
		panic(err)
	}
}

// ------------------------------------------------------------------ interning

type Interner struct{ m map[string]int }

func NewInterner() *Interner { return &Interner{m: map[string]int{}} }

func (i *Interner) ID(space string, b []byte) int {
	k := space + ":" + string(b)
	if v, ok := i.m[k]; ok {
		return v
	}

	v := len(i.m) + 1
	i.m[k] = v

	return v
}

func (i *Interner) Pub(k crypto.PublicKey) int {
	der, err := x509.MarshalPKIXPublicKey(k)
	if err != nil {
		return 0
	}

	return i.ID("pub", der)
}

func (i *Interner) Cert(c *x509.Certificate) int { return i.ID("cert", c.Raw) }

func (i *Interner) Name(raw []byte) string { return fmt.Sprintf("n%d", i.ID("name", raw)) }

// ------------------------------------------------------------------ block oracle

type CertInfo struct {
	ID   int    `json:"id"`
	Pub  int    `json:"pub"`
	Subj string `json:"subj"`
	Iss  string `json:"iss"`
	Aki  string `json:"aki"`
	Ski  string `json:"ski"`
	c    *x509.Certificate
}

type BlockInfo struct {
	Kind string    `json:"kind"` // key cert other
	Type string    `json:"type"`
	OK   bool      `json:"ok"`
	Alg  string    `json:"alg,omitempty"` // RSA ECDSA foreign
	Size int       `json:"size,omitempty"`
	Pub  int       `json:"pub,omitempty"`
	Spki string    `json:"spki,omitempty"`
	Kid  string    `json:"kid,omitempty"`
	Cert *CertInfo `json:"cert,omitempty"`
	pubK crypto.PublicKey
}

type Analysis struct {
	Blocks   []BlockInfo `json:"blocks"`
	Trailing bool        `json:"trailing"` // non-blank bytes that do not decode are left after the last block (or instead of any block)
	ChainOK  []int       `json:"chain_ok"` // public keys whose chain (keystore.FindChain) passes keystore.ValidateChain
	Usable   []int       `json:"usable"`   // … and pkix.ValidateCertificate(digitalSignature) as jwtSigner.load does
	Cyclic   bool        `json:"cyclic,omitempty"`
}

// Analyse is the oracle: it decodes the bytes with encoding/pem exactly as
// readPEMContents / pemx.ReadPEM do and runs, per block, the parser the key
// store selects for the block type.
func Analyse(in *Interner, data []byte, password string) *Analysis {
	a := &Analysis{}
	rest := data

	for len(rest) > 0 {
		var b *pem.Block

		b, rest = pem.Decode(rest)
		if b == nil {
			// an undecodable rest; white space after the last block is not damage
			a.Trailing = len(bytes.TrimSpace(rest)) != 0

			break
		}

		bi := BlockInfo{Type: b.Type, Kid: b.Headers["X-Key-ID"]}

		var (
			key any
			err error
		)

		switch b.Type {
		case "ENCRYPTED PRIVATE KEY":
			bi.Kind = "key"
			key, err = pkcs8.ParsePKCS8PrivateKey(b.Bytes, []byte(password))
		case "PRIVATE KEY":
			bi.Kind = "key"
			key, err = x509.ParsePKCS8PrivateKey(b.Bytes)
		case "EC PRIVATE KEY":
			bi.Kind = "key"
			key, err = x509.ParseECPrivateKey(b.Bytes)
		case "RSA PRIVATE KEY":
			bi.Kind = "key"
			key, err = x509.ParsePKCS1PrivateKey(b.Bytes)
		case "CERTIFICATE":
			bi.Kind = "cert"

			var c *x509.Certificate

			c, err = x509.ParseCertificate(b.Bytes)
			if err == nil {
				bi.Cert = &CertInfo{
					ID: in.Cert(c), Pub: in.Pub(c.PublicKey), Subj: in.Name(c.RawSubject), Iss: in.Name(c.RawIssuer),
					Aki: hex.EncodeToString(c.AuthorityKeyId), Ski: hex.EncodeToString(c.SubjectKeyId), c: c,
				}
			}
		default:
			bi.Kind = "other"
		}

		bi.OK = err == nil

		if bi.Kind == "key" && err == nil {
			switch k := key.(type) {
			case *rsa.PrivateKey:
				bi.Alg, bi.Size, bi.pubK = "RSA", k.Size()*8, k.Public()
			case *ecdsa.PrivateKey:
				bi.Alg, bi.Size, bi.pubK = "ECDSA", k.Params().BitSize, k.Public()
			default:
				bi.Alg = "foreign"
			}

			if bi.pubK != nil {
				bi.Pub = in.Pub(bi.pubK)
				id, _ := pkix.SubjectKeyID(bi.pubK)
				bi.Spki = hex.EncodeToString(id)
			}
		}

		a.Blocks = append(a.Blocks, bi)
	}

	// chain oracles, only when chain building terminates
	var pool []*x509.Certificate

	for _, b := range a.Blocks {
		if b.Cert != nil {
			pool = append(pool, b.Cert.c)
		}
	}

	// keystore.FindChain does not return on a pool with cyclic issuers in a tree without the repair of
	// C19-F6; for such pools the chain is built here (every certificate at most once, as the repaired code does)
	a.Cyclic = cyclic(pool)
	findChain := keystore.FindChain

	if a.Cyclic {
		findChain = ownFindChain
	}

	seen := map[int]bool{}

	for _, b := range a.Blocks {
		if b.pubK == nil || seen[b.Pub] {
			continue
		}

		seen[b.Pub] = true

		chain := findChain(b.pubK, pool)
		if len(chain) == 0 {
			continue
		}

		if keystore.ValidateChain(chain) == nil {
			a.ChainOK = append(a.ChainOK, b.Pub)
		}

		opts := []pkix.ValidationOption{
			pkix.WithKeyUsage(x509.KeyUsageDigitalSignature),
			pkix.WithRootCACertificates([]*x509.Certificate{chain[len(chain)-1]}),
			pkix.WithCurrentTime(time.Now()),
		}
		if len(chain) > 2 {
			opts = append(opts, pkix.WithIntermediateCACertificates(chain[1:len(chain)-1]))
		}

		if pkix.ValidateCertificate(chain[0], opts...) == nil {
			a.Usable = append(a.Usable, b.Pub)
		}
	}

	return a
}

func certIssuerOf(child, cand *x509.Certificate) bool {
	if len(child.AuthorityKeyId) != 0 && len(cand.SubjectKeyId) != 0 {
		return bytes.Equal(child.AuthorityKeyId, cand.SubjectKeyId)
	}

	return bytes.Equal(child.RawIssuer, cand.RawSubject)
}

func ownFindChain(key crypto.PublicKey, pool []*x509.Certificate) []*x509.Certificate {
	pk, ok := key.(interface{ Equal(x crypto.PublicKey) bool })
	if !ok {
		return nil
	}

	var chain []*x509.Certificate

	for _, c := range pool {
		if pk.Equal(c.PublicKey) {
			chain = []*x509.Certificate{c}

			break
		}
	}

	if chain == nil {
		return nil
	}

walk:
	for {
		child := chain[len(chain)-1]

		for _, cand := range pool {
			used := false

			for _, u := range chain {
				used = used || u.Equal(cand)
			}

			if !used && certIssuerOf(child, cand) {
				chain = append(chain, cand)

				continue walk
			}
		}

		return chain
	}
}

// cyclic tells whether following "first other certificate in the pool that is
// my issuer" from some certificate comes back to a certificate already
// visited — the inputs on which keystore.buildChain does not return.  The
// driver must not hand such a pool to the real code in-process.
func cyclic(pool []*x509.Certificate) bool {
	isIssuer := func(child, cand *x509.Certificate) bool {
		if len(child.AuthorityKeyId) != 0 && len(cand.SubjectKeyId) != 0 {
			return bytes.Equal(child.AuthorityKeyId, cand.SubjectKeyId)
		}

		return bytes.Equal(child.RawIssuer, cand.RawSubject)
	}

	for _, start := range pool {
		visited := []*x509.Certificate{start}
		child := start

	walk:
		for {
			for _, cand := range pool {
				if child.Equal(cand) || !isIssuer(child, cand) {
					continue
				}

				for _, v := range visited {
					if v.Equal(cand) {
						return true
					}
				}

				visited = append(visited, cand)
				child = cand

				continue walk
			}

			break
		}
	}

	return false
}

// ------------------------------------------------------------------ Gallina rendering

func coqNatList(xs []int) string {
	items := make([]string, len(xs))
	for i, x := range xs {
		items[i] = fmt.Sprintf("%d", x)
	}

	return "[" + strings.Join(items, ";") + "]"
}

func (c *CertInfo) Coq() string {
	return vf.CoqApp("mkc", fmt.Sprint(c.ID), fmt.Sprint(c.Pub), vf.CoqStr(c.Subj), vf.CoqStr(c.Iss), vf.CoqStr(c.Aki), vf.CoqStr(c.Ski))
}

func (b BlockInfo) Coq() string {
	switch b.Kind {
	case "key":
		if !b.OK {
			return vf.CoqApp("BKey", "None", vf.CoqStr(b.Kid))
		}

		if b.Alg == "foreign" {
			return vf.CoqApp("BKey", "(Some KForeign)", vf.CoqStr(b.Kid))
		}

		return vf.CoqApp("BKey", "(Some "+vf.CoqApp("KSig", b.Alg, vf.CoqZ(int64(b.Size)), fmt.Sprint(b.Pub), vf.CoqStr(b.Spki))+")",
			vf.CoqStr(b.Kid))
	case "cert":
		if !b.OK {
			return "(BCert None)"
		}

		return "(BCert (Some " + b.Cert.Coq() + "))"
	}

	return "BOther"
}

func (a *Analysis) CoqBlocks() string {
	return vf.CoqListOf(a.Blocks, func(b BlockInfo) string { return b.Coq() })
}

func (a *Analysis) CoqChainOK() string { return "(memn " + coqNatList(a.ChainOK) + ")" }
func (a *Analysis) CoqUsable() string  { return "(memn " + coqNatList(a.Usable) + ")" }

// Tags for the input histogram.
func (a *Analysis) Tags() []string {
	nk, nc, bad, unsup := 0, 0, 0, 0

	for _, b := range a.Blocks {
		switch {
		case !b.OK || b.Kind == "other" || b.Alg == "foreign":
			bad++
		case b.Kind == "key":
			nk++

			if !sizeOK(b.Alg, b.Size) {
				unsup++
			}
		case b.Kind == "cert":
			nc++
		}
	}

	t := []string{fmt.Sprintf("keys=%d", min(nk, 3)), fmt.Sprintf("certs=%d", min(nc, 3))}
	if bad > 0 {
		t = append(t, "bad-block")
	}

	if unsup > 0 {
		t = append(t, "unsupported-size")
	}

	if a.Trailing {
		t = append(t, "trailing")
	}

	if len(a.Blocks) == 0 {
		t = append(t, "no-blocks")
	}

	return t
}

func sizeOK(alg string, size int) bool {
	if alg == "RSA" {
		return size == 2048 || size == 3072 || size == 4096
	}

	return size == 256 || size == 384 || size == 521
}

// ------------------------------------------------------------------ panic attribution

// Site classifies a recovered panic by its message and the stack at the time
// of recovery into the model's [site] enumeration.
func Site(rec any, stack string) string {
	msg := fmt.Sprint(rec)

	switch {
	case strings.Contains(msg, "unsupported RSA key size") || strings.Contains(msg, "unsupported ECDSA key size"):
		if strings.Contains(stack, "authstrategy.get") {
			return "SSigKeySize"
		}

		return "SKeySize"
	case strings.Contains(msg, "index out of range [0] with length 0"):
		if strings.Contains(stack, "GetAuthData") {
			return "SExtractEmpty"
		}

		return "SEntries0"
	case strings.Contains(msg, "interface conversion") &&
		(strings.Contains(stack, "oauth2.createMatcherFromValues") || strings.Contains(stack, "oauth2.decodeMatcherFromMap")):
		return "SScopes"
	case strings.Contains(msg, "interface conversion") && strings.Contains(msg, "not string"):
		if strings.Contains(stack, "mapstructure") {
			return "SDecode"
		}

		if strings.Contains(stack, "rule_factory_impl.go") {
			return "SIdAssert"
		}
	case strings.Contains(msg, "unexpected type for config"):
		return "SGetConfig"
	case strings.Contains(msg, "index out of range [1] with length 1") && strings.Contains(stack, "kubernetes.(*provider).updateStatus"):
		return "SActiveIn"
	case strings.Contains(msg, "nil pointer dereference") && strings.Contains(stack, "kubernetes.(*provider).updateStatus"):
		return "SStatusErr"
	case strings.Contains(msg, "nil pointer dereference"):
		if strings.Contains(stack, "pemx.ReadPEM") {
			return "SNilBlock"
		}

		if strings.Contains(stack, "loadRuleSet") {
			return "SStatNil"
		}
	}

	return "SOther"
}

// Catch runs f and reports a panic as (site, message).
func Catch(f func()) (site string, msg string) {
	defer func() {
		if r := recover(); r != nil {
			site, msg = Site(r, string(debug.Stack())), fmt.Sprint(r)
		}
	}()

	f()

	return "", ""
}

// ------------------------------------------------------------------ content generator

// AllKeys: every private-key fixture, supported or not.
func AllKeys() []string { return append(append([]string{}, GoodKeys...), BadKeys...) }

// Compositions used by the systematic sweeps (all load successfully in all
// three components unless noted).
var SweepBases = [][]Part{
	{{Fix: "ec256"}},
	{{Fix: "ec256", Kid: "k1"}, {Fix: "cert_ec256"}, {Fix: "cert_inter"}, {Fix: "cert_root"}},
	{{Fix: "rsa2048"}, {Fix: "cert_rsa2048"}, {Fix: "cert_root"}, {Fix: "ec384", Kid: "second"}},
	{{Fix: "ec256b"}, {Fix: "cert_ec256b_self"}},
}

func GenParts(r *vf.Rand) []Part {
	n := r.Range(0, 5)
	if r.Chance(50) {
		n = r.Range(1, 3)
	}

	var parts []Part

	for i := 0; i < n; i++ {
		var fix string

		switch x := r.Intn(100); {
		case x < 45:
			fix = vf.Pick(r, GoodKeys)
		case x < 57:
			fix = vf.Pick(r, BadKeys)
		case x < 62:
			fix = vf.Pick(r, OtherBlock)
		default:
			fix = vf.Pick(r, Certs)
		}

		p := Part{Fix: fix}
		if !strings.HasPrefix(fix, "cert_") && r.Chance(35) {
			p.Kid = vf.Pick(r, []string{"k1", "k2", "k1", "second"})
		}

		parts = append(parts, p)
	}

	// often add the certificates that belong to the keys chosen
	if r.Chance(50) {
		for _, p := range append([]Part{}, parts...) {
			if _, ok := Fixtures()["cert_"+p.Fix]; ok && r.Chance(70) {
				parts = append(parts, Part{Fix: "cert_" + p.Fix})

				if r.Chance(70) {
					parts = append(parts, Part{Fix: "cert_inter"}, Part{Fix: "cert_root"})
				}
			}
		}
	}

	if r.Chance(20) {
		r2 := r.Fork(99)
		sort.SliceStable(parts, func(i, j int) bool { return r2.Bool() })
	}

	return parts
}

func GenContent(r *vf.Rand) *Content {
	c := &Content{Parts: GenParts(r), Mut: "none"}
	n := len(Compose(c.Parts))

	switch x := r.Intn(100); {
	case x < 45:
	case x < 65:
		c.Mut, c.Off = "trunc", r.Intn(n+1)
	case x < 73:
		c.Mut, c.Off = "flip", r.Intn(n+1)
	case x < 81:
		c.Mut, c.Off = "delline", r.Intn(64)
	case x < 87:
		c.Mut, c.Off = "label", r.Intn(6)
	case x < 91:
		c.Mut = "garbage"
	case x < 95:
		c.Mut = "blank"
	default:
		c.Mut, c.Missing = "missing", true
	}

	return c
}

// KeyIDs proposes a configured key_id for a content: mostly "", sometimes a kid that exists.
func GenKeyID(r *vf.Rand, c *Content) string {
	switch x := r.Intn(100); {
	case x < 60:
		return ""
	case x < 90:
		var kids []string

		for _, p := range c.Parts {
			if p.Kid != "" {
				kids = append(kids, p.Kid)
			}
		}

		if len(kids) > 0 {
			return vf.Pick(r, kids)
		}

		return "k1"
	default:
		return "nope"
	}
}

// ------------------------------------------------------------------ YAML / JSON value trees as Gallina [yv]

// YV renders a decoded value tree; below depth 0 containers are cut to empty ones.
func YV(v any, depth int) string {
	switch t := v.(type) {
	case nil:
		return "YNull"
	case bool:
		return "(YBool " + vf.CoqBool(t) + ")"
	case int:
		return "(YInt " + vf.CoqZ(int64(t)) + ")"
	case int64:
		return "(YInt " + vf.CoqZ(t) + ")"
	case uint64:
		return "(YInt " + vf.CoqZ(int64(t)) + ")"
	case float64:
		return "YFloat"
	case string:
		return "(YStr " + vf.CoqStr(t) + ")"
	case []any:
		if depth <= 0 {
			return "(YList [])"
		}

		items := make([]string, len(t))
		for i := range t {
			items[i] = YV(t[i], depth-1)
		}

		return "(YList " + vf.CoqList(items) + ")"
	case map[string]any:
		if depth <= 0 {
			return "(YMap [])"
		}

		return "(YMap " + YMapCoq(t, depth-1) + ")"
	case map[any]any:
		return "YMapAny"
	}

	return "YFloat" // time.Time etc.: some non-string scalar
}

func YMapCoq(m map[string]any, depth int) string {
	keys := make([]string, 0, len(m))
	for k := range m {
		keys = append(keys, k)
	}

	sort.Strings(keys)

	items := make([]string, len(keys))
	for i, k := range keys {
		items[i] = vf.CoqPair(vf.CoqStr(k), YV(m[k], depth))
	}

	return vf.CoqList(items)
}
