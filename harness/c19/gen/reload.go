//go:build verif

package c19gen

import (
	"bytes"
	"crypto"
	"crypto/x509"
	"encoding/json"
	"fmt"
	"os"
	"path/filepath"
	"strings"
	"testing"
	"time"

	"github.com/rs/zerolog"

	"github.com/dadrus/heimdall/internal/zzverif/vf"
)

// State is what a component keeps from its last successful load, read by the
// in-package driver from the component's private fields.
type State struct {
	Kid, Alg string
	Pub      crypto.PublicKey // nil: the component does not keep it observably
	Keys     [][2]string      // kid, alg of the published keys
	Chain    []*x509.Certificate
}

// Component is one reloadable key-store user.
type Component interface {
	OnChanged(logger zerolog.Logger) // the real ChangeListener method
	Load() error                     // the component's own load()/init(), called once more to learn its verdict on the file
	State() State
}

// PathClearer is implemented by components whose configured path can be emptied (tlsx).
type PathClearer interface{ ClearPath() }

type stateJSON struct {
	Kid   string      `json:"kid"`
	Alg   string      `json:"alg"`
	Pub   int         `json:"pub"`
	Keys  [][2]string `json:"keys"`
	Chain []int       `json:"chain"`
}

func (s State) intern(in *Interner) stateJSON {
	j := stateJSON{Kid: s.Kid, Alg: s.Alg, Keys: s.Keys}
	if s.Pub != nil {
		j.Pub = in.Pub(s.Pub)
	}

	for _, c := range s.Chain {
		j.Chain = append(j.Chain, in.Cert(c))
	}

	return j
}

func (j stateJSON) Coq() string {
	keys := make([]string, len(j.Keys))
	for i, k := range j.Keys {
		keys[i] = vf.CoqPair(vf.CoqStr(k[0]), vf.CoqStr(k[1]))
	}

	return vf.CoqApp("mkst", vf.CoqStr(j.Kid), vf.CoqStr(j.Alg), vf.CoqOpt(j.Pub != 0, fmt.Sprint(j.Pub)),
		vf.CoqList(keys), coqNatList(j.Chain))
}

type ReloadCase struct {
	Comp     string    `json:"comp"`
	KeyID    string    `json:"key_id"`
	Password string    `json:"password,omitempty"`
	NoPath   bool      `json:"no_path,omitempty"`
	Initial  []Part    `json:"initial"`
	New      *Content  `json:"new"`
	Oracle   *Analysis `json:"oracle"`
}

type reloadObs struct {
	Log     string    `json:"log,omitempty"` // level of the line OnChanged logged: warn info none
	Outcome string    `json:"outcome"`       // reloaded kept stale exit:<site>
	Msg     string    `json:"msg,omitempty"`
	Pre     stateJSON `json:"pre"`
	Post    stateJSON `json:"post"`
}

// a valid initial content for a configured key id
func initialFor(r *vf.Rand, keyID string, needCert bool) []Part {
	if needCert {
		switch r.Intn(3) {
		case 0:
			return []Part{{Fix: "ec256", Kid: keyID}, {Fix: "cert_ec256"}, {Fix: "cert_inter"}, {Fix: "cert_root"}}
		case 1:
			return []Part{{Fix: "rsa2048", Kid: keyID}, {Fix: "cert_rsa2048"}, {Fix: "cert_root"}}
		default:
			return []Part{{Fix: "ec256b", Kid: keyID}, {Fix: "cert_ec256b_self"}}
		}
	}

	switch r.Intn(4) {
	case 0:
		return []Part{{Fix: "ec256", Kid: keyID}}
	case 1:
		return []Part{{Fix: "rsa3072", Kid: keyID}, {Fix: "ec384"}}
	case 2:
		return []Part{{Fix: "ec384", Kid: keyID}, {Fix: "cert_root"}}
	default:
		return []Part{{Fix: "rsa2048", Kid: keyID}, {Fix: "cert_rsa2048"}, {Fix: "cert_root"}}
	}
}

// ReloadCorpus: the witnesses of the findings and their neighbours; run first.
func reloadCorpus(comp string) []ReloadCase {
	mk := func(keyID string, c *Content) ReloadCase { return ReloadCase{Comp: comp, KeyID: keyID, New: c} }
	cs := []ReloadCase{
		mk("", &Content{Mut: "none"}),                                                                             // F1: empty file
		mk("", &Content{Parts: []Part{{Fix: "ec256"}}, Mut: "trunc", Off: 20}),                                    // F1: truncated
		mk("", &Content{Parts: []Part{{Fix: "cert_root"}}, Mut: "none"}),                                          // F1: certificates only
		mk("k1", &Content{Mut: "none"}),                                                                           // empty + key id: error, no panic
		mk("", &Content{Parts: []Part{{Fix: "rsa1024"}, {Fix: "cert_rsa1024"}, {Fix: "cert_root"}}, Mut: "none"}), // F2
		mk("", &Content{Parts: []Part{{Fix: "ec256"}, {Fix: "cert_ec256"}, {Fix: "cert_inter"}, {Fix: "cert_root"}, {Fix: "ec224"}}, Mut: "none"}), // F2 second entry
		mk("", &Content{Parts: []Part{{Fix: "ec521"}}, Mut: "none"}),                                                                               // F5 (httpsig only)
		mk("", &Content{Parts: []Part{{Fix: "ec521"}, {Fix: "cert_ec521_expired"}, {Fix: "cert_root"}}, Mut: "none"}),
		mk("", &Content{Parts: []Part{{Fix: "ed25519"}}, Mut: "none"}),
		mk("", &Content{Parts: []Part{{Fix: "ec384"}, {Fix: "cert_ec384_nods"}, {Fix: "cert_root"}}, Mut: "none"}), // no digitalSignature
		mk("", &Content{Parts: []Part{{Fix: "ec256", Kid: "a"}, {Fix: "ec384", Kid: "a"}}, Mut: "none"}),           // duplicate kid
		mk("", &Content{Parts: []Part{{Fix: "ec256"}}, Mut: "missing", Missing: true}),
		mk("", &Content{Parts: []Part{{Fix: "ec256enc"}, {Fix: "cert_ec256"}, {Fix: "cert_inter"}, {Fix: "cert_root"}}, Mut: "none"}),
		mk("", &Content{Parts: []Part{{Fix: "rsa4096"}, {Fix: "ec256pub"}}, Mut: "none"}),
	}

	// every key fixture (every size) alone, and as a second entry behind a supported key with certificate
	for _, k := range AllKeys() {
		cs = append(cs,
			mk("", &Content{Parts: []Part{{Fix: k}}, Mut: "none"}),
			mk("", &Content{Parts: []Part{{Fix: "ec256"}, {Fix: "cert_ec256"}, {Fix: "cert_inter"}, {Fix: "cert_root"}, {Fix: k, Kid: "second"}}, Mut: "none"}),
			mk("second", &Content{Parts: []Part{{Fix: "ec256"}, {Fix: k, Kid: "second"}}, Mut: "none"}))
	}

	return cs
}

// RunReload drives one component: for every case a fresh component is created
// on a valid initial file (real constructor), the file is replaced by the new
// content and the real OnChanged is called with recover.
func RunReload(t *testing.T, comp string, create func(path, keyID, password string) (Component, error)) {
	t.Helper()

	defer Watchdog(t, comp, 60*time.Second)()

	w := vf.NewWriter()
	defer w.Close()

	dir := t.TempDir()
	path := filepath.Join(dir, "ks.pem")
	root := vf.NewRand(vf.Seed())
	needCert := comp == "tls"

	var cases []ReloadCase

	cases = append(cases, reloadCorpus(comp)...)

	// truncation at every offset
	bases := SweepBases[:1]
	step := 1

	if os.Getenv("VERIF_TIER") != "quick" {
		bases = SweepBases
	} else if comp != "signer" {
		step = 3
	}

	if needCert {
		bases = SweepBases[1:2]
		if os.Getenv("VERIF_TIER") != "quick" {
			bases = SweepBases[1:]
		} else {
			step = 11
		}
	}

	for _, b := range bases {
		n := len(Compose(b))
		for off := 0; off <= n; off += step {
			cases = append(cases, ReloadCase{Comp: comp, New: &Content{Parts: b, Mut: "trunc", Off: off}})
		}
	}

	nsys := len(cases)

	for i := 0; i < vf.N(300); i++ {
		r := root.Fork(uint64(i))
		c := GenContent(r)
		cases = append(cases, ReloadCase{Comp: comp, KeyID: GenKeyID(r, c), New: c})
	}

	for i := range cases {
		if !vf.Want(i) {
			continue
		}

		c := cases[i]
		r := root.Fork(uint64(1000000 + i))
		c.Initial = initialFor(r, c.KeyID, needCert)

		// the configured key store password: mostly the one the encrypted fixture uses
		pw := Password
		if r.Chance(8) {
			pw = vf.Pick(r, []string{"wrong", ""})
		}

		c.Password = pw

		in := NewInterner()
		(&Content{Parts: c.Initial, Mut: "none"}).WriteTo(path)
		Analyse(in, Compose(c.Initial), pw)

		cmp, err := create(path, c.KeyID, pw)
		if err != nil {
			t.Fatalf("case %d: initial load failed: %v", i, err)
		}

		pre := cmp.State().intern(in)
		c.Oracle = Analyse(in, c.New.Bytes(), pw)

		if c.Oracle.Cyclic {
			continue // must not be run in-process (C19-F6); the ks stream has the witness in a child process
		}

		c.New.WriteTo(path)

		if pc, ok := cmp.(PathClearer); ok && r.Chance(3) {
			pc.ClearPath()
			c.NoPath = true
		}

		var logbuf bytes.Buffer

		site, msg := Catch(func() { cmp.OnChanged(zerolog.New(&logbuf)) })
		o := reloadObs{Pre: pre, Post: cmp.State().intern(in), Msg: msg}

		// the verdict on the file is the return value of the component's own load, asked once more; the log
		// line OnChanged wrote is a separate, tolerant observable
		var lerr error

		psite, pmsg := "", ""
		if site == "" {
			psite, pmsg = Catch(func() { lerr = cmp.Load() })
		}

		after, _ := json.Marshal(cmp.State().intern(in))
		before, _ := json.Marshal(o.Post)

		switch {
		case strings.Contains(logbuf.String(), `"level":"warn"`):
			o.Log = "warn"
		case strings.Contains(logbuf.String(), `"level":"info"`):
			o.Log = "info"
		default:
			o.Log = "none"
		}

		switch {
		case site != "":
			o.Outcome = "exit:" + site
		case psite != "":
			o.Outcome, o.Msg, site = "exit:"+psite, pmsg, psite
		case lerr != nil:
			o.Outcome = "kept"
		case string(after) != string(before):
			o.Outcome = "stale" // load accepts the file but OnChanged had not put it into effect
		default:
			o.Outcome = "reloaded"
		}

		file := "(Some " + c.Oracle.CoqBlocks() + ")"
		if c.New.Missing {
			file = "None"
		}

		var out string

		switch {
		case site != "":
			out = "(ProcessExit " + site + ")"
		case o.Outcome == "reloaded":
			out = "(Reloaded " + o.Post.Coq() + ")"
		default:
			out = "(Kept " + o.Post.Coq() + ")"
		}

		tags := append(c.Oracle.Tags(), "comp="+comp, "mut="+c.New.Mut, "out="+strings.SplitN(o.Outcome, ":", 2)[0], "log="+o.Log)
		if (o.Outcome == "reloaded") != (o.Log == "info") && site == "" {
			tags = append(tags, "log-differs-from-outcome")
		}

		if c.NoPath {
			tags = append(tags, "no-path")
		}

		if c.KeyID != "" {
			tags = append(tags, "key_id")
		}

		if pw != Password {
			tags = append(tags, "wrong-password")
		}

		if i < nsys {
			tags = append(tags, "systematic")
		}

		w.Put(vf.Obs{
			I: i, Stream: comp, In: c, Out: o,
			Coq: vf.CoqApp("rc", compCoq(comp), vf.CoqBool(c.NoPath), vf.CoqStr(c.KeyID), file, vf.CoqBool(c.Oracle.Trailing),
				c.Oracle.CoqChainOK(), c.Oracle.CoqUsable(), pre.Coq(), out),
			// non-trivial: the new content differs from a plainly valid store, i.e. the reload fails or exits,
			// or it succeeds with more than one block
			Nontrivial: o.Outcome != "reloaded" || len(c.Oracle.Blocks) > 1,
			Tags:       tags,
		})
	}
}

func compCoq(c string) string {
	switch c {
	case "signer":
		return "Signer"
	case "tls":
		return "Tls"
	}

	return "HttpSig"
}
