//go:build verif

package c19gen

// Hard bounds on every wait of the C19 drivers: a watchdog per driver, bounded child processes whose
// temporary directories live below the parent's, removal of stale directories of earlier, killed runs.

import (
	"context"
	"fmt"
	"os"
	"os/exec"
	"path/filepath"
	"runtime"
	"strings"
	"syscall"
	"testing"
	"time"
)

// Bound returns the run-time bound of a driver: ten times the quick bound in the thorough tier.
func Bound(quick time.Duration) time.Duration {
	if os.Getenv("VERIF_TIER") == "thorough" && os.Getenv("VERIF_ONLY") == "" {
		return 10 * quick
	}

	return quick // quick tier, the runner's escalated search (5 x quick size), replays
}

// Watchdog ends the driver process with a clear message if it runs longer than its bound: a driver that hangs
// must show up as "stream …: driver failed", never as a check that does not come back.  Call the returned
// function when the driver is done.
func Watchdog(t *testing.T, stream string, quick time.Duration) func() {
	t.Helper()

	CleanStale()

	bound := Bound(quick)
	timer := time.AfterFunc(bound, func() {
		buf := make([]byte, 1<<16)
		n := runtime.Stack(buf, true)
		fmt.Fprintf(os.Stderr, "\nC19 DRIVER TIMEOUT: stream %s did not finish within %s - some wait in the driver or in the code under test does not return\n%s\n",
			stream, bound, buf[:min(n, 6000)])
		os.Exit(3)
	})

	if os.Getenv("C19_TEST_HANG") == stream { // test hook: what a hanging driver looks like to the check
		select {}
	}

	return func() { timer.Stop() }
}

// RunChild re-executes the test binary for one child test with a hard time limit.  The child's temporary
// directories are created below dir (the parent's t.TempDir(), removed with it), the child dies with the parent.
func RunChild(t *testing.T, test string, limit time.Duration, env ...string) (string, error) {
	t.Helper()

	ctx, cancel := context.WithTimeout(context.Background(), limit)
	defer cancel()

	cmd := exec.CommandContext(ctx, os.Args[0], "-test.run", "^"+test+"$", "-test.v", "-test.timeout", (limit + 5*time.Second).String())
	cmd.Env = append(append(os.Environ(), "TMPDIR="+t.TempDir(), "VERIF_OUT=/dev/null"), env...)
	cmd.SysProcAttr = &syscall.SysProcAttr{Pdeathsig: syscall.SIGKILL}
	cmd.WaitDelay = 2 * time.Second

	out, err := cmd.CombinedOutput()
	if ctx.Err() != nil {
		err = fmt.Errorf("child %s killed after %s: %w", test, limit, ctx.Err())
	}

	return string(out), err
}

// CleanStale removes temporary directories left behind by C19 drivers or their children when an earlier run was
// killed.  It touches nothing but what such a run created itself: directories directly in os.TempDir() whose name is
// the exact prefix `go test` gives to t.TempDir() of one of the C19 test functions followed by digits only, owned by
// the current user, and not modified for 20 minutes.
func CleanStale() {
	prefixes := []string{"TestVerifC19Misc", "TestVerifC19KSChild", "TestVerifC19WatchChild", "TestVerifC19Signer", "TestVerifC19TLS",
		"TestVerifC19HttpSig", "TestVerifC19WatchLoop", "TestVerifC19K8s", "TestVerifC19Rules", "TestVerifC19FS", "TestVerifC19FSLoopChild"}

	entries, err := os.ReadDir(os.TempDir())
	if err != nil {
		return
	}

	for _, e := range entries {
		if !e.IsDir() {
			continue
		}

		own := false

		for _, p := range prefixes {
			if rest, ok := strings.CutPrefix(e.Name(), p); ok && rest != "" && strings.Trim(rest, "0123456789") == "" {
				own = true
			}
		}

		fi, err := e.Info()
		if !own || err != nil || time.Since(fi.ModTime()) < 20*time.Minute {
			continue
		}

		if st, ok := fi.Sys().(*syscall.Stat_t); !ok || int(st.Uid) != os.Getuid() {
			continue
		}

		os.RemoveAll(filepath.Join(os.TempDir(), e.Name()))
	}
}
