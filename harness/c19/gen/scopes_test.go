//go:build verif

package c19gen

// C19 driver, stream "scopes" (part of TestVerifC19Misc, indices 500000..): the
// real oauth2.DecodeScopesMatcherHookFunc — the decode hook behind
// `assertions: {scopes: …}` of a rule-level authenticator config — inside a
// real mapstructure decoder, on lists and maps of every shape.

import (
	"fmt"

	"github.com/go-viper/mapstructure/v2"

	"github.com/dadrus/heimdall/internal/rules/mechanisms/oauth2"
	"github.com/dadrus/heimdall/internal/zzverif/vf"
)

func scopeElems() []any {
	return []any{"a", "b:c", "", 1, nil, true, 1.5, []any{"a"}, map[string]any{"a": "b"}, map[any]any{1: "x"}}
}

func runScopes(w *vf.Writer, nrand int) {
	root := vf.NewRand(vf.Seed() + 53)

	var vals []any

	// lists
	vals = append(vals, []any{}, []any{"a"}, []any{"a", "b"}, []any{1}, []any{"a", 1}, []any{nil}, []any{[]any{"a"}},
		[]any{map[string]any{"a": "b"}}, []any{"a", "b", true})

	// maps: matching_strategy x values
	strategies := []any{nil, "exact", "hierarchic", "wildcard", "nope", "", 1, true, []any{"exact"}, map[string]any{}}
	values := []any{nil, []any{"a"}, []any{}, []any{"a", 1}, []any{nil}, "a", 1, true, map[string]any{"a": "b"}, map[any]any{1: 2}}

	for si, st := range strategies {
		for vi, vl := range values {
			m := map[string]any{}
			if si > 0 {
				m["matching_strategy"] = st
			}

			if vi > 0 {
				m["values"] = vl
			}

			vals = append(vals, m)
		}
	}

	vals = append(vals, map[any]any{1: "x"}, map[any]any{"values": []any{"a"}, 1: "x"}, map[string]any{"other": 1},
		map[string]any{"values": []any{"a"}, "other": 1})

	for i := 0; i < nrand; i++ {
		r := root.Fork(uint64(i))

		var l []any

		for k := r.Range(0, 4); k > 0; k-- {
			if r.Chance(70) {
				l = append(l, vf.Pick(r, []any{"a", "b", "c:d"}))
			} else {
				l = append(l, vf.Pick(r, scopeElems()))
			}
		}

		if l == nil {
			l = []any{}
		}

		if r.Chance(50) {
			vals = append(vals, l)
		} else {
			m := map[string]any{"values": l}
			if r.Chance(70) {
				m["matching_strategy"] = vf.Pick(r, strategies[1:])
			}

			vals = append(vals, m)
		}
	}

	for k, v := range vals {
		i := 500000 + k
		if !vf.Want(i) {
			continue
		}

		var (
			target struct {
				S oauth2.ScopesMatcher `mapstructure:"scopes"`
			}
			err error
		)

		site, msg := Catch(func() {
			var dec *mapstructure.Decoder

			dec, err = mapstructure.NewDecoder(&mapstructure.DecoderConfig{
				DecodeHook: oauth2.DecodeScopesMatcherHookFunc(), Result: &target, ErrorUnused: true,
			})
			if err == nil {
				err = dec.Decode(map[string]any{"scopes": v})
			}
		})

		obs, out := "(Ok tt)", "ok"

		switch {
		case site != "":
			obs, out = "(Panic "+site+")", "panic: "+msg
		case err != nil:
			obs, out = "Err", "err"
		}

		w.Put(vf.Obs{
			I: i, Stream: "scopes", In: fmt.Sprintf("%#v", v), Out: out,
			Coq:        "(MS " + vf.CoqApp("scs", YV(v, 3), obs) + ")",
			Nontrivial: out != "ok",
			Tags:       []string{"scopes=" + out[:min(len(out), 5)]},
		})
	}
}
