//go:build verif

package c19gen

// C19 driver, stream "request": the real CompositeExtractStrategy over stub
// strategies (the empty list panics), and the real recovery middleware with
// the real error handler around handlers that answer or panic with values of
// every kind.

import (
	"errors"
	"fmt"
	"net/http"
	"net/http/httptest"
	"strings"

	"github.com/dadrus/heimdall/internal/handler/middleware/http/errorhandler"
	"github.com/dadrus/heimdall/internal/handler/middleware/http/recovery"
	"github.com/dadrus/heimdall/internal/heimdall"
	"github.com/dadrus/heimdall/internal/rules/mechanisms/authenticators/extractors"
	"github.com/dadrus/heimdall/internal/x/errorchain"
	"github.com/dadrus/heimdall/internal/zzverif/vf"
)

type stubStrategy struct {
	val string
	ok  bool
}

var errStub = errors.New("no auth data")

func (s stubStrategy) GetAuthData(heimdall.Context) (string, error) {
	if s.ok {
		return s.val, nil
	}

	return "", errorchain.NewWithMessage(heimdall.ErrArgument, "nothing").CausedBy(errStub)
}

type reqCase struct {
	Kind   string   `json:"kind"`
	Strats []string `json:"strategies,omitempty"` // "" = error
	Panic  string   `json:"panic,omitempty"`
	Status int      `json:"status,omitempty"`
}

func panicValue(kind string) (any, string) {
	switch kind {
	case "string":
		return "boom", "PkOther"
	case "int":
		return 42, "PkOther"
	case "error":
		return errors.New("boom"), "PkOther"
	case "runtime":
		return nil, "PkOther" // produced by a real index out of range
	case "authn":
		return errorchain.NewWithMessage(heimdall.ErrAuthentication, "x"), "PkAuthn"
	case "authz":
		return heimdall.ErrAuthorization, "PkAuthz"
	case "comm":
		return errorchain.NewWithMessage(heimdall.ErrCommunication, "x"), "PkComm"
	case "timeout":
		return heimdall.ErrCommunicationTimeout, "PkComm"
	case "arg":
		return fmt.Errorf("wrapped: %w", heimdall.ErrArgument), "PkArg"
	case "norule":
		return heimdall.ErrNoRuleFound, "PkNoRule"
	case "config":
		return heimdall.ErrConfiguration, "PkOther"
	case "nil":
		return nil, "PkOther" // panic(nil) is a *runtime.PanicNilError since Go 1.21
	case "abort":
		return http.ErrAbortHandler, "PkOther"
	}

	return "?", "PkOther"
}

func runReq(w *vf.Writer, nrand int) {
	root := vf.NewRand(vf.Seed() + 29)

	var cases []reqCase

	cases = append(cases, reqCase{Kind: "extract"}, reqCase{Kind: "extract", Strats: []string{""}},
		reqCase{Kind: "extract", Strats: []string{"", "tok"}}, reqCase{Kind: "extract-via-recovery"})

	for rep := 0; rep < 3; rep++ { // the method rotates with the case index: every kind meets several methods
		for _, k := range []string{"string", "int", "error", "runtime", "authn", "authz", "comm", "timeout", "arg", "norule", "config", "nil", "abort"} {
			cases = append(cases, reqCase{Kind: "recover", Panic: k})
		}

		cases = append(cases, reqCase{Kind: "recover", Status: 200})
	}

	for _, s := range []int{200, 204, 302, 401, 500} {
		cases = append(cases, reqCase{Kind: "recover", Status: s})
	}

	// the handler has already sent its header (and part of the body) when it panics: the status is on the wire
	for _, s := range []int{200, 206, 404} {
		cases = append(cases, reqCase{Kind: "recover", Status: s, Panic: "after-write"})
	}

	for i := 0; i < nrand; i++ {
		r := root.Fork(uint64(i))
		c := reqCase{Kind: "extract"}

		for k := r.Range(0, 4); k > 0; k-- {
			if r.Chance(65) {
				c.Strats = append(c.Strats, "")
			} else {
				c.Strats = append(c.Strats, fmt.Sprintf("tok%d", r.Intn(3)))
			}
		}

		cases = append(cases, c)
	}

	mw := recovery.New(errorhandler.New())

	for k, c := range cases {
		i := 200000 + k
		if !vf.Want(i) {
			continue
		}

		var (
			coq  string
			out  any
			tags []string
		)

		switch c.Kind {
		case "extract":
			ce := extractors.CompositeExtractStrategy{}
			items := make([]string, len(c.Strats))

			for k, s := range c.Strats {
				ce = append(ce, stubStrategy{val: s, ok: s != ""})
				items[k] = vf.CoqOpt(s != "", vf.CoqStr(s))
			}

			var (
				val string
				err error
			)

			site, _ := Catch(func() { val, err = ce.GetAuthData(nil) })
			obs := "(Ok " + vf.CoqStr(val) + ")"

			switch {
			case site != "":
				obs = "(Panic " + site + ")"
			case err != nil:
				obs = "Err"
			}

			out = obs
			coq = vf.CoqApp("QExtract", vf.CoqList(items), obs)
			tags = []string{"kind=extract", fmt.Sprintf("strategies=%d", len(c.Strats))}
		default:
			var (
				h    http.Handler
				hCoq string
			)

			switch {
			case c.Kind == "extract-via-recovery":
				h = http.HandlerFunc(func(http.ResponseWriter, *http.Request) {
					extractors.CompositeExtractStrategy{}.GetAuthData(nil) //nolint:errcheck
				})
				hCoq = "(Panicked PkOther)"
			case c.Panic == "after-write":
				h = http.HandlerFunc(func(rw http.ResponseWriter, _ *http.Request) {
					rw.WriteHeader(c.Status)
					rw.Write([]byte("partial")) //nolint:errcheck
					panic("boom after the header was written")
				})
				hCoq = "(PanickedAfter " + vf.CoqZ(int64(c.Status)) + ")"
			case c.Panic == "runtime":
				h = http.HandlerFunc(func(http.ResponseWriter, *http.Request) {
					var l []int

					_ = l[len(c.Strats)]
				})
				hCoq = "(Panicked PkOther)"
			case c.Panic != "":
				v, k := panicValue(c.Panic)
				h = http.HandlerFunc(func(http.ResponseWriter, *http.Request) { panic(v) })
				hCoq = "(Panicked " + k + ")"
			default:
				h = http.HandlerFunc(func(rw http.ResponseWriter, _ *http.Request) { rw.WriteHeader(c.Status) })
				hCoq = "(Answered " + vf.CoqZ(int64(c.Status)) + ")"
			}

			rec := httptest.NewRecorder()
			method := []string{http.MethodGet, http.MethodPost, http.MethodPut, http.MethodHead, http.MethodDelete, http.MethodPatch}[i%6]
			site, msg := Catch(func() {
				mw(h).ServeHTTP(rec, httptest.NewRequest(method, "http://heimdall.test/x?a=b", strings.NewReader("body")))
			})
			status := rec.Code

			if site != "" { // the panic escaped the middleware
				status = -1
				out = msg
			} else {
				out = status
			}

			coq = vf.CoqApp("QRecover", hCoq, vf.CoqZ(int64(status)))
			tags = []string{"kind=recover", "panic=" + c.Panic, "method=" + method}
		}

		w.Put(vf.Obs{I: i, Stream: "request", In: c, Out: out, Coq: "(MQ " + coq + ")",
			Nontrivial: c.Kind != "recover" || c.Panic != "", Tags: tags})
	}
}
