//go:build verif

package c19gen

// C19 drivers, streams "keystore" and "truststore": the real
// keystore.NewKeyStoreFromPEMBytes (+ Entry.JWK of every entry) and
// truststore.NewTrustStoreFromPEMBytes on compositions of fixture blocks,
// truncated at every offset and mutated byte-wise.  Inputs on which
// buildChain does not return are run in a child process.

import (
	"crypto/x509"
	"encoding/json"
	"fmt"
	"os"
	"runtime/debug"
	"strings"
	"testing"
	"time"

	"github.com/dadrus/heimdall/internal/keystore"
	"github.com/dadrus/heimdall/internal/truststore"
	"github.com/dadrus/heimdall/internal/zzverif/vf"
)

type ksCase struct {
	Password string    `json:"password,omitempty"`
	Content  *Content  `json:"content"`
	Strict   bool      `json:"strict,omitempty"`
	Oracle   *Analysis `json:"oracle"`
}

type ksEntryObs struct {
	Kid   string `json:"kid"`
	Alg   string `json:"alg"`
	Size  int    `json:"size"`
	Pub   int    `json:"pub"`
	Chain []int  `json:"chain"`
	JWK   string `json:"jwk"` // algorithm, or panic:<site>
}

type ksObs struct {
	Res     string       `json:"res"` // ok err panic:<site>
	Msg     string       `json:"msg,omitempty"`
	Entries []ksEntryObs `json:"entries,omitempty"`
	Certs   []int        `json:"certs,omitempty"`
}

func ksContents(sweepAll bool) []*Content {
	cs := []*Content{
		{Mut: "none"},
		{Parts: []Part{{Fix: "ec256"}}, Mut: "trunc", Off: 20},
		{Parts: []Part{{Fix: "cert_root"}}, Mut: "none"},
		{Parts: []Part{{Fix: "rsa1024"}}, Mut: "none"},
		{Parts: []Part{{Fix: "ec224"}, {Fix: "cert_ec224"}, {Fix: "cert_root"}}, Mut: "none"},
		{Parts: []Part{{Fix: "ec521"}, {Fix: "cert_ec521_expired"}, {Fix: "cert_root"}}, Mut: "none"},
		{Parts: []Part{{Fix: "ed25519"}}, Mut: "none"},
		{Parts: []Part{{Fix: "ec256pub"}}, Mut: "none"},
		{Parts: []Part{{Fix: "ec256x"}, {Fix: "cert_crossA"}, {Fix: "cert_crossB"}}, Mut: "none"}, // C19-F6
		{Parts: []Part{{Fix: "ec256x"}, {Fix: "cert_crossA"}}, Mut: "none"},
		{Parts: []Part{{Fix: "ec256"}, {Fix: "cert_crossB"}, {Fix: "cert_crossA"}}, Mut: "none"}, // the loop is not reached from this key
		{Parts: []Part{{Fix: "cert_root"}}, Mut: "blank"},
		{Parts: []Part{{Fix: "cert_root"}, {Fix: "cert_inter"}}, Mut: "garbage"},
		{Parts: []Part{{Fix: "ec256", Kid: "a"}, {Fix: "ec384", Kid: "a"}}, Mut: "none"},
		{Parts: []Part{{Fix: "ec256"}, {Fix: "ec256"}}, Mut: "none"},
		{Parts: []Part{{Fix: "ec256enc"}, {Fix: "cert_ec256"}, {Fix: "cert_root"}, {Fix: "cert_inter"}, {Fix: "cert_root"}}, Mut: "none"},
	}

	for _, k := range AllKeys() { // every key size alone and behind a supported key
		cs = append(cs, &Content{Parts: []Part{{Fix: k}}, Mut: "none"},
			&Content{Parts: []Part{{Fix: "ec384"}, {Fix: k, Kid: "second"}}, Mut: "none"})
	}

	bases := SweepBases[:2]
	if sweepAll {
		bases = SweepBases
	}

	for bi, b := range bases {
		n := len(Compose(b))
		step := 1

		if !sweepAll && bi > 0 {
			step = 9
		}

		for off := 0; off <= n; off += step {
			cs = append(cs, &Content{Parts: b, Mut: "trunc", Off: off})
		}
	}

	return cs
}

func TestVerifC19KSChild(t *testing.T) {
	raw := os.Getenv("C19_CHILD_CONTENT")
	if raw == "" {
		t.Skip()
	}

	var c Content
	if err := json.Unmarshal([]byte(raw), &c); err != nil {
		t.Fatal(err)
	}

	debug.SetMaxStack(64 << 20)

	_, err := keystore.NewKeyStoreFromPEMBytes(c.Bytes(), Password)
	fmt.Println("C19-CHILD-RETURNED", err)
}

func runChild(t *testing.T, c *Content) (string, string) {
	t.Helper()

	raw, _ := json.Marshal(c)
	out, err := RunChild(t, "TestVerifC19KSChild", 40*time.Second, "C19_CHILD_CONTENT="+string(raw))

	switch {
	case err != nil && strings.Contains(out, "stack overflow"):
		return "SChainLoop", "fatal error: stack overflow (child process exit: " + err.Error() + ")"
	case strings.Contains(out, "C19-CHILD-RETURNED"):
		return "", ""
	}

	return "SOther", fmt.Sprint(err, " ", out[:min(len(out), 600)])
}

// TestVerifC19Misc runs the three streams that need no in-package access in one binary
// (case indices: key store 0.., trust store 100000.., request 200000.., remote 300000.., watch 400000.., scopes 500000..).
func TestVerifC19Misc(t *testing.T) {
	defer Watchdog(t, "misc", 100*time.Second)()

	w := vf.NewWriter()
	defer w.Close()

	n := vf.N(460)
	runKS(t, w, n*5/9)
	runTS(w, n*3/9)
	runReq(w, n/18)
	runRemote(w, n/18)
	runWatch(t, w)
	runScopes(w, n/9)
}

func runKS(t *testing.T, w *vf.Writer, nrand int) {
	t.Helper()

	root := vf.NewRand(vf.Seed())
	contents := ksContents(os.Getenv("VERIF_TIER") != "quick")
	nsys := len(contents)

	for i := 0; i < nrand; i++ {
		c := GenContent(root.Fork(uint64(i)))
		if c.Missing {
			c.Missing, c.Mut = false, "none"
		}

		contents = append(contents, c)
	}

	for i, c := range contents {
		if !vf.Want(i) {
			continue
		}

		pw := Password
		if i%13 == 5 {
			pw = "wrong"
		}

		in := NewInterner()
		a := Analyse(in, c.Bytes(), pw)
		o := ksObs{}

		var (
			ks   keystore.KeyStore
			err  error
			site string
		)

		if a.Cyclic {
			// a tree without the repair of C19-F6 dies of a stack overflow here: the child process goes first
			site, o.Msg = runChild(t, c)
			if site == "" {
				site, o.Msg = Catch(func() { ks, err = keystore.NewKeyStoreFromPEMBytes(c.Bytes(), pw) })
			}
		} else {
			site, o.Msg = Catch(func() { ks, err = keystore.NewKeyStoreFromPEMBytes(c.Bytes(), pw) })
		}

		var obsCoq string

		switch {
		case site != "":
			o.Res = "panic:" + site
			obsCoq = "(Panic " + site + ")"
		case err != nil:
			o.Res = "err"
			obsCoq = "Err"
		default:
			o.Res = "ok"

			var items []string

			for _, e := range ks.Entries() {
				eo := ksEntryObs{Kid: e.KeyID, Alg: e.Alg, Size: e.KeySize, Pub: in.Pub(e.PrivateKey.Public())}
				for _, c := range e.CertChain {
					eo.Chain = append(eo.Chain, in.Cert(c))
				}

				var alg string

				js, _ := Catch(func() { alg = e.JWK().Algorithm })
				jwk := "(Ok " + vf.CoqStr(alg) + ")"
				eo.JWK = alg

				if js != "" {
					eo.JWK = "panic:" + js
					jwk = "(Panic " + js + ")"
				}

				o.Entries = append(o.Entries, eo)
				items = append(items, vf.CoqApp("oe", vf.CoqStr(eo.Kid), eo.Alg, vf.CoqZ(int64(eo.Size)), fmt.Sprint(eo.Pub),
					coqNatList(eo.Chain), jwk))
			}

			obsCoq = "(Ok " + vf.CoqList(items) + ")"
		}

		tags := append(a.Tags(), "mut="+c.Mut, "res="+strings.SplitN(o.Res, ":", 2)[0])
		if pw != Password {
			tags = append(tags, "wrong-password")
		}

		if i < nsys {
			tags = append(tags, "systematic")
		}

		if a.Cyclic {
			tags = append(tags, "cyclic-issuers")
		}

		// with cyclic issuers the validation oracles cannot be asked; no chain is valid then
		w.Put(vf.Obs{
			I: i, Stream: "keystore", In: ksCase{Content: c, Oracle: a, Password: pw}, Out: o,
			Coq:        "(MK " + vf.CoqApp("kc", a.CoqBlocks(), vf.CoqBool(a.Trailing), a.CoqChainOK(), obsCoq) + ")",
			Nontrivial: len(a.Blocks) > 1 || o.Res != "ok",
			Tags:       tags,
		})
	}
}

func runTS(w *vf.Writer, nrand int) {
	root := vf.NewRand(vf.Seed() + 17)

	var contents []*Content

	contents = append(contents,
		&Content{Mut: "none"},
		&Content{Parts: []Part{{Fix: "cert_root"}}, Mut: "blank"},
		&Content{Parts: []Part{{Fix: "cert_root"}}, Mut: "none"},
		&Content{Parts: []Part{{Fix: "cert_root"}, {Fix: "ec256"}}, Mut: "none"},
		&Content{Parts: []Part{{Fix: "cert_root"}, {Fix: "cert_inter"}}, Mut: "garbage"},
	)

	base := []Part{{Fix: "cert_inter"}, {Fix: "cert_root"}}
	n := len(Compose(base))
	step := 1

	if os.Getenv("VERIF_TIER") == "quick" {
		step = 7
	}

	for off := 0; off <= n; off += step {
		contents = append(contents, &Content{Parts: base, Mut: "trunc", Off: off})
	}

	nsys := len(contents)

	for i := 0; i < nrand; i++ {
		r := root.Fork(uint64(i))
		c := GenContent(r)

		if c.Missing {
			c.Missing, c.Mut = false, "none"
		}

		if r.Chance(60) { // trust stores are mostly certificates
			var ps []Part

			for k := r.Range(1, 4); k > 0; k-- {
				ps = append(ps, Part{Fix: vf.Pick(r, Certs)})
			}

			c.Parts = ps
		}

		contents = append(contents, c)
	}

	for k, c := range contents {
		i := 100000 + k
		if !vf.Want(i) {
			continue
		}

		strict := i%2 == 0
		in := NewInterner()
		a := Analyse(in, c.Bytes(), Password)
		o := ksObs{}

		var (
			ts  truststore.TrustStore
			err error
		)

		site, msg := Catch(func() { ts, err = truststore.NewTrustStoreFromPEMBytes(c.Bytes(), strict) })
		o.Msg = msg

		var obsCoq string

		switch {
		case site != "":
			o.Res = "panic:" + site
			obsCoq = "(Panic " + site + ")"
		case err != nil:
			o.Res = "err"
			obsCoq = "Err"
		default:
			o.Res = "ok"
			for _, c := range []*x509.Certificate(ts) {
				o.Certs = append(o.Certs, in.Cert(c))
			}

			obsCoq = "(Ok " + coqNatList(o.Certs) + ")"
		}

		tags := append(a.Tags(), "mut="+c.Mut, "res="+strings.SplitN(o.Res, ":", 2)[0], fmt.Sprintf("strict=%v", strict))
		if k < nsys {
			tags = append(tags, "systematic")
		}

		w.Put(vf.Obs{
			I: i, Stream: "truststore", In: ksCase{Content: c, Strict: strict, Oracle: a}, Out: o,
			Coq:        "(MT " + vf.CoqApp("tc", vf.CoqBool(strict), a.CoqBlocks(), vf.CoqBool(a.Trailing), obsCoq) + ")",
			Nontrivial: len(a.Blocks) > 1 || o.Res != "ok",
			Tags:       tags,
		})
	}
}
