//go:build verif

package filesystem

// C19 driver, stream "fs": the real file-system provider's event handler
// (ruleSetsChanged, what the watcher goroutine calls) on real files: valid rule
// sets truncated at every offset, empty / missing / unreadable files, the file
// vanishing between read and Stat (a FIFO unlinked by its writer), for every
// fsnotify operation, previous state and processor answer.

import (
	"crypto/sha256"
	"errors"
	"fmt"
	"os"
	"path/filepath"
	"strings"
	"syscall"
	"testing"

	"github.com/fsnotify/fsnotify"
	"github.com/rs/zerolog"

	config2 "github.com/dadrus/heimdall/internal/rules/config"
	"github.com/dadrus/heimdall/internal/zzverif/c19gen"
	"github.com/dadrus/heimdall/internal/zzverif/vf"
)

type c19Proc struct {
	ok    bool
	calls []string
}

var errC19Rejected = errors.New("rejected")

func (p *c19Proc) answer(call string) error {
	p.calls = append(p.calls, call)
	if !p.ok {
		return errC19Rejected
	}

	return nil
}

func (p *c19Proc) OnCreated(*config2.RuleSet) error { return p.answer("PCreated") }
func (p *c19Proc) OnUpdated(*config2.RuleSet) error { return p.answer("PUpdated") }
func (p *c19Proc) OnDeleted(*config2.RuleSet) error { return p.answer("PDeleted") }

var c19RuleSets = []string{
	"version: \"1alpha4\"\nrules:\n- id: a\n  match:\n    routes:\n    - path: /a\n  execute:\n  - authenticator: x\n",
	"version: \"1alpha4\"\nname: second\nrules:\n- id: b\n  match:\n    routes:\n    - path: /b/:c\n    methods: [GET]\n  forward_to:\n    host: up:80\n  execute:\n  - authenticator: x\n  - finalizer: y\n    if: \"true\"\n- id: c\n  match:\n    routes:\n    - path: /c\n  execute:\n  - authenticator: z\n",
}

type c19FsCase struct {
	Op      []string `json:"op"`
	Pre     string   `json:"pre"`  // none same other
	File    string   `json:"file"` // content missing notdir fifo-vanish
	Content string   `json:"content"`
	ProcOK  bool     `json:"proc_ok"`
}

type c19FsObs struct {
	Outcome string   `json:"outcome"` // done exit:<site>
	Msg     string   `json:"msg,omitempty"`
	Err     bool     `json:"err"`
	Calls   []string `json:"calls"`
	State   int      `json:"state"` // interned stored hash, 0 = none
}

func TestVerifC19FS(t *testing.T) {
	w := vf.NewWriter()
	defer w.Close()

	root := vf.NewRand(vf.Seed())
	quick := os.Getenv("VERIF_TIER") == "quick"
	ops := []string{"Create", "Write", "Chmod", "Remove", "Rename"}

	var cases []c19FsCase

	// corpus
	cases = append(cases,
		c19FsCase{Op: []string{"Write"}, Pre: "none", File: "fifo-vanish", Content: c19RuleSets[0], ProcOK: true},  // C19-F4
		c19FsCase{Op: []string{"Write"}, Pre: "other", File: "fifo-vanish", Content: c19RuleSets[0], ProcOK: true}, // C19-F4
		c19FsCase{Op: []string{"Write"}, Pre: "other", File: "content", Content: "", ProcOK: true},                 // empty = deleted
		c19FsCase{Op: []string{"Write"}, Pre: "other", File: "content", Content: c19RuleSets[1][:40], ProcOK: true},
		c19FsCase{Op: []string{"Write"}, Pre: "other", File: "content", Content: c19RuleSets[1], ProcOK: false},
		c19FsCase{Op: []string{"Write"}, Pre: "same", File: "content", Content: c19RuleSets[1], ProcOK: true},
		c19FsCase{Op: []string{"Remove"}, Pre: "other", File: "missing", ProcOK: false},
		c19FsCase{Op: []string{"Rename"}, Pre: "other", File: "missing", ProcOK: true},
		c19FsCase{Op: []string{"Chmod"}, Pre: "other", File: "missing", ProcOK: true},
		c19FsCase{Op: []string{"Create"}, Pre: "none", File: "notdir", ProcOK: true},
	)

	// truncation at every offset
	for bi, b := range c19RuleSets {
		step := 1
		if quick && bi == 1 {
			step = 3
		}

		for off := 0; off <= len(b); off += step {
			pre := []string{"none", "other", "same"}[off%3]
			cases = append(cases, c19FsCase{Op: []string{"Write"}, Pre: pre, File: "content", Content: b[:off], ProcOK: off%5 != 4})
		}
	}

	nsys := len(cases)

	for i := 0; i < vf.N(200); i++ {
		r := root.Fork(uint64(i))
		c := c19FsCase{Op: []string{vf.Pick(r, ops)}, Pre: vf.Pick(r, []string{"none", "other", "same"}), ProcOK: r.Chance(75)}

		if r.Chance(15) {
			c.Op = append(c.Op, vf.Pick(r, ops))
		}

		b := vf.Pick(r, c19RuleSets)

		switch x := r.Intn(100); {
		case x < 35:
			c.File, c.Content = "content", b
		case x < 65:
			c.File, c.Content = "content", b[:r.Intn(len(b)+1)]
		case x < 72:
			c.File, c.Content = "content", vf.Pick(r, []string{"", "\n", "# nothing\n", "a: [", "null\n", "{}\n", "- a\n"})
		case x < 84:
			c.File = "missing"
		case x < 90:
			c.File = "notdir"
		default:
			c.File, c.Content = "fifo-vanish", b
		}

		cases = append(cases, c)
	}

	for i := range cases {
		if !vf.Want(i) {
			continue
		}

		c := cases[i]
		dir := t.TempDir()
		name := filepath.Join(dir, "rules.yaml")
		in := c19gen.NewInterner()
		proc := &c19Proc{ok: true}
		p := &Provider{src: dir, p: proc, l: zerolog.Nop(), configured: true}

		// previous state: the file was loaded before with the same / another content
		prevContent := ""

		switch c.Pre {
		case "same":
			prevContent = c.Content
		case "other":
			prevContent = "version: \"1alpha4\"\nrules:\n- id: prev\n  match:\n    routes:\n    - path: /prev\n  execute:\n  - authenticator: x\n"
		}

		pre := 0

		if c.Pre != "none" {
			if _, err := config2.ParseRules("application/yaml", strings.NewReader(prevContent), false); err != nil {
				// "same" with an unloadable content: there is no such previous state
				prevContent = c19RuleSets[0]
			}

			if err := os.WriteFile(name, []byte(prevContent), 0o600); err != nil {
				t.Fatal(err)
			}

			if err := p.ruleSetsChanged(fsnotify.Event{Name: name, Op: fsnotify.Write}); err != nil {
				t.Fatal(err)
			}

			v, _ := p.states.Load(name)
			pre = in.ID("hash", v.([]byte))
			os.Remove(name)
		}

		proc.ok, proc.calls = c.ProcOK, nil

		// the file as the handler will find it, and the oracle for reading it
		read := "RdOpenNotExist"
		statOK := true
		evName := name

		classify := func(content string) string {
			_, err := config2.ParseRules("application/yaml", strings.NewReader(content), false)

			switch {
			case errors.Is(err, config2.ErrEmptyRuleSet):
				return "RdEmpty"
			case err != nil:
				return "RdBad"
			}

			sum := sha256.Sum256([]byte(content))

			return fmt.Sprintf("(RdParsed %d)", in.ID("hash", sum[:]))
		}

		switch c.File {
		case "content":
			if err := os.WriteFile(name, []byte(c.Content), 0o600); err != nil {
				t.Fatal(err)
			}

			read = classify(c.Content)
		case "notdir":
			os.WriteFile(name, []byte("x"), 0o600)
			evName = filepath.Join(name, "sub.yaml") // ENOTDIR: not os.ErrNotExist
			read = "RdOpenErr"
		case "fifo-vanish":
			if err := syscall.Mkfifo(name, 0o600); err != nil {
				t.Fatal(err)
			}

			read = classify(c.Content)
			statOK = false

			go func(content string) {
				f, err := os.OpenFile(name, os.O_WRONLY, 0)
				if err != nil {
					return
				}

				f.WriteString(content)
				os.Remove(name) // the reader sees EOF only after the close below
				f.Close()
			}(c.Content)
		}

		var op fsnotify.Op

		bits := map[string]bool{}

		for _, o := range c.Op {
			bits[o] = true

			switch o {
			case "Create":
				op |= fsnotify.Create
			case "Write":
				op |= fsnotify.Write
			case "Chmod":
				op |= fsnotify.Chmod
			case "Remove":
				op |= fsnotify.Remove
			case "Rename":
				op |= fsnotify.Rename
			}
		}

		var err error

		site, msg := c19gen.Catch(func() { err = p.ruleSetsChanged(fsnotify.Event{Name: evName, Op: op}) })
		o := c19FsObs{Msg: msg, Err: err != nil, Calls: proc.calls}

		if v, ok := p.states.Load(evName); ok {
			o.State = in.ID("hash", v.([]byte))
		}

		if evName != name { // the state asked about is the one of the event's file
			pre = 0
		}

		var obsCoq string

		if site != "" {
			o.Outcome = "exit:" + site
			obsCoq = "(FsExit " + site + ")"
		} else {
			o.Outcome = "done"
			obsCoq = vf.CoqApp("FsDone", vf.CoqApp("fsr", vf.CoqOpt(o.State != 0, fmt.Sprint(o.State)), vf.CoqList(o.Calls), vf.CoqBool(o.Err)))
		}

		tags := []string{"op=" + strings.Join(c.Op, "|"), "pre=" + c.Pre, "file=" + c.File, "read=" + strings.Fields(strings.Trim(read, "()"))[0],
			"out=" + strings.SplitN(o.Outcome, ":", 2)[0], fmt.Sprintf("proc_ok=%v", c.ProcOK)}
		if i < nsys {
			tags = append(tags, "systematic")
		}

		w.Put(vf.Obs{
			I: i, Stream: "fs", In: c, Out: o,
			Coq: vf.CoqApp("fsc", vf.CoqOpt(pre != 0, fmt.Sprint(pre)),
				vf.CoqApp("bits", vf.CoqBool(bits["Create"]), vf.CoqBool(bits["Write"]), vf.CoqBool(bits["Chmod"]), vf.CoqBool(bits["Remove"]), vf.CoqBool(bits["Rename"])),
				read, vf.CoqBool(statOK), vf.CoqBool(c.ProcOK), obsCoq),
			// non-trivial: the event makes the provider call the processor or return an error or exit
			Nontrivial: len(o.Calls) > 0 || o.Err || site != "",
			Tags:       tags,
		})
	}
}
