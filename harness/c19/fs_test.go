//go:build verif

package filesystem

// C19 driver, stream "fs": the real file-system provider's event handler
// (ruleSetsChanged, what the watcher goroutine calls) on real files: valid rule
// sets truncated at every offset, empty / missing / unreadable files, the file
// vanishing between read and Stat (a FIFO unlinked by its writer), for every
// fsnotify operation, previous state and processor answer.

import (
	"context"
	"crypto/sha256"
	"encoding/hex"
	"encoding/json"
	"errors"
	"fmt"
	"os"
	"path/filepath"
	"strings"
	"sync"
	"syscall"
	"testing"
	"time"

	"github.com/fsnotify/fsnotify"
	"github.com/rs/zerolog"

	"github.com/dadrus/heimdall/internal/config"
	config2 "github.com/dadrus/heimdall/internal/rules/config"
	"github.com/dadrus/heimdall/internal/zzverif/c19gen"
	"github.com/dadrus/heimdall/internal/zzverif/vf"
)

type c19Proc struct {
	ok    bool
	calls []string
}

var errC19Rejected = errors.New("rejected")

func (p *c19Proc) answer(call string) error {
	p.calls = append(p.calls, call)
	if !p.ok {
		return errC19Rejected
	}

	return nil
}

func (p *c19Proc) OnCreated(*config2.RuleSet) error { return p.answer("PCreated") }
func (p *c19Proc) OnUpdated(*config2.RuleSet) error { return p.answer("PUpdated") }
func (p *c19Proc) OnDeleted(*config2.RuleSet) error { return p.answer("PDeleted") }

var c19RuleSets = []string{
	"version: \"1alpha4\"\nrules:\n- id: a\n  match:\n    routes:\n    - path: /a\n  execute:\n  - authenticator: x\n",
	"version: \"1alpha4\"\nname: second\nrules:\n- id: b\n  match:\n    routes:\n    - path: /b/:c\n    methods: [GET]\n  forward_to:\n    host: up:80\n  execute:\n  - authenticator: x\n  - finalizer: y\n    if: \"true\"\n- id: c\n  match:\n    routes:\n    - path: /c\n  execute:\n  - authenticator: z\n",
}

type c19FsCase struct {
	Env     bool     `json:"env_vars_enabled,omitempty"`
	Op      []string `json:"op"`
	Pre     string   `json:"pre"`  // none same other
	File    string   `json:"file"` // content missing notdir fifo-vanish
	Content string   `json:"content"`
	ProcOK  bool     `json:"proc_ok"`
}

type c19FsObs struct {
	Outcome string   `json:"outcome"` // done exit:<site>
	Msg     string   `json:"msg,omitempty"`
	Err     bool     `json:"err"`
	Calls   []string `json:"calls"`
	State   int      `json:"state"` // interned stored hash, 0 = none
}

func TestVerifC19FS(t *testing.T) {
	t.Setenv("C19_X", "from-env")

	defer c19gen.Watchdog(t, "fs", 100*time.Second)()

	w := vf.NewWriter()
	defer w.Close()

	c19FSLoop(t, w)

	root := vf.NewRand(vf.Seed())
	quick := os.Getenv("VERIF_TIER") == "quick"
	ops := []string{"Create", "Write", "Chmod", "Remove", "Rename"}

	var cases []c19FsCase

	// corpus
	cases = append(cases,
		c19FsCase{Op: []string{"Write"}, Pre: "none", File: "fifo-vanish", Content: c19RuleSets[0], ProcOK: true},  // C19-F4
		c19FsCase{Op: []string{"Write"}, Pre: "other", File: "fifo-vanish", Content: c19RuleSets[0], ProcOK: true}, // C19-F4
		c19FsCase{Op: []string{"Write"}, Pre: "other", File: "content", Content: "", ProcOK: true},                 // empty = deleted
		c19FsCase{Op: []string{"Write"}, Pre: "other", File: "content", Content: c19RuleSets[1][:40], ProcOK: true},
		c19FsCase{Op: []string{"Write"}, Pre: "other", File: "content", Content: c19RuleSets[1], ProcOK: false},
		c19FsCase{Op: []string{"Write"}, Pre: "same", File: "content", Content: c19RuleSets[1], ProcOK: true},
		c19FsCase{Op: []string{"Remove"}, Pre: "other", File: "missing", ProcOK: false},
		c19FsCase{Op: []string{"Rename"}, Pre: "other", File: "missing", ProcOK: true},
		c19FsCase{Op: []string{"Chmod"}, Pre: "other", File: "missing", ProcOK: true},
		c19FsCase{Op: []string{"Create"}, Pre: "none", File: "notdir", ProcOK: true},
	)

	// truncation at every offset
	for bi, b := range c19RuleSets {
		step := 1
		if quick && bi == 1 {
			step = 3
		}

		for off := 0; off <= len(b); off += step {
			pre := []string{"none", "other", "same"}[off%3]
			cases = append(cases, c19FsCase{Op: []string{"Write"}, Pre: pre, File: "content", Content: b[:off], ProcOK: off%5 != 4})
		}
	}

	nsys := len(cases)

	for i := 0; i < vf.N(200); i++ {
		r := root.Fork(uint64(i))
		c := c19FsCase{Op: []string{vf.Pick(r, ops)}, Pre: vf.Pick(r, []string{"none", "other", "same"}), ProcOK: r.Chance(75)}

		if r.Chance(15) {
			c.Op = append(c.Op, vf.Pick(r, ops))
		}

		b := vf.Pick(r, c19RuleSets)

		switch x := r.Intn(100); {
		case x < 35:
			c.File, c.Content = "content", b
		case x < 65:
			c.File, c.Content = "content", b[:r.Intn(len(b)+1)]
		case x < 72:
			c.File, c.Content = "content", vf.Pick(r, []string{"", "\n", "# nothing\n", "a: [", "null\n", "{}\n", "- a\n", "${", "${C19_X}", "$", "a: ${C19_X", b + "# ${C19_X}\n"})
		case x < 84:
			c.File = "missing"
		case x < 90:
			c.File = "notdir"
		default:
			c.File, c.Content = "fifo-vanish", b
		}

		cases = append(cases, c)
	}

	for i := range cases {
		if !vf.Want(i) {
			continue
		}

		c := cases[i]
		c.Env = i%3 == 1
		dir := t.TempDir()
		name := filepath.Join(dir, "rules.yaml")
		in := c19gen.NewInterner()
		proc := &c19Proc{ok: true}
		p := &Provider{src: dir, p: proc, l: zerolog.Nop(), configured: true, envVarsEnabled: c.Env}

		// previous state: the file was loaded before with the same / another content
		prevContent := ""

		switch c.Pre {
		case "same":
			prevContent = c.Content
		case "other":
			prevContent = "version: \"1alpha4\"\nrules:\n- id: prev\n  match:\n    routes:\n    - path: /prev\n  execute:\n  - authenticator: x\n"
		}

		pre := 0

		if c.Pre != "none" {
			var perr error

			if site, _ := c19gen.Catch(func() {
				_, perr = config2.ParseRules("application/yaml", strings.NewReader(prevContent), c.Env)
			}); site != "" || perr != nil {
				// "same" with an unloadable content: there is no such previous state
				prevContent = c19RuleSets[0]
			}

			if err := os.WriteFile(name, []byte(prevContent), 0o600); err != nil {
				t.Fatal(err)
			}

			if err := p.ruleSetsChanged(fsnotify.Event{Name: name, Op: fsnotify.Write}); err != nil {
				t.Fatal(err)
			}

			v, _ := p.states.Load(name)
			pre = in.ID("hash", v.([]byte))
			os.Remove(name)
		}

		proc.ok, proc.calls = c.ProcOK, nil

		// the file as the handler will find it, and the oracle for reading it
		read := "RdOpenNotExist"
		statOK := true
		evName := name

		classify := func(content string) string {
			var err error

			if site, _ := c19gen.Catch(func() {
				_, err = config2.ParseRules("application/yaml", strings.NewReader(content), c.Env)
			}); site != "" {
				return "RdBad" // the oracle call itself panicked: the real run below will show it
			}

			switch {
			case errors.Is(err, config2.ErrEmptyRuleSet):
				return "RdEmpty"
			case err != nil:
				return "RdBad"
			}

			sum := sha256.Sum256([]byte(content))

			return fmt.Sprintf("(RdParsed %d)", in.ID("hash", sum[:]))
		}

		switch c.File {
		case "content":
			if err := os.WriteFile(name, []byte(c.Content), 0o600); err != nil {
				t.Fatal(err)
			}

			read = classify(c.Content)
		case "notdir":
			os.WriteFile(name, []byte("x"), 0o600)
			evName = filepath.Join(name, "sub.yaml") // ENOTDIR: not os.ErrNotExist
			read = "RdOpenErr"
		case "fifo-vanish":
			if err := syscall.Mkfifo(name, 0o600); err != nil {
				t.Fatal(err)
			}

			read = classify(c.Content)
			statOK = false

			go func(content string) {
				f, err := os.OpenFile(name, os.O_WRONLY, 0)
				if err != nil {
					return
				}

				f.WriteString(content)
				os.Remove(name) // the reader sees EOF only after the close below
				f.Close()
			}(c.Content)
		}

		var op fsnotify.Op

		bits := map[string]bool{}

		for _, o := range c.Op {
			bits[o] = true

			switch o {
			case "Create":
				op |= fsnotify.Create
			case "Write":
				op |= fsnotify.Write
			case "Chmod":
				op |= fsnotify.Chmod
			case "Remove":
				op |= fsnotify.Remove
			case "Rename":
				op |= fsnotify.Rename
			}
		}

		var err error

		site, msg := c19gen.Catch(func() { err = p.ruleSetsChanged(fsnotify.Event{Name: evName, Op: op}) })
		o := c19FsObs{Msg: msg, Err: err != nil, Calls: proc.calls}

		if v, ok := p.states.Load(evName); ok {
			o.State = in.ID("hash", v.([]byte))
		}

		if evName != name { // the state asked about is the one of the event's file
			pre = 0
		}

		var obsCoq string

		if site != "" {
			o.Outcome = "exit:" + site
			obsCoq = "(FsExit " + site + ")"
		} else {
			o.Outcome = "done"
			obsCoq = vf.CoqApp("FsDone", vf.CoqApp("fsr", vf.CoqOpt(o.State != 0, fmt.Sprint(o.State)), vf.CoqList(o.Calls), vf.CoqBool(o.Err)))
		}

		tags := []string{fmt.Sprintf("env=%v", c.Env), "op=" + strings.Join(c.Op, "|"), "pre=" + c.Pre, "file=" + c.File, "read=" + strings.Fields(strings.Trim(read, "()"))[0],
			"out=" + strings.SplitN(o.Outcome, ":", 2)[0], fmt.Sprintf("proc_ok=%v", c.ProcOK)}
		if i < nsys {
			tags = append(tags, "systematic")
		}

		w.Put(vf.Obs{
			I: i, Stream: "fs", In: c, Out: o,
			Coq: vf.CoqApp("fsc", vf.CoqOpt(pre != 0, fmt.Sprint(pre)),
				vf.CoqApp("bits", vf.CoqBool(bits["Create"]), vf.CoqBool(bits["Write"]), vf.CoqBool(bits["Chmod"]), vf.CoqBool(bits["Remove"]), vf.CoqBool(bits["Rename"])),
				read, vf.CoqBool(statOK), vf.CoqBool(c.ProcOK), obsCoq),
			// non-trivial: the event makes the provider call the processor or return an error or exit
			Nontrivial: len(o.Calls) > 0 || o.Err || site != "",
			Tags:       tags,
		})
	}
}

// ---- the provider's watch LOOP, end to end in a child process -------------------------------------------------
//
// The real Provider (NewProvider + Start: real fsnotify watcher, `go p.watchFiles()`), a recording processor and a
// sequence of ATOMIC replacements of the rule file (temp file outside the watched directory, rename over the target:
// one event per step), bad, bad, good, …, with an error fed into the watcher's Errors channel in between.  After
// every step the child waits until the loop has shown an effect (processor call or "Failed to apply" log line: the
// "watcher alive" observable).  Cases 100000..: one per step, checked against the single-event model with the
// previous observed state.

type c19LoopStep struct {
	Content string `json:"content"`
	Remove  bool   `json:"remove,omitempty"`
	ProcOK  bool   `json:"proc_ok"`
	FeedErr bool   `json:"feed_error,omitempty"` // before this step an error is sent on the watcher's Errors channel
}

type c19LoopObs struct {
	Delivered bool     `json:"delivered"`
	Calls     []string `json:"calls"`
	Failed    bool     `json:"failed"` // the loop logged "Failed to apply rule set changes"
	State     string   `json:"state"`  // hex of the stored hash, "" = none
}

type c19SyncBuf struct {
	mu sync.Mutex
	b  strings.Builder
}

func (s *c19SyncBuf) Write(p []byte) (int, error) {
	s.mu.Lock()
	defer s.mu.Unlock()

	return s.b.Write(p)
}

func (s *c19SyncBuf) Count(sub string) int {
	s.mu.Lock()
	defer s.mu.Unlock()

	return strings.Count(s.b.String(), sub)
}

type c19LoopProc struct {
	mu    sync.Mutex
	ok    bool
	calls []string
}

func (p *c19LoopProc) answer(call string) error {
	p.mu.Lock()
	defer p.mu.Unlock()

	p.calls = append(p.calls, call)
	if !p.ok {
		return errC19Rejected
	}

	return nil
}

func (p *c19LoopProc) OnCreated(*config2.RuleSet) error { return p.answer("PCreated") }
func (p *c19LoopProc) OnUpdated(*config2.RuleSet) error { return p.answer("PUpdated") }
func (p *c19LoopProc) OnDeleted(*config2.RuleSet) error { return p.answer("PDeleted") }

func (p *c19LoopProc) take(ok bool) []string {
	p.mu.Lock()
	defer p.mu.Unlock()

	calls := p.calls
	p.calls, p.ok = nil, ok

	return calls
}

func (p *c19LoopProc) n() int {
	p.mu.Lock()
	defer p.mu.Unlock()

	return len(p.calls)
}

func TestVerifC19FSLoopChild(t *testing.T) {
	raw := os.Getenv("C19_FSLOOP_CASE")
	if raw == "" {
		t.Skip()
	}

	var steps []c19LoopStep
	if err := json.Unmarshal([]byte(raw), &steps); err != nil {
		t.Fatal(err)
	}

	dir, outside := t.TempDir(), t.TempDir()
	name := filepath.Join(dir, "rules.yaml")
	logs := &c19SyncBuf{}
	proc := &c19LoopProc{ok: true}

	p, err := NewProvider(&config.Configuration{Providers: config.RuleProviders{
		FileSystem: map[string]any{"src": dir, "watch": true, "env_vars_enabled": true},
	}}, proc, zerolog.New(logs))
	if err != nil {
		t.Fatal(err)
	}

	if err := p.Start(context.Background()); err != nil {
		t.Fatal(err)
	}

	var out []c19LoopObs

	for k, st := range steps {
		proc.take(st.ProcOK)

		failed := logs.Count("Failed to apply rule set changes")

		if st.FeedErr {
			select {
			case p.w.Errors <- errC19Rejected:
			case <-time.After(2 * time.Second): // nobody reads the channel: the loop is gone; the step below will show it
			}
		}

		if st.Remove {
			os.Remove(name)
		} else {
			tmp := filepath.Join(outside, fmt.Sprintf("step%d", k))
			if err := os.WriteFile(tmp, []byte(st.Content), 0o600); err != nil {
				t.Fatal(err)
			}

			if err := os.Rename(tmp, name); err != nil {
				t.Fatal(err)
			}
		}

		o := c19LoopObs{}

		for deadline := time.Now().Add(20 * time.Second); time.Now().Before(deadline); time.Sleep(2 * time.Millisecond) {
			if proc.n() > 0 || logs.Count("Failed to apply rule set changes") > failed {
				o.Delivered = true

				break
			}
		}

		time.Sleep(30 * time.Millisecond) // a second event of the same step, if any

		o.Calls = proc.take(true)
		o.Failed = logs.Count("Failed to apply rule set changes") > failed

		if v, ok := p.states.Load(name); ok {
			o.State = hex.EncodeToString(v.([]byte))
		}

		out = append(out, o)

		b, _ := json.Marshal(out)
		fmt.Println("C19-FSLOOP-RESULT " + string(b))

		if !o.Delivered {
			return // the loop has stopped: nothing more to observe
		}
	}
}

func c19FSLoop(t *testing.T, w *vf.Writer) {
	t.Helper()

	root := vf.NewRand(vf.Seed() + 71)
	good := append([]string{}, c19RuleSets...)
	good = append(good, "version: \"1alpha4\"\nrules:\n- id: ${C19_X}\n  match:\n    routes:\n    - path: /env\n  execute:\n  - authenticator: x\n")
	bad := []string{"a: [", c19RuleSets[1][:57], "version: \"1alpha4\"\n", "${", "rules: {1: x}\n", "- a\n", "version: \"1alpha4\"\nrules:\n- id: a\n  match: {1: x}\n"}

	steps := []c19LoopStep{
		{Content: good[0], ProcOK: true}, // initial load through the loop (the directory starts empty)
		{Content: bad[0], ProcOK: true},
		{Content: bad[1], ProcOK: true, FeedErr: true},
		{Content: good[1], ProcOK: true},
		{Content: bad[root.Intn(len(bad))], ProcOK: true},
		{Content: good[2], ProcOK: false}, // the processor rejects it
		{Content: vf.Pick(root, good[:2]) + "# again\n", ProcOK: true, FeedErr: true},
		{Remove: true, ProcOK: true},
		{Content: good[0] + "# back\n", ProcOK: true},
	}

	wanted := false
	for k := range steps {
		wanted = wanted || vf.Want(100000+k)
	}

	if !wanted {
		return
	}

	raw, _ := json.Marshal(steps)
	// 9 steps, each waits at most 20 s for an effect and stops the run when there is none
	text, err := c19gen.RunChild(t, "TestVerifC19FSLoopChild", 45*time.Second, "C19_FSLOOP_CASE="+string(raw), "C19_X=from-env")

	var res []c19LoopObs

	for _, line := range strings.Split(text, "\n") {
		if strings.HasPrefix(line, "C19-FSLOOP-RESULT ") {
			var r []c19LoopObs
			if json.Unmarshal([]byte(strings.TrimPrefix(line, "C19-FSLOOP-RESULT ")), &r) == nil {
				res = r
			}
		}
	}

	in := c19gen.NewInterner()
	stateID := func(h string) int {
		if h == "" {
			return 0
		}

		b, _ := hex.DecodeString(h)

		return in.ID("hash", b)
	}
	pre := 0

	for k, st := range steps {
		i := 100000 + k

		read := "RdOpenNotExist"
		if !st.Remove {
			var perr error

			if site, _ := c19gen.Catch(func() {
				_, perr = config2.ParseRules("application/yaml", strings.NewReader(st.Content), true)
			}); site != "" {
				perr = errC19Rejected
			}

			switch {
			case errors.Is(perr, config2.ErrEmptyRuleSet):
				read = "RdEmpty"
			case perr != nil:
				read = "RdBad"
			default:
				sum := sha256.Sum256([]byte(st.Content))
				read = fmt.Sprintf("(RdParsed %d)", in.ID("hash", sum[:]))
			}
		}

		var (
			obsCoq string
			o      any
			out    string
		)

		switch {
		case k < len(res) && res[k].Delivered:
			out = "done"
			o = res[k]
			obsCoq = vf.CoqApp("FsDone", vf.CoqApp("fsr", vf.CoqOpt(res[k].State != "", fmt.Sprint(stateID(res[k].State))),
				vf.CoqList(res[k].Calls), vf.CoqBool(res[k].Failed)))
		case k < len(res):
			out = "watcher-stopped"
			o = map[string]any{"msg": "the watch loop showed no effect of the event within 20 s (stopped?)", "obs": res[k]}
			obsCoq = "(FsExit SOther)"
		default:
			site := "SOther"
			if strings.Contains(text, "nil pointer dereference") && strings.Contains(text, "loadRuleSet") {
				site = "SStatNil"
			} else if strings.Contains(text, "interface conversion") && strings.Contains(text, "mapstructure") {
				site = "SDecode"
			}

			out = "exit"
			o = map[string]any{"msg": fmt.Sprint("child: ", err, " ", text[:min(len(text), 500)])}
			obsCoq = "(FsExit " + site + ")"
		}

		if vf.Want(i) {
			bits := vf.CoqApp("bits", "true", "false", "false", "false", "false") // rename into the directory: Create
			if st.Remove {
				bits = vf.CoqApp("bits", "false", "false", "false", "true", "false")
			}

			w.Put(vf.Obs{
				I: i, Stream: "fs-loop", In: st, Out: o,
				Coq:        vf.CoqApp("fsc", vf.CoqOpt(pre != 0, fmt.Sprint(pre)), bits, read, "true", vf.CoqBool(st.ProcOK), obsCoq),
				Nontrivial: true,
				Tags:       []string{"fs-loop", fmt.Sprintf("loop-step=%d", k), "out=" + out},
			})
		}

		if out != "done" {
			break
		}

		pre = stateID(res[k].State)
	}
}
