//go:build verif

package watcher

// C19 driver, stream "watchloop": the real watcher loop (newWatcher, Add, start: `go w.startWatching()`), real
// fsnotify events for a sequence of in-place rewrites, with errors fed into the fsnotify Errors channel in
// between.  Observable: after every rewrite the registered listener's OnChanged is called again, i.e. the
// background watcher is still alive.

import (
	"context"
	"errors"
	"fmt"
	"os"
	"path/filepath"
	"sync/atomic"
	"testing"
	"time"

	"github.com/rs/zerolog"

	"github.com/dadrus/heimdall/internal/zzverif/c19gen"
	"github.com/dadrus/heimdall/internal/zzverif/vf"
)

type c19Listener struct{ n atomic.Int64 }

func (l *c19Listener) OnChanged(zerolog.Logger) { l.n.Add(1) }

func TestVerifC19WatchLoop(t *testing.T) {
	defer c19gen.Watchdog(t, "watchloop", 60*time.Second)()

	out := vf.NewWriter()
	defer out.Close()

	root := vf.NewRand(vf.Seed())

	for i := 0; i < 3; i++ {
		if !vf.Want(i) {
			continue
		}

		r := root.Fork(uint64(i))
		path := filepath.Join(t.TempDir(), "secret.pem")
		os.WriteFile(path, []byte("x"), 0o600)

		w, err := newWatcher(zerolog.Nop())
		if err != nil {
			t.Fatal(err)
		}

		l1, l2 := &c19Listener{}, &c19Listener{}
		if err := w.Add(path, l1); err != nil {
			t.Fatal(err)
		}

		if err := w.Add(path, l2); err != nil {
			t.Fatal(err)
		}

		w.start(context.Background())

		type step struct {
			FeedErr   int  `json:"feed_errors"`
			Delivered bool `json:"delivered"`
		}

		var (
			steps []step
			coq   []string
		)

		for k := 0; k < 6; k++ {
			st := step{}
			if k > 0 && (i == 0 || r.Chance(50)) {
				st.FeedErr = r.Range(1, 3)
			}

			for e := 0; e < st.FeedErr; e++ {
				select {
				case w.w.Errors <- errors.New("c19: injected watcher error"):
				case <-time.After(2 * time.Second): // nobody reads: the loop is gone, the rewrite below will not be delivered
				}
			}

			before1, before2 := l1.n.Load(), l2.n.Load()
			os.WriteFile(path, []byte(fmt.Sprint("content ", k)), 0o600)

			for deadline := time.Now().Add(20 * time.Second); time.Now().Before(deadline); time.Sleep(2 * time.Millisecond) {
				if l1.n.Load() > before1 && l2.n.Load() > before2 {
					st.Delivered = true

					break
				}
			}

			steps = append(steps, st)
			coq = append(coq, vf.CoqBool(st.Delivered))

			if !st.Delivered {
				break
			}
		}

		w.stop(context.Background()) //nolint:errcheck

		out.Put(vf.Obs{I: i, Stream: "watchloop", In: i, Out: steps, Coq: "(WL " + vf.CoqList(coq) + ")",
			Nontrivial: true, Tags: []string{"watchloop"}})
	}
}
