//go:build verif

package rules

// C19 driver, stream "rules": rule sets as YAML text through the real parser
// (yaml + mapstructure + validation), the real rule-set processor, the real
// rule factory with the REAL mechanism factory (a catalogue with every
// mechanism type) and the real repository.  Inputs: type-confusion mutation of
// every node of valid rule sets (scalar <-> map <-> list <-> int <-> null ...),
// truncation of the text at every offset, random multi-mutations.  The factory
// runs on the provider's goroutine (no recover): a panic is a process exit.

import (
	"bytes"
	"encoding/hex"
	"encoding/json"
	"encoding/pem"
	"fmt"
	"os"
	"path/filepath"
	"sort"
	"strings"
	"testing"
	"time"

	"github.com/go-jose/go-jose/v4"
	"github.com/rs/zerolog"
	"gopkg.in/yaml.v3"

	"github.com/dadrus/heimdall/internal/config"
	"github.com/dadrus/heimdall/internal/keyholder"
	"github.com/dadrus/heimdall/internal/otel/metrics/certificate"
	config2 "github.com/dadrus/heimdall/internal/rules/config"
	"github.com/dadrus/heimdall/internal/rules/mechanisms"
	"github.com/dadrus/heimdall/internal/rules/rule"
	"github.com/dadrus/heimdall/internal/watcher"
	"github.com/dadrus/heimdall/internal/zzverif/c19gen"
	"github.com/dadrus/heimdall/internal/zzverif/vf"
)

type c19W struct{}

func (c19W) Add(string, watcher.ChangeListener) error { return nil }

type c19K struct{}

func (c19K) AddKeyHolder(keyholder.KeyHolder) {}
func (c19K) Keys() []jose.JSONWebKey          { return nil }

type c19C struct{}

func (c19C) Add(certificate.Supplier) {}
func (c19C) Start() error             { return nil }

const c19Catalogue = `
authenticators:
  - {id: anon, type: anonymous}
  - {id: unauth, type: unauthorized}
  - id: basic
    type: basic_auth
    config: {user_id: foo, password: bar}
  - id: gen
    type: generic
    config:
      identity_info_endpoint: {url: "http://127.0.0.1:1/whoami"}
      authentication_data_source: [{cookie: sess}]
      subject: {id: "identity.id"}
  - id: jwt
    type: jwt
    config:
      jwks_endpoint: {url: "http://127.0.0.1:1/jwks"}
      assertions: {issuers: [bla]}
  - id: intro
    type: oauth2_introspection
    config:
      introspection_endpoint: {url: "http://127.0.0.1:1/introspect"}
      assertions: {issuers: [bla]}
authorizers:
  - {id: allow, type: allow}
  - {id: deny, type: deny}
  - id: cel
    type: cel
    config:
      expressions: [{expression: "true == true"}]
  - id: remote
    type: remote
    config:
      endpoint: {url: "http://127.0.0.1:1/authz"}
      payload: "x"
contextualizers:
  - id: ctx
    type: generic
    config:
      endpoint: {url: "http://127.0.0.1:1/ctx"}
finalizers:
  - id: hdr
    type: header
    config: {headers: {foo: bar}}
  - id: cookie
    type: cookie
    config: {cookies: {foo: bar}}
  - {id: noop, type: noop}
  - id: jwtfin
    type: jwt
    config:
      signer: {key_store: {path: KSPATH}}
  - id: cc
    type: oauth2_client_credentials
    config: {token_url: "http://127.0.0.1:1/token", client_id: a, client_secret: b}
error_handlers:
  - {id: default, type: default}
  - id: redir
    type: redirect
    config: {to: "http://127.0.0.1/login"}
  - id: www
    type: www_authenticate
    config: {realm: foo}
`

var c19Bases = []string{`
version: "1alpha4"
name: test
rules:
- id: rule1
  match:
    routes:
      - path: /foo/:bar
        path_params:
          - name: bar
            type: glob
            value: "*x"
    scheme: http
    hosts:
      - type: exact
        value: example.com
    methods: [GET, POST]
    backtracking_enabled: true
  allow_encoded_slashes: "off"
  forward_to:
    host: upstream:8080
    rewrite:
      scheme: https
      strip_path_prefix: /foo
  execute:
    - authenticator: jwt
      config:
        assertions: {issuers: [foo], audience: [a]}
        cache_ttl: 5s
    - authenticator: gen
      config:
        cache_ttl: 5s
        allow_fallback_on_error: true
    - authenticator: intro
      config:
        assertions: {issuers: [foo]}
    - authenticator: basic
      config: {user_id: a, password: b}
    - authenticator: anon
      config: {subject: anon}
    - authorizer: cel
      if: "true == true"
      config:
        expressions: [{expression: "1 == 1", message: m}]
    - authorizer: remote
      config:
        payload: "y"
        values: {a: b}
        expressions: [{expression: "true"}]
        forward_response_headers_to_upstream: [x]
        cache_ttl: 1s
    - contextualizer: ctx
      config:
        payload: "z"
        values: {a: b}
        forward_headers: [a]
        forward_cookies: [b]
        cache_ttl: 2s
        continue_pipeline_on_error: true
    - finalizer: hdr
      config: {headers: {a: b}}
    - finalizer: cookie
      config: {cookies: {a: b}}
    - finalizer: jwtfin
      config: {ttl: 10s, claims: "{}"}
    - finalizer: cc
      config: {scopes: [a], header: {name: X, scheme: Y}, cache_ttl: 3s}
  on_error:
    - error_handler: redir
      if: "type(Error) == authentication_error"
    - error_handler: www
      config: {realm: bar}
    - error_handler: default
`, `
version: "1alpha4"
rules:
- id: a
  match:
    routes: [{path: /a}]
  forward_to: {host: "up:80"}
  execute:
    - authenticator: anon
    - authorizer: allow
    - finalizer: noop
- id: b
  match:
    routes: [{path: "/b/**"}]
    methods: [GET]
  forward_to: {host: "up:80"}
  execute:
    - authenticator: unauth
  on_error:
    - error_handler: default
      if: "true"
`, `
version: "1alpha4"
rules:
- id: only
  match:
    routes: [{path: /only}]
  forward_to: {host: "up:80"}
  execute:
    - authenticator: basic
      config: {user_id: x, password: y}
    - authorizer: deny
      if: "Request.Method == 'GET'"
`, c19Overrides}

// c19Overrides: one rule per mechanism with EVERY option its WithConfig accepts, so that the
// type confusion of every node reaches every decoder and decode hook of the real mechanisms.
const c19Overrides = `
version: "1alpha4"
rules:
- id: o-jwt
  match: {routes: [{path: /o1}]}
  forward_to: {host: "up:80"}
  execute:
    - authenticator: jwt
      config:
        assertions:
          issuers: [foo]
          audience: [a, b]
          scopes: [s1, s2]
          allowed_algorithms: [ES256, PS256]
          validity_leeway: 5s
        cache_ttl: 5s
        allow_fallback_on_error: true
- id: o-intro
  match: {routes: [{path: /o2}]}
  forward_to: {host: "up:80"}
  execute:
    - authenticator: intro
      config:
        assertions:
          issuers: [foo]
          audience: [a]
          scopes: {matching_strategy: wildcard, values: [s1, "s2:*"]}
          allowed_algorithms: [ES256]
          validity_leeway: 1s
        cache_ttl: 5s
        allow_fallback_on_error: false
- id: o-rest
  match: {routes: [{path: /o3}]}
  forward_to: {host: "up:80"}
  execute:
    - authenticator: gen
      config: {cache_ttl: 5s, allow_fallback_on_error: true}
    - authenticator: basic
      config: {user_id: a, password: b, allow_fallback_on_error: true}
    - authenticator: anon
      config: {subject: anon}
    - authorizer: cel
      config:
        expressions: [{expression: "1 == 1", message: m}]
    - authorizer: remote
      config:
        payload: "y"
        values: {a: b, c: "{{ .Subject.ID }}"}
        expressions: [{expression: "true", message: n}]
        forward_response_headers_to_upstream: [x, y]
        cache_ttl: 1s
    - contextualizer: ctx
      config:
        payload: "z"
        values: {a: b}
        forward_headers: [a]
        forward_cookies: [b]
        cache_ttl: 2s
        continue_pipeline_on_error: true
    - finalizer: hdr
      config: {headers: {a: b, c: "{{ .Subject.ID }}"}}
    - finalizer: cookie
      config: {cookies: {a: b}}
    - finalizer: jwtfin
      config: {ttl: 10s, claims: "{}"}
    - finalizer: cc
      config: {scopes: [a, b], header: {name: X, scheme: Y}, cache_ttl: 3s}
  on_error:
    - error_handler: www
      config: {realm: bar}
`

// option names of all mechanisms, injected with values of every kind where they are absent
var c19OptionNames = []string{
	"assertions", "scopes", "issuers", "audience", "allowed_algorithms", "validity_leeway", "cache_ttl", "allow_fallback_on_error",
	"user_id", "password", "subject", "payload", "expressions", "values", "forward_response_headers_to_upstream", "forward_headers",
	"forward_cookies", "continue_pipeline_on_error", "headers", "cookies", "ttl", "claims", "header", "realm", "matching_strategy",
	"trust_store", "jwt_source", "token_source", "endpoint", "identity_info_endpoint", "jwks_endpoint", "metadata_endpoint", "to", "if",
}

// ---- generic value trees ------------------------------------------------

func c19Repl(kind int) any {
	switch kind {
	case 0:
		return nil
	case 1:
		return 42
	case 2:
		return "str"
	case 3:
		return true
	case 4:
		return []any{"a", 1}
	case 5:
		return map[string]any{"k": "v"}
	case 6:
		return []any{}
	case 7:
		return map[string]any{}
	case 8:
		return []any{map[string]any{"k": 1}}
	case 9:
		return 1.5
	case 10:
		return ""
	case 11:
		return map[any]any{1: "x"}
	}

	return nil
}

const c19Kinds = 12

func c19Paths(v any, pre []any, out *[][]any) {
	*out = append(*out, append([]any{}, pre...))

	switch t := v.(type) {
	case map[string]any:
		keys := make([]string, 0, len(t))
		for k := range t {
			keys = append(keys, k)
		}

		sort.Strings(keys)

		for _, k := range keys {
			c19Paths(t[k], append(pre, k), out)
		}
	case []any:
		for i := range t {
			c19Paths(t[i], append(pre, i), out)
		}
	}
}

func c19Clone(v any) any {
	switch t := v.(type) {
	case map[string]any:
		m := map[string]any{}
		for k, x := range t {
			m[k] = c19Clone(x)
		}

		return m
	case []any:
		l := make([]any, len(t))
		for i := range t {
			l[i] = c19Clone(t[i])
		}

		return l
	}

	return v
}

func c19Get(root any, p []any) any {
	for _, k := range p {
		switch t := root.(type) {
		case map[string]any:
			root = t[k.(string)]
		case []any:
			root = t[k.(int)]
		}
	}

	return root
}

func c19Set(root any, p []any, nv any) any {
	if len(p) == 0 {
		return nv
	}

	switch t := root.(type) {
	case map[string]any:
		t[p[0].(string)] = c19Set(t[p[0].(string)], p[1:], nv)
	case []any:
		t[p[0].(int)] = c19Set(t[p[0].(int)], p[1:], nv)
	}

	return root
}

// structural edits at a path: 0 delete the node, 1 duplicate (list element), 2 add an unknown key (map)
func c19Edit(root any, p []any, op int) any {
	if len(p) == 0 {
		return root
	}

	var parent any = root
	for _, k := range p[:len(p)-1] {
		switch t := parent.(type) {
		case map[string]any:
			parent = t[k.(string)]
		case []any:
			parent = t[k.(int)]
		}
	}

	last := p[len(p)-1]
	grand := p[:len(p)-1]

	switch t := parent.(type) {
	case map[string]any:
		switch op {
		case 0:
			delete(t, last.(string))
		case 2:
			t["zz_unknown"] = "x"
		}
	case []any:
		i := last.(int)

		switch op {
		case 0:
			nl := append(append([]any{}, t[:i]...), t[i+1:]...)
			root = c19Set(root, grand, nl)
		case 1:
			nl := append(append([]any{}, t[:i+1]...), t[i:]...)
			root = c19Set(root, grand, nl)
		}
	}

	return root
}

func c19Map(m map[string]any, depth int) string { return c19gen.YMapCoq(m, depth) }

// c19StepMap renders a step: values cut at depth 1, except config.assertions.scopes, which is rendered in
// full (the guard of C19-F9 looks at it)
func c19StepMap(st map[string]any) string {
	keyed := func(m map[string]any, special string, f func(v any) string) string {
		keys := make([]string, 0, len(m))
		for k := range m {
			keys = append(keys, k)
		}

		sort.Strings(keys)

		items := make([]string, len(keys))
		for i, k := range keys {
			if k == special {
				items[i] = vf.CoqPair(vf.CoqStr(k), f(m[k]))
			} else {
				items[i] = vf.CoqPair(vf.CoqStr(k), c19gen.YV(m[k], 0))
			}
		}

		return vf.CoqList(items)
	}

	scopes := func(v any) string { return c19gen.YV(v, 3) }
	assertions := func(v any) string {
		if m, ok := v.(map[string]any); ok {
			return "(YMap " + keyed(m, "scopes", scopes) + ")"
		}

		return c19gen.YV(v, 0)
	}
	conf := func(v any) string {
		if m, ok := v.(map[string]any); ok {
			return "(YMap " + keyed(m, "assertions", assertions) + ")"
		}

		return c19gen.YV(v, 0)
	}

	return keyed(st, "config", conf)
}

// ---- oracles ------------------------------------------------------------

func c19CloneAny(v any) any {
	switch t := v.(type) {
	case map[string]any:
		m := map[string]any{}
		for k, x := range t {
			m[k] = c19CloneAny(x)
		}

		return m
	case config.MechanismConfig:
		m := config.MechanismConfig{}
		for k, x := range t {
			m[k] = c19CloneAny(x)
		}

		return m
	case map[any]any:
		m := map[any]any{}
		for k, x := range t {
			m[k] = c19CloneAny(x)
		}

		return m
	case []any:
		l := make([]any, len(t))
		for i := range t {
			l[i] = c19CloneAny(t[i])
		}

		return l
	}

	return v
}

func c19CopyRule(r config2.Rule) config2.Rule {
	out := r
	r.Matcher.DeepCopyInto(&out.Matcher)

	out.Execute = nil
	for _, st := range r.Execute {
		out.Execute = append(out.Execute, c19CloneAny(st).(config.MechanismConfig))
	}

	out.ErrorHandler = nil
	for _, st := range r.ErrorHandler {
		out.ErrorHandler = append(out.ErrorHandler, c19CloneAny(st).(config.MechanismConfig))
	}

	return out
}

func c19Mres(f func() error) string {
	var err error

	site, _ := c19gen.Catch(func() { err = f() })

	switch {
	case site != "":
		return "MPanic"
	case err != nil:
		return "MErr"
	}

	return "MOk"
}

func c19CfgOf(v any) (config.MechanismConfig, bool) {
	switch t := v.(type) {
	case nil:
		return nil, true
	case map[string]any:
		return t, true
	}

	return nil, false
}

// the mechanism factory's answer for the call a step leads to (if its id is a string and its config nil or a map)
func c19StepOracle(hf mechanisms.MechanismFactory, st config.MechanismConfig, eh bool) (string, bool) {
	mres := "MOk"

	kinds := []string{"authenticator", "authorizer", "contextualizer", "finalizer"}
	if eh {
		kinds = []string{"error_handler"}
	}

	for _, k := range kinds {
		idv, found := st[k]
		if !found {
			continue
		}

		id, isStr := idv.(string)
		cfg, cfgOK := c19CfgOf(st["config"])

		if isStr && cfgOK {
			v := config2.CurrentRuleSetVersion
			mres = c19Mres(func() error {
				var err error

				switch k {
				case "authenticator":
					_, err = hf.CreateAuthenticator(v, id, cfg)
				case "authorizer":
					_, err = hf.CreateAuthorizer(v, id, cfg)
				case "contextualizer":
					_, err = hf.CreateContextualizer(v, id, cfg)
				case "finalizer":
					_, err = hf.CreateFinalizer(v, id, cfg)
				default:
					_, err = hf.CreateErrorHandler(v, id, cfg)
				}

				return err
			})
		}

		break
	}

	cel := false
	if expr, ok := st["if"].(string); ok && expr != "" {
		cel = c19Mres(func() error { _, err := newCelExecutionCondition(expr); return err }) == "MOk"
	}

	return mres, cel
}

func c19Steps(hf mechanisms.MechanismFactory, sts []config.MechanismConfig, eh bool) string {
	items := make([]string, len(sts))
	for i, st := range sts {
		mres, cel := c19StepOracle(hf, st, eh)
		// the factory looks at the top level of a step only: deeper values are cut at depth 1
		items[i] = vf.CoqApp("stp", c19StepMap(st), mres, vf.CoqBool(cel))
	}

	return vf.CoqList(items)
}

// Hash() and the matchers: what CreateRule does after the pipelines
func c19Rest(rc config2.Rule) string {
	return c19Mres(func() error {
		if _, err := rc.Hash(); err != nil {
			return err
		}

		if _, err := createMethodMatcher(rc.Matcher.Methods); err != nil {
			return err
		}

		if _, err := createHostMatcher(rc.Matcher.Hosts); err != nil {
			return err
		}

		sh := rc.EncodedSlashesHandling
		if len(sh) == 0 {
			sh = config2.EncodedSlashesOff
		}

		for _, r := range rc.Matcher.Routes {
			if _, err := createPathParamsMatcher(r.PathParams, sh); err != nil {
				return err
			}
		}

		return nil
	})
}

// ---- recording repository -----------------------------------------------

type c19Repo struct {
	rule.Repository
	calls  int
	failed bool
}

func (r *c19Repo) AddRuleSet(src string, rules []rule.Rule) error {
	r.calls++
	err := r.Repository.AddRuleSet(src, rules)
	r.failed = r.failed || err != nil

	return err
}

func (r *c19Repo) UpdateRuleSet(src string, rules []rule.Rule) error {
	r.calls++
	err := r.Repository.UpdateRuleSet(src, rules)
	r.failed = r.failed || err != nil

	return err
}

func c19RuleKey(id string, hash []byte) string {
	if len(hash) > 4 {
		hash = hash[:4]
	}

	return id + "#" + hex.EncodeToString(hash)
}

func c19IDs(repo rule.Repository, src string) []string {
	var ids []string

	r := repo.(*repository)
	r.knownRulesMutex.Lock()
	defer r.knownRulesMutex.Unlock()

	for _, k := range r.knownRules {
		if k.SrcID() == src {
			// id and content: a rejected update must leave the RULES, not only their ids
			ids = append(ids, c19RuleKey(k.ID(), k.(*ruleImpl).hash))
		}
	}

	sort.Strings(ids)

	return ids
}

// ---- cases ----------------------------------------------------------------

type c19RuleCase struct {
	Env     bool   `json:"env_vars_enabled,omitempty"`
	CT      string `json:"content_type,omitempty"` // default application/yaml
	Base    int    `json:"base"`
	How     string `json:"how"`
	Text    string `json:"text"`
	Op      string `json:"op"`
	Proxy   bool   `json:"proxy"`
	Default bool   `json:"default_rule"`
}

type c19RuleObs struct {
	Parsed  bool     `json:"parsed"`
	Outcome string   `json:"outcome"` // applied rejected exit:<site>
	Msg     string   `json:"msg,omitempty"`
	Pre     []string `json:"pre"`
	Post    []string `json:"post"`
}

type c19Env struct {
	hf   mechanisms.MechanismFactory
	conf *config.Configuration
	rfs  map[[2]bool]rule.Factory
}

func c19Setup(t *testing.T) *c19Env {
	t.Helper()

	ksp := filepath.Join(t.TempDir(), "ks.pem")
	blk := c19gen.Fixtures()["ec256"]

	if err := os.WriteFile(ksp, pem.EncodeToMemory(&pem.Block{Type: blk.Type, Bytes: blk.Bytes}), 0o600); err != nil {
		t.Fatal(err)
	}

	var raw map[string][]map[string]any
	if err := yaml.Unmarshal([]byte(strings.ReplaceAll(c19Catalogue, "KSPATH", ksp)), &raw); err != nil {
		t.Fatal(err)
	}

	conv := func(l []map[string]any) []config.Mechanism {
		var out []config.Mechanism

		for _, m := range l {
			mc := config.Mechanism{ID: m["id"].(string), Type: m["type"].(string)}
			if c, ok := m["config"].(map[string]any); ok {
				mc.Config = c
			}

			out = append(out, mc)
		}

		return out
	}

	conf := &config.Configuration{Prototypes: &config.MechanismPrototypes{
		Authenticators: conv(raw["authenticators"]), Authorizers: conv(raw["authorizers"]),
		Contextualizers: conv(raw["contextualizers"]), Finalizers: conv(raw["finalizers"]),
		ErrorHandlers: conv(raw["error_handlers"]),
	}}

	hf, err := mechanisms.NewMechanismFactory(conf, zerolog.Nop(), c19W{}, c19K{}, c19C{})
	if err != nil {
		t.Fatal(err)
	}

	env := &c19Env{hf: hf, conf: conf, rfs: map[[2]bool]rule.Factory{}}

	for _, proxy := range []bool{false, true} {
		for _, def := range []bool{false, true} {
			c := *conf
			if def {
				c.Default = &config.DefaultRule{Execute: []config.MechanismConfig{{"authenticator": "anon"}}}
			}

			mode := config.DecisionMode
			if proxy {
				mode = config.ProxyMode
			}

			rf, err := NewRuleFactory(hf, &c, mode, zerolog.Nop())
			if err != nil {
				t.Fatal(err)
			}

			env.rfs[[2]bool{proxy, def}] = rf
		}
	}

	return env
}

func c19Marshal(tree any) (string, bool) {
	var text string

	site, _ := c19gen.Catch(func() {
		b, err := yaml.Marshal(tree)
		if err == nil {
			text = string(b)
		}
	})

	return text, site == "" && text != ""
}

func TestVerifC19Rules(t *testing.T) {
	w := vf.NewWriter()
	defer w.Close()

	t.Setenv("C19_X", "from-env")

	defer c19gen.Watchdog(t, "rules", 100*time.Second)()

	env := c19Setup(t)
	root := vf.NewRand(vf.Seed())
	quick := os.Getenv("VERIF_TIER") == "quick"
	rot := int(vf.Seed() % 1000) // which part of the systematic products a quick run takes

	var bases []any

	for _, b := range c19Bases {
		var tree any
		if err := yaml.Unmarshal([]byte(b), &tree); err != nil {
			t.Fatal(err)
		}

		bases = append(bases, tree)
	}

	var cases []c19RuleCase

	add := func(base int, how, text string) {
		cases = append(cases, c19RuleCase{Base: base, How: how, Text: text})
	}

	// corpus: the unmodified rule sets and the witnesses of C19-F3
	for i, b := range c19Bases {
		add(i, "base", b)
	}

	for _, wit := range []struct {
		p []any
		v any
	}{
		{[]any{"rules", 0, "execute", 0, "authenticator"}, 42},
		{[]any{"rules", 0, "execute", 1, "authorizer"}, []any{"a"}},
		{[]any{"rules", 0, "execute", 0, "config"}, "x"},
		{[]any{"rules", 1, "on_error", 0, "error_handler"}, nil},
		{[]any{"rules", 1, "on_error", 0, "config"}, 7},
		{[]any{"rules", 0, "execute", 2, "finalizer"}, map[string]any{"a": "b"}},
		{[]any{"rules", 0, "execute", 1, "if"}, 42},
		{[]any{"rules", 0, "execute", 1, "if"}, ""},
		{[]any{"rules", 0, "execute", 1, "if"}, "1 +"},
		{[]any{"version"}, "1alpha3"},
	} {
		if text, ok := c19Marshal(c19Set(c19Clone(bases[1]), wit.p, wit.v)); ok {
			add(1, fmt.Sprint("witness ", wit.p, "<-", wit.v), text)
		}
	}

	// a rule id that occurs twice (C06-F6: rejected as a whole since 5e2c60e), also behind a rule that cannot be created
	for _, d := range []struct {
		base int
		mut  func(tree any) any
	}{
		{2, func(t any) any { return c19Edit(t, []any{"rules", 0}, 1) }},
		{1, func(t any) any { return c19Set(t, []any{"rules", 1, "id"}, "a") }},
		{1, func(t any) any {
			return c19Set(c19Set(t, []any{"rules", 1, "id"}, "a"), []any{"rules", 0, "execute", 0, "authenticator"}, "nope")
		}},
		{1, func(t any) any {
			return c19Set(c19Set(t, []any{"rules", 1, "id"}, "a"), []any{"rules", 1, "execute", 0, "authenticator"}, "nope")
		}},
	} {
		if text, ok := c19Marshal(d.mut(c19Clone(bases[d.base]))); ok {
			add(d.base, "witness duplicate rule id", text)
		}
	}

	for _, wit := range []struct { // C19-F9 and its neighbours
		p []any
		v any
	}{
		{[]any{"rules", 0, "execute", 0, "config", "assertions", "scopes"}, []any{1}},
		{[]any{"rules", 0, "execute", 0, "config", "assertions", "scopes"}, map[string]any{"matching_strategy": 1, "values": []any{"a"}}},
		{[]any{"rules", 0, "execute", 0, "config", "assertions", "scopes"}, map[string]any{"values": "a"}},
		{[]any{"rules", 1, "execute", 0, "config", "assertions", "scopes", "values"}, []any{"a", nil}},
		{[]any{"rules", 0, "execute", 0, "config", "assertions"}, map[any]any{"issuers": []any{"x"}, 1: "foo"}}, // seeded C19-2
		{[]any{"rules", 0, "execute", 0, "config", "assertions", "scopes"}, map[string]any{"matching_strategy": "nope", "values": []any{"a"}}},
	} {
		if text, ok := c19Marshal(c19Set(c19Clone(bases[3]), wit.p, wit.v)); ok {
			add(3, fmt.Sprint("witness ", wit.p, "<-", wit.v), text)
		}
	}

	// type confusion of every node
	for bi, base := range bases {
		var ps [][]any

		c19Paths(base, nil, &ps)

		for pi, p := range ps {
			for k := 0; k < c19Kinds; k++ {
				underConfig := false
				for _, e := range p {
					underConfig = underConfig || e == "config"
				}

				// quick: a part of the product per run (which part rotates with the seed), but below `config` always
				// the replacement by an int and by a map with a non-string key
				if quick && (pi+k+rot)%[]int{10, 3, 3, 12}[bi] != 0 && !(underConfig && (k == 1 || k == 11)) {
					continue
				}

				if text, ok := c19Marshal(c19Set(c19Clone(base), p, c19Repl(k))); ok {
					add(bi, fmt.Sprint(p, "<-kind", k), text)
				}
			}

			if !quick || bi == 2 {
				for op := 0; op < 3; op++ {
					if text, ok := c19Marshal(c19Edit(c19Clone(base), p, op)); ok {
						add(bi, fmt.Sprint(p, " edit", op), text)
					}
				}
			}
		}
	}

	// value-level malformed strings at every string leaf: template, regex / glob, URL, CEL, environment
	// substitution syntax, NUL, very long values
	badStrings := []string{"{{", "{{ .Subject.ID", "}}", "(", "[a-", "*", "**", "://", "http://[::1", "%zz", "${", "${C19_X}", "$C19_X",
		"${C19_X", "$", "\x00", strings.Repeat("a", 1<<14), "a:b:c", ":", "\n- x", "1 +", "\"", "!", "0s", "-1s", "9999999h"}

	for bi, base := range bases {
		var ps [][]any

		c19Paths(base, nil, &ps)

		n := 0

		for _, p := range ps {
			if _, isStr := c19Get(base, p).(string); !isStr {
				continue
			}

			for vi, v := range badStrings {
				n++
				if quick && (n+bi+rot)%20 != 0 {
					continue
				}

				if text, ok := c19Marshal(c19Set(c19Clone(base), p, v)); ok {
					add(bi, fmt.Sprint(p, " string-value ", vi), text)
				}
			}
		}
	}

	// option injection: every option name of any mechanism, with a value of every kind, into every map under `config`
	// of the override rule set (quick: a sample)
	{
		var ps [][]any

		c19Paths(bases[3], nil, &ps)

		n := 0

		for _, p := range ps {
			under := false
			for _, e := range p {
				under = under || e == "config"
			}

			node := c19Get(bases[3], p)
			if _, isMap := node.(map[string]any); !under || !isMap {
				continue
			}

			for _, name := range c19OptionNames {
				if _, has := node.(map[string]any)[name]; has {
					continue
				}

				for k := 0; k < c19Kinds; k++ {
					n++
					if quick && (n+rot)%36 != 0 {
						continue
					}

					tree := c19Set(c19Clone(bases[3]), append(append([]any{}, p...), name), c19Repl(k))
					if text, ok := c19Marshal(tree); ok {
						add(3, fmt.Sprint(p, " inject ", name, "<-kind", k), text)
					}
				}
			}
		}
	}

	// two type confusions inside the same step: which check comes first decides between rejection and panic
	for bi, base := range bases {
		rules, _ := base.(map[string]any)["rules"].([]any)
		for ri, rr := range rules {
			for _, list := range []string{"execute", "on_error"} {
				steps, _ := rr.(map[string]any)[list].([]any)
				for si, st := range steps {
					var kindKey string

					for _, k := range []string{"authenticator", "authorizer", "contextualizer", "finalizer", "error_handler"} {
						if _, ok := st.(map[string]any)[k]; ok {
							kindKey = k
						}
					}

					p := []any{"rules", ri, list, si}
					for ci, combo := range [][2][2]any{
						{{kindKey, 42}, {"if", 42}}, {{kindKey, 42}, {"if", ""}}, {{kindKey, []any{"a"}}, {"if", "1 +"}},
						{{kindKey, 42}, {"config", "x"}}, {{"if", 42}, {"config", 7}}, {{"if", "1 +"}, {"config", []any{}}},
						{{kindKey, nil}, {"config", map[any]any{1: 2}}}, {{kindKey, "nope"}, {"config", "x"}},
						{{kindKey, "nope"}, {"if", 42}}, {{"finalizer", 42}, {"authorizer", 42}},
					} {
						if quick && (si+ci+rot)%2 != 0 {
							continue
						}

						tree := c19Clone(base)
						for _, kv := range combo {
							tree = c19Set(tree, append(append([]any{}, p...), kv[0]), kv[1])
						}

						if text, ok := c19Marshal(tree); ok {
							add(bi, fmt.Sprint(p, " pair-kind", ci), text)
						}
					}
				}
			}
		}
	}

	// truncation of the text at every offset
	for bi, b := range c19Bases {
		step := 1
		if quick {
			step = []int{23, 5, 3, 29}[bi]
		}

		for off := 0; off <= len(b); off += step {
			add(bi, fmt.Sprint("trunc ", off), b[:off])
		}
	}

	// the same through the content types the http endpoint / cloud blob providers hand to ParseRules:
	// JSON text truncated at every offset, unsupported and missing content types
	if js, err := json.Marshal(bases[1]); err == nil {
		step := 1
		if quick {
			step = 4
		}

		for off := 0; off <= len(js); off += step {
			cases = append(cases, c19RuleCase{CT: "application/json", Base: 1, How: fmt.Sprint("trunc json ", off), Text: string(js[:off])})
		}

		cases = append(cases,
			c19RuleCase{CT: "text/plain", Base: 1, How: "content type text/plain", Text: c19Bases[1]},
			c19RuleCase{CT: "", Base: 1, How: "no content type", Text: c19Bases[1]},
			c19RuleCase{CT: "", Base: 1, How: "no content type, empty", Text: ""},
			c19RuleCase{CT: "application/json", Base: 1, How: "yaml as json", Text: c19Bases[1]})
	}

	nsys := len(cases)

	// random: several mutations at once
	for i := 0; i < vf.N(300); i++ {
		r := root.Fork(uint64(i))
		bi := r.Intn(len(bases))
		tree := c19Clone(bases[bi])
		how := ""

		for k := r.Range(1, 3); k > 0; k-- {
			var ps [][]any

			c19Paths(tree, nil, &ps)
			p := vf.Pick(r, ps)

			if r.Chance(70) {
				kind := r.Intn(c19Kinds)
				tree = c19Set(tree, p, c19Repl(kind))
				how += fmt.Sprint(p, "<-kind", kind, " ")
			} else {
				op := r.Intn(3)
				tree = c19Edit(tree, p, op)
				how += fmt.Sprint(p, " edit", op, " ")
			}
		}

		if text, ok := c19Marshal(tree); ok {
			add(bi, how, text)
		}
	}

	const src = "c19:test"

	for i := range cases {
		if !vf.Want(i) {
			continue
		}

		c := cases[i]
		r := root.Fork(uint64(1000000 + i))
		c.Proxy, c.Default = r.Chance(70), r.Chance(30)
		c.Env = r.Chance(30) || strings.Contains(c.How, "string-value")
		c.Op = "created"

		if r.Chance(50) {
			c.Op = "updated"
		}

		rf := env.rfs[[2]bool{c.Proxy, c.Default}]
		repo := &c19Repo{Repository: newRepository(rf)}
		proc := NewRuleSetProcessor(repo, rf)

		if c.Op == "updated" { // a previously loaded version of the same source
			prev, err := config2.ParseRules("application/yaml", strings.NewReader(c19Bases[2]), false)
			if err != nil {
				t.Fatal(err)
			}

			prev.Source = src
			if err := proc.OnCreated(prev); err != nil {
				t.Fatal(err)
			}

			repo.calls, repo.failed = 0, false
		}

		o := c19RuleObs{Pre: c19IDs(repo.Repository, src)}

		var (
			rs   *config2.RuleSet
			perr error
		)

		psite, pmsg := c19gen.Catch(func() {
			ct := c.CT
			if c.How != "no content type" && c.How != "no content type, empty" && ct == "" {
				ct = "application/yaml"
			}

			rs, perr = config2.ParseRules(ct, bytes.NewReader([]byte(c.Text)), c.Env)
		})

		rulesCoq := "PRejected"
		version := ""
		tags := []string{"op=" + c.Op, fmt.Sprintf("env=%v", c.Env)}

		var outCoq string

		switch {
		case psite != "":
			// the decoder itself panicked (C19-F8)
			o.Outcome, o.Msg = "exit:"+psite, pmsg
			rulesCoq = "PPanics"
			tags = append(tags, "parse=panic")
		case perr != nil:
			o.Outcome = "rejected"
			tags = append(tags, "parse=err")
		default:
			o.Parsed = true
			rs.Source = src
			version = rs.Version
			tags = append(tags, "parse=ok", fmt.Sprintf("rules=%d", min(len(rs.Rules), 3)))

			items := make([]string, len(rs.Rules))
			for k := range rs.Rules {
				// the oracle calls work on a deep copy: createMethodMatcher sorts and compacts its argument in place
				rc := c19CopyRule(rs.Rules[k])
				hash, _ := rc.Hash()
				items[k] = vf.CoqApp("rl", vf.CoqStr(rc.ID), vf.CoqStr(c19RuleKey(rc.ID, hash)), c19Steps(env.hf, rc.Execute, false), c19Steps(env.hf, rc.ErrorHandler, true),
					vf.CoqBool(rc.Backend != nil), c19Rest(rc))
			}

			rulesCoq = "(PParsed " + vf.CoqList(items) + ")"

			var err error

			site, msg := c19gen.Catch(func() {
				if c.Op == "created" {
					err = proc.OnCreated(rs)
				} else {
					err = proc.OnUpdated(rs)
				}
			})

			if site != "" && site != "SIdAssert" && site != "SGetConfig" && strings.Contains(rulesCoq, "MPanic") {
				site = "SMech" // a collaborator (mechanism factory, matcher construction) panicked, as its oracle call did
			}

			switch {
			case site != "":
				o.Outcome, o.Msg = "exit:"+site, msg
			case err != nil:
				o.Outcome, o.Msg = "rejected", strings.SplitN(err.Error(), ":", 3)[0]
			default:
				o.Outcome = "applied"
			}
		}

		o.Post = c19IDs(repo.Repository, src)

		switch {
		case strings.HasPrefix(o.Outcome, "exit:"):
			outCoq = "(RsExit " + strings.TrimPrefix(o.Outcome, "exit:") + ")"
		case o.Outcome == "applied":
			outCoq = "(RsApplied " + vf.CoqStrs(o.Post) + ")"
		default:
			outCoq = "(RsRejected " + vf.CoqStrs(o.Post) + ")"
		}

		tags = append(tags, "out="+strings.SplitN(o.Outcome, ":", 2)[0])
		if i < nsys {
			tags = append(tags, "systematic")
		}

		if c.CT != "" || strings.HasPrefix(c.How, "no content type") {
			tags = append(tags, "content-type="+c.CT)
		}

		if strings.HasPrefix(c.How, "trunc") {
			tags = append(tags, "how=trunc")
		} else if strings.Contains(c.How, "kind") {
			tags = append(tags, "how=type-confusion")
		}

		op := "OpCreated"
		if c.Op == "updated" {
			op = "OpUpdated"
		}

		w.Put(vf.Obs{
			I: i, Stream: "rules", In: c, Out: o,
			Coq: vf.CoqApp("rsc", vf.CoqBool(c.Proxy), vf.CoqBool(c.Default), vf.CoqStrs(o.Pre), op, vf.CoqStr(version), rulesCoq,
				vf.CoqBool(!repo.failed), outCoq),
			// non-trivial: the text passed the parser and validation, i.e. the factory saw it
			Nontrivial: o.Parsed,
			Tags:       tags,
		})
	}
}
