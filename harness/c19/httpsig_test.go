//go:build verif

package authstrategy

// C19 driver, stream "httpsig": the real HTTPMessageSignatures strategy is
// initialised on a valid key store and reloaded through its real OnChanged.

import (
	"testing"

	"github.com/rs/zerolog"

	"github.com/dadrus/heimdall/internal/zzverif/c19gen"
)

type c19Sig struct{ s *HTTPMessageSignatures }

func (c c19Sig) OnChanged(l zerolog.Logger) { c.s.OnChanged(l) }
func (c c19Sig) Load() error                { return c.s.init() }

func (c c19Sig) State() c19gen.State {
	c.s.mut.RLock()
	defer c.s.mut.RUnlock()

	st := c19gen.State{Chain: c.s.certChain}
	for _, k := range c.s.pubKeys {
		st.Keys = append(st.Keys, [2]string{k.KeyID, k.Algorithm})
	}

	return st
}

func TestVerifC19HttpSig(t *testing.T) {
	c19gen.RunReload(t, "httpsig", func(path, keyID, password string) (c19gen.Component, error) {
		s := &HTTPMessageSignatures{
			Signer:     SignerConfig{Name: "c19", KeyStore: KeyStore{Path: path, Password: password}, KeyID: keyID},
			Components: []string{"@method", "@authority"},
		}
		if err := s.init(); err != nil {
			return nil, err
		}

		return c19Sig{s: s}, nil
	})
}
