//go:build verif

package kubernetes

// C19 driver, stream "k8s": the real informer callbacks of the kubernetes rule provider (addRuleSet,
// updateRuleSet, deleteRuleSet, finalize) with a scripted API client.  Every callback ends in updateStatus,
// which digests status.activeIn of the RuleSet as the API delivered it (writable by anyone with patch rights
// on the status subresource) and the answer of PatchStatus.  The callbacks run on client-go's informer
// goroutine, whose HandleCrash re-panics: a panic is a process exit.  Here they are called directly and the
// panic is caught.

import (
	"context"
	"errors"
	"fmt"
	"strings"
	"testing"
	"time"

	"github.com/rs/zerolog"
	errors2 "k8s.io/apimachinery/pkg/api/errors"
	metav1 "k8s.io/apimachinery/pkg/apis/meta/v1"
	"k8s.io/apimachinery/pkg/runtime/schema"
	"k8s.io/apimachinery/pkg/types"
	"k8s.io/apimachinery/pkg/watch"
	"k8s.io/client-go/tools/cache"

	config2 "github.com/dadrus/heimdall/internal/rules/config"
	"github.com/dadrus/heimdall/internal/rules/provider/kubernetes/api/v1alpha4"
	"github.com/dadrus/heimdall/internal/zzverif/c19gen"
	"github.com/dadrus/heimdall/internal/zzverif/vf"
)

type c19Proc struct{ ok bool }

var errC19 = errors.New("c19: rejected")

func (p c19Proc) answer() error {
	if p.ok {
		return nil
	}

	return errC19
}

func (p c19Proc) OnCreated(*config2.RuleSet) error { return p.answer() }
func (p c19Proc) OnUpdated(*config2.RuleSet) error { return p.answer() }
func (p c19Proc) OnDeleted(*config2.RuleSet) error { return p.answer() }

// one pass of updateStatus: status.activeIn as delivered, what PatchStatus answers, whether Get works afterwards
type c19Try struct {
	ActiveIn string `json:"active_in"`
	Patch    string `json:"patch"` // ok 404 409 422 500 403 refused timeout
	GetOK    bool   `json:"get_ok"`
}

type c19Repo struct {
	tries   []c19Try
	pos     int
	patches int
}

func (r *c19Repo) List(context.Context, metav1.ListOptions) (*v1alpha4.RuleSetList, error) {
	return &v1alpha4.RuleSetList{}, nil
}

func (r *c19Repo) Watch(context.Context, metav1.ListOptions) (watch.Interface, error) {
	return watch.NewFake(), nil
}

// the try in force; after the scripted ones a well-formed status and a PatchStatus that succeeds
func (r *c19Repo) cur() c19Try {
	if r.pos < len(r.tries) {
		return r.tries[r.pos]
	}

	return c19Try{ActiveIn: "1/1", Patch: "ok"}
}

func (r *c19Repo) Get(_ context.Context, key types.NamespacedName, _ metav1.GetOptions) (*v1alpha4.RuleSet, error) {
	t := r.cur()
	r.pos++

	if !t.GetOK || r.pos > 20 { // never more re-reads than that: a persistent conflict makes updateStatus retry for ever
		return nil, errors.New("c19: get failed")
	}

	return c19RuleSet(key.Name, r.cur().ActiveIn), nil
}

func (r *c19Repo) PatchStatus(context.Context, v1alpha4.Patch, metav1.PatchOptions) (*v1alpha4.RuleSet, error) {
	r.patches++

	gr := schema.GroupResource{Group: "heimdall.dadrus.github.com", Resource: "rulesets"}

	switch r.cur().Patch {
	case "ok":
		return &v1alpha4.RuleSet{}, nil
	case "404":
		return nil, errors2.NewNotFound(gr, "rs")
	case "409":
		return nil, errors2.NewConflict(gr, "rs", errors.New("conflict"))
	case "422":
		return nil, &errors2.StatusError{ErrStatus: metav1.Status{Code: 422, Reason: metav1.StatusReasonInvalid}}
	case "500":
		return nil, errors2.NewInternalError(errors.New("boom"))
	case "403":
		return nil, fmt.Errorf("wrapped: %w", errors2.NewForbidden(gr, "rs", errors.New("no")))
	case "timeout":
		return nil, context.DeadlineExceeded
	}

	return nil, errors.New("dial tcp 10.0.0.1:443: connect: connection refused")
}

type c19Client struct{ r *c19Repo }

func (c c19Client) RuleSetRepository(string) v1alpha4.RuleSetRepository { return c.r }

func c19RuleSet(name, activeIn string) *v1alpha4.RuleSet {
	return &v1alpha4.RuleSet{
		ObjectMeta: metav1.ObjectMeta{Name: name, Namespace: "ns", UID: types.UID("uid-" + name), Generation: 1},
		Spec:       v1alpha4.RuleSetSpec{AuthClassName: "c19"},
		Status:     v1alpha4.RuleSetStatus{ActiveIn: activeIn},
	}
}

type c19K8sCase struct {
	Handler string   `json:"handler"` // add update delete delete-tombstone finalize
	ProcOK  bool     `json:"proc_ok"`
	Tries   []c19Try `json:"tries"`
}

func TestVerifC19K8s(t *testing.T) {
	defer c19gen.Watchdog(t, "k8s", 45*time.Second)()

	w := vf.NewWriter()
	defer w.Close()

	root := vf.NewRand(vf.Seed())
	actives := []string{"", "0/0", "1/1", "12/7", "3", "abc", "/", "1/", "/2", "1/2/3", "-1/x", " ", "1 / 2", "0", "//", strings.Repeat("9", 40) + "/1", "1\\2", "½"}
	patches := []string{"ok", "404", "409", "422", "500", "403", "refused", "timeout"}
	handlers := []string{"add", "update", "delete", "delete-tombstone", "finalize"}

	var cases []c19K8sCase

	// corpus: the witnesses of C19-F12 / C19-F13 and their neighbours
	cases = append(cases,
		c19K8sCase{Handler: "add", ProcOK: true, Tries: []c19Try{{ActiveIn: "3", Patch: "ok"}}},
		c19K8sCase{Handler: "add", ProcOK: true, Tries: []c19Try{{ActiveIn: "1/2", Patch: "refused"}}},
		c19K8sCase{Handler: "delete", ProcOK: true, Tries: []c19Try{{ActiveIn: "1/1", Patch: "409", GetOK: true}, {ActiveIn: "x", Patch: "ok"}}},
		c19K8sCase{Handler: "update", ProcOK: false, Tries: []c19Try{{ActiveIn: "1/1", Patch: "422", GetOK: true}, {ActiveIn: "2/1", Patch: "timeout"}}},
		c19K8sCase{Handler: "add", ProcOK: true, Tries: []c19Try{{ActiveIn: "", Patch: "ok"}}},
		c19K8sCase{Handler: "add", ProcOK: true, Tries: []c19Try{{ActiveIn: "1/1", Patch: "409", GetOK: false}}},
		c19K8sCase{Handler: "finalize", ProcOK: true, Tries: []c19Try{{ActiveIn: "1/1", Patch: "403"}}},
	)

	// every status string x every patch answer, one try
	for ai, a := range actives {
		for pi, p := range patches {
			cases = append(cases, c19K8sCase{Handler: handlers[(ai+pi)%len(handlers)], ProcOK: (ai+pi)%3 != 0, Tries: []c19Try{{ActiveIn: a, Patch: p, GetOK: pi%2 == 0}}})
		}
	}

	for i := 0; i < vf.N(60); i++ { // conflicts followed by further tries
		r := root.Fork(uint64(i))
		c := c19K8sCase{Handler: vf.Pick(r, handlers), ProcOK: r.Chance(70)}

		for k := r.Range(1, 3); k > 1; k-- {
			c.Tries = append(c.Tries, c19Try{ActiveIn: vf.Pick(r, actives[:4]), Patch: vf.Pick(r, []string{"409", "422"}), GetOK: r.Chance(85)})
		}

		c.Tries = append(c.Tries, c19Try{ActiveIn: vf.Pick(r, actives), Patch: vf.Pick(r, patches), GetOK: r.Bool()})
		cases = append(cases, c)
	}

	for i, c := range cases {
		if !vf.Want(i) {
			continue
		}

		repo := &c19Repo{tries: c.Tries}
		p := &provider{p: c19Proc{ok: c.ProcOK}, l: zerolog.Nop(), cl: c19Client{repo}, ac: "c19", id: "c19-instance", configured: true}
		rs := c19RuleSet("rs", c.Tries[0].ActiveIn)

		site, msg := c19gen.Catch(func() {
			switch c.Handler {
			case "add":
				if p.filter(rs) {
					p.addRuleSet(rs)
				}
			case "update":
				newRS := rs.DeepCopy()
				newRS.Generation = 2
				p.updateRuleSet(rs, newRS)
			case "delete":
				p.deleteRuleSet(rs)
			case "delete-tombstone": // a deletion noticed at a relist only
				tomb := cache.DeletedFinalStateUnknown{Key: "ns/rs", Obj: rs}
				if p.filter(tomb) {
					p.deleteRuleSet(tomb)
				}
			default:
				store := cache.NewStore(cache.MetaNamespaceKeyFunc)
				store.Add(rs) //nolint:errcheck
				p.store = store
				p.finalize(context.Background())
			}
		})

		// the tries as the model sees them: number of "/"-separated parts ("" is read as "0/0")
		items := make([]string, len(c.Tries))

		for k, tr := range c.Tries {
			a := tr.ActiveIn
			if a == "" {
				a = "0/0"
			}

			patch := "PatchOtherErr"

			switch tr.Patch {
			case "ok":
				patch = "PatchOk"
			case "404", "409", "422", "500", "403":
				patch = "(PatchStatusErr " + tr.Patch + "%Z)"
			}

			items[k] = vf.CoqApp("tr", fmt.Sprint(len(strings.Split(a, "/"))), patch, vf.CoqBool(tr.GetOK))
		}

		obs, out := fmt.Sprintf("(Ok %d)", repo.patches), fmt.Sprintf("ok patches=%d", repo.patches)
		if site != "" {
			obs, out = "(Panic "+site+")", "panic:"+site+" "+msg
		}

		w.Put(vf.Obs{
			I: i, Stream: "k8s", In: c, Out: out,
			Coq:        vf.CoqApp("k8c", vf.CoqList(items), obs),
			Nontrivial: site != "" || len(c.Tries) > 1 || c.Tries[0].Patch != "ok",
			Tags:       []string{"handler=" + c.Handler, "patch=" + c.Tries[len(c.Tries)-1].Patch, fmt.Sprintf("tries=%d", len(c.Tries)), "out=" + strings.SplitN(out, " ", 2)[0]},
		})
	}
}
