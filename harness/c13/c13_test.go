//go:build verif

// Package c13 is the C13 driver (overlay-only package internal/zzverif/c13).
//
// Property: all three entry points decide alike and show the pipeline the same
// request view, and hand the same headers and cookies to the upstream side.
//
// Implementation side: the REAL assembled applications (assembly harness: fx
// wiring of cmd/serve, real configuration loader, mechanisms, rule factory,
// repository, rule executor) — the HTTP decision service and the proxy service
// through their real middleware chains (served in-process so that the scheme
// can be https), and the Envoy ext_authz gRPC service (its real grpc.Server with
// the interceptor chain) over a real loopback gRPC connection.  One generated *logical request* (method, scheme, host,
// path, query, header lines in any casing, cookies, body) is sent to all
// three; the generated rule sets use real `cel` authorizers, step `if`
// conditions, `header` and `cookie` finalizers whose templates and CEL
// expressions read captures, headers, cookies, body and URL parts.
//
// Observables per entry point: decision (allowed / HTTP status of the denial),
// matched rule, the request view as the pipeline sees it (answers to the
// rule's probe queries, echoed by a header finalizer), and the hand-over to the
// upstream side (pipeline headers and cookies: response headers + Set-Cookie
// for decision, OkResponse header options for Envoy, the request the echo
// upstream received for proxy).
package c13

import (
	"context"
	"encoding/base64"
	"encoding/json"
	"fmt"
	"io"
	"net/http"
	"net/http/httptest"
	"runtime"
	"sort"
	"strconv"
	"strings"
	"testing"

	envoy_core "github.com/envoyproxy/go-control-plane/envoy/config/core/v3"
	envoy_auth "github.com/envoyproxy/go-control-plane/envoy/service/auth/v3"
	"google.golang.org/grpc/metadata"

	"github.com/dadrus/heimdall/internal/rules/mechanisms/contenttype"
	"github.com/dadrus/heimdall/internal/zzverif/assembly"
	"github.com/dadrus/heimdall/internal/zzverif/vf"
)

// ---------------------------------------------------------------- queries, conditions, templates

// c13Q is one read of the request view.
type c13Q struct {
	K string `json:"k"` // method scheme host path rawpath query url cap caps hdr hdrs cookie body ips
	N string `json:"n,omitempty"`
}

func (q c13Q) tmpl() string {
	switch q.K {
	case "method":
		return ".Request.Method"
	case "scheme":
		return ".Request.URL.Scheme"
	case "host":
		return ".Request.URL.Host"
	case "path":
		return ".Request.URL.Path"
	case "rawpath":
		return ".Request.URL.RawPath"
	case "query":
		return ".Request.URL.RawQuery"
	case "url":
		return ".Request.URL.String"
	case "cap":
		return ".Request.URL.Captures." + q.N
	case "caps":
		return ".Request.URL.Captures"
	case "hdr":
		return `.Request.Header "` + q.N + `"`
	case "hdrs":
		return ".Request.Headers"
	case "cookie":
		return `.Request.Cookie "` + q.N + `"`
	case "body":
		return ".Request.Body"
	case "ips":
		return ".Request.ClientIPAddresses"
	}

	panic("c13: unknown query " + q.K)
}

func (q c13Q) cel() string {
	switch q.K {
	case "method":
		return "Request.Method"
	case "scheme":
		return "Request.URL.Scheme"
	case "host":
		return "Request.URL.Host"
	case "path":
		return "Request.URL.Path"
	case "rawpath":
		return "Request.URL.RawPath"
	case "query":
		return "Request.URL.RawQuery"
	case "url":
		return "Request.URL.String()"
	case "cap":
		return "Request.URL.Captures." + q.N
	case "hdr":
		return `Request.Header("` + q.N + `")`
	case "cookie":
		return `Request.Cookie("` + q.N + `")`
	}

	panic("c13: query not usable in CEL: " + q.K)
}

func (q c13Q) coq() string {
	switch q.K {
	case "method":
		return "QMethod"
	case "scheme":
		return "QScheme"
	case "host":
		return "QHost"
	case "path":
		return "QPath"
	case "rawpath":
		return "QRawPath"
	case "query":
		return "QQuery"
	case "url":
		return "QUrl"
	case "cap":
		return "(QCapture " + vf.CoqStr(q.N) + ")"
	case "caps":
		return "QCaptures"
	case "hdr":
		return "(QHeader " + vf.CoqStr(q.N) + ")"
	case "hdrs":
		return "QHeaders"
	case "cookie":
		return "(QCookie " + vf.CoqStr(q.N) + ")"
	case "body":
		return "QBody"
	case "ips":
		return "QIps"
	}

	panic("c13: unknown query " + q.K)
}

// c13Cond is the CEL expression `<query> == "<C>"`.
type c13Cond struct {
	Q c13Q   `json:"q"`
	C string `json:"c"`
}

func (c c13Cond) cel() string { return c.Q.cel() + ` == "` + c.C + `"` }
func (c c13Cond) coq() string { return vf.CoqApp("cnd", c.Q.coq(), vf.CoqStr(c.C)) }

func coqOptCond(c *c13Cond) string {
	if c == nil {
		return "None"
	}

	return "(Some " + c.coq() + ")"
}

// c13Item is one header / cookie of a finalizer step: a constant or the echo of one string-valued query.
type c13Item struct {
	Name  string `json:"name"`
	Const string `json:"const,omitempty"`
	Echo  *c13Q  `json:"echo,omitempty"`
}

func (it c13Item) tmpl() string {
	if it.Echo != nil {
		return "{{ " + it.Echo.tmpl() + " }}"
	}

	return it.Const
}

func (it c13Item) coq() string {
	t := "(TConst " + vf.CoqStr(it.Const) + ")"
	if it.Echo != nil {
		t = "(TEcho " + it.Echo.coq() + ")"
	}

	return vf.CoqPair(vf.CoqStr(it.Name), t)
}

type c13Step struct {
	If     *c13Cond  `json:"if,omitempty"`
	Cookie bool      `json:"cookie,omitempty"`
	Items  []c13Item `json:"items"`
}

func (s c13Step) coq() string {
	return vf.CoqApp("stp", coqOptCond(s.If), vf.CoqBool(s.Cookie), vf.CoqListOf(s.Items, c13Item.coq))
}

// ---------------------------------------------------------------- rules

type c13Rule struct {
	ID       string     `json:"id"`
	Path     string     `json:"path"`     // path expression
	Segs     []string   `json:"-"`        // pattern segments after /<id>: "lit:<s>", ":name", "*name", "**"
	Slashes  string     `json:"slashes"`  // "", off, on, no_decode
	Methods  []string   `json:"methods,omitempty"`
	Scheme   string     `json:"scheme,omitempty"`   // route condition on the scheme
	HostIs   string     `json:"host_is,omitempty"`  // route condition: hosts [{type: exact}]
	Redirect *c13Item   `json:"redirect,omitempty"` // on_error: redirect error handler, `to` = Const followed by the echo
	Authz    *c13Cond   `json:"authz,omitempty"`
	Steps    []c13Step  `json:"steps"`
	Probes   []c13Q     `json:"probes"`
	CapNames []string   `json:"-"`
}

// the conditions of the rule's pipeline (cel authorizer, step-level `if`)
func (r c13Rule) conds() []c13Cond {
	out := []c13Cond{}
	if r.Authz != nil {
		out = append(out, *r.Authz)
	}

	for _, st := range r.Steps {
		if st.If != nil {
			out = append(out, *st.If)
		}
	}

	return out
}

func yamlSingle(s string) string { return "'" + strings.ReplaceAll(s, "'", "''") + "'" }

func (r c13Rule) probeTemplate() string {
	var sb strings.Builder

	sb.WriteString("{{ dict")

	for i, q := range r.Probes {
		sb.WriteString(fmt.Sprintf(` "p%d" (%s)`, i, q.tmpl()))
	}

	sb.WriteString(" | toJson | b64enc }}")

	return sb.String()
}

func c13RulesYAML(rules []c13Rule, upstreamHost string) string {
	var sb strings.Builder

	sb.WriteString("version: \"1alpha4\"\nname: c13\nrules:\n")

	for _, r := range rules {
		sb.WriteString("  - id: " + r.ID + "\n")

		if r.Slashes != "" {
			sb.WriteString("    allow_encoded_slashes: " + yamlSingle(r.Slashes) + "\n")
		}

		sb.WriteString("    match:\n      routes:\n        - path: " + yamlSingle(r.Path) + "\n")

		if len(r.Methods) > 0 {
			sb.WriteString("      methods: [" + strings.Join(r.Methods, ", ") + "]\n")
		}

		if r.Scheme != "" {
			sb.WriteString("      scheme: " + r.Scheme + "\n")
		}

		if r.HostIs != "" {
			sb.WriteString("      hosts:\n        - type: exact\n          value: " + yamlSingle(r.HostIs) + "\n")
		}

		sb.WriteString("    forward_to:\n      host: " + upstreamHost + "\n      rewrite:\n        scheme: http\n")
		sb.WriteString("    execute:\n      - authenticator: anon\n")

		if r.Authz != nil {
			sb.WriteString("      - authorizer: cel\n        config:\n          expressions:\n            - expression: " +
				yamlSingle(r.Authz.cel()) + "\n")
		}

		sb.WriteString("      - finalizer: hdr\n        config:\n          headers:\n            X-V-Rule: " + r.ID + "\n")
		sb.WriteString("            X-V: " + yamlSingle(r.probeTemplate()) + "\n")

		for _, st := range r.Steps {
			if st.Cookie {
				sb.WriteString("      - finalizer: ck\n")
			} else {
				sb.WriteString("      - finalizer: hdr\n")
			}

			if st.If != nil {
				sb.WriteString("        if: " + yamlSingle(st.If.cel()) + "\n")
			}

			if st.Cookie {
				sb.WriteString("        config:\n          cookies:\n")
			} else {
				sb.WriteString("        config:\n          headers:\n")
			}

			for _, it := range st.Items {
				sb.WriteString("            " + yamlSingle(it.Name) + ": " + yamlSingle(it.tmpl()) + "\n")
			}
		}

		if r.Redirect != nil {
			sb.WriteString("    on_error:\n      - error_handler: " + r.Redirect.Name + "\n")
		}
	}

	return sb.String()
}

// the redirect error handlers of the catalogue (a redirect handler cannot be reconfigured by a rule):
// `to` = a constant followed by the echo of one read of the view
var c13Redirects = []c13Item{
	{Name: "redir0", Const: "http://login.example.com/"},
	{Name: "redir1", Const: "http://login.example.com/?o=", Echo: &c13Q{K: "path"}},
	{Name: "redir2", Const: "http://login.example.com/?o=", Echo: &c13Q{K: "url"}},
	{Name: "redir3", Const: "http://login.example.com/?r=", Echo: &c13Q{K: "hdr", N: "x-role"}},
	{Name: "redir4", Const: "http://login.example.com/?s=", Echo: &c13Q{K: "cookie", N: "sid"}},
	{Name: "redir5", Const: "http://login.example.com/?h=", Echo: &c13Q{K: "hdr", N: "Host"}},
	{Name: "redir6", Const: "http://login.example.com/?n=", Echo: &c13Q{K: "cap", N: "name"}},
	{Name: "redir7", Const: "http://login.example.com/?q=", Echo: &c13Q{K: "query"}},
}

func c13RedirectHandlers() string {
	var sb strings.Builder

	sb.WriteString("  error_handlers:\n")

	for _, rd := range c13Redirects {
		sb.WriteString("    - id: " + rd.Name + "\n      type: redirect\n      config:\n        to: " + yamlSingle(rd.redirectTo()) +
			"\n        code: 302\n")
	}

	return sb.String()
}

func (r c13Rule) redirectCoq() string {
	if r.Redirect == nil {
		return "None"
	}

	echo := "None"
	if r.Redirect.Echo != nil {
		echo = "(Some " + r.Redirect.Echo.coq() + ")"
	}

	return "(Some " + vf.CoqPair(vf.CoqStr(r.Redirect.Const), echo) + ")"
}

func (it c13Item) redirectTo() string {
	if it.Echo != nil {
		return it.Const + "{{ " + it.Echo.tmpl() + " }}"
	}

	return it.Const
}

var c13Config = `
serve:
  decision:
    timeout:
      read: 5s
  proxy:
    timeout:
      read: 5s
mechanisms:
  authenticators:
    - id: anon
      type: anonymous
  authorizers:
    - id: cel
      type: cel
      config:
        expressions:
          - expression: "true"
  finalizers:
    - id: hdr
      type: header
      config:
        headers:
          X-V-Rule: none
    - id: ck
      type: cookie
      config:
        cookies:
          none: none
` + c13RedirectHandlers()

// ---------------------------------------------------------------- pools

var (
	c13Methods = []string{"GET", "POST", "PUT", "DELETE", "GET", "POST", "PATCH", "get"}
	c13Hosts   = []string{"a.example.com", "b.example.com:8443", "heimdall.local", "10.1.1.1:80", "A.Example.COM", "Heimdall.Local:8080"}
	c13Peers   = []string{"10.0.0.1", "192.168.7.7", "172.16.0.9"}
	c13Queries = []string{"", "", "x=1", "b=2&a=1", "q=a%20b", "a=1;b=2", "empty="}

	// path segments: plain and percent-encoded in all the ways that matter
	c13Segs = []string{
		"abc", "abc", "x.y", "a-b_c~d", "a+b", "a%20b", "%41bc", "a%2Fb", "a%2fb", "a%25b", "%5Bid%5D", "[id]", "a%2Fb%20c",
		"a%3Fb", "a:b", "a,b;c", "%C3%A4", "admin", "1",
		// segments an entry point might normalise on its own: dot segments, hidden files, both spellings of
		// the encoded slash next to each other, the text the capture decoding once used as a place-holder
		".", "..", ".hidden", "a..b", "a%2F%2fb", "a$$$escaped-slash$$$b%20c", "%2e%2E",
	}

	c13HdrNames = []string{"X-Role", "X-Tenant", "Accept", "X_under", "Authorization", "X-Trace-Id"}
	c13HdrVals  = []string{"admin", "user", "a,b", "v 1", "Bearer abc.def", "text/html", "1", "x=y; z"}

	c13CookieNames = []string{"sid", "q", "theme", "lang"}
	// what requests carry and rules read: the same names also in other casings (cookie names are case-sensitive)
	c13CookieNamesCased = []string{"sid", "q", "theme", "lang", "sid", "q", "SID", "Sid", "Theme", "LANG"}
	c13CookieVals  = []string{"123", "abc", `"quoted"`, "a b", "a,b", "a=b", "", "x", "0", `a"b`, `"`, "caf\xc3\xa9"}

	c13ContentTypes = []string{
		"application/json", "application/x-www-form-urlencoded", "application/yaml", "text/plain",
		"application/json; charset=utf-8", "application/unknown",
	}
	c13Bodies = []string{
		`{"user":"u1","n":[1,2]}`, `{"a":{"b":"<c>"}}`, "k=v&k=w&z=1", "a: 1\nb: x\n", "hello", "", "", "null", "{bad", `"str"`, "[1,2]",
	}

	c13CapValues  = []string{"abc", "admin", "a b", "A", "a/b", "x.y", "1"}
	c13ConstVals  = []string{"admin", "abc", "GET", "https", "a.example.com", "123", "x", ""}
	c13PipeHdrs   = []string{"X-User", "X-Out", "x-lower", "X-Pipe-Role"} // disjoint from the request header names
	c13PipeCooks  = []string{"pc1", "pc2", "session", "pc1", "pc2", "session", "bad name"} // the last one: a name http.SetCookie rejects
	c13PipeConsts = []string{"one", "two", "v 1", "a,b", `q"t`, "x;y", "plain", "caf\xc3\xa9"} // never empty: an empty template is a nil template (panic, C19)
)

func c13Casing(r *vf.Rand, name string) string {
	switch r.Intn(4) {
	case 0:
		return strings.ToLower(name)
	case 1:
		return strings.ToUpper(name)
	}

	return name
}

// ---------------------------------------------------------------- rule generation

// a string-valued query usable in CEL and in an echo template
func c13GenStrQuery(r *vf.Rand, capNames []string) c13Q {
	switch k := r.Intn(20); {
	case k < 4:
		return c13Q{K: "hdr", N: c13Casing(r, vf.Pick(r, append([]string{"Host", "Content-Type"}, c13HdrNames...)))}
	case k < 7:
		return c13Q{K: "cookie", N: vf.Pick(r, c13CookieNamesCased)}
	case k < 11:
		if len(capNames) > 0 && r.Chance(85) {
			return c13Q{K: "cap", N: vf.Pick(r, capNames)}
		}

		return c13Q{K: "cap", N: "nope"}
	case k < 13:
		return c13Q{K: "path"}
	case k < 14:
		return c13Q{K: "rawpath"}
	case k < 15:
		return c13Q{K: "url"}
	case k < 16:
		return c13Q{K: "method"}
	case k < 17:
		return c13Q{K: "scheme"}
	case k < 18:
		return c13Q{K: "host"}
	default:
		return c13Q{K: "query"}
	}
}

func c13GenCond(r *vf.Rand, capNames []string) *c13Cond {
	q := c13GenStrQuery(r, capNames)
	c := vf.Pick(r, c13ConstVals)

	switch q.K { // aim the constant so that the condition is often true
	case "cap":
		c = vf.Pick(r, c13CapValues)
	case "hdr":
		c = vf.Pick(r, c13HdrVals)
		if http.CanonicalHeaderKey(q.N) == "Host" {
			c = vf.Pick(r, c13Hosts)
		}
	case "cookie":
		c = strings.Trim(vf.Pick(r, c13CookieVals), `"`)
	case "method":
		c = vf.Pick(r, c13Methods)
	case "scheme":
		c = vf.Pick(r, []string{"http", "https"})
	case "host":
		c = vf.Pick(r, c13Hosts)
	case "query":
		c = vf.Pick(r, c13Queries)
	}

	if strings.ContainsAny(c, "\"\\") || !isPrintable(c) {
		c = "x"
	}

	return &c13Cond{Q: q, C: c}
}

func isHost(s string) bool {
	for _, h := range c13Hosts {
		if h == s {
			return true
		}
	}

	return false
}

func isPrintable(s string) bool {
	for i := 0; i < len(s); i++ {
		if s[i] < 0x20 || s[i] > 0x7e {
			return false
		}
	}

	return true
}

func c13GenRule(r *vf.Rand, k int) c13Rule {
	rl := c13Rule{ID: fmt.Sprintf("r%d", k)}
	path := "/" + rl.ID

	switch r.Intn(7) {
	case 0:
		rl.Segs = []string{"lit:lit"}
	case 1, 2:
		rl.Segs = []string{":name"}
	case 3:
		rl.Segs = []string{":a", "lit:x", ":b"}
	case 4:
		rl.Segs = []string{"**"}
	case 5:
		rl.Segs = []string{"*rest"}
	default:
		rl.Segs = []string{"lit:v1", ":name"}
	}

	for _, s := range rl.Segs {
		switch {
		case strings.HasPrefix(s, "lit:"):
			path += "/" + s[4:]
		case s == "**": // the free wildcard without a name captures nothing (radixtree: key "*" is dropped)
			path += "/**"
		default:
			path += "/" + s
			rl.CapNames = append(rl.CapNames, s[1:])
		}
	}

	rl.Path = path
	rl.Slashes = vf.Pick(r, []string{"", "", "off", "on", "on", "no_decode"})

	if r.Chance(25) {
		rl.Methods = []string{"GET", "POST"}
	}

	// route conditions on what every candidate route reads of the view during lookup
	if r.Chance(15) {
		rl.Scheme = vf.Pick(r, []string{"http", "https"})
	}

	if r.Chance(15) {
		rl.HostIs = vf.Pick(r, c13Hosts)
	}

	named := []string{}
	for _, n := range rl.CapNames {
		if n != "*" {
			named = append(named, n)
		}
	}

	if r.Chance(45) {
		rl.Authz = c13GenCond(r, named)
	}

	// error pipeline: a redirect whose target echoes a read of the view
	if rl.Authz != nil && r.Chance(45) {
		rd := vf.Pick(r, c13Redirects)
		rl.Redirect = &rd
	}

	// finalizer steps: 0..3; header names may repeat across steps (multi-valued pipeline headers)
	ns := r.Intn(4)
	for i := 0; i < ns; i++ {
		st := c13Step{Cookie: r.Chance(35)}
		if r.Chance(30) {
			st.If = c13GenCond(r, named)
		}

		pool := c13PipeHdrs
		if st.Cookie {
			pool = c13PipeCooks
		}

		used := map[string]bool{}
		ni := r.Range(1, 2)

		for j := 0; j < ni; j++ {
			name := vf.Pick(r, pool)
			if used[http.CanonicalHeaderKey(name)] {
				continue
			}

			used[http.CanonicalHeaderKey(name)] = true

			it := c13Item{Name: name}
			if r.Chance(55) {
				q := c13GenStrQuery(r, named)
				it.Echo = &q
			} else {
				it.Const = vf.Pick(r, c13PipeConsts)
			}

			st.Items = append(st.Items, it)
		}

		rl.Steps = append(rl.Steps, st)
	}

	// probes: what the rule's echo template reads of the view
	np := r.Range(3, 7)
	for i := 0; i < np; i++ {
		switch k := r.Intn(12); {
		case k == 0:
			rl.Probes = append(rl.Probes, c13Q{K: "caps"})
		case k == 1:
			rl.Probes = append(rl.Probes, c13Q{K: "hdrs"})
		case k == 2 || k == 3:
			rl.Probes = append(rl.Probes, c13Q{K: "body"})
		case k == 4:
			rl.Probes = append(rl.Probes, c13Q{K: "ips"})
		default:
			rl.Probes = append(rl.Probes, c13GenStrQuery(r, named))
		}
	}

	return rl
}

// ---------------------------------------------------------------- requests

type c13Hdr struct {
	N string `json:"n"`
	V string `json:"v"`
}

type c13Req struct {
	Method  string   `json:"method"`
	TLS     bool     `json:"tls,omitempty"`
	Host    string   `json:"host"`
	Path    string   `json:"path"`
	Query   string   `json:"query,omitempty"`
	Headers []c13Hdr `json:"headers"`
	Body    string   `json:"body,omitempty"`
	Peer    string   `json:"peer"`
	Chunked bool     `json:"chunked,omitempty"` // HTTP entry points only: the body is streamed (Transfer-Encoding: chunked, no Content-Length)
	QPath   bool     `json:"qpath,omitempty"` // Envoy only: the documented shape of the CheckRequest: path = request target INCLUDING the query, query empty
	Pack    string   `json:"pack,omitempty"` // Envoy only: body in the string field ("body", Envoy's default), in raw_body ("raw", ""), in both ("both")
}

type c13Case struct {
	Rule *c13Rule    `json:"rule,omitempty"` // the rule the request is aimed at
	Hit  bool        `json:"hit"`            // the rule is expected to match (path and method constraint)
	Caps [][2]string `json:"caps,omitempty"` // raw captured values by construction
	Req  c13Req      `json:"req"`
}

func c13GenReq(r *vf.Rand, rules []c13Rule) c13Case {
	c := c13Case{}
	q := c13Req{Method: vf.Pick(r, c13Methods), TLS: r.Chance(35), Host: vf.Pick(r, c13Hosts), Peer: vf.Pick(r, c13Peers)}
	q.Query = vf.Pick(r, c13Queries)
	q.Pack = vf.Pick(r, []string{"raw", "raw", "body", "body", "both"})
	q.QPath = r.Chance(50)

	if r.Chance(93) {
		rl := rules[r.Intn(len(rules))]
		c.Rule = &rl
		c.Hit = true
		path := "/" + rl.ID

		for _, s := range rl.Segs {
			switch {
			case strings.HasPrefix(s, "lit:"):
				path += "/" + s[4:]
			case s == "**" || s[0] == '*':
				n := r.Range(1, 3)
				parts := make([]string, n)

				for i := range parts {
					parts[i] = vf.Pick(r, c13Segs)
				}

				if n == 3 && r.Chance(25) {
					parts[1] = "" // "//" inside the path
				}

				rest := strings.Join(parts, "/")
				path += "/" + rest

				if s != "**" {
					c.Caps = append(c.Caps, [2]string{s[1:], rest})
				}
			default:
				v := vf.Pick(r, c13Segs)
				if r.Chance(30) {
					v = vf.Pick(r, c13CapValues[:2])
				}

				// aim at a condition of the rule on this capture
				for _, cd := range rl.conds() {
					if cd.Q.K == "cap" && cd.Q.N == s[1:] && cd.C != "" && r.Chance(65) {
						v = strings.ReplaceAll(strings.ReplaceAll(cd.C, " ", "%20"), "/", "%2F")
					}
				}

				path += "/" + v
				c.Caps = append(c.Caps, [2]string{s[1:], v})
			}
		}

		q.Path = path

		if len(rl.Methods) > 0 && !c13In(rl.Methods, q.Method) && r.Chance(70) {
			q.Method = vf.Pick(r, rl.Methods) // otherwise the method constraint is violated on purpose
		}

		if rl.Scheme != "" && r.Chance(70) {
			q.TLS = rl.Scheme == "https"
		}

		if rl.HostIs != "" && r.Chance(70) {
			q.Host = rl.HostIs
		}

		if r.Chance(4) { // one segment too few: no rule
			q.Path = "/" + rl.ID
			c.Hit = false
		}
	} else {
		q.Path = "/none/" + vf.Pick(r, c13Segs)
	}

	// headers
	nh := r.Intn(4)
	for i := 0; i < nh; i++ {
		name := vf.Pick(r, c13HdrNames)
		reps := 1

		if r.Chance(20) {
			reps = 2
		}

		for k := 0; k < reps; k++ {
			q.Headers = append(q.Headers, c13Hdr{c13Casing(r, name), vf.Pick(r, c13HdrVals)})
		}
	}

	// at most one Cookie line
	if r.Chance(55) {
		nc := r.Range(1, 3)
		parts := []string{}

		for i := 0; i < nc; i++ {
			parts = append(parts, vf.Pick(r, c13CookieNamesCased)+"="+vf.Pick(r, c13CookieVals))
		}

		sep := "; "
		if r.Chance(12) {
			sep = vf.Pick(r, []string{";", " ; ", ";  "})
		}

		line := strings.Join(parts, sep)
		if r.Chance(6) {
			line = vf.Pick(r, []string{"sid", "sid = 1", "bad name=3; sid=2", "sid=1;;q=2", ";sid=1", "sid=\t1"}) // odd shapes
		}

		q.Headers = append(q.Headers, c13Hdr{c13Casing(r, "Cookie"), line})
	}

	// body
	if r.Chance(50) {
		ct := vf.Pick(r, c13ContentTypes)
		q.Headers = append(q.Headers, c13Hdr{c13Casing(r, "Content-Type"), ct})

		switch {
		case strings.HasPrefix(ct, "application/json") && r.Chance(70):
			q.Body = vf.Pick(r, c13Bodies[:2])
		case strings.Contains(ct, "form") && r.Chance(70):
			q.Body = c13Bodies[2]
		case strings.Contains(ct, "yaml") && r.Chance(70):
			q.Body = c13Bodies[3]
		default:
			q.Body = vf.Pick(r, c13Bodies)
		}

		if q.Body != "" {
			if q.Method == "GET" {
				q.Method = "POST"
			}

			if r.Chance(40) {
				q.Chunked = true // streamed: no Content-Length
			} else {
				q.Headers = append(q.Headers, c13Hdr{"Content-Length", strconv.Itoa(len(q.Body))})
			}
		}
	}

	// the client sends headers / cookies under names the pipeline of the rule sets, too (any casing for
	// headers): the pipeline's value must replace the client's at all three entry points
	if c.Rule != nil {
		hn, cn := c.Rule.pipeNames()

		if len(hn) > 0 && r.Chance(35) {
			name := vf.Pick(r, assembly.SortedKeys(hn))
			q.Headers = append(q.Headers, c13Hdr{c13Casing(r, name), "client-1"})

			if r.Chance(30) {
				q.Headers = append(q.Headers, c13Hdr{c13Casing(r, name), "client-2"})
			}
		}

		if len(cn) > 0 && r.Chance(30) {
			pair := vf.Pick(r, assembly.SortedKeys(cn)) + "=client1"
			found := false

			for i, h := range q.Headers {
				if strings.EqualFold(h.N, "cookie") {
					q.Headers[i].V = h.V + "; " + pair
					found = true
				}
			}

			if !found {
				q.Headers = append(q.Headers, c13Hdr{c13Casing(r, "Cookie"), pair})
			}
		}
	}

	// aim the request at the conditions of the rule, so that pipelines run to their end often
	if c.Rule != nil {
		for _, cd := range c.Rule.conds() {
			if !r.Chance(60) {
				continue
			}

			switch cd.Q.K {
			case "method":
				if q.Body == "" || cd.C != "GET" {
					q.Method = cd.C
				}
			case "scheme":
				if c.Rule.Scheme == "" {
					q.TLS = cd.C == "https"
				}
			case "host":
				if isHost(cd.C) && c.Rule.HostIs == "" {
					q.Host = cd.C
				}
			case "query":
				q.Query = cd.C
			case "hdr":
				cn := http.CanonicalHeaderKey(cd.Q.N)
				if cn == "Host" && isHost(cd.C) && c.Rule.HostIs == "" {
					q.Host = cd.C
				} else if cn != "Host" && cn != "Content-Type" && cn != "Cookie" && cn != "Content-Length" && cd.C != "" {
					kept := q.Headers[:0:0]
					for _, h := range q.Headers {
						if http.CanonicalHeaderKey(h.N) != cn {
							kept = append(kept, h)
						}
					}

					q.Headers = append(kept, c13Hdr{c13Casing(r, cn), cd.C})
				}
			case "cookie":
				if cd.C != "" && !strings.ContainsAny(cd.C, " ,;\"=") {
					kept := q.Headers[:0:0]
					for _, h := range q.Headers {
						if !strings.EqualFold(h.N, "cookie") {
							kept = append(kept, h)
						}
					}

					line := cd.Q.N + "=" + cd.C
					if r.Chance(50) {
						line = vf.Pick(r, c13CookieNames[2:]) + "=x; " + line
					}

					q.Headers = append(kept, c13Hdr{c13Casing(r, "Cookie"), line})
				}
			}
		}
	}

	for i := len(q.Headers) - 1; i > 0; i-- {
		j := r.Intn(i + 1)
		q.Headers[i], q.Headers[j] = q.Headers[j], q.Headers[i]
	}

	c.Req = q

	// the rule matches when the path was built from its pattern and the final method satisfies its constraint
	if c.Rule != nil && c.Hit && len(c.Rule.Methods) > 0 && !c13In(c.Rule.Methods, q.Method) {
		c.Hit = false
	}

	if c.Rule != nil && c.Hit && c.Rule.Scheme != "" && (c.Rule.Scheme == "https") != q.TLS {
		c.Hit = false
	}

	if c.Rule != nil && c.Hit && c.Rule.HostIs != "" && c.Rule.HostIs != q.Host {
		c.Hit = false
	}

	if !c.Hit {
		c.Caps = nil
	}

	return c
}

func c13In(xs []string, x string) bool {
	for _, y := range xs {
		if y == x {
			return true
		}
	}

	return false
}

func (q c13Req) raw() string {
	var sb strings.Builder

	target := q.Path
	if q.Query != "" {
		target += "?" + q.Query
	}

	sb.WriteString(q.Method + " " + target + " HTTP/1.1\r\nHost: " + q.Host + "\r\n")

	for _, h := range q.Headers {
		sb.WriteString(h.N + ": " + h.V + "\r\n")
	}

	// conveyance of the body on the HTTP side: sized (the header list carries Content-Length) or streamed in
	// chunks of at most 7 bytes (the header list carries no Content-Length; net/http removes Transfer-Encoding
	// from the header map, so the logical header list is the same for all entry points)
	if q.Chunked && q.Body != "" {
		sb.WriteString("Transfer-Encoding: chunked\r\n\r\n")

		for rest := q.Body; rest != ""; {
			n := min(len(rest), 7)
			sb.WriteString(fmt.Sprintf("%x\r\n%s\r\n", n, rest[:n]))
			rest = rest[n:]
		}

		sb.WriteString("0\r\n\r\n")

		return sb.String()
	}

	sb.WriteString("\r\n" + q.Body)

	return sb.String()
}

// mk_envoy: the CheckRequest as heimdall's own gRPC tests build it (path and query in separate fields),
// header names lower-cased, repeated headers joined with "," (cookie: "; ")
func (q c13Req) envoy() *envoy_auth.CheckRequest {
	hdrs := map[string]string{}

	for _, h := range q.Headers {
		k := strings.ToLower(h.N)
		if old, ok := hdrs[k]; ok {
			sep := ","
			if k == "cookie" {
				sep = "; "
			}

			hdrs[k] = old + sep + h.V
		} else {
			hdrs[k] = h.V
		}
	}

	scheme := "http"
	if q.TLS {
		scheme = "https"
	}

	// AttributeContext.HttpRequest as documented: "path ... includes the URL path and query-string", "query
	// ... is always empty"; heimdall's own gRPC tests fill the two fields separately
	path, query := q.Path, q.Query
	if q.QPath {
		query = ""

		if q.Query != "" {
			path += "?" + q.Query
		}
	}

	// with_request_body.pack_as_bytes of the deployment's Envoy: false (default) = string field, true = raw_body
	body, raw := "", []byte(nil)
	if q.Pack == "body" || q.Pack == "both" {
		body = q.Body
	}

	if q.Pack != "body" && q.Body != "" {
		raw = []byte(q.Body)
	}

	return &envoy_auth.CheckRequest{
		Attributes: &envoy_auth.AttributeContext{
			Request: &envoy_auth.AttributeContext_Request{
				Http: &envoy_auth.AttributeContext_HttpRequest{
					Method: q.Method, Scheme: scheme, Host: q.Host, Path: path, Query: query,
					Headers: hdrs, Body: body, RawBody: raw,
				},
			},
		},
	}
}

// ---------------------------------------------------------------- observation

type c13Val struct {
	K string      `json:"k"` // s n m l j
	S string      `json:"s,omitempty"`
	M [][2]string `json:"m,omitempty"`
	L []string    `json:"l,omitempty"`
}

func (v c13Val) coq() string {
	switch v.K {
	case "s":
		return "(VStr " + vf.CoqStr(v.S) + ")"
	case "n":
		return "VNone"
	case "m":
		return "(VMap " + coqPairs(v.M) + ")"
	case "l":
		return "(VList " + vf.CoqStrs(v.L) + ")"
	case "j":
		return "(VJson " + vf.CoqStr(v.S) + ")"
	}

	return "(VStr " + vf.CoqStr("?"+v.K) + ")"
}

func coqPairs(ps [][2]string) string {
	return vf.CoqListOf(ps, func(p [2]string) string { return vf.CoqPair(vf.CoqStr(p[0]), vf.CoqStr(p[1])) })
}

type c13HO struct {
	Headers [][2]string `json:"headers"`
	Cookies [][2]string `json:"cookies"`
}

func (h *c13HO) coq() string {
	if h == nil {
		return "None"
	}

	return "(Some " + vf.CoqApp("hov", coqPairs(h.Headers), coqPairs(h.Cookies)) + ")"
}

type c13EObs struct {
	Status int      `json:"status"` // 0 = allowed, otherwise the HTTP status of the denial
	Rule   string   `json:"rule,omitempty"`
	View   []c13Val `json:"view,omitempty"`
	HO     *c13HO   `json:"ho,omitempty"`
	Err    string   `json:"err,omitempty"`
	Loc    string   `json:"location,omitempty"` // Location of a denial
}

func (o c13EObs) coq() string {
	view := "None"
	if o.View != nil {
		view = "(Some " + vf.CoqListOf(o.View, c13Val.coq) + ")"
	}

	return vf.CoqApp("eob", vf.CoqZ(int64(o.Status)), vf.CoqStr(o.Rule), view, o.HO.coq(), vf.CoqBool(o.Err == ""), vf.CoqStr(o.Loc))
}

func sortPairs(ps [][2]string) [][2]string {
	sort.SliceStable(ps, func(i, j int) bool { return ps[i][0] < ps[j][0] })

	return ps
}

// the answers to the rule's probes from the echoed dict
func c13DecodeView(rl *c13Rule, enc string) ([]c13Val, error) {
	raw, err := base64.StdEncoding.DecodeString(enc)
	if err != nil {
		return nil, err
	}

	var d map[string]json.RawMessage
	if err = json.Unmarshal(raw, &d); err != nil {
		return nil, err
	}

	out := make([]c13Val, len(rl.Probes))

	for i, q := range rl.Probes {
		m, ok := d[fmt.Sprintf("p%d", i)]
		if !ok {
			return nil, fmt.Errorf("probe %d missing", i)
		}

		isNull := string(m) == "null"

		switch q.K {
		case "caps", "hdrs":
			mm := map[string]string{}
			if !isNull {
				if err = json.Unmarshal(m, &mm); err != nil {
					return nil, err
				}
			}

			v := c13Val{K: "m"}
			for k, x := range mm {
				v.M = append(v.M, [2]string{k, x})
			}

			sortPairs(v.M)
			out[i] = v
		case "ips":
			var l []string
			if !isNull {
				if err = json.Unmarshal(m, &l); err != nil {
					return nil, err
				}
			}

			out[i] = c13Val{K: "l", L: l}
		case "body":
			out[i] = c13Val{K: "j", S: string(m)}
		default:
			if isNull {
				out[i] = c13Val{K: "n"}
			} else {
				var s string
				if err = json.Unmarshal(m, &s); err != nil {
					return nil, err
				}

				out[i] = c13Val{K: "s", S: s}
			}
		}
	}

	return out, nil
}

// names of the headers / cookies the rule's pipeline can set (canonical header names)
func (r *c13Rule) pipeNames() (hdrs, cooks map[string]bool) {
	hdrs, cooks = map[string]bool{}, map[string]bool{}

	for _, st := range r.Steps {
		for _, it := range st.Items {
			if st.Cookie {
				cooks[it.Name] = true
			} else {
				hdrs[http.CanonicalHeaderKey(it.Name)] = true
			}
		}
	}

	return hdrs, cooks
}

// what is handed over is what is read off the wire: optional white space around a header value does
// not survive it (the decision service is served in-process, the Envoy value is what Envoy would put on
// the wire); several lines of one header count as their ","-join
func wireJoin(vs []string) string {
	out := make([]string, len(vs))
	for i, v := range vs {
		out[i] = strings.Trim(v, " \t")
	}

	return strings.Join(out, ",")
}

func cutPair(s string) [2]string {
	n, v, _ := strings.Cut(s, "=")

	return [2]string{n, v}
}

// the Cookie header grpcv3.Finalize writes is "k=v;k=v" with the values as they are (a value may itself
// contain ";"): cut it at the places where ";<known pipeline cookie name>=" starts
func splitEnvoyCookies(s string, names map[string]bool) [][2]string {
	starts := []int{}

	for i := 0; i < len(s); i++ {
		if i != 0 && s[i-1] != ';' {
			continue
		}

		for n := range names {
			if strings.HasPrefix(s[i:], n+"=") {
				starts = append(starts, i)

				break
			}
		}
	}

	if len(starts) == 0 || starts[0] != 0 {
		starts = append([]int{0}, starts...)
	}

	out := [][2]string{}

	for k, st := range starts {
		end := len(s)
		if k+1 < len(starts) {
			end = starts[k+1] - 1
		}

		if st <= end {
			out = append(out, cutPair(s[st:end]))
		}
	}

	return out
}

func statusOf(code int) int {
	if code >= 200 && code < 300 {
		return 0
	}

	return code
}

func c13ObserveDecision(app *assembly.HandlerApp, c c13Case) c13EObs {
	req, err := assembly.ParseRaw(c.Req.raw(), c.Req.Peer+":4711", c.Req.TLS)
	if err != nil {
		return c13EObs{Status: -1, Err: "parse: " + err.Error()}
	}

	rec := app.Serve(req)
	o := c13EObs{Status: statusOf(rec.Code)}

	if o.Status != 0 {
		o.Loc = rec.Header().Get("Location")

		return o
	}

	o.Rule = rec.Header().Get("X-V-Rule")

	var rl *c13Rule
	if c.Rule != nil && c.Rule.ID == o.Rule {
		rl = c.Rule
	}

	if rl == nil {
		o.Err = "allowed by an unexpected rule"

		return o
	}

	if o.View, err = c13DecodeView(rl, rec.Header().Get("X-V")); err != nil {
		o.Err = "view: " + err.Error()
	}

	hn, _ := rl.pipeNames()
	o.HO = &c13HO{Headers: [][2]string{}, Cookies: [][2]string{}}

	for k, vs := range rec.Header() {
		if hn[k] {
			o.HO.Headers = append(o.HO.Headers, [2]string{k, wireJoin(vs)})
		}
	}

	for _, sc := range rec.Header().Values("Set-Cookie") {
		o.HO.Cookies = append(o.HO.Cookies, cutPair(sc))
	}

	sortPairs(o.HO.Headers)
	sortPairs(o.HO.Cookies)

	return o
}

func c13ObserveProxy(app *assembly.HandlerApp, up *assembly.Upstream, c c13Case) c13EObs {
	req, err := assembly.ParseRaw(c.Req.raw(), c.Req.Peer+":4711", c.Req.TLS)
	if err != nil {
		return c13EObs{Status: -1, Err: "parse: " + err.Error()}
	}

	up.Take()

	rec := app.Serve(req)
	seen := up.Take()
	o := c13EObs{Status: statusOf(rec.Code)}

	if o.Status != 0 {
		o.Loc = rec.Header().Get("Location")

		if len(seen) != 0 {
			o.Err = "denied, but the upstream saw a request"
		}

		return o
	}

	if len(seen) != 1 {
		o.Err = fmt.Sprintf("allowed, upstream saw %d requests", len(seen))

		return o
	}

	o.Rule = seen[0].Get("X-V-Rule")

	var rl *c13Rule
	if c.Rule != nil && c.Rule.ID == o.Rule {
		rl = c.Rule
	}

	if rl == nil {
		o.Err = "allowed by an unexpected rule"

		return o
	}

	if o.View, err = c13DecodeView(rl, seen[0].Get("X-V")); err != nil {
		o.Err = "view: " + err.Error()
	}

	hn, cn := rl.pipeNames()
	o.HO = &c13HO{Headers: [][2]string{}, Cookies: [][2]string{}}

	// What the client sent itself under a name the pipeline can set, too (any casing).  A header that
	// arrives at the upstream exactly as the client sent it was passed through, not handed over by the
	// pipeline; everything else under such a name counts — so a pipeline value that is APPENDED to the
	// client's instead of replacing it shows up as "client,pipeline".
	sent := http.Header{}
	clientCookies := ""

	for _, h := range c.Req.Headers {
		if strings.EqualFold(h.N, "cookie") {
			clientCookies = h.V
		} else {
			sent.Add(h.N, strings.Trim(h.V, " \t"))
		}
	}

	for k, vs := range seen[0].Header {
		if hn[k] && !(len(sent[k]) > 0 && strings.Join(vs, "\x00") == strings.Join(sent[k], "\x00")) {
			o.HO.Headers = append(o.HO.Headers, [2]string{k, wireJoin(vs)})
		}
	}

	// http.Request.AddCookie appends "; name=value" to the client's Cookie line: what follows the client's
	// line is what the pipeline handed over (a client cookie of the same name is passed through in front)
	for _, line := range seen[0].Header["Cookie"] {
		rest := line

		if clientCookies != "" {
			if !strings.HasPrefix(line, clientCookies) {
				o.HO.Cookies = append(o.HO.Cookies, [2]string{"!client-cookies-changed", line})

				continue
			}

			rest = strings.TrimPrefix(strings.TrimPrefix(line, clientCookies), "; ")
		}

		if rest == "" {
			continue
		}

		for _, part := range strings.Split(rest, "; ") {
			p := cutPair(part)
			if cn[p[0]] {
				o.HO.Cookies = append(o.HO.Cookies, p)
			} else {
				o.HO.Cookies = append(o.HO.Cookies, [2]string{"!unexpected:" + p[0], p[1]})
			}
		}
	}

	sortPairs(o.HO.Headers)
	sortPairs(o.HO.Cookies)

	return o
}

func c13ObserveEnvoy(app *assembly.EnvoyApp, c c13Case) c13EObs {
	ctx := metadata.AppendToOutgoingContext(context.Background(), "x-forwarded-for", c.Req.Peer)

	resp, err := app.Check(ctx, c.Req.envoy())
	if err != nil {
		return c13EObs{Status: -1, Err: "grpc: " + err.Error()}
	}

	ok := resp.GetOkResponse()
	if ok == nil {
		d := c13EObs{Status: int(resp.GetDeniedResponse().GetStatus().GetCode())}

		for _, h := range resp.GetDeniedResponse().GetHeaders() {
			if h.GetHeader().GetKey() == "Location" {
				d.Loc = h.GetHeader().GetValue()
			}
		}

		return d
	}

	o := c13EObs{}
	opts := map[string][]*envoy_core.HeaderValueOption{}

	for _, h := range ok.GetHeaders() {
		opts[h.GetHeader().GetKey()] = append(opts[h.GetHeader().GetKey()], h)

	}

	// What Envoy's ext_authz filter does with an OkResponse header option when the client sent a header of
	// that name itself: `append` unset / false and `append_action` at its zero value (what heimdall sends)
	// = overwrite; append: true or APPEND_IF_EXISTS_OR_ADD given together with `append` = the client's
	// values stay in front; ADD_IF_ABSENT = the client's header wins; OVERWRITE_* = overwrite.  The effect
	// is simulated, so that a change of the flags shows as what it does to the upstream side.
	sent := http.Header{}
	for _, h := range c.Req.Headers {
		sent.Add(h.N, strings.Trim(h.V, " \t"))
	}

	effective := func(k string, l []*envoy_core.HeaderValueOption) ([]string, bool) {
		vs := append([]string{}, sent[http.CanonicalHeaderKey(k)]...)
		client := len(vs) > 0

		for i, h := range l {
			v := h.GetHeader().GetValue()

			switch {
			case h.GetAppend().GetValue():
				vs = append(vs, v)
			case h.GetAppendAction() == envoy_core.HeaderValueOption_ADD_IF_ABSENT:
				if len(vs) == 0 {
					vs = []string{v}
				}
			case h.GetAppendAction() == envoy_core.HeaderValueOption_OVERWRITE_IF_EXISTS:
				if len(vs) > 0 {
					vs = []string{v}
				}
			case i > 0: // a second option for the same name without overwrite semantics adds a value
				vs = append(vs, v)
			default:
				vs = []string{v}
			}
		}

		// the client's own header, untouched, is pass-through and not a hand-over
		return vs, !(client && strings.Join(vs, "\x00") == strings.Join(sent[http.CanonicalHeaderKey(k)], "\x00"))
	}

	get := func(k string) string {
		if l := opts[k]; len(l) > 0 {
			return l[0].GetHeader().GetValue()
		}

		return ""
	}

	o.Rule = get("X-V-Rule")

	var rl *c13Rule
	if c.Rule != nil && c.Rule.ID == o.Rule {
		rl = c.Rule
	}

	if rl == nil {
		o.Err = "allowed by an unexpected rule"

		return o
	}

	if o.View, err = c13DecodeView(rl, get("X-V")); err != nil {
		o.Err = "view: " + err.Error()
	}

	hn, _ := rl.pipeNames()
	o.HO = &c13HO{Headers: [][2]string{}, Cookies: [][2]string{}}

	for k, l := range opts {
		if hn[k] {
			if vs, handed := effective(k, l); handed {
				o.HO.Headers = append(o.HO.Headers, [2]string{k, wireJoin(vs)})
			}
		}
	}

	_, cn := rl.pipeNames()

	for _, h := range opts["Cookie"] {
		o.HO.Cookies = append(o.HO.Cookies, splitEnvoyCookies(h.GetHeader().GetValue(), cn)...)
	}

	sortPairs(o.HO.Headers)
	sortPairs(o.HO.Cookies)

	return o
}

type c13Obs struct {
	Dec c13EObs `json:"decision"`
	Prx c13EObs `json:"proxy"`
	Env c13EObs `json:"envoy"`
}

// envoyGluedMatch: what a lookup finds when the query string is glued to the path ("/r0/abc?x=1", finding
// C13-F11): a trailing wildcard of the rule's path expression swallows "?query" into its capture (the free
// wildcard without a name captures nothing), a literal last segment does not match.
func (c c13Case) envoyGluedMatch() ([][2]string, bool) {
	if c.Rule == nil || !c.Hit || len(c.Rule.Segs) == 0 {
		return nil, false
	}

	last := c.Rule.Segs[len(c.Rule.Segs)-1]
	if strings.HasPrefix(last, "lit:") {
		return nil, false
	}

	caps := append([][2]string{}, c.Caps...)
	if last != "**" && len(caps) > 0 {
		caps[len(caps)-1][1] += "?" + c.Req.Query
	}

	return caps, true
}

// ---------------------------------------------------------------- oracles

// contenttype.NewDecoder(ct) + Decode(body) with heimdall's fall-back to the raw string, as JSON text
func c13Decode(ct, body string) string {
	var v any = body

	if dec, err := contenttype.NewDecoder(ct); err == nil {
		if data, err := dec.Decode([]byte(body)); err == nil {
			v = data
		}
	}

	b, err := json.Marshal(v)
	if err != nil {
		return "!" + err.Error()
	}

	return string(b)
}

type c13Oracle struct {
	escPath  string
	ct       string
	decBody  string
	decEmpty string
	parseErr string
}

func c13OracleOf(c c13Case) c13Oracle {
	o := c13Oracle{}

	req, err := assembly.ParseRaw(c.Req.raw(), c.Req.Peer+":4711", c.Req.TLS)
	if err != nil {
		o.parseErr = err.Error()

		return o
	}

	o.escPath = req.URL.EscapedPath()
	o.ct = strings.Join(req.Header.Values("Content-Type"), ",")
	o.decBody = c13Decode(o.ct, c.Req.Body)
	o.decEmpty = c13Decode(o.ct, "")

	return o
}

// ---------------------------------------------------------------- Gallina rendering

func c13CoqSlashes(s string) string {
	switch s {
	case "on":
		return "SOn"
	case "no_decode":
		return "SNoDecode"
	}

	return "SOff"
}

// c13Fx is what the sentinel requests of this run found out about the tree under test: which of the
// (candidate) repairs fixes/C13-Fx.diff it contains.  The evaluator runs the matching variant of the
// model; whether a pinned variant is still acceptable is decided by findings/C13.json alone.
//   F1: the Envoy request context hands out ONE view object per request (fix: b2286d8)
//   F2: grpcv3 Header(name) canonicalises the name          F3: decision/proxy hand all values of a header over
//   F4: the Envoy context carries a decoded Path and RawPath F6: grpcv3 Header("Host")     F7: grpcv3 Body() of no body
var c13Fx struct{ F1, F2, F3, F4, F6, F7, F9, F11 bool }

func c13FxCoq() string {
	return vf.CoqApp("fxs", vf.CoqBool(c13Fx.F1), vf.CoqBool(c13Fx.F2), vf.CoqBool(c13Fx.F3), vf.CoqBool(c13Fx.F4),
		vf.CoqBool(c13Fx.F6), vf.CoqBool(c13Fx.F7), vf.CoqBool(c13Fx.F9), vf.CoqBool(c13Fx.F11))
}

func c13Coq(c c13Case, or c13Oracle, o c13Obs) string {
	q := c.Req
	hs := vf.CoqListOf(q.Headers, func(h c13Hdr) string { return vf.CoqPair(vf.CoqStr(h.N), vf.CoqStr(h.V)) })
	lreq := vf.CoqApp("lrq", vf.CoqStr(q.Method), vf.CoqBool(q.TLS), vf.CoqStr(q.Host), vf.CoqStr(q.Path), vf.CoqStr(q.Query),
		hs, vf.CoqStr(q.Body), vf.CoqStr(q.Peer), map[string]string{"body": "PackBody", "both": "PackBoth"}[q.Pack]+map[bool]string{true: "PackRaw"}[q.Pack != "body" && q.Pack != "both"], vf.CoqBool(q.QPath))

	ruleTerm := func(caps [][2]string) string {
		rl := c.Rule

		return "(Some " + vf.CoqApp("rul", vf.CoqStr(rl.ID), c13CoqSlashes(rl.Slashes), coqOptCond(rl.Authz),
			vf.CoqListOf(rl.Steps, c13Step.coq), vf.CoqListOf(rl.Probes, c13Q.coq), coqPairs(caps), rl.redirectCoq()) + ")"
	}

	rule, envRule := "None", "None"
	if c.Rule != nil && c.Hit {
		rule = ruleTerm(c.Caps)

		if caps, hit := c.envoyGluedMatch(); hit {
			envRule = ruleTerm(caps)
		}
	}

	return vf.CoqApp("cs", c13FxCoq(), lreq, rule, envRule, vf.CoqStr(or.escPath), vf.CoqStr(or.ct), vf.CoqStr(or.decBody),
		vf.CoqStr(or.decEmpty), o.Dec.coq(), o.Prx.coq(), o.Env.coq())
}

// ---------------------------------------------------------------- classification

func c13Tags(c c13Case, o c13Obs) ([]string, bool) {
	tags := []string{}
	add := func(s string) { tags = append(tags, s) }

	add(fmt.Sprintf("status:dec=%d,prx=%d,env=%d", o.Dec.Status, o.Prx.Status, o.Env.Status))

	if c.Rule == nil {
		add("rule:none-aimed")
	} else {
		add("pattern:" + strings.Join(c.Rule.Segs, "/"))
		add("slashes:" + map[string]string{"": "default-off"}[c.Rule.Slashes] + c.Rule.Slashes)

		if c.Rule.Authz != nil {
			add("authz:" + c.Rule.Authz.Q.K)
		}

		if c.Rule.Scheme != "" {
			add("route-condition:scheme")
		}

		if c.Rule.Redirect != nil {
			add("on_error:redirect")

			if o.Dec.Loc != "" {
				add("decision:redirected")
			}
		}

		if c.Rule.HostIs != "" {
			add("route-condition:host")
		}

		for _, st := range c.Rule.Steps {
			kind := "hdr"
			if st.Cookie {
				kind = "cookie"
			}

			if st.If != nil {
				add("step-if:" + st.If.Q.K)
			}

			for _, it := range st.Items {
				if it.Echo != nil {
					add("tmpl-" + kind + ":" + it.Echo.K)
				} else {
					add("tmpl-" + kind + ":const")
				}
			}
		}

		for _, q := range c.Rule.Probes {
			add("probe:" + q.K)
		}
	}

	if strings.Contains(c.Req.Path, "%") {
		add("path:escaped")
	}

	if strings.Contains(strings.ToUpper(c.Req.Path), "%2F") {
		add("path:encoded-slash")
	}

	if c.Req.Body != "" {
		add("body:present")

		if c.Req.Chunked {
			add("http-body:chunked")
		} else {
			add("http-body:content-length")
		}

		add("envoy-body-field:" + map[string]string{"body": "body", "both": "both"}[c.Req.Pack] + map[bool]string{true: "raw_body"}[c.Req.Pack != "body" && c.Req.Pack != "both"])
	}

	if strings.Contains(c.Req.Path, "/./") || strings.Contains(c.Req.Path, "/../") || strings.HasSuffix(c.Req.Path, "/.") ||
		strings.HasSuffix(c.Req.Path, "/..") || strings.Contains(c.Req.Path, "//") || strings.Contains(strings.ToLower(c.Req.Path), "%2e") {
		add("path:dot-or-empty-segment")
	}

	if c.Req.Host != strings.ToLower(c.Req.Host) {
		add("host:mixed-case")
	}

	if c.Req.QPath {
		add("envoy-target:query-inside-path")

		if c.Req.Query != "" {
			add("envoy-target:query-inside-path,non-empty")
		}
	} else {
		add("envoy-target:path-and-query-fields")
	}

	if c.Req.Method != strings.ToUpper(c.Req.Method) {
		add("method:lower-case")
	}

	for _, h := range c.Req.Headers {
		if strings.EqualFold(h.N, "cookie") && h.V != strings.ToLower(h.V) && strings.ContainsAny(h.V, "SQTL") {
			add("req:cookie-name-upper-case")
		}
	}

	if c.Req.TLS {
		add("scheme:https")
	}

	if c.Rule != nil {
		hn, cn := c.Rule.pipeNames()

		for _, h := range c.Req.Headers {
			if hn[http.CanonicalHeaderKey(h.N)] {
				add("collision:client-header-with-pipeline-name")
			}

			if strings.EqualFold(h.N, "cookie") {
				for n := range cn {
					if strings.Contains(h.V, n+"=client1") {
						add("collision:client-cookie-with-pipeline-name")
					}
				}
			}
		}
	}

	for _, h := range c.Req.Headers {
		if strings.EqualFold(h.N, "cookie") {
			add("req:cookie")
		}

		if h.N != http.CanonicalHeaderKey(h.N) {
			add("req:odd-casing")
		}
	}

	same := func(a, b c13EObs) bool {
		x, _ := json.Marshal(a)
		y, _ := json.Marshal(b)

		return string(x) == string(y)
	}

	if same(o.Dec, o.Env) && same(o.Dec, o.Prx) {
		add("agree:all")
	} else {
		add("agree:no")
	}

	// code sites of DESIGN 6.20a
	add("site:requestcontext.Request")
	add("site:grpcv3.Request")

	if o.Dec.HO != nil && len(o.Dec.HO.Headers)+len(o.Dec.HO.Cookies) > 0 {
		add("site:decision.Finalize-handover")
	}

	if o.Prx.HO != nil && len(o.Prx.HO.Headers)+len(o.Prx.HO.Cookies) > 0 {
		add("site:proxy.rewriteRequest-handover")
	}

	if o.Env.HO != nil && len(o.Env.HO.Headers)+len(o.Env.HO.Cookies) > 0 {
		add("site:grpcv3.Finalize-handover")
	}

	// non-trivial: a rule matched and its pipeline read the view in a condition or a template
	nt := false
	if c.Rule != nil && c.Hit {
		if c.Rule.Authz != nil {
			nt = true
		}

		for _, st := range c.Rule.Steps {
			if st.If != nil {
				nt = true
			}

			for _, it := range st.Items {
				if it.Echo != nil {
					nt = true
				}
			}
		}
	}

	return tags, nt
}

// ---------------------------------------------------------------- corpus

func c13Corpus() ([]c13Rule, []c13Case) {
	q := func(k, n string) c13Q { return c13Q{K: k, N: n} }
	pq := func(k, n string) *c13Q { x := q(k, n); return &x }
	allProbes := []c13Q{q("method", ""), q("scheme", ""), q("host", ""), q("path", ""), q("query", ""), q("caps", ""), q("ips", "")}

	rules := []c13Rule{
		// 0: C13-F1 — the capture is echoed into a pipeline header and a cookie
		{ID: "c0", Path: "/c0/:name", Segs: []string{":name"}, CapNames: []string{"name"}, Slashes: "",
			Steps: []c13Step{{Items: []c13Item{{Name: "X-User", Echo: pq("cap", "name")}}}, {Cookie: true, Items: []c13Item{{Name: "pc1", Echo: pq("cap", "name")}}}},
			Probes: append([]c13Q{q("cap", "name")}, allProbes...)},
		// 1: C13-F1 — the capture decides (CEL authorizer)
		{ID: "c1", Path: "/c1/:name", Segs: []string{":name"}, CapNames: []string{"name"}, Authz: &c13Cond{Q: q("cap", "name"), C: "admin"},
			Redirect: &c13Redirects[1], Probes: allProbes},
		// 2: C13-F2 — Header() with a lower-case name decides
		{ID: "c2", Path: "/c2/lit", Segs: []string{"lit:lit"}, Authz: &c13Cond{Q: q("hdr", "x-role"), C: "admin"},
			Probes: []c13Q{q("hdr", "x-role"), q("hdr", "X-Role"), q("hdr", "X-ROLE")}},
		// 3: C13-F3 — a pipeline header set by two steps
		{ID: "c3", Path: "/c3/lit", Segs: []string{"lit:lit"},
			Steps:  []c13Step{{Items: []c13Item{{Name: "X-Out", Const: "one"}}}, {Items: []c13Item{{Name: "x-out", Const: "two"}}}},
			Probes: []c13Q{q("method", "")}},
		// 4: C13-F4 — encoded slash with the default (off): 400 vs allowed; Path/RawPath/String() with escapes
		{ID: "c4", Path: "/c4/**", Segs: []string{"**"},
			Probes: []c13Q{q("path", ""), q("rawpath", ""), q("url", ""), q("caps", "")}},
		// 5: C13-F4 with allow_encoded_slashes: on
		{ID: "c5", Path: "/c5/:name", Segs: []string{":name"}, CapNames: []string{"name"}, Slashes: "on",
			Steps:  []c13Step{{Items: []c13Item{{Name: "X-User", Echo: pq("cap", "name")}}}},
			Probes: []c13Q{q("path", ""), q("rawpath", ""), q("url", ""), q("cap", "name")}},
		// 6: C13-F5 — cookies: quoted value read; values that net/http sanitises handed over
		{ID: "c6", Path: "/c6/lit", Segs: []string{"lit:lit"}, Authz: &c13Cond{Q: q("cookie", "sid"), C: "123"},
			Steps:  []c13Step{{Cookie: true, Items: []c13Item{{Name: "pc1", Const: "v 1"}, {Name: "pc2", Echo: pq("hdr", "X-Role")}}}},
			Probes: []c13Q{q("cookie", "sid"), q("cookie", "q")}},
		// 7: C13-F6 — Host through Header() and Headers()
		{ID: "c7", Path: "/c7/lit", Segs: []string{"lit:lit"}, Authz: &c13Cond{Q: q("hdr", "Host"), C: "a.example.com"},
			Probes: []c13Q{q("hdr", "Host"), q("hdrs", "")}},
		// 8: C13-F7 — empty body with a form / yaml content type; decoded bodies
		{ID: "c8", Path: "/c8/lit", Segs: []string{"lit:lit"}, Probes: []c13Q{q("body", ""), q("hdr", "Content-Type")}},
		// 9: step-level `if` on a capture and on a header
		{ID: "c9", Path: "/c9/:a/x/:b", Segs: []string{":a", "lit:x", ":b"}, CapNames: []string{"a", "b"}, Slashes: "no_decode",
			Steps: []c13Step{{If: &c13Cond{Q: q("cap", "a"), C: "abc"}, Items: []c13Item{{Name: "X-Out", Echo: pq("cap", "b")}}},
				{If: &c13Cond{Q: q("hdr", "X-Role"), C: "admin"}, Items: []c13Item{{Name: "X-User", Const: "plain"}}}},
			Probes: []c13Q{q("cap", "a"), q("cap", "b"), q("cap", "nope")}},
		// 10: C13-F3b — a pipeline header set twice with blanks around a value (separate lines vs Envoy's join)
		{ID: "c10", Path: "/c10/lit", Segs: []string{"lit:lit"},
			Steps:  []c13Step{{Items: []c13Item{{Name: "X-Out", Const: " a "}}}, {Items: []c13Item{{Name: "x-out", Const: "b"}}}},
			Probes: []c13Q{q("method", "")}},
	}

	rq := func(method, host, path, query string, tls bool, body string, kv ...string) c13Req {
		r := c13Req{Method: method, Host: host, Path: path, Query: query, TLS: tls, Body: body, Peer: "10.0.0.1"}
		for i := 0; i+1 < len(kv); i += 2 {
			r.Headers = append(r.Headers, c13Hdr{kv[i], kv[i+1]})
		}

		if body != "" {
			r.Headers = append(r.Headers, c13Hdr{"Content-Length", strconv.Itoa(len(body))})
		}

		return r
	}
	cs := func(ri int, caps [][2]string, r c13Req) c13Case { return c13Case{Rule: &rules[ri], Hit: true, Caps: caps, Req: r} }
	packed := func(p string, c c13Case) c13Case { c.Req.Pack = p; return c }
	qpath := func(c c13Case) c13Case { c.Req.QPath = true; return c }
	chunked := func(c c13Case) c13Case {
		c.Req.Chunked = true
		kept := c.Req.Headers[:0:0]

		for _, h := range c.Req.Headers {
			if h.N != "Content-Length" {
				kept = append(kept, h)
			}
		}

		c.Req.Headers = kept

		return c
	}
	cp := func(kv ...string) [][2]string {
		out := [][2]string{}
		for i := 0; i+1 < len(kv); i += 2 {
			out = append(out, [2]string{kv[i], kv[i+1]})
		}

		return out
	}

	cases := []c13Case{
		cs(0, cp("name", "abc"), rq("GET", "a.example.com", "/c0/abc", "x=1", false, "")),
		cs(0, cp("name", "a%20b"), rq("GET", "a.example.com", "/c0/a%20b", "", true, "")),
		cs(1, cp("name", "admin"), rq("GET", "a.example.com", "/c1/admin", "", false, "")),
		cs(1, cp("name", "user"), rq("GET", "a.example.com", "/c1/user", "", false, "")),
		cs(2, nil, rq("GET", "a.example.com", "/c2/lit", "", false, "", "X-Role", "admin")),
		cs(2, nil, rq("GET", "a.example.com", "/c2/lit", "", false, "", "x-role", "user", "X-ROLE", "admin")),
		cs(3, nil, rq("GET", "a.example.com", "/c3/lit", "", false, "")),
		cs(4, nil, rq("GET", "a.example.com", "/c4/a/b%2Fc", "", false, "")),
		cs(4, nil, rq("GET", "a.example.com", "/c4/a%20b", "q=1", false, "")),
		cs(4, nil, rq("GET", "a.example.com", "/c4/abc", "", false, "")),
		cs(4, nil, rq("GET", "a.example.com", "/c4/a%2fb", "", false, "")),
		cs(5, cp("name", "a%2Fb"), rq("GET", "a.example.com", "/c5/a%2Fb", "", false, "")),
		cs(5, cp("name", "abc"), rq("GET", "a.example.com", "/c5/abc", "", false, "")),
		cs(6, nil, rq("GET", "a.example.com", "/c6/lit", "", false, "", "Cookie", `sid="123"; q=a b`, "X-Role", "a,b")),
		cs(6, nil, rq("GET", "a.example.com", "/c6/lit", "", false, "", "Cookie", `sid=123; q=x`, "X-Role", "admin")),
		cs(7, nil, rq("GET", "a.example.com", "/c7/lit", "", false, "")),
		cs(8, nil, rq("POST", "a.example.com", "/c8/lit", "", false, "", "Content-Type", "application/x-www-form-urlencoded")),
		cs(8, nil, rq("POST", "a.example.com", "/c8/lit", "", false, "", "Content-Type", "application/yaml")),
		cs(8, nil, rq("POST", "a.example.com", "/c8/lit", "", false, `{"user":"u1","n":[1,2]}`, "content-type", "application/json")),
		cs(8, nil, rq("POST", "a.example.com", "/c8/lit", "", false, "k=v&k=w", "Content-Type", "application/x-www-form-urlencoded")),
		cs(9, cp("a", "abc", "b", "x%2Fy"), rq("GET", "a.example.com", "/c9/abc/x/x%2Fy", "", false, "", "X-Role", "admin")),
		cs(9, cp("a", "abd", "b", "z"), rq("GET", "a.example.com", "/c9/abd/x/z", "", false, "", "x-role", "user")),
		{Rule: nil, Hit: false, Req: rq("GET", "a.example.com", "/none/x", "", false, "")},
		cs(10, nil, rq("GET", "a.example.com", "/c10/lit", "", false, "")),
		// the client sends a header and a cookie under the names the pipeline sets (seeded change C13-1)
		cs(0, cp("name", "abc"), rq("GET", "a.example.com", "/c0/abc", "", false, "", "x-user", "client-1", "X-USER", "client-2",
			"Cookie", "sid=1; pc1=client1")),
		// 25: C13-F9 — Envoy conveys the body in the string field `body` (its default, pack_as_bytes: false)
		packed("body", cs(8, nil, rq("POST", "a.example.com", "/c8/lit", "", false, `{"user":1}`, "Content-Type", "application/json"))),
		packed("both", cs(8, nil, rq("POST", "a.example.com", "/c8/lit", "", false, `{"user":1}`, "Content-Type", "application/json"))),
		// 27..: inputs an entry point might normalise on its own (audit blind spots): cookie names in another
		// casing, dot segments and "//", a host in mixed case, a lower-case method
		cs(6, nil, rq("GET", "a.example.com", "/c6/lit", "", false, "", "Cookie", "SID=123; Q=x", "X-Role", "admin")),
		cs(4, nil, rq("GET", "a.example.com", "/c4/a/../b//c/./d", "", false, "")),
		cs(4, nil, rq("GET", "A.Example.COM", "/c4/%2e%2E/x", "", false, "")),
		cs(0, cp("name", ".."), rq("get", "a.example.com", "/c0/..", "", false, "")),
		cs(9, cp("a", "abc", "b", "a$$$escaped-slash$$$b%20c"), rq("GET", "a.example.com", "/c9/abc/x/a$$$escaped-slash$$$b%20c", "", false, "", "X-Role", "admin")),
		// 32, 33: C13-F11 — the request target conveyed the documented way (query inside `path`): a wildcard swallows
		// "?x=1" into the capture, a literal route misses
		qpath(cs(0, cp("name", "abc"), rq("GET", "a.example.com", "/c0/abc", "x=1", false, ""))),
		qpath(cs(3, nil, rq("GET", "a.example.com", "/c3/lit", "x=1", false, ""))),
		qpath(cs(3, nil, rq("GET", "a.example.com", "/c3/lit", "", false, ""))),
		// 35: a streamed body (Transfer-Encoding: chunked, ContentLength == -1) is decoded like a sized one (seeded change C13-3)
		chunked(cs(8, nil, rq("POST", "a.example.com", "/c8/lit", "", false, `{"user":"u1","n":[1,2]}`, "Content-Type", "application/json"))),
	}

	return rules, cases
}

// ---------------------------------------------------------------- the test

type c13Apps struct {
	dec, prx *assembly.HandlerApp
	env      *assembly.EnvoyApp
}

func (a *c13Apps) stop() {
	if a.dec != nil {
		a.dec.Stop()
	}

	if a.prx != nil {
		a.prx.Stop()
	}

	if a.env != nil {
		a.env.Stop()
	}
}

func c13Start(t *testing.T, rules []c13Rule, upHost string) *c13Apps {
	y := c13RulesYAML(rules, upHost)
	a := &c13Apps{}

	var err error

	if a.dec, err = assembly.StartHandler(assembly.Decision, c13Config, y); err != nil {
		t.Fatalf("decision app: %v\n%s", err, y)
	}

	if a.prx, err = assembly.StartHandler(assembly.Proxy, c13Config, y); err != nil {
		t.Fatalf("proxy app: %v\n%s", err, y)
	}

	if a.env, err = assembly.StartEnvoyHandler(c13Config, y); err != nil {
		t.Fatalf("envoy app: %v\n%s", err, y)
	}

	return a
}

func TestVerifC13(t *testing.T) {
	w := vf.NewWriter()
	defer w.Close()

	up := assembly.NewUpstream()
	defer up.Close()

	root := vf.NewRand(vf.Seed())
	n := vf.N(600)
	idx := 0

	run := func(stream string, apps *c13Apps, c c13Case) {
		or := c13OracleOf(c)
		if or.parseErr != "" {
			return // net/http refuses the request before heimdall sees it: not a case
		}

		o := c13Obs{Dec: c13ObserveDecision(apps.dec, c), Prx: c13ObserveProxy(apps.prx, up, c), Env: c13ObserveEnvoy(apps.env, c)}
		tags, nt := c13Tags(c, o)

		w.Put(vf.Obs{I: idx, Stream: stream, In: c, Out: o, Coq: c13Coq(c, or, o), Nontrivial: nt, Tags: tags})
	}

	// corpus: the witnesses of the findings first
	crules, ccases := c13Corpus()
	capps := c13Start(t, crules, up.Host)

	// sentinels: the corpus witnesses of the findings that have a (candidate) repair
	if s := c13ObserveEnvoy(capps.env, ccases[0]); s.HO != nil && len(s.HO.Headers) == 1 {
		c13Fx.F1 = s.HO.Headers[0][1] == "abc" // the pipeline sees the capture that matching stored
	} else {
		c13Fx.F1 = true // the sentinel could not be read: assume the repaired tree, the cases decide
	}

	c13Fx.F2 = c13ObserveEnvoy(capps.env, ccases[4]).Status == 0   // Header("x-role") finds X-Role
	c13Fx.F4 = c13ObserveEnvoy(capps.env, ccases[7]).Status == 400 // the encoded slash is refused
	c13Fx.F6 = c13ObserveEnvoy(capps.env, ccases[15]).Status == 0  // Header("Host") is the request host

	if s := c13ObserveDecision(capps.dec, ccases[6]); s.HO != nil && len(s.HO.Headers) == 1 {
		c13Fx.F3 = s.HO.Headers[0][1] == "one,two" // both values of X-Out are handed over
	}

	if s := c13ObserveEnvoy(capps.env, ccases[16]); len(s.View) > 0 {
		c13Fx.F7 = s.View[0].S == `""` // Body() of a request without body
	}

	if s := c13ObserveEnvoy(capps.env, ccases[25]); len(s.View) > 0 {
		c13Fx.F9 = s.View[0].S == `{"user":1}` // the body conveyed in the string field is decoded
	}

	if s := c13ObserveEnvoy(capps.env, ccases[32]); len(s.View) > 0 {
		c13Fx.F11 = s.View[0].S == "abc" // the query string inside `path` does not end up in the capture
	}

	for _, c := range ccases {
		if vf.Want(idx) {
			run("corpus", capps, c)
		}

		idx++
	}

	capps.stop()

	// generated: one rule set per group
	const perGroup = 40

	for g := 0; idx < n+len(ccases); g++ {
		gr := root.Fork(uint64(g))
		nr := gr.Range(4, 7)
		rules := make([]c13Rule, nr)

		for k := range rules {
			rules[k] = c13GenRule(gr.Fork(uint64(500+k)), k)
		}

		need := false
		for k := 0; k < perGroup; k++ {
			if vf.Want(idx+k) && idx+k < n+len(ccases) {
				need = true
			}
		}

		if !need {
			idx += perGroup

			continue
		}

		apps := c13Start(t, rules, up.Host)

		for k := 0; k < perGroup && idx < n+len(ccases); k++ {
			if vf.Want(idx) {
				run("generated", apps, c13GenReq(gr.Fork(uint64(1000+k)), rules))
			}

			idx++
		}

		apps.stop()
	}
}

// ---------------------------------------------------------------- second stream: the decision service as deployed

// TestVerifC13Deployed sends one logical request (method, scheme, host, path, query) to a decision
// service directly and — described by X-Forwarded-Method/-Proto/-Host/-Uri on a carrier request from a
// trusted proxy, the way an API gateway uses the decision service — to a decision service with
// trusted_proxies; the same rule echoes method and URL parts in both.

const c13TPConfig = `
mechanisms:
  authenticators:
    - id: anon
      type: anonymous
  finalizers:
    - id: hdr
      type: header
      config:
        headers:
          X-V: '{{ dict "method" .Request.Method "scheme" .Request.URL.Scheme "host" .Request.URL.Host "rawpath" .Request.URL.RawPath "query" .Request.URL.RawQuery | toJson | b64enc }}'
`

const c13TPRules = `
version: "1alpha4"
name: c13tp
rules:
  - id: t
    allow_encoded_slashes: no_decode
    match:
      routes:
        - path: /t/**
    forward_to:
      host: 127.0.0.1:1
    execute:
      - authenticator: anon
      - finalizer: hdr
`

var c13TPQueries = []string{
	"", "", "x=1", "a=1&b=2", "b=2&a=1", "q=a%20b", "q=a+b", "a=1;b=2", "empty=", "x", "a=%41", "a=A", "a=1&a=2", "a=2&a=1",
	"k=%2F", "k=/", "a=1&&b=2", "=v", "a==b", "%zz=1", "a=%zz&b=1", "b=1&a=%zz", "a=1&b=2&c=3", "c=3&a=1", "a%20b=1", "a+b=1",
	"a=~", "a=%7E", "z=%C3%A4", "a=1&", "&a=1",
}

type c13TPObs struct {
	Status  int    `json:"status"`
	Method  string `json:"method"`
	Scheme  string `json:"scheme"`
	Host    string `json:"host"`
	RawPath string `json:"rawpath"`
	Query   string `json:"query"`
	Err     string `json:"err,omitempty"`
}

func (o c13TPObs) coq() string {
	return vf.CoqApp("tob", vf.CoqZ(int64(o.Status)), vf.CoqStr(o.Method), vf.CoqStr(o.Scheme), vf.CoqStr(o.Host), vf.CoqStr(o.RawPath),
		vf.CoqStr(o.Query))
}

func c13TPObserve(app *assembly.HandlerApp, raw, peer string, tls bool) c13TPObs {
	req, err := assembly.ParseRaw(raw, peer+":4711", tls)
	if err != nil {
		return c13TPObs{Status: -1, Err: "parse: " + err.Error()}
	}

	rec := app.Serve(req)
	o := c13TPObs{Status: statusOf(rec.Code)}

	if o.Status != 0 {
		return o
	}

	b, err := base64.StdEncoding.DecodeString(rec.Header().Get("X-V"))
	if err != nil {
		o.Err = err.Error()

		return o
	}

	var v struct{ Method, Scheme, Host, Rawpath, Query string }
	if err = json.Unmarshal(b, &v); err != nil {
		o.Err = err.Error()

		return o
	}

	o.Method, o.Scheme, o.Host, o.RawPath, o.Query = v.Method, v.Scheme, v.Host, v.Rawpath, v.Query

	return o
}

func TestVerifC13Deployed(t *testing.T) {
	w := vf.NewWriter()
	defer w.Close()

	direct, err := assembly.StartHandler(assembly.Decision, c13TPConfig, c13TPRules)
	if err != nil {
		t.Fatal(err)
	}
	defer direct.Stop()

	behind, err := assembly.StartHandler(assembly.Decision, "serve:\n  decision:\n    trusted_proxies: [\"10.0.0.0/8\"]\n"+c13TPConfig, c13TPRules)
	if err != nil {
		t.Fatal(err)
	}
	defer behind.Stop()

	root := vf.NewRand(vf.Seed())
	n := vf.N(300)

	// sentinel: is the candidate repair of C13-F10 (fixes/C13-F10.diff: the query of X-Forwarded-Uri as sent)
	// in the tree under test?
	fixedF10 := c13TPObserve(behind, "GET /decisions HTTP/1.1\r\nHost: heimdall.internal\r\nX-Forwarded-Method: GET\r\nX-Forwarded-Proto: https"+
		"\r\nX-Forwarded-Host: a.example.com\r\nX-Forwarded-Uri: /t/abc?b=2&a=1\r\n\r\n", "10.0.0.1", false).Query == "b=2&a=1"

	type tpCase struct {
		Req c13Req `json:"req"`
	}

	corpus := []c13Req{
		{Method: "GET", TLS: true, Host: "a.example.com", Path: "/t/abc", Query: "b=2&a=1", Peer: "10.0.0.1"}, // C13-F10
		{Method: "GET", TLS: true, Host: "a.example.com", Path: "/t/abc", Query: "q=a%20b", Peer: "10.0.0.1"},
		{Method: "GET", TLS: true, Host: "a.example.com", Path: "/t/abc", Query: "a=1;b=2", Peer: "10.0.0.1"},
		{Method: "POST", TLS: false, Host: "A.Example.COM", Path: "/t/a%2Fb/../c", Query: "a=1&b=2", Peer: "10.0.0.1"},
		{Method: "GET", TLS: false, Host: "a.example.com", Path: "/t/abc", Query: "", Peer: "10.0.0.1"},
	}

	for i := 0; i < n+len(corpus); i++ {
		if !vf.Want(i) {
			continue
		}

		var q c13Req
		if i < len(corpus) {
			q = corpus[i]
		} else {
			r := root.Fork(uint64(700000 + i))
			q = c13Req{Method: vf.Pick(r, c13Methods), TLS: r.Chance(50), Host: vf.Pick(r, c13Hosts), Peer: "10.0.0.1",
				Query: vf.Pick(r, c13TPQueries)}

			parts := make([]string, r.Range(1, 3))
			for k := range parts {
				parts[k] = vf.Pick(r, c13Segs)
			}

			q.Path = "/t/" + strings.Join(parts, "/")
		}

		target := q.Path
		if q.Query != "" {
			target += "?" + q.Query
		}

		scheme := "http"
		if q.TLS {
			scheme = "https"
		}

		od := c13TPObserve(direct, q.Method+" "+target+" HTTP/1.1\r\nHost: "+q.Host+"\r\n\r\n", q.Peer, q.TLS)
		if od.Status == -1 {
			continue // net/http refuses the request line: not a case
		}

		ot := c13TPObserve(behind, "GET /decisions HTTP/1.1\r\nHost: heimdall.internal\r\nX-Forwarded-Method: "+q.Method+
			"\r\nX-Forwarded-Proto: "+scheme+"\r\nX-Forwarded-Host: "+q.Host+"\r\nX-Forwarded-Uri: "+target+"\r\n\r\n", q.Peer, false)

		lreq := vf.CoqApp("lrq", vf.CoqStr(q.Method), vf.CoqBool(q.TLS), vf.CoqStr(q.Host), vf.CoqStr(q.Path), vf.CoqStr(q.Query),
			"[]", vf.CoqStr(""), vf.CoqStr(q.Peer), "PackRaw", "false")

		tags := []string{"tp:query=" + q.Query, fmt.Sprintf("tp:status=%d/%d", od.Status, ot.Status)}
		if od.Query == ot.Query {
			tags = append(tags, "tp:query-agrees")
		} else {
			tags = append(tags, "tp:query-differs")
		}

		w.Put(vf.Obs{I: i, Stream: "deployed", In: tpCase{q}, Out: map[string]c13TPObs{"direct": od, "trusted_proxy": ot},
			Coq: vf.CoqApp("tcs", vf.CoqBool(fixedF10), lreq, od.coq(), ot.coq()), Nontrivial: q.Query != "", Tags: tags})
	}
}

// ---------------------------------------------------------------- third stream: requests in flight at the same time

// TestVerifC13Interleaved: what the pipeline of a request sees of ITS body must be a function of that
// request's own bytes at every later time, at every entry point.  Request 1 goes through a rule whose
// pipeline reads the body (payload template of a generic contextualizer: first read, decoded and cached),
// then waits for the contextualizer's endpoint — the driver's hook server, which meanwhile sends request 2
// (same content type, same length, other values) through an entry point whose pipeline reads ITS body —
// and then reads the body again (header finalizer).  All body content types x all three entry points for
// request 1 x all three for request 2.  The test runs with GOMAXPROCS(1), so that anything recycled
// through a sync.Pool by request 1's goroutine is what request 2's goroutine gets.

func c13ILConfig(hookURL string) string {
	return `
mechanisms:
  authenticators:
    - id: anon
      type: anonymous
  contextualizers:
    - id: hook
      type: generic
      config:
        endpoint:
          url: ` + hookURL + `
          method: POST
        payload: '{{ .Request.Body | toJson }}'
        cache_ttl: 0s
  finalizers:
    - id: hdr
      type: header
      config:
        headers:
          X-B2: '{{ .Request.Body | toJson | b64enc }}'
`
}

func c13ILRules(up string) string {
	return `
version: "1alpha4"
name: c13il
rules:
  - id: first
    match:
      routes:
        - path: /p/**
    forward_to:
      host: ` + up + `
      rewrite:
        scheme: http
    execute:
      - authenticator: anon
      - contextualizer: hook
      - finalizer: hdr
  - id: second
    match:
      routes:
        - path: /q/**
    forward_to:
      host: ` + up + `
      rewrite:
        scheme: http
    execute:
      - authenticator: anon
      - finalizer: hdr
`
}

type c13ILPair struct {
	CT     string `json:"content_type"`
	First  string `json:"first"`
	Second string `json:"second"`
}

var c13ILPairs = []c13ILPair{
	{"application/x-www-form-urlencoded", "role=viewer&user=alice", "role=admin1&user=mallo"},
	{"application/x-www-form-urlencoded", "a=1&b=2&c=3", "x=9&y=8&z=7"},
	{"application/x-www-form-urlencoded", "role=viewer", "role=admin1&more=1"},
	{"application/x-www-form-urlencoded", "k=v+w&p=a%20b", "k=zzz&p=qqqqqq"},
	{"application/json", `{"role":"viewer","n":[1,2]}`, `{"role":"admin1","n":[3,4]}`},
	{"application/json", `{"a":{"b":"c"}}`, `{"x":{"y":"z"}}`},
	{"application/json; charset=utf-8", `"just a string"`, `"other  string"`},
	{"application/yaml", "role: viewer\nuser: alice\n", "role: admin1\nuser: mallo\n"},
	{"application/yaml", "list: [a, b]\n", "list: [x, y]\n"},
	{"text/plain", "hello world, this is request 1", "HELLO WORLD, THIS IS REQUEST 2"},
	{"application/unknown", "opaque-bytes-0001", "OPAQUE-BYTES-0002"},
	{"application/json", "{bad json 1", "{BAD JSON 2"},
}

type c13ILObs struct {
	Status int    `json:"status"`
	B1     string `json:"b1"` // the body as the pipeline saw it first (payload received by the hook)
	B2     string `json:"b2"` // the body as the pipeline saw it after the other request had read its body
	Hook   int    `json:"hook_calls"`
	Err    string `json:"err,omitempty"`
}

func (o c13ILObs) coq() string {
	return vf.CoqApp("iob", vf.CoqZ(int64(o.Status)), vf.CoqStr(o.B1), vf.CoqStr(o.B2), vf.CoqBool(o.Err == "" && o.Hook == 1))
}

func TestVerifC13Interleaved(t *testing.T) {
	prev := runtime.GOMAXPROCS(1)
	defer runtime.GOMAXPROCS(prev)

	w := vf.NewWriter()
	defer w.Close()

	up := assembly.NewUpstream()
	defer up.Close()

	var (
		hookCalls   int
		hookPayload string
		fireSecond  func()
	)

	hook := httptest.NewServer(http.HandlerFunc(func(rw http.ResponseWriter, req *http.Request) {
		b, _ := io.ReadAll(req.Body)
		hookCalls++
		hookPayload = string(b)

		if fireSecond != nil {
			f := fireSecond
			fireSecond = nil

			f() // request 2 is served while request 1 waits for this response
		}

		rw.Header().Set("Content-Type", "application/json")
		_, _ = rw.Write([]byte("{}"))
	}))
	defer hook.Close()

	cfg, rules := c13ILConfig(hook.URL), c13ILRules(up.Host)

	dec, err := assembly.StartHandler(assembly.Decision, cfg, rules)
	if err != nil {
		t.Fatal(err)
	}
	defer dec.Stop()

	prx, err := assembly.StartHandler(assembly.Proxy, cfg, rules)
	if err != nil {
		t.Fatal(err)
	}
	defer prx.Stop()

	env, err := assembly.StartEnvoyHandler(cfg, rules)
	if err != nil {
		t.Fatal(err)
	}
	defer env.Stop()

	// send one request through an entry point; returns status and the decoded X-B2
	send := func(entry int, path, ct, body string) (int, string, string) {
		q := c13Req{Method: "POST", Host: "a.example.com", Path: path, Peer: "10.0.0.1", Pack: "raw",
			Headers: []c13Hdr{{"Content-Type", ct}, {"Content-Length", strconv.Itoa(len(body))}}, Body: body}

		var enc string

		switch entry {
		case 0, 1:
			req, err := assembly.ParseRaw(q.raw(), "10.0.0.1:4711", false)
			if err != nil {
				return -1, "", err.Error()
			}

			if entry == 0 {
				rec := dec.Serve(req)
				if statusOf(rec.Code) != 0 {
					return rec.Code, "", ""
				}

				enc = rec.Header().Get("X-B2")
			} else {
				up.Take()

				rec := prx.Serve(req)
				seen := up.Take()

				if statusOf(rec.Code) != 0 || len(seen) != 1 {
					return rec.Code, "", fmt.Sprintf("upstream saw %d requests", len(seen))
				}

				enc = seen[0].Get("X-B2")
			}
		default:
			resp, err := env.Check(context.Background(), q.envoy())
			if err != nil {
				return -1, "", err.Error()
			}

			ok := resp.GetOkResponse()
			if ok == nil {
				return int(resp.GetDeniedResponse().GetStatus().GetCode()), "", ""
			}

			for _, h := range ok.GetHeaders() {
				if h.GetHeader().GetKey() == "X-B2" {
					enc = h.GetHeader().GetValue()
				}
			}
		}

		b, err := base64.StdEncoding.DecodeString(enc)
		if err != nil {
			return 0, "", err.Error()
		}

		return 0, string(b), ""
	}

	root := vf.NewRand(vf.Seed())
	n := vf.N(120)
	names := []string{"decision", "proxy", "envoy"}

	type ilCase struct {
		Pair         c13ILPair `json:"pair"`
		SecondEntry  [3]int    `json:"second_request_through"`
		SecondBefore bool      `json:"other_request_also_before"`
	}

	for i := 0; i < n; i++ {
		if !vf.Want(i) {
			continue
		}

		r := root.Fork(uint64(800000 + i))

		var c ilCase
		if i < len(c13ILPairs) {
			c = ilCase{Pair: c13ILPairs[i], SecondEntry: [3]int{0, 1, 2}}
		} else {
			c = ilCase{Pair: vf.Pick(r, c13ILPairs), SecondEntry: [3]int{r.Intn(3), r.Intn(3), r.Intn(3)}, SecondBefore: r.Chance(30)}

			if r.Chance(40) { // other values of the same shape: swap the two
				c.Pair.First, c.Pair.Second = c.Pair.Second, c.Pair.First
			}
		}

		obs := map[string]c13ILObs{}
		coq := []string{}

		for e := 0; e < 3; e++ {
			if c.SecondBefore {
				send(c.SecondEntry[e], "/q/warm", c.Pair.CT, c.Pair.Second)
			}

			hookCalls, hookPayload = 0, ""
			second := c.SecondEntry[e]
			fireSecond = func() { send(second, "/q/other", c.Pair.CT, c.Pair.Second) }

			st, b2, errs := send(e, "/p/one", c.Pair.CT, c.Pair.First)
			o := c13ILObs{Status: statusOf(st), B1: hookPayload, B2: b2, Hook: hookCalls, Err: errs}

			if st == 200 {
				o.Status = 0
			}

			obs[names[e]] = o
			coq = append(coq, o.coq())
		}

		expected := c13Decode(c.Pair.CT, c.Pair.First) // the decoder's answer on request 1's own bytes

		w.Put(vf.Obs{I: i, Stream: "interleaved", In: c, Out: obs,
			Coq: vf.CoqApp("ics", vf.CoqStr(expected), vf.CoqList(coq)), Nontrivial: true,
			Tags: []string{"il:content-type=" + c.Pair.CT, fmt.Sprintf("il:second-through=%v", c.SecondEntry)}})
	}
}
