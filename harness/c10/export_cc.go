//go:build verif

package clientcredentials

// Thin export for the C10 verification driver (injected with `go test
// -overlay`; not part of /repo).

import "time"

// VerifC10TTL calls Config.getCacheTTL.  A zero expiry means: the token
// endpoint response carried no expires_in.
func VerifC10TTL(ttl *time.Duration, expiry time.Time) time.Duration {
	c := &Config{TTL: ttl}

	return c.getCacheTTL(&TokenInfo{AccessToken: "t", TokenType: "Bearer", Expiry: expiry})
}
