//go:build verif

// Package c10 is the C10 correspondence driver ("nothing is reused from a
// cache beyond its validity").  It lives in an overlay-only package and
// reaches the unexported getCacheTTL functions through two thin export files
// injected into the authenticators and clientcredentials packages.
//
// Case kinds (see coq/Run/Eval_C10.v):
//
//	fn    one call of a real getCacheTTL
//	exec  a mechanism created by the REAL mechanism factory (prototype
//	      cache_ttl + rule-level cache_ttl), executed once against a recording
//	      cache and local httptest endpoints
//	http  one response through the real httpcache.RoundTripper into a real
//	      cache backend (memory.Cache or the redis cache talking to miniredis)
//	cache time-stamped Set/Get sequences on the two real backends
//	hist  time-stamped request sequences through a real mechanism / the round
//	      tripper with a real backend: hit/miss pattern
//
// Time is controlled through the values the driver constructs (expiry = now +
// delta); every call is bracketed by two clock readings.  Calls that read whole
// seconds are repeated when the second flips inside the bracket; calls that
// read nanoseconds are compared against the model at both ends of the bracket;
// sleeping cases are repeated when a ttl falls into a measured uncertainty
// window.
package c10

import (
	"context"
	"crypto/ecdsa"
	"crypto/elliptic"
	"crypto/rand"
	"crypto/sha256"
	"crypto/x509"
	"crypto/x509/pkix"
	"encoding/base64"
	"encoding/hex"
	"encoding/json"
	"encoding/pem"
	"errors"
	"fmt"
	"io"
	"math/big"
	"net/http"
	"net/http/httptest"
	"os"
	"path/filepath"
	"strconv"
	"strings"
	"sync"
	"sync/atomic"
	"testing"
	"time"

	"github.com/alicebob/miniredis/v2"
	"github.com/go-jose/go-jose/v4"
	"github.com/go-jose/go-jose/v4/jwt"
	"github.com/pquerna/cachecontrol/cacheobject"
	"github.com/rs/zerolog"

	"github.com/dadrus/heimdall/internal/cache"
	"github.com/dadrus/heimdall/internal/cache/memory"
	rediscache "github.com/dadrus/heimdall/internal/cache/redis"
	"github.com/dadrus/heimdall/internal/config"
	"github.com/dadrus/heimdall/internal/handler/requestcontext"
	"github.com/dadrus/heimdall/internal/httpcache"
	"github.com/dadrus/heimdall/internal/keyholder"
	"github.com/dadrus/heimdall/internal/otel/metrics/certificate"
	"github.com/dadrus/heimdall/internal/rules/mechanisms"
	"github.com/dadrus/heimdall/internal/rules/mechanisms/authenticators"
	"github.com/dadrus/heimdall/internal/rules/mechanisms/subject"
	"github.com/dadrus/heimdall/internal/rules/oauth2/clientcredentials"
	"github.com/dadrus/heimdall/internal/watcher"
	"github.com/dadrus/heimdall/internal/zzverif/vf"
)

const (
	issuer = "https://c10-issuer.example"
	sec    = int64(time.Second)
	msec   = int64(time.Millisecond)
)

// ---------------------------------------------------------------- inputs

// All times in a case are RELATIVE (so that the same seed gives the same
// input on every run); the Gallina rendering uses the observed absolute clock.
type c10Case struct {
	Kind string `json:"kind"`
	Mech string `json:"mech,omitempty"`

	// fn / exec
	St      *int64 `json:"st,omitempty"`    // fn: ttl state of the instance (ns), nil = not configured
	Conf    *int64 `json:"conf,omitempty"`  // exec/hist: prototype cache_ttl (ns), nil = not configured
	Rule    *int64 `json:"rule,omitempty"`  // exec/hist: rule-level cache_ttl (ns), nil = not set
	Delta   *int64 `json:"delta,omitempty"` // expiry relative to now (seconds; ns for client credentials), nil = absent
	Session bool   `json:"session,omitempty"`
	// exec/hist: the rule-level config carries another (harmless) option, so WithConfig runs even without a rule-level ttl
	RuleOther bool `json:"rule_other,omitempty"`
	// exec cc: through the real oauth2_client_credentials finalizer (prototype + rule-level cache_ttl) instead of Config.Token
	ViaFin bool `json:"via_finalizer,omitempty"`

	// http / cache / hist
	Backend string   `json:"backend,omitempty"` // mem | redis
	Resp    *c10Resp `json:"resp,omitempty"`
	Dflt    int64    `json:"dflt,omitempty"`
	Ops     []c10Op  `json:"ops,omitempty"`
	Evs     []c10Ev  `json:"evs,omitempty"`
}

type c10Resp struct {
	Method  string `json:"method"`
	ReqCC   string `json:"req_cc,omitempty"`
	Status  int    `json:"status"`
	CC      string `json:"cc,omitempty"`
	Date    *int64 `json:"date,omitempty"`    // Date header = now + Date seconds
	Expires *int64 `json:"expires,omitempty"` // Expires header = now + Expires seconds
	ExpRaw  string `json:"exp_raw,omitempty"` // literal Expires header (overrides Expires)
	LastMod *int64 `json:"last_mod,omitempty"`
	Vary    string `json:"vary,omitempty"`
}

type c10Op struct {
	Adv int64  `json:"adv,omitempty"` // time passing before the operation (ns)
	Op  string `json:"op"`            // set | get
	Key int    `json:"key"`
	TTL int64  `json:"ttl,omitempty"`
}

type c10Ev struct {
	Adv  int64    `json:"adv,omitempty"`
	Key  int      `json:"key"`
	Resp *c10Resp `json:"resp,omitempty"` // hist over the round tripper
}

func p64(v int64) *int64 { return &v }

// ---------------------------------------------------------------- recording cache

type recEv struct {
	get    bool
	hit    bool
	origin int // event index that stored the value (hits)
	ttl    time.Duration
	err    bool
}

type recCache struct {
	mu     sync.Mutex
	inner  cache.Cache
	cur    int
	origin map[string]int
	log    []recEv
}

func newRec(inner cache.Cache) *recCache { return &recCache{inner: inner, origin: map[string]int{}} }

func vhash(v []byte) string { h := sha256.Sum256(v); return hex.EncodeToString(h[:12]) }

func (r *recCache) Start(context.Context) error { return nil }
func (r *recCache) Stop(context.Context) error  { return nil }

func (r *recCache) Get(ctx context.Context, key string) ([]byte, error) {
	v, err := r.inner.Get(ctx, key)

	r.mu.Lock()
	defer r.mu.Unlock()

	ev := recEv{get: true, hit: err == nil, origin: -1}
	if err == nil {
		if o, ok := r.origin[vhash(v)]; ok {
			ev.origin = o
		}
	}

	r.log = append(r.log, ev)

	return v, err
}

func (r *recCache) Set(ctx context.Context, key string, value []byte, ttl time.Duration) error {
	err := r.inner.Set(ctx, key, value, ttl)

	r.mu.Lock()
	defer r.mu.Unlock()

	r.origin[vhash(value)] = r.cur
	r.log = append(r.log, recEv{ttl: ttl, err: err != nil})

	return err
}

func (r *recCache) begin(cur int) {
	r.mu.Lock()
	r.cur = cur
	r.log = nil
	r.mu.Unlock()
}

// summary of one request: was the cache looked up, did it hit (and what), which ttl went to Set
func (r *recCache) summary() (lookup, hit bool, origin int, set *int64) {
	r.mu.Lock()
	defer r.mu.Unlock()

	origin = -1

	for _, e := range r.log {
		if e.get {
			lookup = true

			if e.hit {
				hit, origin = true, e.origin
			}
		} else if set == nil {
			set = p64(int64(e.ttl))
		}
	}

	return
}

// nullCache: never stores anything
type nullCache struct{}

func (nullCache) Start(context.Context) error { return nil }
func (nullCache) Stop(context.Context) error  { return nil }
func (nullCache) Get(context.Context, string) ([]byte, error) {
	return nil, errors.New("no entry")
}
func (nullCache) Set(context.Context, string, []byte, time.Duration) error { return nil }

// ---------------------------------------------------------------- environment

type registryAdapter struct{}

func (registryAdapter) AddKeyHolder(keyholder.KeyHolder) {}
func (registryAdapter) Keys() []jose.JSONWebKey          { return nil }

type env struct {
	t    *testing.T
	srv  *httptest.Server
	ctr  atomic.Int64
	key  *ecdsa.PrivateKey
	jwks atomic.Value // []byte
	mf   mechanisms.MechanismFactory
	pal  []*int64 // prototype ttl palette
	palF []*int64 // jwt finalizer ttl palette
	jwtT string   // a JWT signed with env.key, kid "k1"
	rds  *backend // shared redis backend (miniredis), flushed per case
	// Cache-Control header the /cc/ endpoint answers with, per path (set by the driver before each request)
	ccTab sync.Map
	// expires_in the token endpoint answers with for the client ids of the oauth2_client_credentials finalizer prototypes
	tokTab sync.Map
	palH   []int64 // http_cache.default_ttl palette of the ctxhttp prototypes
}

func newEnv(t *testing.T) *env {
	t.Helper()

	e := &env{t: t}

	var err error
	if e.key, err = ecdsa.GenerateKey(elliptic.P256(), rand.Reader); err != nil {
		t.Fatal(err)
	}

	e.jwks.Store([]byte(`{"keys":[]}`))

	mux := http.NewServeMux()
	// introspection endpoint: the token tells what to answer: T.<exp|none>.<n>
	mux.HandleFunc("/intro", func(w http.ResponseWriter, r *http.Request) {
		r.ParseForm()
		parts := strings.Split(r.PostForm.Get("token"), ".")
		w.Header().Set("Content-Type", "application/json")

		if len(parts) != 3 {
			w.Write([]byte(`{"active":false}`))

			return
		}

		exp := ""
		if parts[1] != "none" {
			exp = `,"exp":` + parts[1]
		}

		fmt.Fprintf(w, `{"active":true,"sub":"u","iss":%q,"n":%d%s}`, issuer, e.ctr.Add(1), exp)
	})
	// identity info endpoint of the generic authenticator: S.<exp|none>.<n>
	mux.HandleFunc("/ident", func(w http.ResponseWriter, r *http.Request) {
		parts := strings.Split(r.Header.Get("X-Auth-Data"), ".")
		w.Header().Set("Content-Type", "application/json")

		if len(parts) != 3 {
			w.WriteHeader(http.StatusUnauthorized)

			return
		}

		exp := ""
		if parts[1] != "none" {
			exp = `,"exp":` + parts[1]
		}

		fmt.Fprintf(w, `{"active":true,"sub":"u","n":%d%s}`, e.ctr.Add(1), exp)
	})
	mux.HandleFunc("/jwks", func(w http.ResponseWriter, _ *http.Request) {
		w.Header().Set("Content-Type", "application/json")
		w.Write(e.jwks.Load().([]byte)) //nolint:forcetypeassert
	})
	mux.HandleFunc("/authz", func(w http.ResponseWriter, _ *http.Request) {
		w.Header().Set("Content-Type", "application/json")
		fmt.Fprintf(w, `{"allowed":true,"n":%d}`, e.ctr.Add(1))
	})
	mux.HandleFunc("/ctx", func(w http.ResponseWriter, _ *http.Request) {
		w.Header().Set("Content-Type", "application/json")
		fmt.Fprintf(w, `{"info":"x","n":%d}`, e.ctr.Add(1))
	})
	// endpoint behind a mechanism's `http_cache` (real Endpoint.CreateClient wiring): Cache-Control per path
	mux.HandleFunc("/cc/", func(w http.ResponseWriter, r *http.Request) {
		if cc, ok := e.ccTab.Load(r.URL.Path); ok && cc.(string) != "" { //nolint:forcetypeassert
			w.Header().Set("Cache-Control", cc.(string)) //nolint:forcetypeassert
		}

		w.Header().Set("Content-Type", "application/json")
		fmt.Fprintf(w, `{"info":"x","n":%d}`, e.ctr.Add(1))
	})
	// token endpoint: client id C.<expires_in|none>.<n>
	mux.HandleFunc("/token", func(w http.ResponseWriter, r *http.Request) {
		id, _, _ := r.BasicAuth()
		if id == "" {
			r.ParseForm()
			id = r.PostForm.Get("client_id")
		}

		parts := strings.Split(id, ".")
		w.Header().Set("Content-Type", "application/json")

		exp := ""
		if len(parts) == 3 && parts[1] != "none" {
			exp = `,"expires_in":` + parts[1]
		}

		if v, ok := e.tokTab.Load(id); ok && v.(string) != "none" { //nolint:forcetypeassert
			exp = `,"expires_in":` + v.(string) //nolint:forcetypeassert
		}

		fmt.Fprintf(w, `{"access_token":"at-%d","token_type":"Bearer"%s}`, e.ctr.Add(1), exp)
	})
	e.srv = httptest.NewServer(mux)

	// key store of the jwt finalizer
	der, err := x509.MarshalECPrivateKey(e.key)
	if err != nil {
		t.Fatal(err)
	}

	ksPath := filepath.Join(t.TempDir(), "ks.pem")
	if err = os.WriteFile(ksPath, pem.EncodeToMemory(&pem.Block{Type: "EC PRIVATE KEY", Bytes: der}), 0o600); err != nil {
		t.Fatal(err)
	}

	e.pal = []*int64{nil, p64(0), p64(-sec), p64(3 * sec), p64(5 * sec), p64(8 * sec), p64(30 * sec), p64(300 * sec),
		p64(3600 * sec), p64(60 * msec), p64(100 * msec), p64(sec)}
	e.palF = []*int64{nil, p64(1001 * msec), p64(3 * sec), p64(5 * sec), p64(5001 * msec), p64(6 * sec), p64(30 * sec),
		p64(300 * sec), p64(3600 * sec)}

	withTTL := func(c config.MechanismConfig, key string, v *int64) config.MechanismConfig {
		if v != nil {
			c[key] = time.Duration(*v).String()
		}

		return c
	}

	protos := &config.MechanismPrototypes{}

	for i, v := range e.pal {
		protos.Authenticators = append(protos.Authenticators,
			config.Mechanism{ID: fmt.Sprintf("intro_%d", i), Type: "oauth2_introspection", Config: withTTL(config.MechanismConfig{
				"introspection_endpoint": map[string]any{"url": e.srv.URL + "/intro"},
				"assertions":             map[string]any{"issuers": []any{issuer}},
			}, "cache_ttl", v)},
			config.Mechanism{ID: fmt.Sprintf("jwtkey_%d", i), Type: "jwt", Config: withTTL(config.MechanismConfig{
				"jwks_endpoint": map[string]any{"url": e.srv.URL + "/jwks"},
				"assertions":    map[string]any{"issuers": []any{issuer}},
				"validate_jwk":  false,
			}, "cache_ttl", v)},
		)

		for _, sess := range []bool{false, true} {
			c := config.MechanismConfig{
				"identity_info_endpoint": map[string]any{
					"url": e.srv.URL + "/ident", "method": "GET",
					"headers": map[string]any{"X-Auth-Data": "{{ .AuthenticationData }}"},
				},
				"authentication_data_source": []any{map[string]any{"header": "X-Session"}},
				"subject":                    map[string]any{"id": "sub"},
			}
			if sess {
				c["session_lifespan"] = map[string]any{"active": "active", "not_after": "exp"}
			}

			protos.Authenticators = append(protos.Authenticators,
				config.Mechanism{ID: fmt.Sprintf("generic_%t_%d", sess, i), Type: "generic", Config: withTTL(c, "cache_ttl", v)})
		}

		protos.Authorizers = append(protos.Authorizers,
			config.Mechanism{ID: fmt.Sprintf("remote_%d", i), Type: "remote", Config: withTTL(config.MechanismConfig{
				"endpoint": map[string]any{"url": e.srv.URL + "/authz"},
				"payload":  "{{ .Subject.ID }}",
			}, "cache_ttl", v)})
		protos.Contextualizers = append(protos.Contextualizers,
			config.Mechanism{ID: fmt.Sprintf("ctx_%d", i), Type: "generic", Config: withTTL(config.MechanismConfig{
				"endpoint": map[string]any{"url": e.srv.URL + "/ctx"},
				"payload":  "{{ .Subject.ID }}",
			}, "cache_ttl", v)})
	}

	// contextualizers whose own cache is off and whose endpoint uses the RFC 7234 http cache
	e.palH = []int64{0, 5 * sec, -sec}
	for i, d := range e.palH {
		hc := map[string]any{"enabled": true}
		if d != 0 {
			hc["default_ttl"] = time.Duration(d).String()
		}

		protos.Contextualizers = append(protos.Contextualizers,
			config.Mechanism{ID: fmt.Sprintf("ctxhttp_%d", i), Type: "generic", Config: config.MechanismConfig{
				"endpoint":  map[string]any{"url": e.srv.URL + "/cc/{{ .Subject.ID }}", "method": "GET", "http_cache": hc},
				"cache_ttl": "0s",
			}})
	}

	for i, v := range e.pal {
		protos.Finalizers = append(protos.Finalizers,
			config.Mechanism{ID: fmt.Sprintf("ccfin_%d", i), Type: "oauth2_client_credentials", Config: withTTL(config.MechanismConfig{
				"token_url": e.srv.URL + "/token", "client_id": fmt.Sprintf("ccfin-%d", i), "client_secret": "s",
			}, "cache_ttl", v)})
	}

	for i, v := range e.palF {
		protos.Finalizers = append(protos.Finalizers,
			config.Mechanism{ID: fmt.Sprintf("jwtfin_%d", i), Type: "jwt", Config: withTTL(config.MechanismConfig{
				"signer": map[string]any{"key_store": map[string]any{"path": ksPath}},
			}, "ttl", v)})
	}

	e.mf, err = mechanisms.NewMechanismFactory(&config.Configuration{Prototypes: protos}, zerolog.Nop(),
		&watcher.NoopWatcher{}, registryAdapter{}, certificate.NewObserver())
	if err != nil {
		t.Fatal(err)
	}

	// a JWT for the jwt authenticator (valid for a day)
	sig, err := jose.NewSigner(jose.SigningKey{Algorithm: jose.ES256, Key: e.key},
		(&jose.SignerOptions{}).WithType("JWT").WithHeader("kid", "k1"))
	if err != nil {
		t.Fatal(err)
	}

	now := time.Now()

	e.jwtT, err = jwt.Signed(sig).Claims(jwt.Claims{
		Issuer: issuer, Subject: "u", Expiry: jwt.NewNumericDate(now.Add(24 * time.Hour)),
		IssuedAt: jwt.NewNumericDate(now.Add(-time.Minute)),
	}).Serialize()
	if err != nil {
		t.Fatal(err)
	}

	return e
}

func (e *env) close() {
	e.srv.Close()

	if e.rds != nil {
		e.rds.c.Stop(context.Background())
		e.rds.mr.Close()
	}
}

// JWKS with the key "k1", optionally with a self-signed certificate expiring at notAfter
func (e *env) setJWKS(notAfter *int64) {
	jwk := jose.JSONWebKey{Key: &e.key.PublicKey, KeyID: "k1", Algorithm: "ES256", Use: "sig"}

	if notAfter != nil {
		na := time.Unix(*notAfter, 0)
		tpl := &x509.Certificate{
			SerialNumber: big.NewInt(e.ctr.Add(1)),
			Subject:      pkix.Name{CommonName: "c10"},
			NotBefore:    na.Add(-48 * time.Hour),
			NotAfter:     na,
			KeyUsage:     x509.KeyUsageDigitalSignature,
		}

		der, err := x509.CreateCertificate(rand.Reader, tpl, tpl, &e.key.PublicKey, e.key)
		if err != nil {
			e.t.Fatal(err)
		}

		crt, err := x509.ParseCertificate(der)
		if err != nil {
			e.t.Fatal(err)
		}

		jwk.Certificates = []*x509.Certificate{crt}
	}

	b, err := json.Marshal(jose.JSONWebKeySet{Keys: []jose.JSONWebKey{jwk}})
	if err != nil {
		e.t.Fatal(err)
	}

	e.jwks.Store(b)
}

func palIndex(pal []*int64, v *int64) int {
	for i, p := range pal {
		if (p == nil) == (v == nil) && (p == nil || *p == *v) {
			return i
		}
	}

	return -1
}

// ---------------------------------------------------------------- backends

type backend struct {
	name string
	c    cache.Cache
	mr   *miniredis.Miniredis
}

// newBackend: a fresh in-memory cache, or the shared redis cache (real client, miniredis as server) flushed.
// Only in-memory cases run concurrently.
func (e *env) newBackend(name string) *backend {
	if name == "mem" {
		c, err := memory.NewCache(nil, nil, nil)
		if err != nil {
			panic(err)
		}

		return &backend{name: name, c: c}
	}

	if e.rds != nil {
		e.rds.mr.FlushAll()

		return e.rds
	}

	mr := miniredis.NewMiniRedis()
	if err := mr.Start(); err != nil {
		panic(err)
	}

	c, err := rediscache.NewStandaloneCache(map[string]any{
		"address":      mr.Addr(),
		"client_cache": map[string]any{"disabled": true},
		"tls":          map[string]any{"disabled": true},
	}, nil, nil)
	if err != nil {
		mr.Close()
		panic(err)
	}

	e.rds = &backend{name: name, c: c, mr: mr}

	return e.rds
}

// close: nothing to do (ttlcache.Stop blocks unless Start was called; the redis backend is shared)
func (b *backend) close() {}

// advance lets d pass: real sleep for the memory cache, FastForward for miniredis
func (b *backend) advance(d time.Duration) {
	if d <= 0 {
		return
	}

	if b.mr != nil {
		b.mr.FastForward(d)
	} else {
		time.Sleep(d)
	}
}

func coqBackend(name string) string {
	if name == "mem" {
		return "Mem"
	}

	return "Redis"
}

// ---------------------------------------------------------------- rendering helpers

var mechCoq = map[string]string{
	"intro": "MIntro", "jwtkey": "MJwtKey", "generic": "MGeneric", "cc": "MClientCred",
	"jwtfin": "MJwtFin", "remote": "MRemote", "ctx": "MCtx",
}

func secondsBased(m string) bool { return m == "intro" || m == "jwtkey" || m == "generic" }

func optZ(v *int64) string {
	if v == nil {
		return "None"
	}

	return vf.CoqOpt(true, vf.CoqZ(*v))
}

func dur(v *int64) *time.Duration {
	if v == nil {
		return nil
	}

	d := time.Duration(*v)

	return &d
}

const maxTries = 25

// ---------------------------------------------------------------- kind fn

type fnObs struct {
	Now  int64  `json:"now"`
	Dmax int64  `json:"dmax"`
	Exp  *int64 `json:"exp,omitempty"`
	TTL  int64  `json:"ttl"`
}

func runFn(c *c10Case) (fnObs, string) {
	var o fnObs

	for try := 0; try < maxTries; try++ {
		if secondsBased(c.Mech) {
			s0 := time.Now().Unix()

			var exp *int64
			if c.Delta != nil {
				exp = p64(s0 + *c.Delta)
			}

			var ttl time.Duration

			switch c.Mech {
			case "intro":
				ttl = authenticators.VerifC10IntrospectionTTL(dur(c.St), exp)
			case "jwtkey":
				ttl = authenticators.VerifC10JwtKeyTTL(dur(c.St), exp)
			default:
				ttl = authenticators.VerifC10GenericTTL(time.Duration(*c.St), c.Session, exp)
			}

			if time.Now().Unix() != s0 {
				continue // the second flipped during the call
			}

			o = fnObs{Now: s0 * sec, Exp: exp, TTL: int64(ttl)}

			break
		}

		// client credentials: nanoseconds, bracket
		t0 := time.Now()

		var (
			expiry time.Time
			exp    *int64
		)

		if c.Delta != nil {
			expiry = t0.Add(time.Duration(*c.Delta))
			exp = p64(t0.UnixNano() + *c.Delta)
		}

		ttl := clientcredentials.VerifC10TTL(dur(c.St), expiry)
		dmax := int64(time.Since(t0))

		if c.Delta != nil {
			if rem := *c.Delta - 5*sec; rem > 0 && rem <= dmax+1000 {
				continue // sign of the remaining lifetime not determined by the bracket
			}
		}

		o = fnObs{Now: t0.UnixNano(), Dmax: dmax, Exp: exp, TTL: int64(ttl)}

		break
	}

	st := c.St
	if c.Mech == "generic" && !c.Session {
		// no session lifespan object: the model's "no expiry information"
		o.Exp = nil
	}

	coq := vf.CoqApp("CFn", mechCoq[c.Mech], optZ(st), optZ(o.Exp), vf.CoqZ(o.Now), vf.CoqZ(o.Dmax), vf.CoqZ(o.TTL))

	return o, coq
}

// ---------------------------------------------------------------- kind exec

type execObs struct {
	Now    int64  `json:"now"`
	Dmax   int64  `json:"dmax"`
	Exp    *int64 `json:"exp,omitempty"`
	OK     bool   `json:"ok"`
	Lookup bool   `json:"lookup"`
	Set    *int64 `json:"set,omitempty"`
	TokExp *int64 `json:"tok_exp,omitempty"`
	Err    string `json:"err,omitempty"`
}

var otherOption = map[string][2]any{
	"intro":   {"allow_fallback_on_error", true},
	"jwtkey":  {"allow_fallback_on_error", true},
	"generic": {"allow_fallback_on_error", true},
	"remote":  {"forward_response_headers_to_upstream", []any{"X-C10"}},
	"ctx":     {"forward_headers", []any{"X-C10"}},
	"jwtfin":  {"claims", `{"c10":"x"}`},
	"cc":      {"scopes", []any{"a"}},
}

func (c *c10Case) ruleConf(key string) config.MechanismConfig {
	var rc config.MechanismConfig

	if c.Rule != nil {
		rc = config.MechanismConfig{key: time.Duration(*c.Rule).String()}
	}

	if c.RuleOther {
		if rc == nil {
			rc = config.MechanismConfig{}
		}

		o := otherOption[c.Mech]
		rc[o[0].(string)] = o[1] //nolint:forcetypeassert
	}

	return rc
}

func newReq(ctx context.Context, hdr map[string]string) *requestcontext.RequestContext {
	req := httptest.NewRequest(http.MethodGet, "http://c10.example/resource", nil).WithContext(ctx)
	for k, v := range hdr {
		req.Header.Set(k, v)
	}

	return requestcontext.New(req)
}

// execOnce runs one request of mechanism c.Mech (created from prototype conf +
// rule-level override) with subject/key `key`; exp is the absolute expiry to be
// reported by the remote system.  Returns error text ("" = success) and the
// token expiry for the jwt finalizer.
func (e *env) execOnce(ctx context.Context, c *c10Case, key int, exp *int64) (string, *int64, error) {
	expS := "none"
	if exp != nil {
		expS = strconv.FormatInt(*exp, 10)
	}

	sub := &subject.Subject{ID: fmt.Sprintf("u%d", key), Attributes: map[string]any{}}

	switch c.Mech {
	case "intro":
		a, err := e.mf.CreateAuthenticator("1alpha4", fmt.Sprintf("intro_%d", palIndex(e.pal, c.Conf)), c.ruleConf("cache_ttl"))
		if err != nil {
			return "", nil, err
		}

		_, xerr := a.Execute(newReq(ctx, map[string]string{"Authorization": fmt.Sprintf("Bearer T.%s.k%d", expS, key)}))

		return errText(xerr), nil, nil
	case "jwtkey":
		a, err := e.mf.CreateAuthenticator("1alpha4", fmt.Sprintf("jwtkey_%d", palIndex(e.pal, c.Conf)), c.ruleConf("cache_ttl"))
		if err != nil {
			return "", nil, err
		}

		_, xerr := a.Execute(newReq(ctx, map[string]string{"Authorization": "Bearer " + e.jwtT}))

		return errText(xerr), nil, nil
	case "generic":
		a, err := e.mf.CreateAuthenticator("1alpha4", fmt.Sprintf("generic_%t_%d", c.Session, palIndex(e.pal, c.Conf)),
			c.ruleConf("cache_ttl"))
		if err != nil {
			return "", nil, err
		}

		_, xerr := a.Execute(newReq(ctx, map[string]string{"X-Session": fmt.Sprintf("S.%s.k%d", expS, key)}))

		return errText(xerr), nil, nil
	case "remote":
		a, err := e.mf.CreateAuthorizer("1alpha4", fmt.Sprintf("remote_%d", palIndex(e.pal, c.Conf)), c.ruleConf("cache_ttl"))
		if err != nil {
			return "", nil, err
		}

		return errText(a.Execute(newReq(ctx, nil), sub)), nil, nil
	case "ctx":
		a, err := e.mf.CreateContextualizer("1alpha4", fmt.Sprintf("ctx_%d", palIndex(e.pal, c.Conf)), c.ruleConf("cache_ttl"))
		if err != nil {
			return "", nil, err
		}

		return errText(a.Execute(newReq(ctx, nil), sub)), nil, nil
	case "jwtfin":
		a, err := e.mf.CreateFinalizer("1alpha4", fmt.Sprintf("jwtfin_%d", palIndex(e.palF, c.Conf)), c.ruleConf("ttl"))
		if err != nil {
			return "", nil, err
		}

		rc := newReq(ctx, nil)
		if xerr := a.Execute(rc, sub); xerr != nil {
			return errText(xerr), nil, nil
		}

		tok := strings.TrimPrefix(rc.UpstreamHeaders().Get("Authorization"), "Bearer ")
		parts := strings.Split(tok, ".")

		if len(parts) != 3 {
			return "", nil, fmt.Errorf("finalizer produced no JWT: %q", tok)
		}

		raw, err := base64.RawURLEncoding.DecodeString(parts[1])
		if err != nil {
			return "", nil, err
		}

		var claims struct {
			Exp int64 `json:"exp"`
		}
		if err = json.Unmarshal(raw, &claims); err != nil {
			return "", nil, err
		}

		return "", p64(claims.Exp), nil
	case "cc":
		if c.ViaFin {
			i := palIndex(e.pal, c.Conf)
			e.tokTab.Store(fmt.Sprintf("ccfin-%d", i), expS)

			a, err := e.mf.CreateFinalizer("1alpha4", fmt.Sprintf("ccfin_%d", i), c.ruleConf("cache_ttl"))
			if err != nil {
				return "", nil, err
			}

			return errText(a.Execute(newReq(ctx, nil), sub)), nil, nil
		}

		cfg := &clientcredentials.Config{
			TokenURL: e.srv.URL + "/token", ClientID: fmt.Sprintf("C.%s.k%d", expS, key), ClientSecret: "s", TTL: dur(c.Conf),
		}

		_, xerr := cfg.Token(ctx)

		return errText(xerr), nil, nil
	}

	return "", nil, fmt.Errorf("unknown mechanism %q", c.Mech)
}

func errText(err error) string {
	if err == nil {
		return ""
	}

	return "error: " + err.Error()
}

func (e *env) runExec(c *c10Case) (execObs, string) {
	var o execObs

	for try := 0; try < maxTries; try++ {
		rec := newRec(nullCache{})
		ctx := cache.WithContext(context.Background(), rec)
		t0 := time.Now()
		s0 := t0.Unix()

		var exp *int64 // as the remote system reports it

		switch {
		case c.Delta == nil:
		case c.Mech == "cc":
			exp = p64(*c.Delta / sec) // expires_in, whole seconds
		default:
			exp = p64(s0 + *c.Delta)
		}

		if c.Mech == "jwtkey" {
			e.setJWKS(exp)
		}

		rec.begin(0)

		etxt, tokExp, err := e.execOnce(ctx, c, 1, exp)
		if err != nil {
			e.t.Fatalf("exec %+v: %v", c, err)
		}

		dmax := int64(time.Since(t0))
		lookup, _, _, set := rec.summary()
		o = execObs{OK: etxt == "", Lookup: lookup, Set: set, TokExp: tokExp, Err: etxt}

		if secondsBased(c.Mech) {
			if time.Now().Unix() != s0 {
				continue
			}

			o.Now, o.Dmax, o.Exp = s0*sec, 0, exp
		} else {
			o.Now, o.Dmax = t0.UnixNano(), dmax
			if c.Mech == "cc" && exp != nil {
				o.Exp = p64(t0.UnixNano() + *exp*sec)
				if rem := *exp*sec - 5*sec; rem > 0 && rem <= dmax+1000 {
					continue
				}
			}
		}

		break
	}

	exp := o.Exp
	if c.Mech == "generic" && !c.Session {
		exp = nil
	}

	coq := vf.CoqApp("CExec", mechCoq[c.Mech], optZ(c.Conf), optZ(c.Rule), optZ(exp), vf.CoqZ(o.Now), vf.CoqZ(o.Dmax),
		vf.CoqApp("eo", vf.CoqBool(o.OK), vf.CoqBool(o.Lookup), optZ(o.Set), optZ(o.TokExp)))

	return o, coq
}

// ---------------------------------------------------------------- kind http

type stubTransport struct {
	calls atomic.Int64
	make  func(n int64, req *http.Request) *http.Response
}

func (s *stubTransport) RoundTrip(req *http.Request) (*http.Response, error) {
	return s.make(s.calls.Add(1), req), nil
}

func (r *c10Resp) header(now time.Time) http.Header {
	h := http.Header{}
	h.Set("Content-Type", "text/plain")

	if r.CC != "" {
		h.Set("Cache-Control", r.CC)
	}

	if r.Date != nil {
		h.Set("Date", now.Add(time.Duration(*r.Date)*time.Second).UTC().Format(http.TimeFormat))
	}

	switch {
	case r.ExpRaw != "":
		h.Set("Expires", r.ExpRaw)
	case r.Expires != nil:
		h.Set("Expires", now.Add(time.Duration(*r.Expires)*time.Second).UTC().Format(http.TimeFormat))
	}

	if r.Vary != "" {
		h.Set("Vary", r.Vary)
	}

	if r.LastMod != nil {
		h.Set("Last-Modified", now.Add(time.Duration(*r.LastMod)*time.Second).UTC().Format(http.TimeFormat))
	}

	return h
}

func (r *c10Resp) request(ctx context.Context, key int) *http.Request {
	req, _ := http.NewRequestWithContext(ctx, r.Method, fmt.Sprintf("http://c10-remote.example/res/%d", key), nil)
	if r.ReqCC != "" {
		req.Header.Set("Cache-Control", r.ReqCC)
	}

	return req
}

func response(req *http.Request, status int, h http.Header, body string) *http.Response {
	return &http.Response{
		Status: fmt.Sprintf("%d %s", status, http.StatusText(status)), StatusCode: status,
		Proto: "HTTP/1.1", ProtoMajor: 1, ProtoMinor: 1,
		Header: h.Clone(), Body: io.NopCloser(strings.NewReader(body)), ContentLength: int64(len(body)), Request: req,
	}
}

// oracle: what the RFC 7234 library says about this request/response (cachable?, freshness lifetime)
func oracle(req *http.Request, status int, h http.Header) (bool, *int64) {
	reasons, expires, _, obj, err := cacheobject.UsingRequestResponseWithObject(req, status, h, true)
	if err != nil || len(reasons) != 0 {
		return false, nil
	}

	if expires.IsZero() {
		return true, nil
	}

	return true, p64(int64(expires.Sub(obj.NowUTC)))
}

type httpObs struct {
	MethodOK bool   `json:"method_ok"`
	Vary     bool   `json:"vary"`
	Lookup   bool   `json:"lookup"`
	Cachable bool   `json:"cachable"`
	Life     *int64 `json:"life,omitempty"`
	Dmax     int64  `json:"dmax"`
	Set      *int64 `json:"set,omitempty"`
	Hit      bool   `json:"hit"`
}

func (e *env) runHTTP(c *c10Case) (httpObs, string) {
	var o httpObs

	for try := 0; try < maxTries; try++ {
		be := e.newBackend(c.Backend)
		rec := newRec(be.c)
		ctx := cache.WithContext(context.Background(), rec)

		now := time.Now()
		hdr := c.Resp.header(now)
		stub := &stubTransport{make: func(n int64, req *http.Request) *http.Response {
			return response(req, c.Resp.Status, hdr, fmt.Sprintf("body-%d", n))
		}}
		rt := &httpcache.RoundTripper{Transport: stub, DefaultCacheTTL: time.Duration(c.Dflt)}

		// the bracket starts before the oracle call: an Expires header without a Date header is an absolute
		// instant, so its lifetime shrinks between the oracle's clock reading and the one inside cacheResponse
		t0 := time.Now()

		cachable, life := oracle(c.Resp.request(ctx, 1), c.Resp.Status, hdr)

		rec.begin(0)

		resp, err := rt.RoundTrip(c.Resp.request(ctx, 1))
		if err != nil {
			e.t.Fatal(err)
		}

		io.Copy(io.Discard, resp.Body)

		lookup, _, _, set := rec.summary()

		rec.begin(1)

		resp, err = rt.RoundTrip(c.Resp.request(ctx, 1))
		if err != nil {
			e.t.Fatal(err)
		}

		io.Copy(io.Discard, resp.Body)

		dmax := int64(time.Since(t0))
		hit := stub.calls.Load() == 1

		be.close()

		o = httpObs{
			MethodOK: c.Resp.Method == http.MethodGet || c.Resp.Method == http.MethodHead, Vary: c.Resp.Vary != "",
			Lookup: lookup, Cachable: cachable, Life: life, Dmax: dmax, Set: set, Hit: hit,
		}

		// lifetime too close to the measured uncertainty (positive but tiny): repeat
		l := life
		if l == nil && c.Dflt != 0 {
			l = p64(c.Dflt)
		}

		if cachable && l != nil && *l > 0 && *l <= 4*dmax+2*msec {
			continue
		}

		break
	}

	coq := vf.CoqApp("CHttp", coqBackend(c.Backend), vf.CoqBool(o.MethodOK), vf.CoqBool(o.Vary), vf.CoqBool(o.Cachable),
		optZ(o.Life), vf.CoqZ(c.Dflt), vf.CoqZ(o.Dmax), vf.CoqBool(o.Lookup), optZ(o.Set), vf.CoqBool(o.Hit))

	return o, coq
}

// ---------------------------------------------------------------- kind cache

type opObs struct {
	T   int64  `json:"t"`
	OK  bool   `json:"ok,omitempty"`
	Val *int64 `json:"val,omitempty"`
}

const margin = 2 * msec

// one Set remembered for the ambiguity test: ttl inside [lo, hi] around a later probe => undetermined
type setMark struct{ a, b, ttl int64 }

func ambiguous(m setMark, a, b int64) bool {
	if m.ttl <= 0 {
		return false
	}

	return a-m.b-margin <= m.ttl && m.ttl <= b-m.a+margin
}

func (e *env) runCache(c *c10Case) ([]opObs, string, bool) {
	var (
		obs  []opObs
		coq  string
		ambi bool
	)

	for try := 0; try < 6; try++ {
		be := e.newBackend(c.Backend)
		ctx := context.Background()
		base := time.Now()
		sim := base.UnixNano()
		marks := map[int]setMark{}
		val := int64(0)

		var items []string

		obs, ambi = nil, false

		for _, op := range c.Ops {
			be.advance(time.Duration(op.Adv))
			sim += op.Adv

			a := sim
			if be.mr == nil {
				a = base.UnixNano() + int64(time.Since(base))
			}

			key := fmt.Sprintf("key-%d", op.Key)

			if op.Op == "set" {
				val++
				err := be.c.Set(ctx, key, []byte(strconv.FormatInt(val, 10)), time.Duration(op.TTL))

				b := a
				if be.mr == nil {
					b = base.UnixNano() + int64(time.Since(base))
				}

				if err == nil {
					if op.TTL == -2 && be.mr == nil {
						if m, ok := marks[op.Key]; ok {
							marks[op.Key] = setMark{a: m.a, b: m.b, ttl: m.ttl}
						} else {
							marks[op.Key] = setMark{a: a, b: b, ttl: 0}
						}
					} else {
						marks[op.Key] = setMark{a: a, b: b, ttl: op.TTL}
					}
				}

				obs = append(obs, opObs{T: a, OK: err == nil})
				items = append(items, vf.CoqApp("OSet", vf.CoqZ(a), vf.CoqZ(int64(op.Key)), vf.CoqZ(val), vf.CoqZ(op.TTL), vf.CoqBool(err == nil)))

				continue
			}

			v, err := be.c.Get(ctx, key)

			b := a
			if be.mr == nil {
				b = base.UnixNano() + int64(time.Since(base))
			}

			if m, ok := marks[op.Key]; ok && be.mr == nil && ambiguous(m, a, b) {
				ambi = true
			}

			var got *int64

			if err == nil {
				n, perr := strconv.ParseInt(string(v), 10, 64)
				if perr != nil {
					panic(fmt.Sprintf("cache returned %q", v))
				}

				got = p64(n)
			}

			obs = append(obs, opObs{T: a, Val: got})
			items = append(items, vf.CoqApp("OGet", vf.CoqZ(a), vf.CoqZ(int64(op.Key)), optZ(got)))
		}

		be.close()

		coq = vf.CoqApp("CCache", coqBackend(c.Backend), vf.CoqList(items))

		if !ambi {
			break
		}
	}

	return obs, coq, ambi
}

// ---------------------------------------------------------------- kind hist

type evObs struct {
	T      int64  `json:"t"`
	Hit    bool   `json:"hit"`
	Origin int    `json:"origin,omitempty"`
	Set    *int64 `json:"set,omitempty"`
	Exp    *int64 `json:"exp,omitempty"`
}

func (e *env) runHist(c *c10Case) ([]evObs, string, bool) {
	var (
		obs  []evObs
		coq  string
		ambi bool
	)

	for try := 0; try < 6; try++ {
		be := e.newBackend(c.Backend)
		rec := newRec(be.c)
		ctx := cache.WithContext(context.Background(), rec)
		base := time.Now()
		sim := base.UnixNano()
		marks := map[int]setMark{}
		maxDur := int64(0)

		var (
			evs, outs []string
			stub      *stubTransport
			rt        *httpcache.RoundTripper
			curHdr    http.Header
			curStatus int
		)

		isHTTP := c.Mech == "http" || c.Mech == "ctxhttp"
		caseID := e.ctr.Add(1)

		if c.Mech == "http" {
			stub = &stubTransport{make: func(n int64, req *http.Request) *http.Response {
				return response(req, curStatus, curHdr, fmt.Sprintf("body-%d-%d", n, e.ctr.Add(1)))
			}}
			rt = &httpcache.RoundTripper{Transport: stub, DefaultCacheTTL: time.Duration(c.Dflt)}
		}

		// expiry reported by the remote system for introspection: far away
		farExp := p64(base.Unix() + 7200)

		obs, ambi = nil, false

		for i, ev := range c.Evs {
			be.advance(time.Duration(ev.Adv))
			sim += ev.Adv

			a := sim
			if be.mr == nil {
				a = base.UnixNano() + int64(time.Since(base))
			}

			rec.begin(i)

			var rexp *int64 // r_exp of the fresh answer, in the unit of the model

			start := time.Now()

			if c.Mech == "ctxhttp" {
				// the real client wiring: contextualizer -> Endpoint.CreateClient -> httpcache.RoundTripper -> httptest server
				path := fmt.Sprintf("h%d-%d", caseID, ev.Key)
				e.ccTab.Store("/cc/"+path, ev.Resp.CC)

				hdr := http.Header{}
				hdr.Set("Date", start.UTC().Format(http.TimeFormat)) // net/http adds a Date header

				if ev.Resp.CC != "" {
					hdr.Set("Cache-Control", ev.Resp.CC)
				}

				_, life := oracle(ev.Resp.request(ctx, ev.Key), http.StatusOK, hdr)

				di := 0
				for i, d := range e.palH {
					if d == c.Dflt {
						di = i
					}
				}

				mech, err := e.mf.CreateContextualizer("1alpha4", fmt.Sprintf("ctxhttp_%d", di), nil)
				if err != nil {
					panic(err)
				}

				start = time.Now()

				if be.mr == nil {
					a = base.UnixNano() + int64(start.Sub(base))
				}

				if life != nil {
					rexp = p64(a + *life)
				}

				if err = mech.Execute(newReq(ctx, nil), &subject.Subject{ID: path, Attributes: map[string]any{}}); err != nil {
					panic(fmt.Sprintf("ctxhttp %+v: %v", c, err))
				}
			} else if c.Mech == "http" {
				curHdr, curStatus = ev.Resp.header(start), ev.Resp.Status
				_, life := oracle(ev.Resp.request(ctx, ev.Key), curStatus, curHdr)

				start = time.Now()

				if be.mr == nil {
					a = base.UnixNano() + int64(start.Sub(base))
				}

				if life != nil {
					rexp = p64(a + *life)
				}

				resp, err := rt.RoundTrip(ev.Resp.request(ctx, ev.Key))
				if err != nil {
					panic(err)
				}

				io.Copy(io.Discard, resp.Body)
			} else {
				var exp *int64
				if c.Mech == "intro" {
					exp, rexp = farExp, farExp
				}

				etxt, _, err := e.execOnce(ctx, c, ev.Key, exp)
				if err != nil || etxt != "" {
					panic(fmt.Sprintf("hist %+v: %v %s", c, err, etxt))
				}
			}

			d := int64(time.Since(start))
			if d > maxDur {
				maxDur = d
			}

			b := a
			if be.mr == nil {
				b = a + d
			}

			_, hit, origin, set := rec.summary()

			if m, ok := marks[ev.Key]; ok && be.mr == nil && ambiguous(m, a, b) {
				ambi = true
			}

			if m, ok := marks[ev.Key]; ok && be.mr != nil && m.ttl > 0 {
				// simulated clock is exact; PX truncation and time.Until lose < 1 ms + the call duration
				if el := a - m.a; el >= m.ttl-d-2*msec && el <= m.ttl+msec {
					ambi = true
				}
			}

			if !hit && set != nil {
				stored := true
				if be.mr != nil && *set < msec {
					stored = false
				}

				if stored {
					marks[ev.Key] = setMark{a: a, b: b, ttl: *set}
				}
			}

			obs = append(obs, evObs{T: a, Hit: hit, Origin: origin, Set: set, Exp: rexp})
			evs = append(evs, vf.CoqApp("mkev", vf.CoqZ(a), vf.CoqZ(int64(ev.Key)), vf.CoqZ(int64(i)), optZ(rexp)))

			if hit {
				outs = append(outs, vf.CoqApp("HHit", vf.CoqZ(int64(origin))))
			} else {
				outs = append(outs, vf.CoqApp("HMiss", optZ(set)))
			}
		}

		be.close()

		var hk string
		if isHTTP {
			hk = vf.CoqApp("HHttp", vf.CoqZ(c.Dflt))
		} else {
			hk = vf.CoqApp("HMech", mechCoq[c.Mech], optZ(c.Conf), optZ(c.Rule))
		}

		coq = vf.CoqApp("CHist", coqBackend(c.Backend), hk, vf.CoqZ(maxDur+msec), vf.CoqList(evs), vf.CoqList(outs))

		if !ambi {
			break
		}
	}

	return obs, coq, ambi
}

// ---------------------------------------------------------------- generators

var (
	deltaGrid = []int64{-86400, -3600, -60, -21, -20, -19, -12, -11, -10, -9, -8, -6, -5, -4, -1, 0, 1, 2, 4, 5, 6, 8, 9, 10, 11, 12,
		13, 15, 19, 20, 21, 30, 59, 60, 61, 299, 300, 301, 309, 310, 311, 599, 600, 601, 609, 610, 611, 3600, 86400}
	stGrid = []int64{0, -1, -sec, 1, msec, sec, 3 * sec, 5 * sec, 10 * sec, 30 * sec, 300 * sec, 600 * sec, 3600 * sec}
)

func genDelta(r *vf.Rand, leeway int64) *int64 {
	switch {
	case r.Chance(12):
		return nil
	case r.Chance(45):
		// around the leeway and around now
		return p64(vf.Pick(r, []int64{0, leeway, -leeway, 2 * leeway}) + int64(r.Range(-2, 2)))
	default:
		return p64(vf.Pick(r, deltaGrid))
	}
}

func genFn(r *vf.Rand) c10Case {
	c := c10Case{Kind: "fn", Mech: vf.Pick(r, []string{"intro", "intro", "jwtkey", "jwtkey", "generic", "cc", "cc"})}
	leeway := int64(10)

	if c.Mech == "cc" {
		leeway = 5
	}

	c.Delta = genDelta(r, leeway)

	switch {
	case r.Chance(20) && c.Mech != "generic":
		c.St = nil
	case r.Chance(30) && c.Delta != nil:
		// configured ttl next to the remaining lifetime
		c.St = p64((*c.Delta-leeway)*sec + int64(r.Range(-1, 1))*sec)
	default:
		c.St = p64(vf.Pick(r, stGrid))
	}

	if c.Mech == "generic" {
		c.Session = !r.Chance(15)
		if c.St == nil {
			c.St = p64(0)
		}
	}

	if c.Mech == "cc" && c.Delta != nil {
		// nanoseconds; a sub-second offset in a share of the cases
		d := *c.Delta * sec
		if r.Chance(30) {
			d += vf.Pick(r, []int64{-500 * msec, -50 * msec, 50 * msec, 500 * msec})
		}

		c.Delta = p64(d)
	}

	return c
}

func (e *env) genExec(r *vf.Rand) c10Case {
	c := c10Case{Kind: "exec", Mech: vf.Pick(r, []string{"intro", "intro", "jwtkey", "generic", "generic", "cc", "jwtfin", "remote", "remote", "ctx"})}
	pal := e.pal[:9] // second-scale values only

	switch c.Mech {
	case "jwtfin":
		c.Conf = vf.Pick(r, e.palF)
		if r.Chance(50) {
			c.Rule = vf.Pick(r, e.palF[1:])
		}

		c.RuleOther = r.Chance(30)

		return c
	case "cc":
		c.Conf = vf.Pick(r, pal)

		if c.ViaFin = r.Chance(50); c.ViaFin {
			c.RuleOther = r.Chance(30)
			if r.Chance(55) {
				c.Rule = vf.Pick(r, pal[1:])
			}
		}

		if r.Chance(85) {
			c.Delta = p64(vf.Pick(r, []int64{1, 3, 4, 5, 6, 7, 10, 60, 299, 300, 305, 306, 3600}) * sec)
		}

		return c
	}

	c.Conf = vf.Pick(r, pal)
	c.RuleOther = r.Chance(30)

	if r.Chance(55) {
		c.Rule = vf.Pick(r, pal[1:])
		if r.Chance(25) {
			c.Rule = p64(0)
		}
	}

	switch c.Mech {
	case "intro", "jwtkey":
		c.Delta = genDelta(r, 10)
	case "generic":
		c.Session = !r.Chance(20)
		if c.Session {
			c.Delta = genDelta(r, 10)
		}
	}

	if c.Delta != nil && r.Chance(25) && *c.Delta > 11 {
		// rule-level ttl next to the remaining lifetime
		c.Rule = p64((*c.Delta - 10 + int64(r.Range(-1, 1))) * sec)
	}

	return c
}

var (
	ccPool = []string{"", "", "max-age=0", "max-age=0", "max-age=1", "max-age=5", "max-age=3600", "no-store", "no-cache", "private",
		"private, max-age=60", "public, max-age=30", "s-maxage=10", "max-age=0, s-maxage=100", "must-revalidate, max-age=2",
		"max-age=-5", "max-age=abc", "max-age=86400, no-store"}
	statusPool = []int{200, 200, 200, 200, 200, 203, 204, 206, 301, 302, 404, 410, 500, 503}
)

func genResp(r *vf.Rand, cachableBias bool) *c10Resp {
	p := &c10Resp{Method: http.MethodGet, Status: http.StatusOK}

	if !cachableBias {
		p.Method = vf.Pick(r, []string{"GET", "GET", "GET", "GET", "HEAD", "POST", "PUT"})
		p.Status = vf.Pick(r, statusPool)
		p.ReqCC = vf.Pick(r, []string{"", "", "", "", "no-store", "no-cache", "max-age=0"})
		p.CC = vf.Pick(r, ccPool)
	} else {
		p.CC = vf.Pick(r, []string{"", "", "max-age=0", "max-age=1", "max-age=2", "max-age=3600", "public, max-age=1"})
		p.Method = vf.Pick(r, []string{"GET", "GET", "GET", "GET", "HEAD", "POST", "DELETE"})
	}

	if r.Chance(60) {
		p.Date = p64(vf.Pick(r, []int64{0, 0, -30, 30, -3600}))
	}

	if !cachableBias && r.Chance(15) || cachableBias && r.Chance(8) {
		p.Vary = vf.Pick(r, []string{"Accept", "Accept-Encoding, Cookie", "*"})
	}

	if r.Chance(45) {
		if r.Chance(15) {
			p.ExpRaw = vf.Pick(r, []string{"0", "-1", "garbage"})
		} else {
			base := int64(0)
			if p.Date != nil {
				base = *p.Date
			}

			p.Expires = p64(base + vf.Pick(r, []int64{-3600, -1, 0, 1, 2, 60, 3600}))
		}
	}

	// Last-Modified only next to an explicit lifetime: the heuristic lifetime (10 % of the age) depends on the
	// library's own clock reading, so the oracle's answer would differ from the one inside cacheResponse
	if r.Chance(20) && (strings.Contains(p.CC, "max-age=") || p.Expires != nil) {
		p.LastMod = p64(vf.Pick(r, []int64{-100000, -1000, 1000}))
	}

	return p
}

func genHTTP(r *vf.Rand) c10Case {
	return c10Case{
		Kind: "http", Backend: vf.Pick(r, []string{"mem", "mem", "redis"}), Resp: genResp(r, r.Chance(40)),
		Dflt: vf.Pick(r, []int64{0, 0, 5 * sec, 3600 * sec, -sec}),
	}
}

func genCache(r *vf.Rand, backend string) c10Case {
	c := c10Case{Kind: "cache", Backend: backend}
	n := r.Range(3, 10)
	sleeps := 0

	for i := 0; i < n; i++ {
		op := c10Op{Op: "get", Key: r.Range(1, 2)}
		if i == 0 || r.Chance(40) {
			op.Op = "set"
		}

		if backend == "redis" {
			op.Adv = vf.Pick(r, []int64{0, 0, msec, 49 * msec, 50 * msec, 51 * msec, 99 * msec, 100 * msec, 101 * msec, sec, 7200 * sec})
			if op.Op == "set" {
				op.TTL = vf.Pick(r, []int64{-3600 * sec, -sec, -msec, -2, -1, 0, 1, 999_999, msec, 1_500_000, 50 * msec, 100 * msec,
					sec, 3600 * sec})
			}
		} else {
			switch {
			case sleeps < 2 && r.Chance(20):
				op.Adv = 170 * msec
				sleeps++
			case sleeps < 3 && r.Chance(25):
				// two such steps after a Set with ttl 60 ms: hit, then miss (unless a hit extends the lifetime)
				op.Adv = 35 * msec
				sleeps++
			case r.Chance(30):
				op.Adv = 3 * msec
			}

			if op.Op == "set" {
				op.TTL = vf.Pick(r, []int64{-3600 * sec, -1, 0, -2, -2, 60 * msec, 60 * msec, 80 * msec, 3600 * sec})
			}
		}

		c.Ops = append(c.Ops, op)
	}

	return c
}

func (e *env) genHist(r *vf.Rand, backend string) c10Case {
	c := c10Case{Kind: "hist", Backend: backend}
	n := r.Range(3, 6)

	if r.Chance(40) {
		c.Mech = "http"
		c.Dflt = vf.Pick(r, []int64{0, 0, 5 * sec, -sec})
		viaMech := r.Chance(40)

		for i := 0; i < n; i++ {
			ev := c10Ev{Key: r.Range(1, 2), Resp: &c10Resp{Method: "GET", Status: 200}}
			if backend == "redis" {
				ev.Resp.CC = vf.Pick(r, []string{"max-age=0", "max-age=1", "max-age=2", "max-age=3600", ""})
				ev.Adv = vf.Pick(r, []int64{0, 0, 450 * msec, 1450 * msec, 2450 * msec, 5450 * msec})
			} else {
				ev.Resp.CC = vf.Pick(r, []string{"max-age=0", "max-age=0", "max-age=3600", ""})
				if r.Chance(30) {
					ev.Adv = 20 * msec
				}
			}

			if ev.Resp.CC == "" && r.Chance(50) && !viaMech {
				ev.Resp.Date = p64(0)
				ev.Resp.Expires = p64(vf.Pick(r, []int64{-60, 0, 3600}))
			}

			c.Evs = append(c.Evs, ev)
		}

		if viaMech {
			c.Mech = "ctxhttp"
		}

		return c
	}

	// (the introspection authenticator is included since 9b4883e made its cache key independent of map order)
	c.Mech = vf.Pick(r, []string{"remote", "ctx", "generic", "intro"})

	// ttl in force: 0 (disabled) | short | long, through the prototype or a rule-level override
	short := p64(60 * msec)
	if backend == "redis" {
		short = vf.Pick(r, []*int64{p64(100 * msec), p64(sec)})
	}

	ttl := vf.Pick(r, []*int64{p64(0), short, short, short, p64(3600 * sec)})

	c.RuleOther = r.Chance(30)

	if r.Chance(50) {
		c.Conf = ttl
	} else {
		c.Conf = vf.Pick(r, []*int64{nil, p64(0), p64(30 * sec)})
		c.Rule = ttl
	}

	sleeps := 0

	for i := 0; i < n; i++ {
		ev := c10Ev{Key: r.Range(1, 2)}
		if backend == "redis" {
			ev.Adv = vf.Pick(r, []int64{0, 0, 40 * msec, 150 * msec, 1450 * msec})
		} else if i > 0 && sleeps < 2 && r.Chance(35) {
			ev.Adv = 180 * msec
			sleeps++
		}

		c.Evs = append(c.Evs, ev)
	}

	return c
}

// ---------------------------------------------------------------- corpus (witnesses of the repaired findings first:
// C10-F1 -> 637ae67, C10-F2 -> c971513, C10-F3 -> e0dc5e2; reverting a commit makes its witnesses fail)

func corpus() []c10Case {
	maxAge0 := &c10Resp{Method: "GET", Status: 200, CC: "max-age=0", Date: p64(0)}
	pastExp := &c10Resp{Method: "GET", Status: 200, Date: p64(0), Expires: p64(-60)}

	return []c10Case{
		// C10-F1: expiry inside the leeway + configured (or default) ttl => full ttl
		{Kind: "fn", Mech: "intro", St: p64(300 * sec), Delta: p64(5)},
		{Kind: "fn", Mech: "intro", St: p64(300 * sec), Delta: p64(10)},
		{Kind: "fn", Mech: "intro", St: p64(300 * sec), Delta: p64(11)},
		{Kind: "fn", Mech: "intro", St: p64(300 * sec), Delta: p64(-5)},
		{Kind: "fn", Mech: "jwtkey", St: nil, Delta: p64(5)},
		{Kind: "fn", Mech: "jwtkey", St: nil, Delta: p64(-3600)},
		{Kind: "fn", Mech: "cc", St: p64(300 * sec), Delta: p64(3 * sec)},
		{Kind: "fn", Mech: "generic", St: p64(300 * sec), Session: true, Delta: p64(5)},
		{Kind: "exec", Mech: "intro", Conf: p64(300 * sec), Delta: p64(5)},
		{Kind: "exec", Mech: "jwtkey", Conf: nil, Delta: p64(5)},
		{Kind: "exec", Mech: "cc", Conf: p64(300 * sec), Delta: p64(3 * sec)},
		{Kind: "exec", Mech: "cc", ViaFin: true, Conf: p64(300 * sec), Delta: p64(3 * sec)},
		{Kind: "exec", Mech: "cc", ViaFin: true, Conf: p64(300 * sec), Rule: p64(0), Delta: p64(60 * sec)},
		{Kind: "exec", Mech: "cc", ViaFin: true, Conf: p64(0), Rule: p64(30 * sec), Delta: p64(60 * sec)},
		// C10-F2: max-age=0 / past Expires handed to the in-memory cache => kept for ever
		{Kind: "http", Backend: "mem", Resp: maxAge0},
		{Kind: "http", Backend: "mem", Resp: pastExp},
		{Kind: "http", Backend: "redis", Resp: maxAge0},
		// since 12fdf68: no lookup and no store for other methods, no store for responses with Vary
		{Kind: "http", Backend: "mem", Resp: &c10Resp{Method: "POST", Status: 200, CC: "max-age=3600", Date: p64(0)}},
		{Kind: "http", Backend: "mem", Resp: &c10Resp{Method: "HEAD", Status: 200, CC: "max-age=3600", Date: p64(0)}},
		{Kind: "http", Backend: "mem", Resp: &c10Resp{Method: "GET", Status: 200, CC: "max-age=3600", Date: p64(0), Vary: "Accept"}},
		{Kind: "hist", Mech: "intro", Backend: "mem", Conf: p64(60 * msec), Evs: []c10Ev{{Key: 1}, {Key: 1}, {Key: 2}, {Key: 1, Adv: 180 * msec}}},
		{Kind: "http", Backend: "mem", Resp: &c10Resp{Method: "GET", Status: 200}, Dflt: -sec},
		{Kind: "hist", Mech: "http", Backend: "mem", Evs: []c10Ev{{Key: 1, Resp: maxAge0}, {Key: 1, Resp: maxAge0, Adv: 30 * msec}, {Key: 1, Resp: maxAge0, Adv: 30 * msec}}},
		{Kind: "hist", Mech: "ctxhttp", Backend: "mem", Evs: []c10Ev{{Key: 1, Resp: maxAge0}, {Key: 1, Resp: maxAge0, Adv: 30 * msec}, {Key: 2, Resp: maxAge0}}},
		{Kind: "hist", Mech: "ctxhttp", Backend: "redis", Dflt: 5 * sec, Evs: []c10Ev{{Key: 1, Resp: &c10Resp{Method: "GET", Status: 200, CC: "max-age=1"}}, {Key: 1, Resp: maxAge0, Adv: 450 * msec}, {Key: 1, Resp: &c10Resp{Method: "GET", Status: 200}, Adv: 1450 * msec}, {Key: 1, Resp: maxAge0, Adv: 2450 * msec}, {Key: 1, Resp: maxAge0, Adv: 5450 * msec}}},
		// C10-F3: remote authorizer, prototype 30 s, rule-level 0 s
		{Kind: "exec", Mech: "remote", Conf: p64(30 * sec), Rule: p64(0)},
		{Kind: "hist", Mech: "remote", Backend: "mem", Conf: p64(30 * sec), Rule: p64(0), Evs: []c10Ev{{Key: 1}, {Key: 1}}},
		// ordinary behaviour
		{Kind: "exec", Mech: "ctx", Conf: nil},
		{Kind: "exec", Mech: "ctx", Conf: p64(0)},
		{Kind: "exec", Mech: "jwtfin", Conf: nil},
		{Kind: "exec", Mech: "jwtfin", Conf: p64(5 * sec)},
		{Kind: "exec", Mech: "jwtfin", Conf: p64(5001 * msec)},
		{Kind: "exec", Mech: "generic", Conf: p64(300 * sec), Session: true, Delta: p64(-10)},
		{Kind: "exec", Mech: "generic", Conf: p64(300 * sec), Session: true, Delta: p64(-9)},
		{Kind: "cache", Backend: "mem", Ops: []c10Op{{Op: "set", Key: 1, TTL: 0}, {Op: "get", Key: 1, Adv: 170 * msec}}},
		{Kind: "cache", Backend: "mem", Ops: []c10Op{{Op: "set", Key: 1, TTL: 60 * msec}, {Op: "get", Key: 1}, {Op: "set", Key: 1, TTL: -2}, {Op: "get", Key: 1, Adv: 170 * msec}}},
		{Kind: "cache", Backend: "mem", Ops: []c10Op{{Op: "set", Key: 1, TTL: 60 * msec}, {Op: "get", Key: 1, Adv: 35 * msec}, {Op: "get", Key: 1, Adv: 35 * msec}, {Op: "get", Key: 1, Adv: 35 * msec}}},
		{Kind: "exec", Mech: "remote", Conf: p64(30 * sec), RuleOther: true},
		{Kind: "exec", Mech: "generic", Conf: p64(30 * sec), RuleOther: true},
		{Kind: "exec", Mech: "ctx", Conf: nil, RuleOther: true},
		{Kind: "hist", Mech: "remote", Backend: "redis", Conf: p64(sec), RuleOther: true, Evs: []c10Ev{{Key: 1}, {Key: 1, Adv: 150 * msec}}},
		{Kind: "cache", Backend: "redis", Ops: []c10Op{{Op: "set", Key: 1, TTL: 0}, {Op: "get", Key: 1}, {Op: "set", Key: 1, TTL: 999_999}, {Op: "get", Key: 1}}},
		{Kind: "cache", Backend: "redis", Ops: []c10Op{{Op: "set", Key: 1, TTL: 50 * msec}, {Op: "get", Key: 1, Adv: 49 * msec}, {Op: "get", Key: 1, Adv: msec}}},
		{Kind: "hist", Mech: "remote", Backend: "redis", Conf: p64(sec), Evs: []c10Ev{{Key: 1}, {Key: 1, Adv: 150 * msec}, {Key: 1, Adv: 1450 * msec}}},
		{Kind: "hist", Mech: "generic", Backend: "mem", Conf: p64(60 * msec), Evs: []c10Ev{{Key: 1}, {Key: 1}, {Key: 2}, {Key: 1, Adv: 180 * msec}}},
	}
}

// ---------------------------------------------------------------- classification

func nontrivial(c *c10Case) bool {
	switch c.Kind {
	case "fn", "exec":
		lee := int64(20)
		unit := int64(1)

		if c.Mech == "cc" {
			lee, unit = 10, sec
		}

		if c.Delta != nil && *c.Delta >= -lee*unit && *c.Delta <= lee*unit {
			return true
		}

		for _, v := range []*int64{c.St, c.Conf, c.Rule} {
			if v != nil && *v <= 0 {
				return true
			}
		}

		return c.Rule != nil
	case "http":
		return c.Resp.CC != "" || c.Resp.Expires != nil || c.Resp.ExpRaw != "" || c.Dflt != 0
	case "cache":
		seen := map[int]bool{}

		for _, op := range c.Ops {
			if op.Op == "set" {
				seen[op.Key] = true
			} else if seen[op.Key] {
				return true
			}
		}

		return false
	case "hist":
		seen := map[int]bool{}

		for _, ev := range c.Evs {
			if seen[ev.Key] {
				return true
			}

			seen[ev.Key] = true
		}
	}

	return false
}

func bucket(v *int64, unit int64) string {
	switch {
	case v == nil:
		return "unset"
	case *v < 0:
		return "neg"
	case *v == 0:
		return "zero"
	case *v < 20*unit:
		return "short"
	default:
		return "long"
	}
}

func tags(c *c10Case, out any) []string {
	t := []string{"kind:" + c.Kind}

	if c.Mech != "" {
		t = append(t, "mech:"+c.Kind+"/"+c.Mech)
	}

	if c.Backend != "" {
		t = append(t, "backend:"+c.Kind+"/"+c.Backend)
	}

	switch c.Kind {
	case "fn", "exec":
		unit := int64(1)
		if c.Mech == "cc" {
			unit = sec
		}

		switch {
		case c.Delta == nil:
			t = append(t, "expiry:absent")
		case *c.Delta < -10*unit:
			t = append(t, "expiry:long-past")
		case *c.Delta <= 0:
			t = append(t, "expiry:just-passed")
		case *c.Delta <= 10*unit:
			t = append(t, "expiry:inside-leeway")
		case *c.Delta <= 20*unit:
			t = append(t, "expiry:near")
		default:
			t = append(t, "expiry:far")
		}

		if c.Kind == "fn" {
			t = append(t, "ttl:"+bucket(c.St, sec))
		} else {
			t = append(t, "conf:"+bucket(c.Conf, sec), "rule:"+bucket(c.Rule, sec))
		}
	}

	switch o := out.(type) {
	case fnObs:
		if o.TTL > 0 {
			t = append(t, "site:getCacheTTL/"+c.Mech+"/store")
		} else {
			t = append(t, "site:getCacheTTL/"+c.Mech+"/nostore")
		}
	case execObs:
		t = append(t, fmt.Sprintf("site:exec/%s/lookup=%t/set=%t", c.Mech, o.Lookup, o.Set != nil))
		if !o.OK {
			t = append(t, "exec:rejected")
		}
	case httpObs:
		life := "none"
		if o.Life != nil {
			life = "pos"
			if *o.Life <= 0 {
				life = "nonpos"
			}
		}

		t = append(t, fmt.Sprintf("site:cacheResponse/cachable=%t/life=%s/set=%t/hit=%t", o.Cachable, life, o.Set != nil, o.Hit),
			fmt.Sprintf("site:cachedResponse/method_ok=%t/vary=%t/lookup=%t", o.MethodOK, o.Vary, o.Lookup))
	case []opObs:
		t = append(t, "site:"+c.Backend+".Get/Set")
	case []evObs:
		hits := 0

		for _, e := range o {
			if e.Hit {
				hits++
			}
		}

		t = append(t, fmt.Sprintf("hist:hits=%d", min(hits, 3)))
	}

	return t
}

// ---------------------------------------------------------------- the test

type job struct {
	idx    int
	stream string
	c      c10Case
}

func TestVerifC10(t *testing.T) {
	w := vf.NewWriter()
	defer w.Close()

	e := newEnv(t)
	defer e.close()

	root := vf.NewRand(vf.Seed())
	n := vf.N(1200)

	var jobs []job

	for _, c := range corpus() {
		jobs = append(jobs, job{idx: len(jobs), stream: "corpus", c: c})
	}

	// sleeping cases (in-memory backend) are expensive: a fixed small share
	slow := n / 40
	for i := 0; i < n; i++ {
		r := root.Fork(uint64(i))

		var c c10Case

		switch k := i % 20; {
		case k < 8:
			c = genFn(r)
		case k < 13:
			c = e.genExec(r)
		case k < 16:
			c = genHTTP(r)
		case k < 18:
			be := "redis"
			if slow > 0 && r.Chance(25) {
				be = "mem"
				slow--
			}

			c = genCache(r, be)
		default:
			be := "redis"
			if slow > 0 && r.Chance(25) {
				be = "mem"
				slow--
			}

			c = e.genHist(r, be)
		}

		jobs = append(jobs, job{idx: len(jobs), stream: "generated", c: c})
	}

	results := make([]*vf.Obs, len(jobs))

	run := func(j job) {
		if !vf.Want(j.idx) {
			return
		}

		c := j.c

		var (
			out  any
			coq  string
			ambi bool
		)

		switch c.Kind {
		case "fn":
			out, coq = runFn(&c)
		case "exec":
			out, coq = e.runExec(&c)
		case "http":
			out, coq = e.runHTTP(&c)
		case "cache":
			out, coq, ambi = e.runCache(&c)
		case "hist":
			out, coq, ambi = e.runHist(&c)
		}

		tg := tags(&c, out)
		if ambi {
			// timing could not be pinned down after several attempts: the case is recorded but not judged
			tg = append(tg, "skipped:ambiguous-timing")
			coq = "(CCache Mem [])"
		}

		results[j.idx] = &vf.Obs{I: j.idx, Stream: j.stream, In: c, Out: out, Coq: coq, Nontrivial: nontrivial(&c) && !ambi, Tags: tg}
	}

	// sequential cases first (they share the JWKS state), then the sleeping ones in parallel
	var sleepers []job

	for _, j := range jobs {
		if (j.c.Kind == "cache" || j.c.Kind == "hist") && j.c.Backend == "mem" {
			sleepers = append(sleepers, j)

			continue
		}

		run(j)
	}

	var wg sync.WaitGroup

	sem := make(chan struct{}, 6)

	for _, j := range sleepers {
		wg.Add(1)

		go func(j job) {
			defer wg.Done()

			sem <- struct{}{}
			defer func() { <-sem }()

			run(j)
		}(j)
	}

	wg.Wait()

	for _, o := range results {
		if o != nil {
			w.Put(*o)
		}
	}
}
