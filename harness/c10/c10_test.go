//go:build verif

// Package c10 is the C10 correspondence driver ("nothing is reused from a
// cache beyond its validity").  It lives in an overlay-only package and uses
// exported identifiers of /repo only (mechanism factory, Execute,
// clientcredentials.Config.Token, httpcache.RoundTripper, the cache backends),
// so renaming unexported functions or fields does not break it.
//
// Case kinds (see coq/Run/Eval_C10.v):
//
//	exec  a mechanism created by the REAL mechanism factory (prototype
//	      cache_ttl + rule-level cache_ttl), executed once against a recording
//	      cache and local httptest endpoints
//	http  one response through the real httpcache.RoundTripper into a real
//	      cache backend (memory.Cache or the redis cache talking to miniredis)
//	cache time-stamped Set/Get sequences on the two real backends
//	hist  time-stamped request sequences through a real mechanism / the round
//	      tripper with a real backend: hit/miss pattern
//
// Time is controlled through the values the driver constructs (expiry = now +
// delta); every call is bracketed by two clock readings.  Calls that read whole
// seconds are repeated when the second flips inside the bracket; calls that
// read nanoseconds are compared against the model at both ends of the bracket;
// sleeping cases are repeated when a ttl falls into a measured uncertainty
// window.
package c10

import (
	"context"
	"crypto/ecdsa"
	"crypto/elliptic"
	"crypto/rand"
	"crypto/sha256"
	"crypto/x509"
	"crypto/x509/pkix"
	"encoding/base64"
	"encoding/hex"
	"encoding/json"
	"encoding/pem"
	"errors"
	"fmt"
	"io"
	"math/big"
	"net/http"
	"net/http/httptest"
	"os"
	"path/filepath"
	"strconv"
	"strings"
	"sync"
	"sync/atomic"
	"testing"
	"time"

	"github.com/alicebob/miniredis/v2"
	"github.com/go-jose/go-jose/v4"
	"github.com/go-jose/go-jose/v4/jwt"
	"github.com/pquerna/cachecontrol/cacheobject"
	"github.com/rs/zerolog"

	"github.com/dadrus/heimdall/internal/cache"
	"github.com/dadrus/heimdall/internal/cache/memory"
	rediscache "github.com/dadrus/heimdall/internal/cache/redis"
	"github.com/dadrus/heimdall/internal/config"
	"github.com/dadrus/heimdall/internal/handler/requestcontext"
	"github.com/dadrus/heimdall/internal/httpcache"
	"github.com/dadrus/heimdall/internal/keyholder"
	"github.com/dadrus/heimdall/internal/otel/metrics/certificate"
	"github.com/dadrus/heimdall/internal/rules/mechanisms"
	"github.com/dadrus/heimdall/internal/rules/mechanisms/subject"
	"github.com/dadrus/heimdall/internal/rules/oauth2/clientcredentials"
	"github.com/dadrus/heimdall/internal/watcher"
	"github.com/dadrus/heimdall/internal/zzverif/vf"
)

const (
	issuer = "https://c10-issuer.example"
	sec    = int64(time.Second)
	msec   = int64(time.Millisecond)
)

// ---------------------------------------------------------------- inputs

// All times in a case are RELATIVE (so that the same seed gives the same
// input on every run); the Gallina rendering uses the observed absolute clock.
type c10Case struct {
	Kind string `json:"kind"`
	Mech string `json:"mech,omitempty"`

	// fn / exec
	St      *int64 `json:"st,omitempty"`    // fn: ttl state of the instance (ns), nil = not configured
	Conf    *int64 `json:"conf,omitempty"`  // exec/hist: prototype cache_ttl (ns), nil = not configured
	Rule    *int64 `json:"rule,omitempty"`  // exec/hist: rule-level cache_ttl (ns), nil = not set
	Delta   *int64 `json:"delta,omitempty"` // expiry relative to now (seconds; ns for client credentials), nil = absent
	Session bool   `json:"session,omitempty"`
	// exec/hist: the rule-level config carries another (harmless) option, so WithConfig runs even without a rule-level ttl
	RuleOther bool `json:"rule_other,omitempty"`
	// exec jwtkey: x5c chain [leaf, root]; Chain = NotAfter of the root relative to now (seconds), nil = the leaf alone
	Chain *int64 `json:"chain,omitempty"`
	// exec generic: the session's not_after is an RFC 3339 string, parsed through session_lifespan.time_format
	TimeFmt bool `json:"time_format,omitempty"`
	// exec jwtkey: prototype with validate_jwk: true and a trust store (the root)
	Validate bool `json:"validate,omitempty"`
	// http: time between the first and the second request (redis only: FastForward); the transport fails on the second
	Adv   int64 `json:"adv,omitempty"`
	Fail2 bool  `json:"fail2,omitempty"`
	// http: the response body arrives this long after the headers (slow upstream); in-memory backend, real time
	BodyDelay int64 `json:"body_delay,omitempty"`
	// exec cc: through the real oauth2_client_credentials finalizer (prototype + rule-level cache_ttl) instead of Config.Token
	ViaFin bool `json:"via_finalizer,omitempty"`

	// http / cache / hist
	Backend string   `json:"backend,omitempty"` // mem | redis
	Resp    *c10Resp `json:"resp,omitempty"`
	Dflt    int64    `json:"dflt,omitempty"`
	Ops     []c10Op  `json:"ops,omitempty"`
	Evs     []c10Ev  `json:"evs,omitempty"`
}

type c10Resp struct {
	Method  string `json:"method"`
	ReqCC   string `json:"req_cc,omitempty"`
	Status  int    `json:"status"`
	CC      string `json:"cc,omitempty"`
	Date    *int64 `json:"date,omitempty"`    // Date header = now + Date seconds
	Expires *int64 `json:"expires,omitempty"` // Expires header = now + Expires seconds
	ExpRaw  string `json:"exp_raw,omitempty"` // literal Expires header (overrides Expires)
	LastMod *int64 `json:"last_mod,omitempty"`
	Vary    string `json:"vary,omitempty"`
	Age     string `json:"age,omitempty"` // literal Age header
}

type c10Op struct {
	Adv int64  `json:"adv,omitempty"` // time passing before the operation (ns)
	Op  string `json:"op"`            // set | get
	Key int    `json:"key"`
	TTL int64  `json:"ttl,omitempty"`
}

type c10Ev struct {
	Adv int64 `json:"adv,omitempty"`
	Key int   `json:"key"`
	// expiry the remote system reports for this request, relative to now (seconds; expires_in for client credentials); nil = far / none
	Delta *int64   `json:"delta,omitempty"`
	Resp  *c10Resp `json:"resp,omitempty"` // hist over the round tripper
	// kind mix: the rule this request runs under (prototype cache_ttl + rule-level cache_ttl)
	Conf *int64 `json:"conf,omitempty"`
	Rule *int64 `json:"rule,omitempty"`
}

func p64(v int64) *int64 { return &v }

// ---------------------------------------------------------------- recording cache

type recEv struct {
	get    bool
	hit    bool
	origin int // event index that stored the value (hits)
	ttl    time.Duration
	err    bool
}

type recCache struct {
	setAt  time.Time // when the first Set of the current request was called
	mu     sync.Mutex
	inner  cache.Cache
	cur    int
	origin map[string]int
	log    []recEv
}

func newRec(inner cache.Cache) *recCache { return &recCache{inner: inner, origin: map[string]int{}} }

func vhash(v []byte) string { h := sha256.Sum256(v); return hex.EncodeToString(h[:12]) }

func (r *recCache) Start(context.Context) error { return nil }
func (r *recCache) Stop(context.Context) error  { return nil }

func (r *recCache) Get(ctx context.Context, key string) ([]byte, error) {
	v, err := r.inner.Get(ctx, key)

	r.mu.Lock()
	defer r.mu.Unlock()

	ev := recEv{get: true, hit: err == nil, origin: -1}
	if err == nil {
		if o, ok := r.origin[vhash(v)]; ok {
			ev.origin = o
		}
	}

	r.log = append(r.log, ev)

	return v, err
}

func (r *recCache) Set(ctx context.Context, key string, value []byte, ttl time.Duration) error {
	called := time.Now()
	err := r.inner.Set(ctx, key, value, ttl)

	r.mu.Lock()
	defer r.mu.Unlock()

	r.origin[vhash(value)] = r.cur
	if r.setAt.IsZero() {
		r.setAt = called
	}

	r.log = append(r.log, recEv{ttl: ttl, err: err != nil})

	return err
}

func (r *recCache) begin(cur int) {
	r.mu.Lock()
	r.cur = cur
	r.log = nil
	r.setAt = time.Time{}
	r.mu.Unlock()
}

// summary of one request: was the cache looked up, did it hit (and what), the ttl of the first Set, the number of Sets
type reqSum struct {
	lookup, hit bool
	origin      int
	set         *int64
	nsets       int
}

func (r *recCache) summary() reqSum {
	r.mu.Lock()
	defer r.mu.Unlock()

	o := reqSum{origin: -1}

	for _, e := range r.log {
		if e.get {
			o.lookup = true

			if e.hit {
				o.hit, o.origin = true, e.origin
			}
		} else {
			if o.set == nil {
				o.set = p64(int64(e.ttl))
			}

			o.nsets++
		}
	}

	return o
}

// nullCache: never stores anything
type nullCache struct{}

func (nullCache) Start(context.Context) error { return nil }
func (nullCache) Stop(context.Context) error  { return nil }
func (nullCache) Get(context.Context, string) ([]byte, error) {
	return nil, errors.New("no entry")
}
func (nullCache) Set(context.Context, string, []byte, time.Duration) error { return nil }

// ---------------------------------------------------------------- environment

type registryAdapter struct{}

func (registryAdapter) AddKeyHolder(keyholder.KeyHolder) {}
func (registryAdapter) Keys() []jose.JSONWebKey          { return nil }

type env struct {
	t    *testing.T
	srv  *httptest.Server
	ctr  atomic.Int64
	key  *ecdsa.PrivateKey
	ca   *ecdsa.PrivateKey // root of the x5c chains
	jwks atomic.Value      // []byte
	mf   mechanisms.MechanismFactory
	pal  []*int64 // prototype ttl palette
	palF []*int64 // jwt finalizer ttl palette
	jwtT string   // a JWT signed with env.key, kid "k1"
	rds  *backend // shared redis backend (miniredis), flushed per case
	// Cache-Control header the /cc/ endpoint answers with, per path (set by the driver before each request)
	ccTab sync.Map
	// expires_in the token endpoint answers with for the client ids of the oauth2_client_credentials finalizer prototypes
	tokTab sync.Map
	palH   []int64 // http_cache.default_ttl palette of the ctxhttp prototypes
}

func newEnv(t *testing.T) *env {
	t.Helper()

	e := &env{t: t}

	var err error
	if e.key, err = ecdsa.GenerateKey(elliptic.P256(), rand.Reader); err != nil {
		t.Fatal(err)
	}

	if e.ca, err = ecdsa.GenerateKey(elliptic.P256(), rand.Reader); err != nil {
		t.Fatal(err)
	}

	e.jwks.Store([]byte(`{"keys":[]}`))

	// trust store of the validate_jwk prototypes: the root, valid for ten years
	tsPath := filepath.Join(t.TempDir(), "roots.pem")
	if err = os.WriteFile(tsPath, pem.EncodeToMemory(&pem.Block{
		Type: "CERTIFICATE", Bytes: e.rootCert(time.Now().Add(87600 * time.Hour)).Raw,
	}), 0o600); err != nil {
		t.Fatal(err)
	}

	mux := http.NewServeMux()
	// introspection endpoint: the token tells what to answer: T.<exp|none>.<n>
	mux.HandleFunc("/intro", func(w http.ResponseWriter, r *http.Request) {
		r.ParseForm()
		parts := strings.Split(r.PostForm.Get("token"), ".")
		w.Header().Set("Content-Type", "application/json")

		if len(parts) != 3 {
			w.Write([]byte(`{"active":false}`))

			return
		}

		if parts[1] == "tab" { // the expiry to report is set by the driver per request
			parts[1] = "none"
			if v, ok := e.tokTab.Load(r.PostForm.Get("token")); ok {
				parts[1] = v.(string) //nolint:forcetypeassert
			}
		}

		exp := ""
		if parts[1] != "none" {
			exp = `,"exp":` + parts[1]
		}

		fmt.Fprintf(w, `{"active":true,"sub":"u","iss":%q,"n":%d%s}`, issuer, e.ctr.Add(1), exp)
	})
	// identity info endpoint of the generic authenticator: S.<exp|none>.<n>
	mux.HandleFunc("/ident", func(w http.ResponseWriter, r *http.Request) {
		parts := strings.Split(r.Header.Get("X-Auth-Data"), ".")
		w.Header().Set("Content-Type", "application/json")

		if len(parts) != 3 {
			w.WriteHeader(http.StatusUnauthorized)

			return
		}

		if parts[1] == "tab" {
			parts[1] = "none"
			if v, ok := e.tokTab.Load(r.Header.Get("X-Auth-Data")); ok {
				parts[1] = v.(string) //nolint:forcetypeassert
			}
		}

		exp := ""
		if parts[1] != "none" {
			exp = `,"exp":` + parts[1]

			if n, err := strconv.ParseInt(parts[1], 10, 64); err == nil && parts[0] == "F" {
				// a zone other than UTC on purpose: the layout carries the offset
				exp = `,"exp":"` + time.Unix(n, 0).In(time.FixedZone("c10", 3*3600)).Format(time.RFC3339) + `"`
			}
		}

		fmt.Fprintf(w, `{"active":true,"sub":"u","n":%d%s}`, e.ctr.Add(1), exp)
	})
	mux.HandleFunc("/jwks", func(w http.ResponseWriter, _ *http.Request) {
		w.Header().Set("Content-Type", "application/json")
		w.Write(e.jwks.Load().([]byte)) //nolint:forcetypeassert
	})
	mux.HandleFunc("/authz", func(w http.ResponseWriter, _ *http.Request) {
		w.Header().Set("Content-Type", "application/json")
		fmt.Fprintf(w, `{"allowed":true,"n":%d}`, e.ctr.Add(1))
	})
	mux.HandleFunc("/ctx", func(w http.ResponseWriter, _ *http.Request) {
		w.Header().Set("Content-Type", "application/json")
		fmt.Fprintf(w, `{"info":"x","n":%d}`, e.ctr.Add(1))
	})
	// endpoint behind a mechanism's `http_cache` (real Endpoint.CreateClient wiring): Cache-Control per path
	mux.HandleFunc("/cc/", func(w http.ResponseWriter, r *http.Request) {
		if cc, ok := e.ccTab.Load(r.URL.Path); ok && cc.(string) != "" { //nolint:forcetypeassert
			w.Header().Set("Cache-Control", cc.(string)) //nolint:forcetypeassert
		}

		w.Header().Set("Content-Type", "application/json")
		fmt.Fprintf(w, `{"info":"x","n":%d}`, e.ctr.Add(1))
	})
	// token endpoint: client id C.<expires_in|none>.<n>
	mux.HandleFunc("/token", func(w http.ResponseWriter, r *http.Request) {
		id, _, _ := r.BasicAuth()
		if id == "" {
			r.ParseForm()
			id = r.PostForm.Get("client_id")
		}

		parts := strings.Split(id, ".")
		w.Header().Set("Content-Type", "application/json")

		exp := ""
		if len(parts) == 3 && parts[1] != "none" && parts[1] != "tab" {
			exp = `,"expires_in":` + parts[1]
		}

		if v, ok := e.tokTab.Load(id); ok && v.(string) != "none" { //nolint:forcetypeassert
			exp = `,"expires_in":` + v.(string) //nolint:forcetypeassert
		}

		fmt.Fprintf(w, `{"access_token":"at-%d","token_type":"Bearer"%s}`, e.ctr.Add(1), exp)
	})
	e.srv = httptest.NewServer(mux)

	// key store of the jwt finalizer
	der, err := x509.MarshalECPrivateKey(e.key)
	if err != nil {
		t.Fatal(err)
	}

	ksPath := filepath.Join(t.TempDir(), "ks.pem")
	if err = os.WriteFile(ksPath, pem.EncodeToMemory(&pem.Block{Type: "EC PRIVATE KEY", Bytes: der}), 0o600); err != nil {
		t.Fatal(err)
	}

	e.pal = []*int64{nil, p64(0), p64(-sec), p64(3 * sec), p64(5 * sec), p64(8 * sec), p64(30 * sec), p64(300 * sec),
		p64(3600 * sec), p64(60 * msec), p64(100 * msec), p64(sec)}
	e.palF = []*int64{nil, p64(1001 * msec), p64(3 * sec), p64(5 * sec), p64(5001 * msec), p64(6 * sec), p64(30 * sec),
		p64(300 * sec), p64(3600 * sec)}

	withTTL := func(c config.MechanismConfig, key string, v *int64) config.MechanismConfig {
		if v != nil {
			c[key] = time.Duration(*v).String()
		}

		return c
	}

	protos := &config.MechanismPrototypes{}

	for i, v := range e.pal {
		protos.Authenticators = append(protos.Authenticators,
			config.Mechanism{ID: fmt.Sprintf("intro_%d", i), Type: "oauth2_introspection", Config: withTTL(config.MechanismConfig{
				"introspection_endpoint": map[string]any{"url": e.srv.URL + "/intro"},
				"assertions":             map[string]any{"issuers": []any{issuer}},
			}, "cache_ttl", v)},
			config.Mechanism{ID: fmt.Sprintf("jwtkey_%d", i), Type: "jwt", Config: withTTL(config.MechanismConfig{
				"jwks_endpoint": map[string]any{"url": e.srv.URL + "/jwks"},
				"assertions":    map[string]any{"issuers": []any{issuer}},
				"validate_jwk":  false,
			}, "cache_ttl", v)},
			config.Mechanism{ID: fmt.Sprintf("jwtkeyv_%d", i), Type: "jwt", Config: withTTL(config.MechanismConfig{
				"jwks_endpoint": map[string]any{"url": e.srv.URL + "/jwks"},
				"assertions":    map[string]any{"issuers": []any{issuer}},
				"trust_store":   tsPath, // validate_jwk defaults to true
			}, "cache_ttl", v)},
		)

		for _, sess := range []bool{false, true} {
			c := config.MechanismConfig{
				"identity_info_endpoint": map[string]any{
					"url": e.srv.URL + "/ident", "method": "GET",
					"headers": map[string]any{"X-Auth-Data": "{{ .AuthenticationData }}"},
				},
				"authentication_data_source": []any{map[string]any{"header": "X-Session"}},
				"subject":                    map[string]any{"id": "sub"},
			}
			if sess {
				c["session_lifespan"] = map[string]any{"active": "active", "not_after": "exp"}
			}

			protos.Authenticators = append(protos.Authenticators,
				config.Mechanism{ID: fmt.Sprintf("generic_%t_%d", sess, i), Type: "generic", Config: withTTL(c, "cache_ttl", v)})

			if sess {
				cf := config.MechanismConfig{}
				for k, x := range c {
					cf[k] = x
				}

				cf["session_lifespan"] = map[string]any{"active": "active", "not_after": "exp", "time_format": time.RFC3339}
				protos.Authenticators = append(protos.Authenticators,
					config.Mechanism{ID: fmt.Sprintf("genericfmt_%d", i), Type: "generic", Config: withTTL(cf, "cache_ttl", v)})
			}
		}

		protos.Authorizers = append(protos.Authorizers,
			config.Mechanism{ID: fmt.Sprintf("remote_%d", i), Type: "remote", Config: withTTL(config.MechanismConfig{
				"endpoint": map[string]any{"url": e.srv.URL + "/authz"},
				"payload":  "{{ .Subject.ID }}",
			}, "cache_ttl", v)})
		protos.Contextualizers = append(protos.Contextualizers,
			config.Mechanism{ID: fmt.Sprintf("ctx_%d", i), Type: "generic", Config: withTTL(config.MechanismConfig{
				"endpoint": map[string]any{"url": e.srv.URL + "/ctx"},
				"payload":  "{{ .Subject.ID }}",
			}, "cache_ttl", v)})
	}

	// contextualizers whose own cache is off and whose endpoint uses the RFC 7234 http cache
	e.palH = []int64{0, 5 * sec, -sec}
	for i, d := range e.palH {
		hc := map[string]any{"enabled": true}
		if d != 0 {
			hc["default_ttl"] = time.Duration(d).String()
		}

		protos.Contextualizers = append(protos.Contextualizers,
			config.Mechanism{ID: fmt.Sprintf("ctxhttp_%d", i), Type: "generic", Config: config.MechanismConfig{
				"endpoint":  map[string]any{"url": e.srv.URL + "/cc/{{ .Subject.ID }}", "method": "GET", "http_cache": hc},
				"cache_ttl": "0s",
			}})
	}

	for i, v := range e.pal {
		protos.Finalizers = append(protos.Finalizers,
			config.Mechanism{ID: fmt.Sprintf("ccfin_%d", i), Type: "oauth2_client_credentials", Config: withTTL(config.MechanismConfig{
				"token_url": e.srv.URL + "/token", "client_id": fmt.Sprintf("ccfin-%d", i), "client_secret": "s",
			}, "cache_ttl", v)})
	}

	for i, v := range e.palF {
		protos.Finalizers = append(protos.Finalizers,
			config.Mechanism{ID: fmt.Sprintf("jwtfin_%d", i), Type: "jwt", Config: withTTL(config.MechanismConfig{
				"signer": map[string]any{"key_store": map[string]any{"path": ksPath}},
			}, "ttl", v)})
	}

	e.mf, err = mechanisms.NewMechanismFactory(&config.Configuration{Prototypes: protos}, zerolog.Nop(),
		&watcher.NoopWatcher{}, registryAdapter{}, certificate.NewObserver())
	if err != nil {
		t.Fatal(err)
	}

	// a JWT for the jwt authenticator (valid for a day)
	sig, err := jose.NewSigner(jose.SigningKey{Algorithm: jose.ES256, Key: e.key},
		(&jose.SignerOptions{}).WithType("JWT").WithHeader("kid", "k1"))
	if err != nil {
		t.Fatal(err)
	}

	now := time.Now()

	e.jwtT, err = jwt.Signed(sig).Claims(jwt.Claims{
		Issuer: issuer, Subject: "u", Expiry: jwt.NewNumericDate(now.Add(24 * time.Hour)),
		IssuedAt: jwt.NewNumericDate(now.Add(-time.Minute)),
	}).Serialize()
	if err != nil {
		t.Fatal(err)
	}

	return e
}

func (e *env) close() {
	e.srv.Close()

	if e.rds != nil {
		e.rds.c.Stop(context.Background())
		e.rds.mr.Close()
	}
}

func (e *env) rootCert(notAfter time.Time) *x509.Certificate {
	tpl := &x509.Certificate{
		SerialNumber: big.NewInt(e.ctr.Add(1)), Subject: pkix.Name{CommonName: "c10 root"},
		NotBefore: time.Now().Add(-48 * time.Hour), NotAfter: notAfter,
		IsCA: true, BasicConstraintsValid: true, KeyUsage: x509.KeyUsageCertSign | x509.KeyUsageDigitalSignature,
	}

	der, err := x509.CreateCertificate(rand.Reader, tpl, tpl, &e.ca.PublicKey, e.ca)
	if err != nil {
		panic(err)
	}

	crt, err := x509.ParseCertificate(der)
	if err != nil {
		panic(err)
	}

	return crt
}

// JWKS with the key "k1": without certificate (leafNA nil), with a self-signed leaf (rootNA nil), or with the
// chain [leaf issued by the root, root] whose two certificates expire at different instants
func (e *env) setJWKS(leafNA, rootNA *int64) {
	jwk := jose.JSONWebKey{Key: &e.key.PublicKey, KeyID: "k1", Algorithm: "ES256", Use: "sig"}

	if leafNA != nil {
		na := time.Unix(*leafNA, 0)
		tpl := &x509.Certificate{
			SerialNumber: big.NewInt(e.ctr.Add(1)),
			Subject:      pkix.Name{CommonName: "c10"},
			NotBefore:    time.Now().Add(-48 * time.Hour),
			NotAfter:     na,
			KeyUsage:     x509.KeyUsageDigitalSignature,
		}

		parent, signer := tpl, e.key

		var root *x509.Certificate

		if rootNA != nil {
			root = e.rootCert(time.Unix(*rootNA, 0))
			parent, signer = root, e.ca
		}

		der, err := x509.CreateCertificate(rand.Reader, tpl, parent, &e.key.PublicKey, signer)
		if err != nil {
			panic(err)
		}

		crt, err := x509.ParseCertificate(der)
		if err != nil {
			panic(err)
		}

		jwk.Certificates = []*x509.Certificate{crt}
		if root != nil {
			jwk.Certificates = append(jwk.Certificates, root)
		}
	}

	b, err := json.Marshal(jose.JSONWebKeySet{Keys: []jose.JSONWebKey{jwk}})
	if err != nil {
		panic(err)
	}

	e.jwks.Store(b)
}

func palIndex(pal []*int64, v *int64) int {
	for i, p := range pal {
		if (p == nil) == (v == nil) && (p == nil || *p == *v) {
			return i
		}
	}

	return -1
}

// ---------------------------------------------------------------- backends

type backend struct {
	name string
	c    cache.Cache
	mr   *miniredis.Miniredis
}

// newBackend: a fresh in-memory cache, or the shared redis cache (real client, miniredis as server) flushed.
// Only in-memory cases run concurrently.
func (e *env) newBackend(name string) *backend {
	if name == "mem" {
		c, err := memory.NewCache(nil, nil, nil)
		if err != nil {
			panic(err)
		}

		return &backend{name: name, c: c}
	}

	if e.rds != nil {
		e.rds.mr.FlushAll()

		return e.rds
	}

	mr := miniredis.NewMiniRedis()
	if err := mr.Start(); err != nil {
		panic(err)
	}

	c, err := rediscache.NewStandaloneCache(map[string]any{
		"address":      mr.Addr(),
		"client_cache": map[string]any{"disabled": true},
		"tls":          map[string]any{"disabled": true},
	}, nil, nil)
	if err != nil {
		mr.Close()
		panic(err)
	}

	e.rds = &backend{name: name, c: c, mr: mr}

	return e.rds
}

// close: nothing to do (ttlcache.Stop blocks unless Start was called; the redis backend is shared)
func (b *backend) close() {}

// advance lets d pass: real sleep for the memory cache, FastForward for miniredis
func (b *backend) advance(d time.Duration) {
	if d <= 0 {
		return
	}

	if b.mr != nil {
		b.mr.FastForward(d)
	} else {
		time.Sleep(d)
	}
}

func coqBackend(name string) string {
	if name == "mem" {
		return "Mem"
	}

	return "Redis"
}

// ---------------------------------------------------------------- rendering helpers

var mechCoq = map[string]string{
	"intro": "MIntro", "jwtkey": "MJwtKey", "generic": "MGeneric", "cc": "MClientCred",
	"jwtfin": "MJwtFin", "remote": "MRemote", "ctx": "MCtx",
}

func secondsBased(m string) bool { return m == "intro" || m == "jwtkey" || m == "generic" }

func optZ(v *int64) string {
	if v == nil {
		return "None"
	}

	return vf.CoqOpt(true, vf.CoqZ(*v))
}

func dur(v *int64) *time.Duration {
	if v == nil {
		return nil
	}

	d := time.Duration(*v)

	return &d
}

const maxTries = 25

// ---------------------------------------------------------------- kind exec

type execObs struct {
	Now    int64  `json:"now"`
	Dmax   int64  `json:"dmax"`
	Exp    *int64 `json:"exp,omitempty"`
	OK     bool   `json:"ok"`
	Lookup bool   `json:"lookup"`
	Set    *int64 `json:"set,omitempty"`
	NSets  int    `json:"nsets,omitempty"`
	TokExp *int64 `json:"tok_exp,omitempty"`
	Err    string `json:"err,omitempty"`
}

var otherOption = map[string][2]any{
	"intro":   {"allow_fallback_on_error", true},
	"jwtkey":  {"allow_fallback_on_error", true},
	"generic": {"allow_fallback_on_error", true},
	"remote":  {"forward_response_headers_to_upstream", []any{"X-C10"}},
	"ctx":     {"forward_headers", []any{"X-C10"}},
	"jwtfin":  {"claims", `{"c10":"x"}`},
	"cc":      {"scopes", []any{"a"}},
}

func (c *c10Case) ruleConf(key string) config.MechanismConfig {
	var rc config.MechanismConfig

	if c.Rule != nil {
		rc = config.MechanismConfig{key: time.Duration(*c.Rule).String()}
	}

	if c.RuleOther {
		if rc == nil {
			rc = config.MechanismConfig{}
		}

		o := otherOption[c.Mech]
		rc[o[0].(string)] = o[1] //nolint:forcetypeassert
	}

	return rc
}

func newReq(ctx context.Context, hdr map[string]string) *requestcontext.RequestContext {
	req := httptest.NewRequest(http.MethodGet, "http://c10.example/resource", nil).WithContext(ctx)
	for k, v := range hdr {
		req.Header.Set(k, v)
	}

	return requestcontext.New(req)
}

// execOnce runs one request of mechanism c.Mech (created from prototype conf +
// rule-level override) with subject/key `key`; exp is the absolute expiry to be
// reported by the remote system.  Returns error text ("" = success) and the
// token expiry for the jwt finalizer.
// tab != "": the credential (token / session value / client id) is the same for every request of that key and the
// expiry to report is handed to the endpoint through a table, so requests with different expiries share a cache key.
func (e *env) execOnce(ctx context.Context, c *c10Case, key int, exp *int64, tab string) (string, *int64, error) {
	expS := "none"
	if exp != nil {
		expS = strconv.FormatInt(*exp, 10)
	}

	cred := func(prefix string) string {
		if tab == "" {
			return fmt.Sprintf("%s.%s.k%d", prefix, expS, key)
		}

		v := fmt.Sprintf("%s.tab.%s-k%d", prefix, tab, key)
		e.tokTab.Store(v, expS)

		return v
	}

	sub := &subject.Subject{ID: fmt.Sprintf("u%d", key), Attributes: map[string]any{}}

	switch c.Mech {
	case "intro":
		a, err := e.mf.CreateAuthenticator("1alpha4", fmt.Sprintf("intro_%d", palIndex(e.pal, c.Conf)), c.ruleConf("cache_ttl"))
		if err != nil {
			return "", nil, err
		}

		_, xerr := a.Execute(newReq(ctx, map[string]string{"Authorization": "Bearer " + cred("T")}))

		return errText(xerr), nil, nil
	case "jwtkey":
		proto := "jwtkey"
		if c.Validate {
			proto = "jwtkeyv"
		}

		a, err := e.mf.CreateAuthenticator("1alpha4", fmt.Sprintf("%s_%d", proto, palIndex(e.pal, c.Conf)), c.ruleConf("cache_ttl"))
		if err != nil {
			return "", nil, err
		}

		_, xerr := a.Execute(newReq(ctx, map[string]string{"Authorization": "Bearer " + e.jwtT}))

		return errText(xerr), nil, nil
	case "generic":
		proto, prefix := fmt.Sprintf("generic_%t_%d", c.Session, palIndex(e.pal, c.Conf)), "S"
		if c.TimeFmt && c.Session {
			proto, prefix = fmt.Sprintf("genericfmt_%d", palIndex(e.pal, c.Conf)), "F"
		}

		a, err := e.mf.CreateAuthenticator("1alpha4", proto, c.ruleConf("cache_ttl"))
		if err != nil {
			return "", nil, err
		}

		_, xerr := a.Execute(newReq(ctx, map[string]string{"X-Session": cred(prefix)}))

		return errText(xerr), nil, nil
	case "remote":
		a, err := e.mf.CreateAuthorizer("1alpha4", fmt.Sprintf("remote_%d", palIndex(e.pal, c.Conf)), c.ruleConf("cache_ttl"))
		if err != nil {
			return "", nil, err
		}

		return errText(a.Execute(newReq(ctx, nil), sub)), nil, nil
	case "ctx":
		a, err := e.mf.CreateContextualizer("1alpha4", fmt.Sprintf("ctx_%d", palIndex(e.pal, c.Conf)), c.ruleConf("cache_ttl"))
		if err != nil {
			return "", nil, err
		}

		return errText(a.Execute(newReq(ctx, nil), sub)), nil, nil
	case "jwtfin":
		a, err := e.mf.CreateFinalizer("1alpha4", fmt.Sprintf("jwtfin_%d", palIndex(e.palF, c.Conf)), c.ruleConf("ttl"))
		if err != nil {
			return "", nil, err
		}

		rc := newReq(ctx, nil)
		if xerr := a.Execute(rc, sub); xerr != nil {
			return errText(xerr), nil, nil
		}

		tok := strings.TrimPrefix(rc.UpstreamHeaders().Get("Authorization"), "Bearer ")
		parts := strings.Split(tok, ".")

		if len(parts) != 3 {
			return "", nil, fmt.Errorf("finalizer produced no JWT: %q", tok)
		}

		raw, err := base64.RawURLEncoding.DecodeString(parts[1])
		if err != nil {
			return "", nil, err
		}

		var claims struct {
			Exp int64 `json:"exp"`
		}
		if err = json.Unmarshal(raw, &claims); err != nil {
			return "", nil, err
		}

		return "", p64(claims.Exp), nil
	case "cc":
		if c.ViaFin {
			i := palIndex(e.pal, c.Conf)
			e.tokTab.Store(fmt.Sprintf("ccfin-%d", i), expS)

			a, err := e.mf.CreateFinalizer("1alpha4", fmt.Sprintf("ccfin_%d", i), c.ruleConf("cache_ttl"))
			if err != nil {
				return "", nil, err
			}

			return errText(a.Execute(newReq(ctx, nil), sub)), nil, nil
		}

		cfg := &clientcredentials.Config{
			TokenURL: e.srv.URL + "/token", ClientID: cred("C"), ClientSecret: "s", TTL: dur(c.Conf),
		}

		_, xerr := cfg.Token(ctx)

		return errText(xerr), nil, nil
	}

	return "", nil, fmt.Errorf("unknown mechanism %q", c.Mech)
}

func errText(err error) string {
	if err == nil {
		return ""
	}

	return "error: " + err.Error()
}

// outcome of the attempts to pin the timing of a case down
const (
	timingOK      = ""
	timingSkipped = "skipped:timing" // clock second flipped / bracket too wide on every attempt
)

func (e *env) runExec(c *c10Case) (execObs, string, string) {
	var o execObs

	timing := timingSkipped

	for try := 0; try < maxTries; try++ {
		rec := newRec(nullCache{})
		ctx := cache.WithContext(context.Background(), rec)
		t0 := time.Now()
		s0 := t0.Unix()

		var exp *int64 // as the remote system reports it

		switch {
		case c.Delta == nil:
		case c.Mech == "cc":
			exp = p64(*c.Delta / sec) // expires_in, whole seconds
		default:
			exp = p64(s0 + *c.Delta)
		}

		if c.Mech == "jwtkey" {
			var root *int64
			if c.Chain != nil && exp != nil {
				root = p64(s0 + *c.Chain)
			}

			e.setJWKS(exp, root)
		}

		rec.begin(0)

		etxt, tokExp, err := e.execOnce(ctx, c, 1, exp, "")
		if err != nil {
			panic(fmt.Sprintf("exec %+v: %v", c, err))
		}

		dmax := int64(time.Since(t0))
		sum := rec.summary()
		o = execObs{OK: etxt == "", Lookup: sum.lookup, Set: sum.set, NSets: sum.nsets, TokExp: tokExp, Err: etxt}

		if dmax > 4*sec {
			continue // outside the hypothesis of the theorems (max_delay)
		}

		if secondsBased(c.Mech) {
			if time.Now().Unix() != s0 {
				continue
			}

			o.Now, o.Dmax, o.Exp = s0*sec, 0, exp
		} else {
			o.Now, o.Dmax = t0.UnixNano(), dmax
			if c.Mech == "cc" && exp != nil {
				o.Exp = p64(t0.UnixNano() + *exp*sec)
			}
		}

		timing = timingOK

		break
	}

	exp := o.Exp
	if c.Mech == "generic" && !c.Session {
		exp = nil
	}

	set := o.Set
	if o.NSets > 1 {
		// more than one Set in one request: the model makes at most one; report the largest ttl
		set = p64(1 << 62)
	}

	coq := vf.CoqApp("CExec", mechCoq[c.Mech], optZ(c.Conf), optZ(c.Rule), optZ(exp), vf.CoqZ(o.Now), vf.CoqZ(o.Dmax),
		vf.CoqApp("eo", vf.CoqBool(o.OK), vf.CoqBool(o.Lookup), optZ(set), optZ(o.TokExp)))

	return o, coq, timing
}

// ---------------------------------------------------------------- kind http

type stubTransport struct {
	calls    atomic.Int64
	failFrom int64 // > 0: the n-th and later calls fail (remote system down)
	make     func(n int64, req *http.Request) *http.Response
}

var errRemoteDown = errors.New("c10: remote system down")

// slowBody: a response body whose bytes arrive `delay` after the headers (the reader blocks that long on its first
// Read); `took` is the time the reader was actually blocked -- a lower bound of the time between the moment the response
// (its headers) was available and the moment its body had been read completely.
type slowBody struct {
	r     io.Reader
	delay time.Duration
	once  sync.Once
	took  atomic.Int64
}

func (b *slowBody) Read(p []byte) (int, error) {
	b.once.Do(func() {
		if b.delay > 0 {
			start := time.Now()
			time.Sleep(b.delay)
			b.took.Store(int64(time.Since(start)))
		}
	})

	return b.r.Read(p)
}

func (b *slowBody) Close() error { return nil }

func (s *stubTransport) RoundTrip(req *http.Request) (*http.Response, error) {
	n := s.calls.Add(1)
	if s.failFrom > 0 && n >= s.failFrom {
		return nil, errRemoteDown
	}

	return s.make(n, req), nil
}

func (r *c10Resp) header(now time.Time) http.Header {
	h := http.Header{}
	h.Set("Content-Type", "text/plain")

	if r.CC != "" {
		h.Set("Cache-Control", r.CC)
	}

	if r.Date != nil {
		h.Set("Date", now.Add(time.Duration(*r.Date)*time.Second).UTC().Format(http.TimeFormat))
	}

	switch {
	case r.ExpRaw != "":
		h.Set("Expires", r.ExpRaw)
	case r.Expires != nil:
		h.Set("Expires", now.Add(time.Duration(*r.Expires)*time.Second).UTC().Format(http.TimeFormat))
	}

	if r.Vary != "" {
		h.Set("Vary", r.Vary)
	}

	if r.Age != "" {
		h.Set("Age", r.Age)
	}

	if r.LastMod != nil {
		h.Set("Last-Modified", now.Add(time.Duration(*r.LastMod)*time.Second).UTC().Format(http.TimeFormat))
	}

	return h
}

func (r *c10Resp) request(ctx context.Context, key int) *http.Request {
	req, _ := http.NewRequestWithContext(ctx, r.Method, fmt.Sprintf("http://c10-remote.example/res/%d", key), nil)
	if r.ReqCC != "" {
		req.Header.Set("Cache-Control", r.ReqCC)
	}

	return req
}

func response(req *http.Request, status int, h http.Header, body string) *http.Response {
	return &http.Response{
		Status: fmt.Sprintf("%d %s", status, http.StatusText(status)), StatusCode: status,
		Proto: "HTTP/1.1", ProtoMajor: 1, ProtoMinor: 1,
		Header: h.Clone(), Body: io.NopCloser(strings.NewReader(body)), ContentLength: int64(len(body)), Request: req,
	}
}

// oracle: what the RFC 7234 library says about this request/response (cachable?, freshness lifetime)
func oracle(req *http.Request, status int, h http.Header) (bool, *int64) {
	reasons, expires, _, obj, err := cacheobject.UsingRequestResponseWithObject(req, status, h, true)
	if err != nil || len(reasons) != 0 {
		return false, nil
	}

	if expires.IsZero() {
		return true, nil
	}

	return true, p64(int64(expires.Sub(obj.NowUTC)))
}

// hvals: the driver's OWN reading of the freshness-relevant header values (RFC 7234 4.2, 5.1, 5.3, 7.1.1.2 of RFC
// 7231), independent of pquerna/cachecontrol: max-age (the last valid one of all Cache-Control fields, s-maxage does
// not concern a private cache), Expires (absent / unparsable / instant), Date, Age (non-negative integer, else 0)
type hvals struct {
	MaxAge  *int64 `json:"max_age,omitempty"` // ns
	Expires *int64 `json:"expires,omitempty"` // ns instant
	BadExp  bool   `json:"bad_expires,omitempty"`
	Date    *int64 `json:"date,omitempty"` // ns instant
	Age     int64  `json:"age,omitempty"`  // ns
}

func parseHvals(h http.Header) hvals {
	var v hvals

	for _, field := range h.Values("Cache-Control") {
		for _, d := range strings.Split(field, ",") {
			name, val, _ := strings.Cut(strings.TrimSpace(d), "=")
			if strings.EqualFold(strings.TrimSpace(name), "max-age") {
				if n, err := strconv.ParseInt(strings.Trim(strings.TrimSpace(val), `"`), 10, 64); err == nil && n >= 0 {
					v.MaxAge = p64(n * sec)
				}
			}
		}
	}

	if x := h.Get("Expires"); x != "" {
		if t, err := http.ParseTime(x); err == nil {
			v.Expires = p64(t.Unix() * sec)
		} else {
			v.BadExp = true
		}
	}

	if x := h.Get("Date"); x != "" {
		if t, err := http.ParseTime(x); err == nil {
			v.Date = p64(t.Unix() * sec)
		}
	}

	if n, err := strconv.ParseInt(strings.TrimSpace(h.Get("Age")), 10, 64); err == nil && n >= 0 {
		v.Age = n * sec
	}

	return v
}

func (v hvals) coq() string {
	exp := "None"
	if v.BadExp {
		exp = "(Some None)"
	} else if v.Expires != nil {
		exp = "(Some " + optZ(v.Expires) + ")"
	}

	return vf.CoqApp("mkh", optZ(v.MaxAge), exp, optZ(v.Date), vf.CoqZ(v.Age))
}

type httpObs struct {
	MethodOK  bool   `json:"method_ok"`
	Vary      bool   `json:"vary"`
	Lookup    bool   `json:"lookup"`
	Cachable  bool   `json:"cachable"`
	H         hvals  `json:"hvals"`
	LibLife   *int64 `json:"lib_life,omitempty"`
	Now       int64  `json:"now"`
	Dmax      int64  `json:"dmax"`
	BodyDelay int64  `json:"body_delay,omitempty"`
	TGet      int64  `json:"tget"`
	NSets     int    `json:"nsets"`
	Set       *int64 `json:"set,omitempty"`
	Hit       bool   `json:"hit"`
}

func (e *env) runHTTP(c *c10Case) (httpObs, string, string) {
	var o httpObs

	timing := timingSkipped

	for try := 0; try < maxTries; try++ {
		be := e.newBackend(c.Backend)
		rec := newRec(be.c)
		ctx := cache.WithContext(context.Background(), rec)

		// the bracket starts before the headers are made: Date/Expires are relative to this clock reading
		t0 := time.Now()
		hdr := c.Resp.header(t0)

		var first *slowBody

		stub := &stubTransport{make: func(n int64, req *http.Request) *http.Response {
			resp := response(req, c.Resp.Status, hdr, fmt.Sprintf("body-%d", n))
			if n == 1 {
				// the headers are there at once, the body only after BodyDelay
				first = &slowBody{r: resp.Body, delay: time.Duration(c.BodyDelay)}
				resp.Body = first
			}

			return resp
		}}

		if c.Fail2 {
			stub.failFrom = 2
		}

		rt := &httpcache.RoundTripper{Transport: stub, DefaultCacheTTL: time.Duration(c.Dflt)}

		cachable, life := oracle(c.Resp.request(ctx, 1), c.Resp.Status, hdr)

		rec.begin(0)

		resp, err := rt.RoundTrip(c.Resp.request(ctx, 1))
		if err != nil {
			panic(err)
		}

		io.Copy(io.Discard, resp.Body)

		sum := rec.summary()
		setAt := rec.setAt
		dmax := int64(time.Since(t0))
		flipped := hdr.Get("Date") != "" && time.Now().Unix() != t0.Unix()

		bdelay := int64(0)
		if first != nil && sum.set != nil {
			// the body was read before the Set (by the dump); otherwise it was read by the driver afterwards
			bdelay = first.took.Load()
		}

		// second request: immediately (in-memory) or after simulated time (miniredis)
		tget := int64(0)
		if be.mr != nil {
			be.advance(time.Duration(c.Adv))
			tget = c.Adv
		}

		rec.begin(1)

		hit := false
		start2 := time.Now()

		resp, err = rt.RoundTrip(c.Resp.request(ctx, 1))
		if err == nil {
			io.Copy(io.Discard, resp.Body)

			hit = stub.calls.Load() == 1
		} else if !errors.Is(err, errRemoteDown) {
			panic(err)
		}

		end2 := time.Now()
		uncert := int64(end2.Sub(start2))

		if be.mr == nil {
			// at most this long after the Set was called
			tget = int64(end2.Sub(t0))
			if !setAt.IsZero() {
				tget = int64(end2.Sub(setAt))
				uncert += int64(start2.Sub(setAt))
			}
		}

		be.close()

		o = httpObs{
			MethodOK: c.Resp.Method == http.MethodGet || c.Resp.Method == http.MethodHead, Vary: c.Resp.Vary != "",
			Lookup: sum.lookup, Cachable: cachable, H: parseHvals(hdr), LibLife: life, Now: t0.UnixNano(), Dmax: dmax,
			BodyDelay: bdelay, TGet: tget, NSets: sum.nsets, Set: sum.set, Hit: hit,
		}

		// the apparent age (now - Date, whole seconds) must be the same at both ends of the bracket; a stored ttl
		// must not be within the measured uncertainty of the second request's instant
		if flipped {
			continue
		}

		if sum.set != nil && *sum.set > 0 {
			if d := *sum.set - tget; d > -4*uncert-2*msec && d < 4*uncert+2*msec {
				continue
			}
		}

		timing = timingOK

		break
	}

	coq := vf.CoqApp("CHttp", coqBackend(c.Backend), vf.CoqBool(o.Cachable), o.H.coq(), vf.CoqZ(c.Dflt), vf.CoqZ(o.Now),
		vf.CoqZ(o.Dmax), vf.CoqZ(o.BodyDelay), vf.CoqZ(o.TGet), vf.CoqZ(int64(o.NSets)), optZ(o.Set), vf.CoqBool(o.Hit))

	return o, coq, timing
}

// genSlowBody: a cachable response whose remaining freshness is 1-2 s on arrival and whose body arrives 0.3 / 1.2 / 2.3 s
// after the headers, into the real in-memory cache: the ttl handed to Set must be what is left AFTER the body arrived,
// and nothing may be stored (nor answered from cache) once the response went stale on the wire.
func genSlowBody(r *vf.Rand) c10Case {
	c := c10Case{Kind: "http", Backend: "mem", Resp: &c10Resp{Method: vf.Pick(r, []string{"GET", "GET", "HEAD"}), Status: 200},
		BodyDelay: vf.Pick(r, []int64{300 * msec, 1200 * msec, 1200 * msec, 2300 * msec})}

	switch r.Intn(4) {
	case 0:
		c.Resp.CC = vf.Pick(r, []string{"max-age=1", "max-age=2"})
	case 1:
		c.Resp.CC, c.Resp.Age = "max-age=60", vf.Pick(r, []string{"58", "59"})
	case 2:
		c.Dflt = vf.Pick(r, []int64{sec, 2 * sec}) // no explicit lifetime: the default ttl
	default:
		c.Resp.Expires = p64(vf.Pick(r, []int64{2, 3})) // Expires without Date: an absolute instant 1-3 s ahead
	}

	return c
}

// ---------------------------------------------------------------- kind cache

type opObs struct {
	T   int64  `json:"t"`
	OK  bool   `json:"ok,omitempty"`
	Val *int64 `json:"val,omitempty"`
}

const margin = 2 * msec

// one Set remembered for the ambiguity test: ttl inside [lo, hi] around a later probe => undetermined
type setMark struct{ a, b, ttl int64 }

func ambiguous(m setMark, a, b int64) bool {
	if m.ttl <= 0 {
		return false
	}

	return a-m.b-margin <= m.ttl && m.ttl <= b-m.a+margin
}

// runCache: Set/Get sequences on a real backend.  miniredis: simulated, exact clock.  In-memory cache: real time on
// the monotonic clock; a Set is recorded at the instant it RETURNED, a Get at the instant it was ISSUED, so the model
// entry expires no earlier and the model probe happens no later than the real ones: whatever the load, a real hit
// the model does not allow is a hit at or after set-return + ttl.  (A late or early MISS is never a disagreement.)
func (e *env) runCache(c *c10Case) ([]opObs, string, bool) {
	be := e.newBackend(c.Backend)
	ctx := context.Background()
	base := time.Now()
	sim := base.UnixNano()
	val := int64(0)

	clock := func() int64 {
		if be.mr != nil {
			return sim
		}

		return base.UnixNano() + int64(time.Since(base))
	}

	var (
		obs   []opObs
		items []string
	)

	for _, op := range c.Ops {
		be.advance(time.Duration(op.Adv))
		sim += op.Adv

		key := fmt.Sprintf("key-%d", op.Key)

		if op.Op == "set" {
			val++
			err := be.c.Set(ctx, key, []byte(strconv.FormatInt(val, 10)), time.Duration(op.TTL))
			t := clock() // after the Set returned

			obs = append(obs, opObs{T: t, OK: err == nil})
			items = append(items, vf.CoqApp("OSet", vf.CoqZ(t), vf.CoqZ(int64(op.Key)), vf.CoqZ(val), vf.CoqZ(op.TTL), vf.CoqBool(err == nil)))

			continue
		}

		t := clock() // before the Get is issued
		v, err := be.c.Get(ctx, key)

		var got *int64

		if err == nil {
			n, perr := strconv.ParseInt(string(v), 10, 64)
			if perr != nil {
				panic(fmt.Sprintf("cache returned %q", v))
			}

			got = p64(n)
		}

		obs = append(obs, opObs{T: t, Val: got})
		items = append(items, vf.CoqApp("OGet", vf.CoqZ(t), vf.CoqZ(int64(op.Key)), optZ(got)))
	}

	be.close()

	return obs, vf.CoqApp("CCache", coqBackend(c.Backend), vf.CoqList(items)), false
}

// genBurst: many entries with the same ttl (200 ms .. 2 s) stored in one go and all probed just after the last
// Set's return + ttl + 3 ms: none may be answered.  Catches an expiry that is applied late or fuzzily (e.g. a random
// spread of a few percent of the ttl) -- several dozen entries, because such a spread is random.
func genBurst(r *vf.Rand) c10Case {
	c := c10Case{Kind: "cache", Backend: "mem"}
	ttl := vf.Pick(r, []int64{200 * msec, 300 * msec, 500 * msec, sec, 2 * sec})
	n := r.Range(40, 60)

	for k := 1; k <= n; k++ {
		c.Ops = append(c.Ops, c10Op{Op: "set", Key: k, TTL: ttl})
	}

	for k := 1; k <= n; k++ {
		op := c10Op{Op: "get", Key: k}
		if k == 1 {
			op.Adv = ttl + 3*msec
		}

		c.Ops = append(c.Ops, op)
	}

	// and once more a little later (an entry whose lifetime was stretched by up to 5 % is still there)
	for k := 1; k <= n; k += 3 {
		op := c10Op{Op: "get", Key: k}
		if k == 1 {
			op.Adv = ttl / 50
		}

		c.Ops = append(c.Ops, op)
	}

	return c
}

// ---------------------------------------------------------------- kind hist

type evObs struct {
	T      int64  `json:"t"`
	Hit    bool   `json:"hit"`
	Origin int    `json:"origin,omitempty"`
	Set    *int64 `json:"set,omitempty"`
	Exp    *int64 `json:"exp,omitempty"`
}

func (e *env) runHist(c *c10Case) ([]evObs, string, bool) {
	var (
		obs  []evObs
		coq  string
		ambi bool
	)

	for try := 0; try < 6; try++ {
		be := e.newBackend(c.Backend)
		rec := newRec(be.c)
		ctx := cache.WithContext(context.Background(), rec)
		base := time.Now()
		sim := base.UnixNano()
		marks := map[int]setMark{}
		maxDur := int64(0)
		xsets := 0

		var (
			evs, outs []string
			stub      *stubTransport
			rt        *httpcache.RoundTripper
			curHdr    http.Header
			curStatus int
		)

		isHTTP := c.Mech == "http" || c.Mech == "ctxhttp"
		caseID := e.ctr.Add(1)
		tab := fmt.Sprintf("h%d", caseID)

		if c.Mech == "http" {
			stub = &stubTransport{make: func(n int64, req *http.Request) *http.Response {
				return response(req, curStatus, curHdr, fmt.Sprintf("body-%d-%d", n, e.ctr.Add(1)))
			}}
			rt = &httpcache.RoundTripper{Transport: stub, DefaultCacheTTL: time.Duration(c.Dflt)}
		}

		obs, ambi = nil, false

		for i, ev := range c.Evs {
			be.advance(time.Duration(ev.Adv))
			sim += ev.Adv

			a := sim
			if be.mr == nil {
				a = base.UnixNano() + int64(time.Since(base))
			}

			rec.begin(i)

			var rexp *int64 // r_exp of the fresh answer, in the unit of the model

			start := time.Now()

			switch c.Mech {
			case "ctxhttp":
				// the real client wiring: contextualizer -> Endpoint.CreateClient -> httpcache.RoundTripper -> httptest server
				path := fmt.Sprintf("h%d-%d", caseID, ev.Key)
				e.ccTab.Store("/cc/"+path, ev.Resp.CC)

				hdr := http.Header{}
				hdr.Set("Date", start.UTC().Format(http.TimeFormat)) // net/http adds a Date header

				if ev.Resp.CC != "" {
					hdr.Set("Cache-Control", ev.Resp.CC)
				}

				_, life := oracle(ev.Resp.request(ctx, ev.Key), http.StatusOK, hdr)

				di := 0
				for i, d := range e.palH {
					if d == c.Dflt {
						di = i
					}
				}

				mech, err := e.mf.CreateContextualizer("1alpha4", fmt.Sprintf("ctxhttp_%d", di), nil)
				if err != nil {
					panic(err)
				}

				start = time.Now()

				if be.mr == nil {
					a = base.UnixNano() + int64(start.Sub(base))
				}

				if life != nil {
					rexp = p64(a + *life)
				}

				if err = mech.Execute(newReq(ctx, nil), &subject.Subject{ID: path, Attributes: map[string]any{}}); err != nil {
					panic(fmt.Sprintf("ctxhttp %+v: %v", c, err))
				}
			case "http":
				curHdr, curStatus = ev.Resp.header(start), ev.Resp.Status
				_, life := oracle(ev.Resp.request(ctx, ev.Key), curStatus, curHdr)

				start = time.Now()

				if be.mr == nil {
					a = base.UnixNano() + int64(start.Sub(base))
				}

				if life != nil {
					rexp = p64(a + *life)
				}

				resp, err := rt.RoundTrip(ev.Resp.request(ctx, ev.Key))
				if err != nil {
					panic(err)
				}

				io.Copy(io.Discard, resp.Body)
			default:
				// expiry the remote system reports, relative to the REAL clock (the mechanism reads the real clock);
				// the model runs on the backend's clock (simulated for miniredis), so r_exp is shifted by the
				// difference of the two clocks in whole seconds
				sReal := start.Unix()

				var exp *int64

				switch {
				case c.Mech == "cc":
					if ev.Delta != nil {
						exp = p64(*ev.Delta) // expires_in
						rexp = p64(a + *ev.Delta*sec)
					}
				case secondsBased(c.Mech) && (c.Mech != "generic" || c.Session):
					d := int64(7200)
					if ev.Delta != nil {
						d = *ev.Delta
					}

					exp = p64(sReal + d)
					rexp = p64(*exp + (a/sec - sReal))
				}

				if c.Mech == "jwtkey" {
					e.setJWKS(exp, nil)
				}

				cc := *c
				if c.Kind == "mix" {
					// one prototype, a rule-level ttl per request (client credentials: Config.TTL per request)
					cc.Rule = ev.Rule
					if c.Mech == "cc" {
						cc.Conf = ev.Conf
					}
				}

				etxt, _, err := e.execOnce(ctx, &cc, ev.Key, exp, tab)
				if err != nil || etxt != "" {
					panic(fmt.Sprintf("hist %+v: %v %s", c, err, etxt))
				}

				if secondsBased(c.Mech) && time.Now().Unix() != sReal {
					ambi = true // the clock second flipped during the request
				}
			}

			d := int64(time.Since(start))
			if d > maxDur {
				maxDur = d
			}

			b := a
			if be.mr == nil {
				b = a + d
			}

			sum := rec.summary()
			hit, origin, set := sum.hit, sum.origin, sum.set

			if hit {
				xsets += sum.nsets
			}

			if m, ok := marks[ev.Key]; ok && be.mr == nil && ambiguous(m, a, b) {
				ambi = true
			}

			if m, ok := marks[ev.Key]; ok && be.mr != nil && m.ttl > 0 {
				// simulated clock is exact; PX truncation and time.Until lose < 1 ms + the call duration
				if el := a - m.a; el >= m.ttl-d-2*msec && el <= m.ttl+msec {
					ambi = true
				}
			}

			if !hit && set != nil {
				stored := true
				if be.mr != nil && *set < msec {
					stored = false
				}

				if stored {
					marks[ev.Key] = setMark{a: a, b: b, ttl: *set}
				}

				// a ttl inside the duration of the request itself cannot be judged
				if *set > 0 && *set <= d+2*msec {
					ambi = true
				}
			}

			obs = append(obs, evObs{T: a, Hit: hit, Origin: origin, Set: set, Exp: rexp})
			if c.Kind == "mix" {
				conf := c.Conf
				if c.Mech == "cc" {
					conf = ev.Conf
				}

				evs = append(evs, vf.CoqApp("mkmev", vf.CoqZ(a), vf.CoqZ(int64(ev.Key)), optZ(conf), optZ(ev.Rule), vf.CoqZ(int64(i)),
					optZ(rexp)))
			} else {
				evs = append(evs, vf.CoqApp("mkev", vf.CoqZ(a), vf.CoqZ(int64(ev.Key)), vf.CoqZ(int64(i)), optZ(rexp)))
			}

			if hit {
				outs = append(outs, vf.CoqApp("HHit", vf.CoqZ(int64(origin))))
			} else {
				outs = append(outs, vf.CoqApp("HMiss", optZ(set)))
			}
		}

		be.close()

		var hk string
		if isHTTP {
			hk = vf.CoqApp("HHttp", vf.CoqZ(c.Dflt))
		} else {
			hk = vf.CoqApp("HMech", mechCoq[c.Mech], optZ(c.Conf), optZ(c.Rule))
		}

		coq = vf.CoqApp("CHist", coqBackend(c.Backend), hk, vf.CoqZ(maxDur+msec), vf.CoqZ(int64(xsets)), vf.CoqList(evs),
			vf.CoqList(outs))
		if c.Kind == "mix" {
			coq = vf.CoqApp("CMix", coqBackend(c.Backend), mechCoq[c.Mech], vf.CoqZ(maxDur+msec), vf.CoqZ(int64(xsets)),
				vf.CoqList(evs), vf.CoqList(outs))
		}

		if !ambi {
			break
		}
	}

	return obs, coq, ambi
}

// ---------------------------------------------------------------- generators

var (
	deltaGrid = []int64{-86400, -3600, -60, -21, -20, -19, -12, -11, -10, -9, -8, -6, -5, -4, -1, 0, 1, 2, 4, 5, 6, 8, 9, 10, 11, 12,
		13, 15, 19, 20, 21, 30, 59, 60, 61, 299, 300, 301, 309, 310, 311, 599, 600, 601, 609, 610, 611, 3600, 86400}
	stGrid = []int64{0, -1, -sec, 1, msec, sec, 3 * sec, 5 * sec, 10 * sec, 30 * sec, 300 * sec, 600 * sec, 3600 * sec}
)

func genDelta(r *vf.Rand, leeway int64) *int64 {
	switch {
	case r.Chance(12):
		return nil
	case r.Chance(45):
		// around the leeway and around now
		return p64(vf.Pick(r, []int64{0, leeway, -leeway, 2 * leeway}) + int64(r.Range(-2, 2)))
	default:
		return p64(vf.Pick(r, deltaGrid))
	}
}

func (e *env) genExec(r *vf.Rand) c10Case {
	c := c10Case{Kind: "exec", Mech: vf.Pick(r, []string{"intro", "intro", "intro", "jwtkey", "jwtkey", "jwtkey", "generic",
		"generic", "cc", "cc", "jwtfin", "remote", "remote", "ctx"})}
	pal := e.pal[:9] // second-scale values only

	switch c.Mech {
	case "jwtfin":
		c.Conf = vf.Pick(r, e.palF)
		if r.Chance(50) {
			c.Rule = vf.Pick(r, e.palF[1:])
		}

		c.RuleOther = r.Chance(30)

		return c
	case "cc":
		c.Conf = vf.Pick(r, pal)

		if c.ViaFin = r.Chance(50); c.ViaFin {
			c.RuleOther = r.Chance(30)
			if r.Chance(55) {
				c.Rule = vf.Pick(r, pal[1:])
			}
		} else if r.Chance(50) {
			c.Conf = p64(vf.Pick(r, stGrid)) // Config.TTL takes any value
		}

		if r.Chance(85) {
			c.Delta = p64(vf.Pick(r, []int64{1, 3, 4, 5, 6, 7, 10, 60, 299, 300, 305, 306, 3600}) * sec)
			if !c.ViaFin && r.Chance(30) {
				// configured ttl next to the remaining lifetime
				c.Conf = p64(*c.Delta - 5*sec + int64(r.Range(-1, 1))*sec)
			}
		}

		return c
	}

	c.Conf = vf.Pick(r, pal)
	c.RuleOther = r.Chance(30)

	switch {
	case r.Chance(30):
		// the whole grid of ttl values through the rule level (1 ns .. 1 h, zero, negative)
		c.Rule = p64(vf.Pick(r, stGrid))
	case r.Chance(50):
		c.Rule = vf.Pick(r, pal[1:])
		if r.Chance(25) {
			c.Rule = p64(0)
		}
	}

	switch c.Mech {
	case "intro", "jwtkey":
		c.Delta = genDelta(r, 10)
	case "generic":
		c.Session = !r.Chance(20)
		if c.Session {
			c.Delta = genDelta(r, 10)
			c.TimeFmt = r.Chance(35)
		}
	}

	if c.Delta != nil && r.Chance(30) && *c.Delta > 10 {
		// rule-level ttl next to the remaining lifetime
		c.Rule = p64((*c.Delta - 10 + int64(r.Range(-1, 1))) * sec)
	}

	if c.Mech == "jwtkey" && c.Delta != nil && r.Chance(65) {
		// x5c chain [leaf, root]: the root expires long after, shortly after, or before the leaf
		c.Chain = p64(vf.Pick(r, []int64{10 * 365 * 86400, 10 * 365 * 86400, *c.Delta + 3600, *c.Delta + 20, *c.Delta - 5, 5, -100}))
		c.Validate = r.Chance(45)
	}

	return c
}

var (
	ccPool = []string{"", "", "max-age=0", "max-age=0", "max-age=1", "max-age=5", "max-age=3600", "no-store", "no-cache", "private",
		"private, max-age=60", "public, max-age=30", "s-maxage=10", "max-age=0, s-maxage=100", "must-revalidate, max-age=2",
		"max-age=-5", "max-age=abc", "max-age=86400, no-store"}
	statusPool = []int{200, 200, 200, 200, 200, 203, 204, 206, 301, 302, 404, 410, 500, 503}
)

func genResp(r *vf.Rand, cachableBias bool) *c10Resp {
	p := &c10Resp{Method: http.MethodGet, Status: http.StatusOK}

	if !cachableBias {
		p.Method = vf.Pick(r, []string{"GET", "GET", "GET", "GET", "HEAD", "POST", "PUT"})
		p.Status = vf.Pick(r, statusPool)
		p.ReqCC = vf.Pick(r, []string{"", "", "", "", "no-store", "no-cache", "max-age=0"})
		p.CC = vf.Pick(r, ccPool)
	} else {
		p.CC = vf.Pick(r, []string{"", "", "max-age=0", "max-age=1", "max-age=2", "max-age=3600", "public, max-age=1"})
		p.Method = vf.Pick(r, []string{"GET", "GET", "GET", "GET", "HEAD", "POST", "DELETE"})
	}

	if r.Chance(60) {
		p.Date = p64(vf.Pick(r, []int64{0, 0, -30, 30, -3600}))
	}

	if !cachableBias && r.Chance(15) || cachableBias && r.Chance(8) {
		p.Vary = vf.Pick(r, []string{"Accept", "Accept-Encoding, Cookie", "*"})
	}

	if r.Chance(25) {
		// the response has been sitting in an intermediary cache
		p.Age = vf.Pick(r, []string{"0", "1", "30", "59", "60", "3599", "3600", "7200", "abc", "-5"})
	}

	if r.Chance(45) {
		if r.Chance(15) {
			p.ExpRaw = vf.Pick(r, []string{"0", "-1", "garbage"})
		} else {
			base := int64(0)
			if p.Date != nil {
				base = *p.Date
			}

			p.Expires = p64(base + vf.Pick(r, []int64{-3600, -1, 0, 1, 2, 60, 3600}))
		}
	}

	// Last-Modified only next to an explicit lifetime: the heuristic lifetime (10 % of the age) depends on the
	// library's own clock reading, so the oracle's answer would differ from the one inside cacheResponse
	if r.Chance(20) && (strings.Contains(p.CC, "max-age=") || p.Expires != nil) {
		p.LastMod = p64(vf.Pick(r, []int64{-100000, -1000, 1000}))
	}

	return p
}

func genHTTP(r *vf.Rand) c10Case {
	c := c10Case{
		Kind: "http", Backend: vf.Pick(r, []string{"mem", "mem", "redis", "redis"}), Resp: genResp(r, r.Chance(45)),
		Dflt:  vf.Pick(r, []int64{0, 0, 5 * sec, 3600 * sec, -sec}),
		Fail2: r.Chance(20),
	}

	if c.Backend == "redis" {
		c.Adv = vf.Pick(r, []int64{0, 0, 500 * msec, 1500 * msec, 30500 * msec, 7200 * sec})
	}

	return c
}

func genCache(r *vf.Rand, backend string) c10Case {
	c := c10Case{Kind: "cache", Backend: backend}
	n := r.Range(3, 10)
	sleeps := 0

	for i := 0; i < n; i++ {
		op := c10Op{Op: "get", Key: r.Range(1, 2)}
		if i == 0 || r.Chance(40) {
			op.Op = "set"
		}

		if backend == "redis" {
			op.Adv = vf.Pick(r, []int64{0, 0, msec, 49 * msec, 50 * msec, 51 * msec, 99 * msec, 100 * msec, 101 * msec, sec, 7200 * sec})
			if op.Op == "set" {
				op.TTL = vf.Pick(r, []int64{-3600 * sec, -sec, -msec, -2, -1, 0, 1, 999_999, msec, 1_500_000, 50 * msec, 100 * msec,
					sec, 3600 * sec})
			}
		} else {
			switch {
			case sleeps < 2 && r.Chance(20):
				op.Adv = 170 * msec
				sleeps++
			case sleeps < 3 && r.Chance(25):
				// two such steps after a Set with ttl 60 ms: hit, then miss (unless a hit extends the lifetime)
				op.Adv = 35 * msec
				sleeps++
			case r.Chance(30):
				op.Adv = 3 * msec
			}

			if op.Op == "set" {
				op.TTL = vf.Pick(r, []int64{-3600 * sec, -1, 0, -2, -2, 60 * msec, 60 * msec, 80 * msec, 3600 * sec})
			}
		}

		c.Ops = append(c.Ops, op)
	}

	return c
}

func (e *env) genHist(r *vf.Rand, backend string) c10Case {
	c := c10Case{Kind: "hist", Backend: backend}
	n := r.Range(3, 6)

	if r.Chance(40) {
		c.Mech = "http"
		c.Dflt = vf.Pick(r, []int64{0, 0, 5 * sec, -sec})
		viaMech := r.Chance(40)

		for i := 0; i < n; i++ {
			ev := c10Ev{Key: r.Range(1, 2), Resp: &c10Resp{Method: "GET", Status: 200}}
			if backend == "redis" {
				ev.Resp.CC = vf.Pick(r, []string{"max-age=0", "max-age=1", "max-age=2", "max-age=3600", ""})
				ev.Adv = vf.Pick(r, []int64{0, 0, 450 * msec, 1450 * msec, 2450 * msec, 5450 * msec})
			} else {
				ev.Resp.CC = vf.Pick(r, []string{"max-age=0", "max-age=0", "max-age=3600", ""})
				if r.Chance(30) {
					ev.Adv = 20 * msec
				}
			}

			if ev.Resp.CC == "" && r.Chance(50) && !viaMech {
				ev.Resp.Date = p64(0)
				ev.Resp.Expires = p64(vf.Pick(r, []int64{-60, 0, 3600}))
			}

			c.Evs = append(c.Evs, ev)
		}

		if viaMech {
			c.Mech = "ctxhttp"
		}

		return c
	}

	// every mechanism the statement names runs its HIT path over time here (also the jwt finalizer, client
	// credentials and the JWK cache); the JWK cache needs the shared JWKS state, i.e. the sequential redis cases
	mechs := []string{"remote", "ctx", "generic", "intro", "jwtfin", "cc"}
	if backend == "redis" {
		mechs = append(mechs, "jwtkey", "jwtkey")
	}

	c.Mech = vf.Pick(r, mechs)
	c.RuleOther = r.Chance(30) && c.Mech != "cc"

	// expiry information near now (redis only: simulated time makes seconds cheap)
	var near []int64

	if backend == "redis" && r.Chance(50) {
		switch c.Mech {
		case "intro", "jwtkey":
			near = []int64{9, 11, 12, 13}
		case "generic":
			c.Session = true
			near = []int64{9, 11, 12, 13}
		case "cc":
			near = []int64{4, 6, 7, 8} // expires_in
		}
	}

	switch {
	case c.Mech == "jwtfin":
		// cache ttl = ttl - 5 s: 1 s, 25 s, none (ttl <= 5 s)
		ttl := vf.Pick(r, []*int64{p64(6 * sec), p64(6 * sec), p64(30 * sec), p64(3 * sec)})
		if r.Chance(50) {
			c.Conf = ttl
		} else {
			c.Conf, c.Rule = vf.Pick(r, []*int64{nil, p64(30 * sec)}), ttl
		}
	case near != nil:
		// the expiry decides: ttl not configured, or longer than what is left
		c.Conf = vf.Pick(r, []*int64{nil, p64(3600 * sec), p64(30 * sec)})
	default:
		// ttl in force: 0 (disabled) | short | long, through the prototype or a rule-level override
		short := p64(60 * msec)
		if backend == "redis" {
			short = vf.Pick(r, []*int64{p64(100 * msec), p64(sec)})
		}

		ttl := vf.Pick(r, []*int64{p64(0), short, short, short, p64(3600 * sec)})

		if r.Chance(50) || c.Mech == "cc" {
			c.Conf = ttl
		} else {
			c.Conf = vf.Pick(r, []*int64{nil, p64(0), p64(30 * sec)})
			c.Rule = ttl
		}
	}

	sleeps := 0

	for i := 0; i < n; i++ {
		ev := c10Ev{Key: r.Range(1, 2)}

		switch {
		case backend == "redis" && (near != nil || c.Mech == "jwtfin"):
			ev.Adv = vf.Pick(r, []int64{0, 0, 450 * msec, 1450 * msec, 2450 * msec})
		case backend == "redis":
			ev.Adv = vf.Pick(r, []int64{0, 0, 40 * msec, 150 * msec, 1450 * msec})
		case i > 0 && sleeps < 2 && r.Chance(35):
			ev.Adv = 180 * msec
			sleeps++
		}

		if c.Mech == "jwtkey" {
			ev.Key = 1 // one JWKS, one kid: the JWK cache has a single entry
		}

		if near != nil {
			ev.Delta = p64(vf.Pick(r, near))
		} else if c.Mech == "cc" {
			ev.Delta = p64(3600)
		}

		c.Evs = append(c.Evs, ev)
	}

	return c
}

// genMix: requests of one mechanism under different rules (prototype cache_ttl x rule-level cache_ttl) hitting the same
// cache entries: does a request under a short ttl get an entry a request under a long ttl stored?
func (e *env) genMix(r *vf.Rand, backend string) c10Case {
	c := c10Case{Kind: "mix", Backend: backend}

	mechs := []string{"intro", "generic", "cc", "remote", "ctx", "jwtfin"}
	if backend == "redis" {
		mechs = append(mechs, "jwtkey")
	}

	c.Mech = vf.Pick(r, mechs)

	short, long := p64(60*msec), p64(3600*sec)
	if backend == "redis" {
		short = vf.Pick(r, []*int64{p64(100 * msec), p64(sec)})
	}

	// the prototype's ttl (client credentials have no prototype: Config.TTL per request)
	switch c.Mech {
	case "jwtfin":
		c.Conf = vf.Pick(r, []*int64{p64(6 * sec), p64(30 * sec)})
	case "cc":
	default:
		c.Conf = vf.Pick(r, []*int64{long, long, p64(30 * sec), nil, p64(0)})
	}

	n := r.Range(3, 6)
	sleeps := 0

	for i := 0; i < n; i++ {
		ev := c10Ev{Key: r.Range(1, 2)}

		switch {
		case c.Mech == "jwtfin":
			// cache ttl 1 s or 25 s
			if r.Chance(60) {
				ev.Rule = vf.Pick(r, []*int64{p64(6 * sec), p64(30 * sec)})
			}
		case c.Mech == "cc":
			ev.Conf = vf.Pick(r, []*int64{short, long, long, nil, p64(0)})
			ev.Delta = p64(3600)
		default:
			if r.Chance(60) {
				ev.Rule = vf.Pick(r, []*int64{short, short, long, p64(0)})
			}
		}

		if c.Mech == "jwtkey" {
			ev.Key = 1
		}

		switch {
		case backend == "redis" && c.Mech == "jwtfin":
			ev.Adv = vf.Pick(r, []int64{0, 0, 450 * msec, 1450 * msec})
		case backend == "redis":
			ev.Adv = vf.Pick(r, []int64{0, 0, 40 * msec, 150 * msec, 1450 * msec})
		case i > 0 && sleeps < 2 && r.Chance(35):
			ev.Adv = 180 * msec
			sleeps++
		}

		c.Evs = append(c.Evs, ev)
	}

	return c
}

// ---------------------------------------------------------------- corpus (witnesses of the repaired findings first:
// C10-F1 -> 637ae67, C10-F2 -> c971513, C10-F3 -> e0dc5e2, C10-F4 -> a3cbbb3, C10-F5 -> 8647e06; re-introducing a
// defect makes its witnesses fail)

func corpus() []c10Case {
	maxAge0 := &c10Resp{Method: "GET", Status: 200, CC: "max-age=0", Date: p64(0)}
	pastExp := &c10Resp{Method: "GET", Status: 200, Date: p64(0), Expires: p64(-60)}

	return []c10Case{
		// C10-F1 (637ae67): expiry inside the leeway + configured (or default) ttl => full ttl
		{Kind: "exec", Mech: "intro", Conf: p64(300 * sec), Delta: p64(10)},
		{Kind: "exec", Mech: "intro", Conf: p64(300 * sec), Delta: p64(11)},
		{Kind: "exec", Mech: "intro", Conf: p64(300 * sec), Delta: p64(-5)},
		{Kind: "exec", Mech: "jwtkey", Conf: nil, Delta: p64(-3600)},
		{Kind: "exec", Mech: "generic", Conf: p64(300 * sec), Session: true, Delta: p64(5)},
		{Kind: "exec", Mech: "intro", Conf: p64(300 * sec), Delta: p64(5)},
		{Kind: "exec", Mech: "jwtkey", Conf: nil, Delta: p64(5)},
		{Kind: "exec", Mech: "cc", Conf: p64(300 * sec), Delta: p64(3 * sec)},
		{Kind: "exec", Mech: "cc", ViaFin: true, Conf: p64(300 * sec), Delta: p64(3 * sec)},
		{Kind: "exec", Mech: "cc", ViaFin: true, Conf: p64(300 * sec), Rule: p64(0), Delta: p64(60 * sec)},
		{Kind: "exec", Mech: "cc", ViaFin: true, Conf: p64(0), Rule: p64(30 * sec), Delta: p64(60 * sec)},
		// C10-F2: max-age=0 / past Expires handed to the in-memory cache => kept for ever
		{Kind: "http", Backend: "mem", Resp: maxAge0},
		{Kind: "http", Backend: "mem", Resp: pastExp},
		{Kind: "http", Backend: "redis", Resp: maxAge0},
		// C10-F4 (a3cbbb3): the response aged before it arrived / unparsable Expires + default ttl
		{Kind: "http", Backend: "mem", Resp: &c10Resp{Method: "GET", Status: 200, CC: "max-age=3600", Age: "3599"}},
		{Kind: "http", Backend: "redis", Adv: 30500 * msec, Resp: &c10Resp{Method: "GET", Status: 200, CC: "max-age=3600", Age: "3599"}},
		{Kind: "http", Backend: "mem", Resp: &c10Resp{Method: "GET", Status: 200, CC: "max-age=60", Date: p64(-3600)}},
		{Kind: "http", Backend: "mem", Resp: &c10Resp{Method: "GET", Status: 200, Date: p64(0), Expires: p64(3600), Age: "7200"}},
		{Kind: "http", Backend: "mem", Dflt: 5 * sec, Resp: &c10Resp{Method: "GET", Status: 200, ExpRaw: "0"}},
		{Kind: "http", Backend: "mem", Resp: &c10Resp{Method: "GET", Status: 200, CC: "max-age=3600", Age: "60"}},
		// the body arrives after the response went stale (seeded C10-10): nothing may be stored; or in time: a shorter ttl
		{Kind: "http", Backend: "mem", BodyDelay: 1200 * msec, Resp: &c10Resp{Method: "GET", Status: 200, CC: "max-age=1"}},
		{Kind: "http", Backend: "mem", BodyDelay: 1200 * msec, Resp: &c10Resp{Method: "GET", Status: 200, CC: "max-age=60", Age: "59"}},
		{Kind: "http", Backend: "mem", BodyDelay: 1200 * msec, Dflt: sec, Resp: &c10Resp{Method: "GET", Status: 200}},
		{Kind: "http", Backend: "mem", BodyDelay: 300 * msec, Resp: &c10Resp{Method: "GET", Status: 200, CC: "max-age=1"}},
		// remote system down on the second request: nothing but a fresh entry may answer
		{Kind: "http", Backend: "redis", Adv: 1500 * msec, Fail2: true, Resp: &c10Resp{Method: "GET", Status: 200, CC: "max-age=1"}},
		{Kind: "http", Backend: "redis", Adv: 500 * msec, Fail2: true, Resp: &c10Resp{Method: "GET", Status: 200, CC: "max-age=1"}},
		// x5c chains: the leaf's NotAfter bounds the JWK cache ttl, whatever the other certificates say
		{Kind: "exec", Mech: "jwtkey", Conf: nil, Delta: p64(30), Chain: p64(10 * 365 * 86400)},
		{Kind: "exec", Mech: "jwtkey", Conf: nil, Delta: p64(30), Chain: p64(10 * 365 * 86400), Validate: true},
		{Kind: "exec", Mech: "jwtkey", Conf: nil, Delta: p64(3600), Chain: p64(15)},
		{Kind: "exec", Mech: "jwtkey", Conf: nil, Delta: p64(-5), Chain: p64(3600), Validate: true},
		// C10-F5 (8647e06): a request under `cache_ttl: 60ms` is answered from the entry a request under 1 h stored 180 ms ago
		{Kind: "mix", Mech: "intro", Backend: "mem", Conf: p64(3600 * sec), Evs: []c10Ev{{Key: 1}, {Key: 1, Rule: p64(60 * msec), Adv: 180 * msec}}},
		{Kind: "mix", Mech: "generic", Backend: "mem", Conf: p64(3600 * sec), Evs: []c10Ev{{Key: 1}, {Key: 1, Rule: p64(60 * msec), Adv: 180 * msec}}},
		{Kind: "mix", Mech: "jwtkey", Backend: "redis", Conf: p64(3600 * sec), Evs: []c10Ev{{Key: 1}, {Key: 1, Rule: p64(sec), Adv: 1450 * msec}}},
		{Kind: "mix", Mech: "cc", Backend: "redis", Evs: []c10Ev{{Key: 1, Conf: p64(3600 * sec), Delta: p64(3600)}, {Key: 1, Conf: p64(sec), Adv: 1450 * msec, Delta: p64(3600)}}},
		// ... while the keys of the remote authorizer, the contextualizer and the jwt finalizer contain the ttl
		{Kind: "mix", Mech: "remote", Backend: "mem", Conf: p64(3600 * sec), Evs: []c10Ev{{Key: 1}, {Key: 1, Rule: p64(60 * msec), Adv: 180 * msec}, {Key: 1}}},
		{Kind: "mix", Mech: "jwtfin", Backend: "redis", Conf: p64(30 * sec), Evs: []c10Ev{{Key: 1}, {Key: 1, Rule: p64(6 * sec), Adv: 1450 * msec}, {Key: 1}}},
		// hit paths over time: jwt finalizer (ttl 6 s => cached 1 s), client credentials, JWK cache, expiry near
		{Kind: "hist", Mech: "jwtfin", Backend: "redis", Conf: p64(6 * sec), Evs: []c10Ev{{Key: 1}, {Key: 1, Adv: 450 * msec}, {Key: 1, Adv: 450 * msec}, {Key: 1, Adv: 450 * msec}}},
		{Kind: "hist", Mech: "cc", Backend: "redis", Evs: []c10Ev{{Key: 1, Delta: p64(7)}, {Key: 1, Adv: 1450 * msec, Delta: p64(7)}, {Key: 1, Adv: 1450 * msec, Delta: p64(7)}}},
		{Kind: "hist", Mech: "jwtkey", Backend: "redis", Evs: []c10Ev{{Key: 1, Delta: p64(12)}, {Key: 1, Adv: 1450 * msec, Delta: p64(12)}, {Key: 1, Adv: 1450 * msec, Delta: p64(12)}}},
		{Kind: "hist", Mech: "intro", Backend: "redis", Conf: p64(3600 * sec), Evs: []c10Ev{{Key: 1, Delta: p64(12)}, {Key: 1, Adv: 1450 * msec, Delta: p64(12)}, {Key: 1, Adv: 1450 * msec, Delta: p64(12)}}},
		{Kind: "hist", Mech: "generic", Session: true, Backend: "redis", Conf: p64(3600 * sec), Evs: []c10Ev{{Key: 1, Delta: p64(11)}, {Key: 1, Adv: 450 * msec, Delta: p64(11)}, {Key: 1, Adv: 1450 * msec, Delta: p64(11)}}},
		// since 12fdf68: no lookup and no store for other methods, no store for responses with Vary
		{Kind: "http", Backend: "mem", Resp: &c10Resp{Method: "POST", Status: 200, CC: "max-age=3600", Date: p64(0)}},
		{Kind: "http", Backend: "mem", Resp: &c10Resp{Method: "HEAD", Status: 200, CC: "max-age=3600", Date: p64(0)}},
		{Kind: "http", Backend: "mem", Resp: &c10Resp{Method: "GET", Status: 200, CC: "max-age=3600", Date: p64(0), Vary: "Accept"}},
		{Kind: "hist", Mech: "intro", Backend: "mem", Conf: p64(60 * msec), Evs: []c10Ev{{Key: 1}, {Key: 1}, {Key: 2}, {Key: 1, Adv: 180 * msec}}},
		{Kind: "http", Backend: "mem", Resp: &c10Resp{Method: "GET", Status: 200}, Dflt: -sec},
		{Kind: "hist", Mech: "http", Backend: "mem", Evs: []c10Ev{{Key: 1, Resp: maxAge0}, {Key: 1, Resp: maxAge0, Adv: 30 * msec}, {Key: 1, Resp: maxAge0, Adv: 30 * msec}}},
		{Kind: "hist", Mech: "ctxhttp", Backend: "mem", Evs: []c10Ev{{Key: 1, Resp: maxAge0}, {Key: 1, Resp: maxAge0, Adv: 30 * msec}, {Key: 2, Resp: maxAge0}}},
		{Kind: "hist", Mech: "ctxhttp", Backend: "redis", Dflt: 5 * sec, Evs: []c10Ev{{Key: 1, Resp: &c10Resp{Method: "GET", Status: 200, CC: "max-age=1"}}, {Key: 1, Resp: maxAge0, Adv: 450 * msec}, {Key: 1, Resp: &c10Resp{Method: "GET", Status: 200}, Adv: 1450 * msec}, {Key: 1, Resp: maxAge0, Adv: 2450 * msec}, {Key: 1, Resp: maxAge0, Adv: 5450 * msec}}},
		// C10-F3: remote authorizer, prototype 30 s, rule-level 0 s
		{Kind: "exec", Mech: "remote", Conf: p64(30 * sec), Rule: p64(0)},
		{Kind: "hist", Mech: "remote", Backend: "mem", Conf: p64(30 * sec), Rule: p64(0), Evs: []c10Ev{{Key: 1}, {Key: 1}}},
		// ordinary behaviour
		{Kind: "exec", Mech: "ctx", Conf: nil},
		{Kind: "exec", Mech: "ctx", Conf: p64(0)},
		{Kind: "exec", Mech: "jwtfin", Conf: nil},
		{Kind: "exec", Mech: "jwtfin", Conf: p64(5 * sec)},
		{Kind: "exec", Mech: "jwtfin", Conf: p64(5001 * msec)},
		{Kind: "exec", Mech: "generic", Conf: p64(300 * sec), Session: true, Delta: p64(-10)},
		{Kind: "exec", Mech: "generic", Conf: p64(300 * sec), Session: true, Delta: p64(-9)},
		{Kind: "exec", Mech: "generic", Conf: p64(300 * sec), Session: true, TimeFmt: true, Delta: p64(13)},
		{Kind: "exec", Mech: "generic", Conf: p64(300 * sec), Session: true, TimeFmt: true, Delta: p64(5)},
		{Kind: "cache", Backend: "mem", Ops: []c10Op{{Op: "set", Key: 1, TTL: 0}, {Op: "get", Key: 1, Adv: 170 * msec}}},
		{Kind: "cache", Backend: "mem", Ops: []c10Op{{Op: "set", Key: 1, TTL: 60 * msec}, {Op: "get", Key: 1}, {Op: "set", Key: 1, TTL: -2}, {Op: "get", Key: 1, Adv: 170 * msec}}},
		{Kind: "cache", Backend: "mem", Ops: []c10Op{{Op: "set", Key: 1, TTL: 60 * msec}, {Op: "get", Key: 1, Adv: 35 * msec}, {Op: "get", Key: 1, Adv: 35 * msec}, {Op: "get", Key: 1, Adv: 35 * msec}}},
		{Kind: "exec", Mech: "remote", Conf: p64(30 * sec), RuleOther: true},
		{Kind: "exec", Mech: "generic", Conf: p64(30 * sec), RuleOther: true},
		{Kind: "exec", Mech: "ctx", Conf: nil, RuleOther: true},
		{Kind: "hist", Mech: "remote", Backend: "redis", Conf: p64(sec), RuleOther: true, Evs: []c10Ev{{Key: 1}, {Key: 1, Adv: 150 * msec}}},
		genBurst(vf.NewRand(1)),
		genBurst(vf.NewRand(2)),
		{Kind: "cache", Backend: "redis", Ops: []c10Op{{Op: "set", Key: 1, TTL: 0}, {Op: "get", Key: 1}, {Op: "set", Key: 1, TTL: 999_999}, {Op: "get", Key: 1}}},
		{Kind: "cache", Backend: "redis", Ops: []c10Op{{Op: "set", Key: 1, TTL: 50 * msec}, {Op: "get", Key: 1, Adv: 49 * msec}, {Op: "get", Key: 1, Adv: msec}}},
		{Kind: "hist", Mech: "remote", Backend: "redis", Conf: p64(sec), Evs: []c10Ev{{Key: 1}, {Key: 1, Adv: 150 * msec}, {Key: 1, Adv: 1450 * msec}}},
		{Kind: "hist", Mech: "generic", Backend: "mem", Conf: p64(60 * msec), Evs: []c10Ev{{Key: 1}, {Key: 1}, {Key: 2}, {Key: 1, Adv: 180 * msec}}},
	}
}

// ---------------------------------------------------------------- classification

func nontrivial(c *c10Case) bool {
	switch c.Kind {
	case "exec":
		lee := int64(20)
		unit := int64(1)

		if c.Mech == "cc" {
			lee, unit = 10, sec
		}

		if c.Delta != nil && *c.Delta >= -lee*unit && *c.Delta <= lee*unit {
			return true
		}

		for _, v := range []*int64{c.Conf, c.Rule} {
			if v != nil && *v <= 0 {
				return true
			}
		}

		return c.Rule != nil
	case "http":
		return c.Resp.CC != "" || c.Resp.Expires != nil || c.Resp.ExpRaw != "" || c.Dflt != 0 || c.Resp.Age != ""
	case "cache":
		seen := map[int]bool{}

		for _, op := range c.Ops {
			if op.Op == "set" {
				seen[op.Key] = true
			} else if seen[op.Key] {
				return true
			}
		}

		return false
	case "hist", "mix":
		seen := map[int]bool{}

		for _, ev := range c.Evs {
			if seen[ev.Key] {
				return true
			}

			seen[ev.Key] = true
		}
	}

	return false
}

func bucket(v *int64, unit int64) string {
	switch {
	case v == nil:
		return "unset"
	case *v < 0:
		return "neg"
	case *v == 0:
		return "zero"
	case *v < 20*unit:
		return "short"
	default:
		return "long"
	}
}

func tags(c *c10Case, out any) []string {
	t := []string{"kind:" + c.Kind}

	if c.Mech != "" {
		t = append(t, "mech:"+c.Kind+"/"+c.Mech)
	}

	if c.Backend != "" {
		t = append(t, "backend:"+c.Kind+"/"+c.Backend)
	}

	if c.Kind == "exec" {
		unit := int64(1)
		if c.Mech == "cc" {
			unit = sec
		}

		switch {
		case c.Delta == nil:
			t = append(t, "expiry:absent")
		case *c.Delta < -10*unit:
			t = append(t, "expiry:long-past")
		case *c.Delta <= 0:
			t = append(t, "expiry:just-passed")
		case *c.Delta <= 10*unit:
			t = append(t, "expiry:inside-leeway")
		case *c.Delta <= 20*unit:
			t = append(t, "expiry:near")
		default:
			t = append(t, "expiry:far")
		}

		t = append(t, "conf:"+bucket(c.Conf, sec), "rule:"+bucket(c.Rule, sec))

		if c.Mech == "jwtkey" {
			t = append(t, fmt.Sprintf("jwk:chain=%t/validate=%t", c.Chain != nil, c.Validate))
		}
	}

	switch o := out.(type) {
	case execObs:
		t = append(t, fmt.Sprintf("site:exec/%s/lookup=%t/set=%t", c.Mech, o.Lookup, o.Set != nil))
		if !o.OK {
			t = append(t, "exec:rejected")
		}
	case httpObs:
		life := "none"
		if o.LibLife != nil {
			life = "pos"
			if *o.LibLife <= 0 {
				life = "nonpos"
			}
		}

		t = append(t, fmt.Sprintf("site:cacheResponse/cachable=%t/life=%s/set=%t/hit=%t", o.Cachable, life, o.Set != nil, o.Hit),
			fmt.Sprintf("site:cachedResponse/method_ok=%t/vary=%t/lookup=%t", o.MethodOK, o.Vary, o.Lookup),
			fmt.Sprintf("http:slow-body=%t/stored=%t", c.BodyDelay > 0, o.Set != nil),
			fmt.Sprintf("http:aged=%t/bad_expires=%t/fail2=%t/adv=%t", o.H.Age > 0 || (o.H.Date != nil && *o.H.Date < o.Now-sec),
				o.H.BadExp, c.Fail2, c.Adv > 0))
	case []opObs:
		t = append(t, "site:"+c.Backend+".Get/Set")
	case []evObs:
		hits, near := 0, false

		for i, e := range o {
			if e.Hit {
				hits++
			}

			if i < len(c.Evs) && c.Evs[i].Delta != nil && *c.Evs[i].Delta < 100 {
				near = true
			}
		}

		t = append(t, fmt.Sprintf("hist:hits=%d", min(hits, 3)), fmt.Sprintf("hist:expiry-near=%t", near))
	}

	return t
}

// ---------------------------------------------------------------- the test

type job struct {
	idx    int
	stream string
	c      c10Case
}

// cases whose timing could not be pinned down (or that hit a harness error) are recorded, tagged and not judged;
// more than this share of them makes the run fail
const maxSkippedPercent = 5

func TestVerifC10(t *testing.T) {
	w := vf.NewWriter()
	defer w.Close()

	e := newEnv(t)
	defer e.close()

	root := vf.NewRand(vf.Seed())
	n := vf.N(1200)

	var jobs []job

	for _, c := range corpus() {
		jobs = append(jobs, job{idx: len(jobs), stream: "corpus", c: c})
	}

	// sleeping cases (in-memory backend) are expensive: a fixed small share
	slow := n / 40
	for i := 0; i < n; i++ {
		r := root.Fork(uint64(i))

		var c c10Case

		switch k := i % 20; {
		case k < 11:
			c = e.genExec(r)
		case k < 15:
			c = genHTTP(r)
		case k < 17:
			be := "redis"
			if slow > 0 && r.Chance(25) {
				be = "mem"
				slow--
			}

			c = genCache(r, be)
			if i%100 == 16 {
				c = genSlowBody(r) // twelve per 1200 cases; they sleep 0.3 .. 2.3 s, in parallel
			}

			if i%200 == 15 {
				c = genBurst(r) // six per 1200 cases; they sleep 0.2 .. 2 s, in parallel
			}
		case k < 19:
			be := "redis"
			if slow > 0 && r.Chance(20) {
				be = "mem"
				slow--
			}

			c = e.genHist(r, be)
		default:
			be := "redis"
			if slow > 0 && r.Chance(20) {
				be = "mem"
				slow--
			}

			c = e.genMix(r, be)
		}

		jobs = append(jobs, job{idx: len(jobs), stream: "generated", c: c})
	}

	results := make([]*vf.Obs, len(jobs))

	var skipped, broken atomic.Int64

	run := func(j job) {
		if !vf.Want(j.idx) {
			return
		}

		c := j.c

		var (
			out    any
			coq    string
			ambi   bool
			timing string
		)

		// a harness error (panic) voids this case only: it is recorded as CBroken, which never passes
		func() {
			defer func() {
				if p := recover(); p != nil {
					out, coq, ambi, timing = map[string]any{"harness_error": fmt.Sprint(p)}, "CBroken", false, timingOK
					broken.Add(1)
				}
			}()

			switch c.Kind {
			case "exec":
				out, coq, timing = e.runExec(&c)
			case "http":
				out, coq, timing = e.runHTTP(&c)
			case "cache":
				out, coq, ambi = e.runCache(&c)
			case "hist", "mix":
				out, coq, ambi = e.runHist(&c)
			}
		}()

		tg := tags(&c, out)
		if ambi || timing != timingOK {
			// timing could not be pinned down after several attempts: the case is recorded but not judged
			tg = append(tg, "skipped:ambiguous-timing")
			coq = "(CCache Mem [])"
			ambi = true

			skipped.Add(1)
		}

		if coq == "CBroken" {
			tg = append(tg, "broken:harness-error")
		}

		results[j.idx] = &vf.Obs{I: j.idx, Stream: j.stream, In: c, Out: out, Coq: coq, Nontrivial: nontrivial(&c) && !ambi, Tags: tg}
	}

	// sequential cases first (they share the JWKS state), then the sleeping ones in parallel
	var sleepers []job

	for _, j := range jobs {
		if (j.c.Kind == "cache" || j.c.Kind == "hist" || j.c.Kind == "mix" || j.c.BodyDelay > 0) && j.c.Backend == "mem" {
			sleepers = append(sleepers, j)

			continue
		}

		run(j)
	}

	var wg sync.WaitGroup

	sem := make(chan struct{}, 6)

	for _, j := range sleepers {
		wg.Add(1)

		go func(j job) {
			defer wg.Done()

			sem <- struct{}{}
			defer func() { <-sem }()

			run(j)
		}(j)
	}

	wg.Wait()

	total := 0

	for _, o := range results {
		if o != nil {
			w.Put(*o)

			total++
		}
	}

	fmt.Printf("C10 driver: %d cases, %d skipped (timing), %d broken (harness error)\n", total, skipped.Load(), broken.Load())

	if total > 20 && skipped.Load()*100 > int64(total)*maxSkippedPercent {
		w.Close()
		t.Fatalf("%d of %d cases skipped because their timing could not be pinned down (> %d %%): the run proves too little",
			skipped.Load(), total, maxSkippedPercent)
	}
}
