//go:build verif

package authenticators

// Thin exports for the C10 verification driver (injected with `go test
// -overlay`; not part of /repo): one call of each real getCacheTTL on an
// instance whose ttl state is given.

import (
	"crypto/x509"
	"time"

	"github.com/go-jose/go-jose/v4"

	"github.com/dadrus/heimdall/internal/rules/mechanisms/oauth2"
)

// VerifC10IntrospectionTTL calls oauth2IntrospectionAuthenticator.getCacheTTL.
// exp == nil: the introspection response carries no `exp`.
func VerifC10IntrospectionTTL(ttl *time.Duration, exp *int64) time.Duration {
	a := &oauth2IntrospectionAuthenticator{ttl: ttl}
	resp := &oauth2.IntrospectionResponse{Active: true}

	if exp != nil {
		d := oauth2.NumericDate(*exp)
		resp.Expiry = &d
	}

	return a.getCacheTTL(resp)
}

// VerifC10JwtKeyTTL calls jwtAuthenticator.getCacheTTL.
// notAfter == nil: the JWK carries no certificate.
func VerifC10JwtKeyTTL(ttl *time.Duration, notAfter *int64) time.Duration {
	a := &jwtAuthenticator{ttl: ttl}
	key := &jose.JSONWebKey{KeyID: "k"}

	if notAfter != nil {
		key.Certificates = []*x509.Certificate{{NotAfter: time.Unix(*notAfter, 0)}}
	}

	return a.getCacheTTL(key)
}

// VerifC10GenericTTL calls genericAuthenticator.getCacheTTL.
// session == false: no session lifespan configured (nil); exp == nil: the
// session carries no not_after.
func VerifC10GenericTTL(ttl time.Duration, session bool, exp *int64) time.Duration {
	a := &genericAuthenticator{ttl: ttl}

	var s *SessionLifespan

	if session {
		s = &SessionLifespan{active: true}
		if exp != nil {
			s.exp = time.Unix(*exp, 0)
		}
	}

	return a.getCacheTTL(s)
}
