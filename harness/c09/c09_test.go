//go:build verif

// Package c09 is the C09 driver (overlay-only package internal/zzverif/c09).
//
// Property: forwarded headers from untrusted peers never influence a decision.
//
// Implementation side: the REAL decision and proxy applications (assembly
// harness: real configuration loader, mechanisms, rule factory, repository,
// rule executor, the real middleware chain of decision/service.go and
// proxy/service.go) with generated `trusted_proxies` lists.  Requests are raw
// HTTP/1.1 bytes (arbitrary header-name casing, repeated headers) parsed by
// net/http exactly as its server does and served in-process with a chosen
// RemoteAddr (arbitrary peers: IPv4, IPv6, IPv4-mapped, zoned, unix socket,
// garbage); a smaller sub-stream goes over real loopback sockets from different
// 127.0.0.0/8 source addresses.
//
// Observables: HTTP status, matched rule, the request view the pipeline sees
// (echoed by a real `header` finalizer: method, scheme, host, raw path, query,
// client address list, the forwarded headers visible through Headers()/Header()),
// and in proxy mode what the echo upstream received (method, request URI, the
// seven forwarded headers).
package c09

import (
	"bufio"
	"encoding/base64"
	"encoding/json"
	"fmt"
	"net"
	"net/http"
	"net/url"
	"sort"
	"strings"
	"testing"
	"time"

	"github.com/dadrus/heimdall/internal/x/httpx"
	"github.com/dadrus/heimdall/internal/zzverif/assembly"
	"github.com/dadrus/heimdall/internal/zzverif/vf"
)

var fwdNames = []string{
	"Forwarded", "X-Forwarded-For", "X-Forwarded-Proto", "X-Forwarded-Host",
	"X-Forwarded-Uri", "X-Forwarded-Path", "X-Forwarded-Method",
}

// ---------------------------------------------------------------- configuration and rules

const viewTemplate = `{{ dict "method" .Request.Method "scheme" .Request.URL.Scheme "host" .Request.URL.Host "path" .Request.URL.Path "rawpath" .Request.URL.RawPath "query" .Request.URL.RawQuery "ips" .Request.ClientIPAddresses "hdrs" .Request.Headers "h0" (.Request.Header "forwarded") "h1" (.Request.Header "x-forwarded-for") "h2" (.Request.Header "X-Forwarded-Proto") "h3" (.Request.Header "X-FORWARDED-HOST") "h4" (.Request.Header "X-Forwarded-Uri") "h5" (.Request.Header "X-Forwarded-Path") "h6" (.Request.Header "X-Forwarded-Method") | toJson | b64enc }}`

func c09Config(proxy bool, trusted []string, setTrusted bool) string {
	svc := "decision"
	if proxy {
		svc = "proxy"
	}

	var sb strings.Builder

	sb.WriteString("serve:\n  " + svc + ":\n    timeout:\n      read: 5s\n")

	if setTrusted {
		b, _ := json.Marshal(trusted)
		sb.WriteString("    trusted_proxies: " + string(b) + "\n")
	}

	sb.WriteString(`mechanisms:
  authenticators:
    - id: anon
      type: anonymous
  finalizers:
    - id: view
      type: header
      config:
        headers:
          X-V-Rule: none
`)

	return sb.String()
}

type c09Rule struct {
	ID, Path, Method, Scheme, Host string
}

// the fixed rule set: literal paths, one constraint each, all with backtracking
// to the catch-all rule "other"
var c09Rules = []c09Rule{
	{ID: "pub", Path: "/pub/a", Method: "GET"},
	{ID: "pst", Path: "/pst/a", Method: "POST"},
	{ID: "sec", Path: "/sec/a", Scheme: "https"},
	{ID: "hst", Path: "/hst/a", Host: "a.example.com"},
	{ID: "any", Path: "/any/a"},
	{ID: "other", Path: "/**"},
}

func c09RulesYAML(upstreamHost string) string {
	var sb strings.Builder

	sb.WriteString("version: \"1alpha4\"\nname: c09\nrules:\n")

	for _, r := range c09Rules {
		sb.WriteString("  - id: " + r.ID + "\n    match:\n      routes:\n        - path: " + r.Path + "\n")
		sb.WriteString("      backtracking_enabled: true\n")

		if r.Method != "" {
			sb.WriteString("      methods: [" + r.Method + "]\n")
		}

		if r.Scheme != "" {
			sb.WriteString("      scheme: " + r.Scheme + "\n")
		}

		if r.Host != "" {
			sb.WriteString("      hosts:\n        - type: exact\n          value: " + r.Host + "\n")
		}

		sb.WriteString("    forward_to:\n      host: " + upstreamHost + "\n      rewrite:\n        scheme: http\n")
		sb.WriteString("    execute:\n      - authenticator: anon\n      - finalizer: view\n        config:\n          headers:\n")
		sb.WriteString("            X-V-Rule: " + r.ID + "\n")
		sb.WriteString("            X-V: '" + viewTemplate + "'\n")
	}

	return sb.String()
}

// ---------------------------------------------------------------- generated inputs

type c09Hdr struct {
	Name  string `json:"n"`
	Value string `json:"v"`
}

type c09Req struct {
	Peer    string   `json:"peer"` // RemoteAddr
	TLS     bool     `json:"tls,omitempty"`
	Method  string   `json:"method"`
	Target  string   `json:"target"`
	Host    string   `json:"host"`
	Headers []c09Hdr `json:"headers"`
	Socket  bool     `json:"socket,omitempty"` // sent over a real loopback connection
}

type c09Case struct {
	Proxy      bool     `json:"proxy"`
	Trusted    []string `json:"trusted_proxies"`
	SetTrusted bool     `json:"set"`
	Req        c09Req   `json:"req"`
}

var (
	c09SingleIPs = []string{
		"10.0.0.1", "10.1.2.3", "192.168.1.77", "127.0.0.1", "::1", "2001:db8::1", "fe80::1",
		"::ffff:10.0.0.1", "0:0:0:0:0:ffff:c0a8:014d", "8.8.8.8", "127.0.0.2",
	}
	c09CIDRs = []string{
		"10.0.0.0/8", "192.168.1.0/24", "10.1.2.3/32", "0.0.0.0/0", "2001:db8::/32", "::/0", "::ffff:0:0/96",
		"fe80::/10", "::ffff:10.0.0.0/104", "127.0.1.0/24", "10.0.0.1/31", "::1/128", "172.16.0.0/12",
	}
	c09Invalid = []string{
		"not-an-ip", "", "10.0.0.256", "fe80::1%eth0", "10.0.0.0/33", "/", "1.2.3.4/", " 10.0.0.1", "10.0.0.1 ",
		"localhost", "2001:db8::/129", "10.0.0.1:80", "[::1]", "*", "10.0.0", "::g",
	}
	c09Peers = []string{
		"10.0.0.1:1234", "10.1.2.3:80", "192.168.1.77:5555", "[::1]:4444", "[2001:db8::1]:80", "[2001:db8::2]:80",
		"[fe80::1%eth0]:1234", "[::ffff:10.0.0.1]:99", "127.0.0.1:40000", "8.8.4.4:53", "172.16.5.5:1", "10.0.0.0:7",
		"[fe80::1]:1", "[::ffff:192.168.1.77]:2", "127.0.1.9:9",
	}
	c09BadPeers = []string{
		"@", "", "garbage", "10.0.0.1", "256.1.1.1:80", "[fe80::1%25eth0]:80", "::1:80", "localhost:80",
		"/var/run/heimdall.sock", "[not-an-ip]:80", "10.0.0.1:", ":80", "[]:80", "10.0.0.256:1",
	}
	c09Methods = []string{"GET", "POST", "PUT"}
	c09Hosts   = []string{"a.example.com", "b.example.com:8080", "heimdall.local"}
	c09Paths   = []string{"/pub/a", "/pst/a", "/sec/a", "/hst/a", "/any/a", "/other", "/x%20y", "/", "/pub/a/b"}
	c09Queries = []string{"", "", "x=1", "b=2&a=1", "q=a%20b"}

	c09Values = map[string][]string{
		"X-Forwarded-Proto": {"https", "http", "", "ftp", "HTTPS"},
		"X-Forwarded-Host":  {"a.example.com", "evil.example.com", "admin.example.com:443", "", "A.example.com"},
		"X-Forwarded-Uri": {
			"/pub/a", "/pst/a?x=1", "/sec/a?b=2&a=1", "/hst/a", "/any/a", "?q=1", "/x%20y", "%zz", "",
			"http://other.example.com/pst/a?z=1", "//evil/path", "/a b", "/pub/a#frag", "/any/a?x=1;y=2", "any/a", "/sec/a?",
			"/hst/a?%zz=1", "*",
		},
		"X-Forwarded-Path":   {"/pst/a", "/x", ""},
		"X-Forwarded-Method": {"POST", "GET", "DELETE", "", "get"},
		"X-Forwarded-For": {
			"1.1.1.1", "1.1.1.1, 2.2.2.2", "3.3.3.3 ,4.4.4.4", "", "unknown", ",", "a,,b", "2001:db8::9", "1.1.1.1,\t2.2.2.2 ",
		},
		"Forwarded": {
			"for=1.2.3.4", "for=1.2.3.4;proto=https;host=x, for=5.6.7.8", "For=9.9.9.9", "proto=https",
			`for="[2001:db8::1]:1234"`, "for=a ; for=b ,host=h", "", "for=", ";;", "by=x;for=y", "for=1.1.1.1,proto=http,for=2.2.2.2",
			"for = 1.1.1.1", "FOR=1.1.1.1;for=2.2.2.2",
		},
	}
)

func c09Casing(r *vf.Rand, name string) string {
	switch r.Intn(5) {
	case 0:
		return strings.ToLower(name)
	case 1:
		return strings.ToUpper(name)
	case 2:
		b := []byte(name)
		for i := range b {
			if r.Bool() {
				b[i] = strings.ToUpper(string(b[i]))[0]
			} else {
				b[i] = strings.ToLower(string(b[i]))[0]
			}
		}

		return string(b)
	}

	return name
}

func c09GenTrusted(r *vf.Rand) ([]string, bool) {
	switch r.Intn(10) {
	case 0:
		return nil, false // option absent
	case 1:
		return []string{}, true
	}

	n := r.Range(1, 4)
	out := make([]string, 0, n)

	for i := 0; i < n; i++ {
		switch k := r.Intn(10); {
		case k < 4:
			out = append(out, vf.Pick(r, c09SingleIPs))
		case k < 8:
			out = append(out, vf.Pick(r, c09CIDRs))
		default:
			out = append(out, vf.Pick(r, c09Invalid))
		}
	}

	return out, true
}

func c09GenReq(r *vf.Rand) c09Req {
	q := c09Req{Method: vf.Pick(r, c09Methods), Host: vf.Pick(r, c09Hosts), TLS: r.Chance(12)}

	if r.Chance(22) {
		q.Peer = vf.Pick(r, c09BadPeers)
	} else {
		q.Peer = vf.Pick(r, c09Peers)
	}

	q.Target = vf.Pick(r, c09Paths)
	if qs := vf.Pick(r, c09Queries); qs != "" {
		q.Target += "?" + qs
	}

	// density of forwarded headers: none / sparse / dense
	p := []int{0, 25, 45, 80}[r.Intn(4)]

	for _, name := range fwdNames {
		if !r.Chance(p) {
			continue
		}

		reps := 1
		if r.Chance(18) {
			reps = 2
		}

		for k := 0; k < reps; k++ {
			q.Headers = append(q.Headers, c09Hdr{c09Casing(r, name), vf.Pick(r, c09Values[name])})
		}
	}

	if r.Chance(50) {
		q.Headers = append(q.Headers, c09Hdr{c09Casing(r, "X-Custom"), "c1"})
	}

	if r.Chance(20) {
		q.Headers = append(q.Headers, c09Hdr{"Cookie", "a=b"})
	}

	// shuffle
	for i := len(q.Headers) - 1; i > 0; i-- {
		j := r.Intn(i + 1)
		q.Headers[i], q.Headers[j] = q.Headers[j], q.Headers[i]
	}

	return q
}

// variant: same request with the forwarded headers changed/removed (2-safety pairs
// end up in the same stream; the evaluator checks each against the model, and
// the model theorem links them)
func c09Raw(q c09Req) string {
	var sb strings.Builder

	sb.WriteString(q.Method + " " + q.Target + " HTTP/1.1\r\nHost: " + q.Host + "\r\n")

	for _, h := range q.Headers {
		sb.WriteString(h.Name + ": " + h.Value + "\r\n")
	}

	sb.WriteString("Connection: close\r\n\r\n")

	return sb.String()
}

// ---------------------------------------------------------------- observation

type c09View struct {
	Method  string      `json:"method"`
	Scheme  string      `json:"scheme"`
	Host    string      `json:"host"`
	RawPath string      `json:"rawpath"`
	Query   string      `json:"query"`
	IPs     []string    `json:"ips"`
	Hdrs    [][2]string `json:"hdrs"`   // forwarded names visible through Headers(): name, joined values
	PathOK  bool        `json:"pathok"` // Path == PathUnescape(RawPath) and Header(n) == Headers()[n] for the seven names
}

type c09Up struct {
	Method string     `json:"method"`
	URI    string     `json:"uri"`
	Hdrs   [][]string `json:"hdrs"` // name, values...
}

type c09Obs struct {
	Status int      `json:"status"`
	Rule   string   `json:"rule"`
	View   *c09View `json:"view,omitempty"`
	Up     *c09Up   `json:"up,omitempty"`
	Err    string   `json:"err,omitempty"`
}

func c09DecodeView(enc string) (*c09View, error) {
	raw, err := base64.StdEncoding.DecodeString(enc)
	if err != nil {
		return nil, err
	}

	var v struct {
		Method, Scheme, Host, Path, Rawpath, Query string
		IPs                                        []string          `json:"ips"`
		Hdrs                                       map[string]string `json:"hdrs"`
		H0, H1, H2, H3, H4, H5, H6                 string
	}

	if err = json.Unmarshal(raw, &v); err != nil {
		return nil, err
	}

	out := &c09View{Method: v.Method, Scheme: v.Scheme, Host: v.Host, RawPath: v.Rawpath, Query: v.Query, IPs: v.IPs, PathOK: true}
	if out.IPs == nil {
		out.IPs = []string{}
	}

	if p, _ := url.PathUnescape(v.Rawpath); p != v.Path {
		out.PathOK = false
	}

	single := []string{v.H0, v.H1, v.H2, v.H3, v.H4, v.H5, v.H6}

	for i, n := range fwdNames {
		val, ok := v.Hdrs[n]
		if ok {
			out.Hdrs = append(out.Hdrs, [2]string{n, val})
		}

		if single[i] != val {
			out.PathOK = false
		}
	}

	for k := range v.Hdrs { // a forwarded name under a non-canonical key would be a leak
		if http.CanonicalHeaderKey(k) != k {
			out.PathOK = false
		}
	}

	return out, nil
}

func c09UpOf(rec assembly.Recorded) *c09Up {
	up := &c09Up{Method: rec.Method, URI: rec.RequestURI}

	for _, n := range fwdNames {
		if vs, ok := rec.Header[n]; ok {
			up.Hdrs = append(up.Hdrs, append([]string{n}, vs...))
		}
	}

	return up
}

type c09Env struct {
	up  *assembly.Upstream
	dec map[string]*assembly.HandlerApp
}

func c09ObserveHandler(app *assembly.HandlerApp, up *assembly.Upstream, c c09Case) c09Obs {
	req, err := assembly.ParseRaw(c09Raw(c.Req), c.Req.Peer, c.Req.TLS)
	if err != nil {
		return c09Obs{Status: -1, Err: "parse: " + err.Error()}
	}

	up.Take()

	rec := app.Serve(req)
	o := c09Obs{Status: rec.Code}

	if c.Proxy {
		seen := up.Take()
		if len(seen) == 1 {
			o.Up = c09UpOf(seen[0])
			o.Rule = seen[0].Get("X-V-Rule")

			if v, err := c09DecodeView(seen[0].Get("X-V")); err == nil {
				o.View = v
			} else {
				o.Err = "view: " + err.Error()
			}
		} else if len(seen) > 1 {
			o.Err = fmt.Sprintf("upstream saw %d requests", len(seen))
		}

		return o
	}

	o.Rule = rec.Header().Get("X-V-Rule")

	if enc := rec.Header().Get("X-V"); enc != "" {
		if v, err := c09DecodeView(enc); err == nil {
			o.View = v
		} else {
			o.Err = "view: " + err.Error()
		}
	}

	return o
}

func c09ObserveSocket(app *assembly.ListeningApp, up *assembly.Upstream, c c09Case) c09Obs {
	up.Take()

	local, _, _ := net.SplitHostPort(c.Req.Peer)

	out, err := app.RawRequestFrom(local, c09Raw(c.Req), 5*time.Second)
	if err != nil {
		return c09Obs{Status: -1, Err: "socket: " + err.Error()}
	}

	resp, err := http.ReadResponse(bufio.NewReader(strings.NewReader(out)), nil)
	if err != nil {
		return c09Obs{Status: -1, Err: "response: " + err.Error()}
	}
	defer resp.Body.Close()

	o := c09Obs{Status: resp.StatusCode}

	if c.Proxy {
		seen := up.Take()
		if len(seen) == 1 {
			o.Up = c09UpOf(seen[0])
			o.Rule = seen[0].Get("X-V-Rule")

			if v, err := c09DecodeView(seen[0].Get("X-V")); err == nil {
				o.View = v
			}
		}

		return o
	}

	o.Rule = resp.Header.Get("X-V-Rule")

	if enc := resp.Header.Get("X-V"); enc != "" {
		if v, err := c09DecodeView(enc); err == nil {
			o.View = v
		}
	}

	return o
}

// ---------------------------------------------------------------- Gallina rendering (with the parsing oracles)

func coqBytes(b []byte) string {
	items := make([]string, len(b))
	for i, x := range b {
		items[i] = fmt.Sprintf("%d", x)
	}

	return "[" + strings.Join(items, ";") + "]%N"
}

// the entry as trustedproxy.New sees it: "/" -> ParseCIDR, else ParseIP
func c09CoqEntry(e string) string {
	if strings.Contains(e, "/") {
		_, n, err := net.ParseCIDR(e)
		if err != nil {
			return "ECidrErr"
		}

		return "(ECidr " + coqBytes(n.IP) + " " + coqBytes(n.Mask) + ")"
	}

	return "(EIp " + coqBytes(net.ParseIP(e)) + ")"
}

type c09Oracle struct {
	peerHost string
	peerIP   net.IP
	escPath  string
	rawQuery string
	method   string
	host     string
	hdrs     [][2]string // canonical key, value in arrival order per key
	uri      *[2]string
	parseErr string
}

func c09OracleOf(c c09Case) c09Oracle {
	o := c09Oracle{}

	req, err := assembly.ParseRaw(c09Raw(c.Req), c.Req.Peer, c.Req.TLS)
	if err != nil {
		o.parseErr = err.Error()

		return o
	}

	o.peerHost = httpx.IPFromHostPort(c.Req.Peer)
	o.peerIP = net.ParseIP(o.peerHost)
	o.escPath = req.URL.EscapedPath()
	o.rawQuery = req.URL.RawQuery
	o.method = req.Method
	o.host = req.Host

	keys := make([]string, 0, len(req.Header))
	for k := range req.Header {
		keys = append(keys, k)
	}

	sort.Strings(keys)

	for _, k := range keys {
		if k == "Connection" {
			continue
		}

		for _, v := range req.Header[k] {
			o.hdrs = append(o.hdrs, [2]string{k, v})
		}
	}

	if val := req.Header.Get("X-Forwarded-Uri"); val != "" {
		if u, err := url.Parse(val); err == nil {
			o.uri = &[2]string{u.EscapedPath(), u.Query().Encode()}
		}
	}

	return o
}

func c09CoqPairs(ps [][2]string) string {
	return vf.CoqListOf(ps, func(p [2]string) string { return vf.CoqPair(vf.CoqStr(p[0]), vf.CoqStr(p[1])) })
}

func c09CoqObs(o c09Obs) string {
	view := "None"
	if o.View != nil {
		v := o.View
		view = "(Some " + vf.CoqApp("vw", vf.CoqStr(v.Method), vf.CoqStr(v.Scheme), vf.CoqStr(v.Host), vf.CoqStr(v.RawPath),
			vf.CoqStr(v.Query), vf.CoqStrs(v.IPs), c09CoqPairs(v.Hdrs), vf.CoqBool(v.PathOK)) + ")"
	}

	up := "None"
	if o.Up != nil {
		hs := vf.CoqListOf(o.Up.Hdrs, func(h []string) string { return vf.CoqPair(vf.CoqStr(h[0]), vf.CoqStrs(h[1:])) })
		up = "(Some " + vf.CoqApp("upv", vf.CoqStr(o.Up.Method), vf.CoqStr(o.Up.URI), hs) + ")"
	}

	return vf.CoqApp("ob", vf.CoqZ(int64(o.Status)), vf.CoqStr(o.Rule), view, up)
}

func c09Coq(c c09Case, trusted []string, or c09Oracle, o c09Obs) string {
	uri := "None"
	if or.uri != nil {
		uri = "(Some " + vf.CoqPair(vf.CoqStr(or.uri[0]), vf.CoqStr(or.uri[1])) + ")"
	}

	conn := vf.CoqApp("cn", vf.CoqStr(or.peerHost), vf.CoqBool(c.Req.TLS), vf.CoqStr(or.method), vf.CoqStr(or.host),
		vf.CoqStr(or.escPath), vf.CoqStr(or.rawQuery))

	return vf.CoqApp("cs", vf.CoqBool(c.Proxy), vf.CoqListOf(trusted, c09CoqEntry), coqBytes(or.peerIP), conn,
		c09CoqPairs(or.hdrs), uri, c09CoqObs(o))
}

// ---------------------------------------------------------------- classification (input histogram, non-triviality)

func c09Tags(c c09Case, trusted []string, or c09Oracle, o c09Obs) ([]string, bool) {
	tags := []string{}
	add := func(s string) { tags = append(tags, s) }

	if c.Proxy {
		add("mode:proxy")
	} else {
		add("mode:decision")
	}

	if c.Req.Socket {
		add("transport:socket")
	} else {
		add("transport:inprocess")
	}

	// trust, computed by the real net package independently of heimdall (oracle for the histogram only)
	isTrusted := false
	hasBadEntry := false

	for _, e := range trusted {
		if strings.Contains(e, "/") {
			if _, n, err := net.ParseCIDR(e); err == nil {
				add("entry:cidr")

				if or.peerIP != nil && n.Contains(or.peerIP) {
					isTrusted = true
				}
			} else {
				add("entry:bad-cidr")
			}
		} else if ip := net.ParseIP(e); ip != nil {
			add("entry:ip")

			if or.peerIP != nil && ip.Equal(or.peerIP) {
				isTrusted = true
			}
		} else {
			add("entry:bad-ip")

			hasBadEntry = true
		}
	}

	if len(trusted) == 0 {
		add("entry:none")
	}

	switch {
	case or.peerIP == nil:
		add("peer:unparsable")
	case or.peerIP.To4() != nil && strings.Contains(or.peerHost, ":"):
		add("peer:v4-mapped")
	case or.peerIP.To4() != nil:
		add("peer:v4")
	default:
		add("peer:v6")
	}

	if or.peerIP == nil && hasBadEntry {
		add("site:F1-bad-entry-and-bad-peer")
	}

	nf := 0
	repeated := false
	oddCase := false
	count := map[string]int{}

	for _, h := range c.Req.Headers {
		cn := http.CanonicalHeaderKey(h.Name)
		for _, n := range fwdNames {
			if cn == n {
				nf++
				count[n]++

				if count[n] > 1 {
					repeated = true
				}

				if h.Name != n {
					oddCase = true
				}

				add("hdr:" + n)
			}
		}
	}

	add(fmt.Sprintf("fwd-headers:%d", min(nf, 5)))

	if repeated {
		add("hdr:repeated")
	}

	if oddCase {
		add("hdr:odd-casing")
	}

	if isTrusted {
		add("trust:trusted")
	} else {
		add("trust:untrusted")
	}

	if c.Req.TLS {
		add("conn:tls")
	}

	add(fmt.Sprintf("status:%d", o.Status))

	if o.Rule != "" {
		add("rule:" + o.Rule)
	}

	// code sites of DESIGN 6.20a
	if nf > 0 && !isTrusted {
		add("site:strip")
	}

	if nf > 0 && isTrusted {
		add("site:extract-from-headers")
	}

	if c.Proxy && o.Up != nil {
		add("site:rewriteRequest-forwarded-block")
	}

	// non-trivial: at least one forwarded header present (so stripping / overriding has something to do)
	return tags, nf > 0
}

// ---------------------------------------------------------------- corpus

func c09Corpus() []c09Case {
	h := func(kv ...string) []c09Hdr {
		out := []c09Hdr{}
		for i := 0; i+1 < len(kv); i += 2 {
			out = append(out, c09Hdr{kv[i], kv[i+1]})
		}

		return out
	}
	spoof := h("X-Forwarded-Method", "POST", "X-Forwarded-Uri", "/pst/a?x=1", "X-Forwarded-Host", "evil.example.com",
		"X-Forwarded-Proto", "https", "X-Forwarded-For", "1.1.1.1", "Forwarded", "for=6.6.6.6", "X-Forwarded-Path", "/x")

	var out []c09Case

	for _, proxy := range []bool{false, true} {
		out = append(out,
			// C09-F1 witness: unparsable entry + unparsable (zoned IPv6) peer => trusted
			c09Case{Proxy: proxy, Trusted: []string{"not-an-ip"}, SetTrusted: true,
				Req: c09Req{Peer: "[fe80::1%eth0]:1234", Method: "GET", Target: "/pub/a", Host: "a.example.com", Headers: spoof}},
			// same with a unix-socket style peer
			c09Case{Proxy: proxy, Trusted: []string{"10.0.0.1", "fe80::1%eth0"}, SetTrusted: true,
				Req: c09Req{Peer: "@", Method: "GET", Target: "/pub/a", Host: "a.example.com", Headers: spoof}},
			// unparsable peer, only valid entries: untrusted
			c09Case{Proxy: proxy, Trusted: []string{"10.0.0.1", "::/0", "0.0.0.0/0"}, SetTrusted: true,
				Req: c09Req{Peer: "[fe80::1%eth0]:1234", Method: "GET", Target: "/pub/a", Host: "a.example.com", Headers: spoof}},
			// untrusted peer, everything spoofed, odd casing
			c09Case{Proxy: proxy, Trusted: []string{"10.0.0.0/8"}, SetTrusted: true,
				Req: c09Req{Peer: "8.8.4.4:53", Method: "GET", Target: "/pub/a?x=1", Host: "a.example.com",
					Headers: h("x-forwarded-method", "POST", "X-FORWARDED-URI", "/pst/a", "x-Forwarded-hOST", "evil.example.com",
						"X-forwarded-proto", "https", "x-forwarded-for", "1.1.1.1", "FORWARDED", "for=6.6.6.6", "x-forwarded-path", "/x")}},
			// trusted peer, everything set
			c09Case{Proxy: proxy, Trusted: []string{"10.0.0.0/8"}, SetTrusted: true,
				Req: c09Req{Peer: "10.1.2.3:80", Method: "GET", Target: "/pub/a?x=1", Host: "a.example.com", Headers: spoof}},
			// trusted IPv4-mapped peer against an IPv4 entry; only X-Forwarded-For
			c09Case{Proxy: proxy, Trusted: []string{"10.0.0.1"}, SetTrusted: true,
				Req: c09Req{Peer: "[::ffff:10.0.0.1]:99", Method: "POST", Target: "/pst/a", Host: "b.example.com:8080",
					Headers: h("X-Forwarded-For", "1.1.1.1, 2.2.2.2")}},
			// no trusted proxies at all
			c09Case{Proxy: proxy, Req: c09Req{Peer: "127.0.0.1:40000", Method: "GET", Target: "/sec/a", Host: "a.example.com",
				Headers: h("X-Forwarded-Proto", "https")}},
			// trusted, path-only X-Forwarded-Uri keeps the actual query; unparsable one falls back
			c09Case{Proxy: proxy, Trusted: []string{"0.0.0.0/0"}, SetTrusted: true,
				Req: c09Req{Peer: "10.0.0.1:1234", Method: "GET", Target: "/other?x=1", Host: "a.example.com",
					Headers: h("X-Forwarded-Uri", "/any/a")}},
			c09Case{Proxy: proxy, Trusted: []string{"0.0.0.0/0"}, SetTrusted: true,
				Req: c09Req{Peer: "10.0.0.1:1234", Method: "GET", Target: "/any/a", Host: "a.example.com",
					Headers: h("X-Forwarded-Uri", "%zz", "X-Forwarded-Uri", "/pub/a")}},
		)
	}

	return out
}

// ---------------------------------------------------------------- the test

func TestVerifC09(t *testing.T) {
	w := vf.NewWriter()
	defer w.Close()

	up := assembly.NewUpstream()
	defer up.Close()

	rules := c09RulesYAML(up.Host)
	root := vf.NewRand(vf.Seed())
	n := vf.N(600)
	idx := 0

	type appKey struct {
		proxy bool
		cfg   string
	}

	apps := map[appKey]*assembly.HandlerApp{}

	defer func() {
		for _, a := range apps {
			a.Stop()
		}
	}()

	handlerFor := func(c c09Case) *assembly.HandlerApp {
		cfg := c09Config(c.Proxy, c.Trusted, c.SetTrusted)
		k := appKey{c.Proxy, cfg}

		if a, ok := apps[k]; ok {
			return a
		}

		a, err := assembly.StartHandler(map[bool]assembly.Mode{false: assembly.Decision, true: assembly.Proxy}[c.Proxy], cfg, rules)
		if err != nil {
			t.Fatalf("case %d: cannot start app: %v\n%s", idx, err, cfg)
		}

		if len(apps) > 40 { // keep the number of live apps bounded
			for kk, old := range apps {
				old.Stop()
				delete(apps, kk)

				break
			}
		}

		apps[k] = a

		return a
	}

	loaded := func(a *assembly.HandlerApp, proxy bool) []string {
		sc := a.Conf.Serve.Decision
		if proxy {
			sc = a.Conf.Serve.Proxy
		}

		if sc.TrustedProxies == nil {
			return nil
		}

		return *sc.TrustedProxies
	}

	emit := func(stream string, c c09Case) {
		defer func() { idx++ }()

		if !vf.Want(idx) {
			return
		}

		or := c09OracleOf(c)
		if or.parseErr != "" {
			// net/http refuses the request before heimdall sees it: not a case
			return
		}

		app := handlerFor(c)
		trusted := loaded(app, c.Proxy)
		o := c09ObserveHandler(app, up, c)
		tags, nt := c09Tags(c, trusted, or, o)

		w.Put(vf.Obs{I: idx, Stream: stream, In: c, Out: o, Coq: c09Coq(c, trusted, or, o), Nontrivial: nt, Tags: tags})
	}

	for _, c := range c09Corpus() {
		emit("corpus", c)
	}

	// generated: one trusted_proxies list per group, several peers x header sets per list
	const perList = 12

	for g := 0; idx < n+len(c09Corpus())-c09SocketCases; g++ {
		gr := root.Fork(uint64(g))
		trusted, set := c09GenTrusted(gr)
		proxy := gr.Bool()

		for k := 0; k < perList && idx < n+len(c09Corpus())-c09SocketCases; k++ {
			c := c09Case{Proxy: proxy, Trusted: trusted, SetTrusted: set, Req: c09GenReq(gr.Fork(uint64(1000 + k)))}

			// aim half of the peers at the list (so that trusted cases are frequent)
			if len(trusted) > 0 && gr.Chance(45) {
				c.Req.Peer = c09PeerFor(gr, vf.Pick(gr, trusted), c.Req.Peer)
			}

			emit("generated", c)
		}
	}

	// real sockets: the assembled services listening on 127.0.0.1, peers 127.0.0.x / 127.0.1.x
	c09SocketStream(t, w, up, rules, root, &idx)
}

// a peer address that the entry covers, when the entry is valid
func c09PeerFor(r *vf.Rand, entry, def string) string {
	if strings.Contains(entry, "/") {
		_, n, err := net.ParseCIDR(entry)
		if err != nil {
			return def
		}

		ip := make(net.IP, len(n.IP))
		copy(ip, n.IP)

		for i := range ip { // random host bits
			ip[i] |= ^n.Mask[i] & byte(r.Intn(256))
		}

		return net.JoinHostPort(ip.String(), "4711")
	}

	ip := net.ParseIP(entry)
	if ip == nil {
		return vf.Pick(r, c09BadPeers)
	}

	if v4 := ip.To4(); v4 != nil && r.Chance(30) {
		return "[::ffff:" + v4.String() + "]:4711"
	}

	return net.JoinHostPort(ip.String(), "4711")
}

const c09SocketCases = 40

func c09SocketStream(t *testing.T, w *vf.Writer, up *assembly.Upstream, rules string, root *vf.Rand, idx *int) {
	lists := [][]string{{"127.0.0.2"}, {"127.0.1.0/24", "not-an-ip"}, {}, {"::ffff:127.0.0.3", "10.0.0.0/8"}}
	locals := []string{"127.0.0.1", "127.0.0.2", "127.0.0.3", "127.0.1.5", "127.0.2.5"}
	per := c09SocketCases / (2 * len(lists))

	for li, trusted := range lists {
		for _, proxy := range []bool{false, true} {
			need := false
			for k := 0; k < per; k++ {
				if vf.Want(*idx + k) {
					need = true
				}
			}

			if !need {
				*idx += per

				continue
			}

			cfg := c09Config(proxy, trusted, true)
			mode := assembly.Decision

			if proxy {
				mode = assembly.Proxy
			}

			// heimdall's own http.Server object on a listener the harness holds (no free-port race)
			app, err := assembly.StartListening(mode, cfg, rules)
			if err != nil {
				t.Fatalf("socket stream: %v", err)
			}

			for k := 0; k < per; k++ {
				if vf.Want(*idx) {
					r := root.Fork(uint64(900000 + li*100 + k))
					c := c09Case{Proxy: proxy, Trusted: trusted, SetTrusted: true, Req: c09GenReq(r)}
					c.Req.Socket = true
					c.Req.TLS = false
					local := vf.Pick(r, locals)
					c.Req.Peer = local + ":0"

					or := c09OracleOf(c)
					if or.parseErr == "" {
						o := c09ObserveSocket(app, up, c)
						tags, nt := c09Tags(c, trusted, or, o)
						w.Put(vf.Obs{I: *idx, Stream: "socket", In: c, Out: o, Coq: c09Coq(c, trusted, or, o), Nontrivial: nt, Tags: tags})
					}
				}

				*idx++
			}

			app.Stop()
		}
	}
}
